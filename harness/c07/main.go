// C07 harness: x509.(*Certificate).Verify / ValidateWithStupidDetail /
// checkChainForKeyUsage / FilterByDate on generated PKIs (roots,
// intermediates, leaves, cross-signs, loops, shared subjects and key ids, bad
// signatures, CA flags, path lengths, EKUs, validity windows) x verification
// options.  Prints correspondence cases for coq/model/C07.v and validates every
// returned chain link by link on the implementation alone (oracle).
package main

import (
	"bytes"
	"encoding/json"
	"fmt"
	"net"
	"sort"
	"strings"
	"time"

	"github.com/zmap/zcrypto/encoding/asn1"
	"github.com/zmap/zcrypto/x509"
	"verifharness/c07/pki"
	"verifharness/vh"
)

type queryIn struct {
	Leaf   int    `json:"leaf"`
	Roots  []int  `json:"roots"`
	Inters []int  `json:"inters"`
	Now    int64  `json:"now"`
	KU     []int  `json:"ku"` // abstract codes, see pki.Spec.EKU
	DNS    string `json:"dns"`
	Stupid bool   `json:"stupid,omitempty"`
}
type input struct {
	Univ    []pki.Spec `json:"univ"`
	Queries []queryIn  `json:"queries"`
	KChain  [][]int    `json:"kchain,omitempty"` // checkChainForKeyUsage alone: EKU codes per certificate (-1 = one unknown OID), leaf first
	KReq    []int      `json:"kreq,omitempty"`
	KValid  []int      `json:"kvalid,omitempty"` // isValid alone: type, bc, ca, pathLen, chain length
}

type world struct {
	u  *pki.Universe
	xs []*x509.Certificate
}

func build(specs []pki.Spec) (*world, error) {
	w := &world{u: pki.NewUniverse()}
	for _, s := range specs {
		i, err := w.u.Add(s)
		if err != nil {
			return nil, err
		}
		w.xs = append(w.xs, w.u.Certs[i].X)
	}
	return w, nil
}

// ---------- error classes ----------
func errCode(err error) uint64 {
	switch e := err.(type) {
	case nil:
		return 0
	case x509.CertificateInvalidError:
		return 10 + uint64(e.Reason)
	case x509.UnknownAuthorityError:
		return 1
	case x509.HostnameError:
		return 2
	}
	return 3
}

// ---------- the property, restated on the implementation alone ----------
func supports(c *x509.Certificate, u x509.ExtKeyUsage) bool {
	for _, e := range c.ExtKeyUsage {
		if e == u {
			return true
		}
		if u == x509.ExtKeyUsageServerAuth && (e == x509.ExtKeyUsageNetscapeServerGatedCrypto || e == x509.ExtKeyUsageMicrosoftServerGatedCrypto) {
			return true
		}
	}
	return false
}

func unrestricted(c *x509.Certificate) bool {
	if len(c.ExtKeyUsage) == 0 && len(c.UnknownExtKeyUsage) == 0 {
		return true
	}
	for _, e := range c.ExtKeyUsage {
		if e == x509.ExtKeyUsageAny {
			return true
		}
	}
	return false
}

// some requested usage is acceptable to every certificate of the chain
func ekuAdmissible(ch []*x509.Certificate, req []x509.ExtKeyUsage) bool {
	if len(req) == 0 {
		return true
	}
	for _, u := range req {
		ok := true
		for _, c := range ch {
			if !unrestricted(c) && !supports(c, u) {
				ok = false
			}
		}
		if ok {
			return true
		}
	}
	return false
}

func window(ch []*x509.Certificate) (lo, hi time.Time) {
	lo, hi = ch[0].NotBefore, ch[0].NotAfter
	for _, c := range ch[1:] {
		if c.NotBefore.After(lo) {
			lo = c.NotBefore
		}
		if c.NotAfter.Before(hi) {
			hi = c.NotAfter
		}
	}
	return
}

// validChain returns "" or (key, what fails)
func validChain(c *x509.Certificate, roots *x509.CertPool, ch []*x509.Certificate, req []x509.ExtKeyUsage, anyOK bool) (string, string) {
	if len(ch) == 0 {
		return "chain-empty", "empty chain returned"
	}
	if !bytes.Equal(ch[0].Raw, c.Raw) {
		return "chain-head", "chain does not start at the verified certificate"
	}
	if !roots.Contains(ch[len(ch)-1]) {
		return "chain-root", "chain does not end at a certificate of the supplied roots"
	}
	for i := 0; i+1 < len(ch); i++ {
		if !bytes.Equal(ch[i].RawIssuer, ch[i+1].RawSubject) {
			return "chain-link-name", fmt.Sprintf("issuer of element %d is not the subject of element %d", i, i+1)
		}
		if err := ch[i].CheckSignatureFrom(ch[i+1]); err != nil {
			return "chain-link-signature", fmt.Sprintf("element %d is not validly signed by element %d: %v", i, i+1, err)
		}
	}
	for i := 1; i < len(ch); i++ {
		x := ch[i]
		if i < len(ch)-1 && (!x.BasicConstraintsValid || !x.IsCA) {
			return "chain-not-ca", fmt.Sprintf("intermediate at position %d is not a CA certificate", i)
		}
		if x.BasicConstraintsValid && x.MaxPathLen >= 0 && i-1 > x.MaxPathLen {
			return "chain-pathlen", fmt.Sprintf("element %d has pathLen %d but %d intermediates below it", i, x.MaxPathLen, i-1)
		}
	}
	for i := range ch {
		for j := i + 1; j < len(ch); j++ {
			if bytes.Equal(ch[i].Raw, ch[j].Raw) {
				return "chain-repeat", fmt.Sprintf("elements %d and %d are the same certificate", i, j)
			}
		}
	}
	if !anyOK && !ekuAdmissible(ch, req) {
		return "chain-eku", "no requested extended key usage is acceptable to every certificate of the chain"
	}
	return "", ""
}

// ---------- running one query ----------
func (w *world) pool(idx []int) *x509.CertPool {
	p := x509.NewCertPool()
	for _, i := range idx {
		p.AddCert(w.xs[i])
	}
	return p
}

func (w *world) fpChains(chs []x509.CertificateChain) string {
	out := make([]string, len(chs))
	for i, ch := range chs {
		fs := make([]string, len(ch))
		for j, x := range ch {
			fs[j] = vh.NI(w.u.FP(x))
		}
		out[i] = vh.List0(fs, "N")
	}
	return vh.List0(out, "(list N)")
}

func nats(xs []int) string {
	o := make([]string, len(xs))
	for i, x := range xs {
		o[i] = vh.Nat(x)
	}
	return vh.List0(o, "nat")
}

func optIP(s string) string {
	ip := net.ParseIP(s)
	if ip == nil {
		return "None"
	}
	return vh.Some(vh.Bytes(ip))
}

func queried(h string) string {
	if h == "" {
		return "(@nil (bytes * option bytes))"
	}
	seen := map[string]bool{}
	var xs []string
	add := func(s string) {
		if !seen[s] {
			seen[s] = true
			xs = append(xs, vh.Pair(vh.Str(s), optIP(s)))
		}
	}
	add(h)
	add(h[1:])
	add(h[:len(h)-1])
	if len(h) >= 2 {
		add(h[1 : len(h)-1])
	}
	return vh.List(xs)
}

type violation struct{ key, txt string }

func (w *world) runQuery(c *vh.Ctx, q queryIn) (term string, v *violation) {
	defer func() {
		if r := recover(); r != nil {
			// a panic inside Verify is reported with the query that caused it; the case term makes
			// the model disagree as well
			term = fmt.Sprintf("(mkQuery %s %s %s %s (@nil N) %s %s false (@nil (list N)) (@nil (list N)) (@nil (list N)) 999%%N 0%%N)",
				vh.Nat(q.Leaf), nats(q.Roots), nats(q.Inters), vh.Z(q.Now), vh.Str(q.DNS), queried(q.DNS))
			v = &violation{"verify-panics", fmt.Sprintf("panic: %v", r)}
		}
	}()
	leaf := w.xs[q.Leaf]
	roots, inters := w.pool(q.Roots), w.pool(q.Inters)
	var req []x509.ExtKeyUsage
	var kus []string
	anyOK := false
	for _, k := range q.KU {
		u := pki.EKU(k)
		req = append(req, u)
		kus = append(kus, vh.N(pki.EKUCode(u)))
		if u == x509.ExtKeyUsageAny {
			anyOK = true
		}
	}
	// Now == 0 stands for a zero VerifyOptions.CurrentTime ("the current time is used"); the
	// model and the oracle then get the wall clock (meaningful only with windows far from it)
	eff := q.Now
	var ct time.Time
	if q.Now == 0 {
		eff = time.Now().Unix()
	} else {
		ct = time.Unix(q.Now, 0)
	}
	opts := x509.VerifyOptions{Roots: roots, Intermediates: inters, CurrentTime: ct, KeyUsages: req, DNSName: q.DNS}
	var viol *violation
	setV := func(k, t string) {
		if viol == nil && k != "" {
			viol = &violation{k, t}
		}
	}
	now := time.Unix(eff, 0)
	head := fmt.Sprintf("mkQuery %s %s %s %s %s %s %s", vh.Nat(q.Leaf), nats(q.Roots), nats(q.Inters), vh.Z(eff), vh.List0(kus, "N"), vh.Str(q.DNS), queried(q.DNS))
	if q.Stupid {
		chains, val, err := leaf.ValidateWithStupidDetail(opts)
		flags := 0
		if val.BrowserTrusted {
			flags |= 1
		}
		if val.MatchesDomain {
			flags |= 2
		}
		for _, ch := range chains {
			setV(validChain(leaf, roots, ch, []x509.ExtKeyUsage{x509.ExtKeyUsageServerAuth}, false))
		}
		nameOK := q.DNS == "" || leaf.VerifyHostname(q.DNS) == nil
		if err == nil && (len(chains) == 0 || !nameOK) {
			setV("stupid-nil-error", fmt.Sprintf("ValidateWithStupidDetail: nil error with %d current chains, name ok = %v", len(chains), nameOK))
		}
		if val.BrowserTrusted && len(chains) == 0 {
			setV("stupid-trusted", "BrowserTrusted without a current chain")
		}
		if q.DNS != "" && val.MatchesDomain != nameOK {
			setV("stupid-matches", fmt.Sprintf("MatchesDomain = %v, VerifyHostname ok = %v", val.MatchesDomain, nameOK))
		}
		c.Stat(fmt.Sprintf("stupid.err.%d", errCode(err)), 1)
		return fmt.Sprintf("(%s true %s (@nil (list N)) (@nil (list N)) %s %s)", head, w.fpChains(chains), vh.N(errCode(err)), vh.NI(flags)), viol
	}
	cur, exp, nev, err := leaf.Verify(opts)
	effReq := req
	if len(effReq) == 0 {
		effReq = []x509.ExtKeyUsage{x509.ExtKeyUsageServerAuth}
	}
	for li, l := range [][]x509.CertificateChain{cur, exp, nev} {
		for _, ch := range l {
			setV(validChain(leaf, roots, ch, effReq, anyOK))
			if viol != nil {
				break
			}
			lo, hi := window(ch)
			isCur := lo.Before(now) && now.Before(hi)
			was := lo.Before(hi)
			want := 2
			if isCur {
				want = 0
			} else if was {
				want = 1
			}
			if want != li {
				setV("date-partition", fmt.Sprintf("chain with window [%d, %d] at time %d is in list %d (0 current, 1 expired, 2 never), should be in %d",
					lo.Unix(), hi.Unix(), eff, li, want))
			}
		}
	}
	if err == nil {
		if len(cur) == 0 {
			setV("nil-error-no-current", "nil error without a current chain")
		}
		if q.DNS != "" && leaf.VerifyHostname(q.DNS) != nil {
			setV("nil-error-hostname", "nil error although the requested DNS name does not match")
		}
	}
	c.Stat(fmt.Sprintf("err.%d", errCode(err)), 1)
	c.Stat("chains_returned", len(cur)+len(exp)+len(nev))
	if len(cur)+len(exp)+len(nev) > 1 {
		c.Stat("queries_with_several_chains", 1)
	}
	for _, l := range [][]x509.CertificateChain{cur, exp, nev} {
		for _, ch := range l {
			if len(ch) >= 4 {
				c.Stat("chains_len_ge_4", 1)
			}
		}
	}
	return fmt.Sprintf("(%s false %s %s %s %s 0%%N)", head, w.fpChains(cur), w.fpChains(exp), w.fpChains(nev), vh.N(errCode(err))), viol
}

func runCase(c *vh.Ctx, in input, stream string) {
	if len(in.KValid) == 5 {
		runValid(c, in.KValid[0], in.KValid[1] == 1, in.KValid[2] == 1, in.KValid[3], in.KValid[4])
		return
	}
	if in.KReq != nil {
		runK(c, in.KChain, in.KReq)
		return
	}
	w, err := build(in.Univ)
	if err != nil {
		c.Stat("universe_build_failed", 1)
		return
	}
	var qs []string
	reported := false
	for _, q := range in.Queries {
		term, v := w.runQuery(c, q)
		qs = append(qs, term)
		if v != nil && !reported {
			reported = true
			c.Violation(v.key, fmt.Sprintf("query %+v: %s", q, v.txt), stream, input{Univ: in.Univ, Queries: []queryIn{q}})
		}
	}
	us := make([]string, len(w.xs))
	for i, x := range w.xs {
		us[i] = w.u.Abs(x)
	}
	sig, _ := w.u.SigMatrix(w.xs)
	if !w.u.Consistent() {
		c.Note("fingerprint and raw bytes are not in bijection over the universe")
	}
	c.Case(stream, vh.Pair(vh.List0(us, "cert"), sig, vh.List0(qs, "query")), in, fmt.Sprintf("%v|%v", in.Univ, in.Queries))
}

// ---------- checkChainForKeyUsage alone ----------
func runK(c *vh.Ctx, chain [][]int, req []int) {
	var xs []*x509.Certificate
	var es []string
	for _, codes := range chain {
		x := &x509.Certificate{}
		var ek []string
		unk := 0
		for _, k := range codes {
			if k < 0 {
				x.UnknownExtKeyUsage = append(x.UnknownExtKeyUsage, asn1.ObjectIdentifier{1, 2, 3, 4})
				unk++
			} else {
				x.ExtKeyUsage = append(x.ExtKeyUsage, pki.EKU(k))
				ek = append(ek, vh.N(pki.EKUCode(pki.EKU(k))))
			}
		}
		xs = append(xs, x)
		es = append(es, vh.Pair(vh.List0(ek, "N"), vh.Nat(unk)))
	}
	var r []x509.ExtKeyUsage
	var rs []string
	for _, k := range req {
		r = append(r, pki.EKU(k))
		rs = append(rs, vh.N(pki.EKUCode(pki.EKU(k))))
	}
	got := x509.VerifCheckChainForKeyUsage(xs, r)
	in := input{KChain: chain, KReq: req}
	c.Case("kcase", vh.App("KEku", vh.List0(es, "(list N * nat)"), vh.List0(rs, "N"), vh.Bool(got)), in, fmt.Sprintf("%v|%v", chain, req))
	want := len(xs) > 0 && ekuAdmissible(xs, r)
	if got != want {
		c.Violation("eku-filter", fmt.Sprintf("checkChainForKeyUsage(EKUs %v leaf first, requested %v) = %v, some-usage-acceptable-to-all rule gives %v", chain, req, got, want), "kcase", in)
	}
}

// ---------- PKI generators ----------
var times = []int64{100, 200, 300, 400, 500, 600}

func ca(name, key, iss, sign int, serial int64) pki.Spec {
	return pki.Spec{Name: name, Key: key, IssName: iss, SignKey: sign, SKID: key, AKID: sign, BC: true, CA: true, MaxPath: -1,
		NB: 100, NA: 600, Serial: serial}
}
func leafSpec(name, key, iss, sign int, serial int64) pki.Spec {
	return pki.Spec{Name: name, Key: key, IssName: iss, SignKey: sign, SKID: -1, AKID: sign, BC: true, CA: false, MaxPath: -1,
		NB: 100, NA: 600, Serial: serial, DNS: []string{"a.example", "*.b.example"}}
}

func randWindow(c *vh.Ctx, s *pki.Spec) {
	switch c.Intn(4) {
	case 0: // wide
		s.NB, s.NA = 100, 600
	default:
		a, b := times[c.Intn(len(times))], times[c.Intn(len(times))]
		if c.Intn(8) != 0 && a > b {
			a, b = b, a
		}
		s.NB, s.NA = a, b
	}
}

func randEKU(c *vh.Ctx, s *pki.Spec) {
	switch c.Intn(9) {
	case 0:
		s.EKU = []int{1}
	case 1:
		s.EKU = []int{4}
	case 2:
		s.EKU = []int{0}
	case 3:
		s.EKU = []int{[]int{2, 3}[c.Intn(2)]}
	case 4:
		s.EKU = []int{4, 1}
	case 5:
		s.UnkEKU = 1
	}
}

type pkiShape struct {
	specs                 []pki.Spec
	roots, inters, leaves []int
}

func randPKI(c *vh.Ctx) pkiShape {
	var sh pkiShape
	serial := int64(1)
	add := func(s pki.Spec) int {
		s.Serial = serial
		serial++
		sh.specs = append(sh.specs, s)
		return len(sh.specs) - 1
	}
	nr := 1 + c.Intn(3)
	ni := c.Intn(6)
	if c.Thorough {
		ni = c.Intn(8)
	}
	nl := 1 + c.Intn(2)
	type caInfo struct{ name, key, skid int }
	var cas []caInfo
	for i := 0; i < nr; i++ {
		s := ca(i, i, i, i, 0)
		s.AKID = -1
		if c.Intn(4) == 0 {
			s.SKID = -1
		}
		if c.Intn(5) == 0 {
			s.MaxPath = c.Intn(3)
		}
		if c.Intn(12) == 0 {
			s.CA = false
		}
		if c.Intn(12) == 0 {
			s.BC = false
			s.CA = false
		}
		if c.Intn(3) == 0 {
			randWindow(c, &s)
		}
		if c.Intn(4) == 0 {
			randEKU(c, &s)
		}
		sh.roots = append(sh.roots, add(s))
		cas = append(cas, caInfo{s.Name, s.Key, s.SKID})
	}
	// intermediates may be issued by CAs that come later (loops) or by themselves
	for j := 0; j < ni; j++ {
		cas = append(cas, caInfo{3 + c.Intn(4), 3 + j, 3 + j})
		if j > 0 && c.Intn(4) == 0 { // cross-sign / re-issue: same name and key as an earlier CA
			cas[nr+j] = cas[c.Intn(nr+j)]
		}
	}
	for j := 0; j < ni; j++ {
		me := cas[nr+j]
		iss := cas[c.Intn(len(cas))]
		s := ca(me.name, me.key, iss.name, iss.key, 0)
		s.SKID, s.AKID = me.skid, iss.skid
		switch c.Intn(10) {
		case 0:
			s.AKID = -1
		case 1:
			s.AKID = c.Intn(6)
		}
		if c.Intn(6) == 0 {
			s.SKID = -1
		}
		if c.Intn(10) == 0 {
			s.SignKey = c.Intn(6) // wrong key: signature does not verify
		}
		if c.Intn(12) == 0 {
			s.BadSig = true
		}
		if c.Intn(4) == 0 {
			s.MaxPath = c.Intn(3)
		}
		if c.Intn(10) == 0 {
			s.CA = false
		}
		if c.Intn(14) == 0 {
			s.BC, s.CA = false, false
		}
		if c.Intn(10) == 0 {
			s.KU = []int{1, 32, 33}[c.Intn(3)]
		}
		if c.Intn(3) == 0 {
			randWindow(c, &s)
		}
		if c.Intn(3) == 0 {
			randEKU(c, &s)
		}
		sh.inters = append(sh.inters, add(s))
	}
	for k := 0; k < nl; k++ {
		iss := cas[c.Intn(len(cas))]
		s := leafSpec(10+k, 10+k, iss.name, iss.key, 0)
		s.AKID = iss.skid
		if c.Intn(8) == 0 {
			s.AKID = -1
		}
		if c.Intn(5) == 0 {
			s.BC = false
		}
		if c.Intn(12) == 0 {
			s.BadSig = true
		}
		if c.Intn(2) == 0 {
			randWindow(c, &s)
		}
		if c.Intn(2) == 0 {
			randEKU(c, &s)
		}
		if c.Intn(10) == 0 { // self-signed leaf
			s.IssName, s.SignKey, s.AKID = s.Name, s.Key, -1
		}
		sh.leaves = append(sh.leaves, add(s))
	}
	return sh
}

var kuSets = [][]int{{}, {1}, {4}, {0}, {4, 1}, {5, 6}, {1, 4}, {6, 0}}
var dnsNames = []string{"", "", "a.example", "x.b.example", "A.EXAMPLE.", "c.example", "b.example", "[::1]"}

func shuffle(c *vh.Ctx, xs []int) []int {
	o := append([]int{}, xs...)
	for i := len(o) - 1; i > 0; i-- {
		j := c.Intn(i + 1)
		o[i], o[j] = o[j], o[i]
	}
	return o
}

func randQueries(c *vh.Ctx, sh pkiShape, n int) []queryIn {
	// interesting times: every boundary and its neighbours
	tset := map[int64]bool{}
	for _, s := range sh.specs {
		for _, t := range []int64{s.NB, s.NA} {
			tset[t-1], tset[t], tset[t+1] = true, true, true
		}
	}
	var ts []int64
	for t := range tset {
		ts = append(ts, t)
	}
	sort.Slice(ts, func(i, j int) bool { return ts[i] < ts[j] })
	var qs []queryIn
	for i := 0; i < n; i++ {
		q := queryIn{Now: ts[c.Intn(len(ts))], KU: kuSets[c.Intn(len(kuSets))], DNS: dnsNames[c.Intn(len(dnsNames))]}
		switch c.Intn(8) {
		case 0:
			if len(sh.inters) > 0 {
				q.Leaf = sh.inters[c.Intn(len(sh.inters))]
			} else {
				q.Leaf = sh.leaves[0]
			}
		case 1:
			q.Leaf = sh.roots[c.Intn(len(sh.roots))]
		default:
			q.Leaf = sh.leaves[c.Intn(len(sh.leaves))]
		}
		q.Roots = append([]int{}, sh.roots...)
		q.Inters = append([]int{}, sh.inters...)
		if c.Intn(3) == 0 {
			q.Inters = shuffle(c, q.Inters)
		}
		switch c.Intn(10) {
		case 0: // a subset of the roots
			q.Roots = shuffle(c, q.Roots)[:1+c.Intn(len(q.Roots))]
		case 1: // an intermediate as trust anchor
			if len(sh.inters) > 0 {
				q.Roots = append(q.Roots, sh.inters[c.Intn(len(sh.inters))])
			}
		case 2: // the leaf itself is trusted
			q.Roots = append(q.Roots, q.Leaf)
		case 3: // roots also offered as intermediates, and the leaf
			q.Inters = append(append(q.Inters, sh.roots...), q.Leaf)
		case 4:
			q.Roots = []int{}
		}
		if c.Intn(6) == 0 {
			q.Stupid = true
		}
		if q.Roots == nil {
			q.Roots = []int{}
		}
		if q.Inters == nil {
			q.Inters = []int{}
		}
		qs = append(qs, q)
	}
	return qs
}

// hand-made shapes
func structured() []input {
	var out []input
	all := func(n int) []int {
		o := make([]int, n)
		for i := range o {
			o[i] = i
		}
		return o
	}
	q := func(leaf int, roots, inters []int, now int64, ku []int, dns string) queryIn {
		return queryIn{Leaf: leaf, Roots: roots, Inters: inters, Now: now, KU: ku, DNS: dns}
	}
	// 1. linear chains R - I1 .. Ik - L for k = 0..12 (maxIntermediateCount boundary), and path lengths
	for _, k := range []int{0, 1, 2, 8, 9, 10, 11, 12} {
		specs := []pki.Spec{ca(0, 0, 0, 0, 1)}
		for i := 1; i <= k; i++ {
			specs = append(specs, ca(i, i, i-1, i-1, int64(i+1)))
		}
		specs = append(specs, leafSpec(50, 50, k, k, 99))
		n := len(specs)
		in := input{Univ: specs}
		var inters []int
		for i := 1; i <= k; i++ {
			inters = append(inters, i)
		}
		if inters == nil {
			inters = []int{}
		}
		in.Queries = append(in.Queries, q(n-1, []int{0}, inters, 300, []int{}, "a.example"), q(n-1, []int{0}, inters, 300, []int{0}, "nomatch.example"),
			q(n-1, []int{0}, inters, 600, []int{1}, ""), q(n-1, []int{0}, inters, 99, []int{1}, ""))
		st := q(n-1, []int{0}, inters, 300, []int{}, "x.b.example")
		st.Stupid = true
		in.Queries = append(in.Queries, st)
		out = append(out, in)
	}
	for _, pl := range [][3]int{{0, -1, -1}, {1, -1, -1}, {2, 0, -1}, {-1, 1, 0}, {-1, 0, 0}, {-1, -1, 0}, {1, 1, 1}, {2, 1, 0}} {
		r, i1, i2, i3 := ca(0, 0, 0, 0, 1), ca(1, 1, 0, 0, 2), ca(2, 2, 1, 1, 3), ca(3, 3, 2, 2, 4)
		r.MaxPath, i1.MaxPath, i2.MaxPath = pl[0], pl[1], pl[2]
		specs := []pki.Spec{r, i1, i2, i3, leafSpec(50, 50, 3, 3, 9), leafSpec(51, 51, 2, 2, 10), leafSpec(52, 52, 1, 1, 11)}
		in := input{Univ: specs}
		for _, l := range []int{4, 5, 6} {
			in.Queries = append(in.Queries, q(l, []int{0}, []int{1, 2, 3}, 300, []int{}, ""))
			in.Queries = append(in.Queries, q(l, []int{0, 1}, []int{3, 2, 1}, 300, []int{}, ""))
		}
		out = append(out, in)
	}
	// 2. diamond through a shared upper intermediate (the memo table is keyed by intermediate index)
	{
		specs := []pki.Spec{ca(0, 0, 0, 0, 1), ca(3, 3, 0, 0, 2) /* C */, ca(1, 1, 3, 3, 3) /* A */, ca(1, 1, 3, 3, 4), /* A' same name+key */
			ca(2, 2, 3, 3, 5) /* B */, leafSpec(50, 50, 1, 1, 9), leafSpec(51, 51, 2, 2, 10)}
		// leaf 50 is issued by name 1 / key 1 (A and A'); add a leaf signed by both A-key and B-key names
		x := leafSpec(52, 52, 1, 1, 11)
		specs = append(specs, x)
		// B2: same name as A but another key, also signs nothing
		specs = append(specs, ca(1, 4, 3, 3, 12))
		in := input{Univ: specs}
		for _, l := range []int{5, 6, 7} {
			for _, inters := range [][]int{{1, 2, 3, 4, 8}, {4, 3, 2, 1}, {2, 1}, {3, 1}} {
				in.Queries = append(in.Queries, q(l, []int{0}, inters, 300, []int{}, ""))
			}
		}
		out = append(out, in)
	}
	// 3. two leaf parents sharing one grandparent: L <- A (key 1), L <- B (name 1 key 1 re-issued by D), both <- C <- R
	{
		specs := []pki.Spec{ca(0, 0, 0, 0, 1), ca(9, 9, 0, 0, 2) /* C */, ca(1, 1, 9, 9, 3), /* A by C */
			ca(7, 7, 9, 9, 4) /* D by C */, ca(1, 1, 7, 7, 5) /* A' by D */, leafSpec(50, 50, 1, 1, 9)}
		in := input{Univ: specs}
		for _, inters := range [][]int{{1, 2, 3, 4}, {4, 3, 2, 1}, {2, 4, 1, 3}, {3, 4, 2, 1}} {
			in.Queries = append(in.Queries, q(5, []int{0}, inters, 300, []int{}, ""))
		}
		out = append(out, in)
	}
	// 4. loops: A <- B, B <- A, A <- R
	{
		a1, b, a2 := ca(1, 1, 2, 2, 2), ca(2, 2, 1, 1, 3), ca(1, 1, 0, 0, 4)
		specs := []pki.Spec{ca(0, 0, 0, 0, 1), a1, b, a2, leafSpec(50, 50, 1, 1, 9), leafSpec(51, 51, 2, 2, 10)}
		in := input{Univ: specs}
		for _, l := range []int{4, 5, 1, 2} {
			for _, inters := range [][]int{{1, 2, 3}, {3, 2, 1}, {2, 3, 1}} {
				in.Queries = append(in.Queries, q(l, []int{0}, inters, 300, []int{}, ""))
			}
		}
		out = append(out, in)
	}
	// 5. self-signed leaf, leaf in roots, cross-signed root, root offered as intermediate
	{
		ss := leafSpec(50, 50, 50, 50, 9)
		ss.AKID = -1
		xr := ca(0, 0, 5, 5, 6) // root 0's name/key cross-signed by root 5
		specs := []pki.Spec{ca(0, 0, 0, 0, 1), ca(5, 5, 5, 5, 2), ca(1, 1, 0, 0, 3), xr, leafSpec(51, 51, 1, 1, 10), ss}
		in := input{Univ: specs}
		in.Queries = append(in.Queries, q(5, []int{0}, []int{2}, 300, []int{}, ""), q(5, []int{0, 5}, []int{2}, 300, []int{}, "a.example"),
			q(4, []int{0}, []int{2, 3}, 300, []int{}, ""), q(4, []int{1}, []int{2, 3, 0}, 300, []int{}, ""), q(4, []int{0, 1}, []int{2, 3, 0, 1}, 300, []int{}, ""),
			q(4, []int{4}, []int{2}, 300, []int{4}, "c.example"), q(0, []int{1}, []int{3}, 300, []int{}, ""), q(2, []int{0}, []int{}, 300, []int{0}, ""),
			q(4, []int{}, []int{2}, 300, []int{}, ""))
		out = append(out, in)
	}
	// 6. EKU constraints down the chain, SGC special case
	{
		r, i1, i2 := ca(0, 0, 0, 0, 1), ca(1, 1, 0, 0, 2), ca(2, 2, 1, 1, 3)
		l1, l2, l3 := leafSpec(50, 50, 2, 2, 9), leafSpec(51, 51, 2, 2, 10), leafSpec(52, 52, 2, 2, 11)
		i1.EKU, i2.EKU = []int{2}, []int{1, 4}
		l1.EKU, l2.EKU, l3.UnkEKU = []int{4}, []int{3}, 2
		specs := []pki.Spec{r, i1, i2, l1, l2, l3}
		in := input{Univ: specs}
		for _, l := range []int{3, 4, 5} {
			for _, ku := range kuSets {
				in.Queries = append(in.Queries, q(l, []int{0}, []int{1, 2}, 300, ku, ""))
			}
		}
		out = append(out, in)
	}
	// 7. validity windows: nested, touching, disjoint
	{
		r, i1 := ca(0, 0, 0, 0, 1), ca(1, 1, 0, 0, 2)
		r.NB, r.NA = 100, 400
		i1.NB, i1.NA = 200, 500
		l1, l2, l3 := leafSpec(50, 50, 1, 1, 9), leafSpec(51, 51, 1, 1, 10), leafSpec(52, 52, 1, 1, 11)
		l1.NB, l1.NA = 300, 600
		l2.NB, l2.NA = 400, 600 // window [400,400): never
		l3.NB, l3.NA = 500, 600 // disjoint from the root
		specs := []pki.Spec{r, i1, l1, l2, l3}
		in := input{Univ: specs}
		for _, l := range []int{2, 3, 4} {
			for _, t := range []int64{99, 100, 299, 300, 301, 399, 400, 401, 500, 600, 601} {
				in.Queries = append(in.Queries, q(l, []int{0}, []int{1}, t, []int{}, ""))
			}
		}
		_ = all
		out = append(out, in)
	}
	return out
}

func gen(c *vh.Ctx) {
	for _, in := range structured() {
		runCase(c, in, "case")
	}
	for _, in := range ekuFamilies() {
		runCase(c, in, "case")
	}
	// checkChainForKeyUsage alone, exhaustive over short chains
	sets := [][]int{{}, {0}, {1}, {4}, {2}, {1, 4}, {-1}, {3, 4}}
	reqs := [][]int{{1}, {4}, {1, 4}, {4, 1}, {5}, {4, 5, 1}}
	var rec func(pre [][]int, d int)
	rec = func(pre [][]int, d int) {
		if len(pre) > 0 {
			for _, r := range reqs {
				runK(c, append([][]int{}, pre...), r)
			}
		}
		if d == 0 {
			return
		}
		for _, s := range sets {
			rec(append(pre, s), d-1)
		}
	}
	kd := 2
	if c.Thorough {
		kd = 3
	}
	rec(nil, kd)
	c.Exhaustive(fmt.Sprintf("checkChainForKeyUsage on every chain of length <= %d over %d EKU sets x %d requested lists", kd, len(sets), len(reqs)))
	runK(c, [][]int{}, []int{1})
	// isValid alone, exhaustive over the fields it reads
	nv := 0
	for _, ty := range []x509.CertificateType{x509.CertificateTypeLeaf, x509.CertificateTypeIntermediate, x509.CertificateTypeRoot} {
		for _, bc := range []bool{false, true} {
			for _, isCA := range []bool{false, true} {
				for _, mpl := range []int{-1, 0, 1, 2, 9, 10} {
					for n := 0; n <= 12; n++ {
						runValid(c, int(ty), bc, isCA, mpl, n)
						nv++
					}
				}
			}
		}
	}
	c.Exhaustive(fmt.Sprintf("isValid on %d combinations of certificate type / basicConstraints / cA / pathLen / chain length 0..12", nv))

	np, nq := 120, 14
	if c.Thorough {
		np, nq = 1500, 24
	}
	for i := 0; i < np; i++ {
		sh := randPKI(c)
		if _, err := build(sh.specs); err != nil {
			c.Stat("universe_build_failed", 1)
			continue
		}
		runCase(c, input{Univ: sh.specs, Queries: randQueries(c, sh, nq)}, "case")
	}
}

func replay(c *vh.Ctx, raw json.RawMessage) {
	var in input
	if err := json.Unmarshal(raw, &in); err != nil {
		panic(err)
	}
	if len(in.Univ) == 0 && in.KReq == nil && len(in.KValid) == 0 {
		gen(c)
		return
	}
	runCase(c, in, "case")
}

func runValid(c *vh.Ctx, tyI int, bc, isCA bool, mpl, n int) {
	ty := x509.CertificateType(tyI)
	x := &x509.Certificate{BasicConstraintsValid: bc, IsCA: isCA, MaxPathLen: mpl}
	ch := make(x509.CertificateChain, n)
	for i := range ch {
		ch[i] = &x509.Certificate{}
	}
	ok, reason := x509.VerifIsValid(x, ty, ch)
	code := uint64(0)
	if !ok {
		code = 10 + uint64(reason)
	}
	in := input{KValid: []int{tyI, b2i(bc), b2i(isCA), mpl, n}}
	c.Case("kcase", vh.App("KValid", vh.NI(tyI), vh.Bool(bc), vh.Bool(isCA), vh.Z(int64(mpl)), vh.Nat(n), vh.N(code)), in, fmt.Sprint(in.KValid))
	// the property's reading: an intermediate must be a CA; at most MaxPathLen intermediates below; depth limit
	want := uint64(0)
	if ty == x509.CertificateTypeIntermediate && !(bc && isCA) {
		want = 10
	} else if (bc && mpl >= 0 && n-1 > mpl) || n > 10 {
		want = 16
	}
	if code != want {
		c.Violation("isvalid", fmt.Sprintf("isValid(type %d, bc %v, ca %v, pathLen %d, chain of %d) = code %d, rule gives %d", tyI, bc, isCA, mpl, n, code, want), "kcase", in)
	}
}

func b2i(b bool) int {
	if b {
		return 1
	}
	return 0
}

var _ = strings.Join

func main() { vh.Main("C07", gen, replay) }
