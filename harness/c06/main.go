// C06 harness: certificate metadata as a function of the DER bytes.
//
// Certificates are built by hand (DER fragments, Ed25519 or RSA/SHA-256
// signatures made with the Go standard library) so that every shape is under
// control: version absent / 0 / 1 / 2 / larger, serials, optional unique ids,
// extension lists with the CT poison and SCT-list extensions inserted at every
// index, issuer = or <> subject, good and bad signatures; plus the PEM
// certificates in x509/testdata and byte/structure-level mutations of all of
// them.  For each input the harness records what x509.ParseCertificate
// reports (Raw*, fingerprints, Version, SelfSigned) for the Coq model
// (coq/model/C06.v) and evaluates the property directly: an independent
// walker (golang.org/x/crypto/cryptobyte) delimits the fields, the standard
// library hashes them and verifies the signature, and the no-CT fingerprint
// is compared across each insertion family and with a reference rebuild.
package main

import (
	"bytes"
	"crypto"
	"crypto/ed25519"
	"crypto/md5"
	"crypto/rsa"
	"crypto/sha1"
	"crypto/sha256"
	stdx509 "crypto/x509"
	"encoding/json"
	"encoding/pem"
	"fmt"
	"math/big"
	"os"
	"path/filepath"
	"sort"
	"strings"

	"golang.org/x/crypto/cryptobyte"
	casn1 "golang.org/x/crypto/cryptobyte/asn1"

	"github.com/zmap/zcrypto/x509"
	"verifharness/vh"
)

type Input struct {
	Der  string `json:"der"`
	Base string `json:"base,omitempty"` // certificate whose no-CT fingerprint this one must share
	Note string `json:"note,omitempty"`
	Hash bool   `json:"hash,omitempty"` // also recompute the fingerprints in Coq
	Gen  bool   `json:"gen,omitempty"`  // built by the generator as a valid certificate: must be accepted when the standard library accepts it
}

// ---- DER building blocks ----
func derLen(n int) []byte {
	if n < 128 {
		return []byte{byte(n)}
	}
	var b []byte
	for m := n; m > 0; m >>= 8 {
		b = append([]byte{byte(m)}, b...)
	}
	return append([]byte{0x80 | byte(len(b))}, b...)
}
func tlv(id byte, parts ...[]byte) []byte {
	var content []byte
	for _, x := range parts {
		content = append(content, x...)
	}
	return append(append([]byte{id}, derLen(len(content))...), content...)
}
func cat(parts ...[]byte) []byte {
	var o []byte
	for _, x := range parts {
		o = append(o, x...)
	}
	return o
}
func derInt(v int64) []byte { return tlv(0x02, big2c(big.NewInt(v))) }
func big2c(n *big.Int) []byte { // minimal two's complement
	if n.Sign() == 0 {
		return []byte{0}
	}
	if n.Sign() > 0 {
		b := n.Bytes()
		if b[0]&0x80 != 0 {
			b = append([]byte{0}, b...)
		}
		return b
	}
	l := n.BitLen()/8 + 1
	m := new(big.Int).Add(n, new(big.Int).Lsh(big.NewInt(1), uint(8*l)))
	b := m.Bytes()
	for len(b) < l {
		b = append([]byte{0xff}, b...)
	}
	for len(b) > 1 && b[0] == 0xff && b[1]&0x80 != 0 {
		b = b[1:]
	}
	return b
}

var (
	oidEd25519    = []byte{0x06, 0x03, 0x2b, 0x65, 0x70}
	oidRSAEnc     = []byte{0x06, 0x09, 0x2a, 0x86, 0x48, 0x86, 0xf7, 0x0d, 0x01, 0x01, 0x01}
	oidSHA256RSA  = []byte{0x06, 0x09, 0x2a, 0x86, 0x48, 0x86, 0xf7, 0x0d, 0x01, 0x01, 0x0b}
	derNull       = []byte{0x05, 0x00}
	oidCN         = []byte{0x06, 0x03, 0x55, 0x04, 0x03}
	oidO          = []byte{0x06, 0x03, 0x55, 0x04, 0x0a}
	oidPoison     = []byte{0x06, 0x0a, 0x2b, 0x06, 0x01, 0x04, 0x01, 0xd6, 0x79, 0x02, 0x04, 0x03}
	oidSCTList    = []byte{0x06, 0x0a, 0x2b, 0x06, 0x01, 0x04, 0x01, 0xd6, 0x79, 0x02, 0x04, 0x02}
	oidSKI        = []byte{0x06, 0x03, 0x55, 0x1d, 0x0e}
	oidBC         = []byte{0x06, 0x03, 0x55, 0x1d, 0x13}
	oidKU         = []byte{0x06, 0x03, 0x55, 0x1d, 0x0f}
	oidSAN        = []byte{0x06, 0x03, 0x55, 0x1d, 0x11}
	oidPrivate    = []byte{0x06, 0x09, 0x2b, 0x06, 0x01, 0x04, 0x01, 0x82, 0x37, 0x63, 0x01}
	oidNearPoison = []byte{0x06, 0x0a, 0x2b, 0x06, 0x01, 0x04, 0x01, 0xd6, 0x79, 0x02, 0x04, 0x04}
	oidCTPrefix   = []byte{0x06, 0x09, 0x2b, 0x06, 0x01, 0x04, 0x01, 0xd6, 0x79, 0x02, 0x04}
)

func derName(cn, o string) []byte {
	var rdns []byte
	if o != "" {
		rdns = append(rdns, tlv(0x31, tlv(0x30, oidO, tlv(0x0c, []byte(o))))...)
	}
	if cn != "" {
		rdns = append(rdns, tlv(0x31, tlv(0x30, oidCN, tlv(0x13, []byte(cn))))...)
	}
	return tlv(0x30, rdns)
}
func derExt(oid []byte, critical bool, value []byte) []byte {
	if critical {
		return tlv(0x30, oid, []byte{0x01, 0x01, 0xff}, tlv(0x04, value))
	}
	return tlv(0x30, oid, tlv(0x04, value))
}

func sctList(n int, c *vh.Ctx) []byte {
	var list []byte
	for i := 0; i < n; i++ {
		sct := cat([]byte{0}, c.Bytes(32), c.Bytes(8), []byte{0, 0}, []byte{4, 3}, []byte{0, 8}, c.Bytes(8))
		list = append(list, byte(len(sct)>>8), byte(len(sct)))
		list = append(list, sct...)
	}
	return tlv(0x04, cat([]byte{byte(len(list) >> 8), byte(len(list))}, list))
}

// ---- keys ----
type signer struct {
	alg  []byte // AlgorithmIdentifier
	spki []byte
	sign func(tbs []byte) []byte
}

func edSigner(seed []byte) signer {
	priv := ed25519.NewKeyFromSeed(seed)
	pub := priv.Public().(ed25519.PublicKey)
	alg := tlv(0x30, oidEd25519)
	return signer{alg: alg, spki: tlv(0x30, alg, tlv(0x03, append([]byte{0}, pub...))),
		sign: func(tbs []byte) []byte { return ed25519.Sign(priv, tbs) }}
}

// fixed 1024-bit test key (key.go); PKCS#1 v1.5 signatures are deterministic
var rsaKey = func() *rsa.PrivateKey {
	k, err := stdx509.ParsePKCS1PrivateKey(vh.UnHex(rsaKeyHex))
	if err != nil {
		panic(err)
	}
	return k
}()

func rsaSigner() signer {
	alg := tlv(0x30, oidSHA256RSA, derNull)
	pk := tlv(0x30, tlv(0x02, big2c(rsaKey.N)), derInt(int64(rsaKey.E)))
	spki := tlv(0x30, tlv(0x30, oidRSAEnc, derNull), tlv(0x03, append([]byte{0}, pk...)))
	return signer{alg: alg, spki: spki, sign: func(tbs []byte) []byte {
		h := sha256.Sum256(tbs)
		s, err := rsa.SignPKCS1v15(nil, rsaKey, crypto.SHA256, h[:])
		if err != nil {
			panic(err)
		}
		return s
	}}
}

// ---- certificate builder ----
type spec struct {
	version  []byte // the whole [0] element or nil
	serial   []byte
	issuer   []byte
	subject  []byte
	validity []byte
	uid1     []byte
	uid2     []byte
	exts     [][]byte // nil: no [3] block
	extBlock bool     // emit the [3] block even when exts is empty
	key      signer   // subject key
	signKey  signer   // issuer key
	badSig   bool
}

func (s spec) tbs() []byte {
	parts := [][]byte{s.version, s.serial, s.signKey.alg, s.issuer, s.validity, s.subject, s.key.spki, s.uid1, s.uid2}
	if len(s.exts) > 0 || s.extBlock {
		parts = append(parts, tlv(0xa3, tlv(0x30, s.exts...)))
	}
	return tlv(0x30, parts...)
}
func (s spec) der() []byte {
	tbs := s.tbs()
	sig := s.signKey.sign(tbs)
	if s.badSig {
		sig = append([]byte{}, sig...)
		sig[len(sig)-1] ^= 1
	}
	return tlv(0x30, tbs, s.signKey.alg, tlv(0x03, append([]byte{0}, sig...)))
}

func utc(s string) []byte { return tlv(0x17, []byte(s)) }
func gen(s string) []byte { return tlv(0x18, []byte(s)) }

func baseSpec(c *vh.Ctx) spec {
	var k signer
	if c.Intn(4) == 0 {
		k = rsaSigner()
	} else {
		k = edSigner(c.Bytes(32))
	}
	s := spec{key: k, signKey: k}
	switch c.Intn(8) {
	case 0: // v1, no version field
	case 1:
		s.version = tlv(0xa0, derInt(1))
	case 2:
		s.version = tlv(0xa0, derInt(int64(3+c.Intn(200))))
	default:
		s.version = tlv(0xa0, derInt(2))
	}
	switch c.Intn(5) {
	case 0:
		s.serial = derInt(int64(c.Intn(200)))
	case 1:
		s.serial = tlv(0x02, big2c(new(big.Int).SetBytes(c.Bytes(20))))
	case 2:
		s.serial = derInt(-int64(c.Intn(70000)))
	default:
		s.serial = tlv(0x02, big2c(new(big.Int).SetBytes(c.Bytes(1+c.Intn(16)))))
	}
	names := []string{"a", "example.com", "Test CA", "x y", "root"}
	s.subject = derName(names[c.Intn(len(names))], []string{"", "Org", "Acme Co"}[c.Intn(3)])
	s.issuer = s.subject
	switch c.Intn(6) {
	case 0:
		s.validity = tlv(0x30, utc("250101000000Z"), gen("20500101000000Z"))
	case 4:
		s.validity = tlv(0x30, utc("250101000000Z"), gen("99991231235959Z")) // RFC 5280 "no well-defined expiration"
	case 5:
		s.validity = tlv(0x30, utc("500101000000Z"), gen("23421231235959Z"))
	case 1:
		s.validity = tlv(0x30, utc("991231235959Z"), utc("491231235959Z"))
	default:
		s.validity = tlv(0x30, utc("240229120000Z"), utc("340228120000Z"))
	}
	if c.Intn(6) == 0 {
		s.uid1 = tlv(0x81, []byte{0}, c.Bytes(1+c.Intn(4)))
	}
	if c.Intn(6) == 0 {
		s.uid2 = tlv(0x82, []byte{0}, c.Bytes(1+c.Intn(4)))
	}
	pool := [][]byte{
		derExt(oidSKI, false, tlv(0x04, c.Bytes(20))),
		derExt(oidBC, true, tlv(0x30, []byte{0x01, 0x01, 0xff})),
		derExt(oidBC, false, tlv(0x30)),
		derExt(oidKU, true, []byte{0x03, 0x02, 0x01, 0x86}),
		derExt(oidSAN, false, tlv(0x30, tlv(0x82, []byte("example.com")))),
		derExt(oidPrivate, false, c.Bytes(c.Intn(5))),
		derExt(oidNearPoison, false, derNull),
		derExt(oidCTPrefix, false, derNull),
	}
	for n := c.Intn(5); n > 0; n-- {
		s.exts = append(s.exts, pool[c.Intn(len(pool))])
	}
	if len(s.exts) == 0 && c.Intn(3) == 0 {
		s.extBlock = true
	}
	return s
}

// ---- independent walker (cryptobyte) ----
type refCert struct {
	raw, tbs, issuer, subject, spki  []byte
	verRaw, serial, sigalg, validity []byte
	uid1, uid2                       []byte
	version                          int64
	extRaws                          [][]byte
	extOids                          [][]byte // DER of the Id element
}

func refWalk(der []byte) *refCert {
	r := &refCert{raw: der}
	in := cryptobyte.String(der)
	var cert, tbsEl cryptobyte.String
	if !in.ReadASN1(&cert, casn1.SEQUENCE) || !in.Empty() {
		return nil
	}
	if !cert.ReadASN1Element(&tbsEl, casn1.SEQUENCE) {
		return nil
	}
	r.tbs = tbsEl
	var body cryptobyte.String
	if !tbsEl.ReadASN1(&body, casn1.SEQUENCE) {
		return nil
	}
	tag0 := casn1.Tag(0).ContextSpecific().Constructed()
	if body.PeekASN1Tag(tag0) {
		var el, w cryptobyte.String
		if !body.ReadASN1Element(&el, tag0) {
			return nil
		}
		r.verRaw = el
		if !el.ReadASN1(&w, tag0) || !w.ReadASN1Integer(&r.version) || !w.Empty() {
			return nil
		}
	}
	rd := func(out *[]byte, tag casn1.Tag) bool {
		var el cryptobyte.String
		if !body.ReadASN1Element(&el, tag) {
			return false
		}
		*out = el
		return true
	}
	anyEl := func(out *[]byte) bool {
		var el cryptobyte.String
		var tag casn1.Tag
		if !body.ReadAnyASN1Element(&el, &tag) {
			return false
		}
		*out = el
		return true
	}
	if !rd(&r.serial, casn1.INTEGER) || !rd(&r.sigalg, casn1.SEQUENCE) || !anyEl(&r.issuer) ||
		!rd(&r.validity, casn1.SEQUENCE) || !anyEl(&r.subject) || !rd(&r.spki, casn1.SEQUENCE) {
		return nil
	}
	if body.PeekASN1Tag(casn1.Tag(1).ContextSpecific()) && !rd(&r.uid1, casn1.Tag(1).ContextSpecific()) {
		return nil
	}
	if body.PeekASN1Tag(casn1.Tag(2).ContextSpecific()) && !rd(&r.uid2, casn1.Tag(2).ContextSpecific()) {
		return nil
	}
	tag3 := casn1.Tag(3).ContextSpecific().Constructed()
	if body.PeekASN1Tag(tag3) {
		var w, list cryptobyte.String
		if !body.ReadASN1(&w, tag3) || !w.ReadASN1(&list, casn1.SEQUENCE) || !w.Empty() {
			return nil
		}
		for !list.Empty() {
			var el, inner, id cryptobyte.String
			if !list.ReadASN1Element(&el, casn1.SEQUENCE) {
				return nil
			}
			r.extRaws = append(r.extRaws, el)
			if !el.ReadASN1(&inner, casn1.SEQUENCE) || !inner.ReadASN1Element(&id, casn1.OBJECT_IDENTIFIER) {
				return nil
			}
			r.extOids = append(r.extOids, id)
		}
	}
	if !body.Empty() {
		return nil
	}
	return r
}

// the TBS with the CT extensions removed and the extension block always present
func (r *refCert) noCT() []byte {
	parts := [][]byte{}
	if r.version != 0 {
		parts = append(parts, r.verRaw)
	}
	parts = append(parts, r.serial, r.sigalg, r.issuer, r.validity, r.subject, r.spki, r.uid1, r.uid2)
	var keep [][]byte
	for i, e := range r.extRaws {
		if bytes.Equal(r.extOids[i], oidPoison) || bytes.Equal(r.extOids[i], oidSCTList) {
			continue
		}
		keep = append(keep, e)
	}
	parts = append(parts, tlv(0xa3, tlv(0x30, keep...)))
	return tlv(0x30, parts...)
}

// signature check with the standard library only
func stdSelfSigOK(der []byte) (ok bool, known bool) {
	sc, err := stdx509.ParseCertificate(der)
	if err != nil {
		return false, false
	}
	switch sc.SignatureAlgorithm {
	case stdx509.PureEd25519, stdx509.SHA256WithRSA, stdx509.SHA384WithRSA, stdx509.SHA512WithRSA,
		stdx509.ECDSAWithSHA256, stdx509.ECDSAWithSHA384, stdx509.ECDSAWithSHA512:
	default:
		return false, false // algorithms the standard library refuses (MD5, SHA-1) or does not know
	}
	return sc.CheckSignature(sc.SignatureAlgorithm, sc.RawTBSCertificate, sc.Signature) == nil, true
}

// ---- Coq printing ----
func coqMeta(c *x509.Certificate) string {
	return vh.App("mkMeta", vh.Bytes(c.Raw), vh.Bytes(c.RawTBSCertificate), vh.Bytes(c.RawIssuer), vh.Bytes(c.RawSubject),
		vh.Bytes(c.RawSubjectPublicKeyInfo), vh.Z(int64(c.Version)), vh.Bool(c.SelfSigned),
		vh.Bytes(c.FingerprintMD5), vh.Bytes(c.FingerprintSHA1), vh.Bytes(c.FingerprintSHA256),
		vh.Bytes(c.SPKIFingerprint), vh.Bytes(c.TBSCertificateFingerprint), vh.Bytes(c.FingerprintNoCT),
		vh.Bytes(c.SPKISubjectFingerprint), vh.Some(vh.Z(int64(c.ValidityPeriod))))
}

type entry struct {
	alg      int
	off, len int // slice of the input when len >= 0
	pre      []byte
	digest   []byte
}

func coqTable(es []entry) string {
	xs := make([]string, len(es))
	for i, e := range es {
		p := vh.App("PBytes", vh.Bytes(e.pre))
		if e.len >= 0 {
			p = vh.App("PSlice", vh.NI(e.off), vh.NI(e.len))
		}
		xs[i] = vh.Pair(vh.NI(e.alg), p, vh.Bytes(e.digest))
	}
	return vh.List0(xs, "(N * pre * bytes)")
}
func sliceEntry(alg int, whole, part []byte) entry {
	off := bytes.Index(whole, part)
	var d []byte
	switch alg {
	case 1:
		x := md5.Sum(part)
		d = x[:]
	case 2:
		x := sha1.Sum(part)
		d = x[:]
	default:
		x := sha256.Sum256(part)
		d = x[:]
	}
	if off < 0 || len(part) == 0 {
		return entry{alg: alg, len: -1, pre: part, digest: d}
	}
	return entry{alg: alg, off: off, len: len(part), digest: d}
}
func bytesEntry(pre []byte) entry {
	x := sha256.Sum256(pre)
	return entry{alg: 3, len: -1, pre: pre, digest: x[:]}
}

var noctOf = map[string][]byte{} // der(hex) -> FingerprintNoCT, for the family oracle

func runCert(c *vh.Ctx, in Input) {
	der := vh.UnHex(in.Der)
	cert, err := x509.ParseCertificate(der)
	if err != nil {
		c.Stat("rejected", 1)
		if in.Gen {
			if _, serr := stdx509.ParseCertificate(der); serr == nil {
				c.Violation("rejects-valid", fmt.Sprintf("a generated well-formed certificate the standard library accepts is rejected: %v", err), "case", in)
			}
		}
		c.Case("case", vh.App("CCert", vh.Pair(vh.Bytes(der), "false", "(@nil (N * pre * bytes))", "false", "None")), in, "")
		return
	}
	c.Stat("accepted", 1)
	sigErr := cert.CheckSignature(cert.SignatureAlgorithm, cert.RawTBSCertificate, cert.Signature)
	sigOK := sigErr == nil
	canonical, _ := x509.VerifTBSRemarshals(der)
	ref := refWalk(der)
	var tb []entry
	if ref != nil {
		tb = []entry{sliceEntry(1, der, ref.raw), sliceEntry(2, der, ref.raw), sliceEntry(3, der, ref.raw),
			sliceEntry(3, der, ref.tbs), sliceEntry(3, der, ref.spki), bytesEntry(cat(ref.spki, ref.subject))}
		if canonical {
			tb = append(tb, bytesEntry(ref.noCT()))
		}
	} else {
		// not a well-nested DER tree by the walker's standards: the table is built from the reported slices
		c.Stat("ref_unwalkable_accepted", 1)
		tb = []entry{sliceEntry(1, der, cert.Raw), sliceEntry(2, der, cert.Raw), sliceEntry(3, der, cert.Raw),
			sliceEntry(3, der, cert.RawTBSCertificate), sliceEntry(3, der, cert.RawSubjectPublicKeyInfo),
			bytesEntry(cat(cert.RawSubjectPublicKeyInfo, cert.RawSubject))}
		canonical = false
	}
	if canonical {
		c.Stat("canonical", 1)
	}
	nk := in.Der
	if in.Hash && canonical && ref != nil {
		c.Case("case", vh.App("CHash", vh.Pair(vh.Bytes(der), vh.Bool(sigOK), coqMeta(cert))), in, nk)
	} else {
		c.Case("case", vh.App("CCert", vh.Pair(vh.Bytes(der), vh.Bool(sigOK), coqTable(tb), vh.Bool(canonical), vh.Some(coqMeta(cert)))), in, nk)
	}
	noctOf[in.Der] = cert.FingerprintNoCT

	// ---- direct oracle ----
	bad := func(key, desc string) { c.Violation(key, desc, "case", in) }
	if ref != nil {
		for _, f := range []struct {
			key       string
			got, want []byte
		}{{"raw", cert.Raw, ref.raw}, {"raw-tbs", cert.RawTBSCertificate, ref.tbs}, {"raw-issuer", cert.RawIssuer, ref.issuer},
			{"raw-subject", cert.RawSubject, ref.subject}, {"raw-spki", cert.RawSubjectPublicKeyInfo, ref.spki}} {
			if !bytes.Equal(f.got, f.want) {
				bad(f.key, fmt.Sprintf("%s is %x, the element at its path is %x", f.key, f.got, f.want))
				return
			}
		}
		if int64(cert.Version) != ref.version+1 {
			bad("version", fmt.Sprintf("Version %d, encoded version %d", cert.Version, ref.version))
			return
		}
	}
	h5, h1, h2 := md5.Sum(cert.Raw), sha1.Sum(cert.Raw), sha256.Sum256(cert.Raw)
	hs, ht := sha256.Sum256(cert.RawSubjectPublicKeyInfo), sha256.Sum256(cert.RawTBSCertificate)
	hss := sha256.Sum256(cat(cert.RawSubjectPublicKeyInfo, cert.RawSubject))
	for _, f := range []struct {
		key       string
		got, want []byte
	}{{"fp-md5", cert.FingerprintMD5, h5[:]}, {"fp-sha1", cert.FingerprintSHA1, h1[:]}, {"fp-sha256", cert.FingerprintSHA256, h2[:]},
		{"fp-spki", cert.SPKIFingerprint, hs[:]}, {"fp-tbs", cert.TBSCertificateFingerprint, ht[:]},
		{"fp-spki-subject", cert.SPKISubjectFingerprint, hss[:]}} {
		if !bytes.Equal(f.got, f.want) {
			bad(f.key, fmt.Sprintf("%s is %x, the hash of the raw bytes is %x", f.key, f.got, f.want))
			return
		}
	}
	if want := cert.NotAfter.Unix() - cert.NotBefore.Unix(); int64(cert.ValidityPeriod) != want {
		bad("validity-period", fmt.Sprintf("ValidityPeriod %d, notAfter - notBefore is %d s", cert.ValidityPeriod, want))
		return
	}
	if ok, known := stdSelfSigOK(der); known {
		want := bytes.Equal(cert.RawIssuer, cert.RawSubject) && ok
		if cert.SelfSigned != want {
			bad("self-signed", fmt.Sprintf("SelfSigned=%v, issuer==subject is %v and the signature verifies under the certificate's key: %v",
				cert.SelfSigned, bytes.Equal(cert.RawIssuer, cert.RawSubject), ok))
			return
		}
		c.Stat("selfsigned_checked", 1)
	} else if cert.SelfSigned && !bytes.Equal(cert.RawIssuer, cert.RawSubject) {
		bad("self-signed", "SelfSigned although issuer and subject differ")
		return
	}
	if canonical && ref != nil {
		want := sha256.Sum256(ref.noCT())
		if !bytes.Equal(cert.FingerprintNoCT, want[:]) {
			bad("noct-rebuild", fmt.Sprintf("FingerprintNoCT %x, hash of the TBS rebuilt without the CT extensions %x", cert.FingerprintNoCT, want))
			return
		}
	}
	if in.Base != "" {
		if b, ok := noctOf[in.Base]; ok && !bytes.Equal(b, cert.FingerprintNoCT) {
			bad("noct-family", fmt.Sprintf("FingerprintNoCT %x differs from %x of the same certificate without / with differently placed CT extensions", cert.FingerprintNoCT, b))
			return
		} else if !ok {
			bc, err := x509.ParseCertificate(vh.UnHex(in.Base))
			if err == nil && !bytes.Equal(bc.FingerprintNoCT, cert.FingerprintNoCT) {
				bad("noct-family", fmt.Sprintf("FingerprintNoCT %x differs from %x of the same certificate without / with differently placed CT extensions", cert.FingerprintNoCT, bc.FingerprintNoCT))
			}
		}
	}
}

func insertAt(l [][]byte, i int, e []byte) [][]byte {
	o := append([][]byte{}, l[:i]...)
	o = append(o, e)
	return append(o, l[i:]...)
}

func mutate(c *vh.Ctx, b []byte) []byte {
	o := append([]byte{}, b...)
	switch c.Intn(6) {
	case 0:
		i := c.Intn(len(o))
		o[i] ^= 1 << uint(c.Intn(8))
	case 1:
		o[c.Intn(len(o))] = []byte{0x00, 0x01, 0x7f, 0x80, 0x81, 0xff, 0x30, 0x31, 0x02, 0x03, 0x04, 0x05, 0x06, 0xa0, 0xa3}[c.Intn(15)]
	case 2: // mutate early (headers, version, serial, names) where most structure is
		i := c.Intn(min(len(o), 60))
		o[i] ^= 1 << uint(c.Intn(8))
	case 3:
		i := c.Intn(len(o))
		o = append(o[:i], o[i+1:]...)
	case 4:
		o = append(o, c.Bytes(1+c.Intn(2))...)
	case 5:
		i := c.Intn(len(o))
		if c.Bool() {
			o[i]++
		} else {
			o[i]--
		}
	}
	return o
}

func testdata() [][]byte {
	dir := filepath.Join(os.Getenv("VERIF_REPO_DIR"), "x509", "testdata")
	if os.Getenv("VERIF_REPO_DIR") == "" {
		dir = "/repo/x509/testdata"
	}
	names, _ := filepath.Glob(filepath.Join(dir, "*"))
	sort.Strings(names)
	var out [][]byte
	for _, n := range names {
		if !strings.HasSuffix(n, ".pem") && !strings.HasSuffix(n, ".cert") {
			continue
		}
		data, err := os.ReadFile(n)
		if err != nil {
			continue
		}
		for {
			var blk *pem.Block
			blk, data = pem.Decode(data)
			if blk == nil {
				break
			}
			if blk.Type == "CERTIFICATE" && len(blk.Bytes) < 2500 {
				out = append(out, blk.Bytes)
			}
		}
	}
	return out
}

func genAll(c *vh.Ctx) {
	scale := 1
	if c.Thorough {
		scale = 10
	}
	poison := derExt(oidPoison, true, derNull)
	var valid [][]byte
	emit := func(der []byte, base, note string, hash bool) {
		gen := note != "mutated" && note != "testdata" && !strings.HasPrefix(note, "nc:")
		runCert(c, Input{Der: vh.Hex(der), Base: base, Note: note, Hash: hash, Gen: gen})
	}
	// 1. insertion families: every placement of each CT extension (and of both) in the extension list
	for f := 0; f < 14*scale; f++ {
		s := baseSpec(c)
		if f < 3 {
			s.exts = s.exts[:min(len(s.exts), f)]
		}
		base := s.der()
		baseHex := vh.Hex(base)
		emit(base, "", "family base", f < 2)
		valid = append(valid, base)
		scts := derExt(oidSCTList, false, sctList(c.Intn(3), c))
		for i := 0; i <= len(s.exts); i++ {
			for k, ct := range [][]byte{poison, scts} {
				v := s
				v.exts = insertAt(s.exts, i, ct)
				d := v.der()
				emit(d, baseHex, fmt.Sprintf("CT extension %d at index %d", k, i), f == 1 && i == 0 && k == 0)
				if c.Intn(4) == 0 {
					valid = append(valid, d)
				}
			}
			// both, the second at a random place
			v := s
			v.exts = insertAt(s.exts, i, poison)
			v.exts = insertAt(v.exts, c.Intn(len(v.exts)+1), scts)
			emit(v.der(), baseHex, "both CT extensions", false)
		}
	}
	// 2. single certificates: issuer <> subject, foreign signer, bad signature
	for i := 0; i < 40*scale; i++ {
		s := baseSpec(c)
		switch c.Intn(6) {
		case 5: // issuer differs from the subject in one byte only, signed with the own key
			s.issuer = append([]byte{}, s.subject...)
			s.issuer[len(s.issuer)-1] ^= 1
		case 0:
			s.issuer = derName("Other CA", "")
		case 1:
			s.signKey = edSigner(c.Bytes(32))
		case 2:
			s.badSig = true
		case 3:
			s.issuer = derName("Other CA", "")
			s.signKey = edSigner(c.Bytes(32))
		}
		d := s.der()
		emit(d, "", "single", false)
		valid = append(valid, d)
	}
	// 2b. issuer and subject with the same attribute values but different DER (string type, RDN grouping,
	//     attribute order that prints the same, case / whitespace): never self-signed, whoever signed
	atv := func(oid []byte, tag byte, v string) []byte { return tlv(0x30, oid, tlv(tag, []byte(v))) }
	set := func(atvs ...[]byte) []byte { return tlv(0x31, atvs...) }
	oidC := []byte{0x06, 0x03, 0x55, 0x04, 0x06}
	type pair struct {
		note            string
		issuer, subject []byte
	}
	pairs := []pair{
		{"CN PrintableString vs UTF8String", tlv(0x30, set(atv(oidCN, 0x13, "Test CA"))), tlv(0x30, set(atv(oidCN, 0x0c, "Test CA")))},
		{"CN UTF8String vs IA5String", tlv(0x30, set(atv(oidCN, 0x0c, "Test CA"))), tlv(0x30, set(atv(oidCN, 0x16, "Test CA")))},
		{"two RDNs vs one multi-valued RDN", tlv(0x30, set(atv(oidO, 0x13, "Org")), set(atv(oidCN, 0x13, "x"))), tlv(0x30, set(atv(oidCN, 0x13, "x"), atv(oidO, 0x13, "Org")))},
		{"one multi-valued RDN vs two RDNs", tlv(0x30, set(atv(oidCN, 0x13, "x"), atv(oidO, 0x13, "Org"))), tlv(0x30, set(atv(oidO, 0x13, "Org")), set(atv(oidCN, 0x13, "x")))},
		{"three RDNs vs RDN + multi-valued RDN", tlv(0x30, set(atv(oidC, 0x13, "US")), set(atv(oidO, 0x13, "Org")), set(atv(oidCN, 0x13, "x"))), tlv(0x30, set(atv(oidC, 0x13, "US")), set(atv(oidCN, 0x13, "x"), atv(oidO, 0x13, "Org")))},
		{"multi-valued RDN in the other attribute order", tlv(0x30, set(atv(oidCN, 0x13, "x"), atv(oidO, 0x13, "Org"))), tlv(0x30, set(atv(oidO, 0x13, "Org"), atv(oidCN, 0x13, "x")))},
		{"RDN order swapped", tlv(0x30, set(atv(oidO, 0x13, "Org")), set(atv(oidCN, 0x13, "x"))), tlv(0x30, set(atv(oidCN, 0x13, "x")), set(atv(oidO, 0x13, "Org")))},
		{"case differs", tlv(0x30, set(atv(oidCN, 0x13, "Test CA"))), tlv(0x30, set(atv(oidCN, 0x13, "test ca")))},
		{"inner whitespace differs", tlv(0x30, set(atv(oidCN, 0x13, "Test CA"))), tlv(0x30, set(atv(oidCN, 0x13, "Test  CA")))},
		{"trailing space", tlv(0x30, set(atv(oidCN, 0x13, "Test CA"))), tlv(0x30, set(atv(oidCN, 0x13, "Test CA ")))},
		{"empty sequence vs empty set", tlv(0x30), tlv(0x30, set())},
	}
	for i, pr := range pairs {
		for k := 0; k < 3; k++ {
			s := baseSpec(c)
			s.issuer, s.subject = pr.issuer, pr.subject
			who := "own key"
			switch k {
			case 1:
				s.signKey, who = edSigner(c.Bytes(32)), "foreign key"
			case 2: // control: identical DER, own key: must be self-signed
				s.issuer, who = pr.subject, "control, identical names"
			}
			if k == 0 && i%2 == 1 {
				s.key = rsaSigner()
				s.signKey = s.key
			}
			d := s.der()
			emit(d, "", "same values, different DER: "+pr.note+" ("+who+")", false)
			if k == 0 {
				valid = append(valid, d)
			}
		}
	}
	// 3. non-canonical but accepted shapes
	for i := 0; i < 12*scale; i++ {
		s := baseSpec(c)
		note := ""
		switch i % 6 {
		case 0:
			s.version, note = tlv(0xa0, derInt(0)), "nc: explicit version 0"
		case 1:
			s.exts, note = append(s.exts, tlv(0x30, oidPrivate, []byte{0x01, 0x01, 0x00}, tlv(0x04, []byte{1}))), "nc: critical FALSE encoded"
		case 2:
			s.version, note = []byte{0xa0, 0x01, 0x02, 0x01, 0x02}, "nc: version wrapper shorter than its content"
		case 3:
			s.version, note = []byte{0xa0, 0x06, 0x02, 0x01, 0x02}, "nc: version wrapper longer than its content"
		case 4:
			s.exts, s.extBlock, note = nil, true, "nc: empty extension list"
		case 5:
			s.validity, note = tlv(0x30, gen("20250101000000Z"), utc("3501010000Z")), "nc: generalized time before 2050, utc without seconds"
		}
		emit(s.der(), "", note, false)
	}
	// 4. certificates shipped with the repository
	td := testdata()
	for _, d := range td {
		emit(d, "", "testdata", false)
		valid = append(valid, d)
	}
	c.Stat("testdata_certs", len(td))
	// 5. mutations
	for i := 0; i < 250*scale; i++ {
		b := valid[c.Intn(len(valid))]
		if len(b) > 1300 {
			continue
		}
		m := mutate(c, b)
		if c.Intn(5) == 0 {
			m = mutate(c, m)
		}
		emit(m, "", "mutated", false)
	}
}

func replay(c *vh.Ctx, raw json.RawMessage) {
	var in Input
	if err := json.Unmarshal(raw, &in); err != nil {
		panic(err)
	}
	runCert(c, in)
}

func main() { vh.Main("C06", genAll, replay) }
