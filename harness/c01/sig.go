package main

// Use-after-parse / self-signature stream: self-issued certificates over a grid of key
// types and sizes x every signature algorithm of the table x random and crafted
// signature values, fed to the certificate parsers (whose self-signature test runs the
// verification primitives on attacker-chosen key, algorithm and signature), plus direct
// calls of rsa.VerifyPSS / rsa.VerifyPKCS1v15 with every salt-length option.
//
// RSA "moduli" are primes p of the wanted bit length: the verifier never checks that n
// is composite, and with n prime the harness can compute e-th roots (d = e^-1 mod p-1)
// and therefore choose the encoded message s^e mod n freely: PSS trailers and top bits,
// complete PSS encodings with several salt lengths, PKCS#1 v1.5 paddings with exact,
// truncated and oversized DigestInfo.

import (
	"bytes"
	"crypto"
	"crypto/md5"
	"crypto/sha1"
	"crypto/sha256"
	"crypto/sha512"
	"encoding/hex"
	"fmt"
	"hash"
	"math/big"

	"github.com/zmap/zcrypto/encoding/asn1"
	"github.com/zmap/zcrypto/rsa"
	"verifharness/c01/mut"
	"verifharness/vh"
)

func nseq(ch ...*mut.Node) *mut.Node {
	if ch == nil {
		ch = []*mut.Node{}
	}
	return &mut.Node{Tag: 16, Constructed: true, Children: ch}
}
func nprim(tag int, b []byte) *mut.Node { return &mut.Node{Tag: tag, Content: append([]byte{}, b...)} }
func nctx(tag int, ch ...*mut.Node) *mut.Node {
	return &mut.Node{Class: 2, Tag: tag, Constructed: true, Children: ch}
}
func noid(arcs ...int) *mut.Node {
	b, err := asn1.Marshal(asn1.ObjectIdentifier(arcs))
	if err != nil {
		panic(err)
	}
	return &mut.Node{Raw: b}
}
func nint(z *big.Int) *mut.Node {
	b, err := asn1.Marshal(z)
	if err != nil {
		panic(err)
	}
	return &mut.Node{Raw: b}
}
func nbits(b []byte) *mut.Node { return nprim(3, append([]byte{0}, b...)) }

var nullNode = nprim(5, nil)

type sigAlg struct {
	name string
	id   func() *mut.Node // AlgorithmIdentifier
	h    crypto.Hash
	pss  bool
	rsa  bool
}

var (
	oidSHA256 = []int{2, 16, 840, 1, 101, 3, 4, 2, 1}
	oidSHA384 = []int{2, 16, 840, 1, 101, 3, 4, 2, 2}
	oidSHA512 = []int{2, 16, 840, 1, 101, 3, 4, 2, 3}
)

func pssID(hashOID []int, salt int64) func() *mut.Node {
	return func() *mut.Node {
		h := nseq(noid(hashOID...), nullNode)
		return nseq(noid(1, 2, 840, 113549, 1, 1, 10),
			nseq(nctx(0, h), nctx(1, nseq(noid(1, 2, 840, 113549, 1, 1, 8), nseq(noid(hashOID...), nullNode))), nctx(2, nint(big.NewInt(salt)))))
	}
}
func rsaID(last int) func() *mut.Node {
	return func() *mut.Node { return nseq(noid(1, 2, 840, 113549, 1, 1, last), nullNode) }
}
func plainID(arcs ...int) func() *mut.Node {
	return func() *mut.Node { return nseq(noid(arcs...)) }
}

var sigAlgs = []sigAlg{
	{"pss-sha256", pssID(oidSHA256, 32), crypto.SHA256, true, true},
	{"pss-sha384", pssID(oidSHA384, 48), crypto.SHA384, true, true},
	{"pss-sha512", pssID(oidSHA512, 64), crypto.SHA512, true, true},
	{"md2-rsa", rsaID(2), 0, false, true},
	{"md5-rsa", rsaID(4), crypto.MD5, false, true},
	{"sha1-rsa", rsaID(5), crypto.SHA1, false, true},
	{"sha256-rsa", rsaID(11), crypto.SHA256, false, true},
	{"sha384-rsa", rsaID(12), crypto.SHA384, false, true},
	{"sha512-rsa", rsaID(13), crypto.SHA512, false, true},
	{"ecdsa-sha1", plainID(1, 2, 840, 10045, 4, 1), crypto.SHA1, false, false},
	{"ecdsa-sha256", plainID(1, 2, 840, 10045, 4, 3, 2), crypto.SHA256, false, false},
	{"ecdsa-sha384", plainID(1, 2, 840, 10045, 4, 3, 3), crypto.SHA384, false, false},
	{"ecdsa-sha512", plainID(1, 2, 840, 10045, 4, 3, 4), crypto.SHA512, false, false},
	{"dsa-sha1", plainID(1, 2, 840, 10040, 4, 3), crypto.SHA1, false, false},
	{"dsa-sha256", plainID(2, 16, 840, 1, 101, 3, 4, 3, 2), crypto.SHA256, false, false},
	{"ed25519", plainID(1, 3, 101, 112), 0, false, false},
}

func newHash(h crypto.Hash) hash.Hash {
	switch h {
	case crypto.MD5:
		return md5.New()
	case crypto.SHA1:
		return sha1.New()
	case crypto.SHA256:
		return sha256.New()
	case crypto.SHA384:
		return sha512.New384()
	case crypto.SHA512:
		return sha512.New()
	}
	return nil
}
func digestOf(h crypto.Hash, msg []byte) []byte {
	hh := newHash(h)
	if hh == nil {
		return msg
	}
	hh.Write(msg)
	return hh.Sum(nil)
}

// DigestInfo prefixes (RFC 8017 section 9.2)
var diPrefix = map[crypto.Hash][]byte{
	crypto.MD5:    {0x30, 0x20, 0x30, 0x0c, 0x06, 0x08, 0x2a, 0x86, 0x48, 0x86, 0xf7, 0x0d, 0x02, 0x05, 0x05, 0x00, 0x04, 0x10},
	crypto.SHA1:   {0x30, 0x21, 0x30, 0x09, 0x06, 0x05, 0x2b, 0x0e, 0x03, 0x02, 0x1a, 0x05, 0x00, 0x04, 0x14},
	crypto.SHA256: {0x30, 0x31, 0x30, 0x0d, 0x06, 0x09, 0x60, 0x86, 0x48, 0x01, 0x65, 0x03, 0x04, 0x02, 0x01, 0x05, 0x00, 0x04, 0x20},
	crypto.SHA384: {0x30, 0x41, 0x30, 0x0d, 0x06, 0x09, 0x60, 0x86, 0x48, 0x01, 0x65, 0x03, 0x04, 0x02, 0x02, 0x05, 0x00, 0x04, 0x30},
	crypto.SHA512: {0x30, 0x51, 0x30, 0x0d, 0x06, 0x09, 0x60, 0x86, 0x48, 0x01, 0x65, 0x03, 0x04, 0x02, 0x03, 0x05, 0x00, 0x04, 0x40},
}

// ---- RSA keys whose modulus is a prime of a given bit length
type rsaKey struct {
	bits int
	n, e *big.Int
	d    *big.Int // nil when e has no inverse mod n-1
}

func primeOfBits(bits int, r *detReader) *big.Int {
	b := make([]byte, (bits+7)/8)
	r.Read(b)
	p := new(big.Int).SetBytes(b)
	p.SetBit(p, bits-1, 1)
	for i := bits; i < len(b)*8; i++ {
		p.SetBit(p, i, 0)
	}
	p.SetBit(p, 0, 1)
	two := big.NewInt(2)
	for !p.ProbablyPrime(4) || p.BitLen() != bits {
		p.Add(p, two)
		if p.BitLen() != bits {
			p.SetBit(new(big.Int), bits-1, 1)
			p.SetBit(p, 0, 1)
		}
	}
	return p
}

func makeRSAKey(bits int, e int64, r *detReader) rsaKey {
	k := rsaKey{bits: bits, n: primeOfBits(bits, r), e: big.NewInt(e)}
	pm1 := new(big.Int).Sub(k.n, big.NewInt(1))
	if d := new(big.Int).ModInverse(k.e, pm1); d != nil {
		k.d = d
	}
	return k
}

// sigFor returns the k-byte signature whose encryption s^e mod n equals em (nil when impossible)
func (k rsaKey) sigFor(em []byte) []byte {
	m := new(big.Int).SetBytes(em)
	if k.d == nil || m.Cmp(k.n) >= 0 {
		return nil
	}
	s := new(big.Int).Exp(m, k.d, k.n)
	out := make([]byte, (k.bits+7)/8)
	s.FillBytes(out)
	return out
}

func mgf1XOR(out []byte, h hash.Hash, seed []byte) {
	var counter [4]byte
	done := 0
	for done < len(out) {
		h.Reset()
		h.Write(seed)
		h.Write(counter[:])
		d := h.Sum(nil)
		for i := 0; i < len(d) && done < len(out); i++ {
			out[done] ^= d[i]
			done++
		}
		for i := 3; i >= 0; i-- {
			counter[i]++
			if counter[i] != 0 {
				break
			}
		}
	}
}

// pssEM builds a complete EMSA-PSS encoding with the given salt length (nil when it does not fit)
func pssEM(c *vh.Ctx, h crypto.Hash, mHash []byte, emBits, sLen int) []byte {
	hh := newHash(h)
	hLen := hh.Size()
	emLen := (emBits + 7) / 8
	if sLen < 0 || emLen < hLen+sLen+2 {
		return nil
	}
	salt := c.Bytes(sLen)
	hh.Write(make([]byte, 8))
	hh.Write(mHash)
	hh.Write(salt)
	H := hh.Sum(nil)
	db := make([]byte, emLen-hLen-1)
	db[len(db)-sLen-1] = 1
	copy(db[len(db)-sLen:], salt)
	mgf1XOR(db, newHash(h), H)
	db[0] &= 0xff >> uint(8*emLen-emBits)
	em := append(append(db, H...), 0xbc)
	return em
}

type sigVariant struct {
	name string
	sig  []byte
}

func rsaVariants(c *vh.Ctx, k rsaKey, a sigAlg, msg []byte) []sigVariant {
	kLen := (k.bits + 7) / 8
	emBits := k.bits - 1
	emLen := (emBits + 7) / 8
	var out []sigVariant
	add := func(name string, s []byte) {
		if s != nil {
			out = append(out, sigVariant{name, s})
		}
	}
	fixed := func(z *big.Int, l int) []byte {
		b := z.Bytes()
		if len(b) > l {
			return b
		}
		o := make([]byte, l)
		copy(o[l-len(b):], b)
		return o
	}
	add("random", c.Bytes(kLen))
	r := c.Bytes(kLen)
	r[0] = 0
	add("random-small", r)
	add("zero", make([]byte, kLen))
	add("one", fixed(big.NewInt(1), kLen))
	add("n-1", fixed(new(big.Int).Sub(k.n, big.NewInt(1)), kLen))
	add("n", fixed(k.n, kLen))
	add("n+1", fixed(new(big.Int).Add(k.n, big.NewInt(1)), kLen))
	add("longer", c.Bytes(kLen+1))
	if kLen > 1 {
		add("shorter", c.Bytes(kLen-1))
	}
	add("empty", []byte{})
	pad := func(em []byte) []byte { // em of emLen bytes -> value below n as kLen bytes
		return append(make([]byte, kLen-len(em)), em...)
	}
	// (b) trailer 0xbc, top bits clear, everything else random
	for i := 0; i < 2 && emLen >= 1; i++ {
		em := c.Bytes(emLen)
		em[emLen-1] = 0xbc
		em[0] &= 0xff >> uint(8*emLen-emBits)
		add("pss-trailer", k.sigFor(pad(em)))
	}
	hashes := []crypto.Hash{crypto.SHA256, crypto.SHA384, crypto.SHA512, crypto.SHA1}
	if a.pss {
		hashes = []crypto.Hash{a.h}
	}
	for _, h := range hashes {
		mHash := digestOf(h, msg)
		hLen := len(mHash)
		if a.pss || k.bits%64 == 0 {
			for _, sl := range []int{0, 1, hLen, emLen - hLen - 2, emLen - hLen - 3} {
				if em := pssEM(c, h, mHash, emBits, sl); em != nil {
					add(fmt.Sprintf("pss-valid-salt%d", sl), k.sigFor(pad(em)))
				}
			}
		}
	}
	// (c) PKCS#1 v1.5: exact, truncated and oversized DigestInfo, wrong padding bytes
	h := a.h
	if h == 0 || a.pss {
		h = crypto.SHA256
	}
	t := append(append([]byte{}, diPrefix[h]...), digestOf(h, msg)...)
	for _, v := range []struct {
		name string
		t    []byte
	}{{"v15-exact", t}, {"v15-truncated", t[:len(t)-1]}, {"v15-oversized", append(append([]byte{}, t...), 0)}, {"v15-no-digest", diPrefix[h]}, {"v15-empty-t", nil}} {
		if kLen >= len(v.t)+3 {
			em := make([]byte, kLen)
			em[1] = 1
			for i := 2; i < kLen-len(v.t)-1; i++ {
				em[i] = 0xff
			}
			copy(em[kLen-len(v.t):], v.t)
			add(v.name, k.sigFor(em))
			if kLen >= len(v.t)+4 {
				em2 := append([]byte{}, em...)
				em2[2] = 0
				add(v.name+"-badpad", k.sigFor(em2))
			}
		}
	}
	return out
}

func spkiRSA(k rsaKey) *mut.Node {
	return nseq(nseq(noid(1, 2, 840, 113549, 1, 1, 1), nullNode), nbits(nseq(nint(k.n), nint(k.e)).Encode()))
}

func selfIssued(spki, alg *mut.Node, sig []byte) (cert, tbs []byte) {
	name := nseq(&mut.Node{Tag: 17, Constructed: true, Children: []*mut.Node{nseq(noid(2, 5, 4, 3), nprim(12, []byte("self-issued")))}})
	t := nseq(nctx(0, nint(big.NewInt(2))), nint(big.NewInt(77)), alg, name,
		nseq(nprim(23, []byte("230101000000Z")), nprim(23, []byte("330101000000Z"))), name, spki)
	tbs = t.Encode()
	return nseq(&mut.Node{Raw: tbs}, alg, nbits(sig)).Encode(), tbs
}

type rsaInput struct {
	Kind   string `json:"kind"`
	N, E   string
	Sig    string `json:"sig"`
	Digest string `json:"digest"`
	Hash   int    `json:"hash"`
	Salt   int    `json:"salt"`
	PSS    bool   `json:"pss"`
}

func rsaDirect(c *vh.Ctx, in rsaInput) {
	in.Kind = "rsa"
	n, _ := new(big.Int).SetString(in.N, 10)
	e, _ := new(big.Int).SetString(in.E, 10)
	pub := &rsa.PublicKey{N: n, E: e}
	sig, _ := hex.DecodeString(in.Sig)
	dg, _ := hex.DecodeString(in.Digest)
	name := "rsa.VerifyPKCS1v15"
	o := mut.Run(len(sig)+len(dg), func() error {
		if in.PSS {
			rsa.VerifyPSS(pub, crypto.Hash(in.Hash), dg, sig, &rsa.PSSOptions{SaltLength: in.Salt})
		} else {
			rsa.VerifyPKCS1v15(pub, crypto.Hash(in.Hash), dg, sig)
		}
		return nil
	})
	if in.PSS {
		name = "rsa.VerifyPSS"
	}
	stats[o.Class]++
	if o.Class != "ok" {
		c.Violation(violKey(name, o), fmt.Sprintf("%s (modulus %d bits, hash %d, salt %d): %s", name, n.BitLen(), in.Hash, in.Salt, o.Msg), "oracle", in)
	}
	c.Eval("")
}

// pssModelCase ties coq/model/C01Pss.v: the harness knows the encoded message it crafted, unmasks DB
// itself, and tells the model whether H = H' can hold (only for a complete encoding checked with
// its own salt length or with the automatic one).
func pssModelCase(c *vh.Ctx, k rsaKey, h crypto.Hash, em []byte, emSalt int, mHash []byte, saltOpt int) {
	kLen := (k.bits + 7) / 8
	emBits := k.bits - 1
	emLen := (emBits + 7) / 8
	sig := k.sigFor(append(make([]byte, kLen-len(em)), em...))
	if sig == nil || len(em) != emLen {
		return
	}
	hLen := newHash(h).Size()
	pub := &rsa.PublicKey{N: k.n, E: k.e}
	var verr error
	o := mut.Run(len(sig), func() error {
		verr = rsa.VerifyPSS(pub, h, mHash, sig, &rsa.PSSOptions{SaltLength: saltOpt})
		return verr
	})
	var dbAfter []byte
	if emLen-hLen-1 >= 1 {
		dbAfter = append([]byte{}, em[:emLen-hLen-1]...)
		mgf1XOR(dbAfter, newHash(h), em[emLen-hLen-1:emLen-1])
		dbAfter[0] &= 0xff >> uint(8*emLen-emBits)
	}
	resolved := saltOpt
	if saltOpt == rsa.PSSSaltLengthEqualsHash {
		resolved = hLen
	}
	hOK := emSalt >= 0 && (resolved == emSalt || resolved == rsa.PSSSaltLengthAuto)
	in := rsaInput{Kind: "rsa", N: k.n.String(), E: k.e.String(), Sig: hex.EncodeToString(sig), Digest: hex.EncodeToString(mHash), Hash: int(h), Salt: saltOpt, PSS: true}
	c.Case("vcase", vh.Pair(vh.Z(int64(hLen)), vh.Z(int64(len(mHash))), vh.Bytes(em), vh.Z(int64(emBits)), vh.Z(int64(saltOpt)), vh.Bytes(dbAfter), vh.Bool(hOK), vh.NI(o.Code())),
		in, fmt.Sprintf("%d/%d/%d/%d/%d", k.bits, int(h), emSalt, saltOpt, o.Code()))
}

func genSigStream(c *vh.Ctx, es []entry) {
	r := &detReader{sha256.Sum256([]byte("c01 sig stream"))}
	var parsers []*entry
	for i := range es {
		if es[i].name == "x509.ParseCertificate" || es[i].name == "ct/x509.ParseCertificate" {
			parsers = append(parsers, &es[i])
		}
	}
	feedCert := func(der []byte, from string) {
		for _, e := range parsers {
			runEntry(c, e, der, false, from, "oracle")
			runEntry(c, e, der, true, from, "oracle")
		}
	}
	// modulus sizes: small, and around emLen = hLen + sLen + 2 for each hash (sLen = hLen, 0 and 1)
	sizes := []int{33, 64, 127, 128, 160, 255, 256, 257, 258, 264, 265, 272, 273, 384, 385, 400, 511, 512, 513, 520, 521, 522, 528, 529, 545,
		640, 768, 769, 777, 784, 785, 800, 1024, 1025, 1033, 1040, 1041, 1042, 1056, 1100}
	if !c.Thorough {
		// the quick tier keeps every boundary size and thins the rest
		sizes = []int{33, 128, 256, 257, 264, 265, 272, 273, 385, 400, 512, 513, 521, 528, 529, 545, 768, 777, 784, 785, 1024, 1033, 1040, 1041, 1056, 1100}
	}
	nCert, nDirect := 0, 0
	for si, bits := range sizes {
		exps := []int64{65537}
		if si%4 == 0 {
			exps = append(exps, 3, 2)
		}
		for _, e := range exps {
			k := makeRSAKey(bits, e, r)
			if k.d == nil && e != 2 { // e shares a factor with n-1: take the next usable exponent
				for _, e2 := range []int64{5, 7, 11, 17, 257} {
					if k2 := (rsaKey{bits: bits, n: k.n, e: big.NewInt(e2)}); new(big.Int).ModInverse(k2.e, new(big.Int).Sub(k.n, big.NewInt(1))) != nil {
						k2.d = new(big.Int).ModInverse(k2.e, new(big.Int).Sub(k.n, big.NewInt(1)))
						k = k2
						break
					}
				}
			}
			spki := spkiRSA(k)
			for ai, a := range sigAlgs {
				if !a.rsa && (si+ai)%5 != 0 { // key/algorithm mismatches: a sample
					continue
				}
				alg := a.id()
				_, tbs := selfIssued(spki, alg, nil)
				for _, v := range rsaVariants(c, k, a, tbs) {
					der, _ := selfIssued(spki, alg, v.sig)
					feedCert(der, fmt.Sprintf("self-issued rsa-%d e=%v %s %s", bits, k.e, a.name, v.name))
					nCert++
				}
			}
			// model tie for the PSS index arithmetic (keys that have an e-th root only)
			if k.d != nil {
				for _, h := range []crypto.Hash{crypto.SHA256, crypto.SHA512} {
					mHash := digestOf(h, []byte("tie"))
					hLen := len(mHash)
					emLen := (bits - 1 + 7) / 8
					salts := []int{rsa.PSSSaltLengthEqualsHash, rsa.PSSSaltLengthAuto, 1, hLen, emLen - hLen - 2}
					for _, es := range []int{0, 1, hLen, emLen - hLen - 2} {
						if em := pssEM(c, h, mHash, bits-1, es); em != nil {
							for _, so := range salts {
								if so >= -1 {
									pssModelCase(c, k, h, em, es, mHash, so)
								}
							}
						}
					}
					for i := 0; i < 3 && emLen >= 1; i++ {
						em := c.Bytes(emLen)
						em[emLen-1] = 0xbc
						em[0] &= 0xff >> uint(8*emLen-(bits-1))
						if i == 2 {
							em[emLen-1] = 0xbd
						}
						for _, so := range salts {
							if so >= -1 {
								pssModelCase(c, k, h, em, -1, mHash, so)
							}
						}
					}
				}
			}
			// direct calls with every salt-length option
			msg := []byte("direct")
			for _, h := range []crypto.Hash{crypto.SHA256, crypto.SHA384, crypto.SHA512, crypto.SHA1} {
				dg := digestOf(h, msg)
				a := sigAlg{h: h, pss: true, rsa: true}
				vs := rsaVariants(c, k, a, msg)
				emLen := (bits - 1 + 7) / 8
				for vi, v := range vs {
					for _, salt := range []int{rsa.PSSSaltLengthEqualsHash, rsa.PSSSaltLengthAuto, 1, len(dg), emLen - len(dg) - 2, emLen, 1 << 20, -2} {
						if vi%3 != 0 && salt != rsa.PSSSaltLengthEqualsHash && salt != rsa.PSSSaltLengthAuto {
							continue
						}
						rsaDirect(c, rsaInput{N: k.n.String(), E: k.e.String(), Sig: hex.EncodeToString(v.sig), Digest: hex.EncodeToString(dg), Hash: int(h), Salt: salt, PSS: true})
						nDirect++
					}
					rsaDirect(c, rsaInput{N: k.n.String(), E: k.e.String(), Sig: hex.EncodeToString(v.sig), Digest: hex.EncodeToString(dg), Hash: int(h)})
					if vi%4 == 0 {
						rsaDirect(c, rsaInput{N: k.n.String(), E: k.e.String(), Sig: hex.EncodeToString(v.sig), Digest: hex.EncodeToString(dg[:len(dg)-1]), Hash: int(h)})
						rsaDirect(c, rsaInput{N: k.n.String(), E: k.e.String(), Sig: hex.EncodeToString(v.sig), Digest: hex.EncodeToString(dg), Hash: 0})
					}
					nDirect += 2
				}
			}
		}
	}
	// EC, Ed25519 and DSA keys x every algorithm x signature shapes
	ecPoint := append([]byte{4}, append(ecKey.X.FillBytes(make([]byte, 32)), ecKey.Y.FillBytes(make([]byte, 32))...)...)
	dsaP, dsaQ, dsaG := big.NewInt(503), big.NewInt(251), big.NewInt(4)
	dsaY := new(big.Int).Exp(dsaG, big.NewInt(77), dsaP)
	keys := []struct {
		name string
		spki *mut.Node
		q    *big.Int
	}{
		{"ec-p256", nseq(nseq(noid(1, 2, 840, 10045, 2, 1), noid(1, 2, 840, 10045, 3, 1, 7)), nbits(ecPoint)), ecKey.Params().N},
		{"ed25519", nseq(nseq(noid(1, 3, 101, 112)), nbits(genPub)), nil},
		{"dsa-toy", nseq(nseq(noid(1, 2, 840, 10040, 4, 1), nseq(nint(dsaP), nint(dsaQ), nint(dsaG))), nbits(nint(dsaY).Encode())), dsaQ},
	}
	for _, k := range keys {
		for _, a := range sigAlgs {
			alg := a.id()
			var sigs [][]byte
			sigs = append(sigs, nil, c.Bytes(64), c.Bytes(63), c.Bytes(65), c.Bytes(8))
			q := k.q
			if q == nil {
				q = big.NewInt(251)
			}
			vals := []*big.Int{big.NewInt(0), big.NewInt(1), new(big.Int).Sub(q, big.NewInt(1)), q, new(big.Int).Lsh(q, 9), big.NewInt(-1)}
			for _, rv := range vals {
				for _, sv := range vals {
					sigs = append(sigs, nseq(nint(rv), nint(sv)).Encode())
				}
			}
			sigs = append(sigs, append(nseq(nint(big.NewInt(5)), nint(big.NewInt(6))).Encode(), 0), nseq(nint(big.NewInt(5))).Encode())
			for _, s := range sigs {
				der, _ := selfIssued(k.spki, alg, s)
				feedCert(der, fmt.Sprintf("self-issued %s %s", k.name, a.name))
				nCert++
			}
		}
	}
	c.Stat("selfsig_certificates", nCert)
	c.Stat("rsa_direct_calls", nDirect)
}

var _ = bytes.Equal
