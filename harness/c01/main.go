// C01 harness: parsers of untrusted bytes never panic, hang or allocate far beyond the input.
//
//	oracle : every public parse entry point (encoding/asn1, cryptobyte, both x509 packages, OCSP, CT
//	         structures, CRLSet / OneCRL / SST, TLS handshake messages, PKIX/PKCS#1/PKCS#8/SEC1 keys,
//	         and the use-after-parse layer: signature checks with the parsed key) under recover +
//	         watchdog + allocation meter, in both parsing modes, on (a) every byte string of
//	         length <= 2 (thorough: <= 3 for the cheap decoders), (b) enumerated TLV headers,
//	         (c) structure-aware DER mutations of the repository's fixtures, (d) byte-level mutations
//	         of the non-DER fixtures, (e) random bytes.
//	streams: hcase (asn1 header: parseTagAndLength), bcase (parseBase128Int), qcase (SEQUENCE OF
//	         element counting), scase (SCT list of a certificate extension), gcase (CRLSet),
//	         mcase (Microsoft SST) — outcome class and result compared with the model.
package main

import (
	"bytes"
	"crypto/sha256"
	"encoding/hex"
	"encoding/json"
	"fmt"
	"os"
	"strings"

	"github.com/zmap/zcrypto/cryptobyte"
	cbasn1 "github.com/zmap/zcrypto/cryptobyte/asn1"
	"github.com/zmap/zcrypto/ct"
	ctx509 "github.com/zmap/zcrypto/ct/x509"
	"github.com/zmap/zcrypto/encoding/asn1"
	"github.com/zmap/zcrypto/tls"
	"github.com/zmap/zcrypto/x509"
	xct "github.com/zmap/zcrypto/x509/ct"
	"github.com/zmap/zcrypto/x509/pkix"
	"github.com/zmap/zcrypto/x509/revocation/google"
	"github.com/zmap/zcrypto/x509/revocation/microsoft"
	"github.com/zmap/zcrypto/x509/revocation/mozilla"
	"github.com/zmap/zcrypto/x509/revocation/ocsp"
	"math/big"
	"time"

	"verifharness/c01/mut"
	"verifharness/vh"
)

// ---------------------------------------------------------------- entry points
type entry struct {
	name  string
	modes bool                 // run with AllowPermissiveParsing off and on
	cheap bool                 // included in the exhaustive short-input sweep of the thorough tier
	kinds []string             // fixture kinds whose mutations are fed to it ("" = all DER)
	f     func(b []byte) error // the parse (and what the parser's result is used for)
}

type tStruct struct {
	A int
	B []byte                `asn1:"optional"`
	C asn1.ObjectIdentifier `asn1:"optional"`
	D asn1.BitString        `asn1:"optional,tag:1"`
	E string                `asn1:"optional,utf8"`
	F time.Time             `asn1:"optional"`
	G []int                 `asn1:"optional,set"`
	H asn1.RawValue         `asn1:"optional,explicit,tag:2"`
	I *big.Int              `asn1:"optional,tag:3"`
	J asn1.Enumerated       `asn1:"optional,tag:4"`
	K bool                  `asn1:"optional,tag:5"`
	L []asn1.RawValue       `asn1:"optional,tag:6"`
}

func sigCheck(pub interface{}) {
	if pub == nil {
		return
	}
	sig := bytes.Repeat([]byte{0x30, 0x06, 0x02, 0x01, 0x01, 0x02, 0x01, 0x01}, 8)
	for _, a := range []x509.SignatureAlgorithm{x509.SHA256WithRSA, x509.SHA256WithRSAPSS, x509.ECDSAWithSHA256, x509.DSAWithSHA256, x509.Ed25519Sig, x509.MD5WithRSA} {
		x509.CheckSignatureFromKey(pub, a, []byte("tbs"), sig)
		x509.CheckSignatureFromKey(pub, a, []byte("tbs"), sig[:8])
	}
}

func cbWalk(b []byte) error {
	// a read program driven by the input itself: every reader of cryptobyte.String
	s := cryptobyte.String(b)
	for steps := 0; steps < 64 && !s.Empty(); steps++ {
		var op uint8
		if !s.ReadUint8(&op) {
			break
		}
		var out cryptobyte.String
		var tag cbasn1.Tag
		var present bool
		var i64 int64
		var u64 uint64
		var bi big.Int
		var by []byte
		var bl bool
		var oid asn1.ObjectIdentifier
		var bs asn1.BitString
		var tm time.Time
		var u8 uint8
		var u16 uint16
		var u24, u32 uint32
		switch op % 32 {
		case 0:
			s.ReadUint8LengthPrefixed(&out)
		case 1:
			s.ReadUint16LengthPrefixed(&out)
		case 2:
			s.ReadUint24LengthPrefixed(&out)
		case 3:
			s.ReadASN1(&out, cbasn1.SEQUENCE)
		case 4:
			s.ReadASN1Element(&out, cbasn1.SEQUENCE)
		case 5:
			s.ReadAnyASN1(&out, &tag)
		case 6:
			s.ReadAnyASN1Element(&out, &tag)
		case 7:
			s.ReadOptionalASN1(&out, &present, cbasn1.Tag(0).ContextSpecific().Constructed())
		case 8:
			s.SkipASN1(cbasn1.INTEGER)
		case 9:
			s.SkipOptionalASN1(cbasn1.INTEGER)
		case 10:
			s.ReadASN1Integer(&i64)
		case 11:
			s.ReadASN1Integer(&u64)
		case 12:
			s.ReadASN1Integer(&bi)
		case 13:
			s.ReadASN1Bytes(&by, cbasn1.INTEGER)
		case 14:
			s.ReadASN1Boolean(&bl)
		case 15:
			s.ReadASN1ObjectIdentifier(&oid)
		case 16:
			s.ReadASN1BitString(&bs)
		case 17:
			s.ReadASN1BitStringAsBytes(&by)
		case 18:
			s.ReadASN1GeneralizedTime(&tm)
		case 19:
			s.ReadASN1UTCTime(&tm)
		case 20:
			s.ReadASN1Bytes(&by, cbasn1.OCTET_STRING)
		case 21:
			s.ReadOptionalASN1Integer(&i64, cbasn1.Tag(1).ContextSpecific().Constructed(), int64(7))
		case 22:
			s.ReadOptionalASN1OctetString(&by, &present, cbasn1.Tag(2).ContextSpecific().Constructed())
		case 23:
			s.ReadOptionalASN1Boolean(&bl, false)
		case 24:
			s.ReadUint16(&u16)
		case 25:
			s.ReadUint24(&u24)
		case 26:
			s.ReadUint32(&u32)
		case 27:
			s.ReadBytes(&by, int(u8)+int(op))
		case 28:
			s.CopyBytes(make([]byte, op%7))
		case 29:
			s.Skip(int(op) - 40)
		case 30:
			s.PeekASN1Tag(cbasn1.SEQUENCE)
		default:
			var i32 int
			s.ReadASN1Int64WithTag(&i64, cbasn1.Tag(op))
			s.ReadASN1Enum(&i32)
		}
		if len(out) > 0 && steps%3 == 0 {
			s = out
		}
	}
	return nil
}

func entries() []entry {
	der := []string{"CERTIFICATE", "DER", "X509 CRL", "CERTIFICATE REQUEST", "PUBLIC KEY", "RSA PRIVATE KEY", "PRIVATE KEY", "EC PRIVATE KEY", "OCSP"}
	return []entry{
		{"asn1.Unmarshal(RawValue)", true, true, der, func(b []byte) error { var v asn1.RawValue; _, e := asn1.Unmarshal(b, &v); return e }},
		{"asn1.Unmarshal([]RawValue)", true, true, der, func(b []byte) error { var v []asn1.RawValue; _, e := asn1.Unmarshal(b, &v); return e }},
		{"asn1.Unmarshal(int)", true, true, nil, func(b []byte) error { var v int; _, e := asn1.Unmarshal(b, &v); return e }},
		{"asn1.Unmarshal(*big.Int)", true, true, nil, func(b []byte) error { var v *big.Int; _, e := asn1.Unmarshal(b, &v); return e }},
		{"asn1.Unmarshal(ObjectIdentifier)", true, true, nil, func(b []byte) error { var v asn1.ObjectIdentifier; _, e := asn1.Unmarshal(b, &v); return e }},
		{"asn1.Unmarshal(BitString)", true, true, nil, func(b []byte) error { var v asn1.BitString; _, e := asn1.Unmarshal(b, &v); return e }},
		{"asn1.Unmarshal(string)", true, true, nil, func(b []byte) error { var v string; _, e := asn1.Unmarshal(b, &v); return e }},
		{"asn1.Unmarshal(time.Time)", true, true, nil, func(b []byte) error { var v time.Time; _, e := asn1.Unmarshal(b, &v); return e }},
		{"asn1.Unmarshal([]int set)", true, true, nil, func(b []byte) error { var v []int; _, e := asn1.UnmarshalWithParams(b, &v, "set"); return e }},
		{"asn1.Unmarshal(struct)", true, true, der, func(b []byte) error { var v tStruct; _, e := asn1.Unmarshal(b, &v); return e }},
		{"asn1.Unmarshal(interface{})", true, true, der, func(b []byte) error { var v interface{}; _, e := asn1.Unmarshal(b, &v); return e }},
		{"asn1.Unmarshal(pkix.RDNSequence)", true, true, der, func(b []byte) error { var v pkix.RDNSequence; _, e := asn1.Unmarshal(b, &v); return e }},
		{"cryptobyte readers", false, true, der, cbWalk},
		{"x509.ParseCertificate", true, false, []string{"CERTIFICATE", "DER"}, func(b []byte) error {
			c, e := x509.ParseCertificate(b)
			if e == nil && c != nil {
				json.Marshal(c)
				c.CheckSignatureFrom(c)
				sigCheck(c.PublicKey)
			}
			return e
		}},
		{"x509.ParseCertificates", true, false, []string{"CERTIFICATE", "DER"}, func(b []byte) error { _, e := x509.ParseCertificates(b); return e }},
		{"x509.ParseTBSCertificate", true, false, []string{"CERTIFICATE", "DER"}, func(b []byte) error { _, e := x509.ParseTBSCertificate(b); return e }},
		{"x509.ParseCertificateRequest", true, false, []string{"CERTIFICATE REQUEST", "CERTIFICATE", "DER"}, func(b []byte) error {
			r, e := x509.ParseCertificateRequest(b)
			if e == nil && r != nil {
				r.CheckSignature()
			}
			return e
		}},
		{"x509.ParseCRL", true, false, []string{"X509 CRL", "DER", "RAW"}, func(b []byte) error { _, e := x509.ParseCRL(b); return e }},
		{"x509.ParseDERCRL", true, false, []string{"X509 CRL", "DER"}, func(b []byte) error { _, e := x509.ParseDERCRL(b); return e }},
		{"x509.ParseRevocationList", true, false, []string{"X509 CRL", "DER"}, func(b []byte) error { _, e := x509.ParseRevocationList(b); return e }},
		{"x509.ParsePKIXPublicKey", true, true, []string{"PUBLIC KEY", "CERTIFICATE", "DER"}, func(b []byte) error {
			k, e := x509.ParsePKIXPublicKey(b)
			if e == nil {
				sigCheck(k)
			}
			return e
		}},
		{"x509.ParsePKCS1PrivateKey", true, false, []string{"RSA PRIVATE KEY", "DER"}, func(b []byte) error { _, e := x509.ParsePKCS1PrivateKey(b); return e }},
		{"x509.ParsePKCS1PublicKey", true, true, []string{"RSA PUBLIC KEY", "RSA PRIVATE KEY", "DER"}, func(b []byte) error {
			k, e := x509.ParsePKCS1PublicKey(b)
			if e == nil && k != nil {
				sigCheck(k)
			}
			return e
		}},
		{"x509.ParsePKCS8PrivateKey", true, false, []string{"PRIVATE KEY", "RSA PRIVATE KEY", "DER"}, func(b []byte) error { _, e := x509.ParsePKCS8PrivateKey(b); return e }},
		{"x509.ParseECPrivateKey", true, false, []string{"EC PRIVATE KEY", "PRIVATE KEY", "DER"}, func(b []byte) error { _, e := x509.ParseECPrivateKey(b); return e }},
		{"ct/x509.ParseCertificate", true, false, []string{"CERTIFICATE", "DER"}, func(b []byte) error {
			c, e := ctx509.ParseCertificate(b)
			if c != nil {
				c.CheckSignatureFrom(c)
			}
			return e
		}},
		{"ct/x509.ParseTBSCertificate", true, false, []string{"CERTIFICATE", "DER"}, func(b []byte) error { _, e := ctx509.ParseTBSCertificate(b); return e }},
		{"ct/x509.ParseCertificates", true, false, []string{"CERTIFICATE", "DER"}, func(b []byte) error { _, e := ctx509.ParseCertificates(b); return e }},
		{"ct/x509.ParseCRL", true, false, []string{"X509 CRL", "DER"}, func(b []byte) error { _, e := ctx509.ParseCRL(b); return e }},
		{"ct/x509.ParsePKIXPublicKey", true, true, []string{"PUBLIC KEY", "DER"}, func(b []byte) error { _, e := ctx509.ParsePKIXPublicKey(b); return e }},
		{"ct/x509.ParsePKCS1PrivateKey", true, false, []string{"RSA PRIVATE KEY"}, func(b []byte) error { _, e := ctx509.ParsePKCS1PrivateKey(b); return e }},
		{"ct/x509.ParsePKCS8PrivateKey", true, false, []string{"PRIVATE KEY"}, func(b []byte) error { _, e := ctx509.ParsePKCS8PrivateKey(b); return e }},
		{"ct/x509.ParseECPrivateKey", true, false, []string{"EC PRIVATE KEY"}, func(b []byte) error { _, e := ctx509.ParseECPrivateKey(b); return e }},
		{"ocsp.ParseResponse", true, false, []string{"OCSP", "DER"}, func(b []byte) error { _, e := ocsp.ParseResponse(b, nil); return e }},
		{"ocsp.ParseRequest", true, false, []string{"OCSP", "DER"}, func(b []byte) error { _, e := ocsp.ParseRequest(b); return e }},
		{"ct.ReadMerkleTreeLeaf", false, true, []string{"CT"}, func(b []byte) error { _, e := ct.ReadMerkleTreeLeaf(bytes.NewReader(b)); return e }},
		{"ct.DeserializeSCT", false, true, []string{"CT"}, func(b []byte) error { _, e := ct.DeserializeSCT(bytes.NewReader(b)); return e }},
		{"ct.UnmarshalDigitallySigned", false, true, []string{"CT"}, func(b []byte) error { _, e := ct.UnmarshalDigitallySigned(bytes.NewReader(b)); return e }},
		{"ct.UnmarshalX509ChainArray", false, true, []string{"CT"}, func(b []byte) error { _, e := ct.UnmarshalX509ChainArray(b); return e }},
		{"ct.UnmarshalPrecertChainArray", false, true, []string{"CT"}, func(b []byte) error { _, e := ct.UnmarshalPrecertChainArray(b); return e }},
		{"x509/ct.DeserializeSCT", false, true, []string{"CT"}, func(b []byte) error { _, e := xct.DeserializeSCT(bytes.NewReader(b)); return e }},
		{"x509/ct.UnmarshalDigitallySigned", false, true, []string{"CT"}, func(b []byte) error { _, e := xct.UnmarshalDigitallySigned(bytes.NewReader(b)); return e }},
		{"google.Parse", false, true, []string{"CRLSET"}, func(b []byte) error { _, e := google.Parse(b, "v"); return e }},
		{"mozilla.Parse", false, false, []string{"ONECRL"}, func(b []byte) error { _, e := mozilla.Parse(b); return e }},
		{"microsoft.Parse", false, true, []string{"SST"}, func(b []byte) error { _, e := microsoft.Parse(b); return e }},
		{"tls handshake unmarshal", false, true, []string{"TLS"}, func(b []byte) error {
			for k := 0; k < tls.VerifNumKinds; k++ {
				tls.VerifUnmarshal(k, false, b)
				tls.VerifUnmarshal(k, true, b)
			}
			return nil
		}},
	}
}

// ---------------------------------------------------------------- running one input
type caseInput struct {
	Kind  string `json:"kind"` // entry | header | base128 | seqof | sct | crlset | sst
	Entry string `json:"entry,omitempty"`
	Perm  bool   `json:"perm"`
	Hex   string `json:"hex"`
	Off   int    `json:"off,omitempty"`
	From  string `json:"from,omitempty"`
}

var stats = map[string]int{}

var hangs = map[string]int{}

func runEntry(c *vh.Ctx, e *entry, b []byte, perm bool, from, stream string) mut.Outcome {
	if hangs[e.name] >= 2 { // every hang leaks a spinning goroutine: two replayable inputs are enough
		return mut.Outcome{Class: "skipped"}
	}
	asn1.AllowPermissiveParsing = perm
	o := mut.Run(len(b), func() error { return e.f(b) })
	asn1.AllowPermissiveParsing = false
	stats[o.Class]++
	if o.Class == "hang" {
		hangs[e.name]++
	}
	if o.Class == "panic" || o.Class == "hang" || o.Class == "alloc" {
		in := caseInput{Kind: "entry", Entry: e.name, Perm: perm, Hex: hex.EncodeToString(b), From: from}
		c.Violation(violKey(e.name, o), fmt.Sprintf("%s (permissive=%v): %s", e.name, perm, o.Msg), stream, in)
	}
	c.Eval("")
	return o
}

func violKey(name string, o mut.Outcome) string {
	k := strings.ToLower(name)
	k = strings.NewReplacer(" ", "-", "(", "-", ")", "", "/", "-", "*", "", "[", "", "]", "", "{", "", "}", "", ".", "-").Replace(k)
	// the allocation findings are keyed by what allocates
	return o.Class + "-" + k
}

func feed(c *vh.Ctx, es []entry, b []byte, from, stream string, only func(e *entry) bool) {
	for i := range es {
		e := &es[i]
		if only != nil && !only(e) {
			continue
		}
		runEntry(c, e, b, false, from, stream)
		if e.modes {
			runEntry(c, e, b, true, from, stream)
		}
	}
}

func kindMatch(e *entry, kind string) bool {
	for _, k := range e.kinds {
		if k == kind || (k == "DER" && kind != "CT" && kind != "CRLSET" && kind != "ONECRL" && kind != "SST" && kind != "TLS" && kind != "RAW") {
			return true
		}
	}
	return false
}

// ---------------------------------------------------------------- model streams
func codeOf(err error) int {
	if err != nil {
		return 1
	}
	return 0
}

func headerCase(c *vh.Ctx, b []byte, off int, perm bool) {
	in := caseInput{Kind: "header", Perm: perm, Hex: hex.EncodeToString(b), Off: off}
	asn1.AllowPermissiveParsing = perm
	var t asn1.VerifTagAndLength
	var no int
	var err error
	o := mut.Run(len(b), func() error { t, no, err = asn1.VerifParseTagAndLength(b, off); return err })
	asn1.AllowPermissiveParsing = false
	if o.Class != "ok" && o.Class != "err" {
		c.Violation("header-"+o.Class, "parseTagAndLength: "+o.Msg, "hcase", in)
	}
	res := "None"
	if o.Class == "ok" {
		res = vh.Some(vh.Pair(vh.NI(t.Class), vh.Bool(t.IsCompound), vh.NI(t.Tag), vh.NI(t.Length), vh.Nat(no)))
		if !(no > off && no <= len(b)) || t.Length < 0 {
			c.Violation("header-offset", fmt.Sprintf("parseTagAndLength returns offset %d (from %d, %d bytes) length %d", no, off, len(b), t.Length), "hcase", in)
		}
	}
	c.Case("hcase", vh.Pair(vh.Bool(perm), vh.Bytes(b), vh.Nat(off), vh.NI(o.Code()), res), in, fmt.Sprintf("%s/%d/%v/%d", in.Hex, off, perm, o.Code()))
}

func base128Case(c *vh.Ctx, b []byte, off int) {
	in := caseInput{Kind: "base128", Hex: hex.EncodeToString(b), Off: off}
	var v, no int
	var err error
	o := mut.Run(len(b), func() error { v, no, err = asn1.VerifParseBase128Int(b, off); return err })
	if o.Class != "ok" && o.Class != "err" {
		c.Violation("base128-"+o.Class, "parseBase128Int: "+o.Msg, "bcase", in)
	}
	res := "None"
	if o.Class == "ok" {
		res = vh.Some(vh.Pair(vh.NI(v), vh.Nat(no)))
	}
	c.Case("bcase", vh.Pair(vh.Bytes(b), vh.Nat(off), vh.NI(o.Code()), res), in, fmt.Sprintf("%s/%d/%d", in.Hex, off, o.Code()))
}

// seqofCase: content bytes of a SEQUENCE OF ANY: how many elements does the decoder count
func seqofCase(c *vh.Ctx, content []byte, perm bool) {
	in := caseInput{Kind: "seqof", Perm: perm, Hex: hex.EncodeToString(content)}
	if len(content) > 60000 {
		return
	}
	wrapped := (&mut.Node{Tag: 16, Constructed: true, Content: content}).Encode()
	asn1.AllowPermissiveParsing = perm
	var v []asn1.RawValue
	o := mut.Run(len(wrapped), func() error { _, e := asn1.Unmarshal(wrapped, &v); return e })
	asn1.AllowPermissiveParsing = false
	if o.Class != "ok" && o.Class != "err" {
		c.Violation("seqof-"+o.Class, "Unmarshal([]RawValue): "+o.Msg, "qcase", in)
	}
	res := "None"
	if o.Class == "ok" {
		res = vh.Some(vh.Nat(len(v)))
		if 2*len(v) > len(content) {
			c.Violation("seqof-count", fmt.Sprintf("%d elements from %d bytes", len(v), len(content)), "qcase", in)
		}
	}
	c.Case("qcase", vh.Pair(vh.Bool(perm), vh.Bytes(content), vh.NI(o.Code()), res), in, fmt.Sprintf("%s/%v", in.Hex, perm))
}

var sctKey, sctPub = func() (interface{}, interface{}) { return nil, nil }()

// sctCase: the value of the SCT-list extension inside a generated certificate
func sctCase(c *vh.Ctx, list []byte) {
	in := caseInput{Kind: "sct", Hex: hex.EncodeToString(list)}
	ext := pkix.Extension{Id: asn1.ObjectIdentifier{1, 3, 6, 1, 4, 1, 11129, 2, 4, 2}, Value: (&mut.Node{Tag: 4, Content: list}).Encode()}
	der, err := makeCert(c, ext)
	if err != nil {
		return
	}
	var cert *x509.Certificate
	o := mut.Run(len(der), func() error { var e error; cert, e = x509.ParseCertificate(der); return e })
	if o.Class != "ok" && o.Class != "err" {
		c.Violation("sct-"+o.Class, "ParseCertificate with an SCT list extension: "+o.Msg, "scase", in)
	}
	res := "None"
	if o.Class == "ok" {
		res = vh.Some(vh.Nat(len(cert.SignedCertificateTimestampList)))
	}
	c.Case("scase", vh.Pair(vh.Bytes(list), vh.NI(o.Code()), res), in, in.Hex)
}

func crlsetCase(c *vh.Ctx, b []byte) {
	in := caseInput{Kind: "crlset", Hex: hex.EncodeToString(b)}
	var set *google.CRLSet
	o := mut.Run(len(b), func() error { var e error; set, e = google.Parse(b, "v"); return e })
	if o.Class != "ok" && o.Class != "err" {
		c.Violation("crlset-"+o.Class, "google.Parse: "+o.Msg, "gcase", in)
	}
	// observable: number of issuers parsed and total serials, when accepted
	res := "None"
	if o.Class == "ok" {
		n := 0
		for _, l := range set.IssuerLists {
			n += len(l.Entries)
		}
		res = vh.Some(vh.Nat(n))
	}
	// the header is JSON (standard library): the model is told whether encoding/json accepted it
	hdrOK, _ := crlsetSplit(b)
	c.Case("gcase", vh.Pair(vh.Bytes(b), vh.Bool(hdrOK == 0), vh.NI(o.Code()), res), in, in.Hex)
}

// crlsetSplit mirrors getHeader's slicing; 0 = header JSON accepted, 1 = rejected, 2 = truncated
func crlsetSplit(b []byte) (int, []byte) {
	if len(b) < 2 {
		return 2, nil
	}
	hl := int(b[0]) | int(b[1])<<8
	if len(b)-2 < hl {
		return 2, nil
	}
	var h google.CRLSetHeader
	if json.Unmarshal(b[2:2+hl], &h) != nil {
		return 1, nil
	}
	return 0, b[2+hl:]
}

func sstCase(c *vh.Ctx, b []byte, model bool) {
	in := caseInput{Kind: "sst", Hex: hex.EncodeToString(b)}
	o := mut.Run(len(b), func() error { _, e := microsoft.Parse(b); return e })
	if o.Class != "ok" && o.Class != "err" {
		c.Violation("sst-"+o.Class, "microsoft.Parse: "+o.Msg, "mcase", in)
	}
	if model {
		c.Case("mcase", vh.Pair(vh.Bytes(sstGood(c)), vh.Bytes(b), vh.NI(o.Code())), in, in.Hex)
	} else {
		c.Eval(in.Hex)
	}
}

// ---------------------------------------------------------------- generation
func makeCert(c *vh.Ctx, ext pkix.Extension) ([]byte, error) {
	tmpl := &x509.Certificate{SerialNumber: big.NewInt(7), Subject: pkix.Name{CommonName: "c01"}, NotBefore: time.Unix(1700000000, 0), NotAfter: time.Unix(1900000000, 0), ExtraExtensions: []pkix.Extension{ext}}
	parent := &x509.Certificate{Subject: pkix.Name{CommonName: "c01 issuer"}}
	return x509.CreateCertificate(c, tmpl, parent, genPub, genKey)
}

func gen(c *vh.Ctx) {
	repo := os.Getenv("VERIF_REPO_DIR")
	if repo == "" {
		repo = "/repo"
	}
	es := entries()
	fixtures := classify(mut.LoadFixtures(repo))
	c.Stat("fixtures", len(fixtures))

	// use-after-parse / self-signature stream (sig.go)
	genSigStream(c, es)

	// (a) exhaustive short inputs
	maxLen := 2
	var buf [3]byte
	for n := 0; n <= maxLen; n++ {
		total := 1 << uint(8*n)
		for v := 0; v < total; v++ {
			for i := 0; i < n; i++ {
				buf[i] = byte(v >> uint(8*(n-1-i)))
			}
			b := append([]byte{}, buf[:n]...)
			feed(c, es, b, "exhaustive", "oracle", func(e *entry) bool { return e.cheap || n <= 1 })
		}
	}
	c.Exhaustive("every byte string of length <= 2 into every cheap decoder in both modes (length <= 1 into all)")
	if c.Thorough {
		for v := 0; v < 1<<24; v += 1 {
			b := []byte{byte(v >> 16), byte(v >> 8), byte(v)}
			feed(c, es, b, "exhaustive3", "oracle", func(e *entry) bool {
				return strings.HasPrefix(e.name, "asn1.Unmarshal(RawValue") || strings.HasPrefix(e.name, "asn1.Unmarshal(int")
			})
		}
		c.Exhaustive("every byte string of length 3 into asn1.Unmarshal(RawValue/int) in both modes")
	}
	// header stream: every 1-3 byte header prefix class, and structured headers up to 6 bytes
	for v := 0; v < 1<<16; v++ {
		b := []byte{byte(v >> 8), byte(v)}
		if v%29 == 0 || (b[0]&0x1f == 0x1f && v%5 == 0) || (b[1]&0x80 != 0 && v%11 == 0) {
			headerCase(c, b, 0, v%2 == 0)
		}
	}
	ids := []byte{0x30, 0x02, 0x1f, 0x3f, 0xa0, 0xdf, 0xff, 0x00, 0x04}
	lens := [][]byte{{0}, {1}, {0x7f}, {0x80}, {0x81, 0}, {0x81, 1}, {0x81, 0x7f}, {0x81, 0x80}, {0x82, 0, 0x80}, {0x82, 1, 0}, {0x83, 0x7f, 0xff, 0xff}, {0x83, 0x80, 0, 0}, {0x84, 0, 0x80, 0, 0},
		{0x84, 0x7f, 0xff, 0xff, 0xff}, {0x84, 0x80, 0, 0, 0}, {0x85, 0, 0, 0, 0, 1}, {0x88, 1, 0, 0, 0, 0, 0, 0, 0}, {0xff}, {0x81}, {0x82, 1}}
	tags := [][]byte{nil, {0x1e}, {0x1f}, {0x7f}, {0x80, 0x01}, {0x81, 0x00}, {0xff, 0x7f}, {0x87, 0xff, 0xff, 0xff, 0x7f}, {0x88, 0x80, 0x80, 0x80, 0x00}, {0xff, 0xff, 0xff, 0xff, 0xff, 0x7f}, {0x81}, {0x8f, 0xff, 0xff, 0xff, 0x7f}}
	for _, id := range ids {
		for _, tg := range tags {
			if (id&0x1f == 0x1f) != (tg != nil) {
				continue
			}
			for _, l := range lens {
				b := append(append([]byte{id}, tg...), l...)
				b = append(b, 1, 2, 3)
				for _, perm := range []bool{false, true} {
					headerCase(c, b, 0, perm)
					headerCase(c, append([]byte{9}, b...), 1, perm)
					headerCase(c, b[:len(b)-3], 0, perm)
				}
			}
		}
	}
	headerCase(c, nil, 0, false)
	headerCase(c, []byte{0x30}, 1, false)
	headerCase(c, []byte{0x30}, 5, false)
	for _, tg := range tags {
		for off := 0; off <= len(tg)+1; off++ {
			base128Case(c, tg, off)
		}
		base128Case(c, append(append([]byte{}, tg...), 5), 0)
	}
	for v := 0; v < 1<<16; v += 13 {
		base128Case(c, []byte{byte(v >> 8), byte(v), 0x01}, 0)
	}
	// sequence-of counting
	elems := [][]byte{{2, 1, 5}, {5, 0}, {4, 2, 1, 2}, {0x30, 0}, {2, 0x81, 1, 5}, {2, 2, 1}, {0x1f, 0x1f, 0}, {0x1f, 0x81, 0x00, 0}, {2, 0x80}, {0x0c, 0x84, 0xff, 0xff, 0xff, 0xff}, {6, 1, 0x2a}, {}}
	nq := 150
	if c.Thorough {
		nq = 4000
	}
	for i := 0; i < nq; i++ {
		var content []byte
		for k := c.Intn(7); k > 0; k-- {
			content = append(content, elems[c.Intn(len(elems))]...)
		}
		if c.Intn(5) == 0 {
			content = append(content, c.Bytes(c.Intn(4))...)
		}
		seqofCase(c, content, c.Bool())
	}
	// a long list: oracle only (the count must stay below len/2 and nothing may blow up)
	feed(c, es, (&mut.Node{Tag: 16, Constructed: true, Content: bytes.Repeat([]byte{5, 0}, 20000)}).Encode(), "many-elements", "oracle", func(e *entry) bool { return strings.HasPrefix(e.name, "asn1.Unmarshal") })
	seqofCase(c, bytes.Repeat([]byte{5, 0}, 300), false)
	// SCT lists
	ns := 80
	if c.Thorough {
		ns = 1500
	}
	for i := 0; i < ns; i++ {
		sctCase(c, genSCTList(c))
	}
	for _, b := range [][]byte{nil, {0}, {0, 0}, {0, 0, 0}, {0, 1, 0}, {0, 2, 0, 0}, {0xff, 0xff, 0, 1}} {
		sctCase(c, b)
	}
	// CRLSet and SST: fixtures, mutated and synthetic
	ng := 200
	if c.Thorough {
		ng = 5000
	}
	for _, f := range fixtures {
		if f.Kind == "CRLSET" {
			crlsetCase(c, f.Data)
		}
		if f.Kind == "SST" {
			sstCase(c, f.Data, false)
		}
	}
	for i := 0; i < ng; i++ {
		crlsetCase(c, genCRLSet(c))
		sstCase(c, genSST(c, false), true)
		sstCase(c, genSST(c, true), false)
	}

	// (c)-(e) fixtures, their mutations, random bytes
	nm := 40
	if c.Thorough {
		nm = 1200
	}
	for _, f := range fixtures {
		f := f
		feed(c, es, f.Data, f.Name, "oracle", func(e *entry) bool { return kindMatch(e, f.Kind) })
	}
	for round := 0; round < nm; round++ {
		for _, f := range fixtures {
			if len(f.Data) > 200000 && round%10 != 0 {
				continue
			}
			f := f
			var m []byte
			switch f.Kind {
			case "CT", "CRLSET", "SST", "TLS", "ONECRL", "RAW":
				m = byteMutate(c, f.Data)
			default:
				m = mut.Mutate(c, f.Data)
			}
			feed(c, es, m, f.Name, "oracle", func(e *entry) bool { return kindMatch(e, f.Kind) })
		}
	}
	// systematic single-node variants (delete / empty / duplicate / short length) of the small fixtures
	swept := 0
	for _, f := range fixtures {
		f := f
		small := strings.HasPrefix(f.Name, "synthetic/") || f.Kind == "OCSP" || f.Kind == "X509 CRL" || f.Kind == "CERTIFICATE REQUEST" || strings.Contains(f.Kind, "KEY")
		switch f.Kind {
		case "CT", "CRLSET", "SST", "TLS", "ONECRL", "RAW":
			continue
		}
		if !small && !(f.Kind == "CERTIFICATE" && (c.Thorough || swept < 4)) {
			continue
		}
		if len(f.Data) > 6000 {
			continue
		}
		if f.Kind == "CERTIFICATE" && !small {
			swept++
		}
		for _, v := range mut.Sweep(f.Data) {
			feed(c, es, v, f.Name, "oracle", func(e *entry) bool { return kindMatch(e, f.Kind) && !strings.HasPrefix(e.name, "asn1.Unmarshal(") })
		}
	}
	nr := 300
	if c.Thorough {
		nr = 20000
	}
	for i := 0; i < nr; i++ {
		b := c.Bytes(c.Intn(64))
		if c.Intn(3) == 0 && len(b) > 2 {
			b[0] = []byte{0x30, 0x31, 0xa0, 0x04, 0x03, 0x02, 0x06}[c.Intn(7)]
			b[1] = byte(len(b) - 2)
		}
		feed(c, es, b, "random", "oracle", nil)
	}
	for k, v := range stats {
		c.Stat("outcome."+k, v)
	}
}

func byteMutate(c *vh.Ctx, b []byte) []byte {
	out := append([]byte{}, b...)
	if len(out) == 0 {
		return c.Bytes(4)
	}
	for k := 1 + c.Intn(3); k > 0; k-- {
		switch c.Intn(6) {
		case 0:
			out[c.Intn(len(out))] = byte(c.U64())
		case 1:
			out = out[:c.Intn(len(out)+1)]
		case 2:
			i := c.Intn(len(out))
			out = append(out[:i:i], append(c.Bytes(1+c.Intn(4)), out[i:]...)...)
		case 3:
			i := c.Intn(len(out))
			out[i] = []byte{0, 0xff, 0x7f, 0x80}[c.Intn(4)]
		case 4:
			if len(out) > 8 {
				i := c.Intn(len(out) - 4)
				copy(out[i:], []byte{0xff, 0xff, 0xff, 0xff})
			}
		default:
			if len(out) > 4 {
				i, j := c.Intn(len(out)), c.Intn(len(out))
				if i > j {
					i, j = j, i
				}
				out = append(out[:i:i], out[j:]...)
			}
		}
		if len(out) == 0 {
			break
		}
	}
	return out
}

func replay(c *vh.Ctx, raw json.RawMessage) {
	var probe struct {
		Many []json.RawMessage `json:"many"`
	}
	json.Unmarshal(raw, &probe)
	for _, r := range probe.Many {
		replay(c, r)
	}
	var in caseInput
	if json.Unmarshal(raw, &in) != nil || in.Kind == "" {
		return
	}
	if in.Kind == "rsa" {
		var ri rsaInput
		json.Unmarshal(raw, &ri)
		rsaDirect(c, ri)
		return
	}
	b, _ := hex.DecodeString(in.Hex)
	switch in.Kind {
	case "entry":
		es := entries()
		for i := range es {
			if es[i].name == in.Entry {
				runEntry(c, &es[i], b, in.Perm, in.From, "oracle")
			}
		}
	case "header":
		headerCase(c, b, in.Off, in.Perm)
	case "base128":
		base128Case(c, b, in.Off)
	case "seqof":
		seqofCase(c, b, in.Perm)
	case "sct":
		sctCase(c, b)
	case "crlset":
		crlsetCase(c, b)
	case "sst":
		sstCase(c, b, false)
	}
}

var _ = sha256.Sum256

func main() { vh.Main("C01", gen, replay) }
