package main

import (
	"bytes"
	"crypto/ecdsa"
	"crypto/ed25519"
	"crypto/elliptic"
	"crypto/sha256"
	"encoding/binary"
	"encoding/json"
	"math/big"
	"strings"
	"time"

	"github.com/zmap/zcrypto/tls"
	"github.com/zmap/zcrypto/x509"
	"github.com/zmap/zcrypto/x509/pkix"
	"github.com/zmap/zcrypto/x509/revocation/ocsp"
	"verifharness/c01/mut"
	"verifharness/vh"
)

var (
	genKey ed25519.PrivateKey
	genPub ed25519.PublicKey
	ecKey  *ecdsa.PrivateKey
)

type detReader struct{ s [32]byte }

func (d *detReader) Read(p []byte) (int, error) {
	for i := range p {
		if i%32 == 0 {
			d.s = sha256.Sum256(d.s[:])
		}
		p[i] = d.s[i%32]
	}
	return len(p), nil
}

func init() {
	seed := sha256.Sum256([]byte("c01 harness key"))
	genKey = ed25519.NewKeyFromSeed(seed[:])
	genPub = genKey.Public().(ed25519.PublicKey)
	var err error
	ecKey, err = ecdsa.GenerateKey(elliptic.P256(), &detReader{seed})
	if err != nil {
		panic(err)
	}
}

// classify assigns the non-PEM fixtures a kind by their path and adds synthetic
// fixtures for the formats the repository has no test file for.
func classify(fs []mut.Fixture) []mut.Fixture {
	var out []mut.Fixture
	var firstCert []byte
	for _, f := range fs {
		switch {
		case strings.Contains(f.Name, "revocation/google") || strings.Contains(f.Name, "crl-set"):
			f.Kind = "CRLSET"
		case strings.HasSuffix(f.Name, ".sst"):
			f.Kind = "SST"
		case strings.Contains(f.Name, "onecrl") || strings.Contains(f.Name, "mozilla/testdata"):
			f.Kind = "ONECRL"
		case strings.Contains(f.Name, "tls/testdata") && f.Kind == "RAW":
			continue // recorded handshake transcripts in text form
		}
		if f.Kind == "CERTIFICATE" && firstCert == nil && len(f.Data) < 2000 {
			firstCert = f.Data
		}
		out = append(out, f)
	}
	add := func(name, kind string, data []byte, err error) {
		if err == nil && len(data) > 0 {
			out = append(out, mut.Fixture{Name: "synthetic/" + name, Kind: kind, Data: data})
		}
	}
	// keys
	b, err := x509.MarshalPKIXPublicKey(&ecKey.PublicKey)
	add("pkix-ec", "PUBLIC KEY", b, err)
	b, err = x509.MarshalECPrivateKey(ecKey)
	add("sec1", "EC PRIVATE KEY", b, err)
	b, err = x509.MarshalPKCS8PrivateKey(ecKey)
	add("pkcs8-ec", "PRIVATE KEY", b, err)
	add("pkix-ed25519", "PUBLIC KEY", append([]byte{0x30, 0x2a, 0x30, 0x05, 0x06, 0x03, 0x2b, 0x65, 0x70, 0x03, 0x21, 0x00}, genPub...), nil)
	// issuer + leaf + CSR + OCSP
	rnd := &detReader{sha256.Sum256([]byte("c01 certs"))}
	caT := &x509.Certificate{SerialNumber: big.NewInt(1), Subject: pkix.Name{CommonName: "c01 ca"}, NotBefore: time.Unix(1700000000, 0), NotAfter: time.Unix(1900000000, 0),
		IsCA: true, BasicConstraintsValid: true, KeyUsage: x509.KeyUsageCertSign | x509.KeyUsageDigitalSignature}
	caDER, err := x509.CreateCertificate(rnd, caT, caT, &ecKey.PublicKey, ecKey)
	add("ca-ec", "CERTIFICATE", caDER, err)
	if err == nil {
		ca, _ := x509.ParseCertificate(caDER)
		leafT := &x509.Certificate{SerialNumber: big.NewInt(2), Subject: pkix.Name{CommonName: "leaf.example"}, DNSNames: []string{"leaf.example"}, NotBefore: time.Unix(1700000000, 0), NotAfter: time.Unix(1900000000, 0)}
		leafDER, err := x509.CreateCertificate(rnd, leafT, ca, &ecKey.PublicKey, ecKey)
		add("leaf-ec", "CERTIFICATE", leafDER, err)
		if ca != nil {
			req, err := ocsp.CreateRequest(ca, ca, nil)
			add("ocsp-request", "OCSP", req, err)
			resp, err := ocsp.CreateResponse(ca, ca, ocsp.Response{Status: ocsp.Revoked, SerialNumber: big.NewInt(2), ThisUpdate: time.Unix(1700000000, 0), NextUpdate: time.Unix(1700100000, 0),
				RevokedAt: time.Unix(1700000500, 0), RevocationReason: ocsp.KeyCompromise, Certificate: ca}, ecKey)
			add("ocsp-response", "OCSP", resp, err)
			crl, err := ca.CreateCRL(rnd, ecKey, []pkix.RevokedCertificate{{SerialNumber: big.NewInt(2), RevocationTime: time.Unix(1700000500, 0)}}, time.Unix(1700000000, 0), time.Unix(1700100000, 0))
			add("crl", "X509 CRL", crl, err)
		}
	}
	csr, err := x509.CreateCertificateRequest(rnd, &x509.CertificateRequest{Subject: pkix.Name{CommonName: "csr.example"}, DNSNames: []string{"csr.example"}}, ecKey)
	add("csr", "CERTIFICATE REQUEST", csr, err)
	// CT structures
	if firstCert != nil {
		// MerkleTreeLeaf: version, leaf type, timestamp, entry type, 3-byte length, cert, 2-byte extensions
		leaf := []byte{0, 0, 0, 0, 1, 0x8b, 0xcf, 0xe5, 0x68, 0, 0, 0, byte(len(firstCert) >> 16), byte(len(firstCert) >> 8), byte(len(firstCert))}
		leaf = append(append(leaf, firstCert...), 0, 0)
		add("merkle-leaf", "CT", leaf, nil)
		pre := []byte{0, 0, 0, 0, 1, 0x8b, 0xcf, 0xe5, 0x68, 0, 0, 1}
		pre = append(pre, bytes.Repeat([]byte{5}, 32)...)
		pre = append(pre, 0, 0, 3, 1, 2, 3, 0, 0)
		add("merkle-leaf-precert", "CT", pre, nil)
		var chain bytes.Buffer
		total := 3 + len(firstCert)
		chain.Write([]byte{byte(total >> 16), byte(total >> 8), byte(total), byte(len(firstCert) >> 16), byte(len(firstCert) >> 8), byte(len(firstCert))})
		chain.Write(firstCert)
		add("chain", "CT", chain.Bytes(), nil)
	}
	sct := append([]byte{0}, bytes.Repeat([]byte{7}, 32)...)
	sct = append(sct, 0, 0, 1, 0x8b, 0xcf, 0xe5, 0x68, 0)
	sct = append(sct, 0, 0, 4, 3, 0, 4, 1, 2, 3, 4)
	add("sct", "CT", sct, nil)
	add("digitally-signed", "CT", []byte{4, 3, 0, 3, 9, 9, 9}, nil)
	// TLS handshake messages
	for k := 0; k < tls.VerifNumKinds; k++ {
		m := &tls.VerifMsg{VerifyData: []byte{1, 2, 3}, Ciphertext: []byte{4, 5}, Key: []byte{6}, Response: []byte{7}, Signature: []byte{8, 9}, Ticket: []byte{1},
			Random: bytes.Repeat([]byte{3}, 32), SessionID: []byte{1, 2}, CipherSuites: []uint16{0x1301, 0xc02f}, CompressionMethods: []uint8{0}, Vers: 0x0303}
		if b, ok := tls.VerifMarshal(k, m); ok {
			add("tls-msg", "TLS", b, nil)
		}
	}
	return out
}

func genSCTList(c *vh.Ctx) []byte {
	var list []byte
	for k := c.Intn(4); k > 0; k-- {
		var sct []byte
		switch c.Intn(6) {
		case 0:
			sct = c.Bytes(c.Intn(6))
		default:
			sct = append([]byte{0}, c.Bytes(32)...)
			sct = append(sct, c.Bytes(8)...)
			ext := c.Bytes(c.Intn(3))
			sct = append(sct, byte(len(ext)>>8), byte(len(ext)))
			sct = append(sct, ext...)
			sig := c.Bytes(c.Intn(5))
			sct = append(sct, 4, 3, byte(len(sig)>>8), byte(len(sig)))
			sct = append(sct, sig...)
			if c.Intn(4) == 0 && len(sct) > 0 {
				sct = sct[:c.Intn(len(sct))]
			}
			if c.Intn(6) == 0 && len(sct) > 0 {
				sct[0] = 1
			}
		}
		l := len(sct)
		if c.Intn(6) == 0 {
			l += c.Intn(5) - 2
			if l < 0 {
				l = 0
			}
		}
		list = append(list, byte(l>>8), byte(l))
		list = append(list, sct...)
	}
	out := []byte{byte(len(list) >> 8), byte(len(list))}
	if c.Intn(8) == 0 {
		out = c.Bytes(2)
	}
	out = append(out, list...)
	if c.Intn(8) == 0 {
		out = append(out, c.Bytes(1)...)
	}
	return out
}

func genCRLSet(c *vh.Ctx) []byte {
	hdr := `{"Version":0,"ContentType":"CRLSet","Sequence":7,"DeltaFrom":0,"NumParents":2,"BlockedSPKIs":["abc"]}`
	switch c.Intn(8) {
	case 0:
		hdr = `{"Sequence":"x"}`
	case 1:
		hdr = `{`
	case 2:
		hdr = `{}`
	}
	out := []byte{byte(len(hdr)), byte(len(hdr) >> 8)}
	if c.Intn(10) == 0 {
		out[0] += byte(c.Intn(5))
	}
	out = append(out, hdr...)
	for p := c.Intn(3); p > 0; p-- {
		out = append(out, c.Bytes(32)...)
		n := c.Intn(4)
		var nb [4]byte
		binary.LittleEndian.PutUint32(nb[:], uint32(n))
		if c.Intn(10) == 0 {
			binary.LittleEndian.PutUint32(nb[:], uint32(c.U64()))
		}
		out = append(out, nb[:]...)
		for i := 0; i < n; i++ {
			l := c.Intn(5)
			out = append(out, byte(l))
			out = append(out, c.Bytes(l)...)
		}
	}
	if c.Intn(4) == 0 && len(out) > 0 {
		out = out[:c.Intn(len(out)+1)]
	}
	return out
}

var sstCert []byte

func sstGood(c *vh.Ctx) []byte {
	if sstCert == nil {
		t := &x509.Certificate{SerialNumber: big.NewInt(5), Subject: pkix.Name{CommonName: "sst"}, NotBefore: time.Unix(1700000000, 0), NotAfter: time.Unix(1900000000, 0)}
		sstCert, _ = x509.CreateCertificate(&detReader{sha256.Sum256([]byte("sst"))}, t, t, genPub, genKey)
	}
	return sstCert
}

// genSST: withMutants also embeds mutated certificates (oracle only: the model of the stream
// knows one certificate that parses and byte strings too short to parse)
func genSST(c *vh.Ctx, withMutants bool) []byte {
	sstGood(c)
	var b bytes.Buffer
	le := func(v uint32) { binary.Write(&b, binary.LittleEndian, v) }
	le(0)
	if c.Intn(10) == 0 {
		b.WriteString("CERX")
	} else {
		b.WriteString("CERT")
	}
	for e := c.Intn(4); e > 0; e-- {
		switch c.Intn(4) {
		case 0: // property
			v := c.Bytes(c.Intn(6))
			le(uint32(1 + c.Intn(30)))
			le(1)
			le(uint32(len(v)))
			b.Write(v)
		default: // certificate
			cert := sstCert
			switch c.Intn(5) {
			case 0:
				cert = c.Bytes(c.Intn(8)) // does not parse
			case 1:
				if withMutants {
					cert = mut.Mutate(c, sstCert)
				}
			}
			le(32)
			if c.Intn(10) == 0 {
				le(2)
			} else {
				le(1)
			}
			l := uint32(len(cert))
			switch c.Intn(10) {
			case 0:
				l = uint32(c.U64())
			case 1:
				l += uint32(c.Intn(5))
			}
			le(l)
			b.Write(cert)
		}
	}
	if c.Intn(3) != 0 {
		le(0)
		binary.Write(&b, binary.LittleEndian, uint64(0))
	}
	out := b.Bytes()
	if c.Intn(5) == 0 && len(out) > 0 {
		out = out[:c.Intn(len(out)+1)]
	}
	return out
}

var _ = json.Marshal
