// Package mut is shared by the C01 and C02 harnesses: the repository's test
// fixtures, a tolerant DER tree with structure-aware mutations, and a guarded
// runner (recover + watchdog + allocation meter).
package mut

import (
	"bytes"
	"encoding/base64"
	"encoding/pem"
	"fmt"
	"os"
	"path/filepath"
	"regexp"
	"runtime/metrics"
	"sort"
	"strings"
	"time"

	"verifharness/vh"
)

// ---------------------------------------------------------------- fixtures
type Fixture struct {
	Name string // path relative to the repository + index of the PEM block
	Kind string // PEM type ("CERTIFICATE", "X509 CRL", ...) or "DER"/"RAW"
	Data []byte
}

var pemInGo = regexp.MustCompile("(?s)-----BEGIN ([A-Z0-9 ]+)-----\n.*?-----END [A-Z0-9 ]+-----")

// LoadFixtures collects every PEM block and raw file under */testdata and data/
// of the repository, plus the PEM blocks embedded in *_test.go files.
func LoadFixtures(repo string) []Fixture {
	var out []Fixture
	seen := map[string]bool{}
	add := func(name, kind string, data []byte) {
		k := kind + "\x00" + string(data)
		if len(data) == 0 || seen[k] {
			return
		}
		seen[k] = true
		out = append(out, Fixture{name, kind, data})
	}
	filepath.Walk(repo, func(p string, info os.FileInfo, err error) error {
		if err != nil || info.IsDir() {
			if info != nil && info.IsDir() && (info.Name() == ".git" || info.Name() == "vendor") {
				return filepath.SkipDir
			}
			return nil
		}
		rel, _ := filepath.Rel(repo, p)
		inData := strings.Contains(rel, "testdata"+string(filepath.Separator)) || strings.HasPrefix(rel, "data"+string(filepath.Separator))
		isTest := strings.HasSuffix(rel, "_test.go")
		if !inData && !isTest {
			return nil
		}
		if info.Size() > 4<<20 {
			return nil
		}
		raw, err := os.ReadFile(p)
		if err != nil {
			return nil
		}
		if isTest {
			for i, m := range pemInGo.FindAll(raw, -1) {
				// Go raw strings may indent nothing; decode directly
				if b, _ := pem.Decode(m); b != nil {
					add(fmt.Sprintf("%s#%d", rel, i), b.Type, b.Bytes)
				}
			}
			return nil
		}
		if bytes.Contains(raw, []byte("-----BEGIN ")) {
			rest := raw
			for i := 0; ; i++ {
				var b *pem.Block
				b, rest = pem.Decode(rest)
				if b == nil {
					break
				}
				add(fmt.Sprintf("%s#%d", rel, i), b.Type, b.Bytes)
			}
			return nil
		}
		// a base64 certificate without armour (x509/testdata/*.cert)
		if d, err := base64.StdEncoding.DecodeString(strings.TrimSpace(string(raw))); err == nil && len(d) > 4 && d[0] == 0x30 {
			add(rel, "CERTIFICATE", d)
			return nil
		}
		kind := "RAW"
		if len(raw) > 2 && raw[0] == 0x30 {
			kind = "DER"
		}
		add(rel, kind, raw)
		return nil
	})
	sort.Slice(out, func(i, j int) bool { return out[i].Name < out[j].Name })
	return out
}

// ---------------------------------------------------------------- DER trees
type Node struct {
	Class       int
	Tag         int
	Constructed bool
	Children    []*Node // when the content was parsed as a sequence of TLVs
	Content     []byte  // otherwise
	Prefix      []byte  // bytes before the wrapped children (BIT STRING unused-bits octet)
	Wrapped     bool    // primitive OCTET/BIT STRING whose content is itself DER
	LenBytes    []byte  // when non-nil, emitted instead of the computed length
	TagBytes    []byte  // when non-nil, emitted instead of the computed identifier
	Raw         []byte  // when non-nil, emitted instead of everything
}

func parseHeader(b []byte) (class, tag int, constructed bool, hdr, length int, ok bool) {
	if len(b) < 2 {
		return
	}
	class = int(b[0] >> 6)
	constructed = b[0]&0x20 != 0
	tag = int(b[0] & 0x1f)
	i := 1
	if tag == 0x1f {
		tag = 0
		for {
			if i >= len(b) || i > 5 {
				return
			}
			tag = tag<<7 | int(b[i]&0x7f)
			i++
			if b[i-1]&0x80 == 0 {
				break
			}
		}
	}
	if i >= len(b) {
		return
	}
	l := int(b[i])
	i++
	if l&0x80 != 0 {
		n := l & 0x7f
		if n == 0 || n > 4 || i+n > len(b) {
			return
		}
		l = 0
		for k := 0; k < n; k++ {
			l = l<<8 | int(b[i+k])
		}
		i += n
	}
	if l < 0 || i+l > len(b) {
		return
	}
	return class, tag, constructed, i, l, true
}

// Parse reads a sequence of TLVs; nil when b is not exactly such a sequence.
func Parse(b []byte, depth int) []*Node {
	var out []*Node
	for len(b) > 0 {
		class, tag, cons, hdr, l, ok := parseHeader(b)
		if !ok {
			return nil
		}
		n := &Node{Class: class, Tag: tag, Constructed: cons}
		content := b[hdr : hdr+l]
		switch {
		case cons && depth < 40:
			if ch := Parse(content, depth+1); ch != nil || len(content) == 0 {
				n.Children = ch
			} else {
				n.Content = content
			}
		case !cons && class == 0 && tag == 4 && len(content) > 1 && depth < 40:
			if ch := Parse(content, depth+1); ch != nil {
				n.Children, n.Wrapped = ch, true
			} else {
				n.Content = content
			}
		case !cons && class == 0 && tag == 3 && len(content) > 2 && content[0] == 0 && depth < 40:
			if ch := Parse(content[1:], depth+1); ch != nil && content[1] == 0x30 {
				n.Children, n.Wrapped, n.Prefix = ch, true, []byte{0}
			} else {
				n.Content = content
			}
		default:
			n.Content = content
		}
		out = append(out, n)
		b = b[hdr+l:]
	}
	return out
}

func encLen(l int) []byte {
	switch {
	case l < 0x80:
		return []byte{byte(l)}
	case l < 0x100:
		return []byte{0x81, byte(l)}
	case l < 0x10000:
		return []byte{0x82, byte(l >> 8), byte(l)}
	case l < 0x1000000:
		return []byte{0x83, byte(l >> 16), byte(l >> 8), byte(l)}
	default:
		return []byte{0x84, byte(l >> 24), byte(l >> 16), byte(l >> 8), byte(l)}
	}
}

func (n *Node) Encode() []byte {
	if n.Raw != nil {
		return n.Raw
	}
	var content []byte
	if n.Children != nil || (n.Constructed && n.Content == nil) {
		content = append(content, n.Prefix...)
		for _, c := range n.Children {
			content = append(content, c.Encode()...)
		}
	} else {
		content = n.Content
	}
	var out []byte
	if n.TagBytes != nil {
		out = append(out, n.TagBytes...)
	} else {
		id := byte(n.Class<<6) | byte(n.Tag&0x1f)
		if n.Constructed {
			id |= 0x20
		}
		if n.Tag >= 0x1f {
			id |= 0x1f
			out = append(out, id)
			var stack []byte
			t := n.Tag
			for {
				stack = append([]byte{byte(t & 0x7f)}, stack...)
				t >>= 7
				if t == 0 {
					break
				}
			}
			for i := range stack {
				if i < len(stack)-1 {
					stack[i] |= 0x80
				}
			}
			out = append(out, stack...)
		} else {
			out = append(out, id)
		}
	}
	if n.LenBytes != nil {
		out = append(out, n.LenBytes...)
	} else {
		out = append(out, encLen(len(content))...)
	}
	return append(out, content...)
}

func EncodeAll(ns []*Node) []byte {
	var out []byte
	for _, n := range ns {
		out = append(out, n.Encode()...)
	}
	return out
}

func (n *Node) clone() *Node {
	c := *n
	c.Content = append([]byte(nil), n.Content...)
	if n.Content == nil {
		c.Content = nil
	}
	c.Children = nil
	for _, ch := range n.Children {
		c.Children = append(c.Children, ch.clone())
	}
	if n.Children != nil && c.Children == nil {
		c.Children = []*Node{}
	}
	return &c
}

type ref struct {
	parent *[]*Node
	i      int
}

func collect(list *[]*Node, out *[]ref) {
	for i, n := range *list {
		*out = append(*out, ref{list, i})
		if n.Children != nil {
			collect(&n.Children, out)
		}
	}
}

var tagPool = []int{1, 2, 3, 4, 5, 6, 10, 12, 16, 17, 19, 20, 22, 23, 24, 26, 28, 30, 0, 7, 31, 127, 128}
var interestingInts = [][]byte{{}, {0}, {0xff}, {0x80}, {0x7f}, {0, 0x80}, {0, 0}, {0xff, 0xff}, {0xff, 0x7f}, {1, 0, 1}, {0x7f, 0xff, 0xff, 0xff}, {0x80, 0, 0, 0},
	{0, 0x80, 0, 0, 0}, {0x7f, 0xff, 0xff, 0xff, 0xff, 0xff, 0xff, 0xff}, {0x80, 0, 0, 0, 0, 0, 0, 0}, {1, 0, 0, 0, 0, 0, 0, 0, 0}, {2}, {3}, {1}}
var interestingOIDs = [][]byte{{}, {0x2a}, {0x2a, 0x80, 0x01}, {0x80, 0x01}, {0x88, 0x00}, {0x2b, 0x65, 0x70}, {0x2b, 0x65, 0x6e}, {0x55, 0x1d, 0x20}, {0x55, 0x1d, 0x11}, {0x55, 0x1d, 0x1e},
	{0x2a, 0xff, 0xff, 0xff, 0xff, 0x7f}, {0x2a, 0xff, 0xff, 0xff, 0xff, 0xff, 0xff, 0xff, 0xff, 0xff, 0x7f}, {0x2a, 0x86}, {0x78}, {0x7f}, {0xff}}
var interestingLens = [][]byte{{0}, {0x80}, {0x7f}, {0x81, 0}, {0x81, 0x7f}, {0x81, 0x80}, {0x82, 0, 1}, {0x82, 0xff, 0xff}, {0x83, 1, 0, 0}, {0x84, 0x7f, 0xff, 0xff, 0xff},
	{0x84, 0xff, 0xff, 0xff, 0xff}, {0x85, 1, 0, 0, 0, 0}, {0x88, 0x7f, 0xff, 0xff, 0xff, 0xff, 0xff, 0xff, 0xff}, {0x88, 0x80, 0, 0, 0, 0, 0, 0, 0}, {0xff}, {0x89, 1, 0, 0, 0, 0, 0, 0, 0, 0}}
var interestingTimes = []string{"", "Z", "000000000000Z", "991231235959Z", "500101000000Z", "491231235960Z", "20060102150405Z", "99991231235959Z", "00000101000000Z", "2006010215040Z",
	"060102150405+0000", "0601021504Z", "060102150405-2400", "20060102150405.5Z", "1806310000000Z", "180229000000Z"}

// Mutate returns a structure-aware mutation of der (random bytes when der does not parse).
func Mutate(c *vh.Ctx, der []byte) []byte {
	tree := Parse(der, 0)
	if tree == nil || len(tree) == 0 {
		out := append([]byte(nil), der...)
		for k := 1 + c.Intn(3); k > 0 && len(out) > 0; k-- {
			out[c.Intn(len(out))] = byte(c.U64())
		}
		return out
	}
	for i := range tree {
		tree[i] = tree[i].clone()
	}
	for k := 1 + c.Intn(2); k > 0; k-- {
		var refs []ref
		collect(&tree, &refs)
		if len(refs) == 0 {
			break
		}
		r := refs[c.Intn(len(refs))]
		list := r.parent
		n := (*list)[r.i]
		switch c.Intn(20) {
		case 0: // delete
			*list = append((*list)[:r.i:r.i], (*list)[r.i+1:]...)
		case 1: // duplicate
			d := n.clone()
			*list = append((*list)[:r.i+1:r.i+1], append([]*Node{d}, (*list)[r.i+1:]...)...)
		case 2: // swap with a sibling
			j := c.Intn(len(*list))
			(*list)[r.i], (*list)[j] = (*list)[j], (*list)[r.i]
		case 3:
			n.Tag = tagPool[c.Intn(len(tagPool))]
		case 4:
			n.Constructed = !n.Constructed
			if n.Children != nil && !n.Wrapped {
				n.Content, n.Children = EncodeAll(n.Children), nil
			}
		case 5:
			n.Class = c.Intn(4)
		case 6: // truncate content
			flat(n)
			if len(n.Content) > 0 {
				n.Content = n.Content[:c.Intn(len(n.Content))]
			}
		case 7: // extend content
			flat(n)
			n.Content = append(n.Content, c.Bytes(1+c.Intn(4))...)
		case 8, 9: // interesting value for the (original) type
			flat(n)
			switch {
			case n.Class == 0 && n.Tag == 2:
				n.Content = interestingInts[c.Intn(len(interestingInts))]
				if c.Intn(12) == 0 {
					n.Content = append([]byte{1}, make([]byte, 300+c.Intn(3000))...)
				}
			case n.Class == 0 && n.Tag == 6:
				n.Content = interestingOIDs[c.Intn(len(interestingOIDs))]
			case n.Class == 0 && n.Tag == 1:
				n.Content = [][]byte{{}, {0}, {1}, {0xff}, {0, 0}}[c.Intn(5)]
			case n.Class == 0 && (n.Tag == 23 || n.Tag == 24):
				n.Content = []byte(interestingTimes[c.Intn(len(interestingTimes))])
			case n.Class == 0 && n.Tag == 3:
				switch c.Intn(4) {
				case 0:
					n.Content = nil
				case 1:
					if len(n.Content) > 0 {
						n.Content[0] = []byte{1, 7, 8, 255}[c.Intn(4)]
					}
				case 2:
					n.Content = []byte{0}
				default:
					if len(n.Content) > 1 {
						n.Content = n.Content[:1+c.Intn(len(n.Content)-1)]
					}
				}
			default:
				switch c.Intn(4) {
				case 0:
					n.Content = nil
				case 1:
					n.Content = []byte{0xff, 0xfe, 0x00, 0xc0, 0x80}
				case 2:
					n.Content = bytes.Repeat([]byte{'A'}, 1+c.Intn(300))
				default:
					for i := range n.Content {
						if c.Intn(8) == 0 {
							n.Content[i] = byte(c.U64())
						}
					}
				}
			}
		case 10: // override the length octets
			if c.Bool() {
				n.LenBytes = interestingLens[c.Intn(len(interestingLens))]
			} else {
				l := len(n.Encode()) - 2 + c.Intn(5) - 2
				if l < 0 {
					l = 0
				}
				n.LenBytes = encLen(l)
			}
		case 11: // no children
			if n.Children != nil {
				n.Children = []*Node{}
			} else {
				n.Content = nil
			}
		case 12: // wrap in an extra SEQUENCE / explicit tag
			w := &Node{Class: []int{0, 2}[c.Intn(2)], Tag: []int{16, 0, 1, 3}[c.Intn(4)], Constructed: true, Children: []*Node{n}}
			(*list)[r.i] = w
		case 13: // replace by random bytes
			n.Raw = c.Bytes(1 + c.Intn(12))
		case 14: // deep nesting
			depth := []int{10, 100, 1000, 5000}[c.Intn(4)]
			inner := n
			for d := 0; d < depth; d++ {
				inner = &Node{Class: 0, Tag: 16, Constructed: true, Children: []*Node{inner}}
			}
			(*list)[r.i] = inner
		case 15: // identifier octets in high-tag-number form, possibly not minimal
			id := byte(n.Class<<6) | 0x1f
			if n.Constructed {
				id |= 0x20
			}
			n.TagBytes = [][]byte{{id, byte(n.Tag & 0x7f)}, {id, 0x80, byte(n.Tag & 0x7f)}, {id, 0xff, 0xff, 0xff, 0xff, 0x7f}, {id, 0x81, 0x00}, {id}}[c.Intn(5)]
		case 16: // unwrap: replace by its children
			if len(n.Children) > 0 {
				*list = append((*list)[:r.i:r.i], append(n.Children, (*list)[r.i+1:]...)...)
			}
		case 17: // many copies
			k := []int{2, 17, 200}[c.Intn(3)]
			var many []*Node
			for i := 0; i < k; i++ {
				many = append(many, n.clone())
			}
			*list = append((*list)[:r.i:r.i], append(many, (*list)[r.i+1:]...)...)
		case 18: // flip one bit somewhere in the encoding of this node
			raw := append([]byte(nil), n.Encode()...)
			if len(raw) > 0 {
				raw[c.Intn(len(raw))] ^= 1 << uint(c.Intn(8))
			}
			n.Raw = raw
		default: // move a node from elsewhere in the tree here
			o := refs[c.Intn(len(refs))]
			(*list)[r.i] = (*o.parent)[o.i].clone()
		}
	}
	out := EncodeAll(tree)
	if len(out) > 1<<20 {
		out = out[:1<<20]
	}
	return out
}

// Sweep returns the systematic single-node variants of der: for every node of the
// tree, the encoding with that node deleted, emptied, duplicated, and with its length
// octets one too small.
func Sweep(der []byte) [][]byte {
	base := Parse(der, 0)
	if base == nil {
		return nil
	}
	var count []ref
	collect(&base, &count)
	var out [][]byte
	for i := range count {
		for op := 0; op < 4; op++ {
			tree := make([]*Node, len(base))
			for k := range base {
				tree[k] = base[k].clone()
			}
			var refs []ref
			collect(&tree, &refs)
			r := refs[i]
			n := (*r.parent)[r.i]
			switch op {
			case 0:
				*r.parent = append((*r.parent)[:r.i:r.i], (*r.parent)[r.i+1:]...)
			case 1:
				if n.Children != nil {
					n.Children = []*Node{}
				} else {
					n.Content = nil
				}
			case 2:
				*r.parent = append((*r.parent)[:r.i+1:r.i+1], append([]*Node{n.clone()}, (*r.parent)[r.i+1:]...)...)
			default:
				l := len(n.Encode()) - 3
				if l < 0 {
					continue
				}
				n.LenBytes = encLen(l)
			}
			out = append(out, EncodeAll(tree))
		}
	}
	return out
}

func flat(n *Node) {
	if n.Children != nil {
		n.Content = append(append([]byte(nil), n.Prefix...), EncodeAll(n.Children)...)
		n.Children = nil
	}
}

// ---------------------------------------------------------------- guarded runner
type Outcome struct {
	Class string // ok | err | panic | hang | alloc
	Msg   string
	Alloc uint64 // bytes allocated while the call ran
}

// Code: 0 ok, 1 err, 2 panic, 3 hang, 4 alloc
func (o Outcome) Code() int {
	switch o.Class {
	case "ok":
		return 0
	case "err":
		return 1
	case "panic":
		return 2
	case "hang":
		return 3
	default:
		return 4
	}
}

// AllocLimit is the number of bytes a parser may allocate for an input of n bytes
// before the run counts as "memory far beyond the input size".
func AllocLimit(n int) uint64 { return 4<<20 + 4096*uint64(n) }

var Timeout = 10 * time.Second

// Run calls f under recover, a watchdog and an allocation meter.  inputLen is
// the size of the attacker-controlled input f works on.
func Run(inputLen int, f func() error) Outcome {
	done := make(chan Outcome, 1)
	before := heapAllocs()
	go func() {
		var o Outcome
		defer func() {
			if r := recover(); r != nil {
				o = Outcome{Class: "panic", Msg: fmt.Sprint(r)}
			}
			done <- o
		}()
		if err := f(); err != nil {
			o = Outcome{Class: "err", Msg: err.Error()}
		} else {
			o = Outcome{Class: "ok"}
		}
	}()
	select {
	case o := <-done:
		o.Alloc = heapAllocs() - before
		if o.Class != "panic" && o.Alloc > AllocLimit(inputLen) {
			return Outcome{Class: "alloc", Msg: fmt.Sprintf("%d bytes allocated for %d bytes of input (%s)", o.Alloc, inputLen, o.Class), Alloc: o.Alloc}
		}
		return o
	case <-time.After(Timeout):
		return Outcome{Class: "hang", Msg: fmt.Sprintf("no result after %v", Timeout)}
	}
}

var allocSample = []metrics.Sample{{Name: "/gc/heap/allocs:bytes"}}

// heapAllocs is the cumulative number of bytes allocated on the heap (read
// without stopping the world; large allocations are accounted immediately).
func heapAllocs() uint64 {
	metrics.Read(allocSample)
	return allocSample[0].Value.Uint64()
}
