// C19 harness: strict DER decoding is canonical in both ASN.1 codecs.
// Runs the encoding/asn1 primitives (verif hook) and the cryptobyte readers on
// (a) exhaustively enumerated short encodings, folded into a rolling checksum in
// the traversal order of C19.enum (stream xcase), and (b) individual inputs
// (stream dcase: every content of length <= 1, boundary pairs, random longer
// encodings, structured and mutated headers and GeneralizedTimes).
// Direct oracle on the implementation alone: whenever a decoder accepts, the
// value is re-encoded with the same library and must reproduce the consumed
// bytes exactly.
package main

import (
	"bytes"
	"encoding/json"
	"fmt"
	"math/big"
	"strings"
	"time"

	"github.com/zmap/zcrypto/cryptobyte"
	cbasn1 "github.com/zmap/zcrypto/cryptobyte/asn1"
	easn1 "github.com/zmap/zcrypto/encoding/asn1"
	"verifharness/vh"
)

const (
	kInt = iota
	kBool
	kBits
	kOID
	kHdrA
	kHdrC
	kTime
)

var kindName = []string{"integer", "boolean", "bitstring", "oid", "header-asn1", "header-cryptobyte", "gentime"}

type input struct {
	Kind int    `json:"kind"`
	Hex  string `json:"hex"`
}

// ---------------------------------------------------------------- checksum (C19.mix)
const m31 = 0x7fffffff

func mix(h, x uint64) uint64 { return (h*33 + (x & m31) + 1) & m31 }

var bigMask = big.NewInt(m31)

func mixz(h uint64, z *big.Int) uint64 {
	a := new(big.Int).Abs(z)
	lo := new(big.Int).And(a, bigMask).Uint64()
	if z.Sign() < 0 {
		return mix(mix(h, 1), lo)
	}
	return mix(mix(h, 0), lo)
}
func mixBytes(h uint64, b []byte) uint64 {
	h = mix(h, uint64(len(b)))
	for _, x := range b {
		h = mix(h, uint64(x))
	}
	return h
}
func mixZs(h uint64, l []int64) uint64 {
	h = mix(h, uint64(len(l)))
	for _, x := range l {
		h = mixz(h, big.NewInt(x))
	}
	return h
}
func obsOptZ(h uint64, z *big.Int) uint64 {
	if z == nil {
		return mix(h, 0)
	}
	return mixz(mix(h, 1), z)
}

// ---------------------------------------------------------------- running the implementation
func el(tag byte, c []byte) []byte { // short-form element around a short content
	return append([]byte{tag, byte(len(c))}, c...)
}

type ints struct{ a64, a32, abig, c64, cu64, cbig, c8 *big.Int }

func runInts(c []byte) ints {
	var r ints
	if v, err := easn1.VerifParseInt64(c); err == nil {
		r.a64 = big.NewInt(v)
	}
	if v, err := easn1.VerifParseInt32(c); err == nil {
		r.a32 = big.NewInt(int64(v))
	}
	if v, err := easn1.VerifParseBigInt(c); err == nil {
		r.abig = v
	}
	e := el(2, c)
	{
		s := cryptobyte.String(e)
		var x int64
		if s.ReadASN1Integer(&x) {
			r.c64 = big.NewInt(x)
		}
	}
	{
		s := cryptobyte.String(e)
		var x uint64
		if s.ReadASN1Integer(&x) {
			r.cu64 = new(big.Int).SetUint64(x)
		}
	}
	{
		s := cryptobyte.String(e)
		x := new(big.Int)
		if s.ReadASN1Integer(x) {
			r.cbig = x
		}
	}
	{
		s := cryptobyte.String(e)
		var x int8
		if s.ReadASN1Integer(&x) {
			r.c8 = big.NewInt(int64(x))
		}
	}
	return r
}

type bools struct{ a, c int } // 0 rejected, 1 false, 2 true

func runBools(c []byte) bools {
	var r bools
	if v, err := easn1.VerifParseBool(c); err == nil {
		r.a = 1
		if v {
			r.a = 2
		}
	}
	s := cryptobyte.String(el(1, c))
	var b bool
	if s.ReadASN1Boolean(&b) {
		r.c = 1
		if b {
			r.c = 2
		}
	}
	return r
}

type bitsv struct {
	ok bool
	d  []byte
	n  int
}
type bitsr struct {
	a, c bitsv
	cb   []byte
	cbOK bool
}

func runBits(c []byte) bitsr {
	var r bitsr
	if v, err := easn1.VerifParseBitString(c); err == nil {
		r.a = bitsv{true, v.Bytes, v.BitLength}
	}
	{
		s := cryptobyte.String(el(3, c))
		var v easn1.BitString
		if s.ReadASN1BitString(&v) {
			r.c = bitsv{true, v.Bytes, v.BitLength}
		}
	}
	{
		s := cryptobyte.String(el(3, c))
		var v []byte
		if s.ReadASN1BitStringAsBytes(&v) {
			r.cb, r.cbOK = v, true
		}
	}
	return r
}

type oids struct {
	a, c     []int64
	aOK, cOK bool
}

func toI64(o []int) []int64 {
	a := make([]int64, len(o))
	for i, x := range o {
		a[i] = int64(x)
	}
	return a
}
func runOIDs(c []byte) oids {
	var r oids
	if v, err := easn1.VerifParseObjectIdentifier(c); err == nil {
		r.a, r.aOK = toI64(v), true
	}
	s := cryptobyte.String(el(6, c))
	var v easn1.ObjectIdentifier
	if s.ReadASN1ObjectIdentifier(&v) {
		r.c, r.cOK = toI64(v), true
	}
	return r
}

type hdrA struct {
	ok   bool
	t    easn1.VerifTagAndLength
	off  int
	left int
}

func runHdrA(c []byte) hdrA {
	if len(c) == 0 {
		return hdrA{} // parseTagAndLength is never called on an empty slice (internal error)
	}
	t, off, err := easn1.VerifParseTagAndLength(c, 0)
	if err != nil {
		return hdrA{}
	}
	return hdrA{true, t, off, len(c) - off}
}

type hdrC struct {
	ok          bool
	tag, hl, el int
	elem        []byte
}

func runHdrC(c []byte) hdrC {
	s := cryptobyte.String(append(make([]byte, 0, len(c)+1), c...))
	var elem cryptobyte.String
	var tag cbasn1.Tag
	if !s.ReadAnyASN1Element(&elem, &tag) {
		return hdrC{}
	}
	s2 := cryptobyte.String(append(make([]byte, 0, len(c)+1), c...))
	var content cryptobyte.String
	var tag2 cbasn1.Tag
	if !s2.ReadAnyASN1(&content, &tag2) || tag2 != tag {
		return hdrC{ok: true, tag: -1} // the two entry points disagree: visible as a mismatch
	}
	return hdrC{true, int(tag), len(elem) - len(content), len(elem), elem}
}

type GT struct{ Y, Mo, D, H, Mi, S, Off int }

func runTime(c []byte) (GT, time.Time, bool) {
	if len(c) > 127 {
		return GT{}, time.Time{}, false
	}
	s := cryptobyte.String(el(0x18, c))
	var t time.Time
	if !s.ReadASN1GeneralizedTime(&t) {
		return GT{}, t, false
	}
	_, off := t.Zone()
	return GT{t.Year(), int(t.Month()), t.Day(), t.Hour(), t.Minute(), t.Second(), off / 60}, t, true
}

// ---------------------------------------------------------------- direct oracle: re-encoding reproduces the consumed bytes
type viol struct{ key, desc string }

func marshalContent(v interface{}) ([]byte, bool) {
	out, err := easn1.Marshal(v)
	if err != nil || len(out) < 2 {
		return nil, false
	}
	// strip identifier and length
	_, off, err := easn1.VerifParseTagAndLength(out, 0)
	if err != nil {
		return nil, false
	}
	return out[off:], true
}
func build(f func(b *cryptobyte.Builder)) ([]byte, bool) {
	var b cryptobyte.Builder
	f(&b)
	out, err := b.Bytes()
	return out, err == nil
}

func oracle(kind int, c []byte) []viol {
	var vs []viol
	bad := func(codec, what string, got []byte, ok bool, want []byte) {
		if !ok || !bytes.Equal(got, want) {
			vs = append(vs, viol{"noncanonical-" + codec + "-" + what,
				fmt.Sprintf("%s %s accepted %x but re-encoding the decoded value gives %x (ok=%v)", codec, what, want, got, ok)})
		}
	}
	switch kind {
	case kInt:
		r := runInts(c)
		e := el(2, c)
		if r.a64 != nil {
			got, ok := marshalContent(r.a64.Int64())
			bad("asn1", "int64", got, ok, c)
		}
		if r.a32 != nil {
			got, ok := marshalContent(int32(r.a32.Int64()))
			bad("asn1", "int32", got, ok, c)
		}
		if r.abig != nil {
			got, ok := marshalContent(r.abig)
			bad("asn1", "bigint", got, ok, c)
		}
		if r.c64 != nil {
			got, ok := build(func(b *cryptobyte.Builder) { b.AddASN1Int64(r.c64.Int64()) })
			bad("cryptobyte", "int64", got, ok, e)
		}
		if r.cu64 != nil {
			got, ok := build(func(b *cryptobyte.Builder) { b.AddASN1Uint64(r.cu64.Uint64()) })
			bad("cryptobyte", "uint64", got, ok, e)
		}
		if r.cbig != nil {
			got, ok := build(func(b *cryptobyte.Builder) { b.AddASN1BigInt(r.cbig) })
			bad("cryptobyte", "bigint", got, ok, e)
		}
		if r.c8 != nil {
			got, ok := build(func(b *cryptobyte.Builder) { b.AddASN1Int64(r.c8.Int64()) })
			bad("cryptobyte", "int8", got, ok, e)
		}
		// the readers of one codec agree with each other wherever both accept
		agree := func(x, y *big.Int, what string) {
			if x != nil && y != nil && x.Cmp(y) != 0 {
				vs = append(vs, viol{"integer-readers-disagree", fmt.Sprintf("%s: %v vs %v on %x", what, x, y, c)})
			}
		}
		agree(r.a64, r.abig, "asn1 int64/big")
		agree(r.c64, r.cbig, "cryptobyte int64/big")
		agree(r.abig, r.cbig, "asn1/cryptobyte big")
	case kBool:
		r := runBools(c)
		if r.a != 0 {
			got, ok := marshalContent(r.a == 2)
			bad("asn1", "boolean", got, ok, c)
		}
		if r.c != 0 {
			got, ok := build(func(b *cryptobyte.Builder) { b.AddASN1Boolean(r.c == 2) })
			bad("cryptobyte", "boolean", got, ok, el(1, c))
		}
	case kBits:
		r := runBits(c)
		// DER: unused bits are zero, at most 7, and none in an empty string
		padOK := func(codec string, v bitsv) {
			pad := 8*len(v.d) - v.n
			if pad < 0 || pad > 7 || len(v.d) == 0 && pad != 0 || len(v.d) > 0 && v.d[len(v.d)-1]&byte(1<<uint(pad)-1) != 0 {
				vs = append(vs, viol{"bitstring-padding-bits-" + codec,
					fmt.Sprintf("%s accepted BIT STRING %x: %d unused bits that are not all zero / out of range", codec, c, pad)})
			}
		}
		if r.a.ok {
			padOK("asn1", r.a)
		}
		if r.c.ok {
			padOK("cryptobyte", r.c)
		}
		if r.a.ok {
			got, ok := marshalContent(easn1.BitString{Bytes: r.a.d, BitLength: r.a.n})
			bad("asn1", "bitstring", got, ok, c)
		}
		if r.c.ok {
			got, ok := build(func(b *cryptobyte.Builder) { b.MarshalASN1(easn1.BitString{Bytes: r.c.d, BitLength: r.c.n}) })
			bad("cryptobyte", "bitstring", got, ok, el(3, c))
		}
		if r.cbOK {
			got, ok := build(func(b *cryptobyte.Builder) { b.AddASN1BitString(r.cb) })
			bad("cryptobyte", "bitstring-bytes", got, ok, el(3, c))
		}
	case kOID:
		r := runOIDs(c)
		toInt := func(a []int64) []int {
			o := make([]int, len(a))
			for i, x := range a {
				o[i] = int(x)
			}
			return o
		}
		if r.aOK {
			got, ok := marshalContent(easn1.ObjectIdentifier(toInt(r.a)))
			bad("asn1", "oid", got, ok, c)
		}
		if r.cOK {
			got, ok := build(func(b *cryptobyte.Builder) { b.AddASN1ObjectIdentifier(easn1.ObjectIdentifier(toInt(r.c))) })
			bad("cryptobyte", "oid", got, ok, el(6, c))
		}
	case kHdrA:
		r := runHdrA(c)
		if r.ok {
			got := easn1.VerifAppendTagAndLength(nil, r.t)
			bad("asn1", "header", got, true, c[:r.off])
		}
	case kHdrC:
		r := runHdrC(c)
		if r.ok && r.tag >= 0 {
			content := r.elem[r.hl:]
			got, ok := build(func(b *cryptobyte.Builder) {
				b.AddASN1(cbasn1.Tag(r.tag), func(ch *cryptobyte.Builder) { ch.AddBytes(content) })
			})
			bad("cryptobyte", "header", got, ok, []byte(r.elem))
		}
	case kTime:
		if _, t, ok := runTime(c); ok {
			got, ok2 := build(func(b *cryptobyte.Builder) { b.AddASN1GeneralizedTime(t) })
			bad("cryptobyte", "gentime", got, ok2, el(0x18, c))
		}
	}
	return vs
}

// ---------------------------------------------------------------- observables for the checksum (mirror of C19.obs_*)
var pad300 = make([]byte, 300)

func obs(kind int, h uint64, c []byte) uint64 {
	switch kind {
	case kInt:
		r := runInts(c)
		for _, z := range []*big.Int{r.a64, r.a32, r.abig, r.c64, r.cu64, r.cbig, r.c8} {
			h = obsOptZ(h, z)
		}
		return h
	case kBool:
		r := runBools(c)
		return mix(mix(h, uint64(r.a)), uint64(r.c))
	case kBits:
		r := runBits(c)
		f := func(h uint64, v bitsv) uint64 {
			if !v.ok {
				return mix(h, 0)
			}
			return mixz(mixBytes(mix(h, 1), v.d), big.NewInt(int64(v.n)))
		}
		h = f(f(h, r.a), r.c)
		if r.cbOK {
			return mixBytes(mix(h, 1), r.cb)
		}
		return mix(h, 0)
	case kOID:
		r := runOIDs(c)
		f := func(h uint64, ok bool, l []int64) uint64 {
			if !ok {
				return mix(h, 0)
			}
			return mixZs(mix(h, 1), l)
		}
		return f(f(h, r.aOK, r.a), r.cOK, r.c)
	case kHdrA:
		r := runHdrA(c)
		if !r.ok {
			return mix(h, 0)
		}
		cp := uint64(0)
		if r.t.IsCompound {
			cp = 1
		}
		return mix(mix(mix(mix(mix(mix(h, 1), uint64(r.t.Class)), cp), uint64(r.t.Tag)), uint64(r.t.Length)), uint64(r.left))
	case kHdrC:
		in := append(append(make([]byte, 0, len(c)+300), c...), pad300...)
		r := runHdrC(in)
		if !r.ok {
			return mix(h, 0)
		}
		return mix(mix(mix(mix(h, 1), uint64(r.tag)), uint64(r.hl)), uint64(r.el))
	}
	panic("obs kind")
}

var alphabets = [][]byte{nil, {0, 1, 127, 128, 129, 130, 131, 132, 255}, {0, 1, 2, 39, 40, 79, 80, 127, 128, 129, 130, 255}, edge}

func init() {
	a := make([]byte, 256)
	for i := range a {
		a[i] = byte(i)
	}
	alphabets[0] = a
}

// enumeration in the order of C19.enum; the oracle runs on every string too
func enum(c *vh.Ctx, kind int, alpha []byte, depth int, pre []byte, h uint64, count *int) uint64 {
	h = obs(kind, h, pre)
	*count++
	okind := kind
	in := pre
	if kind == kHdrC {
		in = append(append(make([]byte, 0, len(pre)+300), pre...), pad300...)
	}
	for _, v := range oracle(okind, in) {
		c.Violation(v.key, v.desc, "dcase", input{Kind: okind, Hex: vh.Hex(in)})
	}
	if depth == 0 {
		return h
	}
	for _, b := range alpha {
		ext := append(append(make([]byte, 0, len(pre)+1), pre...), b)
		h = enum(c, kind, alpha, depth-1, ext, h, count)
	}
	return h
}

func xcase(c *vh.Ctx, kind, aid int, prefix []byte, depth int) {
	n := 0
	h := enum(c, kind, alphabets[aid], depth, prefix, 0, &n)
	c.Case("xcase", vh.Pair(vh.NI(kind), vh.NI(aid), vh.Bytes(prefix), vh.Nat(depth), vh.N(h)),
		map[string]interface{}{"kind": kind, "alphabet": aid, "prefix": vh.Hex(prefix), "depth": depth},
		fmt.Sprintf("%d/%d/%x/%d", kind, aid, prefix, depth))
	c.Stat("enumerated_"+kindName[kind], n)
}

// byte strings with long runs are printed as (lit ++ nrep b n ++ ...)
func cbytes(b []byte) string {
	if len(b) < 48 {
		return vh.Bytes(b)
	}
	var parts []string
	lit := []byte{}
	flush := func() {
		if len(lit) > 0 {
			parts = append(parts, vh.Bytes(lit))
			lit = []byte{}
		}
	}
	for i := 0; i < len(b); {
		j := i
		for j < len(b) && b[j] == b[i] {
			j++
		}
		if j-i >= 24 {
			flush()
			parts = append(parts, fmt.Sprintf("nrep %d %d", b[i], j-i))
		} else {
			lit = append(lit, b[i:j]...)
		}
		i = j
	}
	flush()
	return "(" + strings.Join(parts, " ++ ") + ")"
}

// ---------------------------------------------------------------- single cases (C19.res terms)
func optZ(z *big.Int) string {
	if z == nil {
		return "None"
	}
	return vh.Some(vh.BigZ(z))
}
func zlist(xs []int64) string {
	if len(xs) == 0 {
		return "(@nil Z)"
	}
	s := make([]string, len(xs))
	for i, x := range xs {
		s[i] = vh.Z(x)
	}
	return vh.List(s)
}
func optBits(v bitsv) string {
	if !v.ok {
		return "None"
	}
	return vh.Some(vh.Pair(vh.Bytes(v.d), vh.Z(int64(v.n))))
}
func optBool(x int) string {
	switch x {
	case 1:
		return "(Some false)"
	case 2:
		return "(Some true)"
	}
	return "None"
}

func resTerm(kind int, c []byte) (string, bool) { // term, accepted by someone
	switch kind {
	case kInt:
		r := runInts(c)
		return vh.App("RInts", optZ(r.a64), optZ(r.a32), optZ(r.abig), optZ(r.c64), optZ(r.cu64), optZ(r.cbig), optZ(r.c8)),
			r.abig != nil || r.cbig != nil
	case kBool:
		r := runBools(c)
		return vh.App("RBools", optBool(r.a), optBool(r.c)), r.a != 0 || r.c != 0
	case kBits:
		r := runBits(c)
		cb := "None"
		if r.cbOK {
			cb = vh.Some(vh.Bytes(r.cb))
		}
		return vh.App("RBits", optBits(r.a), optBits(r.c), cb), r.a.ok || r.c.ok
	case kOID:
		r := runOIDs(c)
		a, cc := "None", "None"
		if r.aOK {
			a = vh.Some(zlist(r.a))
		}
		if r.cOK {
			cc = vh.Some(zlist(r.c))
		}
		return vh.App("ROids", a, cc), r.aOK || r.cOK
	case kHdrA:
		r := runHdrA(c)
		if !r.ok {
			return "(RHdrA None)", false
		}
		return vh.App("RHdrA", vh.Some(vh.Pair(vh.NI(r.t.Class), vh.Bool(r.t.IsCompound), vh.NI(r.t.Tag), vh.NI(r.t.Length), vh.NI(r.left)))), true
	case kHdrC:
		r := runHdrC(c)
		if !r.ok {
			return "(RHdrC None)", false
		}
		if r.tag < 0 {
			return vh.App("RHdrC", vh.Some(vh.Pair(vh.NI(999), vh.NI(0), vh.NI(0)))), true
		}
		return vh.App("RHdrC", vh.Some(vh.Pair(vh.NI(r.tag), vh.NI(r.hl), vh.NI(r.el)))), true
	case kTime:
		g, _, ok := runTime(c)
		if !ok {
			return "(RTime None)", false
		}
		return vh.App("RTime", vh.Some(fmt.Sprintf("(Build_gtime %s %d %d %d %d %d %s)", vh.Z(int64(g.Y)), g.Mo, g.D, g.H, g.Mi, g.S, vh.Z(int64(g.Off))))), true
	}
	panic("resTerm")
}

func dcase(c *vh.Ctx, kind int, in []byte) {
	term, acc := resTerm(kind, in)
	nk := ""
	if acc {
		nk = fmt.Sprintf("%d/%x", kind, in)
	}
	ip := input{Kind: kind, Hex: vh.Hex(in)}
	c.Case("dcase", vh.Pair(vh.NI(kind), cbytes(in), term), ip, nk)
	for _, v := range oracle(kind, in) {
		c.Violation(v.key, v.desc, "dcase", ip)
	}
}

// ---------------------------------------------------------------- generators
var edge = []byte{0x00, 0x01, 0x02, 0x27, 0x28, 0x4f, 0x50, 0x7e, 0x7f, 0x80, 0x81, 0x82, 0xbf, 0xc0, 0xfe, 0xff}

func genContent(c *vh.Ctx, n int) []byte {
	b := make([]byte, n)
	for i := range b {
		if c.Intn(3) == 0 {
			b[i] = byte(c.U64())
		} else {
			b[i] = edge[c.Intn(len(edge))]
		}
	}
	return b
}

func genHeader(c *vh.Ctx) []byte {
	var b []byte
	tag := byte(c.U64())
	if c.Intn(4) == 0 {
		tag |= 0x1f
	}
	b = append(b, tag)
	if tag&0x1f == 0x1f {
		for n := c.Intn(6); n > 0; n-- {
			b = append(b, 0x80|byte(c.U64()))
		}
		if c.Intn(5) != 0 {
			b = append(b, byte(c.U64())&0x7f)
		}
		if c.Intn(4) == 0 && len(b) > 1 {
			b[1] = []byte{0x80, 0x81, 0x1e, 0x1f, 0x7f}[c.Intn(5)]
		}
	}
	switch c.Intn(6) {
	case 0:
		b = append(b, byte(c.Intn(128)))
	case 1:
		b = append(b, 0x80)
	default:
		k := 1 + c.Intn(5)
		b = append(b, 0x80|byte(k))
		l := genContent(c, k)
		if c.Intn(3) == 0 {
			l[0] = 0
		}
		b = append(b, l...)
	}
	if c.Intn(5) == 0 && len(b) > 1 {
		b = b[:len(b)-1] // truncated
	}
	return b
}

// an element for the cryptobyte header reader: header + as much content as declared (bounded)
func genElementC(c *vh.Ctx) []byte {
	var b []byte
	tag := byte(c.U64())
	if c.Intn(12) != 0 && tag&0x1f == 0x1f {
		tag &^= 1
	}
	n := []int{0, 1, 5, 126, 127, 128, 129, 200, 255, 256, 257, 300, 65535, 65536, 70000}[c.Intn(15)]
	b = append(b, tag)
	switch form := c.Intn(8); {
	case form == 0 && n < 128:
		b = append(b, byte(n))
	case form == 1: // non-minimal long form
		k := 1 + c.Intn(4)
		b = append(b, 0x80|byte(k))
		for i := k - 1; i >= 0; i-- {
			b = append(b, byte(n>>(8*uint(i))))
		}
	case form == 2:
		b = append(b, 0x80)
	case form == 3:
		b = append(b, 0x84, 0xff, 0xff, 0xff, byte(0xf8+c.Intn(8)))
	default: // minimal
		switch {
		case n < 128:
			b = append(b, byte(n))
		case n < 256:
			b = append(b, 0x81, byte(n))
		case n < 65536:
			b = append(b, 0x82, byte(n>>8), byte(n))
		default:
			b = append(b, 0x83, byte(n>>16), byte(n>>8), byte(n))
		}
	}
	have := n + c.Intn(3) - 1
	if have < 0 {
		have = 0
	}
	b = append(b, bytes.Repeat([]byte{byte(c.U64())}, have)...)
	return b
}

func genTimeString(c *vh.Ctx) []byte {
	y, mo, d := c.Intn(10000), 1+c.Intn(12), 1+c.Intn(28)
	if c.Intn(4) == 0 {
		d = 28 + c.Intn(4)
	}
	if c.Intn(6) == 0 {
		mo = []int{0, 2, 13}[c.Intn(3)]
	}
	h, mi, s := c.Intn(24), c.Intn(60), c.Intn(60)
	if c.Intn(10) == 0 {
		h = 24
	}
	if c.Intn(10) == 0 {
		s = 60
	}
	str := fmt.Sprintf("%04d%02d%02d%02d%02d%02d", y, mo, d, h, mi, s)
	switch c.Intn(14) {
	case 0:
		str += "+0000"
	case 1:
		str += "-0000"
	case 2:
		str += fmt.Sprintf("%c%02d%02d", "+-"[c.Intn(2)], c.Intn(26), c.Intn(62))
	case 3:
		str += ".5Z"
	case 4:
		str += ",25Z"
	case 5:
		str += ".000Z"
	case 6:
		str += ""
	case 7:
		str += "z"
	case 8:
		str += "+01:00"
	case 9:
		str += fmt.Sprintf("%c%02d%02d", "+-"[c.Intn(2)], c.Intn(24), c.Intn(60))
	case 10:
		str = str[:12] + "Z" // no seconds
	case 11:
		str += ".5+0100"
	default:
		str += "Z"
	}
	b := []byte(str)
	if c.Intn(8) == 0 && len(b) > 0 {
		b[c.Intn(len(b))] = []byte{' ', '/', ':', 'A', '+', '-', '.', 0xb0}[c.Intn(8)]
	}
	return b
}

func gen(c *vh.Ctx) {
	// ---- exhaustive (rolling checksum): one xcase per (kind, first byte); the kinds are interleaved so that
	// the shards the driver cuts the stream into cost about the same on the model side
	depthOf := func(kind int) int {
		return 1 // first byte + 1 more: every content of length <= 2
	}
	oidDepth := 3
	if c.Thorough {
		oidDepth = 4
	}
	hi := []byte{0x1f, 0xbf, 0x30, 0x02}
	cbTags := []byte{0x30, 0x02, 0x1f, 0xa0}
	if c.Thorough {
		cbTags = []byte{0x02, 0x30, 0x1f, 0x3f, 0xa0, 0x80, 0xff, 0x05, 0x00, 0x1e}
	}
	for _, kind := range []int{kInt, kBool, kBits, kOID} {
		xcase(c, kind, 0, nil, 0)
	}
	for b := 0; b < 256; b++ {
		for _, kind := range []int{kInt, kBool, kBits, kOID} {
			xcase(c, kind, 0, []byte{byte(b)}, depthOf(kind))
		}
		// headers: identifier octet, then length octets (and high-tag continuation octets) from {00 01 7f 80 81 82 83 84 ff}
		if c.Thorough {
			xcase(c, kHdrA, 1, []byte{byte(b)}, 5)
		} else {
			xcase(c, kHdrA, 1, []byte{byte(b)}, 2)
		}
		if c.Thorough {
			// three-byte contents whose second and third byte come from the 16-value boundary alphabet
			for _, kind := range []int{kInt, kBits, kOID} {
				xcase(c, kind, 3, []byte{byte(b)}, 2)
			}
		}
		if b%22 == 0 && b/22 < len(alphabets[2]) {
			// OID bodies one or two bytes longer over the boundary alphabet {00 01 02 27 28 4f 50 7f 80 81 82 ff}
			xcase(c, kOID, 2, []byte{alphabets[2][b/22]}, oidDepth)
		}
		if !c.Thorough && b%22 == 11 && b/22 < len(hi) {
			xcase(c, kHdrA, 1, []byte{hi[b/22]}, 5)
		}
		if b%26 == 5 && b/26 < len(cbTags) {
			xcase(c, kHdrC, 1, []byte{cbTags[b/26]}, 5)
		}
	}
	c.Exhaustive("every INTEGER, BOOLEAN, BIT STRING and OID content of length <= 2 (all 256 byte values), each through every reader of both codecs")
	if c.Thorough {
		c.Exhaustive("every INTEGER, BIT STRING and OID content of length 3 with an arbitrary first byte and the other two from the 16-value boundary alphabet")
		c.Exhaustive("encoding/asn1 parseTagAndLength: every header of <= 6 bytes with an arbitrary identifier octet and the other octets from {00,01,7f,80,81,82,83,84,ff}")
		// implementation only (direct oracle, no model): the full three-byte domains of the property text
		for _, kind := range []int{kInt, kBits, kOID} {
			n := 0
			buf := make([]byte, 3)
			for a := 0; a < 256; a++ {
				for b := 0; b < 256; b++ {
					for d := 0; d < 256; d++ {
						buf[0], buf[1], buf[2] = byte(a), byte(b), byte(d)
						for _, v := range oracle(kind, buf) {
							c.Violation(v.key, v.desc, "dcase", input{Kind: kind, Hex: vh.Hex(buf)})
						}
						n++
					}
				}
			}
			c.Stat("oracle_only_"+kindName[kind], n)
			c.Eval(fmt.Sprintf("full3/%d", kind))
		}
		c.Exhaustive("direct oracle only (no model): every INTEGER, BIT STRING and OID content of length 3 over all 256 byte values")
	} else {
		// the identifier octet interacts with what follows only in the high-tag form (low five bits set)
		c.Exhaustive("encoding/asn1 parseTagAndLength: every header of <= 3 bytes with an arbitrary identifier octet, and of <= 6 bytes for the identifier octets 1f bf 30 02; other octets from {00,01,7f,80,81,82,83,84,ff}")
	}
	c.Exhaustive(fmt.Sprintf("every OID body of length <= %d over the 12-value boundary alphabet", oidDepth+1))
	c.Exhaustive(fmt.Sprintf("cryptobyte readASN1: every header of <= 6 bytes for %d identifier octets", len(cbTags)) + ", other octets from {00,01,7f,80,81,82,83,84,ff}, followed by 300 content bytes")

	// ---- single cases
	for _, kind := range []int{kInt, kBool, kBits, kOID, kHdrA, kHdrC, kTime} {
		dcase(c, kind, nil)
		for b := 0; b < 256; b++ {
			dcase(c, kind, []byte{byte(b)})
		}
	}
	for _, kind := range []int{kInt, kBits, kOID} {
		for _, a := range edge {
			for _, b := range edge {
				dcase(c, kind, []byte{a, b})
			}
		}
	}
	nr := 900
	if c.Thorough {
		nr = 30000
	}
	for i := 0; i < nr; i++ {
		kind := []int{kInt, kInt, kBits, kOID, kOID, kBool}[c.Intn(6)]
		n := 3 + c.Intn(8)
		if kind == kInt && c.Intn(3) == 0 {
			n = 7 + c.Intn(4) // around the 8/9 byte limits of the 64-bit readers
		}
		if kind == kOID && c.Intn(3) == 0 {
			n = 4 + c.Intn(4)
		}
		in := genContent(c, n)
		if kind == kOID && c.Intn(2) == 0 { // long sub-identifiers: 4/5-octet limits
			in = []byte{byte(c.Intn(256))}
			for k := 3 + c.Intn(3); k > 0; k-- {
				in = append(in, 0x80|byte(c.U64()))
			}
			in = append(in, byte(c.U64())&0x7f)
			if c.Intn(3) == 0 {
				in[1] = []byte{0x80, 0x81, 0x87, 0x88, 0x8f, 0x90, 0xff}[c.Intn(7)]
			}
		}
		if kind == kBits && c.Intn(2) == 0 && len(in) > 1 {
			in[0] = byte(c.Intn(9))
			if c.Bool() {
				in[len(in)-1] &^= byte(1<<in[0] - 1) // padding bits cleared
			}
		}
		dcase(c, kind, in)
	}
	for i := 0; i < nr; i++ {
		dcase(c, kHdrA, append(genHeader(c), genContent(c, c.Intn(3))...))
		dcase(c, kHdrC, genElementC(c))
		dcase(c, kTime, genTimeString(c))
	}
}

func replay(c *vh.Ctx, raw json.RawMessage) {
	var in input
	if err := json.Unmarshal(raw, &in); err != nil {
		panic(err)
	}
	dcase(c, in.Kind, vh.UnHex(in.Hex))
}

func main() { vh.Main("C19", gen, replay) }
