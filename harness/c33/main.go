// C33 harness: JSON encodings of zcrypto value types round-trip.
//
//	--tables : regenerates coq/gen/C33Tables_gen.v (name tables read off the built code)
//	streams  : rt       (value, tree Marshal produced, value Unmarshal produced)   per value
//	           dcase    (type, arbitrary tree, value/err/panic Unmarshal produced)
//	           xenum    (type, bits, checksum over all code points: tree + decoded value)
//	           xsighash (checksum over all 2^8 signature and 2^8 hash codes)
//	oracle   : Unmarshal(Marshal(v)) succeeds, equals v, no panic — on the implementation alone.
package main

import (
	"bytes"
	"encoding/json"
	"fmt"
	"io"
	"math/big"
	"sort"
	"strconv"
	"strings"
	"unicode/utf8"

	"verifharness/vh"
)

// ---------------------------------------------------------------- JSON trees
type J struct {
	k   byte // 'n' null, 'b' bool, 'i' int, 's' string, 'a' array, 'o' object, 'f' non-integer number
	b   bool
	z   *big.Int
	s   string
	arr []*J
	key []string
	val []*J
}

func parseTree(raw []byte) (*J, error) {
	d := json.NewDecoder(bytes.NewReader(raw))
	d.UseNumber()
	t, err := readValue(d)
	if err != nil {
		return nil, err
	}
	if _, err := d.Token(); err != io.EOF {
		return nil, fmt.Errorf("trailing data")
	}
	return t, nil
}

func readValue(d *json.Decoder) (*J, error) {
	tok, err := d.Token()
	if err != nil {
		return nil, err
	}
	switch x := tok.(type) {
	case nil:
		return &J{k: 'n'}, nil
	case bool:
		return &J{k: 'b', b: x}, nil
	case json.Number:
		z, ok := new(big.Int).SetString(string(x), 10)
		if !ok {
			return &J{k: 'f', s: string(x)}, nil
		}
		return &J{k: 'i', z: z}, nil
	case string:
		return &J{k: 's', s: x}, nil
	case json.Delim:
		switch x {
		case '[':
			t := &J{k: 'a'}
			for d.More() {
				e, err := readValue(d)
				if err != nil {
					return nil, err
				}
				t.arr = append(t.arr, e)
			}
			_, err := d.Token()
			return t, err
		case '{':
			t := &J{k: 'o'}
			for d.More() {
				kt, err := d.Token()
				if err != nil {
					return nil, err
				}
				e, err := readValue(d)
				if err != nil {
					return nil, err
				}
				t.key = append(t.key, kt.(string))
				t.val = append(t.val, e)
			}
			_, err := d.Token()
			return t, err
		}
	}
	return nil, fmt.Errorf("unexpected token %v", tok)
}

// cs prints a byte string as a Coq string term (long strings run-length coded).
func cs(b []byte) string {
	if len(b) > 1500 {
		var parts []string
		i := 0
		for i < len(b) {
			j := i
			for j < len(b) && b[j] == b[i] {
				j++
			}
			if j-i >= 64 {
				parts = append(parts, fmt.Sprintf("(srep %d %d)", b[i], j-i))
				i = j
				continue
			}
			// literal piece up to the next long run (or 1000 bytes)
			k := i
			for k < len(b) && k-i < 1000 {
				r := k
				for r < len(b) && b[r] == b[k] {
					r++
				}
				if r-k >= 64 {
					break
				}
				k = r
			}
			if k == i {
				k = i + 1
			}
			parts = append(parts, csShort(b[i:k]))
			i = k
		}
		return "(scat " + vh.List(parts) + ")"
	}
	return csShort(b)
}

func csShort(b []byte) string {
	plain := true
	for _, x := range b {
		if x < 0x20 || x > 0x7e {
			plain = false
			break
		}
	}
	if plain {
		return `"` + strings.ReplaceAll(string(b), `"`, `""`) + `"%string`
	}
	var sb strings.Builder
	sb.WriteString("(bs [")
	for i, x := range b {
		if i > 0 {
			sb.WriteString(";")
		}
		sb.WriteString(strconv.Itoa(int(x)))
	}
	sb.WriteString("]%N)")
	return sb.String()
}
func css(s string) string { return cs([]byte(s)) }

func (t *J) coq() string {
	switch t.k {
	case 'n':
		return "JNull"
	case 'b':
		return "(JBool " + vh.Bool(t.b) + ")"
	case 'i':
		return "(JNum " + vh.BigZ(t.z) + ")"
	case 'f':
		return "(JStr " + css("non-integer:"+t.s) + ")" // never produced by the modelled types
	case 's':
		return "(JStr " + css(t.s) + ")"
	case 'a':
		xs := make([]string, len(t.arr))
		for i, e := range t.arr {
			xs[i] = e.coq()
		}
		return "(JArr " + vh.List(xs) + ")"
	default:
		xs := make([]string, len(t.key))
		for i := range t.key {
			xs[i] = "(" + css(t.key[i]) + ", " + t.val[i].coq() + ")"
		}
		return "(JObj " + vh.List(xs) + ")"
	}
}

// text serialises a tree back to JSON (used for the dcase stream).
func (t *J) text(sb *strings.Builder) {
	switch t.k {
	case 'n':
		sb.WriteString("null")
	case 'b':
		sb.WriteString(vh.Bool(t.b))
	case 'i':
		sb.WriteString(t.z.String())
	case 's':
		b, _ := json.Marshal(t.s)
		sb.Write(b)
	case 'a':
		sb.WriteByte('[')
		for i, e := range t.arr {
			if i > 0 {
				sb.WriteByte(',')
			}
			e.text(sb)
		}
		sb.WriteByte(']')
	case 'o':
		sb.WriteByte('{')
		for i := range t.key {
			if i > 0 {
				sb.WriteByte(',')
			}
			b, _ := json.Marshal(t.key[i])
			sb.Write(b)
			sb.WriteByte(':')
			t.val[i].text(sb)
		}
		sb.WriteByte('}')
	}
}
func (t *J) String() string { var sb strings.Builder; t.text(&sb); return sb.String() }

func (t *J) clone() *J {
	c := *t
	if t.z != nil {
		c.z = new(big.Int).Set(t.z)
	}
	c.arr = nil
	for _, e := range t.arr {
		c.arr = append(c.arr, e.clone())
	}
	c.key = append([]string{}, t.key...)
	c.val = nil
	for _, e := range t.val {
		c.val = append(c.val, e.clone())
	}
	return &c
}

// hash mirrors C33Json.jhash / C33Json.mix.
func mix(h, x uint64) uint64 { return (h*33 + x + 1) & 0xffffffff }

func hashStr(h uint64, s string) uint64 {
	h = mix(h, uint64(len(s)))
	for i := 0; i < len(s); i++ {
		h = mix(h, uint64(s[i]))
	}
	return h
}
func modP(z *big.Int) uint64 {
	return new(big.Int).Mod(z, big.NewInt(1<<32)).Uint64()
}
func (t *J) hash(h uint64) uint64 {
	switch t.k {
	case 'n':
		return mix(h, 1)
	case 'b':
		x := uint64(0)
		if t.b {
			x = 1
		}
		return mix(mix(h, 2), x)
	case 'i':
		return mix(mix(h, 3), modP(t.z))
	case 's':
		return hashStr(mix(h, 4), t.s)
	case 'f':
		return hashStr(mix(h, 4), "non-integer:"+t.s)
	case 'a':
		h = mix(mix(h, 5), uint64(len(t.arr)))
		for _, e := range t.arr {
			h = e.hash(h)
		}
		return h
	default:
		h = mix(mix(h, 6), uint64(len(t.key)))
		for i := range t.key {
			h = t.val[i].hash(hashStr(h, t.key[i]))
		}
		return h
	}
}

// ---------------------------------------------------------------- running the implementation
type outcome struct {
	class string // ok | err | panic
	msg   string
}

func guard(f func() error) (o outcome) {
	defer func() {
		if r := recover(); r != nil {
			o = outcome{"panic", fmt.Sprint(r)}
		}
	}()
	if err := f(); err != nil {
		return outcome{"err", err.Error()}
	}
	return outcome{"ok", ""}
}

func resTerm(o outcome, okTerm string) string {
	switch o.class {
	case "ok":
		return "(Ok " + okTerm + ")"
	case "err":
		return "Err"
	default:
		return "Panic"
	}
}

// ---------------------------------------------------------------- one-integer enumerated types
type enumT struct {
	coq       string
	bits      int
	marshal   func(v int64) ([]byte, error)
	unmarshal func(b []byte) (int64, error)
	inDomain  func(v int64) bool // the values the property quantifies over
	extra     []int64            // further values for the per-value stream (negative, large)
}

func (e *enumT) runOne(v int64) (mo outcome, raw []byte, tree *J, do outcome, d int64) {
	mo = guard(func() error { var err error; raw, err = e.marshal(v); return err })
	if mo.class != "ok" {
		return
	}
	var err error
	tree, err = parseTree(raw)
	if err != nil {
		mo = outcome{"err", "Marshal output is not JSON: " + err.Error()}
		return
	}
	do = guard(func() error { var err error; d, err = e.unmarshal(raw); return err })
	return
}

func enumVal(e *enumT, v int64) string { return fmt.Sprintf("(VInt %s %s)", e.coq, vh.Z(v)) }

type enumInput struct {
	Type  string `json:"type"`
	Value int64  `json:"value"`
}

func enumCase(c *vh.Ctx, e *enumT, v int64, stream string) {
	mo, _, tree, do, d := e.runOne(v)
	oj := "Err"
	od := "Err"
	if mo.class == "panic" {
		oj = "Panic"
	}
	if mo.class == "ok" {
		oj = "(Ok " + tree.coq() + ")"
		od = resTerm(do, enumVal(e, d))
	}
	in := enumInput{e.coq, v}
	c.Case("rt", vh.Pair(enumVal(e, v), oj, od), in, fmt.Sprintf("%s/%d", e.coq, v))
	enumOracle(c, e, v, mo, do, d, stream)
}

func enumOracle(c *vh.Ctx, e *enumT, v int64, mo, do outcome, d int64, stream string) {
	in := enumInput{e.coq, v}
	name := strings.ToLower(strings.TrimPrefix(e.coq, "T"))
	if mo.class == "panic" || do.class == "panic" {
		c.Violation("enum-"+name+"-panic", fmt.Sprintf("%s value %d: marshal %s %s / unmarshal %s %s", e.coq, v, mo.class, mo.msg, do.class, do.msg), stream, in)
		return
	}
	if !e.inDomain(v) {
		return
	}
	if mo.class != "ok" || do.class != "ok" {
		c.Violation("enum-"+name+"-roundtrip", fmt.Sprintf("%s value %d: marshal %s %s / unmarshal %s %s", e.coq, v, mo.class, mo.msg, do.class, do.msg), stream, in)
		return
	}
	if d != v {
		c.Violation("enum-"+name+"-roundtrip", fmt.Sprintf("%s value %d decodes as %d", e.coq, v, d), stream, in)
	}
}

// enumHash mirrors C33.enum_hash and runs the oracle on every code point.
func enumHash(c *vh.Ctx, e *enumT) uint64 {
	h := uint64(0)
	for v := int64(0); v < 1<<uint(e.bits); v++ {
		mo, _, tree, do, d := e.runOne(v)
		if mo.class != "ok" {
			h = mix(h, 5)
		} else {
			h = tree.hash(h)
			switch do.class {
			case "ok":
				h = mix(mix(h, 1), modP(big.NewInt(d)))
			case "err":
				h = mix(h, 3)
			default:
				h = mix(h, 4)
			}
		}
		enumOracle(c, e, v, mo, do, d, "xenum")
		c.Eval("")
	}
	return h
}

// ---------------------------------------------------------------- generation
func gen(c *vh.Ctx) {
	if c.Tables {
		writeTables(c)
		return
	}
	// 1. exhaustive: every code point of the enumerated types (checksum) ...
	for _, e := range enums() {
		h := enumHash(c, e)
		c.Case("xenum", vh.Pair(e.coq, vh.Nat(e.bits), vh.N(h)), map[string]interface{}{"type": e.coq, "bits": e.bits}, e.coq)
		c.Exhaustive(fmt.Sprintf("all 2^%d code points of %s", e.bits, e.coq))
	}
	c.Case("xsighash", vh.N(sigHashAll(c)), map[string]string{"type": "TSigHash"}, "sighash")
	c.Exhaustive("all 2^8 signature codes and all 2^8 hash codes of SignatureAndHash")
	// ... and per value: every named code point, its neighbours, boundary and random values
	for _, e := range enums() {
		seen := map[int64]bool{}
		add := func(v int64) {
			if !seen[v] {
				seen[v] = true
				enumCase(c, e, v, "rt")
			}
		}
		for v := int64(0); v < 1<<uint(e.bits); v++ {
			raw, err := e.marshal(v)
			if err == nil && !bytes.Contains(raw, []byte("nknown")) && !bytes.Contains(raw, []byte("ClientAuthType(")) {
				if e.bits <= 8 || len(seen) < 450 {
					add(v)
					if v > 0 {
						add(v - 1)
					}
					add(v + 1)
				}
			}
		}
		for _, v := range e.extra {
			add(v)
		}
		add(0)
		add(1<<uint(e.bits) - 1)
		n := 40
		if c.Thorough {
			n = 600
		}
		for i := 0; i < n; i++ {
			add(int64(c.Intn(1 << uint(e.bits))))
		}
	}
	for s := 0; s < 256; s++ {
		sigHashCase(c, uint8(s), uint8(c.Intn(256)))
		sigHashCase(c, uint8(c.Intn(256)), uint8(s))
	}
	// 2. structured types: random values
	n := 60
	if c.Thorough {
		n = 1500
	}
	for _, st := range structs() {
		for _, v := range st.fixed() {
			structCase(c, st, v, "rt")
		}
		for i := 0; i < n; i++ {
			structCase(c, st, st.gen(c), "rt")
		}
	}
	// 3. arbitrary trees into every Unmarshal
	decStream(c)
}

type replayInput struct {
	Many  []json.RawMessage `json:"many"` // several inputs in one replay file
	Kind  string            `json:"kind"` // enum | sighash | struct | tree
	Type  string            `json:"type"`
	Value int64             `json:"value"`
	Sig   int               `json:"sig"`
	Hash  int               `json:"hash"`
	JSON  json.RawMessage   `json:"json"` // struct: the value in the harness's own input format; tree: the tree
}

func replay(c *vh.Ctx, raw json.RawMessage) {
	var in replayInput
	if err := json.Unmarshal(raw, &in); err != nil {
		panic(err)
	}
	if len(in.Many) > 0 {
		for _, r := range in.Many {
			replay(c, r)
		}
		return
	}
	if in.Kind == "" { // an input recorded by the streams
		var probe map[string]json.RawMessage
		json.Unmarshal(raw, &probe)
		switch {
		case probe["tree"] != nil:
			in.Kind = "tree"
			in.JSON = probe["tree"]
		case probe["go"] != nil:
			in.Kind = "struct"
			in.JSON = probe["go"]
		case probe["sig"] != nil:
			in.Kind = "sighash"
		case probe["bits"] != nil:
			in.Kind = "xenum"
		default:
			in.Kind = "enum"
		}
	}
	switch in.Kind {
	case "enum":
		for _, e := range enums() {
			if e.coq == in.Type {
				enumCase(c, e, in.Value, "rt")
			}
		}
	case "xenum":
		for _, e := range enums() {
			if e.coq == in.Type {
				h := enumHash(c, e)
				c.Case("xenum", vh.Pair(e.coq, vh.Nat(e.bits), vh.N(h)), map[string]interface{}{"type": e.coq, "bits": e.bits}, e.coq)
			}
		}
		if in.Type == "TSigHash" {
			c.Case("xsighash", vh.N(sigHashAll(c)), map[string]string{"type": "TSigHash"}, "sighash")
		}
	case "sighash":
		sigHashCase(c, uint8(in.Sig), uint8(in.Hash))
	case "struct":
		for _, st := range structs() {
			if st.coq == in.Type {
				v, err := st.load(in.JSON)
				if err != nil {
					panic(err)
				}
				structCase(c, st, v, "rt")
			}
		}
	case "tree":
		t, err := parseTree(in.JSON)
		if err != nil {
			panic(err)
		}
		for _, e := range enums() {
			if e.coq == in.Type {
				decEnum(c, e, t)
			}
		}
		if in.Type == "TSigHash" {
			decSigHash(c, t)
		}
		for _, st := range structs() {
			if st.coq == in.Type {
				decStruct(c, st, t)
			}
		}
	}
}

func main() { vh.Main("C33", gen, replay) }

// ---------------------------------------------------------------- helpers shared with types.go
func coqZs(xs []int) string {
	if len(xs) == 0 {
		return "(@nil Z)"
	}
	ss := make([]string, len(xs))
	for i, x := range xs {
		ss[i] = vh.Z(int64(x))
	}
	return vh.List(ss)
}
func coqStrs(xs []string) string {
	ss := make([]string, len(xs))
	for i, x := range xs {
		ss[i] = css(x)
	}
	return vh.List0(ss, "string")
}
func optMag(x *big.Int) string {
	if x == nil {
		return "None"
	}
	return vh.Some(cs(x.Bytes()))
}

var alphabet = []string{"a", "b", "Z", "0", "7", ".", "-", " ", "@", "/", ":", "\"", "\\", "<", ">", "&", "\n", "\t", "é", "中", " ", "\U0001F600", "=", "+", "(", ")", "{", "}", "[", "]", ","}

func genStr(c *vh.Ctx, max int) string {
	n := c.Intn(max + 1)
	var sb strings.Builder
	for i := 0; i < n; i++ {
		sb.WriteString(alphabet[c.Intn(len(alphabet))])
	}
	s := sb.String()
	if !utf8.ValidString(s) {
		panic("generator produced invalid UTF-8")
	}
	return s
}
func genStrs(c *vh.Ctx, maxN, maxLen int) []string {
	n := c.Intn(maxN + 1)
	var out []string
	for i := 0; i < n; i++ {
		out = append(out, genStr(c, maxLen))
	}
	return out
}
func genBytes(c *vh.Ctx, max int) []byte {
	n := c.Intn(max + 1)
	if n == 0 {
		return nil
	}
	return c.Bytes(n)
}

// genMag: a non-negative big integer (canonical magnitude), sometimes zero
func genMag(c *vh.Ctx) *big.Int {
	switch c.Intn(8) {
	case 0:
		return new(big.Int)
	case 1:
		return big.NewInt(int64(c.Intn(256)))
	}
	b := c.Bytes(1 + c.Intn(40))
	if b[0] == 0 {
		b[0] = 1
	}
	return new(big.Int).SetBytes(b)
}
func genOptMag(c *vh.Ctx) *big.Int {
	if c.Intn(3) == 0 {
		return nil
	}
	return genMag(c)
}

var arcPool = []int{0, 1, 2, 3, 5, 9, 29, 39, 127, 128, 840, 2342, 113549, 19200300, 2147483647}

func genOID(c *vh.Ctx, max31 bool) []int {
	n := 2 + c.Intn(7)
	o := make([]int, n)
	for i := range o {
		switch c.Intn(5) {
		case 0:
			o[i] = c.Intn(1 << 20)
		case 1:
			if !max31 {
				o[i] = int(c.U64() >> 2)
				break
			}
			fallthrough
		default:
			o[i] = arcPool[c.Intn(len(arcPool))]
		}
	}
	return o
}

func sortedKeys(m map[string]int) []string {
	var ks []string
	for k := range m {
		ks = append(ks, k)
	}
	sort.Strings(ks)
	return ks
}
