package main

import (
	"encoding/json"
	"fmt"
	"math/big"
	"sort"
	"strings"

	zj "github.com/zmap/zcrypto/json"
	"github.com/zmap/zcrypto/tls"
	"github.com/zmap/zcrypto/x509"
	"verifharness/vh"
)

// ================================================================ arbitrary trees into Unmarshal
type treeInput struct {
	Type string          `json:"type"`
	Tree json.RawMessage `json:"tree"`
}

func decEnum(c *vh.Ctx, e *enumT, t *J) {
	text := t.String()
	var d int64
	do := guard(func() error { var err error; d, err = e.unmarshal([]byte(text)); return err })
	in := treeInput{e.coq, json.RawMessage(text)}
	c.Case("dcase", vh.Pair(e.coq, t.coq(), resTerm(do, enumVal(e, d))), in, e.coq+"/"+do.class)
	if do.class == "panic" {
		c.Violation("dec-"+strings.ToLower(strings.TrimPrefix(e.coq, "T"))+"-panic", "UnmarshalJSON panics on "+text+": "+do.msg, "dcase", in)
	}
}

func decSigHash(c *vh.Ctx, t *J) {
	text := t.String()
	var x tls.SignatureAndHash
	do := guard(func() error { return json.Unmarshal([]byte(text), &x) })
	in := treeInput{"TSigHash", json.RawMessage(text)}
	c.Case("dcase", vh.Pair("TSigHash", t.coq(), resTerm(do, fmt.Sprintf("(VSigHash %s %s)", vh.Z(int64(x.Signature)), vh.Z(int64(x.Hash))))), in, "sighash/"+do.class)
	if do.class == "panic" {
		c.Violation("dec-sighash-panic", "UnmarshalJSON panics on "+text+": "+do.msg, "dcase", in)
	}
}

func decStruct(c *vh.Ctx, st *structT, t *J) {
	text := t.String()
	d := st.fresh()
	do := guard(func() error { return json.Unmarshal([]byte(text), d) })
	in := treeInput{st.coq, json.RawMessage(text)}
	okTerm := ""
	if do.class == "ok" {
		okTerm = st.out(d)
	}
	c.Case("dcase", vh.Pair(st.coq, t.coq(), resTerm(do, okTerm)), in, st.coq+"/"+do.class)
	if do.class == "panic" {
		c.Violation("dec-"+strings.ToLower(strings.TrimPrefix(st.coq, "T"))+"-panic", "UnmarshalJSON panics on "+text+": "+do.msg, "dcase", in)
	}
}

func jstr(s string) *J { return &J{k: 's', s: s} }
func jint(s string) *J {
	z, _ := new(big.Int).SetString(s, 10)
	return &J{k: 'i', z: z}
}

var scalarPool = []func() *J{
	func() *J { return &J{k: 'n'} },
	func() *J { return &J{k: 'b', b: true} },
	func() *J { return &J{k: 'b'} },
	func() *J { return &J{k: 'a'} },
	func() *J { return &J{k: 'o'} },
	func() *J { return &J{k: 'a', arr: []*J{{k: 'n'}}} },
	func() *J { return &J{k: 'a', arr: []*J{jstr("")}} },
}
var intPool = []string{"0", "1", "-1", "4", "255", "256", "771", "65535", "65536", "2147483647", "2147483648", "4294967295", "4294967296",
	"9223372036854775807", "9223372036854775808", "-9223372036854775808", "-9223372036854775809", "18446744073709551616", "8", "16", "24", "512"}
var strPool = []string{"", "x", "unknown", "unknown.7", "unknown.300", "unknown.-1", "unknown.+9", "unknown.99999999999", "unknown.-99999999999", "unknown.", "unknown.1x",
	"7", "-7", "rsa", "sha256", "ecdsa", "TLSv1.2", "NULL", "secp256r1", "uncompressed", "RSA", "Ed25519", "SHA256-RSAPSS", "SHA512-RSAPSS", "SHA1-RSA",
	"AAAA", "AA==", "AAA=", "AB==", "A", "AA=", "AA=A", "AAAAA", "zz", "0f", "0F", "0g", "abc",
	"1.2.3", "1..2", "-1.2", "+1.2", "1.2.", ".1", "1.2.840.113549.1.1.10", "1.2.840.113549.1.1.11", "1.3.14.3.2.29", "1.2.840.113549.1.1.5", "2147483648.1", "1.9223372036854775808",
	"NoClientCert", "RequireAndVerifyClientCert", "ClientAuthType(7)", "ClientAuthType(2)", "ClientAuthType(+7)", "ClientAuthType(-3)", "ClientAuthType(", "ClientAuthType()", "ClientAuthType(07)", "ClientAuthType(9223372036854775808)",
	"10.0.0.1/8", "10.0.0.1/33", "10.0.0.1/08", "10.0.0.1/", "/8", "10.0.0.1", "10.0.0.01/8", "256.0.0.1/8", "1.2.3.4", "1.2.3", "1.2.3.4.5", "0.0.0.0/0", "1.2.3.4/5/6", "01.2.3.4"}

func randScalar(c *vh.Ctx) *J {
	switch c.Intn(10) {
	case 0, 1:
		return scalarPool[c.Intn(len(scalarPool))]()
	case 2, 3, 4:
		return jint(intPool[c.Intn(len(intPool))])
	default:
		return jstr(strPool[c.Intn(len(strPool))])
	}
}

// nodes lists every node of the tree with a setter that replaces it.
type slot struct {
	get func() *J
	set func(*J)
	del func() // nil when the node cannot be deleted
}

func slots(root **J) []slot {
	var out []slot
	var walk func(get func() *J, set func(*J), del func())
	walk = func(get func() *J, set func(*J), del func()) {
		out = append(out, slot{get, set, del})
		t := get()
		switch t.k {
		case 'a':
			for i := range t.arr {
				i := i
				walk(func() *J { return t.arr[i] }, func(n *J) { t.arr[i] = n }, nil)
			}
		case 'o':
			for i := range t.key {
				k := t.key[i]
				find := func() int {
					for j := range t.key {
						if t.key[j] == k {
							return j
						}
					}
					return -1
				}
				walk(func() *J { return t.val[find()] }, func(n *J) { t.val[find()] = n }, func() {
					j := find()
					t.key = append(t.key[:j], t.key[j+1:]...)
					t.val = append(t.val[:j], t.val[j+1:]...)
				})
			}
		}
	}
	walk(func() *J { return *root }, func(n *J) { *root = n }, nil)
	return out
}

func mutate(c *vh.Ctx, base *J) *J {
	t := base.clone()
	for n := 1 + c.Intn(2); n > 0; n-- {
		ss := slots(&t)
		s := ss[c.Intn(len(ss))]
		if s.del != nil && c.Intn(4) == 0 {
			s.del()
			continue
		}
		cur := s.get()
		switch {
		case cur.k == 'i' && c.Intn(2) == 0:
			s.set(jint(intPool[c.Intn(len(intPool))]))
		case cur.k == 's' && c.Intn(2) == 0:
			s.set(jstr(strPool[c.Intn(len(strPool))]))
		default:
			s.set(randScalar(c))
		}
	}
	return t
}

func decStream(c *vh.Ctx) {
	per := 25
	if c.Thorough {
		per = 500
	}
	for _, e := range enums() {
		var bases []*J
		for i := 0; i < 6; i++ {
			v := int64(c.Intn(1 << uint(e.bits)))
			if i < 3 { // a named value
				for k := 0; k < 200; k++ {
					raw, err := e.marshal(v)
					if err == nil && !strings.Contains(string(raw), "nknown") && !strings.Contains(string(raw), "ClientAuthType(") {
						break
					}
					v = int64(c.Intn(1 << uint(e.bits)))
				}
			}
			if raw, err := e.marshal(v); err == nil {
				if t, err := parseTree(raw); err == nil {
					bases = append(bases, t)
				}
			}
		}
		for _, b := range bases {
			decEnum(c, e, b)
		}
		for _, sc := range scalarPool {
			decEnum(c, e, sc())
		}
		for i := 0; i < per; i++ {
			decEnum(c, e, mutate(c, bases[c.Intn(len(bases))]))
		}
		if e.coq == "TClientAuth" {
			for _, s := range strPool {
				decEnum(c, e, jstr(s))
			}
		}
	}
	// SignatureAndHash: every pool string as either name
	for _, s := range strPool {
		decSigHash(c, &J{k: 'o', key: []string{"signature_algorithm", "hash_algorithm"}, val: []*J{jstr(s), jstr("sha256")}})
		decSigHash(c, &J{k: 'o', key: []string{"signature_algorithm", "hash_algorithm"}, val: []*J{jstr("rsa"), jstr(s)}})
	}
	for _, sc := range scalarPool {
		decSigHash(c, sc())
	}
	for _, st := range structs() {
		var bases []*J
		for i := 0; i < 8; i++ {
			raw, err := json.Marshal(st.build(st.gen(c)))
			if err != nil {
				continue
			}
			if t, err := parseTree(raw); err == nil && len(raw) < 20000 {
				bases = append(bases, t)
			}
		}
		for _, sc := range scalarPool {
			decStruct(c, st, sc())
		}
		if len(bases) == 0 {
			continue
		}
		for i := 0; i < per; i++ {
			decStruct(c, st, mutate(c, bases[c.Intn(len(bases))]))
		}
	}
	// the shape ECPoint.MarshalJSON produces for X25519 (no y), and friends
	for _, st := range structs() {
		if st.coq == "TECPoint" {
			for _, txt := range []string{`{"x":{"value":"BQ==","length":8}}`, `{"y":{"value":"BQ==","length":8}}`, `{}`, `{"x":null,"y":null}`} {
				t, _ := parseTree([]byte(txt))
				decStruct(c, st, t)
			}
		}
	}
}

// ================================================================ regenerated tables (T2)
func coqTable(name string, rows [][2]string, ty string) string {
	var sb strings.Builder
	fmt.Fprintf(&sb, "Definition %s : list (%s) :=\n  [", name, ty)
	for i, r := range rows {
		if i > 0 {
			sb.WriteString(";\n   ")
		}
		fmt.Fprintf(&sb, "(%s, %s)", r[0], r[1])
	}
	sb.WriteString("].\n\n")
	return sb.String()
}

func writeTables(c *vh.Ctx) {
	var sb strings.Builder
	sb.WriteString("(* GENERATED by harness/c33 --tables from the built repository code; do not edit.\n" +
		"   Every table lists the code points whose name is not the type's fall-back string. *)\n" +
		"From Coq Require Import List ZArith String.\nImport ListNotations.\nLocal Open Scope string_scope.\n\n")
	scan := func(name string, max int64, fallback func(v int64) string, nameOf func(v int64) string) {
		var rows [][2]string
		for v := int64(0); v < max; v++ {
			if n := nameOf(v); n != fallback(v) {
				rows = append(rows, [2]string{vh.Z(v), css(n)})
			}
		}
		sb.WriteString(coqTable(name, rows, "Z * string"))
	}
	unk := func(int64) string { return "unknown" }
	scan("tls_version_names", 65536, unk, func(v int64) string { return tls.TLSVersion(v).String() })
	scan("cipher_suite_names", 65536, unk, func(v int64) string { return tls.CipherSuiteID(v).String() })
	scan("compression_names", 256, unk, func(v int64) string { return tls.CompressionMethod(v).String() })
	scan("curve_names", 65536, unk, func(v int64) string { return tls.CurveID(v).String() })
	scan("point_format_names", 256, unk, func(v int64) string { return tls.PointFormat(v).String() })
	// nameForSignature / nameForHash are reachable through SignatureAndHash.MarshalJSON
	sh := func(sig bool) func(v int64) string {
		return func(v int64) string {
			x := tls.SignatureAndHash{}
			if sig {
				x.Signature = uint8(v)
			} else {
				x.Hash = uint8(v)
			}
			raw, err := json.Marshal(&x)
			must(err)
			var aux struct {
				S string `json:"signature_algorithm"`
				H string `json:"hash_algorithm"`
			}
			must(json.Unmarshal(raw, &aux))
			if sig {
				return aux.S
			}
			return aux.H
		}
	}
	unkDot := func(v int64) string { return fmt.Sprintf("unknown.%d", v) }
	scan("signature_names", 256, unkDot, sh(true))
	scan("hash_names", 256, unkDot, sh(false))
	scan("client_auth_names", 4096, func(v int64) string { return fmt.Sprintf("ClientAuthType(%d)", v) }, func(v int64) string { return tls.ClientAuthType(v).String() })
	scan("ec_id_names", 65536, unk, func(v int64) string { x := zj.TLSCurveID(v); return x.Description() })

	nKey := int64(x509.VerifC33NumKeyAlgorithms())
	fmt.Fprintf(&sb, "Definition pubkey_alg_count : Z := %s.\n", vh.Z(nKey))
	scan("pubkey_alg_names", nKey, func(int64) string { return "\x00" }, func(v int64) string { return x509.PublicKeyAlgorithm(v).String() })
	m := x509.VerifC33PublicKeyNameToAlgorithm()
	var rows [][2]string
	for _, k := range sortedKeys(m) {
		rows = append(rows, [2]string{css(k), vh.Z(int64(m[k]))})
	}
	sb.WriteString(coqTable("pubkey_name_to_alg", rows, "string * Z"))

	nSig := int64(x509.VerifC33NumSignatureAlgorithms())
	fmt.Fprintf(&sb, "Definition sig_alg_count : Z := %s.\n", vh.Z(nSig))
	scan("sig_alg_names", nSig, func(v int64) string { return fmt.Sprint(v) }, func(v int64) string { return x509.SignatureAlgorithm(v).String() })
	det, pss := x509.VerifC33SignatureAlgorithmDetails()
	rows = nil
	for _, d := range det {
		rows = append(rows, [2]string{vh.Z(int64(d.Algo)), coqZs(d.OID)})
	}
	sb.WriteString(coqTable("sig_alg_details", rows, "Z * list Z"))
	fmt.Fprintf(&sb, "Definition pss_oid : list Z := %s.\n", coqZs(pss))
	// the three algorithms UnmarshalJSON tries by name for the RSA-PSS OID
	var pssAlgs []int
	for _, a := range []x509.SignatureAlgorithm{x509.SHA256WithRSAPSS, x509.SHA384WithRSAPSS, x509.SHA512WithRSAPSS} {
		pssAlgs = append(pssAlgs, int(a))
	}
	sort.Ints(pssAlgs)
	fmt.Fprintf(&sb, "Definition pss_alg_codes : list Z := %s.\n", coqZs(pssAlgs))
	c.WriteGen("C33Tables_gen.v", sb.String())
}
