package main

import (
	"encoding/hex"
	"encoding/json"
	"fmt"
	"math/big"
	"net"
	"reflect"
	"strings"

	"github.com/zmap/zcrypto/ct"
	"github.com/zmap/zcrypto/encoding/asn1"
	zj "github.com/zmap/zcrypto/json"
	"github.com/zmap/zcrypto/rsa"
	"github.com/zmap/zcrypto/tls"
	"github.com/zmap/zcrypto/x509"
	"github.com/zmap/zcrypto/x509/pkix"
	"verifharness/vh"
)

// ================================================================ enumerated types
func always(int64) bool { return true }

func enums() []*enumT {
	nSig := int64(x509.VerifC33NumSignatureAlgorithms())
	nKey := int64(x509.VerifC33NumKeyAlgorithms())
	return []*enumT{
		{coq: "TVersion", bits: 16, inDomain: always,
			marshal: func(v int64) ([]byte, error) { x := tls.TLSVersion(v); return json.Marshal(&x) },
			unmarshal: func(b []byte) (int64, error) {
				var x tls.TLSVersion
				err := json.Unmarshal(b, &x)
				return int64(x), err
			}},
		{coq: "TCipher", bits: 16, inDomain: always,
			marshal: func(v int64) ([]byte, error) { x := tls.CipherSuiteID(v); return json.Marshal(&x) },
			unmarshal: func(b []byte) (int64, error) {
				var x tls.CipherSuiteID
				err := json.Unmarshal(b, &x)
				return int64(x), err
			}},
		{coq: "TCompression", bits: 8, inDomain: always,
			marshal: func(v int64) ([]byte, error) { x := tls.CompressionMethod(v); return json.Marshal(&x) },
			unmarshal: func(b []byte) (int64, error) {
				var x tls.CompressionMethod
				err := json.Unmarshal(b, &x)
				return int64(x), err
			}},
		{coq: "TCurve", bits: 16, inDomain: always,
			marshal:   func(v int64) ([]byte, error) { x := tls.CurveID(v); return json.Marshal(&x) },
			unmarshal: func(b []byte) (int64, error) { var x tls.CurveID; err := json.Unmarshal(b, &x); return int64(x), err }},
		{coq: "TPointFormat", bits: 8, inDomain: always,
			marshal: func(v int64) ([]byte, error) { x := tls.PointFormat(v); return json.Marshal(&x) },
			unmarshal: func(b []byte) (int64, error) {
				var x tls.PointFormat
				err := json.Unmarshal(b, &x)
				return int64(x), err
			}},
		{coq: "TClientAuth", bits: 16, inDomain: always, extra: []int64{-1, -2, -77, -32768, 1 << 40, -(1 << 62), 1<<63 - 1, -(1 << 63)},
			marshal: func(v int64) ([]byte, error) { x := tls.ClientAuthType(v); return json.Marshal(&x) },
			unmarshal: func(b []byte) (int64, error) {
				var x tls.ClientAuthType
				err := json.Unmarshal(b, &x)
				return int64(x), err
			}},
		{coq: "TKeyUsage", bits: 16, inDomain: always, extra: []int64{1 << 16, 1<<32 - 1},
			marshal:   func(v int64) ([]byte, error) { x := x509.KeyUsage(v); return json.Marshal(&x) },
			unmarshal: func(b []byte) (int64, error) { var x x509.KeyUsage; err := json.Unmarshal(b, &x); return int64(x), err }},
		// declared values only: names of undeclared public-key values collapse to "unknown_algorithm"
		{coq: "TPubKeyAlg", bits: 5, inDomain: func(v int64) bool { return v >= 0 && v < nKey }, extra: []int64{-1, 1000},
			marshal: func(v int64) ([]byte, error) { x := x509.PublicKeyAlgorithm(v); return json.Marshal(&x) },
			unmarshal: func(b []byte) (int64, error) {
				var x x509.PublicKeyAlgorithm
				err := json.Unmarshal(b, &x)
				return int64(x), err
			}},
		// named algorithms only: the package's own test requires that UnknownSignatureAlgorithm fails to decode
		{coq: "TSigAlg", bits: 5, inDomain: func(v int64) bool { return v >= 1 && v < nSig }, extra: []int64{-1, 1000},
			marshal: func(v int64) ([]byte, error) { x := x509.SignatureAlgorithm(v); return json.Marshal(&x) },
			unmarshal: func(b []byte) (int64, error) {
				var x x509.SignatureAlgorithm
				err := json.Unmarshal(b, &x)
				return int64(x), err
			}},
		{coq: "TEcId", bits: 16, inDomain: always,
			marshal:   func(v int64) ([]byte, error) { x := zj.TLSCurveID(v); return json.Marshal(&x) },
			unmarshal: func(b []byte) (int64, error) { var x zj.TLSCurveID; err := json.Unmarshal(b, &x); return int64(x), err }},
	}
}

// ---- SignatureAndHash (two bytes, decoded by name)
type sigHashInput struct {
	Type string `json:"type"`
	Sig  int    `json:"sig"`
	Hash int    `json:"hash"`
}

func runSigHash(s, h uint8) (mo outcome, tree *J, do outcome, ds, dh uint8) {
	var raw []byte
	mo = guard(func() error {
		x := tls.SignatureAndHash{Signature: s, Hash: h}
		var err error
		raw, err = json.Marshal(&x)
		return err
	})
	if mo.class != "ok" {
		return
	}
	var err error
	if tree, err = parseTree(raw); err != nil {
		mo = outcome{"err", err.Error()}
		return
	}
	do = guard(func() error {
		var x tls.SignatureAndHash
		err := json.Unmarshal(raw, &x)
		ds, dh = x.Signature, x.Hash
		return err
	})
	return
}

func sigHashOracle(c *vh.Ctx, s, h uint8, mo, do outcome, ds, dh uint8, stream string) {
	in := sigHashInput{"TSigHash", int(s), int(h)}
	if mo.class == "panic" || do.class == "panic" {
		c.Violation("enum-sighash-panic", fmt.Sprintf("SignatureAndHash{%d,%d}: marshal %s / unmarshal %s %s", s, h, mo.class, do.class, do.msg), stream, in)
	} else if mo.class != "ok" || do.class != "ok" || ds != s || dh != h {
		c.Violation("enum-sighash-roundtrip", fmt.Sprintf("SignatureAndHash{%d,%d} decodes as {%d,%d} (%s/%s)", s, h, ds, dh, mo.class, do.class), stream, in)
	}
}

func sigHashCase(c *vh.Ctx, s, h uint8) {
	// the name -> code search walks a Go map: repeat, so that an ambiguous name shows
	for i := 0; i < 4; i++ {
		mo, tree, do, ds, dh := runSigHash(s, h)
		sigHashOracle(c, s, h, mo, do, ds, dh, "rt")
		if i > 0 {
			continue
		}
		oj, od := "Err", "Err"
		if mo.class == "ok" {
			oj = "(Ok " + tree.coq() + ")"
			od = resTerm(do, fmt.Sprintf("(VSigHash %s %s)", vh.Z(int64(ds)), vh.Z(int64(dh))))
		}
		c.Case("rt", vh.Pair(fmt.Sprintf("(VSigHash %s %s)", vh.Z(int64(s)), vh.Z(int64(h))), oj, od),
			sigHashInput{"TSigHash", int(s), int(h)}, fmt.Sprintf("sh/%d/%d", s, h))
	}
}

func sigHashAll(c *vh.Ctx) uint64 {
	hh := uint64(0)
	step := func(s, h uint8) {
		mo, tree, do, ds, dh := runSigHash(s, h)
		sigHashOracle(c, s, h, mo, do, ds, dh, "xsighash")
		if mo.class != "ok" {
			hh = mix(hh, 998)
			return
		}
		hh = tree.hash(hh)
		if do.class == "ok" {
			hh = mix(mix(hh, uint64(ds)), uint64(dh))
		} else {
			hh = mix(hh, 999)
		}
		c.Eval("")
	}
	for s := 0; s < 256; s++ {
		step(uint8(s), 4)
	}
	for h := 0; h < 256; h++ {
		step(1, uint8(h))
	}
	return hh
}

// ================================================================ structured types
// Every type has a plain "spec" (the harness's own replayable description of a
// value), a builder spec -> Go value, printers for the model, and an equality
// that states the property on the implementation alone.
type structT struct {
	coq   string
	gen   func(c *vh.Ctx) interface{} // random spec
	fixed func() []interface{}        // hand-picked specs
	load  func(raw json.RawMessage) (interface{}, error)
	build func(spec interface{}) interface{}       // pointer to the Go value
	fresh func() interface{}                       // pointer to a zero Go value
	in    func(spec, goval interface{}) string     // Coq term of the marshalled value
	out   func(goval interface{}) string           // Coq term of a decoded value
	equal func(spec, orig, dec interface{}) string // "" when dec equals orig (as far as the property claims)
}

type structInput struct {
	Type string      `json:"type"`
	Go   interface{} `json:"go"`
}

func structCase(c *vh.Ctx, st *structT, spec interface{}, stream string) {
	v := st.build(spec)
	var raw []byte
	mo := guard(func() error { var err error; raw, err = json.Marshal(v); return err })
	in := structInput{st.coq, spec}
	name := strings.ToLower(strings.TrimPrefix(st.coq, "T"))
	oj, od := "Err", "Err"
	if mo.class == "panic" {
		oj = "Panic"
		c.Violation("struct-"+name+"-panic", "Marshal panics: "+mo.msg, stream, in)
	}
	if mo.class == "ok" {
		tree, err := parseTree(raw)
		if err != nil {
			c.Violation("struct-"+name+"-roundtrip", "Marshal output is not JSON: "+err.Error(), stream, in)
			return
		}
		oj = "(Ok " + tree.coq() + ")"
		d := st.fresh()
		do := guard(func() error { return json.Unmarshal(raw, d) })
		od = resTerm(do, st.out(d))
		switch do.class {
		case "panic":
			c.Violation("struct-"+name+"-panic", "Unmarshal of Marshal's output panics: "+do.msg+" json="+string(raw), stream, in)
		case "err":
			c.Violation("struct-"+name+"-roundtrip", "Unmarshal of Marshal's output fails: "+do.msg+" json="+string(raw), stream, in)
		default:
			if diff := st.equal(spec, v, d); diff != "" {
				c.Violation("struct-"+name+"-roundtrip", "decoded value differs: "+diff+" json="+string(raw), stream, in)
			}
			// determinism of the encoder
			raw2, err2 := json.Marshal(v)
			if err2 != nil || string(raw2) != string(raw) {
				c.Violation("struct-"+name+"-roundtrip", "two Marshal calls differ", stream, in)
			}
		}
	} else if mo.class == "err" && !strings.Contains(mo.msg, "signature too large") {
		c.Violation("struct-"+name+"-roundtrip", "Marshal fails: "+mo.msg, stream, in)
	}
	c.Case("rt", vh.Pair(st.in(spec, v), oj, od), in, st.coq+"/"+oj)
}

func unhex(s string) []byte { b, err := hex.DecodeString(s); must(err); return b }
func must(err error) {
	if err != nil {
		panic(err)
	}
}
func loader(proto interface{}) func(raw json.RawMessage) (interface{}, error) {
	t := reflect.TypeOf(proto)
	return func(raw json.RawMessage) (interface{}, error) {
		p := reflect.New(t)
		if err := json.Unmarshal(raw, p.Interface()); err != nil {
			return nil, err
		}
		return p.Elem().Interface(), nil
	}
}

// ---- specs
type magS struct {
	Nil bool   `json:"nil,omitempty"`
	Hex string `json:"hex,omitempty"`
}

func (m magS) big() *big.Int {
	if m.Nil {
		return nil
	}
	return new(big.Int).SetBytes(unhex(m.Hex))
}
func (m magS) coq() string { return optMag(m.big()) }
func specMag(x *big.Int) magS {
	if x == nil {
		return magS{Nil: true}
	}
	return magS{Hex: hex.EncodeToString(x.Bytes())}
}
func magEq(name string, a, b *big.Int, nilIsZero bool) string {
	if a == nil && b != nil && nilIsZero && b.Sign() == 0 {
		return ""
	}
	if (a == nil) != (b == nil) {
		return fmt.Sprintf("%s: nil-ness differs (%v -> %v)", name, a, b)
	}
	if a != nil && a.Cmp(b) != 0 {
		return fmt.Sprintf("%s: %v -> %v", name, a, b)
	}
	return ""
}
func first(ds ...string) string {
	for _, d := range ds {
		if d != "" {
			return d
		}
	}
	return ""
}

type ecpointS struct{ X, Y magS }
type dhS struct{ P, G, SP, SK, CP, CK, SS magS }
type ecdhPrivS struct {
	Value  string
	Length int
}
type ecdhS struct {
	Curve        int
	SPub, CPub   *ecpointS
	SPriv, CPriv *ecdhPrivS
}
type rsaPubS struct {
	Nil bool
	E   string // decimal
	N   string // hex magnitude
}
type rsaClientS struct {
	Length int
	PMS    string
}
type atvS struct {
	Type []int
	Str  *string // nil: the value is not a string
}
type otherNameS struct {
	ID    []int
	Value string
}
type ediS struct{ Assigner, Party string }
type extS struct {
	ID       []int
	Critical bool
	Value    string
}
type nameS struct {
	Typed bool // build from the typed members instead of FillFromRDNSequence
	Attrs []atvS
}
type gnS struct {
	Dir   []nameS
	DNS   []string
	EDI   []ediS
	Email []string
	IP    []string // hex, 4 bytes
	Other []otherNameS
	Reg   [][]int
	URI   []string
}
type subIPS struct {
	IP     string // hex, 4 bytes
	Prefix int
}
type halfS struct {
	DNS, Email, URI []string
	IP              []subIPS
	Dir             []nameS
	EDI             []ediS
	Reg             [][]int
}
type ncS struct {
	Critical bool
	P, E     halfS
}
type dsS struct {
	Hash, Sig int
	Signature string
	Big       int // when > 0: a signature of that many zero bytes
}

// ---- builders / printers
func buildECPoint(s ecpointS) *zj.ECPoint { return &zj.ECPoint{X: s.X.big(), Y: s.Y.big()} }
func coqECPointS(s ecpointS) string       { return vh.Pair(s.X.coq(), s.Y.coq()) }
func coqECPoint(p *zj.ECPoint) string     { return vh.Pair(optMag(p.X), optMag(p.Y)) }
func eqECPoint(a, b *zj.ECPoint) string {
	return first(magEq("x", a.X, b.X, true), magEq("y", a.Y, b.Y, false))
}
func genECPoint(c *vh.Ctx) ecpointS {
	s := ecpointS{X: specMag(genMag(c)), Y: specMag(genOptMag(c))}
	if c.Intn(12) == 0 {
		s.X = magS{Nil: true}
	}
	return s
}
func buildPriv(s ecdhPrivS) *zj.ECDHPrivateParams {
	return &zj.ECDHPrivateParams{Value: unhex(s.Value), Length: s.Length}
}
func coqPrivS(s ecdhPrivS) string {
	return vh.Pair(cs(unhex(s.Value)), vh.Pair(vh.Z(int64(s.Length)), "tt"))
}
func coqPriv(p *zj.ECDHPrivateParams) string {
	return vh.Pair(cs(p.Value), vh.Pair(vh.Z(int64(p.Length)), "tt"))
}
func genPriv(c *vh.Ctx) ecdhPrivS {
	return ecdhPrivS{Value: hex.EncodeToString(genBytes(c, 40)), Length: []int{0, 1, 32, 255, 256, 1 << 40}[c.Intn(6)]}
}
func opt(present bool, s string) string {
	if !present {
		return "None"
	}
	return vh.Some(s)
}

func buildAttrs(as []atvS) pkix.RDNSequence {
	var rdns pkix.RDNSequence
	for i, a := range as {
		var v interface{} = 7
		if a.Str != nil {
			v = *a.Str
		}
		atv := pkix.AttributeTypeAndValue{Type: asn1.ObjectIdentifier(a.Type), Value: v}
		if i > 0 && i%3 == 2 { // some multi-valued RDNs
			rdns[len(rdns)-1] = append(rdns[len(rdns)-1], atv)
		} else {
			rdns = append(rdns, pkix.RelativeDistinguishedNameSET{atv})
		}
	}
	return rdns
}

var nameOIDs = [][]int{{2, 5, 4, 3}, {2, 5, 4, 4}, {2, 5, 4, 5}, {2, 5, 4, 6}, {2, 5, 4, 7}, {2, 5, 4, 8}, {2, 5, 4, 9}, {2, 5, 4, 10},
	{2, 5, 4, 11}, {2, 5, 4, 17}, {2, 5, 4, 42}, {2, 5, 4, 97}, {0, 9, 2342, 19200300, 100, 1, 25}, {1, 2, 840, 113549, 1, 9, 1},
	{1, 3, 6, 1, 4, 1, 311, 60, 2, 1, 1}, {1, 3, 6, 1, 4, 1, 311, 60, 2, 1, 2}, {1, 3, 6, 1, 4, 1, 311, 60, 2, 1, 3}}

func buildName(s nameS) *pkix.Name {
	n := &pkix.Name{}
	rdns := buildAttrs(s.Attrs)
	n.FillFromRDNSequence(&rdns)
	if s.Typed {
		// a name assembled by a caller: typed members only (ToRDNSequence does not
		// write GivenName/Surname, so they are left out of such names)
		n.OriginalRDNS = nil
		n.Names = nil
		n.GivenName, n.Surname = nil, nil
		n.CommonNames, n.SerialNumbers = nil, nil
	}
	return n
}
func coqAttrsOf(n *pkix.Name) string {
	var xs []string
	for _, set := range n.ToRDNSequence() {
		for _, a := range set {
			v := "None"
			if s, ok := a.Value.(string); ok {
				v = vh.Some(css(s))
			}
			xs = append(xs, vh.Pair(coqZs(a.Type), v))
		}
	}
	return vh.List0(xs, "attr")
}
func coqATVs(as []pkix.AttributeTypeAndValue) string {
	var xs []string
	for _, a := range as {
		s, _ := a.Value.(string)
		xs = append(xs, vh.Pair(coqZs(a.Type), css(s)))
	}
	return vh.List0(xs, "(oid_t * string)")
}
func coqNameDec(n *pkix.Name) string {
	return fmt.Sprintf("{| n_country := %s; n_org := %s; n_ou := %s; n_locality := %s; n_province := %s; n_street := %s; n_postal := %s; n_dc := %s; n_email := %s; n_given := %s; n_surname := %s; n_orgids := %s; n_jc := %s; n_jl := %s; n_jp := %s; n_cn := %s; n_serial := %s; n_names := %s; n_extra := %s |}",
		coqStrs(n.Country), coqStrs(n.Organization), coqStrs(n.OrganizationalUnit), coqStrs(n.Locality), coqStrs(n.Province),
		coqStrs(n.StreetAddress), coqStrs(n.PostalCode), coqStrs(n.DomainComponent), coqStrs(n.EmailAddress), coqStrs(n.GivenName),
		coqStrs(n.Surname), coqStrs(n.OrganizationIDs), coqStrs(n.JurisdictionCountry), coqStrs(n.JurisdictionLocality),
		coqStrs(n.JurisdictionProvince), css(n.CommonName), css(n.SerialNumber), coqATVs(n.Names), coqATVs(n.ExtraNames))
}
func strsEq(name string, a, b []string) string {
	if len(a) != len(b) {
		return fmt.Sprintf("%s: %q -> %q", name, a, b)
	}
	for i := range a {
		if a[i] != b[i] {
			return fmt.Sprintf("%s: %q -> %q", name, a, b)
		}
	}
	return ""
}

// the typed members that JSON carries; CommonName/SerialNumber only for names
// with at most one of each (with several, parsing keeps the last and JSON decoding the first)
func eqName(a, b *pkix.Name) string {
	d := first(strsEq("country", a.Country, b.Country), strsEq("organization", a.Organization, b.Organization),
		strsEq("organizational_unit", a.OrganizationalUnit, b.OrganizationalUnit), strsEq("locality", a.Locality, b.Locality),
		strsEq("province", a.Province, b.Province), strsEq("street_address", a.StreetAddress, b.StreetAddress),
		strsEq("postal_code", a.PostalCode, b.PostalCode), strsEq("domain_component", a.DomainComponent, b.DomainComponent),
		strsEq("email_address", a.EmailAddress, b.EmailAddress), strsEq("given_name", a.GivenName, b.GivenName),
		strsEq("surname", a.Surname, b.Surname), strsEq("organization_id", a.OrganizationIDs, b.OrganizationIDs),
		strsEq("jurisdiction_country", a.JurisdictionCountry, b.JurisdictionCountry),
		strsEq("jurisdiction_locality", a.JurisdictionLocality, b.JurisdictionLocality),
		strsEq("jurisdiction_province", a.JurisdictionProvince, b.JurisdictionProvince))
	if d != "" {
		return d
	}
	count := func(n *pkix.Name, last int) int {
		k := 0
		for _, set := range n.ToRDNSequence() {
			for _, x := range set {
				if _, ok := x.Value.(string); ok && len(x.Type) == 4 && x.Type[0] == 2 && x.Type[1] == 5 && x.Type[2] == 4 && x.Type[3] == last {
					k++
				}
			}
		}
		return k
	}
	if count(a, 3) <= 1 && a.CommonName != b.CommonName {
		return fmt.Sprintf("common_name: %q -> %q", a.CommonName, b.CommonName)
	}
	if count(a, 5) <= 1 && a.SerialNumber != b.SerialNumber {
		return fmt.Sprintf("serial_number: %q -> %q", a.SerialNumber, b.SerialNumber)
	}
	return ""
}
func genName(c *vh.Ctx) nameS {
	n := c.Intn(7)
	s := nameS{Typed: c.Intn(3) == 0}
	for i := 0; i < n; i++ {
		a := atvS{}
		switch c.Intn(12) {
		case 0:
			a.Type = genOID(c, false) // unknown attribute type: dropped
		default:
			a.Type = nameOIDs[c.Intn(len(nameOIDs))]
		}
		if c.Intn(10) != 0 {
			v := genStr(c, 6)
			if s.Typed && v == "" {
				v = "x" // ToRDNSequence drops an empty CommonName / SerialNumber
			}
			a.Str = &v
		}
		s.Attrs = append(s.Attrs, a)
	}
	return s
}
func buildEDI(s ediS) pkix.EDIPartyName {
	return pkix.EDIPartyName{NameAssigner: s.Assigner, PartyName: s.Party}
}
func coqEDI(e pkix.EDIPartyName) string {
	return vh.Pair(css(e.NameAssigner), vh.Pair(css(e.PartyName), "tt"))
}
func genEDI(c *vh.Ctx) ediS { return ediS{genStr(c, 4), genStr(c, 6)} }
func buildOther(s otherNameS) pkix.OtherName {
	return pkix.OtherName{TypeID: asn1.ObjectIdentifier(s.ID), Value: asn1.RawValue{Tag: 0, Class: asn1.ClassContextSpecific, IsCompound: true, Bytes: unhex(s.Value)}}
}
func coqOther(o pkix.OtherName) string { return vh.Pair(coqZs(o.TypeID), cs(o.Value.Bytes)) }
func genOther(c *vh.Ctx) otherNameS {
	return otherNameS{ID: genOID(c, false), Value: hex.EncodeToString(genBytes(c, 12))}
}
func intsEq(a, b []int) bool {
	if len(a) != len(b) {
		return false
	}
	for i := range a {
		if a[i] != b[i] {
			return false
		}
	}
	return true
}
func listOf(n int, f func(i int) string, ty string) string {
	xs := make([]string, n)
	for i := range xs {
		xs[i] = f(i)
	}
	return vh.List0(xs, ty)
}
func coqOIDs(os []asn1.ObjectIdentifier) string {
	return listOf(len(os), func(i int) string { return coqZs(os[i]) }, "oid_t")
}
func coqIPs(ips []net.IP) string {
	return listOf(len(ips), func(i int) string {
		if v4 := ips[i].To4(); v4 != nil {
			return cs(v4)
		}
		return cs(ips[i])
	}, "string")
}
func buildGN(s gnS) *x509.GeneralNames {
	g := &x509.GeneralNames{DNSNames: s.DNS, EmailAddresses: s.Email, URIs: s.URI}
	for _, n := range s.Dir {
		g.DirectoryNames = append(g.DirectoryNames, *buildName(n))
	}
	for _, e := range s.EDI {
		g.EDIPartyNames = append(g.EDIPartyNames, buildEDI(e))
	}
	for _, ip := range s.IP {
		g.IPAddresses = append(g.IPAddresses, net.IP(unhex(ip)))
	}
	for _, o := range s.Other {
		g.OtherNames = append(g.OtherNames, buildOther(o))
	}
	for _, r := range s.Reg {
		g.RegisteredIDs = append(g.RegisteredIDs, asn1.ObjectIdentifier(r))
	}
	return g
}
func coqGN(g *x509.GeneralNames, name func(n *pkix.Name) string, nameTy string) string {
	return vh.Pair(
		listOf(len(g.DirectoryNames), func(i int) string { return name(&g.DirectoryNames[i]) }, nameTy),
		vh.Pair(coqStrs(g.DNSNames),
			vh.Pair(listOf(len(g.EDIPartyNames), func(i int) string { return coqEDI(g.EDIPartyNames[i]) }, "edi_t"),
				vh.Pair(coqStrs(g.EmailAddresses),
					vh.Pair(coqIPs(g.IPAddresses),
						vh.Pair(listOf(len(g.OtherNames), func(i int) string { return coqOther(g.OtherNames[i]) }, "(oid_t * string)"),
							vh.Pair(coqOIDs(g.RegisteredIDs), vh.Pair(coqStrs(g.URIs), "tt"))))))))
}
func eqNames(what string, a, b []pkix.Name) string {
	if len(a) != len(b) {
		return fmt.Sprintf("%s: %d -> %d names", what, len(a), len(b))
	}
	for i := range a {
		if d := eqName(&a[i], &b[i]); d != "" {
			return what + ": " + d
		}
	}
	return ""
}
func eqEDIs(what string, a, b []pkix.EDIPartyName) string {
	if len(a) != len(b) {
		return what + ": length"
	}
	for i := range a {
		if a[i] != b[i] {
			return fmt.Sprintf("%s: %v -> %v", what, a[i], b[i])
		}
	}
	return ""
}
func eqOIDs(what string, a, b []asn1.ObjectIdentifier) string {
	if len(a) != len(b) {
		return what + ": length"
	}
	for i := range a {
		if !intsEq(a[i], b[i]) {
			return fmt.Sprintf("%s: %v -> %v", what, a[i], b[i])
		}
	}
	return ""
}
func eqGN(a, b *x509.GeneralNames) string {
	d := first(eqNames("directory_names", a.DirectoryNames, b.DirectoryNames), strsEq("dns_names", a.DNSNames, b.DNSNames),
		eqEDIs("edi_party_names", a.EDIPartyNames, b.EDIPartyNames), strsEq("email_addresses", a.EmailAddresses, b.EmailAddresses),
		strsEq("uris", a.URIs, b.URIs), eqOIDs("registered_ids", a.RegisteredIDs, b.RegisteredIDs))
	if d != "" {
		return d
	}
	if len(a.IPAddresses) != len(b.IPAddresses) || len(a.OtherNames) != len(b.OtherNames) {
		return "ip_addresses/other_names: length"
	}
	for i := range a.IPAddresses {
		if !a.IPAddresses[i].Equal(b.IPAddresses[i]) {
			return fmt.Sprintf("ip_addresses: %v -> %v", a.IPAddresses[i], b.IPAddresses[i])
		}
	}
	for i := range a.OtherNames {
		if !intsEq(a.OtherNames[i].TypeID, b.OtherNames[i].TypeID) || string(a.OtherNames[i].Value.Bytes) != string(b.OtherNames[i].Value.Bytes) {
			return fmt.Sprintf("other_names: %v -> %v", a.OtherNames[i], b.OtherNames[i])
		}
	}
	return ""
}
func genNames(c *vh.Ctx, max int) []nameS {
	var out []nameS
	for i := c.Intn(max + 1); i > 0; i-- {
		out = append(out, genName(c))
	}
	return out
}
func genEDIs(c *vh.Ctx, max int) []ediS {
	var out []ediS
	for i := c.Intn(max + 1); i > 0; i-- {
		out = append(out, genEDI(c))
	}
	return out
}
func genRegs(c *vh.Ctx, max int) [][]int {
	var out [][]int
	for i := c.Intn(max + 1); i > 0; i-- {
		out = append(out, genOID(c, true))
	}
	return out
}
func genGN(c *vh.Ctx) gnS {
	g := gnS{Dir: genNames(c, 2), DNS: genStrs(c, 3, 8), EDI: genEDIs(c, 2), Email: genStrs(c, 2, 8), Reg: genRegs(c, 3), URI: genStrs(c, 2, 10)}
	for i := c.Intn(3); i > 0; i-- {
		g.IP = append(g.IP, hex.EncodeToString(genIP4(c)))
	}
	for i := c.Intn(3); i > 0; i-- {
		g.Other = append(g.Other, genOther(c))
	}
	return g
}
func genIP4(c *vh.Ctx) []byte {
	pool := []byte{0, 1, 9, 10, 99, 100, 127, 128, 192, 199, 200, 254, 255}
	b := make([]byte, 4)
	for i := range b {
		if c.Bool() {
			b[i] = pool[c.Intn(len(pool))]
		} else {
			b[i] = byte(c.Intn(256))
		}
	}
	return b
}
func buildSubIP(s subIPS) x509.GeneralSubtreeIP {
	return x509.GeneralSubtreeIP{Data: net.IPNet{IP: net.IP(unhex(s.IP)), Mask: net.CIDRMask(s.Prefix, 32)}}
}
func coqSubIP(g *x509.GeneralSubtreeIP) string {
	ip := g.Data.IP
	if v4 := ip.To4(); v4 != nil {
		ip = v4
	}
	ones, bits := g.Data.Mask.Size()
	if bits != 32 {
		ones = -1 - bits
	}
	return vh.Pair(cs(ip), vh.Z(int64(ones)))
}
func eqSubIP(a, b *x509.GeneralSubtreeIP) string {
	if !a.Data.IP.Equal(b.Data.IP) || a.Data.Mask.String() != b.Data.Mask.String() {
		return fmt.Sprintf("ip subtree: %v -> %v", a.Data.String(), b.Data.String())
	}
	return ""
}
func genSubIP(c *vh.Ctx) subIPS {
	return subIPS{IP: hex.EncodeToString(genIP4(c)), Prefix: c.Intn(33)}
}
func buildHalf(h halfS) (dns, email, uri []x509.GeneralSubtreeString, ip []x509.GeneralSubtreeIP, dir []x509.GeneralSubtreeName, edi []x509.GeneralSubtreeEdi, reg []x509.GeneralSubtreeOid) {
	for _, s := range h.DNS {
		dns = append(dns, x509.GeneralSubtreeString{Data: s})
	}
	for _, s := range h.Email {
		email = append(email, x509.GeneralSubtreeString{Data: s})
	}
	for _, s := range h.URI {
		uri = append(uri, x509.GeneralSubtreeString{Data: s})
	}
	for _, s := range h.IP {
		ip = append(ip, buildSubIP(s))
	}
	for _, s := range h.Dir {
		dir = append(dir, x509.GeneralSubtreeName{Data: *buildName(s)})
	}
	for _, s := range h.EDI {
		edi = append(edi, x509.GeneralSubtreeEdi{Data: buildEDI(s)})
	}
	for _, s := range h.Reg {
		reg = append(reg, x509.GeneralSubtreeOid{Data: asn1.ObjectIdentifier(s)})
	}
	return
}
func buildNC(s ncS) *x509.NameConstraints {
	n := &x509.NameConstraints{Critical: s.Critical}
	n.PermittedDNSNames, n.PermittedEmailAddresses, n.PermittedURIs, n.PermittedIPAddresses, n.PermittedDirectoryNames, n.PermittedEdiPartyNames, n.PermittedRegisteredIDs = buildHalf(s.P)
	n.ExcludedDNSNames, n.ExcludedEmailAddresses, n.ExcludedURIs, n.ExcludedIPAddresses, n.ExcludedDirectoryNames, n.ExcludedEdiPartyNames, n.ExcludedRegisteredIDs = buildHalf(s.E)
	return n
}
func subStrs(xs []x509.GeneralSubtreeString) []string {
	var out []string
	for _, x := range xs {
		out = append(out, x.Data)
	}
	return out
}
func coqHalf(dns, email, uri []x509.GeneralSubtreeString, ip []x509.GeneralSubtreeIP, dir []x509.GeneralSubtreeName, edi []x509.GeneralSubtreeEdi, reg []x509.GeneralSubtreeOid, name func(n *pkix.Name) string, nameTy string) string {
	return vh.Pair(coqStrs(subStrs(dns)), vh.Pair(coqStrs(subStrs(email)), vh.Pair(coqStrs(subStrs(uri)),
		vh.Pair(listOf(len(ip), func(i int) string { return coqSubIP(&ip[i]) }, "subtree_ip_t"),
			vh.Pair(listOf(len(dir), func(i int) string { return name(&dir[i].Data) }, nameTy),
				vh.Pair(listOf(len(edi), func(i int) string { return coqEDI(edi[i].Data) }, "edi_t"),
					listOf(len(reg), func(i int) string { return coqZs(reg[i].Data) }, "oid_t")))))))
}
func coqNC(n *x509.NameConstraints, name func(n *pkix.Name) string, nameTy string) string {
	return vh.Pair(vh.Bool(n.Critical), vh.Pair(
		coqHalf(n.PermittedDNSNames, n.PermittedEmailAddresses, n.PermittedURIs, n.PermittedIPAddresses, n.PermittedDirectoryNames, n.PermittedEdiPartyNames, n.PermittedRegisteredIDs, name, nameTy),
		coqHalf(n.ExcludedDNSNames, n.ExcludedEmailAddresses, n.ExcludedURIs, n.ExcludedIPAddresses, n.ExcludedDirectoryNames, n.ExcludedEdiPartyNames, n.ExcludedRegisteredIDs, name, nameTy)))
}
func eqHalf(w string, dns, email, uri []x509.GeneralSubtreeString, ip []x509.GeneralSubtreeIP, dir []x509.GeneralSubtreeName, edi []x509.GeneralSubtreeEdi, reg []x509.GeneralSubtreeOid,
	dns2, email2, uri2 []x509.GeneralSubtreeString, ip2 []x509.GeneralSubtreeIP, dir2 []x509.GeneralSubtreeName, edi2 []x509.GeneralSubtreeEdi, reg2 []x509.GeneralSubtreeOid) string {
	d := first(strsEq(w+"_names", subStrs(dns), subStrs(dns2)), strsEq(w+"_email", subStrs(email), subStrs(email2)), strsEq(w+"_uris", subStrs(uri), subStrs(uri2)))
	if d != "" {
		return d
	}
	if len(ip) != len(ip2) || len(dir) != len(dir2) || len(edi) != len(edi2) || len(reg) != len(reg2) {
		return w + ": list lengths differ"
	}
	for i := range ip {
		if d := eqSubIP(&ip[i], &ip2[i]); d != "" {
			return w + " " + d
		}
	}
	for i := range dir {
		if d := eqName(&dir[i].Data, &dir2[i].Data); d != "" {
			return w + " directory name " + d
		}
	}
	for i := range edi {
		if edi[i].Data != edi2[i].Data {
			return w + " edi party name differs"
		}
	}
	for i := range reg {
		if !intsEq(reg[i].Data, reg2[i].Data) {
			return w + " registered id differs"
		}
	}
	return ""
}
func eqNC(a, b *x509.NameConstraints) string {
	if a.Critical != b.Critical {
		return "critical differs"
	}
	return first(
		eqHalf("permitted", a.PermittedDNSNames, a.PermittedEmailAddresses, a.PermittedURIs, a.PermittedIPAddresses, a.PermittedDirectoryNames, a.PermittedEdiPartyNames, a.PermittedRegisteredIDs,
			b.PermittedDNSNames, b.PermittedEmailAddresses, b.PermittedURIs, b.PermittedIPAddresses, b.PermittedDirectoryNames, b.PermittedEdiPartyNames, b.PermittedRegisteredIDs),
		eqHalf("excluded", a.ExcludedDNSNames, a.ExcludedEmailAddresses, a.ExcludedURIs, a.ExcludedIPAddresses, a.ExcludedDirectoryNames, a.ExcludedEdiPartyNames, a.ExcludedRegisteredIDs,
			b.ExcludedDNSNames, b.ExcludedEmailAddresses, b.ExcludedURIs, b.ExcludedIPAddresses, b.ExcludedDirectoryNames, b.ExcludedEdiPartyNames, b.ExcludedRegisteredIDs))
}
func genHalf(c *vh.Ctx) halfS {
	h := halfS{DNS: genStrs(c, 2, 8), Email: genStrs(c, 2, 8), URI: genStrs(c, 2, 8), Dir: genNames(c, 1), EDI: genEDIs(c, 1), Reg: genRegs(c, 2)}
	for i := c.Intn(3); i > 0; i-- {
		h.IP = append(h.IP, genSubIP(c))
	}
	return h
}

func nameIn(n *pkix.Name) string { return coqAttrsOf(n) }

func structs() []*structT {
	return []*structT{
		{coq: "TCParam", load: loader(magS{}),
			gen:   func(c *vh.Ctx) interface{} { return specMag(genOptMag(c)) },
			fixed: func() []interface{} { return []interface{}{magS{Nil: true}, magS{}, magS{Hex: "ff"}} },
			build: func(s interface{}) interface{} { return zj.VerifC33CryptoParameter(s.(magS).big()) },
			fresh: func() interface{} { return zj.VerifC33CryptoParameter(nil) },
			in:    func(s, _ interface{}) string { return "(VCParam " + s.(magS).coq() + ")" },
			out: func(v interface{}) string {
				x := zj.VerifC33CryptoParameterInt(v)
				if x == nil {
					return "(VCParam None)" // cannot happen: UnmarshalJSON always allocates
				}
				return "(VCParamD " + cs(x.Bytes()) + ")"
			},
			equal: func(s, a, b interface{}) string {
				return magEq("value", zj.VerifC33CryptoParameterInt(a), zj.VerifC33CryptoParameterInt(b), true)
			}},
		{coq: "TECPoint", load: loader(ecpointS{}),
			gen: func(c *vh.Ctx) interface{} { return genECPoint(c) },
			fixed: func() []interface{} {
				return []interface{}{ecpointS{X: magS{Hex: "05"}, Y: magS{Nil: true}}, ecpointS{X: magS{Nil: true}, Y: magS{Nil: true}}, ecpointS{X: magS{Hex: "01"}, Y: magS{}}}
			},
			build: func(s interface{}) interface{} { return buildECPoint(s.(ecpointS)) },
			fresh: func() interface{} { return &zj.ECPoint{} },
			in:    func(s, _ interface{}) string { return "(VECPoint " + coqECPointS(s.(ecpointS)) + ")" },
			out:   func(v interface{}) string { return "(VECPoint " + coqECPoint(v.(*zj.ECPoint)) + ")" },
			equal: func(_, a, b interface{}) string { return eqECPoint(a.(*zj.ECPoint), b.(*zj.ECPoint)) }},
		{coq: "TDH", load: loader(dhS{}),
			gen: func(c *vh.Ctx) interface{} {
				s := dhS{specMag(genMag(c)), specMag(genMag(c)), specMag(genOptMag(c)), specMag(genOptMag(c)), specMag(genOptMag(c)), specMag(genOptMag(c)), specMag(genOptMag(c))}
				if c.Intn(10) == 0 {
					s.P = magS{Nil: true}
				}
				if c.Intn(10) == 0 {
					s.G = magS{Nil: true}
				}
				return s
			},
			fixed: func() []interface{} {
				n := magS{Nil: true}
				return []interface{}{dhS{n, n, n, n, n, n, n}, dhS{magS{Hex: "17"}, magS{Hex: "02"}, n, n, n, n, n}}
			},
			build: func(s interface{}) interface{} {
				d := s.(dhS)
				return &zj.DHParams{Prime: d.P.big(), Generator: d.G.big(), ServerPublic: d.SP.big(), ServerPrivate: d.SK.big(), ClientPublic: d.CP.big(), ClientPrivate: d.CK.big(), SessionKey: d.SS.big()}
			},
			fresh: func() interface{} { return &zj.DHParams{} },
			in: func(s, _ interface{}) string {
				d := s.(dhS)
				return "(VDH " + vh.Pair(d.P.coq(), vh.Pair(d.G.coq(), vh.Pair(d.SP.coq(), vh.Pair(d.SK.coq(), vh.Pair(d.CP.coq(), vh.Pair(d.CK.coq(), vh.Pair(d.SS.coq(), "tt"))))))) + ")"
			},
			out: func(v interface{}) string {
				d := v.(*zj.DHParams)
				return "(VDH " + vh.Pair(optMag(d.Prime), vh.Pair(optMag(d.Generator), vh.Pair(optMag(d.ServerPublic), vh.Pair(optMag(d.ServerPrivate), vh.Pair(optMag(d.ClientPublic), vh.Pair(optMag(d.ClientPrivate), vh.Pair(optMag(d.SessionKey), "tt"))))))) + ")"
			},
			equal: func(_, a, b interface{}) string {
				x, y := a.(*zj.DHParams), b.(*zj.DHParams)
				return first(magEq("prime", x.Prime, y.Prime, true), magEq("generator", x.Generator, y.Generator, true),
					magEq("server_public", x.ServerPublic, y.ServerPublic, false), magEq("server_private", x.ServerPrivate, y.ServerPrivate, false),
					magEq("client_public", x.ClientPublic, y.ClientPublic, false), magEq("client_private", x.ClientPrivate, y.ClientPrivate, false),
					magEq("session_key", x.SessionKey, y.SessionKey, false))
			}},
		{coq: "TECDHPriv", load: loader(ecdhPrivS{}),
			gen:   func(c *vh.Ctx) interface{} { return genPriv(c) },
			fixed: func() []interface{} { return []interface{}{ecdhPrivS{}} },
			build: func(s interface{}) interface{} { return buildPriv(s.(ecdhPrivS)) },
			fresh: func() interface{} { return &zj.ECDHPrivateParams{} },
			in:    func(s, _ interface{}) string { return "(VECDHPriv " + coqPrivS(s.(ecdhPrivS)) + ")" },
			out:   func(v interface{}) string { return "(VECDHPriv " + coqPriv(v.(*zj.ECDHPrivateParams)) + ")" },
			equal: func(_, a, b interface{}) string {
				x, y := a.(*zj.ECDHPrivateParams), b.(*zj.ECDHPrivateParams)
				if string(x.Value) != string(y.Value) || x.Length != y.Length {
					return "private params differ"
				}
				return ""
			}},
		{coq: "TECDH", load: loader(ecdhS{}),
			gen: func(c *vh.Ctx) interface{} {
				s := ecdhS{Curve: []int{0, 23, 24, 29, 30, 65535, c.Intn(65536)}[c.Intn(7)]}
				if c.Bool() {
					p := genECPoint(c)
					s.SPub = &p
				}
				if c.Bool() {
					p := genECPoint(c)
					s.CPub = &p
				}
				if c.Bool() {
					p := genPriv(c)
					s.SPriv = &p
				}
				if c.Bool() {
					p := genPriv(c)
					s.CPriv = &p
				}
				return s
			},
			fixed: func() []interface{} {
				return []interface{}{ecdhS{}, ecdhS{Curve: 29, SPub: &ecpointS{X: magS{Hex: "09"}, Y: magS{Nil: true}}}}
			},
			build: func(s interface{}) interface{} {
				d := s.(ecdhS)
				e := &zj.ECDHParams{TLSCurveID: zj.TLSCurveID(d.Curve)}
				if d.SPub != nil {
					e.ServerPublic = buildECPoint(*d.SPub)
				}
				if d.CPub != nil {
					e.ClientPublic = buildECPoint(*d.CPub)
				}
				if d.SPriv != nil {
					e.ServerPrivate = buildPriv(*d.SPriv)
				}
				if d.CPriv != nil {
					e.ClientPrivate = buildPriv(*d.CPriv)
				}
				return e
			},
			fresh: func() interface{} { return &zj.ECDHParams{} },
			in:    func(_, v interface{}) string { return "(VECDH " + coqECDH(v.(*zj.ECDHParams)) + ")" },
			out:   func(v interface{}) string { return "(VECDH " + coqECDH(v.(*zj.ECDHParams)) + ")" },
			equal: func(_, a, b interface{}) string {
				x, y := a.(*zj.ECDHParams), b.(*zj.ECDHParams)
				if x.TLSCurveID != y.TLSCurveID {
					return "curve_id differs"
				}
				pt := func(n string, p, q *zj.ECPoint) string {
					if (p == nil) != (q == nil) {
						return n + ": presence differs"
					}
					if p == nil {
						return ""
					}
					return eqECPoint(p, q)
				}
				pr := func(n string, p, q *zj.ECDHPrivateParams) string {
					if (p == nil) != (q == nil) {
						return n + ": presence differs"
					}
					if p != nil && (string(p.Value) != string(q.Value) || p.Length != q.Length) {
						return n + " differs"
					}
					return ""
				}
				return first(pt("server_public", x.ServerPublic, y.ServerPublic), pt("client_public", x.ClientPublic, y.ClientPublic),
					pr("server_private", x.ServerPrivate, y.ServerPrivate), pr("client_private", x.ClientPrivate, y.ClientPrivate))
			}},
		{coq: "TRSAPub", load: loader(rsaPubS{}),
			gen: func(c *vh.Ctx) interface{} {
				if c.Intn(8) == 0 {
					return rsaPubS{Nil: true}
				}
				e := []string{"65537", "3", "0", "-3", "18446744073709551617", "340282366920938463463374607431768211457"}[c.Intn(6)]
				return rsaPubS{E: e, N: hex.EncodeToString(genMag(c).Bytes())}
			},
			fixed: func() []interface{} { return []interface{}{rsaPubS{Nil: true}, rsaPubS{E: "0", N: ""}} },
			build: func(s interface{}) interface{} {
				d := s.(rsaPubS)
				if d.Nil {
					return &zj.RSAPublicKey{}
				}
				e, _ := new(big.Int).SetString(d.E, 10)
				return &zj.RSAPublicKey{PublicKey: &rsa.PublicKey{E: e, N: new(big.Int).SetBytes(unhex(d.N))}}
			},
			fresh: func() interface{} { return &zj.RSAPublicKey{} },
			in:    func(_, v interface{}) string { return "(VRSAPub " + coqRSAPub(v.(*zj.RSAPublicKey)) + ")" },
			out:   func(v interface{}) string { return "(VRSAPub " + coqRSAPub(v.(*zj.RSAPublicKey)) + ")" },
			equal: func(_, a, b interface{}) string {
				x, y := a.(*zj.RSAPublicKey), b.(*zj.RSAPublicKey)
				if y.PublicKey == nil {
					return "decoded key is nil"
				}
				if x.PublicKey == nil { // a nil key is written as exponent 0, empty modulus
					if y.E.Sign() != 0 || y.N.Sign() != 0 {
						return "nil key decodes to a non-zero key"
					}
					return ""
				}
				return first(magEq("exponent", x.E, y.E, false), magEq("modulus", x.N, y.N, false))
			}},
		{coq: "TRSAClient", load: loader(rsaClientS{}),
			gen: func(c *vh.Ctx) interface{} {
				return rsaClientS{Length: []int{0, 1, 256, 65535, c.Intn(65536)}[c.Intn(5)], PMS: hex.EncodeToString(genBytes(c, 48))}
			},
			fixed: func() []interface{} { return []interface{}{rsaClientS{}} },
			build: func(s interface{}) interface{} {
				d := s.(rsaClientS)
				return &zj.RSAClientParams{Length: uint16(d.Length), EncryptedPMS: unhex(d.PMS)}
			},
			fresh: func() interface{} { return &zj.RSAClientParams{} },
			in:    func(_, v interface{}) string { return "(VRSAClient " + coqRSAClient(v.(*zj.RSAClientParams)) + ")" },
			out:   func(v interface{}) string { return "(VRSAClient " + coqRSAClient(v.(*zj.RSAClientParams)) + ")" },
			equal: func(_, a, b interface{}) string {
				x, y := a.(*zj.RSAClientParams), b.(*zj.RSAClientParams)
				if x.Length != y.Length || string(x.EncryptedPMS) != string(y.EncryptedPMS) {
					return "rsa client params differ"
				}
				return ""
			}},
		{coq: "TAuxOID", load: loader([]int{}),
			gen:   func(c *vh.Ctx) interface{} { return genOID(c, false) },
			fixed: func() []interface{} { return []interface{}{[]int{0}, []int{2, 5, 29, 17}} },
			build: func(s interface{}) interface{} { o := pkix.AuxOID(append([]int{}, s.([]int)...)); return &o },
			fresh: func() interface{} { return &pkix.AuxOID{} },
			in:    func(s, _ interface{}) string { return "(VAuxOID " + coqZs(s.([]int)) + ")" },
			out:   func(v interface{}) string { return "(VAuxOID " + coqZs(*v.(*pkix.AuxOID)) + ")" },
			equal: func(_, a, b interface{}) string {
				if !intsEq(*a.(*pkix.AuxOID), *b.(*pkix.AuxOID)) {
					return "oid differs"
				}
				return ""
			}},
		{coq: "TATV", load: loader(atvS{}),
			gen: func(c *vh.Ctx) interface{} {
				a := atvS{Type: genOID(c, false)}
				if c.Intn(6) != 0 {
					v := genStr(c, 8)
					a.Str = &v
				}
				if c.Intn(10) == 0 {
					a.Type = nil
				}
				return a
			},
			fixed: func() []interface{} { e := ""; return []interface{}{atvS{Type: []int{2, 5, 4, 3}, Str: &e}} },
			build: func(s interface{}) interface{} {
				d := s.(atvS)
				var v interface{} = 7
				if d.Str != nil {
					v = *d.Str
				}
				return &pkix.AttributeTypeAndValue{Type: asn1.ObjectIdentifier(d.Type), Value: v}
			},
			fresh: func() interface{} { return &pkix.AttributeTypeAndValue{} },
			in: func(s, _ interface{}) string {
				d := s.(atvS)
				v := "None"
				if d.Str != nil {
					v = vh.Some(css(*d.Str))
				}
				return "(VATV " + vh.Pair(coqZs(d.Type), v) + ")"
			},
			out: func(v interface{}) string {
				a := v.(*pkix.AttributeTypeAndValue)
				s, _ := a.Value.(string)
				return "(VATVD " + vh.Pair(coqZs(a.Type), css(s)) + ")"
			},
			equal: func(s, a, b interface{}) string {
				x, y := a.(*pkix.AttributeTypeAndValue), b.(*pkix.AttributeTypeAndValue)
				if !intsEq(x.Type, y.Type) {
					return "attribute type differs"
				}
				if xs, ok := x.Value.(string); ok && xs != y.Value {
					return "attribute value differs"
				}
				return ""
			}},
		{coq: "TOtherName", load: loader(otherNameS{}),
			gen:   func(c *vh.Ctx) interface{} { return genOther(c) },
			fixed: func() []interface{} { return []interface{}{otherNameS{ID: []int{1, 2}}} },
			build: func(s interface{}) interface{} { o := buildOther(s.(otherNameS)); return &o },
			fresh: func() interface{} { return &pkix.OtherName{} },
			in:    func(_, v interface{}) string { return "(VOtherName " + coqOther(*v.(*pkix.OtherName)) + ")" },
			out:   func(v interface{}) string { return "(VOtherName " + coqOther(*v.(*pkix.OtherName)) + ")" },
			equal: func(_, a, b interface{}) string {
				x, y := a.(*pkix.OtherName), b.(*pkix.OtherName)
				if !intsEq(x.TypeID, y.TypeID) || string(x.Value.Bytes) != string(y.Value.Bytes) {
					return "other name differs"
				}
				return ""
			}},
		{coq: "TEDI", load: loader(ediS{}),
			gen:   func(c *vh.Ctx) interface{} { return genEDI(c) },
			fixed: func() []interface{} { return []interface{}{ediS{}} },
			build: func(s interface{}) interface{} { e := buildEDI(s.(ediS)); return &e },
			fresh: func() interface{} { return &pkix.EDIPartyName{} },
			in:    func(_, v interface{}) string { return "(VEDI " + coqEDI(*v.(*pkix.EDIPartyName)) + ")" },
			out:   func(v interface{}) string { return "(VEDI " + coqEDI(*v.(*pkix.EDIPartyName)) + ")" },
			equal: func(_, a, b interface{}) string {
				if *a.(*pkix.EDIPartyName) != *b.(*pkix.EDIPartyName) {
					return "edi party name differs"
				}
				return ""
			}},
		{coq: "TExt", load: loader(extS{}),
			gen: func(c *vh.Ctx) interface{} {
				return extS{ID: genOID(c, false), Critical: c.Bool(), Value: hex.EncodeToString(genBytes(c, 20))}
			},
			fixed: func() []interface{} { return []interface{}{extS{ID: []int{2, 5, 29, 19}}} },
			build: func(s interface{}) interface{} {
				d := s.(extS)
				return &pkix.Extension{Id: asn1.ObjectIdentifier(d.ID), Critical: d.Critical, Value: unhex(d.Value)}
			},
			fresh: func() interface{} { return &pkix.Extension{} },
			in:    func(_, v interface{}) string { return "(VExt " + coqExt(v.(*pkix.Extension)) + ")" },
			out:   func(v interface{}) string { return "(VExt " + coqExt(v.(*pkix.Extension)) + ")" },
			equal: func(_, a, b interface{}) string {
				x, y := a.(*pkix.Extension), b.(*pkix.Extension)
				if !intsEq(x.Id, y.Id) || x.Critical != y.Critical || string(x.Value) != string(y.Value) {
					return "extension differs"
				}
				return ""
			}},
		{coq: "TName", load: loader(nameS{}),
			gen: func(c *vh.Ctx) interface{} { return genName(c) },
			fixed: func() []interface{} {
				g, e, o := "given", "e@x", "VATDE-1"
				return []interface{}{nameS{}, nameS{Attrs: []atvS{{Type: []int{2, 5, 4, 42}, Str: &g}, {Type: []int{1, 2, 840, 113549, 1, 9, 1}, Str: &e}, {Type: []int{2, 5, 4, 97}, Str: &o}, {Type: []int{2, 5, 4, 4}, Str: &g}}}}
			},
			build: func(s interface{}) interface{} { return buildName(s.(nameS)) },
			fresh: func() interface{} { return &pkix.Name{} },
			in:    func(_, v interface{}) string { return "(VName " + nameIn(v.(*pkix.Name)) + ")" },
			out:   func(v interface{}) string { return "(VNameD " + coqNameDec(v.(*pkix.Name)) + ")" },
			equal: func(_, a, b interface{}) string { return eqName(a.(*pkix.Name), b.(*pkix.Name)) }},
		{coq: "TGN", load: loader(gnS{}),
			gen: func(c *vh.Ctx) interface{} { return genGN(c) },
			fixed: func() []interface{} {
				return []interface{}{gnS{}, gnS{IP: []string{"7f000001"}, Reg: [][]int{{1, 2, 3}}}}
			},
			build: func(s interface{}) interface{} { return buildGN(s.(gnS)) },
			fresh: func() interface{} { return &x509.GeneralNames{} },
			in: func(_, v interface{}) string {
				return "(VGN " + coqGN(v.(*x509.GeneralNames), nameIn, "(list attr)") + ")"
			},
			out: func(v interface{}) string {
				return "(VGND " + coqGN(v.(*x509.GeneralNames), coqNameDec, "name_dec") + ")"
			},
			equal: func(_, a, b interface{}) string { return eqGN(a.(*x509.GeneralNames), b.(*x509.GeneralNames)) }},
		{coq: "TSubIP", load: loader(subIPS{}),
			gen: func(c *vh.Ctx) interface{} { return genSubIP(c) },
			fixed: func() []interface{} {
				return []interface{}{subIPS{"0a000001", 0}, subIPS{"0a000001", 32}, subIPS{"c0a801ff", 23}}
			},
			build: func(s interface{}) interface{} { g := buildSubIP(s.(subIPS)); return &g },
			fresh: func() interface{} { return &x509.GeneralSubtreeIP{} },
			in:    func(_, v interface{}) string { return "(VSubIP " + coqSubIP(v.(*x509.GeneralSubtreeIP)) + ")" },
			out:   func(v interface{}) string { return "(VSubIP " + coqSubIP(v.(*x509.GeneralSubtreeIP)) + ")" },
			equal: func(_, a, b interface{}) string {
				return eqSubIP(a.(*x509.GeneralSubtreeIP), b.(*x509.GeneralSubtreeIP))
			}},
		{coq: "TNC", load: loader(ncS{}),
			gen:   func(c *vh.Ctx) interface{} { return ncS{Critical: c.Bool(), P: genHalf(c), E: genHalf(c)} },
			fixed: func() []interface{} { return []interface{}{ncS{}} },
			build: func(s interface{}) interface{} { return buildNC(s.(ncS)) },
			fresh: func() interface{} { return &x509.NameConstraints{} },
			in: func(_, v interface{}) string {
				return "(VNC " + coqNC(v.(*x509.NameConstraints), nameIn, "(list attr)") + ")"
			},
			out: func(v interface{}) string {
				return "(VNCD " + coqNC(v.(*x509.NameConstraints), coqNameDec, "name_dec") + ")"
			},
			equal: func(_, a, b interface{}) string { return eqNC(a.(*x509.NameConstraints), b.(*x509.NameConstraints)) }},
		{coq: "TFingerprint", load: loader(""),
			gen: func(c *vh.Ctx) interface{} {
				return hex.EncodeToString(c.Bytes([]int{0, 1, 16, 20, 32, 64, c.Intn(70)}[c.Intn(7)]))
			},
			fixed: func() []interface{} {
				return []interface{}{"", hex.EncodeToString(x509.SHA256Fingerprint([]byte("x")))}
			},
			build: func(s interface{}) interface{} { f := x509.CertificateFingerprint(unhex(s.(string))); return &f },
			fresh: func() interface{} { return &x509.CertificateFingerprint{} },
			in:    func(s, _ interface{}) string { return "(VFingerprint " + cs(unhex(s.(string))) + ")" },
			out:   func(v interface{}) string { return "(VFingerprint " + cs(*v.(*x509.CertificateFingerprint)) + ")" },
			equal: func(_, a, b interface{}) string {
				if !a.(*x509.CertificateFingerprint).Equal(*b.(*x509.CertificateFingerprint)) {
					return "fingerprint differs"
				}
				return ""
			}},
		{coq: "TDS", load: loader(dsS{}),
			gen: func(c *vh.Ctx) interface{} {
				d := dsS{Hash: c.Intn(256), Sig: c.Intn(256), Signature: hex.EncodeToString(genBytes(c, 80))}
				switch c.Intn(40) {
				case 0:
					d.Big = 65535
				case 1:
					d.Big = 65536
				case 2:
					d.Big = 256
				}
				return d
			},
			fixed: func() []interface{} { return []interface{}{dsS{}, dsS{Hash: 4, Sig: 3, Big: 65536}} },
			build: func(s interface{}) interface{} {
				d := s.(dsS)
				sig := unhex(d.Signature)
				if d.Big > 0 {
					sig = make([]byte, d.Big)
				}
				return &ct.DigitallySigned{HashAlgorithm: ct.HashAlgorithm(d.Hash), SignatureAlgorithm: ct.SignatureAlgorithm(d.Sig), Signature: sig}
			},
			fresh: func() interface{} { return &ct.DigitallySigned{} },
			in:    func(_, v interface{}) string { return "(VDS " + coqDS(v.(*ct.DigitallySigned)) + ")" },
			out:   func(v interface{}) string { return "(VDS " + coqDS(v.(*ct.DigitallySigned)) + ")" },
			equal: func(_, a, b interface{}) string {
				x, y := a.(*ct.DigitallySigned), b.(*ct.DigitallySigned)
				if x.HashAlgorithm != y.HashAlgorithm || x.SignatureAlgorithm != y.SignatureAlgorithm || string(x.Signature) != string(y.Signature) {
					return "digitally-signed differs"
				}
				return ""
			}},
		{coq: "TSHA256", load: loader(""),
			gen:   func(c *vh.Ctx) interface{} { return hex.EncodeToString(c.Bytes(32)) },
			fixed: func() []interface{} { return []interface{}{strings.Repeat("00", 32), strings.Repeat("ff", 32)} },
			build: func(s interface{}) interface{} { var h ct.SHA256Hash; copy(h[:], unhex(s.(string))); return &h },
			fresh: func() interface{} { return &ct.SHA256Hash{} },
			in:    func(s, _ interface{}) string { return "(VSHA256 " + cs(unhex(s.(string))) + ")" },
			out:   func(v interface{}) string { h := v.(*ct.SHA256Hash); return "(VSHA256 " + cs(h[:]) + ")" },
			equal: func(_, a, b interface{}) string {
				if *a.(*ct.SHA256Hash) != *b.(*ct.SHA256Hash) {
					return "hash differs"
				}
				return ""
			}},
	}
}

func coqECDH(e *zj.ECDHParams) string {
	pt := func(p *zj.ECPoint) string {
		if p == nil {
			return "None"
		}
		return vh.Some(coqECPoint(p))
	}
	pr := func(p *zj.ECDHPrivateParams) string {
		if p == nil {
			return "None"
		}
		return vh.Some(coqPriv(p))
	}
	return vh.Pair(vh.Z(int64(e.TLSCurveID)), vh.Pair(pt(e.ServerPublic), vh.Pair(pr(e.ServerPrivate), vh.Pair(pt(e.ClientPublic), vh.Pair(pr(e.ClientPrivate), "tt")))))
}
func coqRSAPub(k *zj.RSAPublicKey) string {
	if k.PublicKey == nil {
		return "None"
	}
	return vh.Some(vh.Pair(vh.BigZ(k.E), cs(k.N.Bytes())))
}
func coqRSAClient(p *zj.RSAClientParams) string {
	return vh.Pair(vh.Z(int64(p.Length)), vh.Pair(cs(p.EncryptedPMS), "tt"))
}
func coqExt(e *pkix.Extension) string {
	return vh.Pair(coqZs(e.Id), vh.Pair(vh.Bool(e.Critical), cs(e.Value)))
}
func coqDS(d *ct.DigitallySigned) string {
	return vh.Pair(vh.Z(int64(d.HashAlgorithm)), vh.Pair(vh.Z(int64(d.SignatureAlgorithm)), cs(d.Signature)))
}
