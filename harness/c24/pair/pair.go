// Package pair is an in-memory TLS client/server pair for the zcrypto tls
// package: a duplex in-memory pipe with a recording (and optionally
// tampering) transport, deterministic Config.Rand / Config.Time, and a small
// certificate factory for RSA, ECDSA P-256/P-384 and Ed25519 keys.
// Used by the C24, C27 and C28 harnesses.
package pair

import (
	"crypto"
	"crypto/ecdsa"
	"crypto/ed25519"
	"encoding/pem"
	"errors"
	"io"
	"math/big"
	"net"
	"sync"
	"time"

	"github.com/zmap/zcrypto/rsa"
	"github.com/zmap/zcrypto/tls"
	"github.com/zmap/zcrypto/x509"
	"github.com/zmap/zcrypto/x509/pkix"
)

// ---------------------------------------------------------------- keys / certificates

var keys = map[string]crypto.Signer{}

// Key returns one of the fixed test keys: rsaA rsaB p256A p256B p384A edA edB caRoot caEvil.
func Key(name string) crypto.Signer {
	if k, ok := keys[name]; ok {
		return k
	}
	b, _ := pem.Decode([]byte(keyPEM[name]))
	if b == nil {
		panic("pair: no key " + name)
	}
	k, err := x509.ParsePKCS8PrivateKey(b.Bytes)
	if err != nil {
		panic(err)
	}
	s, ok := k.(crypto.Signer)
	if !ok {
		panic("pair: key is not a signer: " + name)
	}
	keys[name] = s
	return s
}

// KeyKind: "rsa" | "p256" | "p384" | "ed25519"
func KeyKind(k crypto.Signer) string {
	switch p := k.Public().(type) {
	case *rsa.PublicKey:
		return "rsa"
	case *ecdsa.PublicKey:
		if p.Curve.Params().BitSize == 384 {
			return "p384"
		}
		return "p256"
	case ed25519.PublicKey:
		return "ed25519"
	}
	return "?"
}

// Now is the fixed clock of every configuration.
var Now = time.Unix(1800000000, 0)

func Clock() time.Time { return Now }

// detRand is a deterministic byte stream (splitmix64).
type detRand struct {
	mu sync.Mutex
	s  uint64
}

func NewRand(seed uint64) io.Reader { return &detRand{s: seed*0x9E3779B97F4A7C15 + 0x7777} }
func (r *detRand) Read(p []byte) (int, error) {
	r.mu.Lock()
	defer r.mu.Unlock()
	for i := range p {
		r.s += 0x9E3779B97F4A7C15
		z := r.s
		z = (z ^ (z >> 30)) * 0xBF58476D1CE4E5B9
		z = (z ^ (z >> 27)) * 0x94D049BB133111EB
		p[i] = byte(z ^ (z >> 31))
	}
	return len(p), nil
}

// CertSpec describes one certificate to issue.
type CertSpec struct {
	Key       string // subject key name
	Issuer    string // issuer key name ("" = self-signed)
	IssuerCN  string
	CN        string
	DNS       []string
	IsCA      bool
	NotBefore time.Time
	NotAfter  time.Time
	Serial    int64
	EKU       []x509.ExtKeyUsage
	IPs       []net.IP // iPAddress SANs
}

// Issue creates the certificate and returns its DER encoding.
func Issue(s CertSpec) []byte {
	if s.NotBefore.IsZero() {
		s.NotBefore = Now.Add(-1000 * time.Hour)
	}
	if s.NotAfter.IsZero() {
		s.NotAfter = Now.Add(1000 * time.Hour)
	}
	if s.Serial == 0 {
		s.Serial = 1
	}
	if s.EKU == nil {
		s.EKU = []x509.ExtKeyUsage{x509.ExtKeyUsageServerAuth, x509.ExtKeyUsageClientAuth}
	}
	t := &x509.Certificate{SerialNumber: big.NewInt(s.Serial), Subject: pkix.Name{CommonName: s.CN},
		NotBefore: s.NotBefore, NotAfter: s.NotAfter, DNSNames: s.DNS, IPAddresses: s.IPs,
		KeyUsage:    x509.KeyUsageDigitalSignature | x509.KeyUsageKeyEncipherment,
		ExtKeyUsage: s.EKU, BasicConstraintsValid: true, IsCA: s.IsCA}
	if s.IsCA {
		t.KeyUsage |= x509.KeyUsageCertSign
	}
	parent := t
	signer := Key(s.Key)
	if s.Issuer != "" {
		parent = &x509.Certificate{Subject: pkix.Name{CommonName: s.IssuerCN}}
		signer = Key(s.Issuer)
	}
	der, err := x509.CreateCertificate(NewRand(uint64(s.Serial)+17), t, parent, Key(s.Key).Public(), signer)
	if err != nil {
		panic("pair: CreateCertificate: " + err.Error())
	}
	return der
}

// Identity is a leaf certificate chain with its key plus the pool that trusts it.
type Identity struct {
	Cert  tls.Certificate
	Roots *x509.CertPool
	Leaf  []byte
	CA    []byte
}

var idCache = map[string]*Identity{}
var idMu sync.Mutex

// ServerIdentity returns a leaf for host "test.example" with the named key,
// issued by the caRoot CA, and the pool holding that CA.
func ServerIdentity(key string) *Identity {
	idMu.Lock()
	defer idMu.Unlock()
	if id, ok := idCache[key]; ok {
		return id
	}
	ca := Issue(CertSpec{Key: "caRoot", CN: "verif root", IsCA: true, Serial: 100})
	leaf := Issue(CertSpec{Key: key, Issuer: "caRoot", IssuerCN: "verif root", CN: "test.example",
		DNS: []string{"test.example"}, Serial: 200})
	pool := x509.NewCertPool()
	c, err := x509.ParseCertificate(ca)
	if err != nil {
		panic(err)
	}
	pool.AddCert(c)
	id := &Identity{Cert: tls.Certificate{Certificate: [][]byte{leaf, ca}, PrivateKey: Key(key)}, Roots: pool, Leaf: leaf, CA: ca}
	idCache[key] = id
	return id
}

func Pool(ders ...[]byte) *x509.CertPool {
	p := x509.NewCertPool()
	for _, d := range ders {
		c, err := x509.ParseCertificate(d)
		if err != nil {
			panic(err)
		}
		p.AddCert(c)
	}
	return p
}

// ---------------------------------------------------------------- in-memory duplex pipe

type half struct {
	mu     sync.Mutex
	cond   *sync.Cond
	buf    []byte
	closed bool // the writer closed: the reader drains the buffer, then sees EOF
	dead   bool // the reader went away: further writes are accepted and dropped (like a
	// TCP peer that has closed: data in flight is not an error for the sender)
}

func newHalf() *half { h := &half{}; h.cond = sync.NewCond(&h.mu); return h }

func (h *half) write(p []byte) (int, error) {
	h.mu.Lock()
	defer h.mu.Unlock()
	if h.closed {
		return 0, io.ErrClosedPipe
	}
	if !h.dead {
		h.buf = append(h.buf, p...)
		h.cond.Broadcast()
	}
	return len(p), nil
}
func (h *half) read(p []byte) (int, error) {
	h.mu.Lock()
	defer h.mu.Unlock()
	for len(h.buf) == 0 && !h.closed && !h.dead {
		h.cond.Wait()
	}
	if h.dead {
		return 0, io.ErrClosedPipe
	}
	if len(h.buf) == 0 {
		return 0, io.EOF
	}
	n := copy(p, h.buf)
	h.buf = h.buf[n:]
	return n, nil
}
func (h *half) closeWrite() {
	h.mu.Lock()
	h.closed = true
	h.cond.Broadcast()
	h.mu.Unlock()
}
func (h *half) closeRead() {
	h.mu.Lock()
	h.dead = true
	h.cond.Broadcast()
	h.mu.Unlock()
}

// Chunk is one TLS record as written by one side (after tampering: Data is
// what was delivered; Orig what the endpoint wrote).
type Chunk struct {
	FromClient bool
	Data       []byte
	Orig       []byte
}

// Tamper may replace a record in flight. n is the index of the record within
// its direction. Returning nil drops nothing: return rec to leave it unchanged.
type Tamper func(fromClient bool, n int, rec []byte) []byte

type recorder struct {
	mu     sync.Mutex
	chunks []Chunk
	nC, nS int
	tamper Tamper
}

type endpoint struct {
	fromClient bool
	in, out    *half
	rec        *recorder
	pending    []byte
}

func (e *endpoint) Read(p []byte) (int, error) { return e.in.read(p) }
func (e *endpoint) Write(p []byte) (int, error) {
	e.pending = append(e.pending, p...)
	for len(e.pending) >= 5 {
		n := 5 + int(e.pending[3])<<8 + int(e.pending[4])
		if len(e.pending) < n {
			break
		}
		rec := append([]byte(nil), e.pending[:n]...)
		e.pending = e.pending[n:]
		out := rec
		e.rec.mu.Lock()
		idx := e.rec.nS
		if e.fromClient {
			idx = e.rec.nC
			e.rec.nC++
		} else {
			e.rec.nS++
		}
		if e.rec.tamper != nil {
			out = e.rec.tamper(e.fromClient, idx, append([]byte(nil), rec...))
		}
		e.rec.chunks = append(e.rec.chunks, Chunk{FromClient: e.fromClient, Data: out, Orig: rec})
		e.rec.mu.Unlock()
		if _, err := e.out.write(out); err != nil {
			return 0, err
		}
	}
	return len(p), nil
}
func (e *endpoint) Close() error                       { e.out.closeWrite(); e.in.closeRead(); return nil }
func (e *endpoint) LocalAddr() net.Addr                { return addr{e.fromClient} }
func (e *endpoint) RemoteAddr() net.Addr               { return addr{!e.fromClient} }
func (e *endpoint) SetDeadline(t time.Time) error      { return nil }
func (e *endpoint) SetReadDeadline(t time.Time) error  { return nil }
func (e *endpoint) SetWriteDeadline(t time.Time) error { return nil }

type addr struct{ client bool }

func (a addr) Network() string { return "mem" }
func (a addr) String() string {
	if a.client {
		return "client.mem:1"
	}
	return "server.mem:443"
}

// ---------------------------------------------------------------- one connection

// Result is everything observable about one connection attempt.
type Result struct {
	ClientErr, ServerErr error
	CS, SS               tls.ConnectionState
	ClientLog, ServerLog *tls.ServerHandshake
	Transcript           []Chunk
	ClientEKM, ServerEKM []byte
	AppOK                bool  // application data echoed both ways after the handshake
	ClientAppErr         error // first error of the client's application data exchange
	ServerAppErr         error
	ClientConn           *tls.Conn
}

// Alert classification of an error: (0,false) when nil.
//
//	kind "ok"     : err == nil
//	kind "remote" : the peer sent alert n
//	kind "local"  : a local failure (this side sent an alert or failed without one)
func Classify(err error) (kind string, alert int) {
	if err == nil {
		return "ok", 0
	}
	var op *net.OpError
	if errors.As(err, &op) && op.Op == "remote error" {
		if a, ok := op.Err.(tls.Alert); ok {
			return "remote", int(a)
		}
	}
	var a tls.Alert
	if errors.As(err, &a) {
		return "local", int(a)
	}
	return "local", -1
}

// Options for Run.
type Options struct {
	Tamper  Tamper
	NoApp   bool   // skip the application data echo
	EKMLbl  string // exported keying material label ("" = "verif-ekm")
	Timeout time.Duration
}

// Run performs one handshake (and a small application data echo) between a
// client with ccfg and a server with scfg over the in-memory pipe.
func Run(ccfg, scfg *tls.Config, opt Options) *Result {
	c2s, s2c := newHalf(), newHalf()
	rec := &recorder{tamper: opt.Tamper}
	ce := &endpoint{fromClient: true, in: s2c, out: c2s, rec: rec}
	se := &endpoint{fromClient: false, in: c2s, out: s2c, rec: rec}
	cl := tls.Client(ce, ccfg)
	sv := tls.Server(se, scfg)
	r := &Result{ClientConn: cl}
	lbl := opt.EKMLbl
	if lbl == "" {
		lbl = "verif-ekm"
	}
	done := make(chan struct{})
	go func() {
		defer close(done)
		r.ServerErr = sv.Handshake()
		if r.ServerErr != nil {
			se.Close()
			return
		}
		if opt.NoApp {
			return
		}
		buf := make([]byte, 5)
		if _, err := io.ReadFull(sv, buf); err != nil {
			r.ServerAppErr = err
			se.Close()
			return
		}
		for i := range buf {
			buf[i] ^= 0x55
		}
		if _, err := sv.Write(buf); err != nil {
			r.ServerAppErr = err
			se.Close()
		}
	}()
	finished := make(chan struct{})
	go func() {
		defer close(finished)
		r.ClientErr = cl.Handshake()
		if r.ClientErr != nil {
			ce.Close()
			return
		}
		if opt.NoApp {
			return
		}
		msg := []byte("hello")
		if _, err := cl.Write(msg); err != nil {
			r.ClientAppErr = err
			ce.Close()
			return
		}
		buf := make([]byte, 5)
		if _, err := io.ReadFull(cl, buf); err != nil {
			r.ClientAppErr = err
			ce.Close()
			return
		}
		ok := true
		for i := range buf {
			if buf[i]^0x55 != msg[i] {
				ok = false
			}
		}
		r.AppOK = ok
	}()
	to := opt.Timeout
	if to == 0 {
		to = 20 * time.Second
	}
	timer := time.NewTimer(to)
	defer timer.Stop()
	for _, ch := range []chan struct{}{finished, done} {
		select {
		case <-ch:
		case <-timer.C:
			ce.Close()
			se.Close()
			<-finished
			<-done
			if r.ClientErr == nil {
				r.ClientErr = errors.New("pair: timeout")
			}
			if r.ServerErr == nil {
				r.ServerErr = errors.New("pair: timeout")
			}
		}
	}
	r.CS, r.SS = cl.ConnectionState(), sv.ConnectionState()
	r.ClientLog, r.ServerLog = cl.GetHandshakeLog(), sv.GetHandshakeLog()
	if r.ClientErr == nil {
		r.ClientEKM, _ = r.CS.ExportKeyingMaterial(lbl, []byte("ctx"), 32)
	}
	if r.ServerErr == nil {
		r.ServerEKM, _ = r.SS.ExportKeyingMaterial(lbl, []byte("ctx"), 32)
	}
	ce.Close()
	se.Close()
	rec.mu.Lock()
	r.Transcript = rec.chunks
	rec.mu.Unlock()
	return r
}
