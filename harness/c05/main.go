// C05 harness: certificate requests, legacy CRLs and v2 revocation lists
// round-trip through their parsers and verify against the issuing key.
//
// Three streams: rcase (CreateCertificateRequest / ParseCertificateRequest /
// CheckSignature), lcase (Certificate.CreateCRL / ParseCRL /
// CheckCRLSignature), vcase (CreateRevocationList / ParseRevocationList /
// RevocationList.CheckSignatureFrom).  For each generated input the real code
// is run, the inputs, a digest of the created DER and the parsed fields are
// printed as a Coq term, and the property is evaluated on the implementation.
package main

import (
	"bytes"
	stdasn1 "encoding/asn1"
	"encoding/hex"
	"encoding/json"
	"fmt"
	"math/big"
	"net"
	"strings"
	"time"

	"github.com/zmap/zcrypto/encoding/asn1"
	"github.com/zmap/zcrypto/x509"
	"github.com/zmap/zcrypto/x509/pkix"
	"verifharness/vh"
)

// ---------------------------------------------------------------- replayable inputs

type CSRIn struct {
	SigAlg   int      `json:"sigalg"`
	Subject  Name     `json:"subject"`
	DNS      []string `json:"dns,omitempty"`
	Emails   []string `json:"emails,omitempty"`
	IPs      []string `json:"ips,omitempty"` // hex
	Extra    []Ext    `json:"extra,omitempty"`
	Key      int      `json:"key"`
	InDomain bool     `json:"indomain"`
	Why      string   `json:"why,omitempty"`
}

type Revoked struct {
	Serial string `json:"serial"`
	Time   int64  `json:"time"`
	Zone   int    `json:"zone,omitempty"`   // seconds east of UTC the template's time is expressed in
	Reason *int   `json:"reason,omitempty"` // v2 only
	Extra  []Ext  `json:"extra,omitempty"`  // legacy: Extensions; v2: ExtraExtensions
}

type CRLIn struct {
	CA       int       `json:"ca"` // which CA template
	Key      int       `json:"key"`
	Now      int64     `json:"now"`
	Expiry   int64     `json:"expiry"`
	Revoked  []Revoked `json:"revoked,omitempty"`
	InDomain bool      `json:"indomain"`
	Why      string    `json:"why,omitempty"`
}

type RLIn struct {
	CA       int       `json:"ca"`
	Key      int       `json:"key"`
	SigAlg   int       `json:"sigalg"`
	Number   string    `json:"number"` // decimal
	This     int64     `json:"this"`
	Next     int64     `json:"next"`
	Revoked  []Revoked `json:"revoked,omitempty"`
	Extra    []Ext     `json:"extra,omitempty"`
	InDomain bool      `json:"indomain"`
	Why      string    `json:"why,omitempty"`
}

type Replay struct {
	Kind string `json:"kind"` // csr | crl | rl
	CSR  *CSRIn `json:"csr,omitempty"`
	CRL  *CRLIn `json:"crl,omitempty"`
	RL   *RLIn  `json:"rl,omitempty"`
}

// CA templates: 0 plain CA; 1 CA with certSign|cRLSign and a subject key id; 2 UTF-8 name, multi-valued RDN,
// 3 key usage without cRLSign, 4 cRLSign but no subject key id
func caFor(i int) *Tmpl {
	t := Tmpl{Serial: fmt.Sprint(2000 + i), NotBefore: ut(2020, 1, 1, 0, 0, 0), NotAfter: ut(2040, 1, 1, 0, 0, 0),
		Subject: Name{CN: fmt.Sprintf("CRL CA %d", i), O: []string{"Verif"}, C: []string{"US"}}, BCValid: true, IsCA: true}
	switch i {
	case 1:
		t.KU = int(x509.KeyUsageCertSign | x509.KeyUsageCRLSign)
		t.SKI = "0102030405060708090a0b0c0d0e0f1011121314"
	case 2:
		t.Subject = Name{CN: "Ünïcödé CA", O: []string{"b", "a"}, OU: []string{"x&y", "*"}}
		t.KU = int(x509.KeyUsageCRLSign)
		t.SKI = "ff"
	case 3:
		t.KU = int(x509.KeyUsageCertSign)
		t.SKI = "aabb"
	case 4:
		t.KU = int(x509.KeyUsageCRLSign)
	case 5:
		t.KU = int(x509.KeyUsageCRLSign | x509.KeyUsageDigitalSignature)
		t.SKI = strings.Repeat("ab", 130)
		t.Subject = Name{}
	}
	return &t
}

func ut(y int, m time.Month, d, h, mi, s int) int64 {
	return time.Date(y, m, d, h, mi, s, 0, time.UTC).Unix()
}

func bigOf(s string) *big.Int {
	b, ok := new(big.Int).SetString(s, 10)
	if !ok {
		panic("bad integer " + s)
	}
	return b
}

func exts(l []Ext) []pkix.Extension {
	var o []pkix.Extension
	for _, e := range l {
		o = append(o, pkix.Extension{Id: e.OID, Critical: e.Critical, Value: vh.UnHex(e.Value)})
	}
	return o
}

func tm(sec int64, zone int) time.Time {
	t := time.Unix(sec, 0)
	if zone != 0 {
		return t.In(time.FixedZone("z", zone))
	}
	return t.UTC()
}

type outer struct {
	TBS stdasn1.RawValue
	Alg stdasn1.RawValue
	Sig stdasn1.BitString
}

func created(der []byte) (string, bool) {
	var o outer
	if rest, err := stdasn1.Unmarshal(der, &o); err != nil || len(rest) != 0 {
		return "", false
	}
	return vh.Some(vh.Pair(vh.NI(len(o.Sig.Bytes)), digest(der, len(o.Sig.Bytes)))), true
}

func guard(f func()) (p interface{}) {
	defer func() { p = recover() }()
	f()
	return nil
}

func eqExts(a []pkix.Extension, b []pkix.Extension) bool {
	if len(a) != len(b) {
		return false
	}
	for i := range a {
		if !a[i].Id.Equal(b[i].Id) || a[i].Critical != b[i].Critical || !bytes.Equal(a[i].Value, b[i].Value) {
			return false
		}
	}
	return true
}

// ---------------------------------------------------------------- CSR

func runCSR(c *vh.Ctx, in CSRIn) {
	rp := Replay{Kind: "csr", CSR: &in}
	t := &x509.CertificateRequest{SignatureAlgorithm: x509.SignatureAlgorithm(in.SigAlg), Subject: in.Subject.pkix(),
		DNSNames: in.DNS, EmailAddresses: in.Emails, ExtraExtensions: exts(in.Extra)}
	for _, ip := range in.IPs {
		t.IPAddresses = append(t.IPAddresses, net.IP(vh.UnHex(ip)))
	}
	coqT := fmt.Sprintf("(mk_csr %s %s %s %s %s %s)", vh.NI(nonneg(in.SigAlg)), coqRDNs(t.Subject.ToRDNSequence()),
		coqStrs(in.DNS), coqStrs(in.Emails), coqBytesList(ipBytes(t.IPAddresses)), coqExts(t.ExtraExtensions))
	coqIn := fmt.Sprintf("(mk_csr_input %s (spki %d) %s)", keys[in.Key].kind, in.Key, coqT)
	nk := fmt.Sprintf("csr k%d alg%d san%d+%d+%d extra%d %s", in.Key, in.SigAlg, len(in.DNS), len(in.Emails), len(in.IPs), len(in.Extra), in.Why)
	viol := func(key, desc string) { c.Violation(key, desc, "rcase", rp) }

	var der []byte
	var err error
	if p := guard(func() { der, err = x509.CreateCertificateRequest(c, t, keys[in.Key].priv) }); p != nil {
		viol("csr-create-panic", fmt.Sprintf("CreateCertificateRequest panicked: %v", p))
		return
	}
	if err != nil {
		if in.InDomain {
			viol("csr-create-error", "CreateCertificateRequest refused an in-domain template: "+err.Error())
		}
		c.Stat("csr_create_errors", 1)
		c.Case("rcase", vh.Pair(coqIn, "None", "None"), rp, nk)
		return
	}
	cr, ok := created(der)
	if !ok {
		viol("csr-not-der", "created request is not one DER SEQUENCE of three elements")
		return
	}
	var r *x509.CertificateRequest
	if p := guard(func() { r, err = x509.ParseCertificateRequest(der) }); p != nil {
		viol("csr-parse-panic", fmt.Sprintf("ParseCertificateRequest panicked on a created request: %v", p))
		return
	}
	if err != nil {
		if in.InDomain {
			viol("csr-parse-error", "ParseCertificateRequest rejects the request CreateCertificateRequest made: "+err.Error())
		}
		c.Stat("csr_parse_errors", 1)
		c.Case("rcase", vh.Pair(coqIn, cr, "None"), rp, nk)
		return
	}
	fields := fmt.Sprintf("(mk_csr_fields %s %s %s %s %s %s %s)", vh.Z(int64(r.Version)), vh.NI(int(r.SignatureAlgorithm)),
		coqRDNs(r.Subject.OriginalRDNS), coqExts(r.Extensions), coqStrs(r.DNSNames), coqStrs(r.EmailAddresses), coqBytesList(ipBytes(r.IPAddresses)))
	c.Case("rcase", vh.Pair(coqIn, cr, vh.Some(fields)), rp, nk)
	if !in.InDomain {
		return
	}
	// the property on the implementation
	if r.Version != 0 {
		viol("csr-field-version", fmt.Sprintf("version %d", r.Version))
	}
	for _, d := range compareName("csr-subject", t.Subject, r.Subject) {
		viol(d[0], d[1])
	}
	if !eqStrs(r.DNSNames, t.DNSNames) || !eqStrs(r.EmailAddresses, t.EmailAddresses) {
		viol("csr-field-san", fmt.Sprintf("DNS/email SANs: template %q %q, parsed %q %q", t.DNSNames, t.EmailAddresses, r.DNSNames, r.EmailAddresses))
	}
	if len(r.IPAddresses) != len(t.IPAddresses) {
		viol("csr-field-san", fmt.Sprintf("IP SANs: template %v, parsed %v", t.IPAddresses, r.IPAddresses))
	} else {
		for i := range t.IPAddresses {
			if !r.IPAddresses[i].Equal(t.IPAddresses[i]) {
				viol("csr-field-san", fmt.Sprintf("IP SAN %d: template %v, parsed %v", i, t.IPAddresses[i], r.IPAddresses[i]))
			}
		}
	}
	// extensions: the generated SAN (if any) first, then the extra ones verbatim (flag included)
	ne := len(t.ExtraExtensions)
	if len(r.Extensions) < ne || !eqExts(r.Extensions[len(r.Extensions)-ne:], t.ExtraExtensions) {
		viol("csr-field-extensions", fmt.Sprintf("extra extensions not reproduced: template %+v, parsed %+v", t.ExtraExtensions, r.Extensions))
	}
	hasSAN := len(t.DNSNames)+len(t.EmailAddresses)+len(t.IPAddresses) > 0
	if want := ne + map[bool]int{true: 1, false: 0}[hasSAN]; len(r.Extensions) != want {
		viol("csr-field-extensions", fmt.Sprintf("%d extensions requested, %d parsed", want, len(r.Extensions)))
	}
	wantAlg := t.SignatureAlgorithm
	if wantAlg == 0 {
		wantAlg = defaultSigAlg(keys[in.Key].priv.Public())
	}
	if r.SignatureAlgorithm != wantAlg {
		viol("csr-field-sigalg", fmt.Sprintf("signature algorithm: requested %v, parsed %v", wantAlg, r.SignatureAlgorithm))
	}
	if !bytes.Equal(r.RawSubjectPublicKeyInfo, mustSPKI(keys[in.Key].priv.Public())) {
		viol("csr-field-publickey", "public key info differs from the signer's key")
	}
	if err := r.CheckSignature(); err != nil {
		viol("csr-sig-verify", fmt.Sprintf("created request does not verify under its own key: %v (key %s, algorithm %v)", err, keys[in.Key].name, r.SignatureAlgorithm))
	}
}

// ---------------------------------------------------------------- legacy CRL

func coqEntry(serial *big.Int, t time.Time, es []pkix.Extension) string {
	return vh.Pair(vh.BigZ(serial), coqCivil(t), coqExts(es))
}

func runCRL(c *vh.Ctx, in CRLIn) {
	rp := Replay{Kind: "crl", CRL: &in}
	ca, err := makeParent(c, *caFor(in.CA), in.Key)
	if err != nil {
		panic(err)
	}
	var revoked []pkix.RevokedCertificate
	var ents []string
	for _, r := range in.Revoked {
		rc := pkix.RevokedCertificate{SerialNumber: bigOf(r.Serial), RevocationTime: tm(r.Time, r.Zone), Extensions: exts(r.Extra)}
		revoked = append(revoked, rc)
		ents = append(ents, coqEntry(rc.SerialNumber, rc.RevocationTime, rc.Extensions))
	}
	now, expiry := tm(in.Now, 0), tm(in.Expiry, 7200)
	coqIn := fmt.Sprintf("(mk_crl_input %s %s %s %s %s %s)", keys[in.Key].kind, coqRDNs(ca.Subject.ToRDNSequence()), coqB(ca.SubjectKeyId),
		coqCivil(now), coqCivil(expiry), vh.List0(ents, "entry"))
	nk := fmt.Sprintf("crl ca%d k%d n%d %s", in.CA, in.Key, len(in.Revoked), in.Why)
	viol := func(key, desc string) { c.Violation(key, desc, "lcase", rp) }

	var der []byte
	if p := guard(func() { der, err = ca.CreateCRL(c, keys[in.Key].priv, revoked, now, expiry) }); p != nil {
		viol("crl-create-panic", fmt.Sprintf("CreateCRL panicked: %v", p))
		return
	}
	if err != nil {
		if in.InDomain {
			viol("crl-create-error", "CreateCRL refused an in-domain input: "+err.Error())
		}
		c.Case("lcase", vh.Pair(coqIn, "None", "None"), rp, nk)
		return
	}
	cr, ok := created(der)
	if !ok {
		viol("crl-not-der", "created CRL is not one DER SEQUENCE of three elements")
		return
	}
	var l *pkix.CertificateList
	if p := guard(func() { l, err = x509.ParseCRL(der) }); p != nil {
		viol("crl-parse-panic", fmt.Sprintf("ParseCRL panicked on a created CRL: %v", p))
		return
	}
	if err != nil {
		if in.InDomain {
			viol("crl-parse-error", "ParseCRL rejects the CRL CreateCRL made: "+err.Error())
		}
		c.Case("lcase", vh.Pair(coqIn, cr, "None"), rp, nk)
		return
	}
	tbs := l.TBSCertList
	var pents []string
	for _, r := range tbs.RevokedCertificates {
		pents = append(pents, coqEntry(r.SerialNumber, r.RevocationTime, r.Extensions))
	}
	next := "None"
	if !tbs.NextUpdate.IsZero() {
		next = vh.Some(coqCivil(tbs.NextUpdate))
	}
	fields := fmt.Sprintf("(mk_crl_fields %s %s %s %s %s %s %s)", vh.Z(int64(tbs.Version)),
		vh.NI(int(x509.GetSignatureAlgorithmFromAI(tbs.Signature))), coqRDNs(tbs.Issuer), coqCivil(tbs.ThisUpdate), next,
		vh.List0(pents, "entry"), coqExts(tbs.Extensions))
	c.Case("lcase", vh.Pair(coqIn, cr, vh.Some(fields)), rp, nk)
	if !in.InDomain {
		return
	}
	if canonRDN(tbs.Issuer) != canonRDN(ca.Subject.ToRDNSequence()) {
		viol("crl-field-issuer", fmt.Sprintf("issuer: certificate %s, CRL %s", canonRDN(ca.Subject.ToRDNSequence()), canonRDN(tbs.Issuer)))
	}
	if !tbs.ThisUpdate.Equal(now) || !tbs.NextUpdate.Equal(expiry) {
		viol("crl-field-times", fmt.Sprintf("thisUpdate/nextUpdate: given %v %v, parsed %v %v", now.UTC(), expiry.UTC(), tbs.ThisUpdate, tbs.NextUpdate))
	}
	if len(tbs.RevokedCertificates) != len(revoked) {
		viol("crl-field-revoked", fmt.Sprintf("%d revoked certificates given, %d parsed", len(revoked), len(tbs.RevokedCertificates)))
	} else {
		for i, r := range revoked {
			g := tbs.RevokedCertificates[i]
			if g.SerialNumber == nil || g.SerialNumber.Cmp(r.SerialNumber) != 0 || !g.RevocationTime.Equal(r.RevocationTime) || !eqExts(g.Extensions, r.Extensions) {
				viol("crl-field-revoked", fmt.Sprintf("entry %d: given serial %v at %v with %d extensions, parsed serial %v at %v with %d extensions",
					i, r.SerialNumber, r.RevocationTime.UTC(), len(r.Extensions), g.SerialNumber, g.RevocationTime, len(g.Extensions)))
			}
		}
	}
	if err := ca.CheckCRLSignature(l); err != nil {
		viol("crl-sig-verify", fmt.Sprintf("CheckCRLSignature fails on the created CRL: %v (key %s)", err, keys[in.Key].name))
	}
}

// ---------------------------------------------------------------- v2 revocation list

func optZ(p *int) string {
	if p == nil {
		return "None"
	}
	return vh.Some(vh.Z(int64(*p)))
}

func runRL(c *vh.Ctx, in RLIn) {
	rp := Replay{Kind: "rl", RL: &in}
	ca, err := makeParent(c, *caFor(in.CA), in.Key)
	if err != nil {
		panic(err)
	}
	t := &x509.RevocationList{SignatureAlgorithm: x509.SignatureAlgorithm(in.SigAlg), Number: bigOf(in.Number),
		ThisUpdate: tm(in.This, 0), NextUpdate: tm(in.Next, -3600), ExtraExtensions: exts(in.Extra)}
	var ents []string
	for _, r := range in.Revoked {
		rc := x509.RevokedCertificate{SerialNumber: bigOf(r.Serial), RevocationTime: tm(r.Time, r.Zone), ReasonCode: r.Reason, ExtraExtensions: exts(r.Extra)}
		t.RevokedCertificates = append(t.RevokedCertificates, rc)
		ents = append(ents, vh.Pair(vh.BigZ(rc.SerialNumber), coqCivil(rc.RevocationTime), optZ(rc.ReasonCode), coqExts(rc.ExtraExtensions)))
	}
	coqIn := fmt.Sprintf("(mk_rl_input %s %s %s %s %s %s %s %s %s %s)", keys[in.Key].kind, vh.NI(nonneg(in.SigAlg)),
		coqRDNs(ca.Subject.ToRDNSequence()), coqB(ca.SubjectKeyId), vh.Bool(ca.KeyUsage&x509.KeyUsageCRLSign != 0),
		vh.BigZ(t.Number), coqCivil(t.ThisUpdate), coqCivil(t.NextUpdate), vh.List0(ents, "rl_entry"), coqExts(t.ExtraExtensions))
	nk := fmt.Sprintf("rl ca%d k%d alg%d n%d x%d %s", in.CA, in.Key, in.SigAlg, len(in.Revoked), len(in.Extra), in.Why)
	for _, r := range in.Revoked {
		if r.Reason != nil {
			nk += fmt.Sprintf(" r%d", *r.Reason)
		}
		nk += fmt.Sprintf("e%d", len(r.Extra))
	}
	viol := func(key, desc string) { c.Violation(key, desc, "vcase", rp) }

	var der []byte
	if p := guard(func() { der, err = x509.CreateRevocationList(c, t, ca, keys[in.Key].priv) }); p != nil {
		viol("rl-create-panic", fmt.Sprintf("CreateRevocationList panicked: %v", p))
		return
	}
	if err != nil {
		if in.InDomain {
			viol("rl-create-error", "CreateRevocationList refused an in-domain template: "+err.Error())
		}
		c.Stat("rl_create_errors", 1)
		c.Case("vcase", vh.Pair(coqIn, "None", "None"), rp, nk)
		return
	}
	cr, ok := created(der)
	if !ok {
		viol("rl-not-der", "created revocation list is not one DER SEQUENCE of three elements")
		return
	}
	var rl *x509.RevocationList
	if p := guard(func() { rl, err = x509.ParseRevocationList(der) }); p != nil {
		viol("rl-parse-panic", fmt.Sprintf("ParseRevocationList panicked on a created list: %v", p))
		return
	}
	if err != nil {
		if in.InDomain {
			viol("rl-parse-error", "ParseRevocationList rejects the list CreateRevocationList made: "+err.Error())
		}
		c.Stat("rl_parse_errors", 1)
		c.Case("vcase", vh.Pair(coqIn, cr, "None"), rp, nk)
		return
	}
	var pents []string
	for _, r := range rl.RevokedCertificates {
		pents = append(pents, vh.Pair(vh.BigZ(r.SerialNumber), coqCivil(r.RevocationTime), optZ(r.ReasonCode), coqExts(r.Extensions)))
	}
	next, num := "None", "None"
	if !rl.NextUpdate.IsZero() {
		next = vh.Some(coqCivil(rl.NextUpdate))
	}
	if rl.Number != nil {
		num = vh.Some(vh.BigZ(rl.Number))
	}
	fields := fmt.Sprintf("(mk_rl_fields %s %s %s %s %s %s %s %s)", vh.NI(int(rl.SignatureAlgorithm)), coqRDNs(rl.Issuer.OriginalRDNS),
		coqCivil(rl.ThisUpdate), next, vh.List0(pents, "rl_pentry"), num, coqB(rl.AuthorityKeyId), coqExts(rl.Extensions))
	c.Case("vcase", vh.Pair(coqIn, cr, vh.Some(fields)), rp, nk)
	if !in.InDomain {
		return
	}
	// the property on the implementation
	for _, d := range compareName("rl-issuer", ca.Subject, rl.Issuer) {
		viol(d[0], d[1])
	}
	if !bytes.Equal(rl.RawIssuer, ca.RawSubject) {
		viol("rl-field-rl-issuer", "RawIssuer differs from the issuer certificate's RawSubject")
	}
	if !rl.ThisUpdate.Equal(t.ThisUpdate) || !rl.NextUpdate.Equal(t.NextUpdate) {
		viol("rl-field-times", fmt.Sprintf("thisUpdate/nextUpdate: template %v %v, parsed %v %v", t.ThisUpdate.UTC(), t.NextUpdate.UTC(), rl.ThisUpdate, rl.NextUpdate))
	}
	if rl.Number == nil || rl.Number.Cmp(t.Number) != 0 {
		viol("rl-field-number", fmt.Sprintf("CRL number: template %v, parsed %v", t.Number, rl.Number))
	}
	if !bytes.Equal(rl.AuthorityKeyId, ca.SubjectKeyId) {
		viol("rl-field-aki", fmt.Sprintf("authority key id: issuer's subject key id %x, parsed %x", ca.SubjectKeyId, rl.AuthorityKeyId))
	}
	wantAlg := t.SignatureAlgorithm
	if wantAlg == 0 {
		wantAlg = defaultSigAlg(keys[in.Key].priv.Public())
	}
	if rl.SignatureAlgorithm != wantAlg {
		viol("rl-field-sigalg", fmt.Sprintf("signature algorithm: requested %v, parsed %v", wantAlg, rl.SignatureAlgorithm))
	}
	if len(rl.RevokedCertificates) != len(t.RevokedCertificates) {
		viol("rl-field-revoked", fmt.Sprintf("%d revoked certificates in the template, %d parsed", len(t.RevokedCertificates), len(rl.RevokedCertificates)))
	} else {
		for i, r := range t.RevokedCertificates {
			g := rl.RevokedCertificates[i]
			if g.SerialNumber == nil || g.SerialNumber.Cmp(r.SerialNumber) != 0 || !g.RevocationTime.Equal(r.RevocationTime) {
				viol("rl-field-revoked", fmt.Sprintf("entry %d: template serial %v at %v, parsed serial %v at %v", i, r.SerialNumber, r.RevocationTime.UTC(), g.SerialNumber, g.RevocationTime))
			}
			// reason code: nil or zero -> no extension, parsed nil; otherwise the same code
			switch {
			case r.ReasonCode == nil || *r.ReasonCode == 0:
				if g.ReasonCode != nil {
					viol("rl-field-reason", fmt.Sprintf("entry %d: no reason code in the template (nil or 0), parsed %d", i, *g.ReasonCode))
				}
			default:
				if g.ReasonCode == nil || *g.ReasonCode != *r.ReasonCode {
					viol("rl-field-reason", fmt.Sprintf("entry %d: template reason %d, parsed %v", i, *r.ReasonCode, optZ(g.ReasonCode)))
				}
			}
			// extensions: the extra ones except any reasonCode, then the synthesised reasonCode
			var want []pkix.Extension
			for _, e := range r.ExtraExtensions {
				if !e.Id.Equal(asn1.ObjectIdentifier{2, 5, 29, 21}) {
					want = append(want, e)
				}
			}
			nreason := 0
			for _, e := range g.Extensions {
				if e.Id.Equal(asn1.ObjectIdentifier{2, 5, 29, 21}) {
					nreason++
				}
			}
			wantReason := 0
			if r.ReasonCode != nil && *r.ReasonCode != 0 {
				wantReason = 1
			}
			if nreason != wantReason || len(g.Extensions) != len(want)+wantReason || !eqExts(g.Extensions[:len(want)], want) {
				viol("rl-field-entry-extensions", fmt.Sprintf("entry %d: template extra extensions %+v reason %v, parsed extensions %+v", i, r.ExtraExtensions, optZ(r.ReasonCode), g.Extensions))
			}
		}
	}
	if len(rl.Extensions) != 2+len(t.ExtraExtensions) || !eqExts(rl.Extensions[2:], t.ExtraExtensions) {
		viol("rl-field-extensions", fmt.Sprintf("extra extensions not reproduced after authorityKeyIdentifier and cRLNumber: template %+v, parsed %+v", t.ExtraExtensions, rl.Extensions))
	}
	if err := rl.CheckSignatureFrom(ca); err != nil {
		viol("rl-sig-verify", fmt.Sprintf("CheckSignatureFrom(issuer) fails on the created list: %v (key %s, algorithm %v)", err, keys[in.Key].name, rl.SignatureAlgorithm))
	}
	// the legacy reader sees the same list
	if l, err := x509.ParseCRL(der); err != nil {
		viol("rl-legacy-parse", "ParseCRL rejects the list CreateRevocationList made: "+err.Error())
	} else {
		if len(l.TBSCertList.RevokedCertificates) != len(t.RevokedCertificates) {
			viol("rl-legacy-parse", "ParseCRL and ParseRevocationList disagree on the number of entries")
		}
		if err := ca.CheckCRLSignature(l); err != nil {
			viol("rl-legacy-sig", fmt.Sprintf("CheckCRLSignature fails on the created list: %v", err))
		}
	}
}

func replay(c *vh.Ctx, raw json.RawMessage) {
	var r Replay
	if err := json.Unmarshal(raw, &r); err != nil {
		panic(err)
	}
	switch r.Kind {
	case "csr":
		runCSR(c, *r.CSR)
	case "crl":
		runCRL(c, *r.CRL)
	case "rl":
		runRL(c, *r.RL)
	default:
		panic("unknown replay kind " + r.Kind)
	}
}

var _ = hex.EncodeToString

func main() {
	loadKeys()
	vh.Main("C05", func(c *vh.Ctx) {
		if c.Tables {
			writeTables(c)
			return
		}
		gen(c)
	}, replay)
}
