package main

import (
	"encoding/hex"
	"fmt"
	"strings"

	"github.com/zmap/zcrypto/x509"
	"verifharness/vh"
)

var timePool = []int64{
	ut(1950, 1, 1, 0, 0, 0), ut(1949, 12, 31, 23, 59, 59), ut(2049, 12, 31, 23, 59, 59), ut(2050, 1, 1, 0, 0, 0),
	ut(2000, 2, 29, 12, 0, 0), ut(2024, 2, 29, 23, 59, 59), ut(1970, 1, 1, 0, 0, 0), ut(2038, 1, 19, 3, 14, 8),
	ut(9999, 12, 31, 23, 59, 59), ut(1, 1, 1, 0, 0, 0), ut(2100, 2, 28, 23, 59, 59), ut(2026, 9, 22, 10, 20, 30),
}

var serialPool = []string{"0", "1", "127", "128", "255", "256", "65535", "9223372036854775807", "9223372036854775808",
	"18446744073709551616", "1461501637330902918203684832716283019655932542975", "-1", "-129"}

var strPool = []string{"example.com", "a", "", "Example Org", "*.wild.example", "x&y", "Ünïcödé ✓", "under_score", "user@example.org",
	"US", "Space  end ", "'()+,-./:=?", "日本語", strings.Repeat("l", 127), strings.Repeat("m", 128)}

var oidPool = [][]int{{1, 2, 3, 4}, {1, 3, 6, 1, 4, 1, 99999, 7}, {2, 5, 29, 99}, {2, 999, 3}, {0, 9, 2342, 19200300, 100, 1, 25},
	{1, 2, 268435455}, {2, 5, 29, 24}, {2, 5, 29, 23}}

var v4 = "0a010203"
var v4in6 = "00000000000000000000ffff0a010203"
var v6 = "20010db8000000000000000000000001"

func pickStr(c *vh.Ctx) string { return strPool[c.Intn(len(strPool))] }
func someStrs(c *vh.Ctx, max int) []string {
	var o []string
	for i := c.Intn(max + 1); i > 0; i-- {
		o = append(o, pickStr(c))
	}
	return o
}

func randName(c *vh.Ctx) Name {
	switch c.Intn(6) {
	case 0:
		return Name{}
	case 1:
		return Name{CN: pickStr(c)}
	case 2:
		return Name{CN: "multi", O: []string{"b org", "a org", "c org"}, OU: []string{"zz", "aa"}, C: []string{"US", "DE"}}
	}
	n := Name{CN: pickStr(c), C: someStrs(c, 2), O: someStrs(c, 2), OU: someStrs(c, 2)}
	if c.Bool() {
		n.Serial = pickStr(c)
	}
	if c.Intn(3) == 0 {
		n.L, n.ST, n.DC, n.Email = someStrs(c, 1), someStrs(c, 1), someStrs(c, 2), someStrs(c, 1)
	}
	if c.Intn(5) == 0 {
		n.Extra = append(n.Extra, ExtraATV{OID: oidPool[c.Intn(5)], Value: pickStr(c)})
	}
	return n
}

func randExt(c *vh.Ctx) Ext {
	return Ext{OID: oidPool[c.Intn(len(oidPool))], Critical: c.Bool(), Value: hex.EncodeToString(c.Bytes(c.Intn(24)))}
}

func distinctExts(c *vh.Ctx, n int) []Ext {
	seen := map[string]bool{}
	var o []Ext
	for i := 0; i < n; i++ {
		e := randExt(c)
		if !seen[fmt.Sprint(e.OID)] {
			seen[fmt.Sprint(e.OID)] = true
			o = append(o, e)
		}
	}
	return o
}

func algsFor(key int) []int {
	switch {
	case key <= kRSA1024:
		a := []int{0, int(x509.MD5WithRSA), int(x509.SHA1WithRSA), int(x509.SHA256WithRSA), int(x509.SHA384WithRSA), int(x509.SHA512WithRSA),
			int(x509.SHA256WithRSAPSS), int(x509.SHA384WithRSAPSS)}
		if key != kRSA1024 {
			a = append(a, int(x509.SHA512WithRSAPSS))
		}
		return a
	case key <= kP521:
		return []int{0, int(x509.ECDSAWithSHA1), int(x509.ECDSAWithSHA256), int(x509.ECDSAWithSHA384), int(x509.ECDSAWithSHA512)}
	default:
		return []int{0, int(x509.Ed25519Sig)}
	}
}

func canSign(key, alg int) bool {
	for _, a := range algsFor(key) {
		if a == alg {
			return true
		}
	}
	return false
}

func ip(n int) *int { return &n }

var signers = []int{kRSA0, kRSA1024, kP224, kP256, kP384, kP521, kEd0}
var allAlgs = []int{0, 1, 2, 3, 4, 5, 6, 7, 8, 9, 10, 11, 12, 13, 14, 15, 16, 17, 99}

func gen(c *vh.Ctx) {
	genCSR(c)
	genCRL(c)
	genRL(c)
}

func genCSR(c *vh.Ctx) {
	ok := func(in CSRIn) { in.InDomain = true; runCSR(c, in) }
	ood := func(in CSRIn, why string) { in.Why = why; runCSR(c, in) }
	// key types x requested algorithms
	for _, k := range signers {
		for _, alg := range allAlgs {
			if k == kRSA1024 && alg == int(x509.SHA512WithRSAPSS) {
				continue // the modulus is too short for SHA-512 PSS with a 64-byte salt (key size is not in the model)
			}
			in := CSRIn{Key: k, SigAlg: alg, Subject: Name{CN: "req"}, DNS: []string{"csr.example"}}
			if canSign(k, alg) {
				ok(in)
			} else {
				ood(in, "algorithm-key-mismatch")
			}
		}
	}
	c.Exhaustive("CSR: signer key in {RSA-2048, RSA-1024, P-224, P-256, P-384, P-521, Ed25519} x requested SignatureAlgorithm in {0..17, 99}")
	// SAN grid
	for _, dns := range [][]string{nil, {"a.example"}, {"a.example", "*.b.example", ""}} {
		for _, em := range [][]string{nil, {"x@example.org"}} {
			for _, ips := range [][]string{nil, {v4}, {v4in6}, {v6, v4, v4in6}} {
				ok(CSRIn{Key: kEd0, Subject: Name{CN: "san"}, DNS: dns, Emails: em, IPs: ips})
			}
		}
	}
	for _, bad := range []string{"", "0a", "0a01020304", "00000000000000000000ffff0a0102"} {
		ood(CSRIn{Key: kEd0, Subject: Name{CN: "badip"}, IPs: []string{v4, bad}}, "san-ip-length")
	}
	// subjects
	for _, s := range strPool {
		ok(CSRIn{Key: kP256, Subject: Name{CN: s, O: []string{s, "b", "a"}}})
	}
	for i := 0; i < 20; i++ {
		ok(CSRIn{Key: kEd0, Subject: randName(c)})
	}
	// extra extensions: none / one / several, critical and not, with and without generated SAN
	for i := 0; i < 24; i++ {
		in := CSRIn{Key: kEd0, Subject: Name{CN: "ext"}, Extra: distinctExts(c, 1+i%3)}
		if i%2 == 0 {
			in.DNS = []string{"with-san.example"}
		}
		ok(in)
	}
	ok(CSRIn{Key: kEd0, Subject: Name{CN: "crit"}, Extra: []Ext{{OID: []int{1, 2, 3, 4}, Critical: true, Value: "0500"}}})
	// an extra extension with the SAN OID replaces the generated SAN: the SANs then come from it
	{
		donor := "300f820d646f6e6f722e6578616d706c65" // SEQUENCE { [2] "donor.example" }
		in := CSRIn{Key: kEd0, Subject: Name{CN: "override"}, DNS: []string{"own.example"}, Extra: []Ext{{OID: []int{2, 5, 29, 17}, Value: donor}}}
		ood(in, "san-override")
		ood(CSRIn{Key: kEd0, Subject: Name{CN: "badsan"}, Extra: []Ext{{OID: []int{2, 5, 29, 17}, Value: "0500"}}}, "malformed-san")
		ood(CSRIn{Key: kEd0, Subject: Name{CN: "trail"}, Extra: []Ext{{OID: []int{2, 5, 29, 17}, Value: donor + "00"}}}, "san-trailing-data")
	}
	for _, o := range [][]int{{1}, {3, 1}, {1, 40}, {1, 2, 2147483648}} {
		ood(CSRIn{Key: kEd0, Subject: Name{CN: "badoid"}, Extra: []Ext{{OID: o, Value: "00"}}}, "invalid-oid")
	}
	n := 60
	if c.Thorough {
		n = 3000
	}
	for i := 0; i < n; i++ {
		k := signers[c.Intn(len(signers))]
		as := algsFor(k)
		in := CSRIn{Key: k, SigAlg: as[c.Intn(len(as))], Subject: randName(c)}
		if c.Bool() {
			in.DNS, in.Emails = someStrs(c, 2), someStrs(c, 2)
			for j := c.Intn(3); j > 0; j-- {
				in.IPs = append(in.IPs, []string{v4, v4in6, v6}[c.Intn(3)])
			}
		}
		if c.Intn(3) == 0 {
			in.Extra = distinctExts(c, 1+c.Intn(3))
		}
		ok(in)
	}
}

func randRevoked(c *vh.Ctx, n int, v2 bool) []Revoked {
	var o []Revoked
	for i := 0; i < n; i++ {
		r := Revoked{Serial: serialPool[c.Intn(len(serialPool)-2)], Time: timePool[c.Intn(len(timePool))]}
		if c.Intn(3) == 0 {
			r.Zone = []int{3600, -7200, 19800}[c.Intn(3)]
			if r.Time == ut(9999, 12, 31, 23, 59, 59) || r.Time == ut(1, 1, 1, 0, 0, 0) {
				r.Zone = 0
			}
		}
		if c.Intn(3) == 0 {
			r.Extra = distinctExts(c, 1+c.Intn(2))
		}
		if v2 {
			switch c.Intn(4) {
			case 0:
				r.Reason = ip(0)
			case 1:
				r.Reason = ip(1 + c.Intn(10))
			}
		}
		o = append(o, r)
	}
	return o
}

func genCRL(c *vh.Ctx) {
	ok := func(in CRLIn) { in.InDomain = true; runCRL(c, in) }
	// every key type (the legacy API always uses the key's default algorithm) x CA shapes x 0/1/many entries
	for _, k := range signers {
		for _, ca := range []int{0, 1, 2, 5} {
			for _, n := range []int{0, 1, 3} {
				ok(CRLIn{CA: ca, Key: k, Now: ut(2026, 1, 2, 3, 4, 5), Expiry: ut(2026, 2, 2, 3, 4, 5), Revoked: randRevoked(c, n, false)})
			}
		}
	}
	c.Exhaustive("legacy CRL: key in {RSA-2048, RSA-1024, P-224, P-256, P-384, P-521, Ed25519} x CA {no SKI, SKI, UTF-8 multi-valued name, empty name + 130-byte SKI} x {0,1,3} entries")
	for _, s := range serialPool {
		ok(CRLIn{CA: 1, Key: kEd0, Now: ut(2026, 1, 2, 3, 4, 5), Expiry: ut(2026, 2, 2, 3, 4, 5), Revoked: []Revoked{{Serial: s, Time: ut(2025, 5, 5, 5, 5, 5)}}})
	}
	for i, t := range timePool {
		in := CRLIn{CA: 1, Key: kP256, Now: t, Expiry: timePool[(i+3)%len(timePool)], Revoked: []Revoked{{Serial: "7", Time: timePool[(i+5)%len(timePool)]}}}
		ok(in)
	}
	n := 40
	if c.Thorough {
		n = 2000
	}
	for i := 0; i < n; i++ {
		ok(CRLIn{CA: []int{0, 1, 2, 5}[c.Intn(4)], Key: signers[c.Intn(len(signers))], Now: timePool[c.Intn(len(timePool))],
			Expiry: timePool[c.Intn(len(timePool))], Revoked: randRevoked(c, c.Intn(5), false)})
	}
}

func genRL(c *vh.Ctx) {
	ok := func(in RLIn) { in.InDomain = true; runRL(c, in) }
	ood := func(in RLIn, why string) { in.Why = why; runRL(c, in) }
	base := func() RLIn {
		return RLIn{CA: 1, Key: kEd0, Number: "5", This: ut(2026, 1, 2, 3, 4, 5), Next: ut(2026, 2, 2, 3, 4, 5)}
	}
	// key types x requested algorithms
	for _, k := range signers {
		for _, alg := range allAlgs {
			if k == kRSA1024 && alg == int(x509.SHA512WithRSAPSS) {
				continue
			}
			in := base()
			in.Key, in.SigAlg = k, alg
			in.Revoked = []Revoked{{Serial: "2", Time: ut(2025, 12, 1, 0, 0, 0), Reason: ip(1)}}
			if canSign(k, alg) {
				ok(in)
			} else {
				ood(in, "algorithm-key-mismatch")
			}
		}
	}
	c.Exhaustive("revocation list: signer key in {RSA-2048, RSA-1024, P-224, P-256, P-384, P-521, Ed25519} x requested SignatureAlgorithm in {0..17, 99}")
	// reason codes: nil, 0..10 and beyond; with and without a user-supplied reasonCode extension (which is replaced)
	userReason := Ext{OID: []int{2, 5, 29, 21}, Value: "0a0105"} // ENUMERATED 5
	other := Ext{OID: []int{2, 5, 29, 24}, Value: "180f32303235303130313030303030305a"}
	for r := -1; r <= 12; r++ {
		for variant := 0; variant < 4; variant++ {
			in := base()
			e := Revoked{Serial: "77", Time: ut(2025, 6, 7, 8, 9, 10)}
			if r >= 0 {
				e.Reason = ip(r)
			}
			switch variant {
			case 1:
				e.Extra = []Ext{userReason}
			case 2:
				e.Extra = []Ext{other, userReason}
			case 3:
				e.Extra = []Ext{userReason, other, {OID: []int{2, 5, 29, 21}, Critical: true, Value: "0a0101"}}
			}
			in.Revoked = []Revoked{e, {Serial: "78", Time: ut(2025, 6, 7, 8, 9, 11)}}
			ok(in)
		}
	}
	c.Exhaustive("revocation list reason codes: nil and 0..12 x {no extra extensions, a user reasonCode, another extension + a user reasonCode, two user reasonCodes around another extension}")
	{
		in := base()
		in.Revoked = []Revoked{{Serial: "9", Time: ut(2025, 1, 1, 0, 0, 0), Reason: ip(-1)}, {Serial: "10", Time: ut(2025, 1, 1, 0, 0, 0), Reason: ip(300)}}
		ok(in)
	}
	// CRL numbers: boundaries of the 20-octet rule
	for _, num := range []string{"0", "1", "127", "128", "255", "256", "18446744073709551616",
		"730750818665451459101842416358141509827966271487",    // 2^159-1: 20 octets, top bit clear
		"730750818665451459101842416358141509827966271488",    // 2^159: 20 octets, top bit set -> refused
		"1461501637330902918203684832716283019655932542976"} { // 2^160: 21 octets -> refused
		in := base()
		in.Number = num
		if len(num) >= 48 && num != "730750818665451459101842416358141509827966271487" {
			ood(in, "number-too-long")
		} else {
			ok(in)
		}
	}
	// issuer preconditions
	for _, ca := range []int{0, 3, 4} {
		in := base()
		in.CA = ca
		ood(in, "issuer-not-a-crl-signer")
	}
	for _, ca := range []int{2, 5} {
		in := base()
		in.CA = ca
		in.Revoked = randRevoked(c, 2, true)
		ok(in)
	}
	{
		in := base()
		in.This, in.Next = ut(2026, 2, 2, 3, 4, 5), ut(2026, 1, 2, 3, 4, 5)
		ood(in, "next-before-this")
		in.Next = in.This
		ok(in)
	}
	// times and serials
	for i, t := range timePool {
		in := base()
		in.This, in.Next = t, t
		for _, u := range timePool {
			if u > t {
				in.Next = u
				break
			}
		}
		in.Revoked = []Revoked{{Serial: serialPool[i%len(serialPool)], Time: timePool[(i+5)%len(timePool)], Reason: ip(i % 11)}}
		ok(in)
	}
	// extra list extensions
	for i := 0; i < 12; i++ {
		in := base()
		in.Extra = distinctExts(c, 1+i%3)
		in.Revoked = randRevoked(c, i%3, true)
		ok(in)
	}
	{
		in := base()
		in.Extra = []Ext{{OID: []int{1, 2, 268435456}, Value: "00"}} // accepted by the writer, refused by the cryptobyte OID reader
		ood(in, "oid-arc-over-2^28")
		in.Extra = []Ext{{OID: []int{1}, Value: "00"}}
		ood(in, "invalid-oid")
	}
	n := 60
	if c.Thorough {
		n = 3000
	}
	for i := 0; i < n; i++ {
		k := signers[c.Intn(len(signers))]
		as := algsFor(k)
		in := RLIn{CA: []int{1, 2, 5}[c.Intn(3)], Key: k, SigAlg: as[c.Intn(len(as))], Number: serialPool[c.Intn(len(serialPool)-3)]}
		a, b := timePool[c.Intn(len(timePool))], timePool[c.Intn(len(timePool))]
		if a > b {
			a, b = b, a
		}
		in.This, in.Next = a, b
		in.Revoked = randRevoked(c, c.Intn(5), true)
		if c.Intn(3) == 0 {
			in.Extra = distinctExts(c, 1+c.Intn(2))
		}
		ok(in)
	}
}
