package main

// the regenerated tables are those of C04 (the C05 model imports model/C04.v): same generator, same file
import (
	"fmt"
	"strings"

	"github.com/zmap/zcrypto/x509"
	"verifharness/vh"
)

func coqRow(r x509.VerifC04SigAlg) string {
	return vh.Pair(vh.NI(r.Algo), coqOID(r.OID), vh.NI(r.PubKeyAlgo), vh.NI(r.Hash), vh.Bool(r.IsPSS), vh.Bytes(r.PSSParams))
}

func writeTables(c *vh.Ctx) {
	var sb strings.Builder
	sb.WriteString("(* C04_gen.v — regenerated on every run from the built x509 package (verif hook verif_c04.go):\n" +
		"   signatureAlgorithmDetails, oidFromExtKeyUsage over all constants, the parser's OID -> constant map. *)\n" +
		"From Coq Require Import List NArith Bool.\nImport ListNotations.\nLocal Open Scope N_scope.\n\n")
	var rows []string
	for _, r := range x509.VerifC04SigAlgTable() {
		rows = append(rows, coqRow(r))
	}
	sb.WriteString("Definition sigalg_table : list (N * list N * N * N * bool * list N) :=\n  [" + strings.Join(rows, ";\n   ") + "].\n\n")
	var b []string
	for _, e := range x509.VerifC04EKUBuildTable(4096) {
		b = append(b, vh.Pair(vh.NI(e.EKU), coqOID(e.OID)))
	}
	sb.WriteString("Definition eku_build_table : list (N * list N) :=\n  [" + strings.Join(b, ";\n   ") + "].\n\n")
	var p []string
	for _, e := range x509.VerifC04EKUParseTable() {
		p = append(p, vh.Pair(coqOID(e.OID), vh.NI(e.EKU)))
	}
	sb.WriteString("Definition eku_parse_table : list (list N * N) :=\n  [" + strings.Join(p, ";\n   ") + "].\n\n")
	sb.WriteString(fmt.Sprintf("(* SHA256WithRSAPSS, SHA384WithRSAPSS, SHA512WithRSAPSS *)\nDefinition pss_algos : N * N * N := (%d, %d, %d).\n",
		int(x509.SHA256WithRSAPSS), int(x509.SHA384WithRSAPSS), int(x509.SHA512WithRSAPSS)))
	var sp []string
	for _, k := range keys {
		sp = append(sp, vh.Bytes(mustSPKI(k.priv.Public())))
	}
	sb.WriteString("\n(* SubjectPublicKeyInfo of each key of the harness's fixed pool *)\nDefinition spki_table : list (list N) :=\n  [" + strings.Join(sp, ";\n   ") + "].\n")
	c.WriteGen("C04_gen.v", sb.String())
}
