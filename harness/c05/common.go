// Shared helpers of the C05 harness (a copy of the corresponding parts of harness/c04/main.go: the
// replayable template types, the fixed key pool, Coq term printers, CA certificate construction).
package main

import (
	"crypto"
	"crypto/ecdsa"
	"encoding/json"
	"fmt"
	"math/big"
	"net"
	"sort"
	"strings"
	"time"

	"golang.org/x/crypto/ed25519"

	"github.com/zmap/zcrypto/encoding/asn1"
	"github.com/zmap/zcrypto/rsa"
	"github.com/zmap/zcrypto/x509"
	"github.com/zmap/zcrypto/x509/pkix"
	"verifharness/vh"
)

// ---------------------------------------------------------------- replayable input

type Name struct {
	CN     string     `json:"cn,omitempty"`
	Serial string     `json:"serial,omitempty"`
	C      []string   `json:"c,omitempty"`
	O      []string   `json:"o,omitempty"`
	OU     []string   `json:"ou,omitempty"`
	L      []string   `json:"l,omitempty"`
	ST     []string   `json:"st,omitempty"`
	Street []string   `json:"street,omitempty"`
	Postal []string   `json:"postal,omitempty"`
	DC     []string   `json:"dc,omitempty"`
	Email  []string   `json:"email,omitempty"`
	OrgID  []string   `json:"orgid,omitempty"`
	JL     []string   `json:"jl,omitempty"`
	JST    []string   `json:"jst,omitempty"`
	JC     []string   `json:"jc,omitempty"`
	Extra  []ExtraATV `json:"extra,omitempty"`
}
type ExtraATV struct {
	OID   []int  `json:"oid"`
	Value string `json:"value"`
}
type IPNet struct {
	IP   string `json:"ip"`   // hex
	Mask string `json:"mask"` // hex
}
type NCSet struct {
	Emails []string `json:"emails,omitempty"`
	DNS    []string `json:"dns,omitempty"`
	Dirs   []Name   `json:"dirs,omitempty"`
	IPs    []IPNet  `json:"ips,omitempty"`
}
type Ext struct {
	OID      []int  `json:"oid"`
	Critical bool   `json:"critical"`
	Value    string `json:"value"` // hex
}
type Tmpl struct {
	Serial     string   `json:"serial"` // decimal
	SigAlg     int      `json:"sigalg"`
	NotBefore  int64    `json:"nb"` // unix seconds (UTC)
	NotAfter   int64    `json:"na"`
	NBNanos    int      `json:"nb_ns,omitempty"` // sub-second part, must be dropped by issuance
	Subject    Name     `json:"subject"`
	KU         int      `json:"ku"`
	EKU        []int    `json:"eku,omitempty"`
	UnknownEKU [][]int  `json:"ueku,omitempty"`
	BCValid    bool     `json:"bcvalid"`
	IsCA       bool     `json:"isca"`
	MaxPathLen int      `json:"mpl"`
	MPLZero    bool     `json:"mplzero"`
	SKI        string   `json:"ski,omitempty"`
	AKI        string   `json:"aki,omitempty"`
	OCSP       []string `json:"ocsp,omitempty"`
	Issuing    []string `json:"issuing,omitempty"`
	DNS        []string `json:"dns,omitempty"`
	Emails     []string `json:"emails,omitempty"`
	IPs        []string `json:"ips,omitempty"` // hex
	Policies   [][]int  `json:"policies,omitempty"`
	NCCritical bool     `json:"nccrit"`
	Perm       NCSet    `json:"perm"`
	Excl       NCSet    `json:"excl"`
	CRLDP      []string `json:"crldp,omitempty"`
	Extra      []Ext    `json:"extra,omitempty"`
}
type keyT struct {
	name string
	priv crypto.Signer
	kind string // Coq keykind term
}

var keys []keyT

func loadKeys() {
	for _, k := range keyPool {
		p, err := x509.ParsePKCS8PrivateKey(vh.UnHex(k.pkcs8))
		if err != nil {
			panic(err)
		}
		var kind string
		switch pk := p.(type) {
		case *rsa.PrivateKey:
			kind = "KRSA"
		case *ecdsa.PrivateKey:
			kind = fmt.Sprintf("(KEC %d%%N)", pk.Curve.Params().BitSize)
		case ed25519.PrivateKey:
			kind = "KEd"
		default:
			panic("key type")
		}
		keys = append(keys, keyT{k.name, p.(crypto.Signer), kind})
	}
}

const (
	kRSA0 = iota
	kRSA1
	kRSA1024
	kP224
	kP256
	kP384
	kP521
	kEd0
	kEd1
)

// ---------------------------------------------------------------- conversion to the library's types

func (n Name) pkix() pkix.Name {
	p := pkix.Name{CommonName: n.CN, SerialNumber: n.Serial, Country: n.C, Organization: n.O, OrganizationalUnit: n.OU,
		Locality: n.L, Province: n.ST, StreetAddress: n.Street, PostalCode: n.Postal, DomainComponent: n.DC,
		EmailAddress: n.Email, OrganizationIDs: n.OrgID, JurisdictionLocality: n.JL, JurisdictionProvince: n.JST,
		JurisdictionCountry: n.JC}
	for _, e := range n.Extra {
		p.ExtraNames = append(p.ExtraNames, pkix.AttributeTypeAndValue{Type: e.OID, Value: e.Value})
	}
	return p
}

func oids(l [][]int) []asn1.ObjectIdentifier {
	var o []asn1.ObjectIdentifier
	for _, x := range l {
		o = append(o, asn1.ObjectIdentifier(x))
	}
	return o
}

func (s NCSet) fill(emails, dns *[]x509.GeneralSubtreeString, dirs *[]x509.GeneralSubtreeName, ips *[]x509.GeneralSubtreeIP) {
	for _, e := range s.Emails {
		*emails = append(*emails, x509.GeneralSubtreeString{Data: e})
	}
	for _, e := range s.DNS {
		*dns = append(*dns, x509.GeneralSubtreeString{Data: e})
	}
	for _, e := range s.Dirs {
		*dirs = append(*dirs, x509.GeneralSubtreeName{Data: e.pkix()})
	}
	for _, e := range s.IPs {
		*ips = append(*ips, x509.GeneralSubtreeIP{Data: net.IPNet{IP: vh.UnHex(e.IP), Mask: vh.UnHex(e.Mask)}})
	}
}

func (t Tmpl) cert() *x509.Certificate {
	ser, _ := new(big.Int).SetString(t.Serial, 10)
	c := &x509.Certificate{
		SerialNumber: ser, SignatureAlgorithm: x509.SignatureAlgorithm(t.SigAlg),
		NotBefore: time.Unix(t.NotBefore, int64(t.NBNanos)), NotAfter: time.Unix(t.NotAfter, 0).In(time.FixedZone("x", 3600*5)),
		Subject: t.Subject.pkix(), KeyUsage: x509.KeyUsage(t.KU),
		UnknownExtKeyUsage: oids(t.UnknownEKU), BasicConstraintsValid: t.BCValid, IsCA: t.IsCA,
		MaxPathLen: t.MaxPathLen, MaxPathLenZero: t.MPLZero, SubjectKeyId: vh.UnHex(t.SKI), AuthorityKeyId: vh.UnHex(t.AKI),
		OCSPServer: t.OCSP, IssuingCertificateURL: t.Issuing, DNSNames: t.DNS, EmailAddresses: t.Emails,
		PolicyIdentifiers: oids(t.Policies), NameConstraintsCritical: t.NCCritical, CRLDistributionPoints: t.CRLDP,
	}
	for _, e := range t.EKU {
		c.ExtKeyUsage = append(c.ExtKeyUsage, x509.ExtKeyUsage(e))
	}
	for _, ip := range t.IPs {
		c.IPAddresses = append(c.IPAddresses, net.IP(vh.UnHex(ip)))
	}
	t.Perm.fill(&c.PermittedEmailAddresses, &c.PermittedDNSNames, &c.PermittedDirectoryNames, &c.PermittedIPAddresses)
	t.Excl.fill(&c.ExcludedEmailAddresses, &c.ExcludedDNSNames, &c.ExcludedDirectoryNames, &c.ExcludedIPAddresses)
	for _, e := range t.Extra {
		c.ExtraExtensions = append(c.ExtraExtensions, pkix.Extension{Id: e.OID, Critical: e.Critical, Value: vh.UnHex(e.Value)})
	}
	return c
}

// ---------------------------------------------------------------- Coq printers

func coqOID(o []int) string {
	if len(o) == 0 {
		return "(@nil N)"
	}
	xs := make([]string, len(o))
	for i, v := range o {
		xs[i] = fmt.Sprint(v)
	}
	return "[" + strings.Join(xs, ";") + "]%N"
}
func coqB(b []byte) string {
	if len(b) == 0 {
		return "en"
	}
	return vh.Bytes(b)
}
func list0(xs []string, empty string) string {
	if len(xs) == 0 {
		return empty
	}
	return vh.List(xs)
}
func coqBytesList(l [][]byte) string {
	xs := make([]string, len(l))
	for i, b := range l {
		xs[i] = coqB(b)
	}
	return list0(xs, "eB")
}
func coqStrs(l []string) string {
	b := make([][]byte, len(l))
	for i, s := range l {
		b[i] = []byte(s)
	}
	return coqBytesList(b)
}
func coqOIDs(l [][]int) string {
	xs := make([]string, len(l))
	for i, o := range l {
		xs[i] = coqOID(o)
	}
	return list0(xs, "eO")
}
func coqRDNs(r pkix.RDNSequence) string {
	rs := make([]string, len(r))
	for i, rdn := range r {
		as := make([]string, len(rdn))
		for j, a := range rdn {
			s, ok := a.Value.(string)
			if !ok {
				s = fmt.Sprintf("\x00non-string:%v", a.Value)
			}
			as[j] = vh.Pair(coqOID(a.Type), coqB([]byte(s)))
		}
		rs[i] = vh.List0(as, "atv")
	}
	return vh.List0(rs, "rdn")
}
func coqCivil(t time.Time) string {
	t = t.UTC()
	y := t.Year()
	if y < 0 {
		y = 0
	}
	return fmt.Sprintf("(Build_civil %d%%N %d%%N %d%%N %d%%N %d%%N %d%%N)", y, int(t.Month()), t.Day(), t.Hour(), t.Minute(), t.Second())
}
func coqExts(l []pkix.Extension) string {
	xs := make([]string, len(l))
	for i, e := range l {
		xs[i] = vh.Pair(coqOID(e.Id), vh.Bool(e.Critical), coqB(e.Value))
	}
	return list0(xs, "eX")
}
func coqInts(l []int) string {
	xs := make([]string, len(l))
	for i, v := range l {
		if v < 0 {
			v = 4294967295 // not a constant: the model's lookup fails like the implementation's
		}
		xs[i] = vh.NI(v)
	}
	return list0(xs, "eN")
}
func oidInts(l []asn1.ObjectIdentifier) [][]int {
	o := make([][]int, len(l))
	for i, x := range l {
		o[i] = []int(x)
	}
	return o
}
func ipBytes(l []net.IP) [][]byte {
	o := make([][]byte, len(l))
	for i, x := range l {
		o[i] = []byte(x)
	}
	return o
}
func ekuInts(l []x509.ExtKeyUsage) []int {
	o := make([]int, len(l))
	for i, x := range l {
		o[i] = int(x)
	}
	return o
}
func nonneg(v int) int {
	if v < 0 {
		return 0
	}
	return v
}

// digest mirrors C04.digest on the DER with the trailing signature bytes zeroed
func digest(der []byte, siglen int) string {
	var h1, h2 uint64
	for i, b := range der {
		x := uint64(b)
		if i >= len(der)-siglen {
			x = 0
		}
		h1 = (h1*31 + x + 1) % 1000000007
		h2 = (h2*257 + x + 1) % 998244353
	}
	return vh.Pair(vh.NI(len(der)), vh.N(h1), vh.N(h2))
}

// CA certificates are created once per (template, key)
var parentCache = map[string]*x509.Certificate{}

func makeParent(c *vh.Ctx, pt Tmpl, key int) (*x509.Certificate, error) {
	js, _ := json.Marshal(pt)
	ck := fmt.Sprintf("%d|%s", key, js)
	if p, ok := parentCache[ck]; ok {
		return p, nil
	}
	tc := pt.cert()
	der, err := x509.CreateCertificate(c, tc, tc, keys[key].priv.Public(), keys[key].priv)
	if err != nil {
		return nil, err
	}
	p, err := x509.ParseCertificate(der)
	if err != nil {
		return nil, err
	}
	parentCache[ck] = p
	return p, nil
}

func sortedCopy(l []string) []string {
	o := append([]string{}, l...)
	sort.Strings(o)
	return o
}
func eqStrs(a, b []string) bool {
	if len(a) != len(b) {
		return false
	}
	for i := range a {
		if a[i] != b[i] {
			return false
		}
	}
	return true
}
func eqSet(a, b []string) bool { return eqStrs(sortedCopy(a), sortedCopy(b)) }

// canonical form of an RDNSequence: members of one RDN sorted (DER SET OF)
func canonRDN(r pkix.RDNSequence) string {
	var sb strings.Builder
	for _, rdn := range r {
		var ms []string
		for _, a := range rdn {
			ms = append(ms, fmt.Sprintf("%v=%q", a.Type, a.Value))
		}
		sort.Strings(ms)
		sb.WriteString("{" + strings.Join(ms, ",") + "}")
	}
	return sb.String()
}

func compareName(what string, want pkix.Name, got pkix.Name) [][2]string {
	var out [][2]string
	bad := func(f string, w, g interface{}) {
		out = append(out, [2]string{"field-" + what, fmt.Sprintf("%s.%s: template %q, parsed %q", what, f, w, g)})
	}
	if want.OriginalRDNS != nil {
		if canonRDN(want.OriginalRDNS) != canonRDN(got.OriginalRDNS) {
			bad("rdns", canonRDN(want.OriginalRDNS), canonRDN(got.OriginalRDNS))
		}
		return out
	}
	if canonRDN(want.ToRDNSequence()) != canonRDN(got.OriginalRDNS) {
		bad("rdns", canonRDN(want.ToRDNSequence()), canonRDN(got.OriginalRDNS))
	}
	// field by field, unless ExtraNames repeats one of the standard attributes
	if len(want.ExtraNames) > 0 {
		return out
	}
	if want.CommonName != got.CommonName {
		bad("CommonName", want.CommonName, got.CommonName)
	}
	if want.SerialNumber != got.SerialNumber {
		bad("SerialNumber", want.SerialNumber, got.SerialNumber)
	}
	for _, f := range []struct {
		n    string
		w, g []string
	}{{"Country", want.Country, got.Country}, {"Organization", want.Organization, got.Organization},
		{"OrganizationalUnit", want.OrganizationalUnit, got.OrganizationalUnit}, {"Locality", want.Locality, got.Locality},
		{"Province", want.Province, got.Province}, {"StreetAddress", want.StreetAddress, got.StreetAddress},
		{"PostalCode", want.PostalCode, got.PostalCode}, {"DomainComponent", want.DomainComponent, got.DomainComponent},
		{"EmailAddress", want.EmailAddress, got.EmailAddress}, {"OrganizationIDs", want.OrganizationIDs, got.OrganizationIDs},
		{"JurisdictionLocality", want.JurisdictionLocality, got.JurisdictionLocality},
		{"JurisdictionProvince", want.JurisdictionProvince, got.JurisdictionProvince},
		{"JurisdictionCountry", want.JurisdictionCountry, got.JurisdictionCountry}} {
		if !eqSet(f.w, f.g) {
			bad(f.n, f.w, f.g)
		}
	}
	return out
}

func eqOIDs(a, b []asn1.ObjectIdentifier) bool {
	if len(a) != len(b) {
		return false
	}
	for i := range a {
		if !a[i].Equal(b[i]) {
			return false
		}
	}
	return true
}

func mustSPKI(pub crypto.PublicKey) []byte {
	b, err := x509.MarshalPKIXPublicKey(pub)
	if err != nil {
		panic(err)
	}
	return b
}

func defaultSigAlg(k crypto.PublicKey) x509.SignatureAlgorithm {
	switch pk := k.(type) {
	case *rsa.PublicKey:
		return x509.SHA256WithRSA
	case *ecdsa.PublicKey:
		switch pk.Curve.Params().BitSize {
		case 224, 256:
			return x509.ECDSAWithSHA256
		case 384:
			return x509.ECDSAWithSHA384
		default:
			return x509.ECDSAWithSHA512
		}
	default:
		return x509.Ed25519Sig
	}
}
