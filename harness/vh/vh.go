// Package vh is the shared part of the correspondence harness: argument
// handling, one seeded PRNG, Coq term printers, case/violation/statistics
// output.  Every property has its own main package next to this one.
package vh

import (
	"bufio"
	"crypto/sha256"
	"encoding/hex"
	"encoding/json"
	"flag"
	"fmt"
	"math/big"
	"os"
	"path/filepath"
	"sort"
	"strconv"
	"strings"
)

type Violation struct {
	Key    string      `json:"key"`    // stable class key (matched against known_findings.txt)
	Desc   string      `json:"desc"`   // what fails
	Stream string      `json:"stream"` // which generator produced it
	Input  interface{} `json:"input"`  // replayable input
}

type Ctx struct {
	Prop, Tier, Out string
	Seed            uint64
	Thorough        bool
	Tables          bool // --tables: only regenerate coq/gen files into Out (T2/T3 translators)
	Race            bool // --race: this binary was built with -race; run the concurrent scenarios
	rng             uint64
	streams         map[string]*stream
	stats           map[string]int
	samples         []interface{}
	viols           []Violation
	nontrivial      map[[8]byte]struct{}
	evals           int
	exhaustive      map[string]bool
	notes           []string
}

type stream struct {
	f   *os.File
	w   *bufio.Writer
	in  *os.File
	inw *bufio.Writer
	n   int
}

// Main parses the common flags and runs gen, or replay when --replay is given.
func Main(prop string, gen func(*Ctx), replay func(*Ctx, json.RawMessage)) {
	tier := flag.String("tier", "quick", "quick|thorough")
	seed := flag.Uint64("seed", 1, "PRNG seed")
	out := flag.String("out", "", "output directory")
	rp := flag.String("replay", "", "replay file")
	tables := flag.Bool("tables", false, "write regenerated coq/gen files into --out and exit")
	race := flag.Bool("race", false, "run the concurrent scenarios (binary built with -race)")
	flag.Parse()
	if *out == "" {
		fmt.Fprintln(os.Stderr, "missing --out")
		os.Exit(2)
	}
	os.MkdirAll(*out, 0o755)
	c := &Ctx{Prop: prop, Tier: *tier, Out: *out, Seed: *seed, Thorough: *tier == "thorough",
		rng: mixSeed(*seed), streams: map[string]*stream{}, stats: map[string]int{},
		nontrivial: map[[8]byte]struct{}{}, exhaustive: map[string]bool{}, Tables: *tables, Race: *race}
	if *rp != "" {
		raw, err := os.ReadFile(*rp)
		if err != nil {
			fmt.Fprintln(os.Stderr, err)
			os.Exit(2)
		}
		var r struct {
			Input json.RawMessage `json:"input"`
		}
		if err := json.Unmarshal(raw, &r); err != nil || r.Input == nil {
			fmt.Fprintln(os.Stderr, "replay file has no input:", err)
			os.Exit(2)
		}
		replay(c, r.Input)
	} else {
		gen(c)
	}
	c.finish()
}

// mixSeed hashes the seed into the initial state, so that neighbouring seeds give
// unrelated streams (a state of seed*gamma would make seed s+1 the stream of seed s shifted by one draw).
func mixSeed(seed uint64) uint64 {
	z := seed + 0x632BE59BD9B4E019
	z = (z ^ (z >> 30)) * 0xBF58476D1CE4E5B9
	z = (z ^ (z >> 27)) * 0x94D049BB133111EB
	z ^= z >> 31
	z = (z ^ (z >> 33)) * 0xFF51AFD7ED558CCD
	return z ^ (z >> 29)
}

// ---- PRNG: splitmix64, every random choice of a run derives from --seed ----
func (c *Ctx) U64() uint64 {
	c.rng += 0x9E3779B97F4A7C15
	z := c.rng
	z = (z ^ (z >> 30)) * 0xBF58476D1CE4E5B9
	z = (z ^ (z >> 27)) * 0x94D049BB133111EB
	return z ^ (z >> 31)
}
func (c *Ctx) Intn(n int) int {
	if n <= 0 {
		return 0
	}
	return int(c.U64() % uint64(n))
}
func (c *Ctx) Bool() bool { return c.U64()&1 == 1 }
func (c *Ctx) Bytes(n int) []byte {
	b := make([]byte, n)
	for i := range b {
		b[i] = byte(c.U64())
	}
	return b
}
func (c *Ctx) Pick(xs []int) int { return xs[c.Intn(len(xs))] }

// Read implements io.Reader so the context can serve as a deterministic rand source.
func (c *Ctx) Read(p []byte) (int, error) {
	for i := range p {
		p[i] = byte(c.U64())
	}
	return len(p), nil
}

// ---- output ----
func (c *Ctx) stream(name string) *stream {
	s := c.streams[name]
	if s == nil {
		f, err := os.Create(filepath.Join(c.Out, "cases."+name+".txt"))
		if err != nil {
			panic(err)
		}
		in, err := os.Create(filepath.Join(c.Out, "inputs."+name+".jsonl"))
		if err != nil {
			panic(err)
		}
		s = &stream{f: f, w: bufio.NewWriterSize(f, 1<<20), in: in, inw: bufio.NewWriterSize(in, 1<<20)}
		c.streams[name] = s
	}
	return s
}

// Case records one correspondence case: the Coq term of type <Prop>.<streamName>
// holding input and observed output, the replayable input, and a key that is
// non-empty iff the case is non-trivial (distinct keys are counted).
func (c *Ctx) Case(streamName, coqTerm string, input interface{}, nontrivialKey string) {
	s := c.stream(streamName)
	if strings.ContainsAny(coqTerm, "\n\r") {
		coqTerm = strings.NewReplacer("\n", " ", "\r", " ").Replace(coqTerm)
	}
	s.w.WriteString(coqTerm)
	s.w.WriteByte('\n')
	js, _ := json.Marshal(input)
	s.inw.Write(js)
	s.inw.WriteByte('\n')
	s.n++
	c.evals++
	c.stats["stream."+streamName]++
	if nontrivialKey != "" {
		h := sha256.Sum256([]byte(streamName + "\x00" + nontrivialKey))
		var k [8]byte
		copy(k[:], h[:8])
		c.nontrivial[k] = struct{}{}
	}
	if len(c.samples) < 4 && (s.n == 1 || s.n == 17) {
		c.samples = append(c.samples, map[string]interface{}{"stream": streamName, "input": input, "case": trunc(coqTerm, 400)})
	}
}

// Eval counts an implementation-only evaluation (direct oracle, no model case).
func (c *Ctx) Eval(nontrivialKey string) {
	c.evals++
	if nontrivialKey != "" {
		h := sha256.Sum256([]byte("eval\x00" + nontrivialKey))
		var k [8]byte
		copy(k[:], h[:8])
		c.nontrivial[k] = struct{}{}
	}
}

func trunc(s string, n int) string {
	if len(s) <= n {
		return s
	}
	return s[:n] + "…"
}

func (c *Ctx) Violation(key, desc, streamName string, input interface{}) {
	c.stats["violations"]++
	if len(c.viols) < 50 {
		c.viols = append(c.viols, Violation{Key: key, Desc: desc, Stream: streamName, Input: input})
	}
}
func (c *Ctx) Stat(name string, n int)  { c.stats[name] += n }
func (c *Ctx) Sample(v interface{})     { c.samples = append(c.samples, v) }
func (c *Ctx) Exhaustive(domain string) { c.exhaustive[domain] = true }
func (c *Ctx) Note(s string)            { c.notes = append(c.notes, s) }
func (c *Ctx) NumViolations() int       { return c.stats["violations"] }

func (c *Ctx) finish() {
	streams := map[string]int{}
	for name, s := range c.streams {
		s.w.Flush()
		s.f.Close()
		s.inw.Flush()
		s.in.Close()
		streams[name] = s.n
	}
	ex := []string{}
	for k := range c.exhaustive {
		ex = append(ex, k)
	}
	sort.Strings(ex)
	res := map[string]interface{}{
		"prop": c.Prop, "tier": c.Tier, "seed": c.Seed,
		"evaluations": c.evals, "distinct_nontrivial": len(c.nontrivial),
		"streams": streams, "stats": c.stats, "samples": c.samples,
		"violations": c.viols, "exhaustive_domains": ex, "notes": c.notes,
	}
	js, _ := json.MarshalIndent(res, "", " ")
	if err := os.WriteFile(filepath.Join(c.Out, "result.json"), js, 0o644); err != nil {
		panic(err)
	}
}

// ---- Coq term printers ----
func N(x uint64) string  { return strconv.FormatUint(x, 10) + "%N" }
func Nat(x int) string   { return strconv.Itoa(x) + "%nat" }
func NI(x int) string    { return strconv.Itoa(x) + "%N" }
func Z(x int64) string {
	if x < 0 {
		return "(" + strconv.FormatInt(x, 10) + ")%Z"
	}
	return strconv.FormatInt(x, 10) + "%Z"
}
func BigZ(x *big.Int) string {
	if x == nil {
		return "0%Z"
	}
	if x.Sign() < 0 {
		return "(" + x.String() + ")%Z"
	}
	return x.String() + "%Z"
}
func Bool(b bool) string {
	if b {
		return "true"
	}
	return "false"
}
func List(xs []string) string { return "[" + strings.Join(xs, "; ") + "]" }
func Bytes(b []byte) string {
	if len(b) == 0 {
		return "(@nil N)"
	}
	var sb strings.Builder
	sb.WriteString("[")
	for i, x := range b {
		if i > 0 {
			sb.WriteString(";")
		}
		sb.WriteString(strconv.Itoa(int(x)))
	}
	sb.WriteString("]%N")
	return sb.String()
}
func Str(s string) string { return Bytes([]byte(s)) }
func Some(s string) string { return "(Some " + s + ")" }
func None() string         { return "None" }
func Pair(xs ...string) string {
	return "(" + strings.Join(xs, ", ") + ")"
}
func App(f string, args ...string) string {
	return "(" + f + " " + strings.Join(args, " ") + ")"
}
func OptBytes(b []byte, ok bool) string {
	if !ok {
		return "None"
	}
	return Some(Bytes(b))
}
func Hex(b []byte) string { return hex.EncodeToString(b) }
func UnHex(s string) []byte {
	b, err := hex.DecodeString(s)
	if err != nil {
		panic(err)
	}
	return b
}

// Mix is the rolling checksum shared with the Coq models for exhaustive
// enumerations: h' = (h*31 + x + 1) mod 1000000007.
func Mix(h, x uint64) uint64 { return (h*31 + x + 1) % 1000000007 }

// List0 prints a list, using an explicitly typed nil when empty.
func List0(xs []string, ty string) string {
	if len(xs) == 0 {
		return "(@nil " + ty + ")"
	}
	return List(xs)
}

// WriteGen writes a regenerated Coq file (used with --tables) into the output directory.
func (c *Ctx) WriteGen(name, content string) {
	if err := os.WriteFile(filepath.Join(c.Out, name), []byte(content), 0o644); err != nil {
		panic(err)
	}
}

// MixL is the cheap variant for large enumerations (N.land is ~1000x faster than N.modulo
// under vm_compute): h' = (h*31 + x + 1) land (2^31-1).
func MixL(h, x uint64) uint64 { return (h*31 + x + 1) & 0x7fffffff }
