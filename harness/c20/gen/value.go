package gen

// JSON codec for values (replay files), the documented round-trip domain as an
// executable predicate, and semantic equality of values (sets up to order,
// times up to the second, nil == empty).

import (
	"bytes"
	"encoding/json"
	"fmt"
	"math/big"
	"reflect"
	"strings"
	"time"
	"unicode/utf8"

	"github.com/zmap/zcrypto/encoding/asn1"
	"verifharness/vh"
)

type jtime struct {
	Y, Mo, D, H, Mi, S, Ns, Off int
	Zero                        bool `json:",omitempty"`
}

type jraw struct {
	Class, Tag int
	Compound   bool
	Bytes      string
	Full       string
	Zero       bool `json:",omitempty"`
}

// ValueToJSON gives a generic tree for v of type GoType(t).
func ValueToJSON(t *Ty, v reflect.Value) interface{} {
	switch t.K {
	case "bool", "flag":
		return v.Bool()
	case "int", "int32", "int64", "enum":
		return fmt.Sprint(v.Int())
	case "big":
		if v.IsNil() {
			return nil
		}
		return v.Interface().(*big.Int).String()
	case "str":
		return vh.Hex([]byte(v.String()))
	case "oid":
		if v.IsNil() {
			return nil
		}
		return []int(v.Interface().(asn1.ObjectIdentifier))
	case "bits":
		b := v.Interface().(asn1.BitString)
		if b.Bytes == nil {
			return map[string]interface{}{"nil": true, "n": b.BitLength}
		}
		return map[string]interface{}{"hex": vh.Hex(b.Bytes), "n": b.BitLength}
	case "time":
		tm := v.Interface().(time.Time)
		if reflect.DeepEqual(tm, time.Time{}) {
			return jtime{Zero: true}
		}
		y, m, d := tm.Date()
		h, mi, s := tm.Clock()
		_, off := tm.Zone()
		return jtime{Y: y, Mo: int(m), D: d, H: h, Mi: mi, S: s, Ns: tm.Nanosecond(), Off: off}
	case "bytes":
		if v.IsNil() {
			return nil
		}
		return vh.Hex(v.Bytes())
	case "raw":
		r := v.Interface().(asn1.RawValue)
		if reflect.DeepEqual(r, asn1.RawValue{}) {
			return jraw{Zero: true}
		}
		return jraw{Class: r.Class, Tag: r.Tag, Compound: r.IsCompound, Bytes: vh.Hex(r.Bytes), Full: vh.Hex(r.FullBytes)}
	case "struct":
		off := 0
		out := []interface{}{}
		if t.Raw0 {
			off = 1
			if v.Field(0).IsNil() {
				out = append(out, nil)
			} else {
				out = append(out, vh.Hex(v.Field(0).Bytes()))
			}
		}
		for i, f := range t.Fields {
			out = append(out, ValueToJSON(f.T, v.Field(i+off)))
		}
		return out
	case "slice":
		if v.IsNil() {
			return nil
		}
		out := []interface{}{}
		for i := 0; i < v.Len(); i++ {
			out = append(out, ValueToJSON(t.Elem, v.Index(i)))
		}
		return out
	}
	panic("unknown kind " + t.K)
}

// ValueFromJSON is the inverse of ValueToJSON.
func ValueFromJSON(t *Ty, raw json.RawMessage) reflect.Value {
	v := reflect.New(GoType(t)).Elem()
	fillFromJSON(t, raw, v)
	return v
}

func isNull(raw json.RawMessage) bool { return len(raw) == 0 || string(raw) == "null" }

func fillFromJSON(t *Ty, raw json.RawMessage, v reflect.Value) {
	must := func(err error) {
		if err != nil {
			panic(err)
		}
	}
	switch t.K {
	case "bool", "flag":
		var b bool
		must(json.Unmarshal(raw, &b))
		v.SetBool(b)
	case "int", "int32", "int64", "enum":
		var s string
		must(json.Unmarshal(raw, &s))
		var x int64
		fmt.Sscan(s, &x)
		v.SetInt(x)
	case "big":
		if isNull(raw) {
			return
		}
		var s string
		must(json.Unmarshal(raw, &s))
		x, _ := new(big.Int).SetString(s, 10)
		v.Set(reflect.ValueOf(x))
	case "str":
		var s string
		must(json.Unmarshal(raw, &s))
		v.SetString(string(vh.UnHex(s)))
	case "oid":
		if isNull(raw) {
			return
		}
		var o []int
		must(json.Unmarshal(raw, &o))
		if o == nil {
			o = []int{}
		}
		v.Set(reflect.ValueOf(asn1.ObjectIdentifier(o)))
	case "bits":
		var m struct {
			Nil bool   `json:"nil"`
			Hex string `json:"hex"`
			N   int    `json:"n"`
		}
		must(json.Unmarshal(raw, &m))
		b := asn1.BitString{BitLength: m.N}
		if !m.Nil {
			b.Bytes = vh.UnHex(m.Hex)
			if b.Bytes == nil {
				b.Bytes = []byte{}
			}
		}
		v.Set(reflect.ValueOf(b))
	case "time":
		var j jtime
		must(json.Unmarshal(raw, &j))
		if j.Zero {
			return
		}
		loc := time.UTC
		if j.Off != 0 {
			loc = time.FixedZone("", j.Off)
		}
		v.Set(reflect.ValueOf(time.Date(j.Y, time.Month(j.Mo), j.D, j.H, j.Mi, j.S, j.Ns, loc)))
	case "bytes":
		if isNull(raw) {
			return
		}
		var s string
		must(json.Unmarshal(raw, &s))
		b := vh.UnHex(s)
		if b == nil {
			b = []byte{}
		}
		v.SetBytes(b)
	case "raw":
		var j jraw
		must(json.Unmarshal(raw, &j))
		if j.Zero {
			return
		}
		r := asn1.RawValue{Class: j.Class, Tag: j.Tag, IsCompound: j.Compound}
		if j.Bytes != "" {
			r.Bytes = vh.UnHex(j.Bytes)
		}
		if j.Full != "" {
			r.FullBytes = vh.UnHex(j.Full)
		}
		v.Set(reflect.ValueOf(r))
	case "struct":
		var xs []json.RawMessage
		must(json.Unmarshal(raw, &xs))
		off := 0
		if t.Raw0 {
			off = 1
			if !isNull(xs[0]) {
				var s string
				must(json.Unmarshal(xs[0], &s))
				b := vh.UnHex(s)
				if b == nil {
					b = []byte{}
				}
				v.Field(0).SetBytes(b)
			}
		}
		for i, f := range t.Fields {
			fillFromJSON(f.T, xs[i+off], v.Field(i+off))
		}
	case "slice":
		if isNull(raw) {
			return
		}
		var xs []json.RawMessage
		must(json.Unmarshal(raw, &xs))
		s := reflect.MakeSlice(v.Type(), len(xs), len(xs))
		for i := range xs {
			fillFromJSON(t.Elem, xs[i], s.Index(i))
		}
		v.Set(s)
	}
}

// ---------------------------------------------------------------- the documented domain

type Params = asn1.VerifFieldParameters

func isPrintableParse(b byte) bool { // the decoder's set: '*' and '&' allowed
	return 'a' <= b && b <= 'z' || 'A' <= b && b <= 'Z' || '0' <= b && b <= '9' || '\'' <= b && b <= ')' ||
		'+' <= b && b <= '/' || b == ' ' || b == ':' || b == '=' || b == '?' || b == '*' || b == '&'
}

func universalTagOf(t *Ty) (tag int, compound bool) {
	switch t.K {
	case "bool", "flag":
		return 1, false
	case "int", "int32", "int64", "big":
		return 2, false
	case "bits":
		return 3, false
	case "bytes":
		return 4, false
	case "oid":
		return 6, false
	case "enum":
		return 10, false
	case "str":
		return 19, false
	case "time":
		return 23, false
	case "struct":
		return 16, true
	case "slice":
		if t.SetName {
			return 17, true
		}
		return 16, true
	}
	return -1, false
}

// ParamsOK: the parameter string suits the type (Marshal will not reject it
// for every value) and describes a decodable position.
func ParamsOK(t *Ty, tag string) bool {
	p := asn1.VerifParseFieldParameters(tag)
	if p.Tag != nil && (*p.Tag < 0 || *p.Tag > 1<<31-1) {
		return false
	}
	if p.DefaultValue != nil && !(t.K == "int" || t.K == "int32" || t.K == "int64" || t.K == "enum") {
		return false // default:x is documented for optional integer fields only
	}
	if p.Application && p.Private {
		return false // meaningless combination (encoder and decoder resolve it differently)
	}
	if p.StringType != 0 && t.K != "str" {
		return false
	}
	if p.TimeType != 0 && t.K != "time" {
		return false
	}
	if p.Set && !(t.K == "struct" || (t.K == "slice" && !t.SetName)) {
		return false
	}
	if t.K == "raw" && p.Tag != nil {
		return false // a RawValue is written as it is; a tag parameter is only checked when decoding
	}
	if p.OmitEmpty && !p.Optional && (t.K == "slice" || t.K == "bytes" || t.K == "oid") {
		return false // an omitted element can only be decoded into an OPTIONAL field
	}
	return true
}

// expects reports whether a field (t, tag) would take an element with the given header for itself.
func expects(t *Ty, tag string, class, tagNo int, compound bool, length int) bool {
	p := asn1.VerifParseFieldParameters(tag)
	if p.Explicit {
		ec := 2
		if p.Application {
			ec = 1
		} else if p.Private {
			ec = 3
		}
		return class == ec && tagNo == *p.Tag && (length == 0 || compound)
	}
	ut, ucomp := universalTagOf(t)
	if p.Tag != nil {
		ec := 2
		if p.Private {
			ec = 3
		} else if p.Application {
			ec = 1
		}
		return class == ec && tagNo == *p.Tag && (t.K == "raw" || compound == ucomp)
	}
	if t.K == "raw" {
		return true
	}
	if compound != ucomp || class != 0 {
		return false
	}
	if p.Set {
		return tagNo == 17
	}
	switch t.K {
	case "str":
		switch tagNo {
		case 12, 18, 19, 20, 22, 27, 30:
			return true
		}
		return false
	case "time":
		return tagNo == 23 || tagNo == 24
	}
	return tagNo == ut
}

func firstHeader(b []byte) (class, tagNo int, compound bool, length int, ok bool) {
	n, _, k := ParseNode(b, 0)
	if !k {
		return
	}
	tagNo = int(n.Hdr0 & 0x1f)
	if tagNo == 0x1f {
		tagNo = 0
		for _, x := range n.TagExtra {
			tagNo = tagNo<<7 | int(x&0x7f)
		}
	}
	return int(n.Hdr0 >> 6), tagNo, n.Hdr0&0x20 != 0, len(n.BodyBytes()), true
}

// IsZero: reflect.DeepEqual(v, zero value)
func IsZero(v reflect.Value) bool {
	return reflect.DeepEqual(v.Interface(), reflect.Zero(v.Type()).Interface())
}

// Omitted: Marshal writes nothing for v at a position with these parameters (the documented rules: OPTIONAL with
// the default / zero value, omitempty with an empty slice).
func Omitted(t *Ty, tag string, v reflect.Value) bool {
	p := asn1.VerifParseFieldParameters(tag)
	if p.OmitEmpty && v.Kind() == reflect.Slice && v.Len() == 0 {
		return true
	}
	if !p.Optional {
		return false
	}
	if p.DefaultValue != nil {
		switch t.K {
		case "int", "int64", "enum":
			return v.Int() == *p.DefaultValue
		case "int32":
			return v.Int() == int64(int32(*p.DefaultValue))
		}
		return false
	}
	return IsZero(v)
}

// emits: class, tag number, constructed bit and whether the contents are empty, of the element Marshal writes for a
// value that is not omitted (strings and times: any member of the family; `expects` accepts the whole family)
func emits(t *Ty, tag string, v reflect.Value) (class, tagNo int, compound, empty bool) {
	p := asn1.VerifParseFieldParameters(tag)
	if t.K == "raw" {
		r := v.Interface().(asn1.RawValue)
		if len(r.FullBytes) != 0 {
			c, tg, comp, ln, _ := firstHeader(r.FullBytes)
			return c, tg, comp, ln == 0
		}
		return r.Class, r.Tag, r.IsCompound, len(r.Bytes) == 0
	}
	ut, ucomp := universalTagOf(t)
	if p.Set {
		ut = 17
	}
	switch t.K {
	case "str":
		empty = v.Len() == 0
	case "bytes":
		empty = v.Len() == 0
	case "flag":
		empty = true
	case "struct":
		empty = false // not needed: constructed elements satisfy the explicit-tag test anyway
	}
	if p.Tag != nil {
		class = 2
		if p.Application {
			class = 1
		} else if p.Private {
			class = 3
		}
		if p.Explicit {
			return class, *p.Tag, true, false
		}
		return class, *p.Tag, ucomp, empty
	}
	return 0, ut, ucomp, empty
}

// strictElement: b is exactly one element with a DER header (minimal tag and length forms)
func strictElement(b []byte) bool {
	if len(b) < 2 {
		return false
	}
	i := 1
	if b[0]&0x1f == 0x1f {
		tagNo := 0
		for n := 0; ; n++ {
			if i >= len(b) || n == 5 || (n == 0 && b[i] == 0x80) {
				return false
			}
			tagNo = tagNo<<7 | int(b[i]&0x7f)
			i++
			if b[i-1]&0x80 == 0 {
				break
			}
		}
		if tagNo < 31 || tagNo > 1<<31-1 {
			return false
		}
	}
	if i >= len(b) {
		return false
	}
	l := int(b[i])
	i++
	if l&0x80 != 0 {
		k := l & 0x7f
		if k == 0 || k > 4 || i+k > len(b) || b[i] == 0 {
			return false
		}
		l = 0
		for j := 0; j < k; j++ {
			l = l<<8 | int(b[i+j])
		}
		i += k
		if l < 128 || l > 1<<31-1 {
			return false
		}
	}
	return i+l == len(b)
}

// InDomain: v (of type t, at a position with parameter string tag) lies in the documented round-trip domain.
func InDomain(t *Ty, tag string, v reflect.Value) bool {
	if !ParamsOK(t, tag) {
		return false
	}
	p := asn1.VerifParseFieldParameters(tag)
	implicit := p.Tag != nil && !p.Explicit
	if p.OmitEmpty && v.Kind() == reflect.Slice && v.Len() == 0 && !v.IsNil() {
		return false // an empty omitempty slice is nil (the decoder leaves nil for an omitted element)
	}
	switch t.K {
	case "bool", "int", "int32", "int64", "bytes":
		return true
	case "enum":
		return v.Int() == int64(int32(v.Int()))
	case "big":
		return !v.IsNil()
	case "flag":
		return v.Bool() || Omitted(t, tag, v) // a Flag that is written is decoded as true
	case "str":
		s := v.String()
		switch p.StringType {
		case asn1.TagIA5String:
			for i := 0; i < len(s); i++ {
				if s[i] > 127 {
					return false
				}
			}
			return true
		case asn1.TagPrintableString:
			for i := 0; i < len(s); i++ {
				if !isPrintableParse(s[i]) || s[i] == '&' {
					return false
				}
			}
			return true
		case asn1.TagNumericString:
			for i := 0; i < len(s); i++ {
				if !('0' <= s[i] && s[i] <= '9' || s[i] == ' ') {
					return false
				}
			}
			return true
		case asn1.TagUTF8String:
			return utf8.ValidString(s)
		}
		if implicit {
			// decoded as a PrintableString
			for i := 0; i < len(s); i++ {
				if !isPrintableParse(s[i]) {
					return false
				}
			}
			return true
		}
		return utf8.ValidString(s)
	case "oid":
		o := v.Interface().(asn1.ObjectIdentifier)
		if len(o) < 2 || o[0] < 0 || o[0] > 2 || o[1] < 0 || (o[0] < 2 && o[1] >= 40) || o[0]*40+o[1] > 1<<31-1 {
			return false
		}
		for _, a := range o[2:] {
			if a < 0 || a > 1<<31-1 {
				return false
			}
		}
		return true
	case "bits":
		b := v.Interface().(asn1.BitString)
		if b.BitLength < 0 || len(b.Bytes) != (b.BitLength+7)/8 {
			return false
		}
		if pad := uint(8*len(b.Bytes) - b.BitLength); pad > 0 && b.Bytes[len(b.Bytes)-1]&(1<<pad-1) != 0 {
			return false
		}
		return true
	case "time":
		tm := v.Interface().(time.Time)
		y := tm.Year()
		_, off := tm.Zone()
		if y < 0 || y > 9999 || off%60 != 0 || off > 24*3600+59*60 || off < -(24*3600+59*60) {
			return false
		}
		if Omitted(t, tag, v) {
			return true
		}
		if y == 1 && tm.YearDay() == 1 && tm.Hour() == 0 && tm.Minute() == 0 && tm.Second() == 0 {
			return false // not the zero value, yet decodes to it (the zero second in another location, or with nanoseconds)
		}
		inUTC := y >= 1950 && y < 2050
		if implicit && p.TimeType != asn1.TagGeneralizedTime && !inUTC {
			return false // the decoder cannot tell which layout was used
		}
		return true
	case "raw":
		r := v.Interface().(asn1.RawValue)
		if len(r.FullBytes) != 0 {
			return strictElement(r.FullBytes)
		}
		return r.Class >= 0 && r.Class <= 3 && r.Tag >= 0 && r.Tag <= 1<<31-1
	case "struct":
		off := 0
		if t.Raw0 {
			off = 1
			if v.Field(0).Len() != 0 {
				return false
			}
		}
		for i, f := range t.Fields {
			if !InDomain(f.T, f.Tag, v.Field(i+off)) {
				return false
			}
		}
		// an omitted field must not be able to take the next element for itself
		for i, f := range t.Fields {
			if !Omitted(f.T, f.Tag, v.Field(i+off)) {
				continue
			}
			if !asn1.VerifParseFieldParameters(f.Tag).Optional {
				return false
			}
			for j := i + 1; j < len(t.Fields); j++ {
				g := t.Fields[j]
				if Omitted(g.T, g.Tag, v.Field(j+off)) {
					continue
				}
				cl, tg, comp, empty := emits(g.T, g.Tag, v.Field(j+off))
				ln := 1
				if empty {
					ln = 0
				}
				if expects(f.T, f.Tag, cl, tg, comp, ln) {
					return false
				}
				break
			}
		}
		return true
	case "slice":
		for i := 0; i < v.Len(); i++ {
			if !InDomain(t.Elem, "", v.Index(i)) {
				return false
			}
		}
		return true
	}
	return false
}

// ---------------------------------------------------------------- semantic equality

func isSet(t *Ty, tag string) bool {
	return t.K == "slice" && (t.SetName || asn1.VerifParseFieldParameters(tag).Set)
}

// SemEqual: a (the value given to Marshal) and b (the value Unmarshal produced) are equal in the sense of the
// property: SET OF up to order, times up to the second (same wall clock and zone offset), nil == empty.
func SemEqual(t *Ty, tag string, a, b reflect.Value) bool {
	switch t.K {
	case "bool", "flag":
		return a.Bool() == b.Bool()
	case "int", "int32", "int64", "enum":
		return a.Int() == b.Int()
	case "big":
		if a.IsNil() || b.IsNil() {
			return a.IsNil() && b.IsNil()
		}
		return a.Interface().(*big.Int).Cmp(b.Interface().(*big.Int)) == 0
	case "str":
		return a.String() == b.String()
	case "oid":
		return a.Interface().(asn1.ObjectIdentifier).Equal(b.Interface().(asn1.ObjectIdentifier))
	case "bits":
		x, y := a.Interface().(asn1.BitString), b.Interface().(asn1.BitString)
		return x.BitLength == y.BitLength && bytes.Equal(x.Bytes, y.Bytes)
	case "time":
		x, y := a.Interface().(time.Time), b.Interface().(time.Time)
		_, ox := x.Zone()
		_, oy := y.Zone()
		return x.Truncate(time.Second).Equal(y) && ox == oy
	case "bytes":
		return bytes.Equal(a.Bytes(), b.Bytes())
	case "raw":
		x, y := a.Interface().(asn1.RawValue), b.Interface().(asn1.RawValue)
		if len(x.FullBytes) != 0 {
			return bytes.Equal(x.FullBytes, y.FullBytes)
		}
		if reflect.DeepEqual(y, asn1.RawValue{}) { // omitted OPTIONAL
			return reflect.DeepEqual(x, asn1.RawValue{})
		}
		return x.Class == y.Class && x.Tag == y.Tag && x.IsCompound == y.IsCompound && bytes.Equal(x.Bytes, y.Bytes)
	case "struct":
		off := 0
		if t.Raw0 {
			off = 1
		}
		for i, f := range t.Fields {
			if !SemEqual(f.T, f.Tag, a.Field(i+off), b.Field(i+off)) {
				return false
			}
		}
		return true
	case "slice":
		if a.Len() != b.Len() {
			return false
		}
		if !isSet(t, tag) {
			for i := 0; i < a.Len(); i++ {
				if !SemEqual(t.Elem, "", a.Index(i), b.Index(i)) {
					return false
				}
			}
			return true
		}
		used := make([]bool, b.Len())
	outer:
		for i := 0; i < a.Len(); i++ {
			for j := 0; j < b.Len(); j++ {
				if !used[j] && SemEqual(t.Elem, "", a.Index(i), b.Index(j)) {
					used[j] = true
					continue outer
				}
			}
			return false
		}
		return true
	}
	return false
}

var _ = strings.Contains
