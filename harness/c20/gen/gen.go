// Package gen is shared by the C20 and C18 harnesses: the universe of Go types
// encoding/asn1 supports (mirrors Coq C20.ty), run-time construction of those
// types with reflect.StructOf, random parameters/values, printers of Coq
// terms, and a lenient DER tree used to produce mutated encodings.
package gen

import (
	"crypto/sha256"
	"encoding/binary"
	"fmt"
	"math/big"
	"reflect"
	"strconv"
	"strings"
	"time"

	"github.com/zmap/zcrypto/encoding/asn1"
	"verifharness/vh"
)

// R is the source of random choices (vh.Ctx satisfies it; the harnesses pass a Rand derived from the run's seed).
type R interface {
	Intn(n int) int
	Bool() bool
	Bytes(n int) []byte
}

// Rand is splitmix64 started from a hash of (seed, salt).  vh.Ctx starts its generator at seed*C+k and adds C per
// draw, so the streams of neighbouring seeds are one another shifted by one draw; hashing the seed removes that.
type Rand struct{ s uint64 }

func NewRand(seed uint64, salt string) *Rand {
	h := sha256.Sum256([]byte(fmt.Sprintf("%d/%s", seed, salt)))
	return &Rand{s: binary.BigEndian.Uint64(h[:8])}
}
func (r *Rand) U64() uint64 {
	r.s += 0x9E3779B97F4A7C15
	z := r.s
	z = (z ^ (z >> 30)) * 0xBF58476D1CE4E5B9
	z = (z ^ (z >> 27)) * 0x94D049BB133111EB
	return z ^ (z >> 31)
}
func (r *Rand) Intn(n int) int {
	if n <= 0 {
		return 0
	}
	return int(r.U64() % uint64(n))
}
func (r *Rand) Bool() bool { return r.U64()&1 == 1 }
func (r *Rand) Bytes(n int) []byte {
	b := make([]byte, n)
	for i := range b {
		b[i] = byte(r.U64())
	}
	return b
}

// Ty mirrors C20.ty.  K is one of
// bool int int32 int64 big enum str oid bits time bytes raw flag struct slice.
type Ty struct {
	K       string  `json:"k"`
	Raw0    bool    `json:"raw0,omitempty"`
	Fields  []Field `json:"f,omitempty"`
	SetName bool    `json:"setname,omitempty"`
	Elem    *Ty     `json:"e,omitempty"`
}

type Field struct {
	Tag string `json:"tag"` // the asn1:"..." tag string
	T   *Ty    `json:"t"`
}

// named slice types for the `strings.HasSuffix(t.Name(), "SET")` rule
type IntSET []int
type StrSET []string
type BytesSET [][]byte
type OidSET []asn1.ObjectIdentifier
type Pair struct {
	A int
	B string
}
type PairSET []Pair

var pairTy = &Ty{K: "struct", Fields: []Field{{"", &Ty{K: "int"}}, {"", &Ty{K: "str"}}}}

var (
	bigIntType  = reflect.TypeOf(new(big.Int))
	timeType    = reflect.TypeOf(time.Time{})
	rawType     = reflect.TypeOf(asn1.RawValue{})
	rawContType = reflect.TypeOf(asn1.RawContent(nil))
	bitsType    = reflect.TypeOf(asn1.BitString{})
	oidType     = reflect.TypeOf(asn1.ObjectIdentifier{})
	enumType    = reflect.TypeOf(asn1.Enumerated(0))
	flagType    = reflect.TypeOf(asn1.Flag(false))
)

func isPair(t *Ty) bool {
	return t.K == "struct" && !t.Raw0 && len(t.Fields) == 2 && t.Fields[0].Tag == "" && t.Fields[1].Tag == "" &&
		t.Fields[0].T.K == "int" && t.Fields[1].T.K == "str"
}

// GoType builds the Go type of t.
func GoType(t *Ty) reflect.Type {
	switch t.K {
	case "bool":
		return reflect.TypeOf(false)
	case "int":
		return reflect.TypeOf(int(0))
	case "int32":
		return reflect.TypeOf(int32(0))
	case "int64":
		return reflect.TypeOf(int64(0))
	case "big":
		return bigIntType
	case "enum":
		return enumType
	case "str":
		return reflect.TypeOf("")
	case "oid":
		return oidType
	case "bits":
		return bitsType
	case "time":
		return timeType
	case "bytes":
		return reflect.TypeOf([]byte(nil))
	case "raw":
		return rawType
	case "flag":
		return flagType
	case "struct":
		var fs []reflect.StructField
		if t.Raw0 {
			fs = append(fs, reflect.StructField{Name: "Raw", Type: rawContType})
		}
		for i, f := range t.Fields {
			sf := reflect.StructField{Name: "F" + strconv.Itoa(i), Type: GoType(f.T)}
			if f.Tag != "" {
				sf.Tag = reflect.StructTag(`asn1:"` + f.Tag + `"`)
			}
			fs = append(fs, sf)
		}
		return reflect.StructOf(fs)
	case "slice":
		if t.SetName {
			switch {
			case t.Elem.K == "int":
				return reflect.TypeOf(IntSET(nil))
			case t.Elem.K == "str":
				return reflect.TypeOf(StrSET(nil))
			case t.Elem.K == "bytes":
				return reflect.TypeOf(BytesSET(nil))
			case t.Elem.K == "oid":
				return reflect.TypeOf(OidSET(nil))
			case isPair(t.Elem):
				return reflect.TypeOf(PairSET(nil))
			}
			panic("no SET-named slice type for element " + t.Elem.K)
		}
		return reflect.SliceOf(GoType(t.Elem))
	}
	panic("unknown kind " + t.K)
}

// ---------------------------------------------------------------- Coq printers

func CoqParams(tag string) string {
	p := asn1.VerifParseFieldParameters(tag)
	def, tg := "None", "None"
	if p.DefaultValue != nil {
		def = vh.Some(vh.Z(*p.DefaultValue))
	}
	if p.Tag != nil {
		if *p.Tag < 0 {
			tg = vh.Some("4294967295%N") // never produced by the generators; never matches a parsed tag
		} else {
			tg = vh.Some(vh.NI(*p.Tag))
		}
	}
	return vh.App("Build_fparams", vh.Bool(p.Optional), vh.Bool(p.Explicit), vh.Bool(p.Application), vh.Bool(p.Private),
		def, tg, vh.NI(p.StringType), vh.NI(p.TimeType), vh.Bool(p.Set), vh.Bool(p.OmitEmpty))
}

func CoqTy(t *Ty) string {
	switch t.K {
	case "bool":
		return "TBool"
	case "int", "int64":
		return "(TInt false)"
	case "int32":
		return "(TInt true)"
	case "big":
		return "TBig"
	case "enum":
		return "TEnum"
	case "str":
		return "TStr"
	case "oid":
		return "TOid"
	case "bits":
		return "TBits"
	case "time":
		return "TTime"
	case "bytes":
		return "TBytes"
	case "raw":
		return "TRaw"
	case "flag":
		return "TFlag"
	case "struct":
		s := "FNil"
		for i := len(t.Fields) - 1; i >= 0; i-- {
			s = vh.App("FCons", CoqParams(t.Fields[i].Tag), CoqTy(t.Fields[i].T), s)
		}
		return vh.App("TStruct", vh.Bool(t.Raw0), s)
	case "slice":
		return vh.App("TSlice", vh.Bool(t.SetName), CoqTy(t.Elem))
	}
	panic("unknown kind " + t.K)
}

func coqNList(xs []int) string {
	if len(xs) == 0 {
		return "(@nil N)"
	}
	ss := make([]string, len(xs))
	for i, x := range xs {
		ss[i] = strconv.Itoa(x)
	}
	return "[" + strings.Join(ss, ";") + "]%N"
}

func CoqTime(t time.Time) string {
	y, m, d := t.Date()
	h, mi, s := t.Clock()
	_, off := t.Zone()
	return vh.App("Build_timev", vh.Z(int64(y)), vh.NI(int(m)), vh.NI(d), vh.NI(h), vh.NI(mi), vh.NI(s),
		vh.NI(t.Nanosecond()), vh.Z(int64(off)))
}

func coqVals(xs []string) string {
	s := "VNil"
	for i := len(xs) - 1; i >= 0; i-- {
		s = vh.App("VCons", xs[i], s)
	}
	return s
}

// CoqValue prints the Go value v of type GoType(t) as a C20.value.
func CoqValue(t *Ty, v reflect.Value) string {
	switch t.K {
	case "bool":
		return vh.App("VBool", vh.Bool(v.Bool()))
	case "int", "int32", "int64", "enum":
		return vh.App("VInt", vh.Z(v.Int()))
	case "big":
		if v.IsNil() {
			return "VNull"
		}
		return vh.App("VInt", vh.BigZ(v.Interface().(*big.Int)))
	case "str":
		return vh.App("VStr", vh.Str(v.String()))
	case "oid":
		if v.IsNil() {
			return "VNull"
		}
		return vh.App("VOid", coqNList(v.Interface().(asn1.ObjectIdentifier)))
	case "bits":
		b := v.Interface().(asn1.BitString)
		if b.Bytes == nil && b.BitLength == 0 {
			return "VNull"
		}
		return vh.App("VBits", vh.Bytes(b.Bytes), vh.Z(int64(b.BitLength)))
	case "time":
		return vh.App("VTime", CoqTime(v.Interface().(time.Time)))
	case "bytes":
		if v.IsNil() {
			return "VNull"
		}
		return vh.App("VBytes", vh.Bytes(v.Bytes()))
	case "raw":
		r := v.Interface().(asn1.RawValue)
		if reflect.DeepEqual(r, asn1.RawValue{}) {
			return "VNull"
		}
		return vh.App("VRaw", vh.NI(r.Class), vh.NI(r.Tag), vh.Bool(r.IsCompound), vh.Bytes(r.Bytes), vh.Bytes(r.FullBytes))
	case "flag":
		return vh.App("VFlag", vh.Bool(v.Bool()))
	case "struct":
		raw := "None"
		off := 0
		if t.Raw0 {
			off = 1
			if !v.Field(0).IsNil() {
				raw = vh.Some(vh.Bytes(v.Field(0).Bytes()))
			}
		}
		xs := make([]string, len(t.Fields))
		for i, f := range t.Fields {
			xs[i] = CoqValue(f.T, v.Field(i+off))
		}
		return vh.App("VStruct", raw, coqVals(xs))
	case "slice":
		if v.IsNil() {
			return "VNull"
		}
		xs := make([]string, v.Len())
		for i := range xs {
			xs[i] = CoqValue(t.Elem, v.Index(i))
		}
		return vh.App("VList", coqVals(xs))
	}
	panic("unknown kind " + t.K)
}

// ---------------------------------------------------------------- random types

var primKinds = []string{"bool", "int", "int32", "int64", "big", "enum", "str", "oid", "bits", "time", "bytes", "raw", "flag"}

// RandTy draws a type of nesting depth <= depth.
func RandTy(c R, depth int) *Ty {
	if depth <= 0 || c.Intn(10) < 4 {
		return &Ty{K: primKinds[c.Intn(len(primKinds))]}
	}
	if c.Intn(3) == 0 {
		if c.Intn(4) == 0 {
			el := []*Ty{{K: "int"}, {K: "str"}, {K: "bytes"}, {K: "oid"}, pairTy}[c.Intn(5)]
			return &Ty{K: "slice", SetName: true, Elem: el}
		}
		return &Ty{K: "slice", Elem: RandTy(c, depth-1)}
	}
	t := &Ty{K: "struct", Raw0: c.Intn(8) == 0}
	n := c.Intn(5)
	if c.Intn(12) == 0 {
		n = 0
	}
	for i := 0; i < n; i++ {
		ft := RandTy(c, depth-1)
		t.Fields = append(t.Fields, Field{Tag: RandTag(c, ft), T: ft})
	}
	return t
}

func isIntKind(k string) bool { return k == "int" || k == "int32" || k == "int64" || k == "enum" }

// RandTag draws a field-parameter string that mostly suits t.
func RandTag(c R, t *Ty) string {
	if c.Intn(4) == 0 {
		return ""
	}
	var parts []string
	if c.Intn(10) < 3 {
		parts = append(parts, "optional")
		if isIntKind(t.K) && c.Bool() {
			parts = append(parts, "default:"+strconv.Itoa([]int{0, 1, -1, 5, 127, 128, -129, 70000}[c.Intn(8)]))
		}
	}
	if c.Intn(10) < 4 {
		tg := c.Intn(6)
		switch c.Intn(12) {
		case 0:
			tg = 30 + c.Intn(3)
		case 1:
			tg = []int{127, 128, 1000, 16383, 16384, 1 << 20, 1<<31 - 1}[c.Intn(7)]
		case 2:
			tg = 16 + c.Intn(9) // collides with universal numbers
		}
		if c.Intn(10) < 5 {
			parts = append(parts, "explicit")
		}
		parts = append(parts, "tag:"+strconv.Itoa(tg))
		switch c.Intn(8) {
		case 0:
			parts = append(parts, "application")
		case 1:
			parts = append(parts, "private")
		}
	} else if c.Intn(30) == 0 {
		parts = append(parts, []string{"explicit", "application", "private"}[c.Intn(3)]) // tag defaults to 0
	}
	if t.K == "str" && c.Intn(10) < 5 {
		parts = append(parts, []string{"ia5", "printable", "numeric", "utf8"}[c.Intn(4)])
	}
	if t.K == "time" && c.Intn(10) < 5 {
		parts = append(parts, []string{"utc", "generalized"}[c.Intn(2)])
	}
	if (t.K == "slice" || t.K == "struct") && c.Intn(10) < 2 {
		parts = append(parts, "set")
	}
	if t.K == "slice" && c.Intn(10) < 2 {
		parts = append(parts, "omitempty")
	}
	if c.Intn(40) == 0 { // a parameter that does not suit the type
		parts = append(parts, []string{"set", "ia5", "generalized", "omitempty", "default:3", "bogus"}[c.Intn(6)])
	}
	// any order
	for i := len(parts) - 1; i > 0; i-- {
		j := c.Intn(i + 1)
		parts[i], parts[j] = parts[j], parts[i]
	}
	return strings.Join(parts, ",")
}

// ---------------------------------------------------------------- random values

var int64Edges = []int64{0, 1, -1, 127, 128, -128, -129, 255, 256, 32767, 32768, -32768, -32769,
	1<<31 - 1, 1 << 31, -(1 << 31), -(1 << 31) - 1, 1<<63 - 1, -(1 << 63), 1 << 55, -(1 << 55), 1<<56 - 1}

func randInt64(c R) int64 {
	if c.Intn(3) == 0 {
		return int64Edges[c.Intn(len(int64Edges))]
	}
	n := 1 + c.Intn(8)
	var x uint64
	for i := 0; i < n; i++ {
		x = x<<8 | uint64(c.Intn(256))
	}
	v := int64(x)
	// sign-extend from n bytes so that every encoded length is hit
	v <<= uint(64 - 8*n)
	v >>= uint(64 - 8*n)
	return v
}

var alphabets = map[string]string{
	"printable": "abcXYZ019 '()+,-./:=?",
	"numeric":   "0123456789 ",
	"ia5":       "abc@&*_!~\x00\x7f{}",
}

// RandString draws a string for the given string-type parameter ("" = none).
func RandString(c R, st string, wild int) string {
	n := c.Intn(7)
	if c.Intn(20) == 0 {
		n = 120 + c.Intn(20) // crosses the long-form length boundary
	}
	var sb strings.Builder
	kind := st
	if wild > 0 && c.Intn(wild) == 0 {
		kind = "bytes"
	} else if st == "" || st == "utf8" {
		kind = []string{"printable", "ia5", "utf8", "printable"}[c.Intn(4)]
	}
	if c.Intn(5) == 0 {
		// non-ASCII runes chosen BY LOW BYTE: base + lb with lb from the PrintableString / IA5 / Numeric sets, so that
		// a test that looks only at byte(r) takes the string for a restricted one; mixed with ASCII and the
		// boundary runes 0x7f / 0x80 / 0xff / 0x100
		kind = "lowbyte"
		if n == 0 {
			n = 1 + c.Intn(4)
		}
	}
	for i := 0; i < n; i++ {
		switch kind {
		case "lowbyte":
			a := alphabets[[]string{"printable", "printable", "numeric", "ia5"}[c.Intn(4)]]
			lb := rune(a[c.Intn(len(a))])
			switch c.Intn(8) {
			case 0:
				sb.WriteRune(lb) // plain ASCII
			case 1:
				sb.WriteRune([]rune{0x7f, 0x80, 0xff, 0x100}[c.Intn(4)])
			default:
				base := []rune{0x100, 0x400, 0x4E00, 0x1F600}[c.Intn(4)]
				sb.WriteRune(base + lb)
			}
		case "utf8":
			sb.WriteRune([]rune{'a', 'é', 'ß', '€', '日', '𝄞', 0x7ff, 0x800, 0xffff, 0x10000, 0x10ffff, '*', '&'}[c.Intn(13)])
		case "bytes":
			sb.WriteByte(byte(c.Intn(256)))
		default:
			a := alphabets[kind]
			sb.WriteByte(a[c.Intn(len(a))])
		}
	}
	return sb.String()
}

func randOid(c R, wild int) asn1.ObjectIdentifier {
	if wild > 0 && c.Intn(wild) == 0 {
		return []asn1.ObjectIdentifier{nil, {1}, {3, 1}, {1, 40}, {}, {2, 1 << 31}}[c.Intn(6)]
	}
	o := asn1.ObjectIdentifier{c.Intn(3)}
	if o[0] < 2 {
		o = append(o, c.Intn(40))
	} else {
		o = append(o, []int{0, 39, 40, 47, 48, 999, 1<<31 - 81}[c.Intn(7)])
	}
	n := c.Intn(6)
	for i := 0; i < n; i++ {
		o = append(o, []int{0, 1, 127, 128, 840, 16383, 16384, 113549, 1<<21 - 1, 1 << 21, 1<<28 - 1, 1 << 28, 1<<31 - 1}[c.Intn(13)])
	}
	return o
}

func randBits(c R, wild int) asn1.BitString {
	n := c.Intn(5)
	b := c.Bytes(n)
	pad := 0
	if n > 0 {
		pad = c.Intn(8)
		b[n-1] &^= byte(1<<uint(pad) - 1)
		if wild > 0 && c.Intn(wild) == 0 {
			b[n-1] |= 1 // non-zero padding bit (outside the round-trip domain when pad > 0)
		}
	}
	bs := asn1.BitString{Bytes: b, BitLength: 8*n - pad}
	if n == 0 && c.Bool() {
		bs.Bytes = nil
	}
	return bs
}

// RandTime draws a time; wild > 0 allows sub-minute zone offsets, years outside 0..9999.
func RandTime(c R, wild int) time.Time {
	year := 1950 + c.Intn(100)
	switch c.Intn(10) {
	case 0:
		year = []int{1949, 1950, 1968, 1969, 1970, 1999, 2000, 2049, 2050, 2051, 2068, 2069}[c.Intn(12)]
	case 1:
		year = c.Intn(10000)
	case 2:
		year = []int{0, 1, 999, 1000, 9999}[c.Intn(5)]
	}
	if wild > 0 && c.Intn(wild*4) == 0 {
		year = []int{-1, 10000, 12345}[c.Intn(3)]
	}
	month := 1 + c.Intn(12)
	day := 1 + c.Intn(28)
	if c.Intn(6) == 0 {
		day = []int{28, 29, 30, 31}[c.Intn(4)] // may normalise into the next month: still a valid time
	}
	loc := time.UTC
	switch c.Intn(6) {
	case 0:
		loc = time.FixedZone("", []int{60, -60, 3600, -3600, 19800, -34200, 86340, -86340, 86400, -86400}[c.Intn(10)])
	case 1:
		loc = time.FixedZone("X", (c.Intn(2*1440)-1440)*60)
	case 2:
		loc = time.FixedZone("", 0)
	}
	if wild > 0 && c.Intn(wild) == 0 {
		loc = time.FixedZone("", []int{1, -1, 59, 61, -3599, 90000, -90000, 360000}[c.Intn(8)])
	}
	nsec := 0
	if c.Intn(4) == 0 {
		nsec = c.Intn(1000000000)
	}
	t := time.Date(year, time.Month(month), day, c.Intn(24), c.Intn(60), c.Intn(60), nsec, loc)
	if t.Year() == 1 && t.YearDay() == 1 && t.Hour() == 0 && t.Minute() == 0 && t.Second() == 0 && t.Nanosecond() == 0 {
		t = t.Add(time.Hour) // keep clear of the zero instant (the model identifies it with the zero value)
	}
	return t
}

func randRaw(c R, wild int) asn1.RawValue {
	switch c.Intn(4) {
	case 0: // FullBytes of a well-formed element
		inner := c.Bytes(c.Intn(4))
		full := append([]byte{[]byte{0x04, 0x13, 0x80, 0xa1, 0x30, 0x05}[c.Intn(6)], byte(len(inner))}, inner...)
		if full[0] == 0x05 {
			full = []byte{5, 0}
		}
		if full[0]&0x20 != 0 && len(inner) > 0 {
			full = append([]byte{full[0], byte(len(inner) + 2), 0x04, byte(len(inner))}, inner...)
		}
		return asn1.RawValue{FullBytes: full}
	default:
		r := asn1.RawValue{Class: c.Intn(4), Tag: c.Intn(31), IsCompound: c.Intn(4) == 0, Bytes: c.Bytes(c.Intn(5))}
		if c.Intn(6) == 0 {
			r.Tag = []int{31, 127, 128, 16384}[c.Intn(4)]
		}
		if r.IsCompound {
			if len(r.Bytes) > 0 {
				r.Bytes = append([]byte{0x04, byte(len(r.Bytes))}, r.Bytes...)
			}
		}
		if c.Intn(10) == 0 {
			r.Bytes = c.Bytes(130)
		}
		return r
	}
}

// StringTypeOf extracts the string-type parameter from a tag string.
func StringTypeOf(tag string) string {
	st := ""
	for _, p := range strings.Split(tag, ",") {
		switch p {
		case "ia5", "printable", "numeric", "utf8":
			st = p
		}
	}
	return st
}

// RandValue draws a value of GoType(t).  tag is the parameter string of the
// position the value sits in (it selects the string alphabet); wild > 0 makes
// one choice in `wild` leave the documented round-trip domain.
func RandValue(c R, t *Ty, tag string, wild int) reflect.Value {
	v := reflect.New(GoType(t)).Elem()
	FillValue(c, t, tag, wild, v)
	return v
}

func FillValue(c R, t *Ty, tag string, wild int, v reflect.Value) {
	zeroish := strings.Contains(tag, "optional") && c.Intn(3) == 0 // exercise omission
	switch t.K {
	case "bool":
		v.SetBool(c.Bool() && !zeroish)
	case "int", "int64":
		if !zeroish {
			v.SetInt(randInt64(c))
		} else if i := strings.Index(tag, "default:"); i >= 0 && c.Bool() {
			d, _ := strconv.ParseInt(strings.SplitN(tag[i+8:], ",", 2)[0], 10, 64)
			v.SetInt(d)
		}
	case "int32", "enum":
		if !zeroish {
			x := randInt64(c)
			if t.K == "int32" || c.Intn(3) > 0 {
				x = int64(int32(x))
			}
			v.SetInt(x)
		} else if i := strings.Index(tag, "default:"); i >= 0 && c.Bool() {
			d, _ := strconv.ParseInt(strings.SplitN(tag[i+8:], ",", 2)[0], 10, 64)
			v.SetInt(d)
		}
	case "big":
		if zeroish || (wild > 0 && c.Intn(wild) == 0) {
			return // nil
		}
		n := c.Intn(12)
		if c.Intn(8) == 0 {
			n = 20 + c.Intn(130)
		}
		x := new(big.Int).SetBytes(c.Bytes(n))
		switch c.Intn(6) {
		case 0:
			x = big.NewInt(randInt64(c))
		case 1: // exact powers of two: sign-byte boundaries
			x = new(big.Int).Lsh(big.NewInt(1), uint(7+8*c.Intn(12)))
			if c.Bool() {
				x.Sub(x, big.NewInt(1))
			}
		}
		if c.Bool() {
			x.Neg(x)
		}
		v.Set(reflect.ValueOf(x))
	case "str":
		if !zeroish {
			v.SetString(RandString(c, StringTypeOf(tag), wild))
		}
	case "oid":
		if !zeroish {
			v.Set(reflect.ValueOf(randOid(c, wild)))
		}
	case "bits":
		if !zeroish {
			v.Set(reflect.ValueOf(randBits(c, wild)))
		}
	case "time":
		if !zeroish {
			v.Set(reflect.ValueOf(RandTime(c, wild)))
		}
	case "bytes":
		if zeroish {
			return
		}
		n := c.Intn(6)
		if c.Intn(15) == 0 {
			n = 125 + c.Intn(10)
		}
		if c.Intn(40) == 0 {
			n = 255 + c.Intn(3) + 65280*c.Intn(2)
		}
		if n > 0 || c.Bool() {
			v.SetBytes(c.Bytes(n))
		}
	case "raw":
		if !zeroish {
			v.Set(reflect.ValueOf(randRaw(c, wild)))
		}
	case "flag":
		v.SetBool(!zeroish && (wild == 0 || strings.Contains(tag, "optional") || c.Intn(wild) > 0))
	case "struct":
		off := 0
		if t.Raw0 {
			off = 1
		}
		for i, f := range t.Fields {
			FillValue(c, f.T, f.Tag, wild, v.Field(i+off))
		}
	case "slice":
		if zeroish {
			return
		}
		n := c.Intn(4)
		if n == 0 && c.Bool() {
			return
		}
		s := reflect.MakeSlice(v.Type(), n, n)
		for i := 0; i < n; i++ {
			FillValue(c, t.Elem, "", wild, s.Index(i))
		}
		v.Set(s)
	}
}

// ---------------------------------------------------------------- lenient DER tree

// Node is one TLV of a leniently parsed encoding.  Kids != nil means the body
// was itself a sequence of TLVs (constructed, or an OCTET STRING / BIT STRING
// wrapping DER, as X.509 extension values and SubjectPublicKeyInfo do).
type Node struct {
	Hdr0     byte
	TagExtra []byte
	Kids     []*Node
	Pre      []byte // bytes of the body before the nested TLVs (the unused-bits octet of a BIT STRING)
	Body     []byte // when Kids == nil
	Raw      []byte // the bytes this node was parsed from (not updated by mutations)
	LongLen  int    // > 0: write the length in long form with this many length octets even if a shorter form exists
}

func ParseNodes(b []byte, depth int) ([]*Node, bool) {
	out := []*Node{}
	for len(b) > 0 {
		n, rest, ok := ParseNode(b, depth)
		if !ok {
			return nil, false
		}
		out = append(out, n)
		b = rest
	}
	return out, true
}

func ParseNode(b []byte, depth int) (*Node, []byte, bool) {
	if len(b) < 2 || depth > 40 {
		return nil, nil, false
	}
	n := &Node{Hdr0: b[0]}
	i := 1
	if b[0]&0x1f == 0x1f {
		for {
			if i >= len(b) || i > 6 {
				return nil, nil, false
			}
			n.TagExtra = append(n.TagExtra, b[i])
			i++
			if b[i-1]&0x80 == 0 {
				break
			}
		}
	}
	if i >= len(b) {
		return nil, nil, false
	}
	l := int(b[i])
	i++
	if l&0x80 != 0 {
		k := l & 0x7f
		if k == 0 || k > 3 || i+k > len(b) {
			return nil, nil, false
		}
		l = 0
		for j := 0; j < k; j++ {
			l = l<<8 | int(b[i+j])
		}
		i += k
	}
	if i+l > len(b) {
		return nil, nil, false
	}
	body := b[i : i+l]
	rest := b[i+l:]
	n.Raw = b[:i+l]
	if b[0]&0x20 != 0 {
		if kids, ok := ParseNodes(body, depth+1); ok {
			n.Kids = kids
			return n, rest, true
		}
	} else if b[0] == 0x04 && len(body) >= 2 {
		if kids, ok := ParseNodes(body, depth+1); ok && len(kids) == 1 {
			n.Kids = kids
			return n, rest, true
		}
	} else if b[0] == 0x03 && len(body) >= 3 && body[0] == 0 && body[1] == 0x30 {
		if kids, ok := ParseNodes(body[1:], depth+1); ok && len(kids) == 1 {
			n.Kids = kids
			n.Pre = []byte{0}
			return n, rest, true
		}
	}
	n.Body = append([]byte{}, body...)
	return n, rest, true
}

func (n *Node) BodyBytes() []byte {
	if n.Kids == nil {
		return n.Body
	}
	body := append([]byte{}, n.Pre...)
	for _, k := range n.Kids {
		body = append(body, k.Enc()...)
	}
	return body
}

func (n *Node) Enc() []byte {
	body := n.BodyBytes()
	out := append([]byte{n.Hdr0}, n.TagExtra...)
	l := len(body)
	var lb []byte
	for x := l; x > 0; x >>= 8 {
		lb = append([]byte{byte(x)}, lb...)
	}
	if n.LongLen == 0 && l < 128 {
		out = append(out, byte(l))
	} else {
		for len(lb) < n.LongLen || len(lb) == 0 {
			lb = append([]byte{0}, lb...) // a leading zero octet when LongLen asks for more than needed
		}
		out = append(out, 0x80|byte(len(lb)))
		out = append(out, lb...)
	}
	return append(out, body...)
}

func (n *Node) Walk(f func(*Node)) {
	f(n)
	for _, k := range n.Kids {
		k.Walk(f)
	}
}

// Mutation kinds that only a permissive decoder can accept ("perm*") and
// kinds that damage the structure ("bad*").
var MutKinds = []string{"permLongLen", "permIntPad", "permBadChar", "permTimeZone", "permTimeFrac", "permTimeYear",
	"badTag", "badTrunc", "badByte", "badBool", "badLenZeros", "badDropKid", "badDupKid"}

// Mutate applies one mutation of the given kind to node n; it returns an undo
// function, or nil when the kind does not apply to n.
func Mutate(c R, n *Node, kind string) func() {
	leaf := n.Kids == nil
	tagNo := n.Hdr0 & 0x1f
	universal := n.Hdr0&0xc0 == 0
	switch kind {
	case "permLongLen":
		if len(n.BodyBytes()) >= 128 {
			return nil
		}
		n.LongLen = 1
		return func() { n.LongLen = 0 }
	case "badLenZeros":
		n.LongLen = 2 + c.Intn(2)
		if len(n.BodyBytes()) >= 1<<(8*uint(n.LongLen-1)) {
			n.LongLen = 0
			return nil
		}
		return func() { n.LongLen = 0 }
	case "permIntPad":
		if !leaf || !(universal && (tagNo == 2 || tagNo == 10)) && c.Intn(6) > 0 {
			return nil
		}
		old := n.Body
		pad := byte(0)
		if len(old) > 0 && old[0]&0x80 != 0 {
			pad = 0xff
		}
		n.Body = append([]byte{pad}, old...)
		return func() { n.Body = old }
	case "permBadChar":
		if !leaf || len(n.Body) == 0 || !(universal && (tagNo == 12 || tagNo == 18 || tagNo == 19 || tagNo == 22)) && c.Intn(6) > 0 {
			return nil
		}
		old := n.Body
		n.Body = append([]byte{}, old...)
		n.Body[c.Intn(len(old))] = []byte{0xff, 0x80, '@', '_', 0xc0, 0x00}[c.Intn(6)]
		return func() { n.Body = old }
	case "permTimeZone", "permTimeFrac", "permTimeYear":
		if !leaf || !universal || (tagNo != 23 && tagNo != 24) || len(n.Body) < 11 {
			return nil
		}
		old := n.Body
		nb := append([]byte{}, old...)
		switch kind {
		case "permTimeZone":
			if nb[len(nb)-1] != 'Z' {
				return nil
			}
			nb = append(nb[:len(nb)-1], []string{"+0000", "-0000", "+0060", "+2460", "-0100", "+2400"}[c.Intn(6)]...)
		case "permTimeFrac":
			if nb[len(nb)-1] != 'Z' {
				return nil
			}
			nb = append(nb[:len(nb)-1], []string{".5Z", ",25Z", ".000Z", ".1234567891Z", ".Z"}[c.Intn(5)]...)
		case "permTimeYear":
			if tagNo != 23 {
				return nil
			}
			nb[0] = []byte{'+', '-'}[c.Intn(2)]
		}
		n.Body = nb
		return func() { n.Body = old }
	case "badTag":
		old := n.Hdr0
		n.Hdr0 = []byte{old ^ 0x20, old ^ 0x01, old ^ 0x80, 0x04, 0x30, 0x05, 0x13, 0x0c}[c.Intn(8)]
		if n.Hdr0&0x1f == 0x1f && len(n.TagExtra) == 0 {
			n.Hdr0 = old
			return nil
		}
		return func() { n.Hdr0 = old }
	case "badTrunc":
		if !leaf || len(n.Body) == 0 {
			return nil
		}
		old := n.Body
		n.Body = old[:c.Intn(len(old))]
		return func() { n.Body = old }
	case "badByte":
		if !leaf || len(n.Body) == 0 {
			return nil
		}
		old := n.Body
		n.Body = append([]byte{}, old...)
		n.Body[c.Intn(len(old))] ^= byte(1 << uint(c.Intn(8)))
		return func() { n.Body = old }
	case "badBool":
		if !leaf || !universal || tagNo != 1 {
			return nil
		}
		old := n.Body
		n.Body = []byte{[]byte{1, 0x7f, 0xfe}[c.Intn(3)]}
		return func() { n.Body = old }
	case "badDropKid":
		if len(n.Kids) == 0 {
			return nil
		}
		old := n.Kids
		i := c.Intn(len(old))
		n.Kids = append(append([]*Node{}, old[:i]...), old[i+1:]...)
		return func() { n.Kids = old }
	case "badDupKid":
		if len(n.Kids) == 0 {
			return nil
		}
		old := n.Kids
		i := c.Intn(len(old))
		n.Kids = append(append(append([]*Node{}, old[:i+1]...), old[i]), old[i+1:]...)
		return func() { n.Kids = old }
	}
	panic("unknown mutation " + kind)
}

// SetMode sets the global mode switch.
func SetMode(perm bool) { asn1.AllowPermissiveParsing = perm }

func init() {
	// time.Parse looks up the local zone for numeric offsets; pin it
	time.Local = time.UTC
	_ = fmt.Sprint
}
