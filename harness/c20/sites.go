package main

// Site lists regenerated from the tree under test (go/ast):
//
//  psites: every syntactic use of AllowPermissiveParsing in encoding/asn1 and
//          x509 (non-test files) with the shape of its enclosing statement,
//          drawn from a closed set of shapes each of which is conservative in
//          any context (see coq/model/C20Shapes.v), or PUnknown.
//  calls:  every asn1.Unmarshal / asn1.UnmarshalWithParams call in a function
//          of package x509 reachable (by name) from ParseCertificate, with the
//          shape of its error handling: Propagate, Guarded, Returned, or Swallow.

import (
	"bytes"
	"fmt"
	"go/ast"
	"go/parser"
	"go/printer"
	"go/token"
	"os"
	"path/filepath"
	"sort"
	"strings"

	"verifharness/vh"
)

type psite struct {
	file, fn string
	line     int
	shape    string
}

type csite struct {
	file, fn string
	line     int
	shape    string
	callee   string
}

// calleeName: the name of a called function or method of package x509 (not asn1./pkix./ct. selectors, not
// method names shared with the standard library)
var x509names map[string]bool

func calleeName(call *ast.CallExpr) string {
	switch f := call.Fun.(type) {
	case *ast.Ident:
		if x509names[f.Name] {
			return f.Name
		}
	case *ast.SelectorExpr:
		if id, isID := f.X.(*ast.Ident); isID && (id.Name == "asn1" || id.Name == "pkix" || id.Name == "ct") {
			return ""
		}
		switch f.Sel.Name {
		case "String", "Equal", "Error", "Write", "Sum", "Sign", "Bytes", "MarshalJSON", "UnmarshalJSON", "Verify":
			return ""
		}
		if x509names[f.Sel.Name] {
			return f.Sel.Name
		}
	}
	return ""
}

var fset = token.NewFileSet()

// set while a function is being classified: its last result has type error
var curReturnsError bool

// set while the body of `if err != nil` is classified: a naked return there returns the non-nil named err
var nakedReturnRejects bool

func returnsError(d *ast.FuncDecl) bool {
	if d.Type.Results == nil || len(d.Type.Results.List) == 0 {
		return false
	}
	last := d.Type.Results.List[len(d.Type.Results.List)-1]
	id, ok := last.Type.(*ast.Ident)
	return ok && id.Name == "error"
}

func exprText(e ast.Expr) string {
	var b bytes.Buffer
	printer.Fprint(&b, fset, e)
	return b.String()
}

func isP(e ast.Expr) bool {
	switch x := e.(type) {
	case *ast.ParenExpr:
		return isP(x.X)
	case *ast.Ident:
		return x.Name == "AllowPermissiveParsing"
	case *ast.SelectorExpr:
		if id, ok := x.X.(*ast.Ident); ok {
			return id.Name == "asn1" && x.Sel.Name == "AllowPermissiveParsing"
		}
	}
	return false
}

func isNotP(e ast.Expr) bool {
	switch x := e.(type) {
	case *ast.ParenExpr:
		return isNotP(x.X)
	case *ast.UnaryExpr:
		return x.Op == token.NOT && isP(x.X)
	}
	return false
}

func mentionsP(n ast.Node) bool {
	found := false
	ast.Inspect(n, func(x ast.Node) bool {
		if id, ok := x.(*ast.Ident); ok && id.Name == "AllowPermissiveParsing" {
			found = true
		}
		return !found
	})
	return found
}

func conjuncts(e ast.Expr) []ast.Expr {
	switch x := e.(type) {
	case *ast.ParenExpr:
		return conjuncts(x.X)
	case *ast.BinaryExpr:
		if x.Op == token.LAND {
			return append(conjuncts(x.X), conjuncts(x.Y)...)
		}
	}
	return []ast.Expr{e}
}

func isNilIdent(e ast.Expr) bool {
	id, ok := e.(*ast.Ident)
	return ok && id.Name == "nil"
}

func isErrAssign(s ast.Stmt) bool {
	a, ok := s.(*ast.AssignStmt)
	if !ok || a.Tok != token.ASSIGN || len(a.Lhs) != 1 || len(a.Rhs) != 1 {
		return false
	}
	id, ok := a.Lhs[0].(*ast.Ident)
	return ok && id.Name == "err" && !isNilIdent(a.Rhs[0])
}

// rejectOnly: the statements can only leave by returning a non-nil error (or
// fall through without any effect other than having set err); setsErr reports
// an `err = x` that is not directly followed by a return.
func rejectOnly(stmts []ast.Stmt) (ok bool, setsErr bool) {
	for i, s := range stmts {
		switch x := s.(type) {
		case *ast.ReturnStmt:
			if !curReturnsError {
				return false, false
			}
			if len(x.Results) == 0 {
				if !nakedReturnRejects && (i == 0 || !isErrAssign(stmts[i-1])) {
					return false, false
				}
			} else if isNilIdent(x.Results[len(x.Results)-1]) {
				return false, false
			}
		case *ast.AssignStmt:
			if !isErrAssign(s) {
				return false, false
			}
			if i+1 >= len(stmts) {
				setsErr = true
			} else if _, isRet := stmts[i+1].(*ast.ReturnStmt); !isRet {
				setsErr = true
			}
		case *ast.IfStmt:
			if x.Init != nil {
				if a, isA := x.Init.(*ast.AssignStmt); !isA || a.Tok != token.DEFINE {
					return false, false
				}
			}
			if mentionsP(x.Cond) {
				return false, false
			}
			o, se := rejectOnly(x.Body.List)
			if !o {
				return false, false
			}
			setsErr = setsErr || se
			if x.Else != nil {
				var el []ast.Stmt
				switch e := x.Else.(type) {
				case *ast.BlockStmt:
					el = e.List
				default:
					el = []ast.Stmt{e}
				}
				o, se := rejectOnly(el)
				if !o {
					return false, false
				}
				setsErr = setsErr || se
			}
		case *ast.ForStmt:
			o, se := rejectOnly(x.Body.List)
			if !o {
				return false, false
			}
			setsErr = setsErr || se
		case *ast.RangeStmt:
			o, se := rejectOnly(x.Body.List)
			if !o {
				return false, false
			}
			setsErr = setsErr || se
		case *ast.BlockStmt:
			o, se := rejectOnly(x.List)
			if !o {
				return false, false
			}
			setsErr = setsErr || se
		default:
			return false, false
		}
	}
	return true, setsErr
}

func isRejectingReturn(stmts []ast.Stmt, i int) bool {
	r, ok := stmts[i].(*ast.ReturnStmt)
	if !ok {
		return false
	}
	if !curReturnsError {
		return false
	}
	if len(r.Results) == 0 {
		return nakedReturnRejects || (i > 0 && isErrAssign(stmts[i-1]))
	}
	return !isNilIdent(r.Results[len(r.Results)-1])
}

// mustReject: reject-only and the last statement is a rejecting return
func mustReject(stmts []ast.Stmt) bool {
	if len(stmts) == 0 {
		return false
	}
	ok, _ := rejectOnly(stmts)
	return ok && isRejectingReturn(stmts, len(stmts)-1)
}

// mustRejectStrict: in strict mode the statements always end in a rejecting
// return: `if P {…}` statements are skipped, `if !P { mustReject }` rejects.
func mustRejectStrict(stmts []ast.Stmt) (ok bool, usesP bool) {
	var kept []ast.Stmt
	for _, s := range stmts {
		if ifs, isIf := s.(*ast.IfStmt); isIf && ifs.Init == nil {
			if isP(ifs.Cond) && ifs.Else == nil {
				usesP = true
				continue
			}
			if isNotP(ifs.Cond) && ifs.Else == nil && mustReject(ifs.Body.List) {
				return true, true
			}
		}
		kept = append(kept, s)
	}
	return mustReject(kept), usesP
}

type frame struct {
	node ast.Node
}

// siblings returns the statement list that directly contains s and its index
func siblings(stack []ast.Node, s ast.Stmt) ([]ast.Stmt, int) {
	for i := len(stack) - 1; i >= 0; i-- {
		var list []ast.Stmt
		switch x := stack[i].(type) {
		case *ast.BlockStmt:
			list = x.List
		case *ast.CaseClause:
			list = x.Body
		case *ast.CommClause:
			list = x.Body
		default:
			continue
		}
		for j, y := range list {
			if y == s {
				return list, j
			}
		}
		return nil, -1
	}
	return nil, -1
}

func classifyP(stack []ast.Node, occ ast.Node) string {
	// innermost IfStmt whose condition contains the occurrence
	var ifs *ast.IfStmt
	var ifIdx int
	for i := len(stack) - 1; i >= 0; i-- {
		if x, ok := stack[i].(*ast.IfStmt); ok && x.Cond.Pos() <= occ.Pos() && occ.End() <= x.Cond.End() {
			ifs, ifIdx = x, i
			break
		}
	}
	if ifs == nil {
		return "PUnknown"
	}
	if ifs.Init != nil {
		return "PUnknown"
	}
	var others []string
	pos, neg := 0, 0
	for _, cj := range conjuncts(ifs.Cond) {
		switch {
		case isP(cj):
			pos++
		case isNotP(cj):
			neg++
		case mentionsP(cj):
			return "PUnknown"
		default:
			others = append(others, exprText(cj))
		}
	}
	if pos+neg != 1 {
		return "PUnknown"
	}
	list, idx := siblings(stack[:ifIdx], ifs)
	if neg == 1 {
		if ifs.Else != nil {
			return "PUnknown"
		}
		ok, setsErr := rejectOnly(ifs.Body.List)
		if !ok {
			return "PUnknown"
		}
		if !setsErr {
			return "StrictOnlyReject"
		}
		// err set without return: the very next statement must be the function's return
		if list != nil && idx+1 < len(list) {
			if r, isRet := list[idx+1].(*ast.ReturnStmt); isRet && len(r.Results) == 0 {
				return "StrictOnlySetErrThenReturn"
			}
		}
		return "PUnknown"
	}
	// positive test
	if ifs.Else != nil {
		if len(others) > 0 {
			return "PUnknown"
		}
		if el, ok := ifs.Else.(*ast.BlockStmt); ok && mustReject(el.List) {
			return "PermElseReject"
		}
		return "PUnknown"
	}
	if list == nil {
		return "PUnknown"
	}
	if len(others) == 0 {
		if mustReject(list[idx+1:]) {
			return "PermEscapeThenReject"
		}
		return "PUnknown"
	}
	if idx+1 < len(list) {
		if nx, ok := list[idx+1].(*ast.IfStmt); ok && nx.Init == nil && nx.Else == nil &&
			exprText(nx.Cond) == strings.Join(others, " && ") && mustReject(nx.Body.List) {
			return "PermCondEscapeThenReject"
		}
	}
	return "PUnknown"
}

func isUnmarshalCall(e ast.Expr) bool {
	c, ok := e.(*ast.CallExpr)
	if !ok {
		return false
	}
	s, ok := c.Fun.(*ast.SelectorExpr)
	if !ok {
		return false
	}
	id, ok := s.X.(*ast.Ident)
	return ok && id.Name == "asn1" && (s.Sel.Name == "Unmarshal" || s.Sel.Name == "UnmarshalWithParams")
}

func errNameOf(a *ast.AssignStmt) string {
	if len(a.Lhs) == 0 {
		return ""
	}
	if id, ok := a.Lhs[len(a.Lhs)-1].(*ast.Ident); ok {
		return id.Name
	}
	return ""
}

func handledAfter(list []ast.Stmt, idx int, errName string) string {
	if idx+1 >= len(list) {
		return "Swallow"
	}
	nx, ok := list[idx+1].(*ast.IfStmt)
	if !ok || nx.Init != nil {
		return "Swallow"
	}
	return handledIf(nx, list, idx+1, errName)
}

func handledIf(ifs *ast.IfStmt, list []ast.Stmt, idx int, errName string) string {
	ne := errName + " != nil"
	cond := exprText(ifs.Cond)
	switch {
	case cond == ne:
		// an else branch only runs when the call succeeded
		nakedReturnRejects = errName == "err"
		ok, usesP := mustRejectStrict(ifs.Body.List)
		nakedReturnRejects = false
		if ok && usesP {
			return "Guarded"
		}
		if ok {
			return "Propagate"
		}
	case (cond == ne+" && asn1.AllowPermissiveParsing" || cond == ne+" && AllowPermissiveParsing") && ifs.Else == nil:
		if list != nil && idx+1 < len(list) {
			if nx, ok := list[idx+1].(*ast.IfStmt); ok && nx.Init == nil && nx.Else == nil && exprText(nx.Cond) == ne && mustReject(nx.Body.List) {
				return "Guarded"
			}
		}
	case (cond == ne+" && !asn1.AllowPermissiveParsing" || cond == ne+" && !AllowPermissiveParsing") && ifs.Else == nil:
		// strict: rejects; permissive: the error is dropped — conservative iff what follows does not depend on the
		// failed result; accepted only when the next statement is guarded by `err == nil`
		if mustReject(ifs.Body.List) && list != nil && idx+1 < len(list) {
			if nx, ok := list[idx+1].(*ast.IfStmt); ok && exprText(nx.Cond) == errName+" == nil" {
				return "Guarded"
			}
		}
	case cond == errName+" == nil" && ifs.Else != nil:
		if el, ok := ifs.Else.(*ast.BlockStmt); ok {
			if ok2, usesP := mustRejectStrict(el.List); ok2 {
				if usesP {
					return "Guarded"
				}
				return "Propagate"
			}
		}
	}
	return "Swallow"
}

func classifyCall(stack []ast.Node, call *ast.CallExpr) string {
	// the statement that holds the call
	for i := len(stack) - 1; i >= 0; i-- {
		switch x := stack[i].(type) {
		case *ast.ReturnStmt:
			return "Returned"
		case *ast.AssignStmt:
			en := errNameOf(x)
			if en == "" || en == "_" {
				return "Swallow"
			}
			// `if …, err := call; cond {`
			if i > 0 {
				if ifs, ok := stack[i-1].(*ast.IfStmt); ok && ifs.Init == x {
					list, idx := siblings(stack[:i-1], ifs)
					return handledIf(ifs, list, idx, en)
				}
			}
			list, idx := siblings(stack[:i], x)
			if list == nil {
				return "Swallow"
			}
			return handledAfter(list, idx, en)
		case *ast.ExprStmt:
			return "Swallow"
		case ast.Stmt:
			return "Swallow"
		}
	}
	return "Swallow"
}

func walkWithStack(root ast.Node, f func(stack []ast.Node, n ast.Node)) {
	var stack []ast.Node
	ast.Inspect(root, func(n ast.Node) bool {
		if n == nil {
			stack = stack[:len(stack)-1]
			return true
		}
		f(stack, n)
		stack = append(stack, n)
		return true
	})
}

func coqStr(s string) string { return `"` + strings.ReplaceAll(s, `"`, `""`) + `"` }

func writeSites(c *vh.Ctx) {
	root := repoDir()
	var ps []psite
	var cs []csite
	textual := 0
	type fdecl struct {
		file string
		d    *ast.FuncDecl
	}
	x509funcs := map[string][]fdecl{}
	for _, dir := range []string{"encoding/asn1", "x509"} {
		ents, err := os.ReadDir(filepath.Join(root, dir))
		if err != nil {
			panic(err)
		}
		for _, e := range ents {
			name := e.Name()
			if e.IsDir() || !strings.HasSuffix(name, ".go") || strings.HasSuffix(name, "_test.go") {
				continue
			}
			path := filepath.Join(root, dir, name)
			src, err := os.ReadFile(path)
			if err != nil {
				panic(err)
			}
			f, err := parser.ParseFile(fset, path, src, 0)
			if err != nil {
				panic(err)
			}
			rel := dir + "/" + name
			for _, d := range f.Decls {
				switch x := d.(type) {
				case *ast.GenDecl:
					// a use outside any function other than the declaration itself
					for _, sp := range x.Specs {
						vs, ok := sp.(*ast.ValueSpec)
						if !ok {
							if mentionsP(sp) {
								ps = append(ps, psite{rel, "(package level)", fset.Position(sp.Pos()).Line, "PUnknown"})
								textual++
							}
							continue
						}
						for _, v := range vs.Values {
							if mentionsP(v) {
								ps = append(ps, psite{rel, "(package level)", fset.Position(v.Pos()).Line, "PUnknown"})
								textual++
							}
						}
					}
				case *ast.FuncDecl:
					if x.Body == nil {
						continue
					}
					if dir == "x509" {
						x509funcs[x.Name.Name] = append(x509funcs[x.Name.Name], fdecl{rel, x})
					}
					fn := x.Name.Name
					curReturnsError = returnsError(x)
					walkWithStack(x, func(stack []ast.Node, n ast.Node) {
						id, ok := n.(*ast.Ident)
						if !ok || id.Name != "AllowPermissiveParsing" {
							return
						}
						textual++
						var occ ast.Node = id
						if len(stack) > 0 {
							if se, ok := stack[len(stack)-1].(*ast.SelectorExpr); ok && se.Sel == id {
								occ = se
							}
						}
						// an assignment to the switch is not a test
						shape := classifyP(stack, occ)
						for i := len(stack) - 1; i >= 0; i-- {
							if a, ok := stack[i].(*ast.AssignStmt); ok {
								for _, l := range a.Lhs {
									if l.Pos() <= occ.Pos() && occ.End() <= l.End() {
										shape = "PUnknown"
									}
								}
							}
						}
						ps = append(ps, psite{rel, fn, fset.Position(id.Pos()).Line, shape})
					})
				}
			}
		}
	}
	// reachability by name inside package x509 from ParseCertificate
	x509names = map[string]bool{}
	for n := range x509funcs {
		x509names[n] = true
	}
	reach := map[string]bool{}
	todo := []string{"ParseCertificate"}
	for len(todo) > 0 {
		n := todo[len(todo)-1]
		todo = todo[:len(todo)-1]
		if reach[n] {
			continue
		}
		reach[n] = true
		for _, fd := range x509funcs[n] {
			ast.Inspect(fd.d.Body, func(x ast.Node) bool {
				if call, ok := x.(*ast.CallExpr); ok {
					if cn := calleeName(call); cn != "" && !reach[cn] {
						todo = append(todo, cn)
					}
				}
				return true
			})
		}
	}
	// mode-dependent functions of package x509: those that (transitively, by name) call asn1.Unmarshal*
	md := map[string]bool{}
	for changed := true; changed; {
		changed = false
		for n, fds := range x509funcs {
			if md[n] {
				continue
			}
			for _, fd := range fds {
				ast.Inspect(fd.d.Body, func(x ast.Node) bool {
					call, ok := x.(*ast.CallExpr)
					if !ok || md[n] {
						return !md[n]
					}
					if isUnmarshalCall(call) {
						md[n] = true
					} else if cn := calleeName(call); cn != "" && md[cn] && cn != n {
						md[n] = true
					}
					return !md[n]
				})
			}
			if md[n] {
				changed = true
			}
		}
	}
	var names []string
	for n := range reach {
		if len(x509funcs[n]) > 0 {
			names = append(names, n)
		}
	}
	sort.Strings(names)
	for _, n := range names {
		for _, fd := range x509funcs[n] {
			curReturnsError = returnsError(fd.d)
			walkWithStack(fd.d, func(stack []ast.Node, x ast.Node) {
				call, ok := x.(*ast.CallExpr)
				if !ok {
					return
				}
				callee := ""
				if isUnmarshalCall(call) {
					callee = "asn1.Unmarshal"
				} else if cn := calleeName(call); cn != "" && md[cn] {
					callee = cn
				}
				if callee == "" {
					return
				}
				cs = append(cs, csite{fd.file, n, fset.Position(call.Pos()).Line, classifyCall(stack, call), callee})
			})
		}
	}
	sort.SliceStable(ps, func(i, j int) bool {
		if ps[i].file != ps[j].file {
			return ps[i].file < ps[j].file
		}
		return ps[i].line < ps[j].line
	})
	sort.SliceStable(cs, func(i, j int) bool {
		if cs[i].file != cs[j].file {
			return cs[i].file < cs[j].file
		}
		return cs[i].line < cs[j].line
	})
	var sb strings.Builder
	sb.WriteString("(* GENERATED by harness/c20 --tables from the tree under test (go/ast). Do not edit. *)\n")
	sb.WriteString("From Coq Require Import List String NArith.\nFrom VerifModel Require Import C20Shapes.\nImport ListNotations.\nOpen Scope string_scope.\n\n")
	sb.WriteString("(* every syntactic use of AllowPermissiveParsing: (file, function, line, shape of the enclosing statement) *)\n")
	sb.WriteString("Definition psites : list (string * string * N * pshape) := [\n")
	for i, s := range ps {
		sep := ";"
		if i == len(ps)-1 {
			sep = ""
		}
		fmt.Fprintf(&sb, "  (%s, %s, %d%%N, %s)%s\n", coqStr(s.file), coqStr(s.fn), s.line, s.shape, sep)
	}
	sb.WriteString("].\n\n")
	fmt.Fprintf(&sb, "(* identifier occurrences counted independently of the classification *)\nDefinition textual_uses : N := %d%%N.\n\n", textual)
	sb.WriteString("(* every call, in a function of package x509 reachable from ParseCertificate, of asn1.Unmarshal* or of a package function that\n   transitively calls it: (file, function, callee, line, error handling) *)\n")
	sb.WriteString("Definition calls : list (string * string * string * N * cshape) := [\n")
	for i, s := range cs {
		sep := ";"
		if i == len(cs)-1 {
			sep = ""
		}
		fmt.Fprintf(&sb, "  (%s, %s, %s, %d%%N, %s)%s\n", coqStr(s.file), coqStr(s.fn), coqStr(s.callee), s.line, s.shape, sep)
	}
	sb.WriteString("].\n")
	c.WriteGen("C20Sites_gen.v", sb.String())
}
