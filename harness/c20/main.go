// C20 harness.
//
// stream "case": random target types (reflect.StructOf) x inputs (valid
// encodings, encodings mutated with forms only a permissive decoder accepts,
// structural damage, enumerated short inputs); asn1.UnmarshalWithParams is run
// in strict and in permissive mode and both outcomes are printed for the Coq
// model.  Oracle (implementation only): when strict accepts, permissive must
// accept with the same rest and a deeply equal value.
//
// x509 differential (oracle only): every seed certificate under x509/testdata,
// every node x every mutation kind, plus random multi-mutations;
// ParseCertificate in both modes; when strict accepts, the permissive result
// must be deeply equal and have the same JSON.
//
// --tables: go/ast walk over encoding/asn1 and x509 that lists every syntactic
// use of AllowPermissiveParsing with the shape of its enclosing statement, and
// every asn1.Unmarshal* call reachable from ParseCertificate with the shape of
// its error handling  ->  C20Sites_gen.v
package main

import (
	"bytes"
	"embed"
	"encoding/json"
	"encoding/pem"
	"fmt"
	"math/big"
	"os"
	"path/filepath"
	"reflect"
	"sort"
	"strings"

	"github.com/zmap/zcrypto/encoding/asn1"
	"github.com/zmap/zcrypto/x509"
	"github.com/zmap/zcrypto/x509/pkix"
	"verifharness/c20/gen"
	"verifharness/vh"
)

type input struct {
	Ty     *gen.Ty `json:"ty"`
	Params string  `json:"params"`
	Hex    string  `json:"hex"`
	Kind   string  `json:"kind"`
}

type outcome struct {
	ok   bool
	val  reflect.Value
	rest []byte
	pan  string
}

func unmarshal(perm bool, goT reflect.Type, params string, b []byte) (o outcome) {
	gen.SetMode(perm)
	defer gen.SetMode(false)
	defer func() {
		if r := recover(); r != nil {
			o = outcome{pan: fmt.Sprint(r)}
		}
	}()
	ptr := reflect.New(goT)
	rest, err := asn1.UnmarshalWithParams(b, ptr.Interface(), params)
	if err != nil {
		return outcome{}
	}
	return outcome{ok: true, val: ptr.Elem(), rest: rest}
}

func coqObs(t *gen.Ty, o outcome) string {
	if !o.ok {
		return "None"
	}
	return vh.Some(vh.Pair(gen.CoqValue(t, o.val), vh.NI(len(o.rest))))
}

func runCase(c *vh.Ctx, in input) {
	b := vh.UnHex(in.Hex)
	goT := gen.GoType(in.Ty)
	s := unmarshal(false, goT, in.Params, b)
	p := unmarshal(true, goT, in.Params, b)
	if s.pan != "" || p.pan != "" {
		c.Violation("asn1-panic", "Unmarshal panicked: "+s.pan+p.pan, "case", in)
		return
	}
	nk := ""
	if p.ok {
		nk = in.Hex + "|" + in.Params + "|" + gen.CoqTy(in.Ty)
	}
	switch {
	case s.ok && p.ok:
		c.Stat("both_accept", 1)
	case p.ok:
		c.Stat("perm_only_accept", 1)
	case s.ok:
		c.Stat("strict_only_accept", 1)
	default:
		c.Stat("both_reject", 1)
	}
	c.Stat("kind."+in.Kind, 1)
	c.Case("case", vh.Pair(gen.CoqParams(in.Params), gen.CoqTy(in.Ty), vh.Bytes(b), coqObs(in.Ty, s), coqObs(in.Ty, p)), in, nk)
	// the property, on the implementation alone
	if s.ok {
		switch {
		case !p.ok:
			c.Violation("asn1-perm-rejects", "strict Unmarshal accepts, permissive rejects", "case", in)
		case !bytes.Equal(s.rest, p.rest):
			c.Violation("asn1-perm-rest-differs", fmt.Sprintf("strict rest %x, permissive rest %x", s.rest, p.rest), "case", in)
		case !reflect.DeepEqual(s.val.Interface(), p.val.Interface()):
			c.Violation("asn1-perm-value-differs", fmt.Sprintf("strict %+v, permissive %+v", s.val.Interface(), p.val.Interface()), "case", in)
		}
	}
}

// mutated variants of a valid encoding
func variants(c gen.R, enc []byte, n int) (out [][]byte, kinds []string) {
	root, rest, ok := gen.ParseNode(enc, 0)
	if !ok || len(rest) != 0 {
		return
	}
	var all []*gen.Node
	root.Walk(func(x *gen.Node) { all = append(all, x) })
	for tries := 0; tries < 4*n && len(out) < n; tries++ {
		k := 1 + c.Intn(2)
		var undo []func()
		var names []string
		for j := 0; j < k; j++ {
			kind := gen.MutKinds[c.Intn(len(gen.MutKinds))]
			if c.Intn(3) > 0 {
				kind = gen.MutKinds[c.Intn(6)] // favour the permissive-only forms
			}
			if u := gen.Mutate(c, all[c.Intn(len(all))], kind); u != nil {
				undo = append(undo, u)
				names = append(names, kind)
			}
		}
		if len(undo) > 0 {
			out = append(out, root.Enc())
			kinds = append(kinds, strings.Join(names, "+"))
		}
		for j := len(undo) - 1; j >= 0; j-- {
			undo[j]()
		}
	}
	return
}

func tyJSON(t *gen.Ty) string { b, _ := json.Marshal(t); return string(b) }

func genCases(ctx *vh.Ctx) {
	c := gen.NewRand(ctx.Seed, "C20/case")
	nTypes := 130
	if ctx.Thorough {
		nTypes = 6000
	}
	for i := 0; i < nTypes; i++ {
		t := gen.RandTy(c, 3)
		params := ""
		if c.Intn(3) == 0 {
			params = gen.RandTag(c, t)
		}
		goT := gen.GoType(t)
		for j := 0; j < 2; j++ {
			v := gen.RandValue(c, t, params, 12)
			enc, err := marshal(v, params)
			if err != nil {
				ctx.Stat("marshal_rejected", 1)
				continue
			}
			emit := func(b []byte, kind string) {
				if len(b) > 700 {
					return
				}
				runCase(ctx, input{Ty: t, Params: params, Hex: vh.Hex(b), Kind: kind})
			}
			emit(enc, "valid")
			if c.Intn(3) == 0 {
				emit(append(append([]byte{}, enc...), c.Bytes(1+c.Intn(3))...), "valid+trailing")
			}
			vs, ks := variants(c, enc, 4)
			for k := range vs {
				emit(vs[k], ks[k])
			}
			if c.Intn(4) == 0 && len(enc) > 0 { // raw byte damage
				b := append([]byte{}, enc...)
				b[c.Intn(len(b))] = byte(c.Intn(256))
				emit(b, "bytedamage")
			}
			if c.Intn(6) == 0 && len(enc) > 1 {
				emit(enc[:c.Intn(len(enc))], "truncated")
			}
		}
		_ = goT
	}
	// every primitive target x short enumerated inputs: tag octet x length octet(s) x contents
	prims := []string{"bool", "int", "int32", "big", "enum", "str", "oid", "bits", "time", "bytes", "raw", "flag"}
	tags := []byte{0x01, 0x02, 0x03, 0x04, 0x06, 0x0a, 0x0c, 0x13, 0x16, 0x17, 0x18, 0x1e, 0x30, 0x80, 0x1f}
	conts := [][]byte{{}, {0}, {0xff}, {0x7f}, {0x80}, {0, 0}, {0, 0x7f}, {0, 0x80}, {0xff, 0x80}, {0xff, 0x7f}, {0x2a, 0x80, 0x01},
		{0x2a, 0x86, 0x48}, {7, 0x80}, {1, 0x03}, {0, 0x41}, {0xd8, 0x00, 0xdc, 0x00}, {0xd8, 0x00}, {0x41, 0x00, 0x00}, {0xc3, 0xa9}, {0xc3}, {'a', '*'}, {'1', '@'}}
	times := []string{"200102030405Z", "2001020304Z", "20200102030405Z", "200102030405+0000", "200102030405+0530", "200102030405-2400",
		"+50102030405Z", "-50102030405Z", "20200102030405.5Z", "20200230030405Z", "20200229030405Z", "19000229030405Z", "690102030405Z",
		"500102030405Z", "200102030460Z", "200102032405Z", "20200102030405,123456789012Z", "2001020304+2460", "20011302030405Z", "200102030405Zx", "2001020304Z "}
	for _, ts := range times {
		conts = append(conts, []byte(ts))
	}
	step := 1
	if !ctx.Thorough {
		step = 10 // a deterministic 1/10 sample of the product in the quick tier (seed-shifted)
	}
	idx := int(ctx.Seed % 10)
	for _, pk := range prims {
		t := &gen.Ty{K: pk}
		for _, tg := range tags {
			for _, ct := range conts {
				for lf := 0; lf < 3; lf++ {
					idx++
					if idx%step != 0 {
						continue
					}
					var b []byte
					b = append(b, tg)
					if tg == 0x1f {
						b = append(b, []byte{0x1f, 0x81, 0x00}[lf%3])
						if lf%3 == 1 {
							b = append(b, 0x00)
						}
					}
					switch lf {
					case 0:
						b = append(b, byte(len(ct)))
					case 1:
						b = append(b, 0x81, byte(len(ct)))
					case 2:
						b = append(b, 0x82, 0x00, byte(len(ct)))
					}
					b = append(b, ct...)
					params := ""
					if tg == 0x80 {
						params = []string{"tag:0", "tag:0,generalized", "tag:0,utf8", "tag:0,ia5", "tag:0,optional"}[idx%5]
					}
					runCase(ctx, input{Ty: t, Params: params, Hex: vh.Hex(b), Kind: "enum"})
				}
			}
		}
	}
	ctx.Note("enumerated product: 12 primitive targets x 15 tag octets x (22 contents + 21 time strings) x 3 length forms" +
		map[bool]string{true: " (complete)", false: " (1/10 sample, offset by seed)"}[ctx.Thorough])
}

func marshal(v reflect.Value, params string) (b []byte, err error) {
	defer func() {
		if r := recover(); r != nil {
			err = fmt.Errorf("panic: %v", r)
		}
	}()
	return asn1.MarshalWithParams(v.Interface(), params)
}

// ---------------------------------------------------------------- x509 differential

type certInput struct {
	Seed string `json:"seed"` // file name under x509/testdata
	Hex  string `json:"hex"`  // mutated certificate
	Kind string `json:"kind"`
}

func repoDir() string {
	if d := os.Getenv("VERIF_REPO_DIR"); d != "" {
		return d
	}
	return "/repo"
}

// certificates with algorithms x509/testdata lacks (ECDSA and RSA-PSS self-signed, Ed25519, all common extensions),
// generated once with crypto/x509
//
//go:embed seeds/*.pem
var extraSeeds embed.FS

func loadSeeds() (names []string, ders [][]byte) {
	if es, err := extraSeeds.ReadDir("seeds"); err == nil {
		for _, e := range es {
			raw, _ := extraSeeds.ReadFile("seeds/" + e.Name())
			if blk, _ := pem.Decode(raw); blk != nil {
				names = append(names, "embedded:"+e.Name())
				ders = append(ders, blk.Bytes)
			}
		}
	}
	dir := filepath.Join(repoDir(), "x509", "testdata")
	ents, _ := os.ReadDir(dir)
	for _, e := range ents {
		if e.IsDir() || !(strings.HasSuffix(e.Name(), ".pem") || strings.HasSuffix(e.Name(), ".cert")) {
			continue
		}
		raw, err := os.ReadFile(filepath.Join(dir, e.Name()))
		if err != nil {
			continue
		}
		for {
			var blk *pem.Block
			blk, raw = pem.Decode(raw)
			if blk == nil {
				break
			}
			if blk.Type == "CERTIFICATE" {
				names = append(names, e.Name())
				ders = append(ders, blk.Bytes)
			}
		}
	}
	return
}

func parseCert(perm bool, der []byte) (cert *x509.Certificate, err error, pan string) {
	gen.SetMode(perm)
	defer gen.SetMode(false)
	defer func() {
		if r := recover(); r != nil {
			pan = fmt.Sprint(r)
		}
	}()
	cert, err = x509.ParseCertificate(der)
	return
}

func diffFields(a, b *x509.Certificate) (out []string) {
	va, vb := reflect.ValueOf(*a), reflect.ValueOf(*b)
	for i := 0; i < va.NumField(); i++ {
		if va.Type().Field(i).PkgPath == "" && !reflect.DeepEqual(va.Field(i).Interface(), vb.Field(i).Interface()) {
			out = append(out, va.Type().Field(i).Name)
		}
	}
	return
}

type sigRS struct{ R, S *big.Int }

type pssParameters struct {
	Hash         pkix.AlgorithmIdentifier `asn1:"explicit,tag:0"`
	MGF          pkix.AlgorithmIdentifier `asn1:"explicit,tag:1"`
	SaltLength   int                      `asn1:"explicit,tag:2"`
	TrailerField int                      `asn1:"optional,explicit,tag:3,default:1"`
}

// permOnly: b decodes into a fresh value of ptr's type only in permissive mode
func permOnly(b []byte, mk func() interface{}) bool {
	gen.SetMode(false)
	_, es := asn1.Unmarshal(b, mk())
	gen.SetMode(true)
	_, ep := asn1.Unmarshal(b, mk())
	gen.SetMode(false)
	return es != nil && ep == nil
}

// classifyDiff names the class of a strict/permissive disagreement.  Two classes are known findings; they are
// recognised by their cause (not just by the field that differs), so that any other disagreement keeps its own key:
//   - selfsigned: only SelfSigned (and ValidationLevel, computed from it) differs, and the signature value is a DER
//     structure {R,S} that only the permissive decoder accepts (CheckSignature's error is dropped by parseCertificate)
//   - sigalg-params: SignatureAlgorithm differs, and the RSASSA-PSS parameters of tbsCertificate.signature decode only
//     in permissive mode (GetSignatureAlgorithmFromAI maps a decode error to UnknownSignatureAlgorithm)
func classifyDiff(cs, cp *x509.Certificate, der []byte) (key, desc string) {
	d := diffFields(cs, cp)
	set := map[string]bool{}
	for _, f := range d {
		set[f] = true
	}
	desc = "strict and permissive ParseCertificate both accept but differ in " + strings.Join(d, ",")
	other := ""
	for _, f := range d {
		if f != "SelfSigned" && f != "ValidationLevel" && f != "SignatureAlgorithm" {
			other = f
			break
		}
	}
	if other != "" {
		return "x509-perm-differs-" + other, desc
	}
	if set["SignatureAlgorithm"] {
		// tbsCertificate.signature parameters
		if root, _, ok := gen.ParseNode(der, 0); ok && len(root.Kids) > 0 {
			for _, k := range root.Kids[0].Kids {
				if k.Hdr0 == 0x30 && len(k.Kids) == 2 {
					if permOnly(k.Kids[1].Raw, func() interface{} { return new(pssParameters) }) {
						return "x509-perm-differs-sigalg-params", desc
					}
					// the second decode in GetSignatureAlgorithmFromAI: the MGF1 hash AlgorithmIdentifier
					var pp pssParameters
					gen.SetMode(true)
					_, e := asn1.Unmarshal(k.Kids[1].Raw, &pp)
					gen.SetMode(false)
					if e == nil && permOnly(pp.MGF.Parameters.FullBytes, func() interface{} { return new(pkix.AlgorithmIdentifier) }) {
						return "x509-perm-differs-sigalg-params", desc
					}
					break
				}
			}
		}
		return "x509-perm-differs-SignatureAlgorithm", desc
	}
	if set["SelfSigned"] && !cs.SelfSigned && cp.SelfSigned && permOnly(cs.Signature, func() interface{} { return new(sigRS) }) {
		return "x509-perm-differs-selfsigned", desc
	}
	return "x509-perm-differs-" + d[0], desc
}

func certJSON(cert *x509.Certificate) (s string) {
	defer func() {
		if r := recover(); r != nil {
			s = "panic"
		}
	}()
	b, err := json.Marshal(cert)
	if err != nil {
		return "error"
	}
	return string(b)
}

func checkCert(c *vh.Ctx, in certInput) {
	der := vh.UnHex(in.Hex)
	cs, es, ps := parseCert(false, der)
	cp, ep, pp := parseCert(true, der)
	if ps != "" || pp != "" {
		// panics are C01's subject; they are not compared here
		c.Stat("x509.panic", 1)
		return
	}
	nk := ""
	switch {
	case es == nil && ep == nil:
		c.Stat("x509.both_accept", 1)
		nk = in.Hex
	case ep == nil:
		c.Stat("x509.perm_only_accept", 1)
		nk = in.Hex
	case es == nil:
		c.Stat("x509.strict_only_accept", 1)
	default:
		c.Stat("x509.both_reject", 1)
	}
	c.Eval(nk)
	if es != nil {
		return
	}
	if ep != nil {
		c.Violation("x509-perm-rejects", "strict ParseCertificate accepts, permissive rejects: "+ep.Error(), "cert", in)
		return
	}
	if !reflect.DeepEqual(cs, cp) {
		key, desc := classifyDiff(cs, cp, der)
		c.Violation(key, desc, "cert", in)
		return
	}
	if js, jp := certJSON(cs), certJSON(cp); js != jp {
		c.Violation("x509-perm-json-differs", "strict and permissive results have different JSON", "cert", in)
	}
}

func genCerts(c *vh.Ctx) {
	rng := gen.NewRand(c.Seed, "C20/cert")
	names, ders := loadSeeds()
	c.Stat("x509.seeds", len(ders))
	single := 0
	for si, der := range ders {
		root, rest, ok := gen.ParseNode(der, 0)
		if !ok || len(rest) != 0 {
			c.Stat("x509.seed_not_der", 1)
			continue
		}
		checkCert(c, certInput{Seed: names[si], Hex: vh.Hex(der), Kind: "seed"})
		var all []*gen.Node
		root.Walk(func(x *gen.Node) { all = append(all, x) })
		// every node x every mutation kind
		for _, n := range all {
			for _, kind := range gen.MutKinds {
				if u := gen.Mutate(rng, n, kind); u != nil {
					checkCert(c, certInput{Seed: names[si], Hex: vh.Hex(root.Enc()), Kind: kind})
					u()
					single++
				}
			}
		}
		// random combinations
		nmulti := 40
		if c.Thorough {
			nmulti = 1500
		}
		for i := 0; i < nmulti; i++ {
			k := 2 + rng.Intn(3)
			var undo []func()
			var ks []string
			for j := 0; j < k; j++ {
				kind := gen.MutKinds[rng.Intn(len(gen.MutKinds))]
				if u := gen.Mutate(rng, all[rng.Intn(len(all))], kind); u != nil {
					undo = append(undo, u)
					ks = append(ks, kind)
				}
			}
			if len(undo) > 0 {
				checkCert(c, certInput{Seed: names[si], Hex: vh.Hex(root.Enc()), Kind: strings.Join(ks, "+")})
			}
			for j := len(undo) - 1; j >= 0; j-- {
				undo[j]()
			}
		}
	}
	c.Stat("x509.single_mutations", single)
	c.Exhaustive("x509: every TLV node (extension values and SubjectPublicKeyInfo descended into) of every certificate in x509/testdata x every applicable mutation kind (" + strings.Join(gen.MutKinds, ",") + ")")
}

func genAll(c *vh.Ctx) {
	if c.Tables {
		writeSites(c)
		return
	}
	genCases(c)
	genCerts(c)
}

func replay(c *vh.Ctx, raw json.RawMessage) {
	var probe map[string]json.RawMessage
	json.Unmarshal(raw, &probe)
	if _, isCert := probe["seed"]; isCert {
		var in certInput
		if err := json.Unmarshal(raw, &in); err != nil {
			panic(err)
		}
		checkCert(c, in)
		return
	}
	var in input
	if err := json.Unmarshal(raw, &in); err != nil || in.Ty == nil {
		// a no-failing-input-found replay: nothing to run
		fmt.Fprintln(os.Stderr, "replay input is neither a case nor a certificate")
		return
	}
	runCase(c, in)
}

func main() {
	vh.Main("C20", genAll, replay)
	_ = sort.Strings
}
