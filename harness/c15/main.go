// C15 harness: browser revocation sets (Google CRLSet, Mozilla OneCRL,
// Microsoft disallowedcert.sst).  Small set models are encoded in each wire
// format, parsed by the implementation, compared structurally with the model
// (Coq term of type C15.case) and queried with certificates that are listed,
// have the same issuer and another serial, another issuer, or a blocked key.
// The direct oracle restates the property on the implementation: the parsed
// contents are the encoded model and Check reports exactly the revoked ones.
package main

import (
	"bytes"
	"crypto/ed25519"
	"crypto/sha256"
	stdx509 "crypto/x509"
	stdpkix "crypto/x509/pkix"
	"encoding/base64"
	"encoding/binary"
	"encoding/hex"
	"encoding/json"
	"fmt"
	"math/big"
	"sort"
	"strings"
	"time"

	"github.com/zmap/zcrypto/encoding/asn1"
	"github.com/zmap/zcrypto/x509"
	"github.com/zmap/zcrypto/x509/pkix"
	"github.com/zmap/zcrypto/x509/revocation/google"
	"github.com/zmap/zcrypto/x509/revocation/microsoft"
	"github.com/zmap/zcrypto/x509/revocation/mozilla"
	"verifharness/vh"
)

// ---------- compact byte strings (shared idea with the C16 harness) ----------
type seg struct {
	N int    `json:"n"`
	H string `json:"h"`
}
type bs []seg

func pack(b []byte) bs {
	var out bs
	lit := []byte{}
	flush := func() {
		if len(lit) > 0 {
			out = append(out, seg{1, hex.EncodeToString(lit)})
			lit = []byte{}
		}
	}
	for i := 0; i < len(b); {
		j := i
		for j < len(b) && b[j] == b[i] {
			j++
		}
		if j-i >= 24 {
			flush()
			out = append(out, seg{j - i, hex.EncodeToString(b[i : i+1])})
		} else {
			lit = append(lit, b[i:j]...)
		}
		i = j
	}
	flush()
	return out
}
func (s bs) bytes() []byte {
	out := []byte{}
	for _, g := range s {
		out = append(out, bytes.Repeat(vh.UnHex(g.H), g.N)...)
	}
	return out
}
func (s bs) coq() string {
	if len(s) == 0 {
		return "(@nil (N*bytes))"
	}
	xs := make([]string, len(s))
	for i, g := range s {
		xs[i] = vh.Pair(vh.NI(g.N), vh.Bytes(vh.UnHex(g.H)))
	}
	return vh.List(xs)
}

// ---------- replayable inputs ----------
type query struct {
	Serial string `json:"serial"`           // decimal
	Key    string `json:"key,omitempty"`    // CRLSet: issuer hash string; SST/OneCRL: index of the issuer name
	Issuer int    `json:"issuer,omitempty"` // index into names
	Subj   int    `json:"subj,omitempty"`   // OneCRL: index into names for the subject (-1: none)
	PubKey int    `json:"pubkey,omitempty"` // OneCRL: index into pubkeys
}

type input struct {
	Kind string `json:"kind"`
	// crlset
	Raw bs `json:"raw,omitempty"`
	// sst: blobs are referenced by index from chunks ("#i") or literal hex
	Blobs  []string `json:"blobs,omitempty"`
	Chunks []string `json:"chunks,omitempty"`
	// onecrl
	Doc     string  `json:"doc,omitempty"`
	Queries []query `json:"queries,omitempty"`
	// what the generator meant to encode (oracle); absent for malformed inputs
	Model *setModel `json:"model,omitempty"`
	Items []input   `json:"items,omitempty"`
	Note  string    `json:"note,omitempty"`
}

// the set the input was generated from
type setModel struct {
	Blocked  []string            `json:"blocked,omitempty"`  // CRLSet: blocked key strings; OneCRL: "subjIdx:pubkeyIdx"
	Issuers  []string            `json:"issuers"`            // CRLSet: hex hash; SST/OneCRL: issuer name index as string
	Serials  map[string][]string `json:"serials"`            // issuer -> decimal serials in order
	Sequence int                 `json:"sequence,omitempty"` // CRLSet
	Parents  int                 `json:"parents,omitempty"`
}

// ---------- fixed names, keys, certificates ----------
var names []pkix.Name     // as the parsers produce them (FillFromRDNSequence)
var nameDER [][]byte      // DER RDNSequence
var pubKeys []interface{} // ed25519 public keys
var spkiHash [][]byte

func mkName(cn, org string) (pkix.Name, []byte) {
	n := pkix.Name{CommonName: cn}
	if org != "" {
		n.Organization = []string{org}
	}
	der, err := asn1.Marshal(n.ToRDNSequence())
	if err != nil {
		panic(err)
	}
	var rdn pkix.RDNSequence
	if _, err := asn1.Unmarshal(der, &rdn); err != nil {
		panic(err)
	}
	var out pkix.Name
	out.FillFromRDNSequence(&rdn)
	return out, der
}

func init() {
	for _, p := range [][2]string{{"CA One", "Org A"}, {"CA Two", ""}, {"CA Three", "Org A"}, {"ca one", "Org A"}, {"Leaf X", ""}} {
		n, der := mkName(p[0], p[1])
		names = append(names, n)
		nameDER = append(nameDER, der)
	}
	for i := 0; i < 3; i++ {
		seed := bytes.Repeat([]byte{byte(0x40 + i)}, 32)
		k := ed25519.NewKeyFromSeed(seed).Public()
		pubKeys = append(pubKeys, k)
		der, err := stdx509.MarshalPKIXPublicKey(k)
		if err != nil {
			panic(err)
		}
		h := sha256.Sum256(der)
		spkiHash = append(spkiHash, h[:])
	}
}

// a real certificate (Ed25519, deterministic) issued by names[issuer] with the given serial
func mkCert(issuer int, serial *big.Int, subjectCN string) []byte {
	seed := bytes.Repeat([]byte{0x77}, 32)
	priv := ed25519.NewKeyFromSeed(seed)
	in := names[issuer]
	iss := stdpkix.Name{CommonName: in.CommonName, Organization: in.Organization}
	tmpl := &stdx509.Certificate{SerialNumber: serial, Subject: stdpkix.Name{CommonName: subjectCN},
		NotBefore: time.Unix(1600000000, 0), NotAfter: time.Unix(1900000000, 0)}
	parent := &stdx509.Certificate{Subject: iss, RawSubject: nameDER[issuer], SerialNumber: big.NewInt(1)}
	der, err := stdx509.CreateCertificate(nil, tmpl, parent, priv.Public(), priv)
	if err != nil {
		panic(err)
	}
	return der
}

// ---------- Coq printers ----------
func str(s string) string { return vh.Bytes([]byte(s)) }

// big numbers are printed in hexadecimal: Coq parses decimal literals in quadratic time
func bigZ(x *big.Int) string {
	if x.Sign() < 0 {
		return "(-0x" + new(big.Int).Neg(x).Text(16) + ")%Z"
	}
	return "0x" + x.Text(16) + "%Z"
}
func bigN(x *big.Int) string { return "0x" + x.Text(16) + "%N" }
func optZ(x *big.Int) string {
	if x == nil {
		return "None"
	}
	return vh.Some(bigZ(x))
}

type runner struct {
	c  *vh.Ctx
	st string
}

func (r *runner) viol(key, desc string, in input) { r.c.Violation(key, desc, r.st, in) }

// =====================================================================
// CRLSet
// =====================================================================
type crlHeader struct {
	Sequence     int
	NumParents   int
	BlockedSPKIs []string
}

func (r *runner) crlset(in input) {
	raw := in.Raw.bytes()
	set, err := google.Parse(raw, "v")
	// the header slice the format dictates, decoded independently
	jsonTerm := "None"
	if len(raw) >= 2 {
		hl := int(binary.LittleEndian.Uint16(raw))
		if len(raw)-2 >= hl {
			var h crlHeader
			if json.Unmarshal(raw[2:2+hl], &h) == nil {
				bl := make([]string, len(h.BlockedSPKIs))
				for i, b := range h.BlockedSPKIs {
					bl[i] = str(b)
				}
				jsonTerm = vh.Some(vh.Pair(vh.Z(int64(h.Sequence)), vh.Z(int64(h.NumParents)), vh.List0(bl, "bytes")))
			}
		}
	}
	obs := "None"
	var qterms, cur []string
	lastKey := ""
	flushQ := func() {
		if len(cur) > 0 {
			qterms = append(qterms, vh.Pair(str(lastKey), vh.List(cur)))
			cur = nil
		}
	}
	if err == nil {
		keys := make([]string, 0, len(set.IssuerLists))
		for k := range set.IssuerLists {
			keys = append(keys, k)
		}
		sort.Strings(keys)
		iss := make([]string, len(keys))
		for i, k := range keys {
			l := set.IssuerLists[k]
			ss := make([]string, len(l.Entries))
			for j, e := range l.Entries {
				ss[j] = bigN(e.SerialNumber)
			}
			iss[i] = vh.Pair(str(k), vh.List0(ss, "N"))
			if l.SPKIHash != k {
				iss[i] = vh.Pair(str(k+"!"+l.SPKIHash), "(@nil N)")
			}
		}
		bl := make([]string, len(set.BlockedSPKIs))
		for i, b := range set.BlockedSPKIs {
			bl[i] = str(b)
		}
		obs = vh.Some(vh.Pair(vh.Z(int64(set.Sequence)), vh.Z(int64(set.NumParents)), vh.List0(bl, "bytes"), vh.List0(iss, "(bytes * list N)")))
		for _, q := range in.Queries {
			ser, _ := new(big.Int).SetString(q.Serial, 10)
			e := set.Check(&x509.Certificate{SerialNumber: ser}, q.Key)
			var got *big.Int
			if e != nil {
				got = e.SerialNumber
			}
			if q.Key != lastKey || len(qterms) == 0 {
				flushQ()
				lastKey = q.Key
			}
			cur = append(cur, vh.Pair(bigZ(ser), optZ(got)))
			// oracle: exactly when the encoded set revokes it
			if in.Model != nil {
				want := false
				for _, b := range in.Model.Blocked {
					want = want || b == q.Key
				}
				for _, s := range in.Model.Serials[q.Key] {
					v, _ := new(big.Int).SetString(s, 10)
					want = want || v.Cmp(ser) == 0
				}
				if want != (e != nil) || (e != nil && got.Cmp(ser) != 0) {
					r.viol("crlset-check", fmt.Sprintf("CRLSet.Check(serial %s, issuer hash %q) reports %v; the encoded set revokes it: %v", q.Serial, q.Key, e != nil, want), in)
				}
			}
		}
	}
	nt := ""
	if err == nil && len(set.IssuerLists) > 0 {
		nt = fmt.Sprintf("crlset|%x", sha256.Sum256(raw))
	} else if len(raw) > 4 {
		nt = fmt.Sprintf("crlset-bad|%x", sha256.Sum256(raw))
	}
	flushQ()
	r.c.Case(r.st, vh.App("CCrlSet", in.Raw.coq(), jsonTerm, obs, vh.List0(qterms, "(bytes * list (Z * option Z))")), in, nt)
	if in.Model != nil {
		m := in.Model
		bad := ""
		switch {
		case err != nil:
			bad = "error " + err.Error()
		case set.Sequence != m.Sequence || set.NumParents != m.Parents || strings.Join(set.BlockedSPKIs, ",") != strings.Join(m.Blocked, ","):
			bad = "header fields differ"
		case len(set.IssuerLists) != len(m.Issuers):
			bad = fmt.Sprintf("%d issuers, encoded %d", len(set.IssuerLists), len(m.Issuers))
		default:
			for _, k := range m.Issuers {
				l := set.IssuerLists[k]
				if l == nil || len(l.Entries) != len(m.Serials[k]) {
					bad = "issuer " + k + " missing or wrong number of serials"
					break
				}
				for j, s := range m.Serials[k] {
					if l.Entries[j].SerialNumber.String() != s {
						bad = "issuer " + k + " serial " + s + " not parsed faithfully"
					}
				}
			}
		}
		if bad != "" {
			r.viol("crlset-parse", "a well-formed CRLSet does not parse to the set it encodes: "+bad, in)
		}
	}
}

// encode a CRLSet: header JSON, then issuers (32-byte hash, LE32 count, (len, bytes)*)
func encodeCRLSet(seq, parents int, blocked []string, issuers [][]byte, serials [][][]byte) []byte {
	if blocked == nil {
		blocked = []string{}
	}
	hdr, _ := json.Marshal(map[string]interface{}{"Version": 0, "ContentType": "CRLSet", "Sequence": seq, "DeltaFrom": 0,
		"NumParents": parents, "BlockedSPKIs": blocked})
	out := make([]byte, 2)
	binary.LittleEndian.PutUint16(out, uint16(len(hdr)))
	out = append(out, hdr...)
	for i, h := range issuers {
		out = append(out, h...)
		n := make([]byte, 4)
		binary.LittleEndian.PutUint32(n, uint32(len(serials[i])))
		out = append(out, n...)
		for _, s := range serials[i] {
			out = append(out, byte(len(s)))
			out = append(out, s...)
		}
	}
	return out
}

// boundary-shaped serial byte strings: empty, single 0x00, all-zero, leading and trailing 0x00
// bytes, 0x80 / 0xff first byte, lengths 1 / 2 / 16 / 20 (255 separately: its literal is costly)
var serialShapes = [][]byte{
	{}, {0}, {0, 0}, {1}, {0x80}, {0xff}, {0, 1}, {1, 0}, {0, 0x80}, {0x80, 0}, {0xff, 0xff}, {0, 0, 7}, {7, 0, 0}, {0x7f, 0x10, 0, 0},
	append([]byte{0}, bytes.Repeat([]byte{0x5a}, 15)...), append(bytes.Repeat([]byte{0x5a}, 15), 0), make([]byte, 16),
	append([]byte{0x80}, bytes.Repeat([]byte{0x11}, 15)...),
	append([]byte{0x80}, bytes.Repeat([]byte{0x22}, 19)...), append(bytes.Repeat([]byte{0x33}, 18), 0, 0), make([]byte, 20),
	append([]byte{0, 0xff}, bytes.Repeat([]byte{0x44}, 18)...),
}

func genSerial(c *vh.Ctx) []byte {
	switch c.Intn(10) {
	case 0, 1, 2, 3, 4:
		return serialShapes[c.Intn(len(serialShapes))]
	case 5:
		return append([]byte{0, 0}, c.Bytes(1+c.Intn(3))...) // leading zeros
	case 6:
		return append(c.Bytes(1+c.Intn(3)), 0, 0) // trailing zeros
	case 7:
		if c.Intn(4) == 0 {
			return append(bytes.Repeat([]byte{0xff}, 254), 0) // 255 bytes, trailing zero
		}
		return c.Bytes(20)
	default:
		return c.Bytes(1 + c.Intn(9))
	}
}

// the numbers next to a listed serial: +1, negated, and what dropping / adding a trailing or
// leading byte of its encoding gives
func serialNeighbours(b []byte) []string {
	v := new(big.Int).SetBytes(b)
	out := []string{v.String(), new(big.Int).Add(v, big.NewInt(1)).String(), new(big.Int).Neg(v).String(),
		new(big.Int).Rsh(v, 8).String(), new(big.Int).Lsh(v, 8).String()}
	if len(b) > 1 {
		out = append(out, new(big.Int).SetBytes(b[1:]).String())
	}
	if len(b) > 0 {
		out = append(out, new(big.Int).SetBytes(append([]byte{1}, b...)).String())
	}
	return out
}

func decToBytes(s string) []byte {
	v, _ := new(big.Int).SetString(s, 10)
	return v.Bytes()
}

func (r *runner) genCRLSets(c *vh.Ctx, n int) {
	for it := 0; it < n; it++ {
		ni := c.Intn(4)
		var issuers [][]byte
		var serials [][][]byte
		m := &setModel{Serials: map[string][]string{}, Sequence: c.Intn(100000), Parents: ni}
		listed := map[string][][]byte{} // issuer -> serial byte strings as encoded
		for i := 0; i < ni; i++ {
			h := c.Bytes(32)
			switch c.Intn(10) {
			case 0:
				h = bytes.Repeat([]byte{byte(c.Intn(256))}, 32)
			case 1:
				h = make([]byte, 32)
			case 2:
				h[0], h[1] = 0, 0
			case 3:
				h[30], h[31] = 0, 0
			case 4:
				h[0] = byte(c.Pick([]int{0x80, 0xff}))
			}
			var ss [][]byte
			k := hex.EncodeToString(h)
			for _, seen := m.Serials[k]; seen; _, seen = m.Serials[k] {
				h = c.Bytes(32) // the oracle's set model lists each issuer once (duplicates: separate malformed case)
				k = hex.EncodeToString(h)
			}
			m.Issuers = append(m.Issuers, k)
			m.Serials[k] = []string{}
			for j := c.Intn(5); j > 0; j-- {
				s := genSerial(c)
				if i == 0 && len(ss) == 0 {
					s = serialShapes[it%len(serialShapes)] // every shape is listed within one run
				}
				listed[k] = append(listed[k], s)
				ss = append(ss, s)
				m.Serials[k] = append(m.Serials[k], new(big.Int).SetBytes(s).String())
			}
			issuers = append(issuers, h)
			serials = append(serials, ss)
		}
		for j := c.Intn(3); j > 0; j-- {
			m.Blocked = append(m.Blocked, base64.StdEncoding.EncodeToString(c.Bytes(32)))
		}
		if len(issuers) > 0 && c.Intn(5) == 0 {
			// a blocked key that is also a listed issuer's hash string
			m.Blocked = append(m.Blocked, m.Issuers[0])
		}
		raw := encodeCRLSet(m.Sequence, m.Parents, m.Blocked, issuers, serials)
		in := input{Kind: "crlset", Raw: pack(raw), Model: m}
		// queries: for every issuer every listed serial, a neighbour, a negative, a serial of another issuer;
		// an unknown issuer; the issuer hash in upper case; every blocked key; the empty string
		var all []string
		for _, k := range m.Issuers {
			all = append(all, m.Serials[k]...)
		}
		all = append(all, "0", "1", new(big.Int).SetBytes(c.Bytes(5)).String())
		keys := append([]string{}, m.Issuers...)
		keys = append(keys, hex.EncodeToString(c.Bytes(32)), "")
		for _, k := range m.Issuers {
			keys = append(keys, strings.ToUpper(k), k[:63], k[:62], k+"00", k[2:])
		}
		keys = append(keys, m.Blocked...)
		for ki, k := range keys {
			seen := map[string]bool{}
			// a listed issuer: its own serials, one of another issuer, 0, 1, a random one;
			// any other key: a few serials
			var ser []string
			for _, s := range all[len(all)-3:] {
				ser = append(ser, s, "-"+s)
			}
			if ki < len(m.Issuers) {
				for _, b := range listed[k] {
					ser = append(ser, serialNeighbours(b)...)
				}
				if o := listed[m.Issuers[(ki+1)%len(m.Issuers)]]; len(o) > 0 {
					ser = append(ser, new(big.Int).SetBytes(o[0]).String())
				}
			} else if len(all) > 3 {
				ser = append(ser, all[0])
			}
			for _, qs := range ser {
				if qs == "-0" {
					qs = "0"
				}
				if !seen[qs] {
					seen[qs] = true
					in.Queries = append(in.Queries, query{Serial: qs, Key: k})
				}
			}
		}
		r.crlset(in)

		// malformed variants of the same file (no oracle model: error or whatever the format yields)
		if it%3 == 0 {
			for k := 0; k < 6; k++ {
				cut := c.Intn(len(raw) + 1)
				r.crlset(input{Kind: "crlset", Raw: pack(raw[:cut])})
			}
			mut := append([]byte{}, raw...)
			mut[c.Intn(2)] ^= byte(1 << uint(c.Intn(8))) // header length
			r.crlset(input{Kind: "crlset", Raw: pack(mut)})
			if ni > 0 {
				hl := int(binary.LittleEndian.Uint16(raw))
				mut = append([]byte{}, raw...)
				mut[2+hl+32+c.Intn(4)] ^= byte(1 << uint(c.Intn(8))) // NumSerials of the first issuer
				r.crlset(input{Kind: "crlset", Raw: pack(mut)})
				// duplicate issuer: the file lists the first issuer twice (last list wins)
				dupI := append(append([][]byte{}, issuers...), issuers[0])
				dupS := append(append([][][]byte{}, serials...), [][]byte{genSerial(c)})
				dm := &setModel{}
				_ = dm
				dq := in.Queries
				r.crlset(input{Kind: "crlset", Raw: pack(encodeCRLSet(m.Sequence, m.Parents, m.Blocked, dupI, dupS)), Queries: dq[:min(len(dq), 40)]})
			}
			r.crlset(input{Kind: "crlset", Raw: pack(append(append([]byte{}, raw...), c.Bytes(1+c.Intn(35))...))})
		}
	}
	// every prefix of one small file
	raw := encodeCRLSet(7, 1, []string{"k"}, [][]byte{bytes.Repeat([]byte{0xab}, 32)}, [][][]byte{{{1, 2}, {}, {3}}})
	for i := 0; i <= len(raw); i++ {
		r.crlset(input{Kind: "crlset", Raw: pack(raw[:i])})
	}
	// header that is not the expected JSON
	for _, h := range []string{`{}`, `[]`, `{"Sequence":"x"}`, `{"sequence":5,"numparents":2,"blockedspkis":["a"]}`, `{"Sequence":1.5}`, ``, `{"BlockedSPKIs":null}`} {
		b := make([]byte, 2)
		binary.LittleEndian.PutUint16(b, uint16(len(h)))
		r.crlset(input{Kind: "crlset", Raw: pack(append(b, h...))})
	}
}

// =====================================================================
// SST
// =====================================================================
func le32(v uint32) []byte {
	b := make([]byte, 4)
	binary.LittleEndian.PutUint32(b, v)
	return b
}

type sstEntry struct {
	id, enc uint32
	blob    int    // >= 0: certificate blob index (id/enc still as given)
	val     []byte // property value
	lenOver int    // added to the length field (malformed)
}

// chunks: "#i" = blob i, otherwise hex literal
func sstChunks(es []sstEntry, blobs [][]byte, after []byte) []string {
	lit := append(le32(0), []byte("CERT")...)
	var out []string
	for _, e := range es {
		lit = append(lit, le32(e.id)...)
		lit = append(lit, le32(e.enc)...)
		if e.blob >= 0 {
			lit = append(lit, le32(uint32(len(blobs[e.blob])+e.lenOver))...)
			out = append(out, hex.EncodeToString(lit), fmt.Sprintf("#%d", e.blob))
			lit = []byte{}
		} else {
			lit = append(lit, le32(uint32(len(e.val)+e.lenOver))...)
			lit = append(lit, e.val...)
		}
	}
	lit = append(lit, after...)
	out = append(out, hex.EncodeToString(lit))
	return out
}

func expandChunks(chunks []string, blobs []string) []byte {
	var out []byte
	for _, ch := range chunks {
		if strings.HasPrefix(ch, "#") {
			var i int
			fmt.Sscanf(ch, "#%d", &i)
			out = append(out, vh.UnHex(blobs[i])...)
		} else {
			out = append(out, vh.UnHex(ch)...)
		}
	}
	return out
}

// independent splitter: the certificate blobs an SST contains (format description, not the Go code)
func refSSTBlobs(b []byte) [][]byte {
	if len(b) < 8 {
		return nil
	}
	b = b[8:]
	var out [][]byte
	for len(b) >= 4 {
		id := binary.LittleEndian.Uint32(b)
		if id == 0 {
			break
		}
		if len(b) < 12 {
			if id == 32 {
				out = append(out, []byte{}) // cut inside the entry header: an empty blob is what a lenient reader would see
			}
			break
		}
		l := int(binary.LittleEndian.Uint32(b[8:]))
		b = b[12:]
		if l > len(b) {
			if id == 32 {
				out = append(out, b) // what is left: evaluated too, in case an implementation reads it
			}
			break
		}
		if id == 32 {
			out = append(out, b[:l])
		}
		b = b[l:]
	}
	return out
}

func parseResultTerm(blob []byte) string {
	cert, err := x509.ParseCertificate(blob)
	if err != nil {
		return "None"
	}
	return vh.Some(vh.Pair(str(cert.Issuer.String()), bigZ(cert.SerialNumber)))
}

func (r *runner) sst(in input) {
	raw := expandChunks(in.Chunks, in.Blobs)
	var d *microsoft.DisallowedCerts
	var err error
	func() {
		defer func() {
			if p := recover(); p != nil {
				err = fmt.Errorf("panic: %v", p)
				r.viol("sst-panic", fmt.Sprintf("microsoft.Parse panics: %v", p), in)
			}
		}()
		d, err = microsoft.Parse(raw)
	}()
	// Coq side: blob table, chunks, parse results
	blobTerms := make([]string, len(in.Blobs))
	parsed := make([]string, len(in.Blobs))
	known := map[string]bool{}
	for i, b := range in.Blobs {
		bb := vh.UnHex(b)
		blobTerms[i] = vh.Bytes(bb)
		parsed[i] = vh.Pair(vh.Nat(i), parseResultTerm(bb))
		known[b] = true
	}
	var extra []string
	for _, b := range refSSTBlobs(raw) {
		if !known[hex.EncodeToString(b)] {
			known[hex.EncodeToString(b)] = true
			extra = append(extra, vh.Pair(vh.Bytes(b), parseResultTerm(b)))
		}
	}
	chunkTerms := make([]string, len(in.Chunks))
	for i, ch := range in.Chunks {
		if strings.HasPrefix(ch, "#") {
			var k int
			fmt.Sscanf(ch, "#%d", &k)
			chunkTerms[i] = vh.App("Ref", vh.Nat(k))
		} else {
			chunkTerms[i] = vh.App("Lit", vh.Bytes(vh.UnHex(ch)))
		}
	}
	obs := "None"
	var qterms, cur []string
	lastIss := 0
	flushQ := func() {
		if len(cur) > 0 {
			qterms = append(qterms, vh.Pair(str(names[lastIss].String()), vh.List(cur)))
			cur = nil
		}
	}
	if err == nil {
		keys := make([]string, 0, len(d.IssuerLists))
		for k := range d.IssuerLists {
			keys = append(keys, k)
		}
		sort.Strings(keys)
		ms := make([]string, len(keys))
		for i, k := range keys {
			l := d.IssuerLists[k]
			ss := make([]string, len(l.Entries))
			for j, e := range l.Entries {
				ss[j] = bigZ(e.SerialNumber)
			}
			ms[i] = vh.Pair(str(k), vh.List0(ss, "Z"))
		}
		obs = vh.Some(vh.List0(ms, "(bytes * list Z)"))
		for _, q := range in.Queries {
			ser, _ := new(big.Int).SetString(q.Serial, 10)
			cert := &x509.Certificate{SerialNumber: ser, Issuer: names[q.Issuer]}
			e := microsoft.Check(d, cert)
			var got *big.Int
			if e != nil {
				got = e.SerialNumber
			}
			if q.Issuer != lastIss || len(qterms)+len(cur) == 0 {
				flushQ()
				lastIss = q.Issuer
			}
			cur = append(cur, vh.Pair(bigZ(ser), optZ(got)))
			if in.Model != nil {
				want := false
				for _, s := range in.Model.Serials[fmt.Sprint(q.Issuer)] {
					want = want || s == q.Serial
				}
				if want != (e != nil) || (e != nil && got.Cmp(ser) != 0) {
					r.viol("sst-check", fmt.Sprintf("microsoft.Check(issuer %q, serial %s) reports %v; the store lists it: %v", names[q.Issuer].String(), q.Serial, e != nil, want), in)
				}
			}
		}
	}
	flushQ()
	nt := ""
	if err == nil && len(d.IssuerLists) > 0 {
		nt = fmt.Sprintf("sst|%x", sha256.Sum256(raw))
	} else if len(raw) > 8 {
		nt = fmt.Sprintf("sst-bad|%x", sha256.Sum256(raw))
	}
	r.c.Case(r.st, vh.App("CSst", vh.List0(blobTerms, "bytes"), vh.List0(chunkTerms, "chunk"), vh.List0(parsed, "(nat * option (bytes * Z))"),
		vh.List0(extra, "(bytes * option (bytes * Z))"), obs, vh.List0(qterms, "(bytes * list (Z * option Z))")), in, nt)
	if in.Model != nil {
		m := in.Model
		bad := ""
		if err != nil {
			bad = "error " + err.Error()
		} else if len(d.IssuerLists) != len(m.Issuers) {
			bad = fmt.Sprintf("%d issuers, store holds %d", len(d.IssuerLists), len(m.Issuers))
		} else {
			for _, k := range m.Issuers {
				var ki int
				fmt.Sscan(k, &ki)
				l := d.IssuerLists[names[ki].String()]
				if l == nil || len(l.Entries) != len(m.Serials[k]) {
					bad = "issuer " + names[ki].String() + " missing or wrong number of entries"
					break
				}
				for j, s := range m.Serials[k] {
					if l.Entries[j].SerialNumber.String() != s {
						bad = "serial " + s + " not parsed faithfully"
					}
				}
			}
		}
		if bad != "" {
			r.viol("sst-parse", "a well-formed disallowed-certificate store does not parse to the lists it encodes: "+bad, in)
		}
	}
}

func (r *runner) genSSTs(c *vh.Ctx, n int) {
	// certificate pool: 4 issuers (two names differ only in case), several serials
	type pc struct {
		issuer int
		serial *big.Int
		der    []byte
	}
	var pool []pc
	// serials whose DER / big-endian forms have the boundary shapes: one byte, 0x80 and 0xff first byte
	// (DER adds a leading 0x00), trailing zero bytes, 16 and 20 bytes
	var serials []*big.Int
	for _, b := range [][]byte{{1}, {0x80}, {0xff}, {1, 0}, {0x80, 0}, {0x7f, 0x10, 0, 0}, {1, 0, 0, 0, 0, 0, 0, 0, 0},
		append([]byte{0x80}, make([]byte, 15)...), append(bytes.Repeat([]byte{0x5a}, 14), 0, 0),
		append(bytes.Repeat([]byte{0x33}, 18), 0, 0), bytes.Repeat([]byte{0x7f}, 19), append([]byte{0xff}, bytes.Repeat([]byte{0x44}, 19)...)} {
		serials = append(serials, new(big.Int).SetBytes(b))
	}
	for iss := 0; iss < 4; iss++ {
		for si, s := range serials {
			if (iss+si)%2 == 0 || si < 2 {
				pool = append(pool, pc{iss, s, mkCert(iss, s, fmt.Sprintf("s%d", si))})
			}
		}
	}
	for it := 0; it < n; it++ {
		var es []sstEntry
		var blobs [][]byte
		m := &setModel{Serials: map[string][]string{}}
		nc := c.Intn(5)
		for i := 0; i < nc; i++ {
			for p := c.Intn(3); p > 0; p-- { // properties before the certificate
				id := uint32(1 + c.Intn(0xffff))
				if id == 32 {
					id = 3
				}
				es = append(es, sstEntry{id: id, enc: uint32(c.Intn(3)), blob: -1, val: c.Bytes(c.Intn(24))})
			}
			p := pool[c.Intn(len(pool))]
			if i == 0 {
				p = pool[it%len(pool)] // every certificate of the pool is stored within a few runs
			}
			k := fmt.Sprint(p.issuer)
			if _, ok := m.Serials[k]; !ok {
				m.Issuers = append(m.Issuers, k)
			}
			m.Serials[k] = append(m.Serials[k], p.serial.String())
			blobs = append(blobs, p.der)
			es = append(es, sstEntry{id: 32, enc: 1, blob: len(blobs) - 1})
		}
		after := make([]byte, 12) // EndElementMarkerEntry: id 0, marker 0
		if c.Intn(4) == 0 {
			after = append(after, c.Bytes(c.Intn(9))...)
		}
		if c.Intn(6) == 0 {
			after = after[:4+c.Intn(8)]
		}
		hb := make([]string, len(blobs))
		for i, b := range blobs {
			hb[i] = hex.EncodeToString(b)
		}
		in := input{Kind: "sst", Blobs: hb, Chunks: sstChunks(es, blobs, after), Model: m}
		// every issuer x (every stored serial with its neighbours, three pool serials, 2, -1)
		var qs []string
		for _, k := range m.Issuers {
			for _, sd := range m.Serials[k] {
				qs = append(qs, serialNeighbours(decToBytes(sd))...)
			}
		}
		for j := 0; j < 3; j++ {
			qs = append(qs, serials[c.Intn(len(serials))].String())
		}
		qs = append(qs, "2", "-1")
		for qi := 0; qi < 4; qi++ {
			seen := map[string]bool{}
			for _, q := range qs {
				if !seen[q] {
					seen[q] = true
					in.Queries = append(in.Queries, query{Serial: q, Issuer: qi})
				}
			}
		}
		r.sst(in)

		if it%2 == 0 && nc > 0 {
			mal := func(f func(es []sstEntry) ([]sstEntry, []byte)) {
				es2, after2 := f(append([]sstEntry{}, es...))
				r.sst(input{Kind: "sst", Blobs: hb, Chunks: sstChunks(es2, blobs, after2), Queries: in.Queries[:6]})
			}
			ci := -1
			for i, e := range es {
				if e.blob >= 0 {
					ci = i
				}
			}
			mal(func(e []sstEntry) ([]sstEntry, []byte) { e[ci].enc = uint32(c.Pick([]int{0, 2, 256})); return e, after })
			mal(func(e []sstEntry) ([]sstEntry, []byte) { e[ci].lenOver = 1 + c.Intn(40); return e, after })
			mal(func(e []sstEntry) ([]sstEntry, []byte) { e[ci].lenOver = -1 - c.Intn(5); return e, after })
			mal(func(e []sstEntry) ([]sstEntry, []byte) { e[ci].lenOver = 0x7fffff00; return e, after })
			mal(func(e []sstEntry) ([]sstEntry, []byte) {
				e[ci].id = uint32(c.Pick([]int{31, 33, 0x20000020}))
				return e, after
			})
			mal(func(e []sstEntry) ([]sstEntry, []byte) { return e, nil })                    // no end marker
			mal(func(e []sstEntry) ([]sstEntry, []byte) { return e, c.Bytes(1 + c.Intn(3)) }) // 1..3 stray bytes instead
			mal(func(e []sstEntry) ([]sstEntry, []byte) {
				e = append(e, sstEntry{id: 7, enc: 1, blob: -1, val: c.Bytes(5), lenOver: 3 + c.Intn(100)})
				return e, nil
			})
			// garbage certificate entry
			gb := append(append([][]byte{}, blobs...), c.Bytes(1+c.Intn(30)))
			ghb := append(append([]string{}, hb...), hex.EncodeToString(gb[len(gb)-1]))
			ges := append(append([]sstEntry{}, es...), sstEntry{id: 32, enc: 1, blob: len(gb) - 1})
			r.sst(input{Kind: "sst", Blobs: ghb, Chunks: sstChunks(ges, gb, after)})
			// truncated inside / right after the last certificate
			full := expandChunks(in.Chunks, hb)
			for k := 0; k < 3; k++ {
				cut := 8 + c.Intn(len(full)-8)
				r.sst(input{Kind: "sst", Chunks: []string{hex.EncodeToString(full[:cut])}})
			}
		}
	}
	// header variants and every prefix of an empty / property-only store
	small := append(append(le32(0), []byte("CERT")...), le32(5)...)
	small = append(small, le32(1)...)
	small = append(small, le32(2)...)
	small = append(small, 9, 9)
	small = append(small, make([]byte, 12)...)
	for i := 0; i <= len(small); i++ {
		r.sst(input{Kind: "sst", Chunks: []string{hex.EncodeToString(small[:i])}})
	}
	for _, h := range []string{"0100000043455254", "0000000043455253", "0000000063657274", "00000000434552", "0000000143455254"} {
		r.sst(input{Kind: "sst", Chunks: []string{h + "00000000"}})
	}
}

// =====================================================================
// OneCRL
// =====================================================================
type rec struct {
	IssuerName   string `json:"issuerName,omitempty"`
	SerialNumber string `json:"serialNumber,omitempty"`
	Subject      string `json:"subject,omitempty"`
	PubKeyHash   string `json:"pubKeyHash,omitempty"`
	Enabled      bool   `json:"enabled"`
	ID           string `json:"id,omitempty"`
}

func decodeName(s string) (rawDER []byte, nameStr string, ok bool) {
	b, err := base64.StdEncoding.DecodeString(s)
	if err != nil {
		return nil, "", false
	}
	var rdn pkix.RDNSequence
	if _, err := asn1.Unmarshal(b, &rdn); err != nil {
		return nil, "", false
	}
	var n pkix.Name
	n.FillFromRDNSequence(&rdn)
	return b, n.String(), true
}

func optBytesTerm(b []byte, ok bool) string {
	if !ok {
		return "None"
	}
	return vh.Some(vh.Bytes(b))
}

func (r *runner) onecrl(in input) {
	set, err := mozilla.Parse([]byte(in.Doc))
	// the records as stdlib JSON sees them, each field decoded independently
	var doc struct {
		Data []rec `json:"data"`
	}
	jerr := json.Unmarshal([]byte(in.Doc), &doc)
	recTerms := []string{}
	for _, rc := range doc.Data {
		subj, _, sok := decodeName(rc.Subject)
		pkh, perr := base64.StdEncoding.DecodeString(rc.PubKeyHash)
		sb, _ := base64.StdEncoding.DecodeString(rc.SerialNumber)
		_, iss, iok := decodeName(rc.IssuerName)
		recTerms = append(recTerms, vh.Pair(vh.Bool(rc.Subject != ""), vh.Bool(rc.PubKeyHash != ""), optBytesTerm(subj, sok), optBytesTerm(pkh, perr == nil),
			bigN(new(big.Int).SetBytes(sb)), optBytesTerm([]byte(iss), iok)))
	}
	if jerr != nil {
		if err == nil {
			r.viol("onecrl-parse", "document that is not valid JSON for the record schema was accepted", in)
		}
		return // outside the model: the JSON layer is a trusted primitive
	}
	obs := "None"
	var qterms []string
	if err == nil {
		bl := make([]string, len(set.Blocked))
		for i, b := range set.Blocked {
			bl[i] = vh.Pair(vh.Bytes(b.RawSubject), vh.Bytes(b.PubKeyHash))
		}
		keys := make([]string, 0, len(set.IssuerLists))
		for k := range set.IssuerLists {
			keys = append(keys, k)
		}
		sort.Strings(keys)
		ms := make([]string, len(keys))
		for i, k := range keys {
			l := set.IssuerLists[k]
			ss := make([]string, len(l.Entries))
			for j, e := range l.Entries {
				ss[j] = bigN(e.SerialNumber)
			}
			ms[i] = vh.Pair(str(k), vh.List0(ss, "N"))
		}
		obs = vh.Some(vh.Pair(vh.List0(bl, "(bytes * bytes)"), vh.List0(ms, "(bytes * list N)")))
		for _, q := range in.Queries {
			ser, _ := new(big.Int).SetString(q.Serial, 10)
			cert := &x509.Certificate{SerialNumber: ser, Issuer: names[q.Issuer], PublicKey: pubKeys[q.PubKey]}
			if q.Subj >= 0 {
				cert.RawSubject = nameDER[q.Subj]
				cert.Subject = names[q.Subj]
			}
			e := set.Check(cert)
			res := "ONone"
			kind := "none"
			switch {
			case e == nil:
			case e.SubjectAndPublicKey != nil:
				res, kind = "OByKey", "key"
			default:
				res, kind = vh.App("OBySerial", bigN(e.SerialNumber)), "serial"
			}
			si := q.Subj
			if si < 0 {
				si = len(names) // out of range: no raw subject
			}
			qterms = append(qterms, vh.Pair(vh.Nat(si), vh.Nat(q.PubKey), vh.Nat(q.Issuer), bigZ(ser), res))
			if in.Model != nil {
				wantKey := false
				for _, b := range in.Model.Blocked {
					wantKey = wantKey || b == fmt.Sprintf("%d:%d", q.Subj, q.PubKey)
				}
				wantSer := false
				for _, s := range in.Model.Serials[fmt.Sprint(q.Issuer)] {
					wantSer = wantSer || s == q.Serial
				}
				want := "none"
				if wantKey {
					want = "key"
				} else if wantSer {
					want = "serial"
				}
				if want != kind || (kind == "serial" && e.SerialNumber.Cmp(ser) != 0) {
					r.viol("onecrl-check", fmt.Sprintf("OneCRL.Check(issuer %q, serial %s, subject %d, key %d) reports %s; the set says %s", names[q.Issuer].String(), q.Serial, q.Subj, q.PubKey, kind, want), in)
				}
			}
		}
	}
	nt := ""
	if err == nil && len(doc.Data) > 0 {
		nt = fmt.Sprintf("onecrl|%x", sha256.Sum256([]byte(in.Doc)))
	} else if len(doc.Data) > 0 {
		nt = fmt.Sprintf("onecrl-bad|%x", sha256.Sum256([]byte(in.Doc)))
	}
	var subjT, hashT, issT []string
	for i := range names {
		subjT = append(subjT, vh.Bytes(nameDER[i]))
		issT = append(issT, str(names[i].String()))
	}
	for _, h := range spkiHash {
		hashT = append(hashT, vh.Bytes(h))
	}
	r.c.Case(r.st, vh.App("COneCrl", vh.List0(recTerms, "(bool * bool * option bytes * option bytes * N * option bytes)"), obs,
		vh.List(subjT), vh.List(hashT), vh.List(issT), vh.List0(qterms, "(nat * nat * nat * Z * ocheck)")), in, nt)
	if in.Model != nil {
		m := in.Model
		bad := ""
		if err != nil {
			bad = "error " + err.Error()
		} else if len(set.IssuerLists) != len(m.Issuers) || len(set.Blocked) != len(m.Blocked) {
			bad = fmt.Sprintf("%d issuers / %d blocked keys, document holds %d / %d", len(set.IssuerLists), len(set.Blocked), len(m.Issuers), len(m.Blocked))
		} else {
			for _, k := range m.Issuers {
				var ki int
				fmt.Sscan(k, &ki)
				l := set.IssuerLists[names[ki].String()]
				if l == nil || len(l.Entries) != len(m.Serials[k]) {
					bad = "issuer " + names[ki].String() + " missing or wrong number of entries"
					break
				}
				for j, s := range m.Serials[k] {
					if l.Entries[j].SerialNumber.String() != s {
						bad = "serial " + s + " not parsed faithfully"
					}
				}
			}
			for i, b := range m.Blocked {
				var si, pi int
				fmt.Sscanf(b, "%d:%d", &si, &pi)
				if !bytes.Equal(set.Blocked[i].RawSubject, nameDER[si]) || !bytes.Equal(set.Blocked[i].PubKeyHash, spkiHash[pi]) {
					bad = "blocked key " + b + " not parsed faithfully"
				}
			}
		}
		if bad != "" {
			r.viol("onecrl-parse", "a well-formed OneCRL document does not parse to the set it encodes: "+bad, in)
		}
	}
}

func b64(b []byte) string { return base64.StdEncoding.EncodeToString(b) }

func (r *runner) genOneCRLs(c *vh.Ctx, n int) {
	serialBytes := append([][]byte{{0x0f}, bytes.Repeat([]byte{0xee}, 16)}, serialShapes...)
	for it := 0; it < n; it++ {
		var recs []rec
		var listed [][]byte
		m := &setModel{Serials: map[string][]string{}}
		for k := c.Intn(7); k > 0; k-- {
			if c.Intn(4) == 0 {
				si, pi := c.Intn(len(names)), c.Intn(len(pubKeys))
				recs = append(recs, rec{Subject: b64(nameDER[si]), PubKeyHash: b64(spkiHash[pi]), Enabled: true})
				m.Blocked = append(m.Blocked, fmt.Sprintf("%d:%d", si, pi))
				continue
			}
			ii := c.Intn(4)
			sb := serialBytes[c.Intn(len(serialBytes))]
			if len(listed) == 0 {
				sb = serialBytes[it%len(serialBytes)] // every shape is listed within one run
			} else if c.Intn(40) == 0 {
				sb = append(bytes.Repeat([]byte{0xff}, 254), 0)
			}
			listed = append(listed, sb)
			recs = append(recs, rec{IssuerName: b64(nameDER[ii]), SerialNumber: b64(sb), Enabled: c.Bool(), ID: fmt.Sprintf("id-%d", k)})
			key := fmt.Sprint(ii)
			if _, ok := m.Serials[key]; !ok {
				m.Issuers = append(m.Issuers, key)
			}
			m.Serials[key] = append(m.Serials[key], new(big.Int).SetBytes(sb).String())
		}
		if recs == nil {
			recs = []rec{}
		}
		doc, _ := json.Marshal(map[string]interface{}{"data": recs})
		in := input{Kind: "onecrl", Doc: string(doc), Model: m}
		// every issuer x (every listed serial with its neighbours, three other shapes, 2, -1)
		var qs []string
		for _, sb := range listed {
			qs = append(qs, serialNeighbours(sb)...)
		}
		for j := 0; j < 3; j++ {
			qs = append(qs, new(big.Int).SetBytes(serialBytes[c.Intn(len(serialBytes))]).String())
		}
		for qi := 0; qi < 4; qi++ {
			seen := map[string]bool{}
			for _, q := range qs {
				if !seen[q] {
					seen[q] = true
					in.Queries = append(in.Queries, query{Serial: q, Issuer: qi, Subj: c.Intn(len(names)), PubKey: c.Intn(len(pubKeys))})
				}
			}
			in.Queries = append(in.Queries, query{Serial: "2", Issuer: qi, Subj: -1}, query{Serial: "-1", Issuer: qi, Subj: qi})
		}
		for si := 0; si < len(names); si++ {
			for pi := 0; pi < len(pubKeys); pi++ {
				in.Queries = append(in.Queries, query{Serial: "99", Issuer: 4, Subj: si, PubKey: pi})
			}
		}
		r.onecrl(in)

		if it%2 == 0 {
			// malformed records: the whole document must be refused, or (ignored serial error) parsed as the code does
			bad := []rec{
				{IssuerName: "!!!", SerialNumber: "AQ=="},
				{IssuerName: b64([]byte{0x30, 0x03, 0x01}), SerialNumber: "AQ=="},
				{SerialNumber: "AQ=="},
				{Subject: b64(nameDER[0])},
				{PubKeyHash: b64(spkiHash[0])},
				{Subject: "%%", PubKeyHash: b64(spkiHash[0])},
				{Subject: b64(nameDER[1]), PubKeyHash: "%%"},
				{Subject: b64([]byte{1, 2, 3}), PubKeyHash: b64(spkiHash[0])},
				{IssuerName: b64(nameDER[2]), SerialNumber: "AQID!"},
				{IssuerName: b64(nameDER[2]), SerialNumber: "AQ"},
				{IssuerName: b64(nameDER[2])},
				{IssuerName: b64(nameDER[1]), SerialNumber: "AQ==", Subject: b64(nameDER[0])},
			}
			b := bad[c.Intn(len(bad))]
			rs := append(append([]rec{}, recs...), b)
			if len(recs) > 0 && c.Bool() {
				rs = append([]rec{b}, recs...)
			}
			doc, _ := json.Marshal(map[string]interface{}{"data": rs})
			r.onecrl(input{Kind: "onecrl", Doc: string(doc), Queries: in.Queries[:8]})
		}
	}
	for _, d := range []string{`{"data":[]}`, `{}`, `{"data":null}`} {
		r.onecrl(input{Kind: "onecrl", Doc: d, Model: &setModel{Serials: map[string][]string{}}, Queries: []query{{Serial: "1", Issuer: 0, Subj: 0}}})
	}
}

func (r *runner) hexes(c *vh.Ctx) {
	for i := 0; i < 256; i += 1 {
		b := []byte{byte(i)}
		r.c.Case(r.st, vh.App("CHex", vh.Bytes(b), str(hex.EncodeToString(b))), input{Kind: "hex", Raw: pack(b)}, fmt.Sprintf("hex|%d", i))
	}
	r.c.Exhaustive("hex.EncodeToString of every byte value (the CRLSet issuer key)")
}

func (r *runner) run(in input) {
	switch in.Kind {
	case "multi":
		for _, it := range in.Items {
			r.run(it)
		}
	case "crlset":
		r.crlset(in)
	case "sst":
		r.sst(in)
	case "onecrl":
		r.onecrl(in)
	case "hex":
		b := in.Raw.bytes()
		r.c.Case(r.st, vh.App("CHex", vh.Bytes(b), str(hex.EncodeToString(b))), in, "")
	default:
		panic("unknown kind " + in.Kind)
	}
}

func gen(c *vh.Ctx) {
	r := &runner{c: c, st: "case"}
	n := 40
	if c.Thorough {
		n = 400
	}
	r.hexes(c)
	r.genCRLSets(c, n)
	r.genSSTs(c, n/2)
	r.genOneCRLs(c, n)
}

func replay(c *vh.Ctx, raw json.RawMessage) {
	var in input
	if err := json.Unmarshal(raw, &in); err != nil {
		panic(err)
	}
	(&runner{c: c, st: "case"}).run(in)
}

func main() { vh.Main("C15", gen, replay) }
