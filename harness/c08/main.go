// C08 harness: x509.CertPool under AddCert / AppendCertsFromPEM / Sum histories
// over small certificate universes (duplicates, shared subjects, shared key
// ids), observed through Size, Contains, Covers, Certificates, Subjects, the
// three index maps (hook) and findVerifiedParents (hook).  Prints
// correspondence cases for coq/model/C08.v and evaluates the property directly
// against a reference ordered set keyed by fingerprint (oracle).
package main

import (
	"encoding/json"
	"encoding/pem"
	"fmt"
	"sort"
	"strings"

	"github.com/zmap/zcrypto/x509"
	"verifharness/c07/pki"
	"verifharness/vh"
)

// ---------- replayable input ----------
type opIn struct {
	K   string `json:"k"` // new | add | pem | sum
	R   int    `json:"r"`
	C   int    `json:"c,omitempty"`
	A   int    `json:"a,omitempty"` // -1 = nil pool
	B   int    `json:"b,omitempty"`
	PEM string `json:"pem,omitempty"`
}
type input struct {
	Univ  []pki.Spec `json:"univ"`
	NRegs int        `json:"nregs"`
	Ops   []opIn     `json:"ops"`
}

type world struct {
	u    *pki.Universe
	xs   []*x509.Certificate // universe, by index
	fpOf []int               // fingerprint id of universe cert i
	byFP map[int]int         // fingerprint id -> first universe index
}

func build(specs []pki.Spec) (*world, error) {
	w := &world{u: pki.NewUniverse(), byFP: map[int]int{}}
	for _, s := range specs {
		i, err := w.u.Add(s)
		if err != nil {
			return nil, err
		}
		x := w.u.Certs[i].X
		w.xs = append(w.xs, x)
		f := w.u.FP(x)
		w.fpOf = append(w.fpOf, f)
		if _, ok := w.byFP[f]; !ok {
			w.byFP[f] = i
		}
	}
	return w, nil
}

// ---------- PEM ----------
func pemText(w *world, items []string) string {
	var sb strings.Builder
	for _, it := range items {
		var k string
		var i int
		fmt.Sscanf(it, "%s %d", &k, &i)
		der := w.u.Certs[i%len(w.u.Certs)].DER
		switch k {
		case "cert":
			sb.Write(pem.EncodeToMemory(&pem.Block{Type: "CERTIFICATE", Bytes: der}))
		case "trunc":
			sb.Write(pem.EncodeToMemory(&pem.Block{Type: "CERTIFICATE", Bytes: der[:len(der)-3]}))
		case "garbage":
			sb.Write(pem.EncodeToMemory(&pem.Block{Type: "CERTIFICATE", Bytes: []byte("not a certificate")}))
		case "wrongtype":
			sb.Write(pem.EncodeToMemory(&pem.Block{Type: "X509 CRL", Bytes: der}))
		case "headers":
			sb.Write(pem.EncodeToMemory(&pem.Block{Type: "CERTIFICATE", Headers: map[string]string{"Proc-Type": "4,ENCRYPTED"}, Bytes: der}))
		case "junk":
			sb.WriteString("some text between blocks\n# comment\n\n")
		case "badb64":
			sb.WriteString("-----BEGIN CERTIFICATE-----\n!!!! not base64 !!!!\n-----END CERTIFICATE-----\n")
		case "trailing":
			sb.WriteString("-----BEGIN CERTIFICATE-----\nMIIB")
		}
	}
	return sb.String()
}

// the abstract block list: what pem.Decode (stdlib) yields on the text, each
// block classified the way the property describes
func abstractBlocks(w *world, text string) (coq []string, anyCert bool, certIdx []int) {
	rest := []byte(text)
	for len(rest) > 0 {
		var b *pem.Block
		b, rest = pem.Decode(rest)
		if b == nil {
			break
		}
		switch {
		case b.Type != "CERTIFICATE":
			coq = append(coq, "IBWrongType")
		case len(b.Headers) != 0:
			coq = append(coq, "IBHeaders")
		default:
			x, err := x509.ParseCertificate(b.Bytes)
			if err != nil {
				coq = append(coq, "IBUnparseable")
				continue
			}
			i, ok := w.byFP[w.u.FP(x)]
			if !ok {
				panic("PEM certificate outside the universe")
			}
			coq = append(coq, vh.App("IBCert", vh.Nat(i)))
			certIdx = append(certIdx, i)
			anyCert = true
		}
	}
	return
}

// ---------- observation (mirrors C08.observe) ----------
// mix mirrors the model's rolling checksum (mask instead of modulus: cheap under vm_compute)
func mix(h, x uint64) uint64 { return (h*31 + x + 1) & 0x7fffffff }

func b2n(b bool) uint64 {
	if b {
		return 1
	}
	return 0
}

type kv struct {
	k uint64
	l []int
}

func flatAmap(m map[string][]int, id func([]byte) int) []uint64 {
	var es []kv
	for k, l := range m {
		es = append(es, kv{k: uint64(id([]byte(k))), l: l})
	}
	sort.Slice(es, func(i, j int) bool {
		a, b := 1<<30, 1<<30
		if len(es[i].l) > 0 {
			a = es[i].l[0]
		}
		if len(es[j].l) > 0 {
			b = es[j].l[0]
		}
		if a != b {
			return a < b
		}
		return es[i].k < es[j].k
	})
	out := []uint64{uint64(len(es))}
	for _, e := range es {
		out = append(out, e.k, uint64(len(e.l)))
		for _, i := range e.l {
			out = append(out, uint64(int64(i)))
		}
	}
	return out
}

func observe(w *world, regs []*x509.CertPool, r int, ok int) []uint64 {
	p := regs[r]
	out := []uint64{uint64(ok), uint64(p.Size())}
	cs := p.Certificates()
	out = append(out, uint64(len(cs)))
	for _, c := range cs {
		out = append(out, uint64(w.u.FP(c)))
	}
	ss := p.Subjects()
	out = append(out, uint64(len(ss)))
	for _, s := range ss {
		out = append(out, uint64(w.u.NameID(s)))
	}
	for _, x := range w.xs {
		out = append(out, b2n(p.Contains(x)))
	}
	for _, q := range regs {
		out = append(out, b2n(p.Covers(q)), b2n(q.Covers(p)))
	}
	out = append(out, b2n(p.Covers(nil)))
	_, sha, byName, bySKI := x509.VerifPoolDump(p)
	type sv struct {
		k, v int
	}
	var es []sv
	for k, v := range sha {
		id := -1
		for _, c := range cs { // keys must be fingerprints of members
			if string(c.FingerprintSHA256) == k {
				id = w.u.FP(c)
			}
		}
		if id < 0 {
			id = 700000 + len(es)
		}
		es = append(es, sv{id, v})
	}
	sort.Slice(es, func(i, j int) bool {
		if es[i].v != es[j].v {
			return es[i].v < es[j].v
		}
		return es[i].k < es[j].k
	})
	out = append(out, uint64(len(es)))
	for _, e := range es {
		out = append(out, uint64(e.k), uint64(int64(e.v)))
	}
	out = append(out, flatAmap(byName, w.u.NameID)...)
	out = append(out, flatAmap(bySKI, w.u.KidID)...)
	return out
}

func coqNs(xs []uint64) string {
	if len(xs) == 0 {
		return "(@nil N)"
	}
	var sb strings.Builder
	sb.WriteString("[")
	for i, x := range xs {
		if i > 0 {
			sb.WriteString(";")
		}
		fmt.Fprintf(&sb, "%d", x)
	}
	sb.WriteString("]%N")
	return sb.String()
}

// ---------- reference ordered set (the property, executable) ----------
type refPool struct{ fps []int }

func (r *refPool) has(f int) bool {
	for _, x := range r.fps {
		if x == f {
			return true
		}
	}
	return false
}
func (r *refPool) add(f int) {
	if !r.has(f) {
		r.fps = append(r.fps, f)
	}
}

// checks register r of the implementation against the reference; "" if fine
func (w *world) oracle(regs []*x509.CertPool, refs []*refPool, r int) (string, string) {
	p, ref := regs[r], refs[r]
	cs := p.Certificates()
	if p.Size() != len(ref.fps) {
		return "size", fmt.Sprintf("Size() = %d, %d distinct certificates were added", p.Size(), len(ref.fps))
	}
	if len(cs) != len(ref.fps) {
		return "certificates", fmt.Sprintf("Certificates() has %d entries, %d distinct certificates were added", len(cs), len(ref.fps))
	}
	for i, c := range cs {
		if w.u.FP(c) != ref.fps[i] {
			return "order", fmt.Sprintf("Certificates()[%d] is certificate #%d, first-insertion order gives #%d", i, w.u.FP(c), ref.fps[i])
		}
	}
	ss := p.Subjects()
	if len(ss) != len(cs) {
		return "subjects", fmt.Sprintf("Subjects() has %d entries for %d certificates", len(ss), len(cs))
	}
	for i := range ss {
		if string(ss[i]) != string(cs[i].RawSubject) {
			return "subjects", fmt.Sprintf("Subjects()[%d] is not the subject of Certificates()[%d]", i, i)
		}
	}
	for i, x := range w.xs {
		if p.Contains(x) != ref.has(w.fpOf[i]) {
			return "contains", fmt.Sprintf("Contains(universe cert %d) = %v, membership by fingerprint = %v", i, p.Contains(x), ref.has(w.fpOf[i]))
		}
	}
	for j, q := range regs {
		sub := true
		for _, f := range refs[j].fps {
			if !ref.has(f) {
				sub = false
			}
		}
		if p.Covers(q) != sub {
			return "covers", fmt.Sprintf("reg%d.Covers(reg%d) = %v, subset by fingerprint = %v", r, j, p.Covers(q), sub)
		}
	}
	if !p.Covers(nil) {
		return "covers", "Covers(nil) = false"
	}
	// indices: each map entry points at certificates with that key, increasing and complete
	_, sha, byName, bySKI := x509.VerifPoolDump(p)
	if len(sha) != len(cs) {
		return "index-sha", fmt.Sprintf("bySHA256 has %d keys for %d certificates", len(sha), len(cs))
	}
	wantName, wantSKI := map[string][]int{}, map[string][]int{}
	for i, c := range cs {
		if v, ok := sha[string(c.FingerprintSHA256)]; !ok || v != i {
			return "index-sha", fmt.Sprintf("bySHA256[fingerprint of certs[%d]] = %d (present %v)", i, v, ok)
		}
		wantName[string(c.RawSubject)] = append(wantName[string(c.RawSubject)], i)
		if len(c.SubjectKeyId) > 0 {
			wantSKI[string(c.SubjectKeyId)] = append(wantSKI[string(c.SubjectKeyId)], i)
		}
	}
	if fmt.Sprint(wantName) != fmt.Sprint(byName) {
		return "index-name", fmt.Sprintf("byName = %v, positions by subject = %v", byName, wantName)
	}
	if fmt.Sprint(wantSKI) != fmt.Sprint(bySKI) {
		return "index-skid", fmt.Sprintf("bySubjectKeyId = %v, positions by key id = %v", bySKI, wantSKI)
	}
	return "", ""
}

// parents: soundness restated on the implementation alone
func (w *world) parentsOracle(p *x509.CertPool, c *x509.Certificate) (string, []int) {
	ps, _, _ := x509.VerifFindVerifiedParents(p, c)
	cs := p.Certificates()
	for _, i := range ps {
		if i < 0 || i >= len(cs) {
			return fmt.Sprintf("findVerifiedParents returned index %d for a pool of %d", i, len(cs)), ps
		}
		if err := c.CheckSignatureFrom(cs[i]); err != nil {
			return fmt.Sprintf("findVerifiedParents returned pool member %d whose signature check over the child fails: %v", i, err), ps
		}
	}
	return "", ps
}

// ---------- run one history ----------
type runner struct {
	w    *world
	regs []*x509.CertPool
	refs []*refPool
}

func newRunner(w *world, n int) *runner {
	r := &runner{w: w}
	for i := 0; i < n; i++ {
		r.regs = append(r.regs, x509.NewCertPool())
		r.refs = append(r.refs, &refPool{})
	}
	return r
}

func (rn *runner) pool(i int) *x509.CertPool {
	if i < 0 {
		return nil
	}
	return rn.regs[i]
}
func (rn *runner) ref(i int) *refPool {
	if i < 0 {
		return &refPool{}
	}
	return rn.refs[i]
}

// apply returns the Coq iop, the observation, and an oracle complaint (key, text)
func (rn *runner) apply(o opIn) (string, []uint64, string, string) {
	w := rn.w
	okFlag := 0
	var coq string
	vkey, vtxt := "", ""
	switch o.K {
	case "new":
		rn.regs[o.R] = x509.NewCertPool()
		rn.refs[o.R] = &refPool{}
		coq = vh.App("INew", vh.Nat(o.R))
	case "add":
		rn.regs[o.R].AddCert(w.xs[o.C])
		rn.refs[o.R].add(w.fpOf[o.C])
		coq = vh.App("IAdd", vh.Nat(o.R), vh.Nat(o.C))
	case "pem":
		blocks, anyCert, idx := abstractBlocks(w, o.PEM)
		got := rn.regs[o.R].AppendCertsFromPEM([]byte(o.PEM))
		for _, i := range idx {
			rn.refs[o.R].add(w.fpOf[i])
		}
		okFlag = 1
		if got {
			okFlag = 2
		}
		if got != anyCert {
			vkey, vtxt = "pem-ok", fmt.Sprintf("AppendCertsFromPEM returned %v, input holds a parseable certificate: %v", got, anyCert)
		}
		coq = vh.App("IPem", vh.Nat(o.R), vh.List0(blocks, "iblock"))
	case "sum":
		s := rn.pool(o.A).Sum(rn.pool(o.B))
		ref := &refPool{}
		for _, f := range rn.ref(o.A).fps {
			ref.add(f)
		}
		for _, f := range rn.ref(o.B).fps {
			ref.add(f)
		}
		rn.regs[o.R], rn.refs[o.R] = s, ref
		on := func(i int) string {
			if i < 0 {
				return "None"
			}
			return vh.Some(vh.Nat(i))
		}
		coq = vh.App("ISum", vh.Nat(o.R), on(o.A), on(o.B))
	default:
		panic("bad op " + o.K)
	}
	if vkey == "" {
		vkey, vtxt = w.oracle(rn.regs, rn.refs, o.R)
	}
	// pools are values of their own: an operation on one register must leave every other register intact
	// (Sum results must not share index storage with their operands)
	for j := 0; vkey == "" && j < len(rn.regs); j++ {
		if j != o.R && rn.regs[j] != nil && rn.refs[j] != nil {
			if k, t := w.oracle(rn.regs, rn.refs, j); k != "" {
				vkey, vtxt = k, fmt.Sprintf("after an operation on reg%d, reg%d: %s", o.R, j, t)
			}
		}
	}
	return coq, observe(w, rn.regs, o.R, okFlag), vkey, vtxt
}

func univTerms(w *world) (string, string) {
	us := make([]string, len(w.xs))
	for i, x := range w.xs {
		us[i] = w.u.Abs(x)
	}
	sig, _ := w.u.SigMatrix(w.xs)
	return vh.List0(us, "cert"), sig
}

func runCase(c *vh.Ctx, in input, stream string) {
	w, err := build(in.Univ)
	if err != nil {
		c.Stat("universe_build_failed", 1)
		return
	}
	rn := newRunner(w, in.NRegs)
	var ops, obs []string
	dup, viol := false, false
	for i, o := range in.Ops {
		before := 0
		if o.K == "add" {
			before = rn.regs[o.R].Size()
		}
		coq, ob, vk, vt := rn.apply(o)
		if o.K == "add" && rn.regs[o.R].Size() == before {
			dup = true
		}
		ops = append(ops, coq)
		obs = append(obs, coqNs(ob))
		if vk != "" {
			in.Ops = in.Ops[:i+1]
			c.Violation("pool-"+vk, fmt.Sprintf("after op %d (%+v): %s", i, o, vt), stream, in)
			viol = true
			break
		}
	}
	// findVerifiedParents of every universe certificate against every register
	var par []uint64
	for r, p := range rn.regs {
		for i, x := range w.xs {
			msg, ps := w.parentsOracle(p, x)
			par = append(par, uint64(len(ps)+1))
			for _, j := range ps {
				par = append(par, uint64(int64(j)))
			}
			if msg != "" && !viol {
				viol = true
				c.Violation("parents-unsound", fmt.Sprintf("register %d, child = universe cert %d: %s", r, i, msg), stream, in)
			}
			if len(ps) > 0 {
				c.Stat("parents_found", 1)
			}
		}
	}
	if !w.u.Consistent() {
		c.Note("fingerprint and raw bytes are not in bijection over the universe")
	}
	us, sig := univTerms(w)
	nk := ""
	if dup {
		nk = fmt.Sprintf("%v|%v", in.Univ, in.Ops)
	}
	c.Case(stream, vh.Pair(vh.Nat(in.NRegs), us, sig, vh.List0(ops, "iop"), vh.List0(obs, "(list N)"), coqNs(par)), in, nk)
}

// ---------- universes ----------
func sp(name, key, iss, sign, skid, akid int, ca bool, serial int64) pki.Spec {
	return pki.Spec{Name: name, Key: key, IssName: iss, SignKey: sign, SKID: skid, AKID: akid, BC: true, CA: ca, MaxPath: -1,
		NB: 1000, NA: 2000000000, Serial: serial}
}

// root, re-keyed root with the same subject, intermediate sharing the root's key id, leaf
// without key id, a second parse of the root (duplicate), cross-signed intermediate
func fixedUniverse() []pki.Spec {
	leaf := sp(2, 3, 1, 2, -1, 0, false, 4)
	leaf.BC = false
	return []pki.Spec{
		sp(0, 0, 0, 0, 0, -1, true, 1),
		sp(0, 1, 0, 1, 1, -1, true, 2),
		sp(1, 2, 0, 0, 0, 0, true, 3),
		leaf,
		sp(0, 0, 0, 0, 0, -1, true, 1),
		sp(1, 2, 0, 1, -1, 1, true, 5),
	}
}

func randSpec(c *vh.Ctx, serial int64) pki.Spec {
	s := pki.Spec{Name: c.Intn(3), Key: c.Intn(3), IssName: c.Intn(3), SKID: c.Intn(4) - 1, AKID: c.Intn(4) - 1,
		BC: c.Intn(5) != 0, CA: c.Intn(4) != 0, MaxPath: c.Intn(3) - 1, NB: 1000, NA: 2000000000, Serial: serial % 3}
	// most certificates are signed by the key their issuer name usually carries
	s.SignKey = s.IssName
	if c.Intn(4) == 0 {
		s.SignKey = c.Intn(3)
	}
	if c.Intn(6) == 0 {
		s.KU = []int{1, 32, 33, 4}[c.Intn(4)]
	}
	if c.Intn(8) == 0 {
		s.BadSig = true
	}
	if c.Intn(10) == 0 {
		s.Key = 100 + c.Intn(2)
	}
	if c.Intn(10) == 0 {
		s.SignKey = 100 + c.Intn(2)
	}
	if !s.BC {
		s.CA = false
	}
	return s
}

var pemKinds = []string{"cert", "cert", "cert", "trunc", "garbage", "wrongtype", "headers", "junk", "badb64"}

func randOps(c *vh.Ctx, w *world, nregs, n int) []opIn {
	var ops []opIn
	for i := 0; i < n; i++ {
		switch c.Intn(10) {
		case 0:
			ops = append(ops, opIn{K: "sum", R: c.Intn(nregs), A: c.Intn(nregs+1) - 1, B: c.Intn(nregs+1) - 1})
		case 1, 2:
			var items []string
			for j := c.Intn(5); j >= 0; j-- {
				items = append(items, fmt.Sprintf("%s %d", pemKinds[c.Intn(len(pemKinds))], c.Intn(len(w.xs))))
			}
			if c.Intn(4) == 0 {
				items = append(items, "trailing 0")
			}
			ops = append(ops, opIn{K: "pem", R: c.Intn(nregs), PEM: pemText(w, items)})
		case 3:
			if c.Intn(4) == 0 {
				ops = append(ops, opIn{K: "new", R: c.Intn(nregs)})
				continue
			}
			fallthrough
		default:
			ops = append(ops, opIn{K: "add", R: c.Intn(nregs), C: c.Intn(len(w.xs))})
		}
	}
	return ops
}

// ---------- exhaustive ----------
func hashList(h uint64, l []uint64) uint64 {
	h = mix(h, 77)
	for _, x := range l {
		h = mix(h, x)
	}
	return h
}

func exhaustive(c *vh.Ctx, specs []pki.Spec, nregs, depth int) {
	w, err := build(specs)
	if err != nil {
		panic(err)
	}
	var alpha []opIn
	for i := range w.xs {
		alpha = append(alpha, opIn{K: "add", R: 0, C: i})
	}
	alpha = append(alpha, opIn{K: "add", R: 1, C: 0}, opIn{K: "add", R: 1, C: 3},
		opIn{K: "sum", R: 0, A: 0, B: 1}, opIn{K: "sum", R: 0, A: 1, B: 0}, opIn{K: "sum", R: 1, A: 0, B: -1},
		opIn{K: "pem", R: 0, PEM: pemText(w, []string{"wrongtype 1", "junk 0", "cert 2", "garbage 0", "headers 5"})},
		opIn{K: "pem", R: 1, PEM: pemText(w, []string{"garbage 0", "wrongtype 1", "headers 2", "trunc 3"})},
		opIn{K: "new", R: 0})
	// Coq alphabet
	rn0 := newRunner(w, nregs)
	coqAlpha := make([]string, len(alpha))
	for i, o := range alpha {
		coqAlpha[i], _, _, _ = rn0.apply(o)
	}
	count := 0
	reported := false
	var rec func(pre []opIn, n int, h uint64) uint64
	rec = func(pre []opIn, n int, h uint64) uint64 {
		if n == 0 {
			return h
		}
		for _, o := range alpha {
			rn := newRunner(w, nregs)
			for _, p := range pre {
				rn.apply(p)
			}
			_, ob, vk, vt := rn.apply(o)
			seq := append(append([]opIn{}, pre...), o)
			if vk != "" && !reported {
				reported = true
				c.Violation("pool-"+vk, fmt.Sprintf("after op %d (%+v): %s", len(pre), o, vt), "case", input{Univ: specs, NRegs: nregs, Ops: seq})
			}
			count++
			c.Eval("")
			h = rec(seq, n-1, hashList(h, ob))
		}
		return h
	}
	h := rec(nil, depth, 0)
	us, _ := univTerms(w)
	c.Case("xcase", vh.Pair(vh.Nat(nregs), us, vh.List(coqAlpha), vh.Nat(depth), vh.N(h)),
		map[string]interface{}{"kind": "exhaustive", "depth": depth, "nregs": nregs}, fmt.Sprintf("x%d", depth))
	c.Stat("exhaustive_steps", count)
	c.Exhaustive(fmt.Sprintf("every op sequence of length <= %d over %d ops (AddCert of %d universe certificates into 2 pools, Sum in both orders and with nil, AppendCertsFromPEM with junk/non-certificate blocks, NewCertPool)", depth, len(alpha), len(w.xs)))
}

// CheckSignatureFrom on every combination of the parent fields it reads (struct copies of parsed
// certificates), for a verifying and a non-verifying key, and with the exempted Entrust key
func sigCases(c *vh.Ctx) {
	w, err := build(fixedUniverse())
	if err != nil {
		panic(err)
	}
	child0 := w.xs[2] // issued under name 0, signed by key 0
	n := 0
	for _, par := range []*x509.Certificate{w.xs[0], w.xs[1]} {
		for _, ver := range []int{1, 3} {
			for _, bc := range []bool{false, true} {
				for _, ca := range []bool{false, true} {
					for _, ku := range []x509.KeyUsage{0, x509.KeyUsageCertSign, x509.KeyUsageDigitalSignature, x509.KeyUsageCertSign | x509.KeyUsageCRLSign} {
						for variant := 0; variant < 4; variant++ {
							p2, ch := *par, *child0
							p2.Version, p2.BasicConstraintsValid, p2.IsCA, p2.KeyUsage = ver, bc, ca, ku
							switch variant {
							case 1:
								p2.PublicKeyAlgorithm = x509.UnknownPublicKeyAlgorithm
							case 2:
								p2.RawSubject = w.xs[3].RawSubject // name mismatch
							case 3:
								ch.RawSubjectPublicKeyInfo = x509.VerifEntrustSPKI()
							}
							sg := p2.CheckSignature(ch.SignatureAlgorithm, ch.RawTBSCertificate, ch.Signature) == nil
							got := ch.CheckSignatureFrom(&p2) == nil
							in := map[string]interface{}{"kind": "checksig", "parent": w.u.FP(par), "version": ver, "bc": bc, "ca": ca, "ku": int(ku), "variant": variant}
							c.Case("scase", vh.Pair(w.u.Abs(&ch), w.u.Abs(&p2), vh.Bool(sg), vh.Bool(got)), in, fmt.Sprint(in))
							n++
							if got && (!sg || string(p2.RawSubject) != string(ch.RawIssuer)) {
								c.Violation("checksig-unsound", fmt.Sprintf("CheckSignatureFrom = nil with signature ok = %v, issuer = subject: %v (%v)", sg,
									string(p2.RawSubject) == string(ch.RawIssuer), in), "scase", in)
							}
						}
					}
				}
			}
		}
	}
	c.Exhaustive(fmt.Sprintf("CheckSignatureFrom on %d combinations of parent version / basicConstraints / cA / keyUsage / key algorithm / name match / signature validity / Entrust key", n))
}

func gen(c *vh.Ctx) {
	sigCases(c)
	fu := fixedUniverse()
	depth := 4
	if c.Thorough {
		depth = 5
	}
	exhaustive(c, fu, 2, depth)

	// every sequence of length <= 3 over a small alphabet, one case each (localisation + parents)
	w, _ := build(fu)
	small := []opIn{{K: "add", R: 0, C: 0}, {K: "add", R: 0, C: 2}, {K: "add", R: 0, C: 4}, {K: "add", R: 1, C: 1}, {K: "add", R: 0, C: 5},
		{K: "sum", R: 1, A: 0, B: 1}, {K: "pem", R: 0, PEM: pemText(w, []string{"cert 3", "badb64 0", "cert 0", "trunc 1"})}}
	var rec func(pre []opIn, d int)
	rec = func(pre []opIn, d int) {
		if len(pre) > 0 {
			runCase(c, input{Univ: fu, NRegs: 2, Ops: append([]opIn{}, pre...)}, "case")
		}
		if d == 0 {
			return
		}
		for _, o := range small {
			rec(append(pre, o), d-1)
		}
	}
	sd := 2
	if c.Thorough {
		sd = 3
	}
	rec(nil, sd)

	// one subject (and one key id) shared by every certificate: the per-name / per-key-id index lists grow long, so
	// lists copied or shared between a Sum result and its operands are appended to on both sides
	var same []pki.Spec
	for j := 0; j < 8; j++ {
		same = append(same, sp(0, j%3, 0, 0, 0, -1, true, int64(10+j)))
	}
	if ws, err := build(same); err == nil {
		runCase(c, input{Univ: same, NRegs: 3, Ops: []opIn{{K: "add", R: 0, C: 0}, {K: "add", R: 0, C: 1}, {K: "add", R: 0, C: 2},
			{K: "add", R: 1, C: 3}, {K: "sum", R: 2, A: 0, B: 1}, {K: "add", R: 0, C: 4}, {K: "add", R: 2, C: 5}, {K: "add", R: 1, C: 6},
			{K: "sum", R: 1, A: 2, B: 0}, {K: "add", R: 2, C: 7}, {K: "add", R: 0, C: 6}}}, "case")
		ns := 12
		if c.Thorough {
			ns = 200
		}
		for i := 0; i < ns; i++ {
			runCase(c, input{Univ: same, NRegs: 3, Ops: randOps(c, ws, 3, 10+c.Intn(30))}, "case")
		}
	} else {
		c.Stat("universe_build_failed", 1)
	}

	// random universes and long histories
	nr := 60
	if c.Thorough {
		nr = 1200
	}
	for i := 0; i < nr; i++ {
		var specs []pki.Spec
		n := 4 + c.Intn(5)
		for j := 0; j < n; j++ {
			if j > 0 && c.Intn(6) == 0 {
				specs = append(specs, specs[c.Intn(j)]) // duplicate certificate, separately parsed
			} else {
				specs = append(specs, randSpec(c, int64(j)))
			}
		}
		w, err := build(specs)
		if err != nil {
			c.Stat("universe_build_failed", 1)
			continue
		}
		nregs := 2 + c.Intn(2)
		runCase(c, input{Univ: specs, NRegs: nregs, Ops: randOps(c, w, nregs, 10+c.Intn(40))}, "case")
	}
}

func replay(c *vh.Ctx, raw json.RawMessage) {
	var in input
	if err := json.Unmarshal(raw, &in); err != nil {
		panic(err)
	}
	if len(in.Univ) == 0 {
		sigCases(c) // scase / exhaustive inputs are regenerated, not stored
		return
	}
	runCase(c, in, "case")
}

func main() { vh.Main("C08", gen, replay) }
