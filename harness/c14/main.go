// C14 harness: drives crl.CheckCRLForCert (linear search and cache path), the CRL-number
// decoding and big.Int.String() on generated CRLs and prints the projected RevocationData
// for the Coq model (coq/model/C14.v).  The direct oracle restates the property on the
// implementation alone: revoked <=> serial listed, time of the first listed entry, a
// first-wins cache built from the same entries gives the same answer, header fields / issuer /
// CRL number / extension classification are copies of the CRL's.
package main

import (
	stdasn1 "encoding/asn1"
	"encoding/json"
	"fmt"
	"math/big"
	"reflect"
	"strings"
	"time"

	"github.com/zmap/zcrypto/encoding/asn1"
	"github.com/zmap/zcrypto/x509"
	"github.com/zmap/zcrypto/x509/pkix"
	"github.com/zmap/zcrypto/x509/revocation/crl"
	"verifharness/vh"
)

// ---------- replayable input ----------
type entryIn struct {
	Serial string `json:"serial"` // decimal
	Sec    int64  `json:"sec"`
	Nsec   int64  `json:"nsec"` // only kept on the direct path
}
type extIn struct {
	OID  []int  `json:"oid"`
	Crit bool   `json:"crit"`
	Val  string `json:"val"` // hex
}
type atvIn struct {
	OID  []int  `json:"oid"`
	Kind string `json:"kind"` // printable | utf8 | ia5 | int | bool
	Val  string `json:"val"`
}
type cacheIn struct {
	Key string `json:"key"`
	Sec int64  `json:"sec"`
}
type input struct {
	Direct  bool       `json:"direct"` // hand the struct to CheckCRLForCert without a DER round trip
	Version int        `json:"version"`
	Issuer  [][]atvIn  `json:"issuer"`
	This    int64      `json:"this"`
	Next    int64      `json:"next"`
	HasNext bool       `json:"has_next"`
	Entries []entryIn  `json:"entries"`
	Exts    []extIn    `json:"exts"`
	Query   string     `json:"query"`
	Modes   []int      `json:"modes"` // 0 none, 1 first-wins cache, 2 last-wins cache, 3 arbitrary cache (Cache)
	Cache   []cacheIn  `json:"cache,omitempty"`
	NumWant *string    `json:"num_want,omitempty"` // expected CRL number (decimal) when the generator knows it
}

var crlNumberOID = []int{2, 5, 29, 20}

func bigOf(s string) *big.Int {
	n, ok := new(big.Int).SetString(s, 10)
	if !ok {
		panic("bad decimal " + s)
	}
	return n
}

func tm(sec, nsec int64) time.Time { return time.Unix(sec, nsec).UTC() }

// timestamp observable: milliseconds since Unix second 1600000000 (the generator only uses whole
// milliseconds; anything finer is made visible as a huge value); zero time.Time = C14.zero_time
func stamp(t time.Time) *big.Int {
	z := new(big.Int).Mul(big.NewInt(t.Unix()-1600000000), big.NewInt(1000))
	z.Add(z, big.NewInt(int64(t.Nanosecond()/1000000)))
	if r := t.Nanosecond() % 1000000; r != 0 {
		z.Add(z, new(big.Int).Lsh(big.NewInt(int64(r)), 80))
	}
	return z
}

func stringTag(kind string) int {
	switch kind {
	case "printable":
		return asn1.TagPrintableString
	case "utf8":
		return asn1.TagUTF8String
	case "ia5":
		return asn1.TagIA5String
	}
	return -1
}

// ---------- building the CertificateList ----------
func buildList(in input) (*pkix.CertificateList, error) {
	var rdns pkix.RDNSequence
	for _, set := range in.Issuer {
		s := pkix.RelativeDistinguishedNameSET{}
		for _, a := range set {
			var v interface{}
			if in.Direct {
				switch a.Kind {
				case "int":
					v = int64(len(a.Val))
				case "bool":
					v = true
				default:
					v = a.Val
				}
			} else {
				switch a.Kind {
				case "int":
					v = asn1.RawValue{Tag: asn1.TagInteger, Bytes: []byte{byte(len(a.Val) & 0x7f)}}
				case "bool":
					v = asn1.RawValue{Tag: asn1.TagBoolean, Bytes: []byte{0xff}}
				default:
					v = asn1.RawValue{Tag: stringTag(a.Kind), Bytes: []byte(a.Val)}
				}
			}
			s = append(s, pkix.AttributeTypeAndValue{Type: asn1.ObjectIdentifier(a.OID), Value: v})
		}
		rdns = append(rdns, s)
	}
	if rdns == nil {
		rdns = pkix.RDNSequence{}
	}
	var rcs []pkix.RevokedCertificate
	for _, e := range in.Entries {
		ns := e.Nsec
		if !in.Direct {
			ns = 0
		}
		rcs = append(rcs, pkix.RevokedCertificate{SerialNumber: bigOf(e.Serial), RevocationTime: tm(e.Sec, ns)})
	}
	var exts []pkix.Extension
	for _, x := range in.Exts {
		exts = append(exts, pkix.Extension{Id: asn1.ObjectIdentifier(x.OID), Critical: x.Crit, Value: vh.UnHex(x.Val)})
	}
	alg := pkix.AlgorithmIdentifier{Algorithm: asn1.ObjectIdentifier{1, 2, 840, 113549, 1, 1, 11}, Parameters: asn1.RawValue{Tag: 5}}
	tbs := pkix.TBSCertificateList{
		Version: in.Version, Signature: alg, Issuer: rdns, ThisUpdate: tm(in.This, 0),
		RevokedCertificates: rcs, Extensions: exts,
	}
	if in.HasNext {
		tbs.NextUpdate = tm(in.Next, 0)
	}
	cl := &pkix.CertificateList{TBSCertList: tbs, SignatureAlgorithm: alg,
		SignatureValue: asn1.BitString{Bytes: []byte{0xde, 0xad, 0xbe, 0xef}, BitLength: 32}}
	if in.Direct {
		return cl, nil
	}
	der, err := asn1.Marshal(*cl)
	if err != nil {
		return nil, fmt.Errorf("marshal: %v", err)
	}
	return x509.ParseDERCRL(der)
}

func firstWins(rcs []pkix.RevokedCertificate) map[string]*pkix.RevokedCertificate {
	m := map[string]*pkix.RevokedCertificate{}
	for i := range rcs {
		k := rcs[i].SerialNumber.String()
		if _, ok := m[k]; !ok {
			m[k] = &rcs[i]
		}
	}
	return m
}
func lastWins(rcs []pkix.RevokedCertificate) map[string]*pkix.RevokedCertificate {
	m := map[string]*pkix.RevokedCertificate{}
	for i := range rcs {
		m[rcs[i].SerialNumber.String()] = &rcs[i]
	}
	return m
}

// CRLNumber is an int before the repair and a *big.Int after it: read it by reflection so
// that the harness builds (and the replay fails) on a tree without the repair.
func crlNumber(rd *crl.RevocationData) *big.Int {
	n, _ := crlNumberKind(rd)
	return n
}
func crlNumberKind(rd *crl.RevocationData) (n *big.Int, intTyped bool) {
	f := reflect.ValueOf(rd.CRLExtensions).FieldByName("CRLNumber")
	switch f.Kind() {
	case reflect.Int, reflect.Int64:
		return big.NewInt(f.Int()), true
	case reflect.Ptr:
		if f.IsNil() {
			return nil, false
		}
		return f.Interface().(*big.Int), false
	}
	panic("CRLNumber has unexpected kind " + f.Kind().String())
}

// ---------- Coq printers ----------
func coqOID(o []int) string {
	if len(o) == 0 {
		return "(@nil N)"
	}
	xs := make([]string, len(o))
	for i, v := range o {
		xs[i] = fmt.Sprint(v)
	}
	return "[" + strings.Join(xs, ";") + "]%N"
}
func coqExt(oid []int, crit bool, val []byte) string {
	return vh.App("Build_ext", coqOID(oid), vh.Bool(crit), vh.Bytes(val))
}
func coqATV(oid []int, isStr bool, val string) string {
	if !isStr {
		val = ""
	}
	return vh.App("Build_atv", coqOID(oid), vh.Bool(isStr), vh.Str(val))
}

// the struct handed to CheckCRLForCert, as a C14.crl term.  Entries, times, extensions and version
// are printed from the generator's values (so the DER round trip of the list is part of what is
// compared); the issuer is printed from the parsed list because DER sorts the members of a SET.
func coqInput(in input, cl *pkix.CertificateList) string {
	sets := make([]string, len(cl.TBSCertList.Issuer))
	for i, set := range cl.TBSCertList.Issuer {
		as := make([]string, len(set))
		for j, a := range set {
			sv, ok := a.Value.(string)
			as[j] = coqATV([]int(a.Type), ok, sv)
		}
		sets[i] = vh.List0(as, "atv")
	}
	es := make([]string, len(in.Entries))
	for i, e := range in.Entries {
		es[i] = vh.App("Build_rentry", vh.BigZ(bigOf(e.Serial)), vh.BigZ(stamp(entryTime(in, e))))
	}
	xs := make([]string, len(in.Exts))
	for i, x := range in.Exts {
		xs[i] = coqExt(x.OID, x.Crit, vh.UnHex(x.Val))
	}
	next := stamp(time.Time{})
	if in.HasNext {
		next = stamp(tm(in.Next, 0))
	}
	return vh.App("Build_crl", vh.Z(int64(in.Version)), vh.List0(sets, "(list atv)"),
		vh.BigZ(stamp(tm(in.This, 0))), vh.BigZ(next), vh.List0(es, "rentry"), vh.List0(xs, "ext"))
}

func entryTime(in input, e entryIn) time.Time {
	if in.Direct {
		return tm(e.Sec, e.Nsec)
	}
	return tm(e.Sec, 0)
}

func nameFields(n *pkix.Name) [][]string {
	return [][]string{n.CommonNames, n.Surname, n.SerialNumbers, n.Country, n.Locality, n.Province,
		n.StreetAddress, n.Organization, n.OrganizationalUnit, n.PostalCode, n.GivenName, n.OrganizationIDs,
		n.DomainComponent, n.EmailAddress, n.JurisdictionLocality, n.JurisdictionProvince, n.JurisdictionCountry}
}

// ---------- checksums, same traversal as C14.result_hash / C14.cache_sum ----------
const modP = 1000000007

var bigP = big.NewInt(modP)

func mixBig(h uint64, x *big.Int) uint64 {
	return vh.Mix(h, new(big.Int).Mod(x, bigP).Uint64())
}
func mixZ(h uint64, z *big.Int) uint64 {
	switch z.Sign() {
	case 0:
		return vh.Mix(h, 0)
	case 1:
		return mixBig(vh.Mix(h, 1), z)
	}
	return mixBig(vh.Mix(h, 2), new(big.Int).Abs(z))
}
func mixBytes(h uint64, b []byte) uint64 {
	h = vh.Mix(h, uint64(len(b)))
	for _, x := range b {
		h = vh.Mix(h, uint64(x))
	}
	return h
}
func mixOID(h uint64, o []int) uint64 {
	h = vh.Mix(h, uint64(len(o)))
	for _, x := range o {
		h = vh.Mix(h, uint64(x)%modP)
	}
	return h
}
func mixBool(h uint64, b bool) uint64 {
	if b {
		return vh.Mix(h, 1)
	}
	return vh.Mix(h, 0)
}
func mixATV(h uint64, a pkix.AttributeTypeAndValue) uint64 {
	sv, ok := a.Value.(string)
	if !ok {
		sv = ""
	}
	return mixBytes(mixBool(mixOID(h, []int(a.Type)), ok), []byte(sv))
}
func mixExts(h uint64, xs []pkix.Extension) uint64 {
	h = vh.Mix(h, uint64(len(xs)))
	for _, x := range xs {
		h = mixBytes(mixBool(mixOID(h, []int(x.Id)), x.Critical), x.Value)
	}
	return h
}
func resultHash(rd *crl.RevocationData) uint64 {
	h := mixZ(mixZ(mixZ(0, big.NewInt(int64(rd.Version))), stamp(rd.ThisUpdate)), stamp(rd.NextUpdate))
	h = vh.Mix(h, uint64(len(rd.Issuer.OriginalRDNS)))
	for _, set := range rd.Issuer.OriginalRDNS {
		h = vh.Mix(h, uint64(len(set)))
		for _, a := range set {
			h = mixATV(h, a)
		}
	}
	h = vh.Mix(h, uint64(len(rd.Issuer.Names)))
	for _, a := range rd.Issuer.Names {
		h = mixATV(h, a)
	}
	h = mixBytes(mixBytes(h, []byte(rd.Issuer.CommonName)), []byte(rd.Issuer.SerialNumber))
	fs := nameFields(&rd.Issuer)
	h = vh.Mix(h, uint64(len(fs)))
	for _, f := range fs {
		h = vh.Mix(h, uint64(len(f)))
		for _, v := range f {
			h = mixBytes(h, []byte(v))
		}
	}
	if n := crlNumber(rd); n == nil {
		h = vh.Mix(h, 0)
	} else {
		h = mixZ(vh.Mix(h, 1), n)
	}
	h = mixExts(mixExts(h, rd.UnknownCriticalCRLExtensions), rd.UnknownCRLExtensions)
	return mixZ(mixBool(h, rd.IsRevoked), stamp(rd.RevocationTime))
}
func cacheSum(m map[string]*pkix.RevokedCertificate) uint64 {
	var a uint64
	for k, v := range m {
		a = (a + mixZ(mixBytes(0, []byte(k)), stamp(v.RevocationTime))) % modP
	}
	return a
}

// ---------- one case ----------
func hexOf(n *big.Int) string { return n.Text(16) } // independent of Cmp and of String()

func sameInstant(a, b time.Time) bool { return a.Unix() == b.Unix() && a.Nanosecond() == b.Nanosecond() }

func oidEq(a, b []int) bool {
	if len(a) != len(b) {
		return false
	}
	for i := range a {
		if a[i] != b[i] {
			return false
		}
	}
	return true
}

func runCase(c *vh.Ctx, in input, streamName string) {
	cl, err := buildList(in)
	if err != nil {
		// the generator produced something the codec refuses: not a C14 matter
		c.Stat("unbuildable", 1)
		return
	}
	rcs := cl.TBSCertList.RevokedCertificates
	q := bigOf(in.Query)
	cert := &x509.Certificate{SerialNumber: q}
	listed := 0
	var first *entryIn
	for i := range in.Entries {
		if hexOf(bigOf(in.Entries[i].Serial)) == hexOf(q) && bigOf(in.Entries[i].Serial).Sign() == q.Sign() {
			if first == nil {
				first = &in.Entries[i]
			}
			listed++
		}
	}
	var calls []string
	var linear *crl.RevocationData
	for _, mode := range in.Modes {
		var cache map[string]*pkix.RevokedCertificate
		given := []string{}
		switch mode {
		case 1:
			cache = firstWins(rcs)
		case 2:
			cache = lastWins(rcs)
		case 3:
			cache = map[string]*pkix.RevokedCertificate{}
			for _, kv := range in.Cache {
				cache[kv.Key] = &pkix.RevokedCertificate{SerialNumber: big.NewInt(0), RevocationTime: tm(kv.Sec, 0)}
			}
			keys := make([]string, 0, len(cache))
			for k := range cache {
				keys = append(keys, k)
			}
			sortStrings(keys)
			for _, k := range keys {
				given = append(given, vh.Pair(vh.Str(k), vh.BigZ(stamp(cache[k].RevocationTime))))
			}
		}
		rd, err := crl.CheckCRLForCert(cl, cert, cache)
		if err != nil || rd == nil {
			c.Violation("check-error", fmt.Sprintf("CheckCRLForCert failed: %v", err), streamName, in)
			return
		}
		if mode == 0 {
			linear = rd
		}
		calls = append(calls, vh.Pair(vh.NI(mode), vh.List0(given, "(bytes * Z)"), vh.N(cacheSum(cache)), vh.N(resultHash(rd))))
		c.Stat(fmt.Sprintf("mode%d", mode), 1)
		oracle(c, in, cl, rd, mode, first, streamName)
	}
	// the cache built (first-wins) from the same entries agrees with the linear search
	if linear != nil {
		rc, err := crl.CheckCRLForCert(cl, cert, firstWins(rcs))
		if err != nil || rc.IsRevoked != linear.IsRevoked || !sameInstant(rc.RevocationTime, linear.RevocationTime) {
			c.Violation("cache-disagrees", fmt.Sprintf("serial %s: linear (%v,%v) vs first-wins cache (%v,%v)", in.Query, linear.IsRevoked, linear.RevocationTime.UTC(), rc.IsRevoked, rc.RevocationTime.UTC()), streamName, in)
		}
		c.Eval("")
	}
	nk := ""
	if listed > 0 || len(in.Exts) > 0 {
		nk = fmt.Sprintf("%v|%d|%s|%d|%v", in.Modes, listed, in.Query, len(in.Entries), in.Exts)
	}
	c.Case(streamName, vh.Pair(coqInput(in, cl), vh.BigZ(q), vh.List0(calls, "call")), in, nk)
	if listed > 1 {
		c.Stat("query_listed_more_than_once", 1)
	} else if listed == 1 {
		c.Stat("query_listed_once", 1)
	} else {
		c.Stat("query_not_listed", 1)
	}
}

// direct oracle on one call
func oracle(c *vh.Ctx, in input, cl *pkix.CertificateList, rd *crl.RevocationData, mode int, first *entryIn, streamName string) {
	viol := func(key, desc string) {
		one := in
		one.Modes = []int{mode}
		c.Violation(key, desc, streamName, one)
	}
	// (a) revoked <=> listed, time of the first listed entry (linear search and first-wins cache)
	if mode == 0 || mode == 1 {
		if rd.IsRevoked != (first != nil) {
			viol(fmt.Sprintf("revoked-flag-mode%d", mode), fmt.Sprintf("serial %s: IsRevoked=%v but it is listed=%v", in.Query, rd.IsRevoked, first != nil))
		} else if first != nil {
			if !sameInstant(rd.RevocationTime, entryTime(in, *first)) {
				viol(fmt.Sprintf("revocation-time-mode%d", mode), fmt.Sprintf("serial %s: RevocationTime %v, first listed entry has %v", in.Query, rd.RevocationTime.UTC(), entryTime(in, *first)))
			}
		} else if !rd.RevocationTime.IsZero() {
			viol("revocation-time-unrevoked", fmt.Sprintf("serial %s not listed but RevocationTime=%v", in.Query, rd.RevocationTime))
		}
	}
	if mode == 2 && rd.IsRevoked != (first != nil) {
		viol("revoked-flag-mode2", fmt.Sprintf("serial %s: IsRevoked=%v with a last-wins cache but it is listed=%v", in.Query, rd.IsRevoked, first != nil))
	}
	// (c) header fields and issuer are copies
	if rd.Version != in.Version || !sameInstant(rd.ThisUpdate, tm(in.This, 0)) ||
		(in.HasNext && !sameInstant(rd.NextUpdate, tm(in.Next, 0))) || (!in.HasNext && !rd.NextUpdate.IsZero()) {
		viol("header-copy", fmt.Sprintf("version/thisUpdate/nextUpdate = %d/%v/%v, CRL has %d/%v/%v(present=%v)", rd.Version, rd.ThisUpdate.UTC(), rd.NextUpdate.UTC(), in.Version, tm(in.This, 0), tm(in.Next, 0), in.HasNext))
	}
	if string(rd.CRLSignatureValue) != string(cl.SignatureValue.Bytes) || rd.CRLSignatureAlgorithm != x509.SHA256WithRSA {
		viol("header-copy", "signature value/algorithm not copied")
	}
	{
		// the generator's attributes, as a multiset per RDN (DER sorts a SET), must all arrive
		var flat []pkix.AttributeTypeAndValue
		for _, set := range cl.TBSCertList.Issuer {
			flat = append(flat, set...)
		}
		ok := len(rd.Issuer.Names) == len(flat) && reflect.DeepEqual(rd.Issuer.OriginalRDNS, cl.TBSCertList.Issuer)
		cn, sn := "", ""
		want := 0
		for i, a := range flat {
			if !ok {
				break
			}
			if !reflect.DeepEqual(rd.Issuer.Names[i], a) {
				ok = false
			}
			sv, isStr := a.Value.(string)
			if isStr && oidEq([]int(a.Type), []int{2, 5, 4, 3}) {
				cn = sv
			}
			if isStr && oidEq([]int(a.Type), []int{2, 5, 4, 5}) {
				sn = sv
			}
			if isStr && knownAttr([]int(a.Type)) {
				want++
			}
		}
		gen := 0
		for i, set := range in.Issuer {
			gen += len(set)
			if i < len(cl.TBSCertList.Issuer) && !sameSet(set, cl.TBSCertList.Issuer[i]) {
				ok = false
			}
		}
		if !ok || gen != len(flat) || rd.Issuer.CommonName != cn || rd.Issuer.SerialNumber != sn {
			viol("issuer-copy", fmt.Sprintf("issuer not copied: Names=%v CommonName=%q SerialNumber=%q, CRL issuer %v", rd.Issuer.Names, rd.Issuer.CommonName, rd.Issuer.SerialNumber, in.Issuer))
		}
		total := 0
		for _, f := range nameFields(&rd.Issuer) {
			total += len(f)
		}
		if ok && total != want {
			viol("issuer-copy", fmt.Sprintf("issuer fields hold %d values, CRL issuer has %d string attributes of known type", total, want))
		}
	}
	// (d) CRL number and extension classification
	{
		var want *big.Int
		var crit, unk []extIn
		seen := false
		for _, x := range in.Exts {
			if oidEq(x.OID, crlNumberOID) {
				seen = true
				var n *big.Int
				if _, err := stdasn1.Unmarshal(vh.UnHex(x.Val), &n); err == nil { // upstream decoder as reference
					want = n
				} else {
					want = nil
				}
			} else if x.Crit {
				crit = append(crit, x)
			} else {
				unk = append(unk, x)
			}
		}
		got, intTyped := crlNumberKind(rd)
		same := (got == nil && want == nil) || (got != nil && want != nil && hexOf(got) == hexOf(want) && got.Sign() == want.Sign())
		if intTyped && !seen && got.Sign() == 0 {
			same = true // int-typed field (tree without the repair): an absent extension reads as 0
		}
		if !same {
			viol("crl-number", fmt.Sprintf("CRLNumber=%v, CRL has %v (cRLNumber extension present=%v)", got, want, seen))
		} else if in.NumWant != nil && (got == nil || got.String() != *in.NumWant) {
			viol("crl-number", fmt.Sprintf("CRLNumber=%v, CRL was built with cRLNumber %s", got, *in.NumWant))
		}
		cmp := func(got []pkix.Extension, want []extIn) bool {
			if len(got) != len(want) {
				return false
			}
			for i := range got {
				if !oidEq([]int(got[i].Id), want[i].OID) || got[i].Critical != want[i].Crit || vh.Hex(got[i].Value) != want[i].Val {
					return false
				}
			}
			return true
		}
		if !cmp(rd.UnknownCriticalCRLExtensions, crit) || !cmp(rd.UnknownCRLExtensions, unk) {
			viol("ext-classification", fmt.Sprintf("critical=%v other=%v for CRL extensions %v", rd.UnknownCriticalCRLExtensions, rd.UnknownCRLExtensions, in.Exts))
		}
	}
}

// the parsed RDN holds the generated attributes (in some order)
func sameSet(gen []atvIn, got pkix.RelativeDistinguishedNameSET) bool {
	if len(gen) != len(got) {
		return false
	}
	used := make([]bool, len(got))
outer:
	for _, a := range gen {
		for j, g := range got {
			if used[j] || !oidEq([]int(g.Type), a.OID) {
				continue
			}
			sv, isStr := g.Value.(string)
			if isStr != (stringTag(a.Kind) >= 0) || (isStr && sv != a.Val) {
				continue
			}
			used[j] = true
			continue outer
		}
		return false
	}
	return true
}

func knownAttr(o []int) bool {
	if len(o) == 4 && o[0] == 2 && o[1] == 5 && o[2] == 4 {
		switch o[3] {
		case 3, 4, 5, 6, 7, 8, 9, 10, 11, 17, 42, 97:
			return true
		}
		return false
	}
	for _, k := range [][]int{{0, 9, 2342, 19200300, 100, 1, 25}, {1, 2, 840, 113549, 1, 9, 1},
		{1, 3, 6, 1, 4, 1, 311, 60, 2, 1, 1}, {1, 3, 6, 1, 4, 1, 311, 60, 2, 1, 2}, {1, 3, 6, 1, 4, 1, 311, 60, 2, 1, 3}} {
		if oidEq(o, k) {
			return true
		}
	}
	return false
}

func sortStrings(a []string) {
	for i := 1; i < len(a); i++ {
		for j := i; j > 0 && a[j] < a[j-1]; j-- {
			a[j], a[j-1] = a[j-1], a[j]
		}
	}
}

// ---------- generators ----------
func randBig(c *vh.Ctx) *big.Int {
	switch c.Intn(10) {
	case 0:
		return big.NewInt(0)
	case 1, 2, 3:
		return big.NewInt(int64(c.Intn(40)) - 8)
	case 4:
		n := new(big.Int).SetBytes(c.Bytes(25 + c.Intn(3))) // ~2^200
		if c.Bool() {
			n.Neg(n)
		}
		return n
	case 5:
		n := new(big.Int).Lsh(big.NewInt(1), uint(c.Pick([]int{7, 8, 15, 16, 31, 32, 63, 64, 127, 128, 159, 160, 200})))
		n.Add(n, big.NewInt(int64(c.Intn(3))-1))
		if c.Intn(3) == 0 {
			n.Neg(n)
		}
		return n
	case 6:
		n := new(big.Int).Exp(big.NewInt(10), big.NewInt(int64(1+c.Intn(40))), nil)
		n.Add(n, big.NewInt(int64(c.Intn(3))-1))
		return n
	default:
		n := new(big.Int).SetBytes(c.Bytes(1 + c.Intn(9)))
		if c.Intn(4) == 0 {
			n.Neg(n)
		}
		return n
	}
}

func derInt(n *big.Int) []byte {
	b, err := stdasn1.Marshal(n)
	if err != nil {
		panic(err)
	}
	return b
}

var attrOIDs = [][]int{{2, 5, 4, 3}, {2, 5, 4, 4}, {2, 5, 4, 5}, {2, 5, 4, 6}, {2, 5, 4, 7}, {2, 5, 4, 8}, {2, 5, 4, 9},
	{2, 5, 4, 10}, {2, 5, 4, 11}, {2, 5, 4, 17}, {2, 5, 4, 42}, {2, 5, 4, 97}, {2, 5, 4, 12}, {2, 5, 4, 3, 1}, {2, 5, 4},
	{2, 5, 5, 3}, {0, 9, 2342, 19200300, 100, 1, 25}, {1, 2, 840, 113549, 1, 9, 1}, {1, 3, 6, 1, 4, 1, 311, 60, 2, 1, 1},
	{1, 3, 6, 1, 4, 1, 311, 60, 2, 1, 2}, {1, 3, 6, 1, 4, 1, 311, 60, 2, 1, 3}, {1, 3, 6, 1, 4, 1, 311, 60, 2, 1, 4}, {1, 2, 3}}

func randStr(c *vh.Ctx, kind string) string {
	const pr = "ABCDEFGHIJKLMNOPQRSTUVWXYZabcdefghijklmnopqrstuvwxyz0123456789 "
	n := c.Intn(7)
	var sb strings.Builder
	for i := 0; i < n; i++ {
		if kind == "utf8" && c.Intn(4) == 0 {
			sb.WriteString([]string{"é", "ß", "世", "ø"}[c.Intn(4)])
		} else {
			sb.WriteByte(pr[c.Intn(len(pr)-1)])
		}
	}
	return sb.String()
}

func genIssuer(c *vh.Ctx) [][]atvIn {
	var out [][]atvIn
	n := c.Intn(5)
	for i := 0; i < n; i++ {
		var set []atvIn
		m := 1 + c.Intn(2)
		if c.Intn(12) == 0 {
			m = 0
		}
		for j := 0; j < m; j++ {
			kind := []string{"printable", "printable", "utf8", "ia5", "int", "bool"}[c.Intn(6)]
			o := attrOIDs[c.Intn(len(attrOIDs))]
			if c.Intn(3) == 0 {
				o = attrOIDs[c.Intn(3)] // more CN / SN collisions
			}
			set = append(set, atvIn{OID: o, Kind: kind, Val: randStr(c, kind)})
		}
		if set == nil {
			set = []atvIn{}
		}
		out = append(out, set)
	}
	return out
}

func malformedInt(c *vh.Ctx) []byte {
	switch c.Intn(10) {
	case 0:
		return nil
	case 1:
		return []byte{0x02}
	case 2:
		return []byte{0x02, 0x00}
	case 3:
		return []byte{0x02, 0x02, 0x00, 0x05} // non-minimal
	case 4:
		return []byte{0x02, 0x02, 0xff, 0x80}
	case 5:
		return []byte{0x02, 0x81, 0x01, 0x05} // non-minimal length
	case 6:
		return []byte{0x02, 0x03, 0x01, 0x02} // truncated
	case 7:
		return []byte{0x04, 0x01, 0x05} // OCTET STRING
	case 8:
		return append(derInt(randBig(c)), 0xde, 0xad) // trailing bytes (ignored by the code)
	default:
		b := derInt(randBig(c))
		b[c.Intn(len(b))] ^= byte(1 << uint(c.Intn(8)))
		return b
	}
}

func genExts(c *vh.Ctx) ([]extIn, *string) {
	var out []extIn
	var numWant *string
	n := c.Intn(5)
	for i := 0; i < n; i++ {
		switch c.Intn(9) {
		case 0, 1, 2:
			z := randBig(c)
			if c.Intn(4) != 0 {
				z.Abs(z)
			}
			out = append(out, extIn{OID: crlNumberOID, Crit: c.Intn(5) == 0, Val: vh.Hex(derInt(z))})
			s := z.String()
			numWant = &s
		case 3:
			out = append(out, extIn{OID: crlNumberOID, Crit: c.Intn(5) == 0, Val: vh.Hex(malformedInt(c))})
			numWant = nil
		case 4:
			out = append(out, extIn{OID: []int{2, 5, 29, 35}, Val: vh.Hex(append([]byte{0x30, 0x06, 0x80, 0x04}, c.Bytes(4)...))})
		case 5:
			out = append(out, extIn{OID: []int{2, 5, 29, 28}, Crit: true, Val: "3000"})
		case 6:
			out = append(out, extIn{OID: []int{2, 5, 29, 27}, Crit: c.Bool(), Val: vh.Hex(derInt(big.NewInt(int64(c.Intn(100)))))})
		case 7: // near misses of the cRLNumber OID
			o := [][]int{{2, 5, 29, 21}, {2, 5, 29, 20, 0}, {2, 5, 29}, {2, 5, 29, 19}, {1, 5, 29, 20}, {2, 5, 28, 20}}[c.Intn(6)]
			out = append(out, extIn{OID: o, Crit: c.Bool(), Val: vh.Hex(derInt(big.NewInt(77)))})
		default:
			out = append(out, extIn{OID: []int{1, 3, 6, 1, 4, 1, 1 + c.Intn(3), c.Intn(300)}, Crit: c.Bool(), Val: vh.Hex(c.Bytes(c.Intn(5)))})
		}
	}
	// the expectation is about the last cRLNumber extension only
	last := -1
	for i, x := range out {
		if oidEq(x.OID, crlNumberOID) {
			last = i
		}
	}
	if last < 0 {
		numWant = nil
	}
	return out, numWant
}

func genCRL(c *vh.Ctx) input {
	in := input{Direct: c.Intn(3) == 0}
	in.Version = c.Intn(2)
	if in.Direct && c.Intn(3) == 0 {
		in.Version = c.Intn(9) - 2
	}
	in.Issuer = genIssuer(c)
	base := int64(1600000000)
	if c.Intn(6) == 0 {
		base = 2600000000 // after 2049: GeneralizedTime
	}
	in.This = base + int64(c.Intn(1000000))
	in.HasNext = c.Intn(5) != 0
	in.Next = in.This + int64(c.Intn(1000000))
	n := c.Intn(9)
	if c.Intn(15) == 0 {
		n = 12 + c.Intn(14)
	}
	pool := make([]*big.Int, n/2+1)
	for i := range pool {
		pool[i] = randBig(c)
	}
	if n > 1 && c.Intn(3) == 0 { // same magnitude, opposite sign
		pool[0] = new(big.Int).Neg(pool[len(pool)-1])
	}
	for i := 0; i < n; i++ {
		s := pool[c.Intn(len(pool))]
		if c.Intn(3) == 0 {
			s = randBig(c)
		}
		in.Entries = append(in.Entries, entryIn{Serial: s.String(), Sec: base - int64(i*3600+c.Intn(3000)), Nsec: int64(c.Intn(2)*c.Intn(1000)) * 1000000})
	}
	in.Exts, in.NumWant = genExts(c)
	return in
}

func queries(c *vh.Ctx, in input) []string {
	seen := map[string]bool{}
	var out []string
	add := func(n *big.Int) {
		s := n.String()
		if !seen[s] {
			seen[s] = true
			out = append(out, s)
		}
	}
	if n := len(in.Entries); n > 0 {
		add(bigOf(in.Entries[0].Serial))
		add(bigOf(in.Entries[n-1].Serial))
		// a serial listed more than once, if any
		cnt := map[string]int{}
		for _, e := range in.Entries {
			cnt[e.Serial]++
		}
		for _, e := range in.Entries {
			if cnt[e.Serial] > 1 {
				add(bigOf(e.Serial))
				break
			}
		}
		e := bigOf(in.Entries[c.Intn(n)].Serial)
		add(e)
		add(new(big.Int).Neg(e))
		add(new(big.Int).Add(e, big.NewInt(1)))
		if c.Intn(2) == 0 {
			add(new(big.Int).Mul(e, big.NewInt(10)))
		}
	}
	add(randBig(c))
	if c.Intn(3) == 0 {
		add(big.NewInt(0))
	}
	return out
}

func arbitraryCache(c *vh.Ctx, in input) []cacheIn {
	var out []cacheIn
	seen := map[string]bool{}
	add := func(k string) {
		if !seen[k] {
			seen[k] = true
			out = append(out, cacheIn{Key: k, Sec: 1500000000 + int64(c.Intn(1000000))})
		}
	}
	if c.Intn(4) == 0 {
		return []cacheIn{} // empty, non-nil map
	}
	for _, e := range in.Entries {
		switch c.Intn(6) {
		case 0:
			add(e.Serial)
		case 1:
			add("0" + e.Serial)
		case 2:
			add("+" + e.Serial)
		case 3:
			add(strings.TrimPrefix(e.Serial, "-"))
		case 4:
			add(bigOf(e.Serial).Text(16))
		}
	}
	add(in.Query + " ")
	if c.Bool() {
		add(in.Query)
	}
	add("-0")
	add("")
	return out
}

func gen(c *vh.Ctx) {
	ncrl := 60
	if c.Thorough {
		ncrl = 1500
	}
	for i := 0; i < ncrl; i++ {
		in := genCRL(c)
		for _, q := range queries(c, in) {
			in.Query = q
			in.Modes, in.Cache = []int{0, 1, 2}, nil
			if c.Intn(3) == 0 {
				in.Modes, in.Cache = []int{0, 1, 2, 3}, arbitraryCache(c, in)
			}
			runCase(c, in, "case")
		}
	}
	genDec(c)
	genNum(c)
}

// big.Int.String() against C14.dec_string
func genDec(c *vh.Ctx) {
	emit := func(n *big.Int) {
		c.Case("dcase", vh.Pair(vh.BigZ(n), vh.Str(n.String())), map[string]string{"z": n.String()}, "d"+n.String())
	}
	for i := int64(-120); i <= 1100; i++ {
		emit(big.NewInt(i))
	}
	c.Exhaustive("big.Int.String() of every integer in [-120, 1100]")
	for k := 1; k <= 80; k++ {
		p := new(big.Int).Exp(big.NewInt(10), big.NewInt(int64(k)), nil)
		for d := int64(-1); d <= 1; d++ {
			n := new(big.Int).Add(p, big.NewInt(d))
			emit(n)
			emit(new(big.Int).Neg(n))
		}
	}
	for k := uint(1); k <= 260; k += 1 {
		p := new(big.Int).Lsh(big.NewInt(1), k)
		emit(new(big.Int).Sub(p, big.NewInt(1)))
		emit(p)
	}
	n := 300
	if c.Thorough {
		n = 5000
	}
	for i := 0; i < n; i++ {
		emit(randBig(c))
	}
}

// asn1.Unmarshal(value, &*big.Int) against C14.parse_crl_number
func numCase(c *vh.Ctx, v []byte) {
	var n *big.Int
	_, err := asn1.Unmarshal(v, &n)
	obs := "None"
	if err == nil && n != nil {
		obs = vh.Some(vh.BigZ(n))
	}
	c.Case("ncase", vh.Pair(vh.Bytes(v), obs), map[string]string{"val": vh.Hex(v)}, "n"+vh.Hex(v))
	// oracle: the upstream decoder agrees
	var m *big.Int
	_, err2 := stdasn1.Unmarshal(v, &m)
	if (err == nil) != (err2 == nil) || (err == nil && n.Cmp(m) != 0) {
		c.Violation("integer-decoding", fmt.Sprintf("asn1.Unmarshal(%x) into *big.Int: %v,%v; upstream encoding/asn1: %v,%v", v, n, err, m, err2), "ncase", map[string]string{"val": vh.Hex(v)})
	}
}

func genNum(c *vh.Ctx) {
	alpha := []byte{0x00, 0x01, 0x02, 0x03, 0x04, 0x22, 0x7f, 0x80, 0x81, 0x82, 0xff, 0x1f}
	maxLen := 3
	if c.Thorough {
		maxLen = 4
	}
	var rec func(pre []byte)
	rec = func(pre []byte) {
		numCase(c, append([]byte{}, pre...))
		if len(pre) == maxLen {
			return
		}
		for _, b := range alpha {
			rec(append(pre, b))
		}
	}
	rec(nil)
	c.Exhaustive(fmt.Sprintf("asn1.Unmarshal into *big.Int of every byte string of length <= %d over %x", maxLen, alpha))
	n := 400
	if c.Thorough {
		n = 6000
	}
	for i := 0; i < n; i++ {
		switch c.Intn(4) {
		case 0:
			numCase(c, malformedInt(c))
		case 1: // long-form lengths
			body := c.Bytes(120 + c.Intn(150))
			body[0] = byte(1 + c.Intn(126))
			var v []byte
			if len(body) < 128 {
				v = append([]byte{2, byte(len(body))}, body...)
			} else if c.Intn(5) == 0 {
				v = append([]byte{2, 0x82, 0, byte(len(body))}, body...)
			} else if len(body) < 256 {
				v = append([]byte{2, 0x81, byte(len(body))}, body...)
			} else {
				v = append([]byte{2, 0x82, byte(len(body) >> 8), byte(len(body))}, body...)
			}
			numCase(c, v)
		default:
			numCase(c, derInt(randBig(c)))
		}
	}
}

func replay(c *vh.Ctx, raw json.RawMessage) {
	var in input
	if err := json.Unmarshal(raw, &in); err != nil {
		panic(err)
	}
	if in.Query == "" { // a dcase / ncase replay
		var m map[string]string
		json.Unmarshal(raw, &m)
		if v, ok := m["val"]; ok {
			numCase(c, vh.UnHex(v))
			return
		}
		if z, ok := m["z"]; ok {
			n := bigOf(z)
			c.Case("dcase", vh.Pair(vh.BigZ(n), vh.Str(n.String())), m, "")
			return
		}
	}
	if len(in.Modes) == 0 {
		in.Modes = []int{0, 1, 2}
	}
	runCase(c, in, "case")
}

func main() { vh.Main("C14", gen, replay) }
