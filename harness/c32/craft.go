// Record crafting and fake transports, copied from the C25 harness.
package main

import (
	"errors"
	"io"
	"net"
	"time"

	"github.com/zmap/zcrypto/tls"
	"verifharness/vh"
)

func be16(n int) []byte { return []byte{byte(n >> 8), byte(n)} }
func wireVers(v int) int {
	if v == 0 {
		return 0x0301
	}
	if v == 0x0304 {
		return 0x0303
	}
	return v
}
func header(typ byte, vers, n int) []byte {
	return append(append([]byte{typ}, be16(wireVers(vers))...), be16(n)...)
}


func innerNonce(p params, n []byte) []byte {
	switch p.Wrap {
	case "prefix":
		return append(append([]byte{}, vh.UnHex(p.WB)[:4]...), n[:8]...)
	case "xor":
		m := vh.UnHex(p.WB)
		o := append([]byte{}, m...)
		for i := 0; i < 8 && i < len(n); i++ {
			o[4+i] ^= n[i]
		}
		return o
	}
	return n
}

type craftOpt struct {
	padLen   int  // CBC: total padding bytes incl. the length byte (0 = minimal)
	padByte  int  // CBC: value of the padding bytes (-1 = padLen-1)
	zeros    int  // TLS 1.3: zero bytes after the content type
	noType   bool // TLS 1.3: inner plaintext of zeros only
	explicit []byte
}

// craft builds a protected record with the toy primitives, independently of
// the code under test
func craft(p params, typ byte, payload []byte, o craftOpt) []byte {
	s := seqBytes(p.Seq)
	hdr := header(typ, p.Vers, len(payload))
	var body []byte
	switch p.Kind {
	case "null":
		body = payload
	case "stream":
		m := toyMac(p.MS, append(append(append([]byte{}, s[:]...), hdr...), payload...))
		body = xorKS(p.Spos, append(append([]byte{}, payload...), m...))
	case "cbc":
		m := toyMac(p.MS, append(append(append([]byte{}, s[:]...), hdr...), payload...))
		pt := append(append([]byte{}, payload...), m...)
		k := o.padLen
		if k == 0 {
			k = p.BS - len(pt)%p.BS
		}
		for (len(pt)+k)%p.BS != 0 {
			k++
		}
		for k > 256 {
			k -= p.BS
		}
		pb := k - 1
		if o.padByte >= 0 {
			pb = o.padByte
		}
		for i := 0; i < k; i++ {
			pt = append(pt, byte(pb))
		}
		iv := vh.UnHex(p.IV)
		if p.Vers >= 0x0302 {
			iv = o.explicit
			body = append(body, iv...)
		}
		ct, _ := toyCBC(p.BS, iv, pt, false)
		body = append(body, ct...)
	case "aead":
		e := p.effE()
		nonce := s[:]
		if e > 0 {
			nonce = o.explicit
			body = append(body, nonce...)
		}
		if p.Vers == 0x0304 {
			inner := append([]byte{}, payload...)
			if !o.noType {
				inner = append(inner, typ)
			}
			inner = append(inner, make([]byte, o.zeros)...)
			hdr = header(23, p.Vers, len(inner)+p.OVH)
			body = append(body, toySeal(p.OVH, innerNonce(p, nonce), hdr, inner)...)
		} else {
			ad := append(append([]byte{}, s[:]...), hdr...)
			body = append(body, toySeal(p.OVH, innerNonce(p, nonce), ad, payload)...)
		}
	}
	rec := append([]byte{}, hdr...)
	rec = append(rec, body...)
	n := len(rec) - 5
	rec[3], rec[4] = byte(n>>8), byte(n)
	return rec
}


func map2(b bool, x, y int) int {
	if b {
		return x
	}
	return y
}

// ------------------------------------------------------------- fake transports
type fakeAddr struct{}

func (fakeAddr) Network() string { return "mem" }
func (fakeAddr) String() string  { return "mem" }

// captureConn records everything written to it; reads see EOF
type captureConn struct{ w []byte }

func (c *captureConn) Read(p []byte) (int, error)         { return 0, io.EOF }
func (c *captureConn) Write(p []byte) (int, error)        { c.w = append(c.w, p...); return len(p), nil }
func (c *captureConn) Close() error                       { return nil }
func (c *captureConn) LocalAddr() net.Addr                { return fakeAddr{} }
func (c *captureConn) RemoteAddr() net.Addr               { return fakeAddr{} }
func (c *captureConn) SetDeadline(t time.Time) error      { return nil }
func (c *captureConn) SetReadDeadline(t time.Time) error  { return nil }
func (c *captureConn) SetWriteDeadline(t time.Time) error { return nil }

// segConn delivers the given segments one Read at a time, then EOF
type segConn struct {
	captureConn
	segs [][]byte
}

func (c *segConn) Read(p []byte) (int, error) {
	for len(c.segs) > 0 && len(c.segs[0]) == 0 {
		c.segs = c.segs[1:]
	}
	if len(c.segs) == 0 {
		return 0, io.EOF
	}
	n := copy(p, c.segs[0])
	c.segs[0] = c.segs[0][n:]
	return n, nil
}

func segment(b []byte, cuts []int) [][]byte {
	var out [][]byte
	i := 0
	for _, k := range cuts {
		if k <= 0 {
			continue
		}
		if i+k > len(b) {
			break
		}
		out = append(out, b[i:i+k])
		i += k
	}
	if i < len(b) {
		out = append(out, b[i:])
	}
	return out
}

func splitRecords(w []byte) (recs [][]byte, ok bool) {
	for len(w) > 0 {
		if len(w) < 5 {
			return recs, false
		}
		n := int(w[3])<<8 | int(w[4])
		if len(w) < 5+n {
			return recs, false
		}
		recs = append(recs, w[:5+n])
		w = w[5+n:]
	}
	return recs, true
}


func classify(err error) int {
	if err == io.EOF {
		return 0
	}
	if err == io.ErrUnexpectedEOF {
		return 1
	}
	var rhe tls.RecordHeaderError
	if errors.As(err, &rhe) {
		return 2
	}
	var op *net.OpError
	if errors.As(err, &op) {
		if a, ok := op.Err.(tls.Alert); ok {
			if op.Op == "local error" {
				return 1000 + int(a)
			}
			if op.Op == "remote error" {
				return 2000 + int(a)
			}
		}
	}
	return 3
}

