// Toy primitives and spies shared with the C25 harness (same definitions as the
// toy_* functions of coq/model/C25.v); copied so that C32 has its own package.
package main

import (
	"fmt"
	"hash"
	"io"
	"strings"

	"github.com/zmap/zcrypto/tls"
	"verifharness/vh"
)

// ---- toy functions -------------------------------------------------------
func thash(parts ...[]byte) uint64 {
	h := uint64(7)
	for _, p := range parts {
		for _, b := range p {
			h = vh.Mix(h, uint64(b))
		}
	}
	return h
}
func thash2(parts ...[]byte) uint64 {
	h := uint64(11)
	for _, p := range parts {
		for _, b := range p {
			h = (h*257 + uint64(b) + 3) % 998244353
		}
	}
	return h
}

// tagBytes: both accumulators in full, then filler (C25.tag_bytes)
func tagBytes(x []byte, k int) []byte {
	a1, a2 := thash(x), thash2(x)
	o := []byte{byte(a1 >> 24), byte(a1 >> 16), byte(a1 >> 8), byte(a1), byte(a2 >> 24), byte(a2 >> 16), byte(a2 >> 8), byte(a2)}
	for i := 0; i < k; i++ {
		o = append(o, byte(vh.Mix(vh.Mix(a1, uint64(i)), a2)%256))
	}
	if k < 0 {
		k = 0
	}
	return o[:k]
}

// lp is the length-prefixed encoding of a field (C25.lp)
func lp(b []byte) []byte { return append([]byte{byte(len(b) >> 8), byte(len(b))}, b...) }
func toyMac(ms int, x []byte) []byte { return tagBytes(x, ms) }
func xorKS(pos int, x []byte) []byte {
	o := make([]byte, len(x))
	for i, b := range x {
		o[i] = b ^ byte(((pos+i)*37+11)%256)
	}
	return o
}
func toyTag(ovh int, nonce, ad, p []byte) []byte {
	return tagBytes(append(append(lp(nonce), lp(ad)...), p...), ovh)
}
func toySeal(ovh int, nonce, ad, p []byte) []byte {
	return append(xorKS(int(thash(nonce)%256), p), toyTag(ovh, nonce, ad, p)...)
}
func toyOpen(ovh int, nonce, ad, c []byte) ([]byte, bool) {
	if len(c) < ovh {
		return nil, false
	}
	p := xorKS(int(thash(nonce)%256), c[:len(c)-ovh])
	if string(c[len(c)-ovh:]) != string(toyTag(ovh, nonce, ad, p)) {
		return nil, false
	}
	return p, true
}
func mod256(x int) byte { return byte(((x % 256) + 256) % 256) }
func toyCBC(bs int, iv, x []byte, decrypt bool) (out, ivOut []byte) {
	iv = append([]byte(nil), iv...)
	for off := 0; off+bs <= len(x) && bs > 0; off += bs {
		blk := x[off : off+bs]
		if !decrypt {
			c := make([]byte, bs)
			for i := range blk {
				v := blk[i]
				if i < len(iv) {
					v ^= iv[i]
				}
				c[i] = mod256(int(v) + (i*29 + 5))
			}
			out = append(out, c...)
			iv = c
		} else {
			p := make([]byte, bs)
			for i := range blk {
				p[i] = mod256(int(blk[i]) - (i*29 + 5))
				if i < len(iv) {
					p[i] ^= iv[i]
				}
			}
			out = append(out, p...)
			iv = append([]byte(nil), blk...)
		}
	}
	return out, iv
}

// ---- call log --------------------------------------------------------------
type call struct {
	K       string // mac, macx, stream, seal, open, cbc
	Pos     int
	A, B, C []byte
}

func (c call) coq() string {
	switch c.K {
	case "mac":
		return vh.App("CMac", vh.Bytes(c.A))
	case "macx":
		return vh.App("CMacExtra", vh.Bytes(c.A))
	case "stream":
		return vh.App("CStreamX", vh.Z(int64(c.Pos)), vh.Bytes(c.A))
	case "seal":
		return vh.App("CSeal", vh.Bytes(c.A), vh.Bytes(c.B), vh.Bytes(c.C))
	case "open":
		return vh.App("COpen", vh.Bytes(c.A), vh.Bytes(c.B), vh.Bytes(c.C))
	case "cbc":
		return vh.App("CCbc", vh.Bytes(c.A), vh.Bytes(c.B))
	}
	panic("call kind")
}
func coqCalls(cs []call) string {
	xs := make([]string, len(cs))
	for i, c := range cs {
		xs[i] = c.coq()
	}
	return vh.List0(xs, "call")
}

type spyLog struct{ calls []call }

func cp(b []byte) []byte { return append([]byte{}, b...) }

// ---- spies -----------------------------------------------------------------
type spyStream struct {
	pos int
	log *spyLog
}

func (s *spyStream) XORKeyStream(dst, src []byte) {
	s.log.calls = append(s.log.calls, call{K: "stream", Pos: s.pos, A: cp(src)})
	copy(dst, xorKS(s.pos, src))
	s.pos += len(src)
}

type spyCBC struct {
	bs      int
	iv      []byte
	decrypt bool
	log     *spyLog
}

func (s *spyCBC) BlockSize() int { return s.bs }
func (s *spyCBC) SetIV(iv []byte) { s.iv = cp(iv) }
func (s *spyCBC) CryptBlocks(dst, src []byte) {
	if len(src)%s.bs != 0 {
		panic("spyCBC: input not full blocks")
	}
	s.log.calls = append(s.log.calls, call{K: "cbc", A: cp(s.iv), B: cp(src)})
	if len(src) == 0 {
		return
	}
	out, iv := toyCBC(s.bs, s.iv, cp(src), s.decrypt)
	copy(dst, out)
	s.iv = iv
}

type spyAEAD struct {
	ovh, nonceSize int
	log            *spyLog
}

func (s *spyAEAD) NonceSize() int { return s.nonceSize }
func (s *spyAEAD) Overhead() int  { return s.ovh }
func (s *spyAEAD) Seal(dst, nonce, plaintext, ad []byte) []byte {
	s.log.calls = append(s.log.calls, call{K: "seal", A: cp(nonce), B: cp(ad), C: cp(plaintext)})
	out := toySeal(s.ovh, cp(nonce), cp(ad), cp(plaintext))
	return append(dst, out...)
}
func (s *spyAEAD) Open(dst, nonce, ciphertext, ad []byte) ([]byte, error) {
	n, a, c := cp(nonce), cp(ad), cp(ciphertext)
	p, ok := toyOpen(s.ovh, n, a, c)
	if !ok {
		return nil, fmt.Errorf("spyAEAD: authentication failed")
	}
	s.log.calls = append(s.log.calls, call{K: "open", A: n, B: a, C: c})
	return append(dst, p...), nil
}

type spyMAC struct {
	ms     int
	buf    []byte
	summed bool
	log    *spyLog
}

func (m *spyMAC) Write(p []byte) (int, error) {
	if m.summed {
		m.log.calls = append(m.log.calls, call{K: "macx", A: cp(p)})
	} else {
		m.buf = append(m.buf, p...)
	}
	return len(p), nil
}
func (m *spyMAC) Sum(b []byte) []byte {
	m.log.calls = append(m.log.calls, call{K: "mac", A: cp(m.buf)})
	m.summed = true
	return append(b, toyMac(m.ms, m.buf)...)
}
func (m *spyMAC) Reset()         { m.buf, m.summed = nil, false }
func (m *spyMAC) Size() int      { return m.ms }
func (m *spyMAC) BlockSize() int { return 64 }

var _ hash.Hash = (*spyMAC)(nil)

// ---- half-connection parameters -------------------------------------------
type params struct {
	Vers int    `json:"vers"`
	Kind string `json:"kind"` // null, stream, cbc, aead
	BS   int    `json:"bs,omitempty"`
	MS   int    `json:"ms,omitempty"`
	E    int    `json:"e,omitempty"`
	OVH  int    `json:"ovh,omitempty"`
	Wrap string `json:"wrap,omitempty"` // "", prefix, xor
	WB   string `json:"wb,omitempty"`   // hex of prefix (4) or mask (12)
	Seq  uint64 `json:"seq"`
	IV   string `json:"iv,omitempty"` // hex, chaining value of the CBC mode
	Spos int    `json:"spos,omitempty"`
}

func (p params) name() string {
	return fmt.Sprintf("%x/%s/%d/%d/%d/%d/%s", p.Vers, p.Kind, p.BS, p.MS, p.E, p.OVH, p.Wrap)
}

func seqBytes(s uint64) (b [8]byte) {
	for i := 7; i >= 0; i-- {
		b[i] = byte(s)
		s >>= 8
	}
	return
}
func seqOf(b [8]byte) (s uint64) {
	for i := 0; i < 8; i++ {
		s = s<<8 | uint64(b[i])
	}
	return
}

// primitives builds the cipher and MAC values for one direction
func (p params) primitives(log *spyLog, decrypt bool) (ciph interface{}, mac hash.Hash) {
	switch p.Kind {
	case "null":
		return nil, nil
	case "stream":
		return &spyStream{pos: p.Spos, log: log}, &spyMAC{ms: p.MS, log: log}
	case "cbc":
		return &spyCBC{bs: p.BS, iv: vh.UnHex(p.IV), decrypt: decrypt, log: log}, &spyMAC{ms: p.MS, log: log}
	case "aead":
		inner := &spyAEAD{ovh: p.OVH, nonceSize: 12, log: log}
		switch p.Wrap {
		case "prefix":
			var pre [4]byte
			copy(pre[:], vh.UnHex(p.WB))
			return tls.VerifPrefixNonceAEAD(pre, inner), nil
		case "xor":
			var m [12]byte
			copy(m[:], vh.UnHex(p.WB))
			return tls.VerifXorNonceAEAD(m, inner), nil
		default:
			return tls.VerifAEAD(inner, p.E), nil
		}
	}
	panic("kind " + p.Kind)
}

func (p params) half(log *spyLog, decrypt bool) *tls.VerifHalfConn {
	c, m := p.primitives(log, decrypt)
	return tls.VerifNewHalfConn(uint16(p.Vers), c, m, seqBytes(p.Seq))
}

// effective explicit nonce length / overhead as the model's kind carries them
func (p params) effE() int {
	switch p.Wrap {
	case "prefix":
		return 8
	case "xor":
		return 0
	}
	return p.E
}

func (p params) coqKind() string {
	switch p.Kind {
	case "null":
		return "KNull"
	case "stream":
		return vh.App("KStream", vh.Z(int64(p.MS)))
	case "cbc":
		return vh.App("KCbc", vh.Z(int64(p.BS)), vh.Z(int64(p.MS)))
	case "aead":
		return vh.App("KAead", vh.Z(int64(p.effE())), vh.Z(int64(p.OVH)))
	}
	panic("kind")
}
func (p params) coqWrap() string {
	switch p.Wrap {
	case "prefix":
		return vh.App("WrapPrefix", vh.Bytes(vh.UnHex(p.WB)))
	case "xor":
		return vh.App("WrapXor", vh.Bytes(vh.UnHex(p.WB)))
	}
	return "WrapNone"
}
func (p params) coqState() string {
	return fmt.Sprintf("{| version := %s; knd := %s; seqno := %s; civ := %s; spos := %s |}",
		vh.Z(int64(p.Vers)), p.coqKind(), vh.N(p.Seq), vh.Bytes(vh.UnHex(p.IV)), vh.Z(int64(p.Spos)))
}

// ---- readers -----------------------------------------------------------------
type zeroReader struct{}

func (zeroReader) Read(p []byte) (int, error) {
	for i := range p {
		p[i] = 0
	}
	return len(p), nil
}

// fixedReader serves the given bytes, then fails
type fixedReader struct{ b []byte }

func (r *fixedReader) Read(p []byte) (int, error) {
	if len(r.b) == 0 {
		return 0, io.ErrUnexpectedEOF
	}
	n := copy(p, r.b)
	r.b = r.b[n:]
	return n, nil
}

func coqZs(xs []int) string {
	s := make([]string, len(xs))
	for i, x := range xs {
		s[i] = vh.Z(int64(x))
	}
	return vh.List0(s, "Z")
}
func coqBytesList(xs [][]byte) string {
	s := make([]string, len(xs))
	for i, x := range xs {
		s[i] = vh.Bytes(x)
	}
	return vh.List0(s, "(list N)")
}
func hasPrefix(s, p string) bool { return strings.HasPrefix(s, p) }
