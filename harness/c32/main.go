// C32 harness: a zcrypto endpoint against arbitrary peer behaviour.
//   ckx / skx: the key-exchange processors of key_agreement.go on genuine and
//              damaged ServerKeyExchange / ClientKeyExchange bodies (every
//              truncation, length-field edits, unknown curves and algorithms),
//              compared with the checked-index model: outcome class, how far
//              the processor got, and the fields it isolated;
//   hs:        readHandshake on a handshake-phase connection (spy primitives)
//              fed crafted record streams: fragmentation across records,
//              oversize lengths, alerts, empty records, change_cipher_spec;
//   oracle:    genuine transcripts of real handshakes (deterministic Config.Rand)
//              replayed to a fresh client or server with byte flips,
//              truncations, insertions, deletions, record re-splits and random
//              streams, under recover and a deadline: no panic, no hang.
package main

import (
	"crypto/ecdh"
	"crypto/ecdsa"
	"crypto/elliptic"
	"crypto/rand"
	"crypto/rsa"
	stdx509 "crypto/x509"
	"crypto/x509/pkix"
	"encoding/json"
	"encoding/pem"
	"fmt"
	"math/big"
	"sync"
	"time"

	"github.com/zmap/zcrypto/tls"
	zx509 "github.com/zmap/zcrypto/x509"
	"verifharness/vh"
)

type input struct {
	S        string   `json:"s"`
	Kind     string   `json:"kind,omitempty"` // rsa ecdhe-rsa ecdhe-ecdsa dhe-rsa
	Vers     int      `json:"vers,omitempty"`
	Key      string   `json:"key,omitempty"` // message body (hex)
	Algs     []int    `json:"algs,omitempty"`
	SkipVer  bool     `json:"skipverify,omitempty"`
	P        params   `json:"p"`
	HaveVers bool     `json:"havevers,omitempty"`
	Complete bool     `json:"complete,omitempty"`
	Next     *params  `json:"next,omitempty"`
	Wire     string   `json:"wire,omitempty"`
	Segs     []int    `json:"segs,omitempty"`
	Calls    int      `json:"calls,omitempty"`
	Fuzz     *fuzzIn  `json:"fuzz,omitempty"`
	Post     *postIn  `json:"post,omitempty"`
	NoCase   bool     `json:"-"`
	DHEPrime string   `json:"dheprime,omitempty"`
	Curves   []uint16 `json:"curves,omitempty"`
}

// ---------------------------------------------------------------- certificates
var certOnce sync.Once
var certRSA, certECDSA tls.Certificate
var leafRSA, leafECDSA *zx509.Certificate

func mkCert(pub, priv interface{}) (tls.Certificate, *zx509.Certificate) {
	tmpl := &stdx509.Certificate{SerialNumber: big.NewInt(1), Subject: pkix.Name{CommonName: "verif.test"},
		NotBefore: time.Now().Add(-time.Hour), NotAfter: time.Now().Add(24 * time.Hour),
		KeyUsage: stdx509.KeyUsageDigitalSignature | stdx509.KeyUsageKeyEncipherment, DNSNames: []string{"verif.test"},
		ExtKeyUsage: []stdx509.ExtKeyUsage{stdx509.ExtKeyUsageServerAuth}, BasicConstraintsValid: true}
	der, err := stdx509.CreateCertificate(rand.Reader, tmpl, tmpl, pub, priv)
	if err != nil {
		panic(err)
	}
	var keyPEM []byte
	switch k := priv.(type) {
	case *rsa.PrivateKey:
		keyPEM = pem.EncodeToMemory(&pem.Block{Type: "RSA PRIVATE KEY", Bytes: stdx509.MarshalPKCS1PrivateKey(k)})
	case *ecdsa.PrivateKey:
		b, err := stdx509.MarshalECPrivateKey(k)
		if err != nil {
			panic(err)
		}
		keyPEM = pem.EncodeToMemory(&pem.Block{Type: "EC PRIVATE KEY", Bytes: b})
	}
	cert, err := tls.X509KeyPair(pem.EncodeToMemory(&pem.Block{Type: "CERTIFICATE", Bytes: der}), keyPEM)
	if err != nil {
		panic(err)
	}
	leaf, err := zx509.ParseCertificate(der)
	if err != nil {
		panic(err)
	}
	return cert, leaf
}
func certs() {
	certOnce.Do(func() {
		rk, err := rsa.GenerateKey(rand.Reader, 2048)
		if err != nil {
			panic(err)
		}
		certRSA, leafRSA = mkCert(&rk.PublicKey, rk)
		ek, err := ecdsa.GenerateKey(elliptic.P256(), rand.Reader)
		if err != nil {
			panic(err)
		}
		certECDSA, leafECDSA = mkCert(&ek.PublicKey, ek)
	})
}
func certFor(kind string) (tls.Certificate, *zx509.Certificate) {
	certs()
	if kind == "ecdhe-ecdsa" {
		return certECDSA, leafECDSA
	}
	return certRSA, leafRSA
}

// ---------------------------------------------------------------- key exchange
func kxClass(r tls.VerifKX) int {
	switch {
	case r.Panic != "":
		return 9
	case r.Err == "":
		return 0
	case r.Struct:
		return 1
	}
	return 2
}

func zs(xs []int) string {
	s := make([]string, len(xs))
	for i, x := range xs {
		s[i] = vh.Z(int64(x))
	}
	return vh.List0(s, "Z")
}

// whether SharedKey would accept the peer's share (computed with the Go
// standard library, independently of zcrypto)
func pointOK(curve int, pub []byte) bool {
	var c ecdh.Curve
	switch curve {
	case 23:
		c = ecdh.P256()
	case 24:
		c = ecdh.P384()
	case 25:
		c = ecdh.P521()
	case 29:
		c = ecdh.X25519()
	default:
		return false
	}
	pk, err := c.NewPublicKey(pub)
	if err != nil {
		return false
	}
	priv, err := c.GenerateKey(rand.Reader)
	if err != nil {
		panic(err)
	}
	_, err = priv.ECDH(pk)
	return err == nil
}

func defaultAlgs() []int {
	var o []int
	for _, a := range tls.VerifSupportedSignatureAlgorithms() {
		o = append(o, int(a))
	}
	return o
}

var sahList = []tls.SigAndHash{{Signature: 1, Hash: 4}, {Signature: 1, Hash: 2}, {Signature: 1, Hash: 5}, {Signature: 3, Hash: 4}}

func runSKX(c *vh.Ctx, in input) {
	key := vh.UnHex(in.Key)
	_, leaf := certFor(in.Kind)
	zero := make([]byte, 32)
	cfg := &tls.Config{InsecureSkipVerify: in.SkipVer, SignatureAndHashes: sahList}
	var algs []tls.SignatureScheme
	for _, a := range in.Algs {
		algs = append(algs, tls.SignatureScheme(a))
	}
	r := tls.VerifProcessSKX(in.Kind, uint16(in.Vers), leaf, algs, zero, zero, append([]byte{}, key...), cfg)
	cls := kxClass(r)
	if r.Panic != "" {
		c.Violation("skx-panic-"+in.Kind, fmt.Sprintf("%s processServerKeyExchange (version %x) panicked on a %d-byte body: %s", in.Kind, in.Vers, len(key), r.Panic), "skx", in)
	}
	kind, modelAlgs := 0, in.Algs
	sigType := 1
	pok := false
	if in.Kind == "dhe-rsa" {
		kind = 1
		modelAlgs = nil
		for _, s := range sahList {
			modelAlgs = append(modelAlgs, int(s.Hash)*256+int(s.Signature))
		}
	} else if len(key) >= 4 && 4+int(key[3]) <= len(key) {
		pok = pointOK(int(key[1])<<8|int(key[2]), key[4:4+int(key[3])])
	}
	nk := ""
	if r.Stage > 0 {
		nk = fmt.Sprintf("%s|%x|%d|%d|%d", in.Kind, in.Vers, r.Stage, cls, len(key))
	}
	obs := vh.Pair(vh.Bool(r.Panic != ""), vh.Z(int64(r.Stage)), vh.Z(int64(cls)), vh.Z(int64(r.Curve)), vh.Bytes(r.SigRaw),
		vh.Bytes(r.P), vh.Bytes(r.G), vh.Bytes(r.Y))
	c.Case("skx", vh.Pair(vh.Z(int64(kind)), vh.Bool(in.Vers >= 0x0303), vh.Bool(in.Kind == "ecdhe-rsa"), vh.Bool(in.Kind != "ecdhe-ecdsa"),
		zs(modelAlgs), vh.Bool(pok), vh.Z(int64(sigType)), vh.Bool(in.SkipVer), vh.Bytes(key), obs), in, nk)
	c.Stat(fmt.Sprintf("skx.%s.stage%d.class%d", in.Kind, r.Stage, cls), 1)
}

func genSKX(c *vh.Ctx) {
	zero := []tls.CurveID{}
	_ = zero
	for _, kind := range []string{"ecdhe-rsa", "ecdhe-ecdsa", "dhe-rsa"} {
		for _, vers := range []int{0x0301, 0x0303} {
			cert, _ := certFor(kind)
			curveSets := [][]tls.CurveID{{tls.CurveP256}, {tls.X25519}, {tls.CurveP384}}
			if kind == "dhe-rsa" {
				curveSets = curveSets[:1]
			}
			for ci, curves := range curveSets {
				if ci > 0 && !(vers == 0x0303 && kind == "ecdhe-ecdsa") && !c.Thorough {
					continue
				}
				scfg := &tls.Config{SignatureAndHashes: sahList}
				ska, err := tls.VerifNewServerKA(kind, uint16(vers), &cert, curves, scfg)
				if err != nil {
					c.Violation("skx-generate", fmt.Sprintf("%s version %x: generateServerKeyExchange failed: %v", kind, vers, err), "skx", input{S: "skx", Kind: kind, Vers: vers})
					continue
				}
				body := ska.SKX
				mk := func(b []byte, skip bool, algs []int) input {
					return input{S: "skx", Kind: kind, Vers: vers, Key: vh.Hex(b), Algs: algs, SkipVer: skip}
				}
				algs := defaultAlgs()
				// genuine
				runSKX(c, mk(body, false, algs))
				if kind == "dhe-rsa" {
					// the genuine 2048-bit message once more with a damaged signature; the
					// structural edits below use a small group (the signature then never
					// verifies, which the structural comparison does not need)
					m := append([]byte{}, body...)
					m[len(m)-1] ^= 1
					runSKX(c, mk(m, false, algs))
					pB, gB, yB, sg := []byte{0xff, 0xff, 0xff, 0xff, 0xff, 0xff, 0xff, 0xc5}, []byte{2}, append([]byte{0x11}, c.Bytes(7)...), c.Bytes(20)
					body = append([]byte{0, 8}, pB...)
					body = append(body, 0, 1)
					body = append(body, gB...)
					body = append(body, 0, 8)
					body = append(body, yB...)
					if vers >= 0x0303 {
						body = append(body, 4, 1)
					}
					body = append(body, 0, byte(len(sg)))
					body = append(body, sg...)
					runSKX(c, mk(body, false, algs))
				}
				// every truncation (quick: every length up to 12, then a stride, always the last 6)
				stride := 17
				if len(body) > 200 {
					stride = 97
				}
				// field boundaries of this body: every truncation within two bytes of one is tried
				var bnds []int
				if kind == "dhe-rsa" {
					pl := int(body[0])<<8 | int(body[1])
					gl := int(body[2+pl])<<8 | int(body[3+pl])
					yl := int(body[4+pl+gl])<<8 | int(body[5+pl+gl])
					bnds = []int{2, 2 + pl, 4 + pl, 4 + pl + gl, 6 + pl + gl, 6 + pl + gl + yl, 8 + pl + gl + yl, 10 + pl + gl + yl}
				} else {
					s0 := 4 + int(body[3])
					bnds = []int{4, s0, s0 + 2, s0 + 4}
				}
				near := func(n int) bool {
					for _, b := range bnds {
						if n >= b-2 && n <= b+2 {
							return true
						}
					}
					return false
				}
				for n := 0; n < len(body); n++ {
					if !c.Thorough && n > 9 && n < len(body)-4 && n%stride != 0 && !near(n) {
						continue
					}
					runSKX(c, mk(body[:n], false, algs))
				}
				// trailing bytes, each single length field off by one in both directions
				runSKX(c, mk(append(append([]byte{}, body...), 0), false, algs))
				runSKX(c, mk(append(append([]byte{}, body...), c.Bytes(1+c.Intn(5))...), true, algs))
				var lenPos []int
				if kind == "dhe-rsa" {
					pl := int(body[0])<<8 | int(body[1])
					gl := int(body[2+pl])<<8 | int(body[3+pl])
					yl := int(body[4+pl+gl])<<8 | int(body[5+pl+gl])
					lenPos = []int{1, 3 + pl, 5 + pl + gl}
					s := 6 + pl + gl + yl
					if vers >= 0x0303 {
						lenPos = append(lenPos, s, s+1, s+3)
					} else {
						lenPos = append(lenPos, s+1)
					}
				} else {
					s := 4 + int(body[3])
					lenPos = []int{0, 1, 2, 3}
					if vers >= 0x0303 {
						lenPos = append(lenPos, s, s+1, s+3)
					} else {
						lenPos = append(lenPos, s+1)
					}
				}
				for _, p := range lenPos {
					ds := []int{1, -1, 7, 128}
					if len(body) > 200 && !c.Thorough {
						ds = []int{1, -1}
					}
					for _, d := range ds {
						m := append([]byte{}, body...)
						m[p] = byte(int(m[p]) + d)
						runSKX(c, mk(m, c.Intn(4) == 0, algs))
					}
				}
				// damaged share / signature, restricted algorithm lists
				for i := 0; i < 3; i++ {
					m := append([]byte{}, body...)
					m[c.Intn(len(m))] ^= byte(1 << uint(c.Intn(8)))
					runSKX(c, mk(m, false, algs))
				}
				runSKX(c, mk(body, false, []int{0x0807}))
				runSKX(c, mk(body, false, nil))
				if kind == "dhe-rsa" {
					// zero / oversized public values
					pl := int(body[0])<<8 | int(body[1])
					gl := int(body[2+pl])<<8 | int(body[3+pl])
					m := append([]byte{}, body...)
					for i := 6 + pl + gl; i < 6+pl+gl+(int(body[4+pl+gl])<<8|int(body[5+pl+gl])); i++ {
						m[i] = 0
					}
					runSKX(c, mk(m, false, algs))
					m = append([]byte{}, body...)
					for i := 2; i < 2+pl; i++ {
						m[i] = 0
					}
					runSKX(c, mk(m, false, algs))
					runSKX(c, mk([]byte{0, 0, 0, 0, 0, 0, 0, 0}, false, algs))
					runSKX(c, mk([]byte{0, 1, 2, 0, 1, 1, 0, 1, 1, 0, 0}, true, algs))
				}
			}
		}
	}
	// bodies that are not ServerKeyExchange at all
	for i := 0; i < 30; i++ {
		b := c.Bytes(c.Intn(80))
		if len(b) > 0 && c.Bool() {
			b[0] = 3
		}
		kind := []string{"ecdhe-rsa", "ecdhe-ecdsa", "dhe-rsa"}[c.Intn(3)]
		runSKX(c, input{S: "skx", Kind: kind, Vers: []int{0x0301, 0x0302, 0x0303}[c.Intn(3)], Key: vh.Hex(b), Algs: defaultAlgs(), SkipVer: c.Bool()})
	}
}

func runCKX(c *vh.Ctx, in input) {
	ct := vh.UnHex(in.Key)
	cert, _ := certFor(in.Kind)
	var curves []tls.CurveID
	for _, x := range in.Curves {
		curves = append(curves, tls.CurveID(x))
	}
	ska, err := tls.VerifNewServerKA(in.Kind, uint16(in.Vers), &cert, curves, &tls.Config{SignatureAndHashes: sahList})
	if err != nil {
		panic(err)
	}
	r := ska.ProcessCKX(append([]byte{}, ct...))
	if r.Panic != "" {
		c.Violation("ckx-panic-"+in.Kind, fmt.Sprintf("%s processClientKeyExchange panicked on a %d-byte body: %s", in.Kind, len(ct), r.Panic), "ckx", in)
	}
	kind := map[string]int{"rsa": 0, "ecdhe-rsa": 1, "ecdhe-ecdsa": 1, "dhe-rsa": 2}[in.Kind]
	cls := kxClass(r)
	var parsed []byte
	p := new(big.Int)
	switch kind {
	case 0:
		// past the structural checks the outcome is RSA decryption's
		if cls == 2 {
			cls = 0
		}
		if cls == 0 && len(ct) >= 2 {
			parsed = ct[2:]
		}
	case 1:
		// a structurally fine message with a bad point also yields errClientKeyExchange
		if cls == 1 && len(ct) > 0 && int(ct[0]) == len(ct)-1 && !pointOK(int(in.Curves[0]), ct[1:]) {
			cls = 0
		}
		if cls == 0 && len(ct) >= 1 {
			parsed = ct[1:]
		}
	case 2:
		body := ska.SKX
		pl := int(body[0])<<8 | int(body[1])
		p.SetBytes(body[2 : 2+pl])
		if cls == 0 && len(ct) >= 2 {
			parsed = ct[2:]
		}
	}
	nk := ""
	if cls == 0 {
		nk = fmt.Sprintf("%s|%d", in.Kind, len(ct))
	}
	c.Case("ckx", vh.Pair(vh.Z(int64(kind)), p.String()+"%N", vh.Bytes(ct), vh.Pair(vh.Z(int64(cls)), vh.Bytes(parsed))), in, nk)
	c.Stat(fmt.Sprintf("ckx.%s.class%d", in.Kind, cls), 1)
}

func genCKX(c *vh.Ctx) {
	for _, kind := range []string{"rsa", "ecdhe-rsa", "dhe-rsa"} {
		curves := []uint16{uint16(tls.CurveP256)}
		var good []byte
		switch kind {
		case "rsa":
			ctb := c.Bytes(256)
			good = append([]byte{1, 0}, ctb...)
		case "ecdhe-rsa":
			k, _ := ecdh.P256().GenerateKey(rand.Reader)
			pub := k.PublicKey().Bytes()
			good = append([]byte{byte(len(pub))}, pub...)
		case "dhe-rsa":
			y := c.Bytes(255)
			y[0] |= 1
			good = append([]byte{0, 255}, y...)
		}
		mk := func(b []byte) input {
			return input{S: "ckx", Kind: kind, Vers: 0x0303, Key: vh.Hex(b), Curves: curves}
		}
		runCKX(c, mk(good))
		for n := 0; n < len(good); n++ {
			if n > 6 && n < len(good)-3 && n%41 != 0 && !c.Thorough {
				continue
			}
			runCKX(c, mk(good[:n]))
		}
		runCKX(c, mk(append(append([]byte{}, good...), 0)))
		for _, d := range []int{1, -1, 100} {
			m := append([]byte{}, good...)
			m[0] = byte(int(m[0]) + d)
			runCKX(c, mk(m))
			if kind != "ecdhe-rsa" {
				m = append([]byte{}, good...)
				m[1] = byte(int(m[1]) + d)
				runCKX(c, mk(m))
			}
		}
		if kind == "ecdhe-rsa" {
			m := append([]byte{}, good...)
			m[10] ^= 1 // off the curve
			runCKX(c, mk(m))
			m = append([]byte{}, good...)
			m[1] = 2 // compressed form
			runCKX(c, mk(m))
		}
		if kind == "dhe-rsa" {
			runCKX(c, mk([]byte{0, 0}))
			runCKX(c, mk([]byte{0, 1, 0}))
			runCKX(c, mk([]byte{0, 1, 1}))
			big := make([]byte, 258)
			big[0], big[1] = 1, 0
			for i := 2; i < len(big); i++ {
				big[i] = 0xff
			}
			runCKX(c, mk(big))
		}
		for i := 0; i < 8; i++ {
			runCKX(c, mk(c.Bytes(c.Intn(12))))
		}
	}
}

// ---------------------------------------------------------------- handshake reader
func coqNext(n *params) string {
	if n == nil {
		return "None"
	}
	return vh.Some(vh.Pair(n.coqKind(), vh.Bytes(vh.UnHex(n.IV))))
}

func runHS(c *vh.Ctx, in input) {
	p := in.P
	wire := vh.UnHex(in.Wire)
	log := &spyLog{}
	ciph, mac := p.primitives(log, true)
	var nc interface{}
	var nm interface {
		Size() int
	}
	_ = nm
	sc := &segConn{segs: segment(wire, in.Segs)}
	var conn *tls.Conn
	if in.Next != nil {
		nciph, nmac := in.Next.primitives(log, true)
		nc = nciph
		conn = tls.VerifHandshakeConn(sc, true, uint16(p.Vers), in.HaveVers, ciph, mac, nc, nmac, in.Complete, &tls.Config{})
	} else {
		conn = tls.VerifHandshakeConn(sc, true, uint16(p.Vers), in.HaveVers, ciph, mac, nil, nil, in.Complete, &tls.Config{})
	}
	var msgs []string
	cls := 3
	maxHand := 0
	for i := 0; i < in.Calls; i++ {
		typ, raw, err, pan := tls.VerifReadHandshake(conn)
		hl, _, _, _ := tls.VerifReaderState(conn)
		if hl > maxHand {
			maxHand = hl
		}
		if pan != "" {
			c.Violation("readhandshake-panic", fmt.Sprintf("%s: readHandshake panicked: %s", p.name(), pan), "hs", in)
			return
		}
		if err != nil {
			cls = classify(err)
			break
		}
		msgs = append(msgs, vh.Pair(vh.Z(int64(typ)), vh.Z(int64(len(raw)))))
	}
	mh, _ := tls.VerifReaderLimits()
	if maxHand > mh+4+16384 {
		c.Violation("hand-unbounded", fmt.Sprintf("%s: c.hand grew to %d bytes", p.name(), maxHand), "hs", in)
	}
	nk := ""
	if len(msgs) > 0 {
		nk = fmt.Sprintf("%s|%d|%d|%d", p.name(), len(msgs), cls, len(wire))
	}
	if in.NoCase {
		c.Eval(nk)
		return
	}
	c.Case("hs", vh.Pair(p.coqWrap(), p.coqState(), vh.Bool(in.HaveVers), vh.Bool(in.Complete), coqNext(in.Next), vh.Bytes(wire),
		vh.Nat(in.Calls), vh.Pair(vh.List0(msgs, "(Z*Z)"), vh.Z(int64(cls)))), in, nk)
	c.Stat("hs.end."+fmt.Sprint(cls), 1)
}

func hmsg(typ byte, body []byte) []byte {
	return append([]byte{typ, byte(len(body) >> 16), byte(len(body) >> 8), byte(len(body))}, body...)
}

// records carrying the handshake bytes hb, cut into fragments of the given sizes
func hsRecords(p params, seq *uint64, hb []byte, cuts []int, c *vh.Ctx) []byte {
	var out []byte
	emit := func(frag []byte) {
		q := p
		q.Seq = *seq
		o := craftOpt{padByte: -1, explicit: c.Bytes(64)[:max(p.effE(), map2(p.Kind == "cbc", p.BS, 0))]}
		out = append(out, craft(q, 22, frag, o)...)
		*seq++
	}
	i := 0
	for _, k := range cuts {
		if k <= 0 || i+k > len(hb) {
			continue
		}
		emit(hb[i : i+k])
		i += k
	}
	if i < len(hb) {
		for i < len(hb) {
			k := min(len(hb)-i, 16384)
			emit(hb[i : i+k])
			i += k
		}
	}
	return out
}

func genHS(c *vh.Ctx) {
	states := []params{
		{Vers: 0x0303, Kind: "null"}, {Vers: 0x0301, Kind: "null"}, {Vers: 0x0304, Kind: "null"},
		{Vers: 0x0303, Kind: "aead", Wrap: "prefix", OVH: 16}, {Vers: 0x0304, Kind: "aead", Wrap: "xor", OVH: 16},
		{Vers: 0x0302, Kind: "cbc", BS: 16, MS: 20},
	}
	reps := 6
	if c.Thorough {
		reps = 40
	}
	for _, p0 := range states {
		for r := 0; r < reps; r++ {
			p := fillParams(c, p0)
			p.Seq, p.Spos = 0, 0
			seq := uint64(0)
			// a few messages of the kinds whose unmarshal is only a length check
			var hb []byte
			nm := 1 + c.Intn(4)
			for i := 0; i < nm; i++ {
				switch c.Intn(5) {
				case 0:
					hb = append(hb, hmsg(14, nil)...)
				case 1:
					hb = append(hb, hmsg(0, nil)...)
				case 2:
					hb = append(hb, hmsg(20, c.Bytes(12))...)
				case 3:
					hb = append(hb, hmsg(12, c.Bytes(c.Intn(200)))...)
				default:
					hb = append(hb, hmsg(16, c.Bytes(c.Intn(60)))...)
				}
			}
			var cuts []int
			for i := c.Intn(8); i > 0; i-- {
				cuts = append(cuts, 1+c.Intn(9))
			}
			wire := hsRecords(p, &seq, hb, cuts, c)
			// what follows the genuine messages
			q := p
			q.Seq = seq
			ex := c.Bytes(64)[:max(p.effE(), map2(p.Kind == "cbc", p.BS, 0))]
			o := craftOpt{padByte: -1, explicit: ex}
			switch c.Intn(9) {
			case 0: // nothing: EOF at a record boundary
			case 1: // a truncated message: header promises more than arrives
				wire = append(wire, craft(q, 22, []byte{12, 0, 0, 50, 1, 2, 3}, o)...)
			case 2: // a message longer than maxHandshake
				wire = append(wire, craft(q, 22, []byte{11, 1, 0, 1}, o)...)
			case 3: // unknown message type
				wire = append(wire, craft(q, 22, hmsg(99, []byte{1}), o)...)
			case 4: // warning alerts, then a message
				for i := 0; i < 1+c.Intn(3); i++ {
					wire = append(wire, craft(q, 21, []byte{1, 90}, o)...)
					q.Seq++
				}
				wire = append(wire, craft(q, 22, hmsg(14, nil), o)...)
			case 5: // too many warning alerts
				for i := 0; i < 18; i++ {
					wire = append(wire, craft(q, 21, []byte{1, 90}, o)...)
					q.Seq++
				}
			case 6: // application data or change_cipher_spec in the middle of the handshake
				wire = append(wire, craft(q, []byte{23, 20}[c.Intn(2)], []byte{1}, o)...)
			case 7: // empty handshake record
				wire = append(wire, craft(q, 22, nil, o)...)
			case 8: // a fatal alert, or an alert of the wrong length
				wire = append(wire, craft(q, 21, [][]byte{{2, 40}, {2}, {}, {1, 0, 0}}[c.Intn(4)], o)...)
			}
			if c.Intn(5) == 0 && len(wire) > 6 {
				wire = wire[:len(wire)-1-c.Intn(5)]
			}
			var segs []int
			for i := c.Intn(5); i > 0; i-- {
				segs = append(segs, 1+c.Intn(40))
			}
			runHS(c, input{S: "hs", P: p, HaveVers: true, Complete: c.Intn(5) == 0, Wire: vh.Hex(wire), Segs: segs, Calls: nm + 2})
		}
	}
	// malformed control records, deterministically for every state
	for _, p0 := range states {
		for _, rec := range []struct {
			typ  byte
			body []byte
		}{{21, nil}, {21, []byte{2}}, {21, []byte{1, 0, 0}}, {21, []byte{1, 0}}, {20, nil}, {20, []byte{1, 1}}, {20, []byte{2}}, {23, nil}, {22, nil}, {24, []byte{1}}} {
			p := fillParams(c, p0)
			p.Seq, p.Spos = 0, 0
			o := craftOpt{padByte: -1, explicit: c.Bytes(64)[:max(p.effE(), map2(p.Kind == "cbc", p.BS, 0))]}
			wire := craft(p, rec.typ, rec.body, o)
			q := p
			q.Seq = 1
			wire = append(wire, craft(q, 22, hmsg(14, nil), o)...)
			runHS(c, input{S: "hs", P: p, HaveVers: true, Complete: false, Wire: vh.Hex(wire), Calls: 2})
		}
	}
	// the first record of a connection (haveVers unset): SSLv2-looking, wrong type, absurd version
	for _, w := range [][]byte{
		{0x80, 0x2e, 0x01, 0x00, 0x02, 0, 0}, {23, 3, 1, 0, 1, 0}, {22, 0x10, 0, 0, 4, 14, 0, 0, 0}, {22, 3, 1, 0, 4, 14, 0, 0, 0},
		{22, 3, 3, 0, 4, 14, 0, 0, 0}, {21, 3, 1, 0, 2, 2, 40}, {22, 3, 1, 0x48, 1, 0}, {22, 3}, {},
	} {
		runHS(c, input{S: "hs", P: params{Vers: 0, Kind: "null"}, HaveVers: false, Wire: vh.Hex(w), Calls: 2})
	}
	// a message of exactly maxHandshake bytes and one more, across many records (oracle only in the quick tier)
	for _, n := range []int{65536, 65537} {
		p := params{Vers: 0x0303, Kind: "null"}
		seq := uint64(0)
		hb := append([]byte{12, byte(n >> 16), byte(n >> 8), byte(n)}, make([]byte, n)...)
		wire := hsRecords(p, &seq, hb, nil, c)
		runHS(c, input{S: "hs", P: p, HaveVers: true, Wire: vh.Hex(wire), Calls: 2, NoCase: !c.Thorough})
	}
}

// ---------------------------------------------------------------- driver
func gen(c *vh.Ctx) {
	genSKX(c)
	genCKX(c)
	genHS(c)
	genPost(c)
	genFuzz(c)
}

func replay(c *vh.Ctx, raw json.RawMessage) {
	var in input
	if err := json.Unmarshal(raw, &in); err != nil {
		panic(err)
	}
	switch in.S {
	case "skx":
		runSKX(c, in)
	case "ckx":
		runCKX(c, in)
	case "hs":
		runHS(c, in)
	case "fuzz":
		runFuzz(c, *in.Fuzz)
	case "post":
		runPost(c, *in.Post)
	default:
		panic("unknown replay stream " + in.S)
	}
}

func main() { vh.Main("C32", gen, replay) }

// fillParams as in the C25 harness
var seqPool = []uint64{0, 1, 2, 255, 256}

func fillParams(c *vh.Ctx, p params) params {
	switch p.Kind {
	case "cbc":
		p.IV = vh.Hex(c.Bytes(p.BS))
	case "aead":
		switch p.Wrap {
		case "prefix":
			p.WB = vh.Hex(c.Bytes(4))
		case "xor":
			p.WB = vh.Hex(c.Bytes(12))
		}
	}
	return p
}
