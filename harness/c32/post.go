// Data-phase scenarios: after a genuine handshake the peer sends post-handshake
// messages (KeyUpdate with and without update_requested, NewSessionTicket,
// HelloRequest, unexpected or malformed handshake messages), application data
// and close_notify; the transport towards the endpoint then reaches EOF, with
// the endpoint's own writes succeeding or failing.  Every Read, Write and
// Close of the endpoint runs under a watchdog: each call must return.
package main

import (
	"fmt"
	"io"
	"net"
	"strings"
	"sync/atomic"
	"time"

	"github.com/zmap/zcrypto/tls"
	"verifharness/vh"
)

type postIn struct {
	Vers      uint16   `json:"vers"`
	Suite     uint16   `json:"suite"`
	Server    bool     `json:"server"`    // the endpoint under test is the server
	Actions   []string `json:"actions"`   // what the peer sends, in order
	FailWrite bool     `json:"failwrite"` // the endpoint's transport writes fail in the data phase
	LateClose bool     `json:"lateclose"` // the transport reaches EOF only after the endpoint started reading
	Reneg     int      `json:"reneg"`     // client Config.Renegotiation of the endpoint
}

func (p postIn) cell() string {
	role := "client"
	if p.Server {
		role = "server"
	}
	return fmt.Sprintf("%04x/%s/%s", p.Vers, tls.CipherSuiteName(p.Suite), role)
}

// ctlConn is the endpoint's transport: reads from r, writes to w unless told to fail
type ctlConn struct {
	r, w  *memPipe
	failW atomic.Bool
}

func (c *ctlConn) Read(b []byte) (int, error) { return c.r.read(b) }
func (c *ctlConn) Write(b []byte) (int, error) {
	if c.failW.Load() {
		return 0, io.ErrClosedPipe
	}
	return c.w.write(b)
}
func (c *ctlConn) Close() error                       { c.failW.Store(true); c.r.close(); return nil }
func (c *ctlConn) LocalAddr() net.Addr                { return fakeAddr{} }
func (c *ctlConn) RemoteAddr() net.Addr               { return fakeAddr{} }
func (c *ctlConn) SetDeadline(t time.Time) error      { return nil }
func (c *ctlConn) SetReadDeadline(t time.Time) error  { return nil }
func (c *ctlConn) SetWriteDeadline(t time.Time) error { return nil }

const postDeadline = 8 * time.Second

// after this many hangs the remaining scenarios are skipped (each hang costs a full deadline)
const maxPostHangs = 2

var postHangs int

// guarded runs f under recover; ok=false if it did not return within the deadline
func guarded(f func()) (ok bool, panicked string) {
	done := make(chan string, 1)
	go func() {
		defer func() {
			if r := recover(); r != nil {
				done <- fmt.Sprint(r)
				return
			}
			done <- ""
		}()
		f()
	}()
	select {
	case p := <-done:
		return true, p
	case <-time.After(postDeadline):
		return false, ""
	}
}

func runPost(c *vh.Ctx, p postIn) {
	in := input{S: "post", Post: &p}
	if postHangs >= maxPostHangs {
		c.Stat("post.skipped-after-hangs", 1)
		return
	}
	certs()
	name := tls.CipherSuiteName(p.Suite)
	cert := certRSA
	if strings.Contains(name, "ECDSA") {
		cert = certECDSA
	}
	scfg := &tls.Config{Certificates: []tls.Certificate{cert}, MinVersion: p.Vers, MaxVersion: p.Vers, SessionTicketsDisabled: true}
	ccfg := &tls.Config{InsecureSkipVerify: true, ServerName: "verif.test", MinVersion: p.Vers, MaxVersion: p.Vers,
		CipherSuites: []uint16{p.Suite}, Renegotiation: tls.RenegotiationSupport(p.Reneg)}
	if p.Vers != tls.VersionTLS13 {
		scfg.CipherSuites = []uint16{p.Suite}
	}
	c2s, s2c := newMemPipe(), newMemPipe()
	var ep, peer *tls.Conn
	var ctl *ctlConn
	if p.Server {
		ctl = &ctlConn{r: c2s, w: s2c}
		ep = tls.Server(ctl, scfg)
		peer = tls.Client(&memConn{r: s2c, w: c2s}, ccfg)
	} else {
		ctl = &ctlConn{r: s2c, w: c2s}
		ep = tls.Client(ctl, ccfg)
		peer = tls.Server(&memConn{r: c2s, w: s2c}, scfg)
	}
	errs := make(chan error, 2)
	go func() { errs <- ep.Handshake() }()
	go func() { errs <- peer.Handshake() }()
	for i := 0; i < 2; i++ {
		select {
		case err := <-errs:
			if err != nil {
				c2s.close()
				s2c.close()
				c.Stat("post.cell-not-negotiated", 1)
				return
			}
		case <-time.After(20 * time.Second):
			c2s.close()
			s2c.close()
			c.Stat("post.cell-not-negotiated", 1)
			return
		}
	}
	// the peer speaks (its writes go into an unbounded pipe, nothing blocks)
	for _, a := range p.Actions {
		switch {
		case a == "ku1":
			tls.VerifC32SendKeyUpdate(peer, true)
		case a == "ku0":
			tls.VerifC32SendKeyUpdate(peer, false)
		case a == "data":
			peer.Write([]byte("application data"))
		case a == "close_notify":
			peer.CloseWrite()
		case strings.HasPrefix(a, "hs:"):
			tls.VerifC32SendHandshakeBytes(peer, vh.UnHex(a[3:]))
		}
	}
	if p.FailWrite {
		ctl.failW.Store(true)
	}
	if p.LateClose {
		go func() {
			time.Sleep(150 * time.Millisecond)
			ctl.r.close()
		}()
	} else {
		ctl.r.close()
	}
	c.Eval(fmt.Sprintf("%s|%v|%v|%v", p.cell(), p.Actions, p.FailWrite, p.LateClose))
	c.Stat("post.scenarios", 1)
	what := fmt.Sprintf("%s, peer sends %v then the transport ends (endpoint writes fail: %v)", p.cell(), p.Actions, p.FailWrite)
	report := func(op string, ok bool, pan string) bool {
		if !ok {
			postHangs++
			c.Violation("post-hang-"+op, fmt.Sprintf("%s: %s does not return within %v", what, op, postDeadline), "post", in)
			return false
		}
		if pan != "" {
			c.Violation("post-panic-"+op, fmt.Sprintf("%s: %s panicked: %s", what, op, pan), "post", in)
			return false
		}
		return true
	}
	// KeyUpdate-only scenarios are also compared with the lock-summary model (stream post)
	kuOnly := p.Vers == tls.VersionTLS13 && !p.LateClose && len(p.Actions) > 0
	var flags []string
	for _, a := range p.Actions {
		switch a {
		case "ku1":
			flags = append(flags, "true")
		case "ku0":
			flags = append(flags, "false")
		default:
			kuOnly = false
		}
	}
	emit := func(returned bool, cls int, werr bool) {
		if kuOnly {
			c.Case("post", vh.Pair(vh.List0(flags, "bool"), vh.Bool(p.FailWrite),
				vh.Pair(vh.Bool(returned), vh.Z(int64(cls)), vh.Bool(werr))), in, fmt.Sprintf("%s|%v|%v", p.cell(), p.Actions, p.FailWrite))
		}
	}
	var readErr error
	ok, pan := guarded(func() {
		buf := make([]byte, 256)
		for i := 0; i < 40; i++ {
			if _, err := ep.Read(buf); err != nil {
				readErr = err
				return
			}
		}
	})
	if !report("read", ok, pan) {
		emit(false, 0, false)
		return
	}
	var writeErr error
	ok, pan = guarded(func() { _, writeErr = ep.Write([]byte("x")) })
	if !report("write", ok, pan) {
		emit(false, 0, false)
		return
	}
	cls := 3
	if readErr != nil {
		cls = classify(readErr)
	}
	emit(true, cls, writeErr != nil)
	ok, pan = guarded(func() {
		ep.GetHandshakeLog()
		ep.ConnectionState()
		ep.Close()
	})
	report("close", ok, pan)
}

func genPost(c *vh.Ctx) {
	hsm := func(typ byte, body []byte) string { return "hs:" + vh.Hex(hmsg(typ, body)) }
	many := func(a string, n int) []string {
		var o []string
		for i := 0; i < n; i++ {
			o = append(o, a)
		}
		return o
	}
	tls13 := [][]string{
		{"ku1"}, {"ku0"}, {"ku1", "ku1", "ku1"}, {"ku1", "data", "ku0", "data"}, {"data", "ku1"}, {"ku1", "close_notify"},
		many("ku0", 17), many("ku1", 17),
		{hsm(4, c.Bytes(30))}, {hsm(4, nil)}, {hsm(20, c.Bytes(32))}, {hsm(1, c.Bytes(40))}, {hsm(24, []byte{2})}, {hsm(24, nil)},
		{"hs:180000"}, {hsm(99, []byte{1})}, {"data", hsm(24, []byte{1}), "data"},
	}
	tls12 := [][]string{
		{hsm(0, nil)}, {hsm(0, nil), hsm(0, nil), hsm(0, nil)}, {"data", hsm(0, nil), "data"}, {hsm(1, c.Bytes(40))},
		{hsm(20, c.Bytes(12))}, {hsm(0, []byte{1})}, {"hs:0000"}, {hsm(0, nil), "close_notify"},
	}
	type cell struct{ v, s uint16 }
	late := 0
	for _, cl := range []cell{{tls.VersionTLS13, tls.TLS_AES_128_GCM_SHA256}, {tls.VersionTLS13, tls.TLS_CHACHA20_POLY1305_SHA256},
		{tls.VersionTLS12, tls.TLS_ECDHE_RSA_WITH_AES_128_GCM_SHA256}, {tls.VersionTLS12, tls.TLS_RSA_WITH_AES_128_CBC_SHA}} {
		sets := tls12
		if cl.v == tls.VersionTLS13 {
			sets = tls13
		}
		for _, server := range []bool{false, true} {
			for si, acts := range sets {
				for _, fw := range []bool{true, false} {
					p := postIn{Vers: cl.v, Suite: cl.s, Server: server, Actions: acts, FailWrite: fw, Reneg: c.Intn(3)}
					// a few scenarios in which the transport ends only after the endpoint started reading
					if (c.Thorough || late < 6) && si < 3 && fw && cl.s != tls.TLS_CHACHA20_POLY1305_SHA256 {
						p.LateClose = true
						late++
					}
					runPost(c, p)
				}
			}
		}
	}
}
