// Transcript fuzzing oracle: genuine handshakes are recorded with
// deterministic Config.Rand on both sides, then the bytes one side received
// are replayed — damaged — to a fresh endpoint of the same configuration,
// which must neither panic nor hang once the transport reports EOF.
package main

import (
	"fmt"
	"io"
	"net"
	"strings"
	"sync"
	"time"

	"github.com/zmap/zcrypto/tls"
	"verifharness/vh"
)

// deterministic randomness for Config.Rand
type detRand struct{ x uint64 }

func (r *detRand) Read(p []byte) (int, error) {
	for i := range p {
		r.x ^= r.x << 13
		r.x ^= r.x >> 7
		r.x ^= r.x << 17
		p[i] = byte(r.x >> 32)
	}
	return len(p), nil
}

type fuzzIn struct {
	Vers    uint16 `json:"vers"`
	Suite   uint16 `json:"suite"`
	Server  bool   `json:"server"`  // the endpoint under test is the server
	Mut     string `json:"mut"`     // none flip trunc insert delete resplit random randrec
	Pos     int    `json:"pos"`     // per mille of the stream
	Arg     int    `json:"arg"`     // bit / length
	Seed    uint64 `json:"seed"`    // for inserted / random bytes
	Chunk   int    `json:"chunk"`   // transport read size (0 = whole flights)
	SkipVer bool   `json:"skipver"` // client: InsecureSkipVerify
}

func (f fuzzIn) cell() string {
	role := "client"
	if f.Server {
		role = "server"
	}
	return fmt.Sprintf("%04x/%s/%s", f.Vers, tls.CipherSuiteName(f.Suite), role)
}

// in-memory pipe (as in the C25 harness)
type memPipe struct {
	mu     sync.Mutex
	cond   *sync.Cond
	segs   [][]byte
	closed bool
	log    [][]byte
}

func newMemPipe() *memPipe { p := &memPipe{}; p.cond = sync.NewCond(&p.mu); return p }
func (p *memPipe) write(b []byte) (int, error) {
	p.mu.Lock()
	defer p.mu.Unlock()
	if p.closed {
		return 0, io.ErrClosedPipe
	}
	p.segs = append(p.segs, append([]byte{}, b...))
	p.log = append(p.log, append([]byte{}, b...))
	p.cond.Broadcast()
	return len(b), nil
}
func (p *memPipe) read(b []byte) (int, error) {
	p.mu.Lock()
	defer p.mu.Unlock()
	for {
		for len(p.segs) > 0 && len(p.segs[0]) == 0 {
			p.segs = p.segs[1:]
		}
		if len(p.segs) > 0 {
			n := copy(b, p.segs[0])
			p.segs[0] = p.segs[0][n:]
			return n, nil
		}
		if p.closed {
			return 0, io.EOF
		}
		p.cond.Wait()
	}
}
func (p *memPipe) close() {
	p.mu.Lock()
	p.closed = true
	p.cond.Broadcast()
	p.mu.Unlock()
}

type memConn struct{ r, w *memPipe }

func (c *memConn) Read(b []byte) (int, error)         { return c.r.read(b) }
func (c *memConn) Write(b []byte) (int, error)        { return c.w.write(b) }
func (c *memConn) Close() error                       { c.w.close(); c.r.close(); return nil }
func (c *memConn) LocalAddr() net.Addr                { return fakeAddr{} }
func (c *memConn) RemoteAddr() net.Addr               { return fakeAddr{} }
func (c *memConn) SetDeadline(t time.Time) error      { return nil }
func (c *memConn) SetReadDeadline(t time.Time) error  { return nil }
func (c *memConn) SetWriteDeadline(t time.Time) error { return nil }

// scriptConn plays a fixed byte stream to the endpoint and swallows what it writes
type scriptConn struct {
	captureConn
	data  []byte
	chunk int
}

func (c *scriptConn) Read(p []byte) (int, error) {
	if len(c.data) == 0 {
		return 0, io.EOF
	}
	n := len(p)
	if c.chunk > 0 && n > c.chunk {
		n = c.chunk
	}
	n = copy(p[:n], c.data)
	c.data = c.data[n:]
	return n, nil
}

func configs(f fuzzIn) (ccfg, scfg *tls.Config) {
	certs()
	name := tls.CipherSuiteName(f.Suite)
	cert := certRSA
	if strings.Contains(name, "ECDSA") {
		cert = certECDSA
	}
	fixed := func() time.Time { return time.Unix(1700000000, 0) }
	scfg = &tls.Config{Certificates: []tls.Certificate{cert}, MinVersion: f.Vers, MaxVersion: f.Vers,
		SessionTicketsDisabled: true, Rand: &detRand{x: 0x1234567 + uint64(f.Suite)}, Time: fixed}
	ccfg = &tls.Config{InsecureSkipVerify: true, ServerName: "verif.test", MinVersion: f.Vers, MaxVersion: f.Vers,
		Rand: &detRand{x: 0x7654321 + uint64(f.Suite)}, Time: fixed, CipherSuites: []uint16{f.Suite}}
	if f.Vers != tls.VersionTLS13 {
		scfg.CipherSuites = []uint16{f.Suite}
	}
	return
}

type transcript struct {
	toClient, toServer []byte
	ok                 bool
}

var transcripts = map[string]*transcript{}

// record runs one genuine handshake plus a short data exchange and keeps what
// each side received
func record(f fuzzIn) *transcript {
	key := fmt.Sprintf("%x/%x", f.Vers, f.Suite)
	if t, ok := transcripts[key]; ok {
		return t
	}
	t := &transcript{}
	transcripts[key] = t
	ccfg, scfg := configs(f)
	c2s, s2c := newMemPipe(), newMemPipe()
	cli := tls.Client(&memConn{r: s2c, w: c2s}, ccfg)
	srv := tls.Server(&memConn{r: c2s, w: s2c}, scfg)
	errs := make(chan error, 2)
	go func() {
		err := cli.Handshake()
		if err == nil {
			_, err = cli.Write([]byte("ping from the client"))
		}
		if err == nil {
			buf := make([]byte, 100)
			_, err = cli.Read(buf)
		}
		if err == nil {
			err = cli.Close()
		}
		errs <- err
	}()
	go func() {
		err := srv.Handshake()
		if err == nil {
			buf := make([]byte, 100)
			_, err = srv.Read(buf)
		}
		if err == nil {
			_, err = srv.Write([]byte("pong from the server"))
		}
		if err == nil {
			buf := make([]byte, 100)
			srv.Read(buf) // close_notify
		}
		errs <- err
	}()
	for i := 0; i < 2; i++ {
		select {
		case err := <-errs:
			if err != nil {
				c2s.close()
				s2c.close()
				return t
			}
		case <-time.After(20 * time.Second):
			c2s.close()
			s2c.close()
			return t
		}
	}
	for _, b := range s2c.log {
		t.toClient = append(t.toClient, b...)
	}
	for _, b := range c2s.log {
		t.toServer = append(t.toServer, b...)
	}
	t.ok = true
	return t
}

func mutate(f fuzzIn, stream []byte) []byte {
	s := append([]byte{}, stream...)
	r := &detRand{x: f.Seed | 1}
	rb := func(n int) []byte { b := make([]byte, n); r.Read(b); return b }
	pos := 0
	if len(s) > 0 {
		pos = f.Pos * len(s) / 1000
		if pos >= len(s) {
			pos = len(s) - 1
		}
	}
	switch f.Mut {
	case "flip":
		if len(s) > 0 {
			s[pos] ^= byte(1 << uint(f.Arg%8))
		}
	case "trunc":
		s = s[:pos]
	case "insert":
		ins := rb(1 + f.Arg%24)
		s = append(s[:pos], append(ins, s[pos:]...)...)
	case "delete":
		end := pos + 1 + f.Arg%16
		if end > len(s) {
			end = len(s)
		}
		s = append(s[:pos], s[end:]...)
	case "resplit":
		// re-fragment every plaintext handshake record before the first change_cipher_spec / protected record
		var out []byte
		rest := s
		for len(rest) >= 5 {
			n := int(rest[3])<<8 | int(rest[4])
			if len(rest) < 5+n {
				break
			}
			rec := rest[:5+n]
			rest = rest[5+n:]
			if rec[0] != 22 || n < 2 {
				out = append(out, rec...)
				out = append(out, rest...)
				rest = nil
				break
			}
			body := rec[5:]
			for len(body) > 0 {
				k := 1 + int(rb(1)[0])%(1+f.Arg%64)
				if k > len(body) {
					k = len(body)
				}
				out = append(out, rec[0], rec[1], rec[2], byte(k>>8), byte(k))
				out = append(out, body[:k]...)
				body = body[k:]
			}
		}
		s = append(out, rest...)
	case "random":
		s = rb(1 + f.Arg%600)
	case "randrec":
		// random payloads under plausible record headers
		var out []byte
		for i := 0; i < 1+f.Arg%6; i++ {
			n := int(rb(1)[0]) % 80
			if rb(1)[0]&1 == 0 {
				n %= 4 // control records are short: lengths 0..3 matter
			}
			body := rb(n)
			out = append(out, []byte{20, 21, 22, 23, 22, 22}[int(rb(1)[0])%6], 3, byte(1+int(rb(1)[0])%3), byte(len(body)>>8), byte(len(body)))
			out = append(out, body...)
		}
		s = append(s[:pos], out...)
	}
	return s
}

func runFuzz(c *vh.Ctx, f fuzzIn) {
	in := input{S: "fuzz", Fuzz: &f}
	t := record(f)
	if !t.ok {
		c.Stat("fuzz.cell-not-negotiated", 1)
		return
	}
	stream := t.toClient
	if f.Server {
		stream = t.toServer
	}
	data := mutate(f, stream)
	ccfg, scfg := configs(f)
	ccfg.InsecureSkipVerify = true
	sc := &scriptConn{data: data, chunk: f.Chunk}
	var ep *tls.Conn
	if f.Server {
		ep = tls.Server(sc, scfg)
	} else {
		ep = tls.Client(sc, ccfg)
	}
	type outcome struct {
		pan       string
		completed bool
		readOK    bool
	}
	done := make(chan outcome, 1)
	go func() {
		var o outcome
		defer func() {
			if r := recover(); r != nil {
				o.pan = fmt.Sprint(r)
			}
			done <- o
		}()
		if err := ep.Handshake(); err == nil {
			o.completed = true
			buf := make([]byte, 200)
			if !f.Server {
				ep.Write([]byte("ping from the client"))
			}
			for i := 0; i < 4; i++ {
				if n, err := ep.Read(buf); err != nil {
					break
				} else if n > 0 {
					o.readOK = true
				}
			}
		}
		_ = ep.GetHandshakeLog()
		ep.ConnectionState()
		ep.Close()
	}()
	select {
	case o := <-done:
		c.Eval(fmt.Sprintf("%s|%s|%v", f.cell(), f.Mut, o.completed))
		c.Stat("fuzz."+f.Mut, 1)
		if o.completed {
			c.Stat("fuzz.completed."+f.Mut, 1)
		}
		if o.pan != "" {
			c.Violation("fuzz-panic", fmt.Sprintf("%s: panic on a %s-mutated transcript (position %d of %d): %s", f.cell(), f.Mut, f.Pos*len(stream)/1000, len(stream), o.pan), "fuzz", in)
		}
		if f.Mut == "none" && !o.completed {
			c.Stat("fuzz.replay-not-deterministic", 1)
		}
	case <-time.After(20 * time.Second):
		c.Violation("fuzz-hang", fmt.Sprintf("%s: the endpoint does not return on a %s-mutated transcript although the transport is at EOF", f.cell(), f.Mut), "fuzz", in)
	}
}

func genFuzz(c *vh.Ctx) {
	type cell struct{ v, s uint16 }
	cells := []cell{
		{tls.VersionTLS12, tls.TLS_ECDHE_RSA_WITH_AES_128_GCM_SHA256},
		{tls.VersionTLS12, tls.TLS_ECDHE_ECDSA_WITH_AES_128_GCM_SHA256},
		{tls.VersionTLS12, tls.TLS_RSA_WITH_AES_128_CBC_SHA},
		{tls.VersionTLS12, tls.TLS_DHE_RSA_WITH_AES_128_CBC_SHA},
		{tls.VersionTLS10, tls.TLS_ECDHE_RSA_WITH_AES_128_CBC_SHA},
		{tls.VersionTLS11, tls.TLS_RSA_WITH_AES_128_CBC_SHA},
		{tls.VersionTLS13, tls.TLS_AES_128_GCM_SHA256},
		{tls.VersionTLS13, tls.TLS_CHACHA20_POLY1305_SHA256},
	}
	muts := []string{"flip", "flip", "flip", "trunc", "insert", "delete", "resplit", "random", "randrec"}
	per := 24
	if c.Thorough {
		per = 400
	}
	ok := 0
	for _, cl := range cells {
		for _, server := range []bool{false, true} {
			base := fuzzIn{Vers: cl.v, Suite: cl.s, Server: server, Mut: "none"}
			if !record(base).ok {
				c.Stat("fuzz.cell-not-negotiated", 1)
				continue
			}
			ok++
			runFuzz(c, base)
			for i := 0; i < per; i++ {
				f := base
				f.Mut = muts[c.Intn(len(muts))]
				f.Pos = c.Intn(1000)
				if c.Intn(3) == 0 {
					f.Pos = c.Intn(60) // the hello messages
				}
				f.Arg = c.Intn(1 << 16)
				f.Seed = c.U64()
				f.Chunk = []int{0, 0, 1, 7, 100}[c.Intn(5)]
				runFuzz(c, f)
			}
			if c.Thorough {
				// every byte of the transcript flipped once
				t := record(base)
				n := len(t.toClient)
				if server {
					n = len(t.toServer)
				}
				for p := 0; p < n; p++ {
					f := base
					f.Mut, f.Pos, f.Arg = "flip", p*1000/n, p
					runFuzz(c, f)
				}
			}
		}
	}
	c.Note(fmt.Sprintf("transcript fuzzing: %d (version, suite, role) transcripts", ok))
	if ok < 10 {
		c.Violation("fuzz-cells-missing", fmt.Sprintf("only %d transcripts could be recorded", ok), "fuzz", input{S: "fuzz", Fuzz: &fuzzIn{Vers: tls.VersionTLS12, Suite: tls.TLS_ECDHE_RSA_WITH_AES_128_GCM_SHA256, Mut: "none"}})
	}
}
