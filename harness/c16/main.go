// C16 harness: CT TLS-style codecs (ct/serialization.go and the second copy in
// x509/ct), RFC 6962 signature inputs and the signature verifier.
// Every case runs the implementation, prints the observable as a Coq term of
// type C16.case, and evaluates the property directly (round trip, reference
// RFC 6962 encoders/decoders written with x/crypto/cryptobyte, upstream Go
// crypto/rsa and crypto/ecdsa as differential verifier).
package main

import (
	"bytes"
	"crypto"
	"crypto/ecdsa"
	"crypto/ed25519"
	"crypto/elliptic"
	stdrsa "crypto/rsa"
	"crypto/sha256"
	"crypto/x509"
	"encoding/binary"
	"encoding/hex"
	"encoding/json"
	"encoding/pem"
	"fmt"
	"math/big"
	"strings"

	"golang.org/x/crypto/cryptobyte"

	"github.com/zmap/zcrypto/ct"
	zrsa "github.com/zmap/zcrypto/rsa"
	xct "github.com/zmap/zcrypto/x509/ct"
	"verifharness/vh"
)

// ---------- compact byte strings (run-length segments) ----------
type seg struct {
	N int    `json:"n"`
	H string `json:"h"`
}
type bs []seg

const runMin = 16

func pack(b []byte) bs {
	var out bs
	lit := []byte{}
	flush := func() {
		if len(lit) > 0 {
			out = append(out, seg{1, hex.EncodeToString(lit)})
			lit = []byte{}
		}
	}
	for i := 0; i < len(b); {
		j := i
		for j < len(b) && b[j] == b[i] {
			j++
		}
		if j-i >= runMin {
			flush()
			out = append(out, seg{j - i, hex.EncodeToString(b[i : i+1])})
		} else {
			lit = append(lit, b[i:j]...)
		}
		i = j
	}
	flush()
	return out
}

func (s bs) bytes() []byte {
	var out []byte
	for _, g := range s {
		c := vh.UnHex(g.H)
		if len(c) == 1 {
			out = append(out, bytes.Repeat(c, g.N)...)
		} else {
			for i := 0; i < g.N; i++ {
				out = append(out, c...)
			}
		}
	}
	if out == nil {
		out = []byte{}
	}
	return out
}

func (s bs) coq() string {
	if len(s) == 0 {
		return "(@nil (N*bytes))"
	}
	xs := make([]string, len(s))
	for i, g := range s {
		xs[i] = vh.Pair(vh.NI(g.N), vh.Bytes(vh.UnHex(g.H)))
	}
	return vh.List(xs)
}

func spec(b []byte) string { return pack(b).coq() }
func optSpec(b []byte, ok bool) string {
	if !ok {
		return "None"
	}
	return vh.Some(spec(b))
}

// ---------- replayable input ----------
type input struct {
	Kind    string  `json:"kind"`
	Copy    int     `json:"copy"`
	Value   uint64  `json:"value,omitempty"`
	N       int     `json:"n,omitempty"`
	N2      int     `json:"n2,omitempty"`
	B       bs      `json:"b,omitempty"`
	H       int     `json:"h,omitempty"`
	A       int     `json:"a,omitempty"`
	Sig     bs      `json:"sig,omitempty"`
	Here    int     `json:"here"` // -1 = nil buffer
	Version int     `json:"version,omitempty"`
	TS      uint64  `json:"ts,omitempty"`
	LogID   string  `json:"logid,omitempty"`
	Ext     bs      `json:"ext,omitempty"`
	Leaf    int     `json:"leaftype,omitempty"`
	EType   int     `json:"etype,omitempty"`
	X509    bs      `json:"x509,omitempty"`
	IKH     string  `json:"ikh,omitempty"`
	TBS     bs      `json:"tbs,omitempty"`
	Size    uint64  `json:"size,omitempty"`
	Root    string  `json:"root,omitempty"`
	Precert bool    `json:"precert,omitempty"`
	Key     string  `json:"key,omitempty"`
	Data    bs      `json:"data,omitempty"`
	GoOnly  bool    `json:"go_only,omitempty"` // too large for a model case: oracle only
	Items   []input `json:"items,omitempty"`   // kind "multi": several inputs in one replay file
	Note    string  `json:"note,omitempty"`
}

// ---------- keys ----------
type tkey struct {
	name string
	pub  crypto.PublicKey // what NewSignatureVerifier gets
	kind string           // Coq keykind term
	ec   *ecdsa.PrivateKey
	rsa  *stdrsa.PrivateKey
}

var keys = map[string]*tkey{}

func zpub(k *stdrsa.PublicKey) *zrsa.PublicKey {
	return &zrsa.PublicKey{N: k.N, E: big.NewInt(int64(k.E))}
}

func init() {
	for name, p := range map[string]string{"p256": pemP256, "p256b": pemP256b} {
		b, _ := pem.Decode([]byte(p))
		k, err := x509.ParseECPrivateKey(b.Bytes)
		if err != nil {
			panic(err)
		}
		keys[name] = &tkey{name: name, pub: &k.PublicKey, kind: "(KEcdsa true)", ec: k}
	}
	for name, p := range map[string]string{"rsa": pemRSA, "rsab": pemRSAb} {
		b, _ := pem.Decode([]byte(p))
		k, err := x509.ParsePKCS1PrivateKey(b.Bytes)
		if err != nil {
			panic(err)
		}
		keys[name] = &tkey{name: name, pub: zpub(&k.PublicKey), kind: "(KRsa 2048%N)", rsa: k}
	}
}

var verifiers = map[string]*ct.SignatureVerifier{}

func verifier(name string) *ct.SignatureVerifier {
	if v, ok := verifiers[name]; ok {
		return v
	}
	v, err := ct.NewSignatureVerifier(keys[name].pub)
	if err != nil {
		panic(err)
	}
	verifiers[name] = v
	return v
}

// ---------- small helpers ----------
func be(v uint64, n int) []byte {
	out := make([]byte, n)
	for i := n - 1; i >= 0; i-- {
		out[i] = byte(v)
		v >>= 8
	}
	return out
}

func fitsN(v uint64, n int) bool { return n >= 8 || v>>(8*uint(n)) == 0 }

func hx32(s string) [32]byte {
	var a [32]byte
	b := vh.UnHex(s)
	if len(b) != 32 {
		panic("need 32 bytes")
	}
	copy(a[:], b)
	return a
}

func nz(b []byte) []byte {
	if b == nil {
		return []byte{}
	}
	return b
}

type runner struct {
	c  *vh.Ctx
	st string
}

func (r *runner) emit(in input, term, ntKey string) {
	if in.GoOnly {
		r.c.Eval(ntKey)
		return
	}
	r.c.Case(r.st, term, in, ntKey)
}
func (r *runner) viol(key, desc string, in input) { r.c.Violation(key, desc, r.st, in) }

// ---------- writeUint ----------
func (r *runner) wu(in input) {
	var out []byte
	var err error
	if in.Copy == 0 {
		out, err = ct.VerifWriteUint(in.Value, in.N)
	} else {
		out, err = xct.VerifWriteUint(in.Value, in.N)
	}
	r.emit(in, vh.App("CWriteUint", vh.NI(in.Copy), vh.N(in.Value), vh.Nat(in.N), vh.OptBytes(out, err == nil)),
		fmt.Sprintf("wu|%d|%d|%d", in.Copy, in.Value, in.N))
	fits := fitsN(in.Value, in.N)
	if (err == nil) != fits {
		r.viol("writeuint-overflow", fmt.Sprintf("writeUint(%d, %d): err=%v but value fits=%v", in.Value, in.N, err, fits), in)
	} else if fits && !bytes.Equal(out, be(in.Value, in.N)) {
		r.viol("writeuint-bytes", fmt.Sprintf("writeUint(%d, %d) = %x, big-endian is %x", in.Value, in.N, out, be(in.Value, in.N)), in)
	}
}

// ---------- writeVarBytes ----------
func (r *runner) wv(in input) {
	v := in.B.bytes()
	var out []byte
	var err error
	if in.Copy == 0 {
		out, err = ct.VerifWriteVarBytes(v, in.N)
	} else {
		out, err = xct.VerifWriteVarBytes(v, in.N)
	}
	nt := ""
	if len(v) >= 255 || err != nil {
		nt = fmt.Sprintf("wv|%d|%d|%d", in.Copy, len(v), in.N)
	}
	r.emit(in, vh.App("CWriteVar", vh.NI(in.Copy), in.B.coq(), vh.Nat(in.N), optSpec(out, err == nil)), nt)
	fits := fitsN(uint64(len(v)), in.N)
	if (err == nil) != fits {
		r.viol("varbytes-overlong", fmt.Sprintf("writeVarBytes(len %d, %d length bytes): err=%v, length fits=%v", len(v), in.N, err, fits), in)
		return
	}
	if !fits {
		return
	}
	if want := append(be(uint64(len(v)), in.N), v...); !bytes.Equal(out, want) {
		r.viol("varbytes-bytes", fmt.Sprintf("writeVarBytes(len %d, %d): wrong bytes (prefix %x)", len(v), in.N, out[:min(len(out), 8)]), in)
		return
	}
	if in.N >= 1 && in.N <= 8 {
		var back []byte
		var rem int
		var e2 error
		if in.Copy == 0 {
			back, rem, e2 = ct.VerifReadVarBytes(out, in.N)
		} else {
			back, rem, e2 = xct.VerifReadVarBytes(out, in.N)
		}
		if e2 != nil || rem != 0 || !bytes.Equal(back, v) {
			r.viol("varbytes-roundtrip", fmt.Sprintf("readVarBytes(writeVarBytes(len %d, %d)) = len %d, rem %d, err %v", len(v), in.N, len(back), rem, e2), in)
		}
	}
}

// ---------- readUint / readVarBytes ----------
func (r *runner) ru(in input) {
	b := in.B.bytes()
	var v uint64
	var rem int
	var err error
	if in.Copy == 0 {
		v, rem, err = ct.VerifReadUint(b, in.N)
	} else {
		v, rem, err = xct.VerifReadUint(b, in.N)
	}
	obs := "None"
	if err == nil {
		obs = vh.Some(vh.Pair(vh.N(v), vh.NI(rem)))
	}
	r.emit(in, vh.App("CReadUint", vh.NI(in.Copy), in.B.coq(), vh.Nat(in.N), obs), fmt.Sprintf("ru|%d|%x|%d", in.Copy, b, in.N))
	ok := len(b) >= in.N
	if (err == nil) != ok {
		r.viol("readuint", fmt.Sprintf("readUint(%x, %d): err=%v", b, in.N, err), in)
	} else if ok && in.N <= 8 {
		var w uint64
		for _, x := range b[:in.N] {
			w = w<<8 | uint64(x)
		}
		if w != v || rem != len(b)-in.N {
			r.viol("readuint", fmt.Sprintf("readUint(%x, %d) = %d rem %d, want %d rem %d", b, in.N, v, rem, w, len(b)-in.N), in)
		}
	}
}

// reference: n-byte big-endian length, then that many bytes
func refVar(b []byte, n int) (val []byte, rest []byte, ok bool) {
	if n < 1 || n > 8 || len(b) < n {
		return nil, nil, false
	}
	var l uint64
	for _, x := range b[:n] {
		l = l<<8 | uint64(x)
	}
	if uint64(len(b)-n) < l {
		return nil, nil, false
	}
	return b[n : n+int(l)], b[n+int(l):], true
}

func (r *runner) rv(in input) {
	b := in.B.bytes()
	var v []byte
	var rem int
	var err error
	if in.Copy == 0 {
		v, rem, err = ct.VerifReadVarBytes(b, in.N)
	} else {
		v, rem, err = xct.VerifReadVarBytes(b, in.N)
	}
	obs := "None"
	if err == nil {
		obs = vh.Some(vh.Pair(spec(v), vh.NI(rem)))
	}
	nt := ""
	if err == nil || len(b) >= in.N {
		nt = fmt.Sprintf("rv|%d|%d|%d|%v", in.Copy, len(b), in.N, err == nil)
	}
	r.emit(in, vh.App("CReadVar", vh.NI(in.Copy), in.B.coq(), vh.Nat(in.N), obs), nt)
	want, rest, ok := refVar(b, in.N)
	if (err == nil) != ok || (ok && (!bytes.Equal(want, v) || rem != len(rest))) {
		r.viol("readvarbytes", fmt.Sprintf("readVarBytes(len %d, %d): err=%v len=%d rem=%d; reference ok=%v len=%d rem=%d", len(b), in.N, err, len(v), rem, ok, len(want), len(rest)), in)
	}
	// cross-check the reference itself against cryptobyte for the widths the formats use
	if in.N >= 1 && in.N <= 3 {
		s := cryptobyte.String(b)
		var o cryptobyte.String
		var cok bool
		switch in.N {
		case 1:
			cok = s.ReadUint8LengthPrefixed(&o)
		case 2:
			cok = s.ReadUint16LengthPrefixed(&o)
		case 3:
			cok = s.ReadUint24LengthPrefixed(&o)
		}
		if cok != ok || (ok && !bytes.Equal(o, want)) {
			panic("harness reference decoder disagrees with cryptobyte")
		}
	}
}

// ---------- DigitallySigned ----------
func refDS(h, a int, sig []byte) ([]byte, bool) {
	var b cryptobyte.Builder
	b.AddUint8(uint8(h))
	b.AddUint8(uint8(a))
	if len(sig) > 65535 {
		return nil, false
	}
	b.AddUint16LengthPrefixed(func(c *cryptobyte.Builder) { c.AddBytes(sig) })
	out, err := b.Bytes()
	return out, err == nil
}

func mkHere(n int) []byte {
	if n < 0 {
		return nil
	}
	return make([]byte, n)
}
func coqHere(n int) string {
	if n < 0 {
		return "None"
	}
	return vh.Some(vh.NI(n))
}

func (r *runner) mds(in input) {
	sig := in.Sig.bytes()
	var out []byte
	var err error
	if in.Copy == 0 {
		out, err = ct.VerifMarshalDigitallySignedHere(ct.DigitallySigned{HashAlgorithm: ct.HashAlgorithm(in.H), SignatureAlgorithm: ct.SignatureAlgorithm(in.A), Signature: sig}, mkHere(in.Here))
	} else {
		out, err = xct.VerifMarshalDigitallySignedHere(xct.DigitallySigned{HashAlgorithm: xct.HashAlgorithm(in.H), SignatureAlgorithm: xct.SignatureAlgorithm(in.A), Signature: sig}, mkHere(in.Here))
	}
	r.emit(in, vh.App("CMarshalDS", vh.NI(in.Copy), vh.NI(in.H), vh.NI(in.A), in.Sig.coq(), coqHere(in.Here), optSpec(out, err == nil)),
		fmt.Sprintf("mds|%d|%d|%d", in.Copy, len(sig), in.Here))
	want, ok := refDS(in.H, in.A, sig)
	if err == nil {
		// the property: bytes that decode to the same value, with the reported length
		var h2, a2 int
		var s2 []byte
		var e2 error
		rd := bytes.NewReader(out)
		if in.Copy == 0 {
			d, e := ct.UnmarshalDigitallySigned(rd)
			e2 = e
			if e == nil {
				h2, a2, s2 = int(d.HashAlgorithm), int(d.SignatureAlgorithm), d.Signature
			}
		} else {
			d, e := xct.UnmarshalDigitallySigned(rd)
			e2 = e
			if e == nil {
				h2, a2, s2 = int(d.HashAlgorithm), int(d.SignatureAlgorithm), d.Signature
			}
		}
		if e2 != nil || h2 != in.H || a2 != in.A || !bytes.Equal(s2, sig) || rd.Len() != 0 {
			r.viol("ds-roundtrip", fmt.Sprintf("MarshalDigitallySigned(sig len %d) gives %d bytes with no error, which decode to sig len %d (err %v, %d unread)", len(sig), len(out), len(s2), e2, rd.Len()), in)
			return
		}
		if !ok || !bytes.Equal(out, want) {
			r.viol("ds-bytes", fmt.Sprintf("MarshalDigitallySigned(sig len %d): not the RFC 5246 DigitallySigned encoding", len(sig)), in)
			return
		}
		// the base64 / JSON wrappers go through the same codec: they must round-trip too
		if in.Here < 0 && in.Copy == 0 {
			d := ct.DigitallySigned{HashAlgorithm: ct.HashAlgorithm(in.H), SignatureAlgorithm: ct.SignatureAlgorithm(in.A), Signature: sig}
			js, e1 := json.Marshal(d)
			var back ct.DigitallySigned
			e2 := json.Unmarshal(js, &back)
			if e1 != nil || e2 != nil || back.HashAlgorithm != d.HashAlgorithm || back.SignatureAlgorithm != d.SignatureAlgorithm || !bytes.Equal(back.Signature, sig) {
				r.viol("ds-json-roundtrip", fmt.Sprintf("DigitallySigned JSON/base64 form does not round-trip (sig len %d, %v, %v)", len(sig), e1, e2), in)
			}
		}
		if in.Here < 0 && in.Copy == 1 {
			d := xct.DigitallySigned{HashAlgorithm: xct.HashAlgorithm(in.H), SignatureAlgorithm: xct.SignatureAlgorithm(in.A), Signature: sig}
			js, e1 := json.Marshal(d)
			var back xct.DigitallySigned
			e2 := json.Unmarshal(js, &back)
			if e1 != nil || e2 != nil || back.HashAlgorithm != d.HashAlgorithm || back.SignatureAlgorithm != d.SignatureAlgorithm || !bytes.Equal(back.Signature, sig) {
				r.viol("ds-json-roundtrip", fmt.Sprintf("x509/ct DigitallySigned JSON/base64 form does not round-trip (sig len %d, %v, %v)", len(sig), e1, e2), in)
			}
		}
	} else if ok && (in.Here < 0 || in.Here >= len(want)) {
		r.viol("ds-rejects-valid", fmt.Sprintf("marshalDigitallySignedHere(sig len %d, here %d): %v", len(sig), in.Here, err), in)
	}
}

func (r *runner) uds(in input) {
	b := in.B.bytes()
	rd := bytes.NewReader(b)
	var h2, a2 int
	var s2 []byte
	var err error
	if in.Copy == 0 {
		d, e := ct.UnmarshalDigitallySigned(rd)
		err = e
		if e == nil {
			h2, a2, s2 = int(d.HashAlgorithm), int(d.SignatureAlgorithm), d.Signature
		}
	} else {
		d, e := xct.UnmarshalDigitallySigned(rd)
		err = e
		if e == nil {
			h2, a2, s2 = int(d.HashAlgorithm), int(d.SignatureAlgorithm), d.Signature
		}
	}
	obs := "None"
	if err == nil {
		obs = vh.Some(vh.Pair(vh.NI(h2), vh.NI(a2), spec(s2), vh.NI(rd.Len())))
	}
	nt := ""
	if err == nil || len(b) >= 4 {
		nt = fmt.Sprintf("uds|%d|%d|%v", in.Copy, len(b), err == nil)
	}
	r.emit(in, vh.App("CUnmarshalDS", vh.NI(in.Copy), in.B.coq(), obs), nt)
	s := cryptobyte.String(b)
	var rh, ra uint8
	var rs cryptobyte.String
	ok := s.ReadUint8(&rh) && s.ReadUint8(&ra) && s.ReadUint16LengthPrefixed(&rs)
	if ok != (err == nil) || (ok && (int(rh) != h2 || int(ra) != a2 || !bytes.Equal(rs, s2) || len(s) != rd.Len())) {
		r.viol("ds-decode", fmt.Sprintf("UnmarshalDigitallySigned(%d bytes): err=%v, reference decoder ok=%v", len(b), err, ok), in)
	}
}

// ---------- SCT ----------
func refSCT(version int, logid [32]byte, ts uint64, ext []byte, h, a int, sig []byte) ([]byte, bool) {
	if len(ext) > 65535 || len(sig) > 65535 {
		return nil, false
	}
	var b cryptobyte.Builder
	b.AddUint8(uint8(version))
	b.AddBytes(logid[:])
	b.AddUint64(ts)
	b.AddUint16LengthPrefixed(func(c *cryptobyte.Builder) { c.AddBytes(ext) })
	b.AddUint8(uint8(h))
	b.AddUint8(uint8(a))
	b.AddUint16LengthPrefixed(func(c *cryptobyte.Builder) { c.AddBytes(sig) })
	out, err := b.Bytes()
	return out, err == nil
}

func (r *runner) sct(in input) {
	ext, sig := in.Ext.bytes(), in.Sig.bytes()
	logid := hx32(in.LogID)
	s := ct.SignedCertificateTimestamp{SCTVersion: ct.Version(in.Version), LogID: logid, Timestamp: in.TS, Extensions: ext,
		Signature: ct.DigitallySigned{HashAlgorithm: ct.HashAlgorithm(in.H), SignatureAlgorithm: ct.SignatureAlgorithm(in.A), Signature: sig}}
	n, lerr := s.SerializedLength()
	out, err := ct.SerializeSCTHere(s, mkHere(in.Here))
	ol := "None"
	if lerr == nil {
		ol = vh.Some(vh.NI(n))
	}
	r.emit(in, vh.App("CSerializeSCT", vh.Bytes(logid[:]), vh.NI(in.Version), vh.N(in.TS), in.Ext.coq(), vh.NI(in.H), vh.NI(in.A), in.Sig.coq(),
		coqHere(in.Here), ol, optSpec(out, err == nil)), fmt.Sprintf("sct|%d|%d|%d|%d", in.Version, len(ext), len(sig), in.Here))
	want, ok := refSCT(in.Version, logid, in.TS, ext, in.H, in.A, sig)
	if err == nil {
		if lerr != nil || n != len(out) {
			r.viol("sct-length", fmt.Sprintf("SerializeSCT gives %d bytes, SerializedLength reports %d (err %v)", len(out), n, lerr), in)
			return
		}
		rd := bytes.NewReader(out)
		d, e := ct.DeserializeSCT(rd)
		if e != nil || rd.Len() != 0 || d.SCTVersion != s.SCTVersion || d.LogID != s.LogID || d.Timestamp != s.Timestamp ||
			!bytes.Equal(d.Extensions, ext) || d.Signature.HashAlgorithm != s.Signature.HashAlgorithm ||
			d.Signature.SignatureAlgorithm != s.Signature.SignatureAlgorithm || !bytes.Equal(d.Signature.Signature, sig) {
			r.viol("sct-roundtrip", fmt.Sprintf("SerializeSCT(ext len %d, sig len %d) gives %d bytes with no error, which do not decode to the same SCT (err %v, %d unread)", len(ext), len(sig), len(out), e, rd.Len()), in)
			return
		}
		rd = bytes.NewReader(out)
		x, e := xct.DeserializeSCT(rd)
		if e != nil || rd.Len() != 0 || int(x.SCTVersion) != in.Version || [32]byte(x.LogID) != logid || x.Timestamp != in.TS ||
			!bytes.Equal(x.Extensions, ext) || int(x.Signature.HashAlgorithm) != in.H || int(x.Signature.SignatureAlgorithm) != in.A ||
			!bytes.Equal(x.Signature.Signature, sig) {
			r.viol("sct-roundtrip", fmt.Sprintf("x509/ct DeserializeSCT does not return the SCT that ct.SerializeSCT encoded (err %v)", e), in)
			return
		}
		if !ok || in.Version != 0 || !bytes.Equal(out, want) {
			r.viol("sct-bytes", "SerializeSCT: not the RFC 6962 section 3.2 encoding", in)
		}
	} else if ok && in.Version == 0 && (in.Here < 0 || in.Here >= len(want)) {
		r.viol("sct-rejects-valid", fmt.Sprintf("SerializeSCTHere(ext len %d, sig len %d, here %d): %v", len(ext), len(sig), in.Here, err), in)
	}
}

func (r *runner) dsct(in input) {
	b := in.B.bytes()
	rd := bytes.NewReader(b)
	var v, h, a int
	var logid [32]byte
	var ts uint64
	var ext, sig []byte
	var err error
	if in.Copy == 0 {
		d, e := ct.DeserializeSCT(rd)
		err = e
		if e == nil {
			v, logid, ts, ext, h, a, sig = int(d.SCTVersion), d.LogID, d.Timestamp, d.Extensions, int(d.Signature.HashAlgorithm), int(d.Signature.SignatureAlgorithm), d.Signature.Signature
		}
	} else {
		d, e := xct.DeserializeSCT(rd)
		err = e
		if e == nil {
			v, logid, ts, ext, h, a, sig = int(d.SCTVersion), d.LogID, d.Timestamp, d.Extensions, int(d.Signature.HashAlgorithm), int(d.Signature.SignatureAlgorithm), d.Signature.Signature
		}
	}
	obs := "None"
	if err == nil {
		obs = vh.Some(vh.Pair(vh.NI(v), vh.Bytes(logid[:]), vh.N(ts), spec(ext), vh.Pair(vh.NI(h), vh.NI(a), spec(sig)), vh.NI(rd.Len())))
	}
	nt := ""
	if err == nil || len(b) > 41 {
		nt = fmt.Sprintf("dsct|%d|%d|%v|%d", in.Copy, len(b), err == nil, len(ext))
	}
	r.emit(in, vh.App("CDeserializeSCT", vh.NI(in.Copy), in.B.coq(), obs), nt)
	// reference decoder
	s := cryptobyte.String(b)
	var rv, rh, ra uint8
	var rl []byte
	var rts uint64
	var re, rs cryptobyte.String
	ok := s.ReadUint8(&rv) && rv == 0 && s.ReadBytes(&rl, 32) && s.ReadUint64(&rts) && s.ReadUint16LengthPrefixed(&re) &&
		s.ReadUint8(&rh) && s.ReadUint8(&ra) && s.ReadUint16LengthPrefixed(&rs)
	if ok != (err == nil) || (ok && (v != 0 || !bytes.Equal(rl, logid[:]) || rts != ts || !bytes.Equal(re, ext) || int(rh) != h || int(ra) != a ||
		!bytes.Equal(rs, sig) || len(s) != rd.Len())) {
		r.viol("sct-decode", fmt.Sprintf("DeserializeSCT(%d bytes): err=%v, reference decoder ok=%v", len(b), err, ok), in)
	}
}

// ---------- MerkleTreeLeaf ----------
type tentry struct {
	ts    uint64
	etype int
	x509  []byte
	ikh   [32]byte
	tbs   []byte
	ext   []byte
}

func (e tentry) coq() string {
	return vh.Pair(vh.N(e.ts), vh.NI(e.etype), spec(e.x509), vh.Bytes(e.ikh[:]), spec(e.tbs), spec(e.ext))
}

// reference RFC 6962 section 3.4 encoder; first two bytes are version and
// leaf type (MerkleTreeLeaf) or version and signature type (SCT input)
func refEntry(b0, b1 int, e tentry) ([]byte, bool) {
	var b cryptobyte.Builder
	b.AddUint8(uint8(b0))
	b.AddUint8(uint8(b1))
	b.AddUint64(e.ts)
	b.AddUint16(uint16(e.etype))
	switch e.etype {
	case 0:
		if len(e.x509) >= 1<<24 {
			return nil, false
		}
		b.AddUint24LengthPrefixed(func(c *cryptobyte.Builder) { c.AddBytes(e.x509) })
	case 1:
		if len(e.tbs) >= 1<<24 {
			return nil, false
		}
		b.AddBytes(e.ikh[:])
		b.AddUint24LengthPrefixed(func(c *cryptobyte.Builder) { c.AddBytes(e.tbs) })
	default:
		return nil, false
	}
	if len(e.ext) > 65535 {
		return nil, false
	}
	b.AddUint16LengthPrefixed(func(c *cryptobyte.Builder) { c.AddBytes(e.ext) })
	out, err := b.Bytes()
	return out, err == nil
}

func refLeafDecode(b []byte) (v, lt int, e tentry, rest int, ok bool) {
	s := cryptobyte.String(b)
	var bv, bl uint8
	var et uint16
	if !(s.ReadUint8(&bv) && bv == 0 && s.ReadUint8(&bl) && bl == 0 && s.ReadUint64(&e.ts) && s.ReadUint16(&et)) {
		return
	}
	e.etype = int(et)
	var c, x cryptobyte.String
	switch et {
	case 0:
		if !s.ReadUint24LengthPrefixed(&c) {
			return
		}
		e.x509 = c
	case 1:
		var ikh []byte
		if !s.ReadBytes(&ikh, 32) || !s.ReadUint24LengthPrefixed(&c) {
			return
		}
		copy(e.ikh[:], ikh)
		e.tbs = c
	default:
		return
	}
	if !s.ReadUint16LengthPrefixed(&x) {
		return
	}
	e.ext = x
	return 0, 0, e, len(s), true
}

func sameEntry(a, b tentry) bool {
	return a.ts == b.ts && a.etype == b.etype && bytes.Equal(a.x509, b.x509) && a.ikh == b.ikh && bytes.Equal(a.tbs, b.tbs) && bytes.Equal(a.ext, b.ext)
}

func fromLeaf(m *ct.MerkleTreeLeaf) tentry {
	t := m.TimestampedEntry
	return tentry{ts: t.Timestamp, etype: int(t.EntryType), x509: t.X509Entry, ikh: t.PrecertEntry.IssuerKeyHash, tbs: t.PrecertEntry.TBSCertificate, ext: t.Extensions}
}

func (r *runner) leaf(in input) {
	b := in.B.bytes()
	rd := bytes.NewReader(b)
	m, err := ct.ReadMerkleTreeLeaf(rd)
	obs := "None"
	var got tentry
	if err == nil {
		got = fromLeaf(m)
		obs = vh.Some(vh.Pair(vh.NI(int(m.Version)), vh.NI(int(m.LeafType)), got.coq(), vh.NI(rd.Len())))
	}
	nt := ""
	if err == nil || len(b) > 12 {
		nt = fmt.Sprintf("leaf|%d|%v|%x", len(b), err == nil, b[:min(len(b), 16)])
	}
	r.emit(in, vh.App("CLeaf", in.B.coq(), obs), nt)
	_, _, want, rest, ok := refLeafDecode(b)
	if ok != (err == nil) || (ok && (!sameEntry(want, got) || rest != rd.Len() || m.Version != 0 || m.LeafType != 0)) {
		r.viol("leaf-decode", fmt.Sprintf("ReadMerkleTreeLeaf(%d bytes): err=%v, reference RFC 6962 decoder ok=%v", len(b), err, ok), in)
	}
}

// ---------- certificate chains ----------
func coqList(l []ct.ASN1Cert) string {
	xs := make([]string, len(l))
	for i, c := range l {
		xs[i] = spec(c)
	}
	return vh.List0(xs, "(list (N*bytes))")
}

func (r *runner) clist(in input) {
	b := in.B.bytes()
	l, rem, err := ct.VerifReadASN1CertList(b, in.N, in.N2)
	obs := "None"
	if err == nil {
		obs = vh.Some(vh.Pair(coqList(l), vh.NI(rem)))
	}
	r.emit(in, vh.App("CCertList", in.B.coq(), vh.Nat(in.N), vh.Nat(in.N2), obs), fmt.Sprintf("clist|%x|%d|%d", b, in.N, in.N2))
	// strict reference: outer vector holds a sequence of complete inner vectors
	body, rest, ok := refVar(b, in.N)
	var want [][]byte
	for ok && len(body) > 0 {
		var e []byte
		e, body, ok = refVar(body, in.N2)
		want = append(want, e)
	}
	if ok {
		if err != nil || rem != len(rest) || len(l) != len(want) {
			r.viol("chain-decode", fmt.Sprintf("readASN1CertList(%x): err=%v, %d certs; the input is a well-formed list of %d", b, err, len(l), len(want)), in)
			return
		}
		for i := range want {
			if !bytes.Equal(want[i], l[i]) {
				r.viol("chain-decode", fmt.Sprintf("readASN1CertList(%x): certificate %d differs", b, i), in)
				return
			}
		}
	}
}

// every byte string over the alphabet up to the given length, depth first in
// preorder; the observables are folded exactly as C16.enum_cert_list does
func (r *runner) clistEnum(in input) {
	alpha := in.B.bytes()
	depth := int(in.Value)
	count := 0
	reported := false
	var rec func(pre []byte, d int, h uint64) uint64
	rec = func(pre []byte, d int, h uint64) uint64 {
		l, rem, err := ct.VerifReadASN1CertList(pre, in.N, in.N2)
		count++
		if err != nil {
			h = vh.Mix(h, 0)
		} else {
			h = vh.Mix(vh.Mix(h, 1), uint64(rem))
			for _, c := range l {
				h = vh.Mix(h, uint64(len(c)))
				for _, b := range c {
					h = vh.Mix(h, uint64(b))
				}
			}
			h = vh.Mix(h, 99)
		}
		// oracle on every string: a well-formed list decodes to its items
		if body, rest, ok := refVar(pre, in.N); ok && !reported {
			var want [][]byte
			for ok && len(body) > 0 {
				var e []byte
				e, body, ok = refVar(body, in.N2)
				want = append(want, e)
			}
			if ok {
				bad := err != nil || rem != len(rest) || len(l) != len(want)
				for i := 0; !bad && i < len(want); i++ {
					bad = !bytes.Equal(want[i], l[i])
				}
				if bad {
					reported = true
					one := input{Kind: "clist", B: pack(pre), N: in.N, N2: in.N2, Here: -1}
					r.viol("chain-decode", fmt.Sprintf("readASN1CertList(%x): err=%v, %d certs; the input is a well-formed list of %d", pre, err, len(l), len(want)), one)
				}
			}
		}
		if d == 0 {
			return h
		}
		for _, a := range alpha {
			h = rec(append(append([]byte{}, pre...), a), d-1, h)
		}
		return h
	}
	h := rec(nil, depth, 0)
	r.c.Stat("exhaustive_cert_list_inputs", count)
	r.emit(in, vh.App("CCertListEnum", vh.Bytes(alpha), vh.Nat(depth), vh.Nat(in.N), vh.Nat(in.N2), vh.N(h)),
		fmt.Sprintf("clistenum|%x|%d|%d|%d", alpha, depth, in.N, in.N2))
}

func refChain(certs [][]byte) ([]byte, bool) {
	var b cryptobyte.Builder
	tot := 0
	for _, c := range certs {
		if len(c) >= 1<<24 {
			return nil, false
		}
		tot += 3 + len(c)
	}
	if tot >= 1<<24 {
		return nil, false
	}
	b.AddUint24LengthPrefixed(func(c *cryptobyte.Builder) {
		for _, x := range certs {
			x := x
			c.AddUint24LengthPrefixed(func(d *cryptobyte.Builder) { d.AddBytes(x) })
		}
	})
	out, err := b.Bytes()
	return out, err == nil
}

func refChainDecode(b []byte, precert bool) ([][]byte, bool) {
	s := cryptobyte.String(b)
	var out [][]byte
	if precert {
		var p cryptobyte.String
		if !s.ReadUint24LengthPrefixed(&p) {
			return nil, false
		}
		out = append(out, p)
	}
	var body cryptobyte.String
	if !s.ReadUint24LengthPrefixed(&body) {
		return nil, false
	}
	for !body.Empty() {
		var c cryptobyte.String
		if !body.ReadUint24LengthPrefixed(&c) {
			return nil, false
		}
		out = append(out, c)
	}
	return out, true
}

func (r *runner) chain(in input) {
	b := in.B.bytes()
	var l []ct.ASN1Cert
	var err error
	if in.Precert {
		l, err = ct.UnmarshalPrecertChainArray(b)
	} else {
		l, err = ct.UnmarshalX509ChainArray(b)
	}
	obs := "None"
	if err == nil {
		obs = vh.Some(coqList(l))
	}
	nt := ""
	if err == nil || len(b) > 6 {
		nt = fmt.Sprintf("chain|%v|%d|%x|%v", in.Precert, len(b), b[:min(len(b), 12)], err == nil)
	}
	r.emit(in, vh.App("CChain", vh.Bool(in.Precert), in.B.coq(), obs), nt)
	if want, ok := refChainDecode(b, in.Precert); ok {
		bad := err != nil || len(l) != len(want)
		for i := 0; !bad && i < len(want); i++ {
			bad = !bytes.Equal(want[i], l[i])
		}
		if bad {
			r.viol("chain-decode", fmt.Sprintf("Unmarshal chain (precert=%v, %d bytes): err=%v, %d certs; the input is a well-formed chain of %d", in.Precert, len(b), err, len(l), len(want)), in)
		}
	}
}

// ---------- signature inputs ----------
func (in input) entry() tentry {
	e := tentry{ts: in.TS, etype: in.EType, x509: in.X509.bytes(), tbs: in.TBS.bytes(), ext: in.Ext.bytes()}
	if in.IKH != "" {
		e.ikh = hx32(in.IKH)
	}
	return e
}

func logEntry(leafType int, e tentry, leafTS uint64) ct.LogEntry {
	return ct.LogEntry{Leaf: ct.MerkleTreeLeaf{Version: ct.V1, LeafType: ct.MerkleLeafType(leafType),
		TimestampedEntry: ct.TimestampedEntry{Timestamp: leafTS, EntryType: ct.LogEntryType(e.etype), X509Entry: e.x509,
			PrecertEntry: ct.PreCert{IssuerKeyHash: e.ikh, TBSCertificate: e.tbs}, Extensions: e.ext}}}
}

// RFC 6962 3.2: the input exists iff the fields fit their wire types
func refSCTInput(version, leafType int, e tentry) ([]byte, bool) {
	if version != 0 || leafType != 0 {
		return nil, false
	}
	switch e.etype {
	case 0:
		if len(e.x509) < 1 {
			return nil, false
		}
	case 1:
		if len(e.tbs) < 1 {
			return nil, false
		}
	}
	return refEntry(0, 0, e)
}

func (r *runner) sctin(in input) {
	e := in.entry()
	s := ct.SignedCertificateTimestamp{SCTVersion: ct.Version(in.Version), Timestamp: in.TS}
	// the leaf's own timestamp must not matter: the SCT's is used
	out, err := ct.SerializeSCTSignatureInput(s, logEntry(in.Leaf, e, in.TS^0x5555))
	r.emit(in, vh.App("CSctInput", vh.NI(in.Version), vh.N(in.TS), vh.NI(in.Leaf), e.coq(), optSpec(out, err == nil)),
		fmt.Sprintf("sctin|%d|%d|%d|%d|%d|%d", in.Version, in.Leaf, in.EType, len(e.x509), len(e.tbs), len(e.ext)))
	want, ok := refSCTInput(in.Version, in.Leaf, e)
	if in.Version == 0 && in.Leaf == 0 {
		r.spec(vh.App("SSctInput", vh.N(in.TS), e.coq(), optSpec(want, ok)), in, fmt.Sprintf("ssct|%d|%d|%d|%d", e.etype, len(e.x509), len(e.tbs), len(e.ext)))
	}
	if ok != (err == nil) {
		r.viol("sct-input-domain", fmt.Sprintf("SerializeSCTSignatureInput(version %d, leaf type %d, entry type %d, cert len %d/%d, ext len %d): err=%v, RFC 6962 input exists=%v",
			in.Version, in.Leaf, in.EType, len(e.x509), len(e.tbs), len(e.ext), err, ok), in)
		return
	}
	if !ok {
		return
	}
	if !bytes.Equal(out, want) {
		r.viol("sct-input-rfc6962", fmt.Sprintf("SerializeSCTSignatureInput: differs from the RFC 6962 section 3.2 layout (first difference at byte %d)", firstDiff(out, want)), in)
		return
	}
	// same bytes as the MerkleTreeLeaf of that entry: decodes back to it
	rd := bytes.NewReader(out)
	m, e2 := ct.ReadMerkleTreeLeaf(rd)
	canon := e
	if e.etype == 0 {
		canon.ikh, canon.tbs = [32]byte{}, nil
	} else {
		canon.x509 = nil
	}
	if e2 != nil || rd.Len() != 0 || !sameEntry(fromLeaf(m), canon) {
		r.viol("leaf-roundtrip", fmt.Sprintf("ReadMerkleTreeLeaf does not return the entry the signature input was built from (err %v)", e2), in)
	}
}

func firstDiff(a, b []byte) int {
	for i := 0; i < len(a) && i < len(b); i++ {
		if a[i] != b[i] {
			return i
		}
	}
	return min(len(a), len(b))
}

func refSTHInput(version int, size, ts uint64, root [32]byte) ([]byte, bool) {
	if version != 0 {
		return nil, false
	}
	var b cryptobyte.Builder
	b.AddUint8(0)
	b.AddUint8(1)
	b.AddUint64(ts)
	b.AddUint64(size)
	b.AddBytes(root[:])
	return b.BytesOrPanic(), true
}

func (r *runner) sthin(in input) {
	root := hx32(in.Root)
	out, err := ct.SerializeSTHSignatureInput(ct.SignedTreeHead{Version: ct.Version(in.Version), TreeSize: in.Size, Timestamp: in.TS, SHA256RootHash: root,
		LogID: hx32(in.LogID)})
	r.emit(in, vh.App("CSthInput", vh.NI(in.Version), vh.N(in.Size), vh.N(in.TS), vh.Bytes(root[:]), optSpec(out, err == nil)),
		fmt.Sprintf("sthin|%d|%d|%d", in.Version, in.Size, in.TS))
	want, ok := refSTHInput(in.Version, in.Size, in.TS, root)
	if ok {
		r.spec(vh.App("SSthInput", vh.N(in.TS), vh.N(in.Size), vh.Bytes(root[:]), spec(want)), in, fmt.Sprintf("ssth|%d|%d", in.Size, in.TS))
	}
	if ok != (err == nil) {
		r.viol("sth-input-domain", fmt.Sprintf("SerializeSTHSignatureInput(version %d): err=%v", in.Version, err), in)
	} else if ok && !bytes.Equal(out, want) {
		r.viol("sth-input-rfc6962", fmt.Sprintf("SerializeSTHSignatureInput: differs from the RFC 6962 section 3.5 layout (first difference at byte %d)", firstDiff(out, want)), in)
	}
}

// ---------- verifier ----------
func (r *runner) newv(in input) {
	var pk crypto.PublicKey
	kind := "KOther"
	want := false
	switch in.Key {
	case "rsa-bits":
		n := new(big.Int).Lsh(big.NewInt(1), uint(in.N-1))
		n.Add(n, big.NewInt(12345))
		pk = &zrsa.PublicKey{N: n, E: big.NewInt(65537)}
		kind = vh.App("KRsa", vh.NI(in.N))
		want = in.N >= 2048
	case "stdrsa":
		pk = &keys["rsa"].rsa.PublicKey // crypto/rsa key: not the type the verifier knows
	case "p224":
		pk = &ecdsa.PublicKey{Curve: elliptic.P224(), X: big.NewInt(1), Y: big.NewInt(1)}
		kind = "(KEcdsa false)"
	case "p256":
		pk = keys["p256"].pub
		kind = "(KEcdsa true)"
		want = true
	case "p384":
		pk = &ecdsa.PublicKey{Curve: elliptic.P384(), X: big.NewInt(1), Y: big.NewInt(1)}
		kind = "(KEcdsa false)"
	case "p521":
		pk = &ecdsa.PublicKey{Curve: elliptic.P521(), X: big.NewInt(1), Y: big.NewInt(1)}
		kind = "(KEcdsa false)"
	case "ed25519":
		pk = ed25519.PublicKey(make([]byte, 32))
	case "string":
		pk = "not a key"
	default:
		panic("unknown key " + in.Key)
	}
	_, err := ct.NewSignatureVerifier(pk)
	r.emit(in, vh.App("CNewVerifier", kind, vh.Bool(err == nil)), fmt.Sprintf("newv|%s|%d", in.Key, in.N))
	if (err == nil) != want {
		r.viol("verifier-key-policy", fmt.Sprintf("NewSignatureVerifier(%s %d): err=%v, RFC 6962 allows the key=%v", in.Key, in.N, err, want), in)
	}
}

// verdicts of the primitives (zcrypto rsa / Go ecdsa) and of the upstream reference
func prims(k *tkey, data, sig []byte) (rsaOK, ecOK, refRSA, refEC bool) {
	h := sha256.Sum256(data)
	if k.rsa != nil {
		rsaOK = zrsa.VerifyPKCS1v15(k.pub.(*zrsa.PublicKey), crypto.SHA256, h[:], sig) == nil
		refRSA = stdrsa.VerifyPKCS1v15(&k.rsa.PublicKey, crypto.SHA256, h[:], sig) == nil
	}
	if k.ec != nil {
		ecOK = ecdsa.VerifyASN1(&k.ec.PublicKey, h[:], sig)
		refEC = ecOK && strictECDSASig(sig)
	}
	return
}

// sig is exactly SEQUENCE { INTEGER r, INTEGER s } in DER, nothing else
func strictECDSASig(sig []byte) bool {
	s := cryptobyte.String(sig)
	var seq cryptobyte.String
	var r0, s0 big.Int
	if !s.ReadASN1(&seq, 0x30) || !s.Empty() || !seq.ReadASN1Integer(&r0) || !seq.ReadASN1Integer(&s0) || !seq.Empty() {
		return false
	}
	var b cryptobyte.Builder
	b.AddASN1(0x30, func(c *cryptobyte.Builder) { c.AddASN1BigInt(&r0); c.AddASN1BigInt(&s0) })
	out, err := b.Bytes()
	return err == nil && bytes.Equal(out, sig)
}

func expectVerify(k *tkey, h, a int, refRSA, refEC bool) bool {
	return h == 4 && ((a == 1 && k.rsa != nil && refRSA) || (a == 3 && k.ec != nil && refEC))
}

func (r *runner) checkVerify(in input, what string, k *tkey, got, rsaOK, ecOK, refRSA, refEC bool) {
	want := expectVerify(k, in.H, in.A, refRSA, refEC)
	if got && !want {
		r.viol("verify-accepts-invalid", fmt.Sprintf("%s accepted (key %s, hash alg %d, sig alg %d, sig %d bytes) although the signature does not verify over the RFC 6962 input with SHA-256 and that key", what, k.name, in.H, in.A, len(in.Sig.bytes())), in)
	} else if !got && want {
		r.viol("verify-rejects-valid", fmt.Sprintf("%s rejected a valid signature (key %s, sig alg %d)", what, k.name, in.A), in)
	}
	_ = rsaOK
	_ = ecOK
}

func (r *runner) vfy(in input) {
	k := keys[in.Key]
	data, sig := in.Data.bytes(), in.Sig.bytes()
	err := ct.VerifVerifySignature(verifier(in.Key), data, ct.DigitallySigned{HashAlgorithm: ct.HashAlgorithm(in.H), SignatureAlgorithm: ct.SignatureAlgorithm(in.A), Signature: sig})
	rsaOK, ecOK, refRSA, refEC := prims(k, data, sig)
	r.emit(in, vh.App("CVerify", k.kind, vh.NI(in.H), vh.NI(in.A), vh.Bool(rsaOK), vh.Bool(ecOK), vh.Bool(err == nil)),
		fmt.Sprintf("vfy|%s|%d|%d|%x|%x", in.Key, in.H, in.A, sha256.Sum256(data), sha256.Sum256(sig)))
	r.checkVerify(in, "verifySignature", k, err == nil, rsaOK, ecOK, refRSA, refEC)
}

func (r *runner) vsct(in input) {
	k := keys[in.Key]
	e := in.entry()
	sig := in.Sig.bytes()
	s := ct.SignedCertificateTimestamp{SCTVersion: ct.Version(in.Version), LogID: hx32(in.LogID), Timestamp: in.TS, Extensions: in.Data.bytes(),
		Signature: ct.DigitallySigned{HashAlgorithm: ct.HashAlgorithm(in.H), SignatureAlgorithm: ct.SignatureAlgorithm(in.A), Signature: sig}}
	err := verifier(in.Key).VerifySCTSignature(s, logEntry(in.Leaf, e, in.TS+1))
	data, ok := refSCTInput(in.Version, in.Leaf, e)
	var rsaOK, ecOK, refRSA, refEC bool
	if ok {
		rsaOK, ecOK, refRSA, refEC = prims(k, data, sig)
	}
	r.emit(in, vh.App("CVerifySCT", k.kind, vh.NI(in.Version), vh.N(in.TS), vh.NI(in.Leaf), e.coq(), vh.NI(in.H), vh.NI(in.A), vh.Bool(rsaOK), vh.Bool(ecOK), vh.Bool(err == nil)),
		fmt.Sprintf("vsct|%s|%d|%d|%x|%x", in.Key, in.H, in.A, sha256.Sum256(data), sha256.Sum256(sig)))
	r.checkVerify(in, "VerifySCTSignature", k, err == nil, rsaOK, ecOK, ok && refRSA, ok && refEC)
}

func (r *runner) vsth(in input) {
	k := keys[in.Key]
	sig := in.Sig.bytes()
	root := hx32(in.Root)
	s := ct.SignedTreeHead{Version: ct.Version(in.Version), TreeSize: in.Size, Timestamp: in.TS, SHA256RootHash: root, LogID: hx32(in.LogID),
		TreeHeadSignature: ct.DigitallySigned{HashAlgorithm: ct.HashAlgorithm(in.H), SignatureAlgorithm: ct.SignatureAlgorithm(in.A), Signature: sig}}
	err := verifier(in.Key).VerifySTHSignature(s)
	data, ok := refSTHInput(in.Version, in.Size, in.TS, root)
	var rsaOK, ecOK, refRSA, refEC bool
	if ok {
		rsaOK, ecOK, refRSA, refEC = prims(k, data, sig)
	}
	r.emit(in, vh.App("CVerifySTH", k.kind, vh.NI(in.Version), vh.N(in.Size), vh.N(in.TS), vh.Bytes(root[:]), vh.NI(in.H), vh.NI(in.A), vh.Bool(rsaOK), vh.Bool(ecOK), vh.Bool(err == nil)),
		fmt.Sprintf("vsth|%s|%d|%d|%x|%x", in.Key, in.H, in.A, sha256.Sum256(data), sha256.Sum256(sig)))
	r.checkVerify(in, "VerifySTHSignature", k, err == nil, rsaOK, ecOK, ok && refRSA, ok && refEC)
}

// ---------- stream "spec": the Coq RFC 6962 layouts against the cryptobyte reference encoders ----------
func (r *runner) spec(term string, in input, key string) {
	if in.GoOnly {
		return
	}
	in.Kind = "spec-" + in.Kind
	r.c.Case("spec", term, in, key)
}

func (r *runner) specLeaf(in input) {
	e := in.entry()
	want, ok := refEntry(0, 0, e)
	r.spec(vh.App("SLeaf", e.coq(), optSpec(want, ok)), in, fmt.Sprintf("sleaf|%d|%d|%d|%d", e.etype, len(e.x509), len(e.tbs), len(e.ext)))
}

func (r *runner) specChain(in input, pre []byte, certs [][]byte) {
	enc, ok := refChain(certs)
	cs := make([]string, len(certs))
	for i, c := range certs {
		cs[i] = spec(c)
	}
	if in.Precert {
		if ok {
			enc = append(append(be(uint64(len(pre)), 3), pre...), enc...)
		}
		r.spec(vh.App("SPrecertChain", spec(pre), vh.List0(cs, "(list (N*bytes))"), optSpec(enc, ok)), in, fmt.Sprintf("spchain|%d|%d", len(pre), len(certs)))
		return
	}
	r.spec(vh.App("SChain", vh.List0(cs, "(list (N*bytes))"), optSpec(enc, ok)), in, fmt.Sprintf("schain|%d|%x", len(certs), sha256.Sum256(enc)))
}

func (r *runner) run(in input) {
	if strings.HasPrefix(in.Kind, "spec-") {
		in.Kind = strings.TrimPrefix(in.Kind, "spec-")
		switch in.Kind {
		case "leaf":
			r.specLeaf(in)
		case "sctin", "sthin":
			r.run(in) // emits the spec case again next to the implementation case
		}
		return
	}
	switch in.Kind {
	case "multi":
		for _, it := range in.Items {
			r.run(it)
		}
	case "wu":
		r.wu(in)
	case "wv":
		r.wv(in)
	case "ru":
		r.ru(in)
	case "rv":
		r.rv(in)
	case "mds":
		r.mds(in)
	case "uds":
		r.uds(in)
	case "sct":
		r.sct(in)
	case "dsct":
		r.dsct(in)
	case "leaf":
		r.leaf(in)
	case "clist":
		r.clist(in)
	case "clistenum":
		r.clistEnum(in)
	case "chain":
		r.chain(in)
	case "sctin":
		r.sctin(in)
	case "sthin":
		r.sthin(in)
	case "newv":
		r.newv(in)
	case "vfy":
		r.vfy(in)
	case "vsct":
		r.vsct(in)
	case "vsth":
		r.vsth(in)
	default:
		panic("unknown kind " + in.Kind)
	}
}

// ---------- generators ----------
// a field of n bytes: a few random bytes at both ends, one filler byte between (compact)
func field(c *vh.Ctx, n int) []byte {
	if n <= 24 {
		return c.Bytes(n)
	}
	out := bytes.Repeat([]byte{byte(c.Intn(256))}, n)
	copy(out, c.Bytes(4))
	copy(out[n-3:], c.Bytes(3))
	return out
}

var zero32hex = strings.Repeat("00", 32)

func sign(k *tkey, data []byte) (int, []byte) {
	h := sha256.Sum256(data)
	if k.rsa != nil {
		s, err := stdrsa.SignPKCS1v15(nil, k.rsa, crypto.SHA256, h[:])
		if err != nil {
			panic(err)
		}
		return 1, s
	}
	s, err := k.ec.Sign(nil, h[:], crypto.SHA256) // deterministic (RFC 6979)
	if err != nil {
		panic(err)
	}
	return 3, s
}

// variants of a signature that must not verify (and the genuine one, first)
func sigVariants(c *vh.Ctx, k *tkey, other *tkey, data []byte) [][]byte {
	_, g := sign(k, data)
	_, o := sign(other, data)
	out := [][]byte{g, o, {}, append(append([]byte{}, g...), 0xde, 0xad), append(append([]byte{}, g...), 0)}
	fl := append([]byte{}, g...)
	fl[c.Intn(len(fl))] ^= 1 << uint(c.Intn(8))
	out = append(out, fl, g[:len(g)-1])
	if k.ec != nil {
		// bytes inside the SEQUENCE after s
		inner := append(append([]byte{}, g[2:]...), 0x05, 0x00)
		out = append(out, append([]byte{0x30, byte(len(inner))}, inner...))
		// long-form (non-minimal) length
		out = append(out, append([]byte{0x30, 0x81, g[1]}, g[2:]...))
		// non-minimal INTEGER r: 02 len 00 r...
		rl := int(g[3])
		if g[4] != 0 {
			nm := append([]byte{0x02, byte(rl + 1), 0x00}, g[4:4+rl]...)
			nm = append(nm, g[4+rl:]...)
			out = append(out, append([]byte{0x30, byte(len(nm))}, nm...))
		}
	}
	return out
}

func gen(c *vh.Ctx) {
	r := &runner{c: c, st: "case"}
	th := c.Thorough
	copies := []int{0, 1}

	// --- writeUint: boundary grid, both copies (complete over the grid) ---
	vals := []uint64{0, 1, 255, 256, 65535, 65536, 1<<24 - 1, 1 << 24, 1<<32 - 1, 1 << 32, 1<<56 - 1, 1 << 56, 1 << 63, 1<<64 - 1}
	for i := 0; i < 6; i++ {
		vals = append(vals, c.U64()>>uint(c.Intn(64)))
	}
	for _, cp := range copies {
		for n := 0; n <= 9; n++ {
			for _, v := range vals {
				r.run(input{Kind: "wu", Copy: cp, Value: v, N: n, Here: -1})
			}
		}
	}
	c.Exhaustive("writeUint over {0,1,2^8-1,2^8,2^16-1,2^16,2^24-1,2^24,2^32-1,2^32,2^56-1,2^56,2^63,2^64-1} x numBytes 0..9 x both copies")

	// --- writeVarBytes: length boundaries x prefix widths ---
	lens := []int{0, 1, 2, 254, 255, 256, 257, 65535, 65536, 65537}
	if th {
		lens = append(lens, 70000, 131071)
	}
	for _, cp := range copies {
		for _, n := range []int{0, 1, 2, 3, 4, 8, 9} {
			for _, l := range lens {
				if l > 300 && !th && !((n == 2 && l <= 65536) || (n == 3 && l != 65537)) {
					continue // quick tier: 64 KiB values only where the 16-bit boundary is decided
				}
				r.run(input{Kind: "wv", Copy: cp, B: pack(field(c, l)), N: n, Here: -1})
			}
		}
	}
	// 2^24 boundary on the implementation only (16 MB values)
	for _, l := range []int{1<<24 - 1, 1 << 24} {
		r.run(input{Kind: "wv", Copy: c.Intn(2), B: pack(bytes.Repeat([]byte{7}, l)), N: 3, Here: -1, GoOnly: true})
	}

	// --- readUint / readVarBytes ---
	for _, cp := range copies {
		for n := 0; n <= 9; n++ {
			for _, l := range []int{0, 1, 2, 3, 7, 8, 9, 10} {
				r.run(input{Kind: "ru", Copy: cp, B: pack(c.Bytes(l)), N: n, Here: -1})
			}
		}
		r.run(input{Kind: "ru", Copy: cp, B: pack(bytes.Repeat([]byte{0xff}, 9)), N: 8, Here: -1})
		r.run(input{Kind: "ru", Copy: cp, B: pack(bytes.Repeat([]byte{0xff}, 9)), N: 9, Here: -1})
		for _, n := range []int{0, 1, 2, 3, 4, 8, 9} {
			for _, l := range []int{0, 1, 2, 255, 256, 65535, 65536} {
				if !fitsN(uint64(l), n) || n == 0 || n > 8 {
					r.run(input{Kind: "rv", Copy: cp, B: pack(field(c, min(l, 40))), N: n, Here: -1})
					continue
				}
				all := l < 300 || th
				if !all && n > 3 {
					continue
				}
				enc := append(be(uint64(l), n), field(c, l)...)
				r.run(input{Kind: "rv", Copy: cp, B: pack(enc), N: n, Here: -1})
				if all || n == 2 {
					r.run(input{Kind: "rv", Copy: cp, B: pack(append(append([]byte{}, enc...), c.Bytes(1+c.Intn(3))...)), N: n, Here: -1})
				}
				if all || n == 3 {
					r.run(input{Kind: "rv", Copy: cp, B: pack(enc[:len(enc)-1]), N: n, Here: -1})
				}
				if all {
					r.run(input{Kind: "rv", Copy: cp, B: pack(enc[:c.Intn(len(enc))]), N: n, Here: -1})
				}
			}
		}
		nr := 60
		if th {
			nr = 1500
		}
		for i := 0; i < nr; i++ {
			b := c.Bytes(c.Intn(12))
			if len(b) > 0 && c.Bool() {
				b[0] = byte(c.Intn(4)) // mostly small lengths
			}
			if len(b) > 1 && c.Bool() {
				b[1] = byte(c.Intn(12))
			}
			r.run(input{Kind: "rv", Copy: cp, B: pack(b), N: 1 + c.Intn(3), Here: -1})
		}
	}

	// --- DigitallySigned ---
	sigLens := []int{0, 1, 70, 255, 256, 65535, 65536, 70000}
	for _, cp := range copies {
		for _, l := range sigLens {
			for hi, here := range []int{-1, 4 + l, 3 + l, 9 + l, 0} {
				if l > 300 && !th && hi > 1 {
					continue
				}
				r.run(input{Kind: "mds", Copy: cp, H: c.Pick([]int{0, 4, 4, 6, 255}), A: c.Pick([]int{0, 1, 3, 3, 255}), Sig: pack(field(c, l)), Here: here})
			}
		}
		for _, l := range []int{0, 1, 5, 300, 65535} {
			enc, _ := refDS(c.Intn(256), c.Intn(256), field(c, l))
			r.run(input{Kind: "uds", Copy: cp, B: pack(enc), Here: -1})
			if l < 1000 || th {
				r.run(input{Kind: "uds", Copy: cp, B: pack(append(append([]byte{}, enc...), c.Bytes(1+c.Intn(4))...)), Here: -1})
			}
			r.run(input{Kind: "uds", Copy: cp, B: pack(enc[:len(enc)-1]), Here: -1})
		}
		enc, _ := refDS(4, 3, c.Bytes(9))
		for i := 0; i <= len(enc); i++ {
			r.run(input{Kind: "uds", Copy: cp, B: pack(enc[:i]), Here: -1})
		}
		nr := 40
		if th {
			nr = 1000
		}
		for i := 0; i < nr; i++ {
			b := c.Bytes(c.Intn(14))
			if len(b) > 2 {
				b[2] = 0
			}
			r.run(input{Kind: "uds", Copy: cp, B: pack(b), Here: -1})
		}
	}
	c.Exhaustive("every prefix of one DigitallySigned / SCT / MerkleTreeLeaf (both arms) encoding, both copies where the decoder exists twice")

	// --- SCT ---
	for _, el := range []int{0, 1, 255, 256, 65535, 65536} {
		for _, sl := range []int{0, 1, 72, 65535, 65536} {
			bigc := el > 300 || sl > 300
			if bigc && !th && !((el > 300 && sl == 1) || (el == 1 && sl > 300) || (el == 65535 && sl == 65535)) {
				continue
			}
			for vi, v := range []int{0, c.Pick([]int{0, 0, 1, 255})} {
				if bigc && !th && vi > 0 {
					continue
				}
				here := -1
				tot := 47 + el + sl
				switch c.Intn(5) {
				case 0:
					here = tot
				case 1:
					here = tot - 1
				case 2:
					here = tot + 7
				}
				r.run(input{Kind: "sct", Version: v, LogID: hex.EncodeToString(c.Bytes(32)), TS: c.U64() >> uint(c.Intn(64)), Ext: pack(field(c, el)),
					H: c.Pick([]int{0, 4, 4, 255}), A: c.Pick([]int{1, 3, 255}), Sig: pack(field(c, sl)), Here: here})
			}
		}
	}
	for _, cp := range copies {
		for _, el := range []int{0, 3, 65535} {
			for _, sl := range []int{0, 71, 65535} {
				all := (el < 300 && sl < 300) || th
				if !all && !((el > 300 && sl == 0) || (el == 0 && sl > 300)) {
					continue
				}
				enc, _ := refSCT(0, [32]byte(c.Bytes(32)), c.U64(), field(c, el), 4, 3, field(c, sl))
				r.run(input{Kind: "dsct", Copy: cp, B: pack(enc), Here: -1})
				r.run(input{Kind: "dsct", Copy: cp, B: pack(enc[:len(enc)-1]), Here: -1})
				if all {
					r.run(input{Kind: "dsct", Copy: cp, B: pack(append(append([]byte{}, enc...), c.Bytes(1+c.Intn(4))...)), Here: -1})
					bad := append([]byte{}, enc...)
					bad[0] = byte(1 + c.Intn(255))
					r.run(input{Kind: "dsct", Copy: cp, B: pack(bad), Here: -1})
				}
			}
		}
		enc, _ := refSCT(0, [32]byte(c.Bytes(32)), c.U64(), c.Bytes(3), 4, 3, c.Bytes(8))
		for i := 0; i <= len(enc); i++ {
			r.run(input{Kind: "dsct", Copy: cp, B: pack(enc[:i]), Here: -1})
		}
		nr := 30
		if th {
			nr = 800
		}
		for i := 0; i < nr; i++ {
			m := append([]byte{}, enc...)
			for j := 0; j < 1+c.Intn(2); j++ {
				m[41+c.Intn(len(m)-41)] = byte(c.Intn(256)) // length fields and what follows
			}
			r.run(input{Kind: "dsct", Copy: cp, B: pack(m[:len(m)-c.Intn(3)]), Here: -1})
		}
	}

	// --- MerkleTreeLeaf ---
	certLens := []int{0, 1, 255, 256, 65535, 65536}
	if th {
		certLens = append(certLens, 70000, 200000)
	}
	for _, et := range []int{0, 1} {
		for _, cl := range certLens {
			for _, el := range []int{0, 1, 65535} {
				all := (el < 300 && cl < 300) || th
				if !all && !((cl == 65535 && el == 0) || (cl == 65536 && el == 1) || (cl == 1 && el == 65535)) {
					continue
				}
				e := tentry{ts: c.U64(), etype: et, ext: field(c, el)}
				if et == 0 {
					e.x509 = field(c, cl)
				} else {
					e.ikh = [32]byte(c.Bytes(32))
					e.tbs = field(c, cl)
				}
				enc, _ := refEntry(0, 0, e)
				r.specLeaf(input{Kind: "leaf", EType: et, TS: e.ts, X509: pack(e.x509), IKH: hex.EncodeToString(e.ikh[:]), TBS: pack(e.tbs), Ext: pack(e.ext), Here: -1})
				r.run(input{Kind: "leaf", B: pack(enc), Here: -1})
				if all {
					r.run(input{Kind: "leaf", B: pack(append(append([]byte{}, enc...), c.Bytes(1+c.Intn(3))...)), Here: -1})
				}
				r.run(input{Kind: "leaf", B: pack(enc[:len(enc)-1]), Here: -1})
			}
		}
		e := tentry{ts: c.U64(), etype: et, x509: c.Bytes(5), tbs: c.Bytes(5), ext: c.Bytes(2)}
		enc, _ := refEntry(0, 0, e)
		for i := 0; i <= len(enc); i++ {
			r.run(input{Kind: "leaf", B: pack(enc[:i]), Here: -1})
		}
		for _, hd := range [][3]int{{1, 0, et}, {0, 1, et}, {0, 0, 2}, {0, 0, 256 + et}, {0, 0, 65535}, {255, 255, et}} {
			m := append([]byte{}, enc...)
			m[0], m[1] = byte(hd[0]), byte(hd[1])
			binary.BigEndian.PutUint16(m[10:12], uint16(hd[2]))
			r.run(input{Kind: "leaf", B: pack(m), Here: -1})
		}
		nr := 30
		if th {
			nr = 800
		}
		for i := 0; i < nr; i++ {
			m := append([]byte{}, enc...)
			m[10+c.Intn(len(m)-10)] = byte(c.Intn(4))
			r.run(input{Kind: "leaf", B: pack(m), Here: -1})
		}
	}

	// --- certificate lists: every input over a small alphabet for 1-byte length fields ---
	var rec func(pre []byte, d int, alpha []byte, total, elem int)
	rec = func(pre []byte, d int, alpha []byte, total, elem int) {
		r.run(input{Kind: "clist", B: pack(pre), N: total, N2: elem, Here: -1})
		if d == 0 {
			return
		}
		for _, a := range alpha {
			rec(append(append([]byte{}, pre...), a), d-1, alpha, total, elem)
		}
	}
	// short strings one case each (a disagreement is localised) ...
	rec(nil, 4, []byte{0, 1, 2}, 1, 1)
	rec(nil, 5, []byte{0, 1}, 1, 2)
	rec(nil, 4, []byte{0, 1, 3}, 2, 1)
	// ... and deeper, folded into one checksum per domain
	d1, d2 := 8, 12
	if th {
		d1, d2 = 10, 15
	}
	r.clistEnum(input{Kind: "clistenum", B: pack([]byte{0, 1, 2}), N: 1, N2: 1, Value: uint64(d1), Here: -1})
	r.clistEnum(input{Kind: "clistenum", B: pack([]byte{0, 1}), N: 1, N2: 2, Value: uint64(d2), Here: -1})
	r.clistEnum(input{Kind: "clistenum", B: pack([]byte{0, 1, 3}), N: 2, N2: 1, Value: uint64(d1 - 1), Here: -1})
	r.clistEnum(input{Kind: "clistenum", B: pack([]byte{0, 2, 5}), N: 1, N2: 3, Value: uint64(d1 - 1), Here: -1})
	c.Exhaustive(fmt.Sprintf("readASN1CertList on every byte string over {0,1,2} up to length %d (1-byte list and item lengths), over {0,1} up to length %d (2-byte item lengths), over {0,1,3} up to length %d (2-byte list length), over {0,2,5} up to length %d (3-byte item lengths)", d1, d2, d1-1, d1-1))
	for _, cfg := range [][2]int{{0, 3}, {3, 0}, {9, 3}, {3, 9}} {
		r.run(input{Kind: "clist", B: pack([]byte{0, 0, 4, 0, 0, 1, 9}), N: cfg[0], N2: cfg[1], Here: -1})
	}
	for _, pre := range []bool{false, true} {
		chainLens := [][]int{{}, {0}, {1}, {5, 7}, {255, 256, 1}, {65536}, {0, 0, 3}, {2, 65535, 4}, {300, 0, 300, 1}}
		for _, cl := range chainLens {
			var certs [][]byte
			for _, l := range cl {
				certs = append(certs, field(c, l))
			}
			enc, _ := refChain(certs)
			var p []byte
			if pre {
				p = field(c, c.Pick([]int{0, 1, 30, 256}))
				enc = append(append(be(uint64(len(p)), 3), p...), enc...)
			}
			r.specChain(input{Kind: "chain", Precert: pre, B: pack(enc), Here: -1}, p, certs)
			r.run(input{Kind: "chain", Precert: pre, B: pack(enc), Here: -1})
			if len(enc) > 60000 && !th {
				if !pre {
					nb := append(append([]byte{}, enc[3:]...), c.Bytes(1+c.Intn(2))...)
					r.run(input{Kind: "chain", B: pack(append(be(uint64(len(nb)), 3), nb...)), Here: -1})
				}
				continue
			}
			r.run(input{Kind: "chain", Precert: pre, B: pack(append(append([]byte{}, enc...), c.Bytes(1+c.Intn(3))...)), Here: -1})
			if len(enc) > 0 {
				r.run(input{Kind: "chain", Precert: pre, B: pack(enc[:len(enc)-1]), Here: -1})
				r.run(input{Kind: "chain", Precert: pre, B: pack(enc[:c.Intn(len(enc))]), Here: -1})
			}
			// 1..2 stray bytes inside the list (the element loop ends silently on them)
			if !pre {
				body := enc[3:]
				for k := 1; k <= 3; k++ {
					nb := append(append([]byte{}, body...), c.Bytes(k)...)
					r.run(input{Kind: "chain", B: pack(append(be(uint64(len(nb)), 3), nb...)), Here: -1})
				}
			}
		}
	}

	// --- SCT signature input ---
	for _, et := range []int{0, 1, 2, 65535} {
		for _, cl := range certLens {
			for _, el := range []int{0, 1, 65535, 65536} {
				if (cl > 300 || el > 300) && !th && !(et <= 1 && ((cl == 65535 && el == 0) || (cl == 65536 && el == 1) || (cl == 1 && el > 300))) {
					continue
				}
				in := input{Kind: "sctin", Version: 0, Leaf: 0, EType: et, TS: c.U64() >> uint(c.Intn(64)), Ext: pack(field(c, el)), Here: -1,
					IKH: hex.EncodeToString(c.Bytes(32))}
				if et == 1 {
					in.TBS = pack(field(c, cl))
					in.X509 = pack(c.Bytes(c.Intn(3)))
				} else {
					in.X509 = pack(field(c, cl))
					in.TBS = pack(c.Bytes(c.Intn(3)))
				}
				r.run(in)
				if cl == 1 && el <= 1 {
					for _, vl := range [][2]int{{1, 0}, {0, 1}, {255, 0}, {0, 255}} {
						in.Version, in.Leaf = vl[0], vl[1]
						r.run(in)
					}
				}
			}
		}
	}
	for _, l := range []int{1<<24 - 1, 1 << 24} {
		for _, et := range []int{0, 1} {
			in := input{Kind: "sctin", EType: et, TS: c.U64(), Here: -1, GoOnly: true, Ext: pack(c.Bytes(3))}
			if et == 0 {
				in.X509 = pack(bytes.Repeat([]byte{9}, l))
			} else {
				in.TBS = pack(bytes.Repeat([]byte{9}, l))
				in.IKH = hex.EncodeToString(c.Bytes(32))
			}
			r.run(in)
		}
	}

	// --- STH signature input ---
	for _, v := range []int{0, 0, 0, 1, 7, 255} {
		for _, sz := range []uint64{0, 1, 1<<63 - 1, 1 << 63, 1<<64 - 1, c.U64()} {
			r.run(input{Kind: "sthin", Version: v, Size: sz, TS: c.U64() >> uint(c.Intn(64)), Root: hex.EncodeToString(c.Bytes(32)), LogID: hex.EncodeToString(c.Bytes(32)), Here: -1})
		}
	}

	// --- verifier: key policy ---
	for _, b := range []int{512, 1024, 2047, 2048, 2049, 3072, 4096} {
		r.run(input{Kind: "newv", Key: "rsa-bits", N: b, Here: -1})
	}
	for _, k := range []string{"stdrsa", "p224", "p256", "p384", "p521", "ed25519", "string"} {
		r.run(input{Kind: "newv", Key: k, Here: -1})
	}

	// --- verifier: decisions under mutation of every input ---
	pairs := [][2]string{{"p256", "p256b"}, {"rsa", "rsab"}, {"p256b", "p256"}, {"rsab", "rsa"}}
	rounds := 1
	if th {
		rounds = 12
	}
	for round := 0; round < rounds; round++ {
		for _, pr := range pairs {
			k, other := keys[pr[0]], keys[pr[1]]
			data := c.Bytes(1 + c.Intn(80))
			alg, _ := sign(k, data)
			for vi, sg := range sigVariants(c, k, other, data) {
				algs := []int{alg}
				hashes := []int{4}
				if vi == 0 {
					algs = []int{0, 1, 2, 3, 4, 255}
					hashes = []int{0, 1, 2, 3, 4, 5, 6, 255}
				}
				for _, a := range algs {
					for _, h := range hashes {
						r.run(input{Kind: "vfy", Key: k.name, Data: pack(data), H: h, A: a, Sig: pack(sg), Here: -1})
					}
				}
				// the genuine signature checked with every other key
				if vi == 0 {
					for name := range keys {
						if name != k.name {
							r.run(input{Kind: "vfy", Key: name, Data: pack(data), H: 4, A: alg, Sig: pack(sg), Here: -1})
							r.run(input{Kind: "vfy", Key: name, Data: pack(data), H: 4, A: 4 - alg, Sig: pack(sg), Here: -1})
						}
					}
					md := append([]byte{}, data...)
					md[c.Intn(len(md))] ^= 1 << uint(c.Intn(8))
					r.run(input{Kind: "vfy", Key: k.name, Data: pack(md), H: 4, A: alg, Sig: pack(sg), Here: -1})
					r.run(input{Kind: "vfy", Key: k.name, Data: pack(append(append([]byte{}, data...), 0)), H: 4, A: alg, Sig: pack(sg), Here: -1})
				}
			}

			// SCT: sign the reference input, then change one field at a time
			for _, et := range []int{0, 1} {
				base := input{Kind: "vsct", Key: k.name, Version: 0, Leaf: 0, EType: et, TS: c.U64(), LogID: hex.EncodeToString(c.Bytes(32)), H: 4, Here: -1,
					Ext: pack(c.Bytes(c.Intn(4))), IKH: hex.EncodeToString(c.Bytes(32)), X509: pack(c.Bytes(1 + c.Intn(40))), TBS: pack(c.Bytes(1 + c.Intn(40)))}
				ref, ok := refSCTInput(0, 0, base.entry())
				if !ok {
					panic("reference input")
				}
				a, sg := sign(k, ref)
				base.A, base.Sig = a, pack(sg)
				r.run(base)
				mut := func(f func(in *input)) {
					in := base
					f(&in)
					r.run(in)
				}
				mut(func(in *input) { in.TS ^= 1 << uint(c.Intn(64)) })
				mut(func(in *input) { in.EType = 1 - et })
				mut(func(in *input) { in.EType = 2 })
				mut(func(in *input) { in.Version = 1 })
				mut(func(in *input) { in.Leaf = 1 })
				mut(func(in *input) { in.Ext = pack(append(in.Ext.bytes(), 0)) })
				mut(func(in *input) { b := in.X509.bytes(); b[c.Intn(len(b))] ^= 0x40; in.X509 = pack(b) })
				mut(func(in *input) { b := in.TBS.bytes(); b[c.Intn(len(b))] ^= 0x40; in.TBS = pack(b) })
				mut(func(in *input) { b := vh.UnHex(in.IKH); b[c.Intn(32)] ^= 2; in.IKH = hex.EncodeToString(b) })
				mut(func(in *input) { in.X509 = pack(append(in.X509.bytes(), 0)) })
				mut(func(in *input) { in.TBS = pack(in.TBS.bytes()[:len(in.TBS.bytes())-1]) })
				mut(func(in *input) { in.H = c.Pick([]int{0, 2, 5, 6}) })
				mut(func(in *input) { in.A = 4 - in.A })
				mut(func(in *input) { in.A = 2 })
				mut(func(in *input) { in.Key = other.name })
				mut(func(in *input) { in.Sig = pack(append(in.Sig.bytes(), 0xde, 0xad)) })
				mut(func(in *input) { b := in.Sig.bytes(); b[c.Intn(len(b))] ^= 1 << uint(c.Intn(8)); in.Sig = pack(b) })
				// fields outside the signed input: must not matter
				mut(func(in *input) { in.LogID = hex.EncodeToString(c.Bytes(32)) })
				mut(func(in *input) { in.Data = pack(c.Bytes(5)) }) // SCT extensions field of the SCT struct itself
			}

			// STH
			base := input{Kind: "vsth", Key: k.name, Version: 0, Size: c.U64() >> uint(c.Intn(64)), TS: c.U64(), Root: hex.EncodeToString(c.Bytes(32)),
				LogID: hex.EncodeToString(c.Bytes(32)), H: 4, Here: -1}
			ref, _ := refSTHInput(0, base.Size, base.TS, hx32(base.Root))
			a, sg := sign(k, ref)
			base.A, base.Sig = a, pack(sg)
			r.run(base)
			mut := func(f func(in *input)) {
				in := base
				f(&in)
				r.run(in)
			}
			mut(func(in *input) { in.TS ^= 1 << uint(c.Intn(64)) })
			mut(func(in *input) { in.Size ^= 1 << uint(c.Intn(64)) })
			mut(func(in *input) { in.Size, in.TS = in.TS, in.Size })
			mut(func(in *input) { b := vh.UnHex(in.Root); b[c.Intn(32)] ^= 0x10; in.Root = hex.EncodeToString(b) })
			mut(func(in *input) { in.Version = 1 })
			mut(func(in *input) { in.H = c.Pick([]int{0, 2, 5, 6}) })
			mut(func(in *input) { in.A = 4 - in.A })
			mut(func(in *input) { in.Key = other.name })
			mut(func(in *input) { in.Sig = pack(append(in.Sig.bytes(), 0xde, 0xad)) })
			mut(func(in *input) { b := in.Sig.bytes(); b[len(b)-1-c.Intn(8)] ^= 1 << uint(c.Intn(8)); in.Sig = pack(b) })
			mut(func(in *input) { in.LogID = hex.EncodeToString(c.Bytes(32)) })
			// an SCT signature presented as an STH signature and vice versa (domain separation)
			if sref, ok := refSCTInput(0, 0, tentry{ts: base.TS, etype: 0, x509: c.Bytes(39)}); ok {
				_, ssg := sign(k, sref)
				mut(func(in *input) { in.Sig = pack(ssg) })
			}
		}
	}
}

func replay(c *vh.Ctx, raw json.RawMessage) {
	var in input
	if err := json.Unmarshal(raw, &in); err != nil {
		panic(err)
	}
	(&runner{c: c, st: "case"}).run(in)
}

func main() { vh.Main("C16", gen, replay) }
