module verifharness

go 1.25.0

require github.com/zmap/zcrypto v0.0.0

replace github.com/zmap/zcrypto => /repo
