// C13 harness: drives ocsp.CreateResponse / ParseResponse / ParseResponseForCert /
// CreateRequest / ParseRequest with generated templates x issuer key types and with
// responses assembled here from mirror structs (marshalled by the upstream encoding/asn1),
// prints compact cases for the Coq model (coq/model/C13.v) and evaluates the property directly:
// round trip of the listed fields, acceptance only under the issuer (directly or through an
// embedded certificate the issuer signed), first matching serial, and: every single-byte and
// sampled multi-byte mutation of a signed response is rejected or parses to the identical Response.
package main

import (
	"crypto"
	"crypto/ecdsa"
	"crypto/elliptic"
	"crypto/sha1"
	"crypto/sha256"
	"crypto/sha512"
	stdasn1 "encoding/asn1"
	"encoding/json"
	"fmt"
	"math/big"
	"reflect"
	"sort"
	"strings"
	"time"

	"github.com/zmap/zcrypto/encoding/asn1"
	"github.com/zmap/zcrypto/rsa"
	"github.com/zmap/zcrypto/x509"
	"github.com/zmap/zcrypto/x509/pkix"
	"github.com/zmap/zcrypto/x509/revocation/crl"
	"github.com/zmap/zcrypto/x509/revocation/ocsp"
	"verifharness/vh"
)

// ---------------------------------------------------------------- mirror structs (upstream asn1)
type mAlgID struct {
	Algorithm  stdasn1.ObjectIdentifier
	Parameters stdasn1.RawValue `asn1:"optional"`
}
type mCertID struct {
	HashAlgorithm mAlgID
	NameHash      []byte
	IssuerKeyHash []byte
	SerialNumber  *big.Int
}
type mExt struct {
	Id       stdasn1.ObjectIdentifier
	Critical bool `asn1:"optional"`
	Value    []byte
}
type mRevoked struct {
	RevocationTime time.Time          `asn1:"generalized"`
	Reason         stdasn1.Enumerated `asn1:"explicit,tag:0,optional"`
}
type mSingle struct {
	CertID           mCertID
	Good             stdasn1.Flag `asn1:"tag:0,optional"`
	Revoked          mRevoked     `asn1:"tag:1,optional"`
	Unknown          stdasn1.Flag `asn1:"tag:2,optional"`
	ThisUpdate       time.Time    `asn1:"generalized"`
	NextUpdate       time.Time    `asn1:"generalized,explicit,tag:0,optional"`
	SingleExtensions []mExt       `asn1:"explicit,tag:1,optional"`
}
type mTBS struct {
	Raw            stdasn1.RawContent
	Version        int `asn1:"optional,default:0,explicit,tag:0"`
	RawResponderID stdasn1.RawValue
	ProducedAt     time.Time `asn1:"generalized"`
	Responses      []mSingle
	Extensions     []mExt `asn1:"explicit,tag:1,optional"`
}
type mBasic struct {
	TBSResponseData    mTBS
	SignatureAlgorithm mAlgID
	Signature          stdasn1.BitString
	Certificates       []stdasn1.RawValue `asn1:"explicit,tag:0,optional"`
}
type mRespBytes struct {
	ResponseType stdasn1.ObjectIdentifier
	Response     []byte
}
type mOuter struct {
	Status   stdasn1.Enumerated
	Response mRespBytes `asn1:"explicit,tag:0,optional"`
}
type mRequest struct{ Cert mCertID }
type mTBSRequest struct {
	Version       int              `asn1:"explicit,tag:0,default:0,optional"`
	RequestorName stdasn1.RawValue `asn1:"explicit,tag:1,optional"`
	RequestList   []mRequest
}
type mOCSPRequest struct{ TBSRequest mTBSRequest }

var oidBasic = stdasn1.ObjectIdentifier{1, 3, 6, 1, 5, 5, 7, 48, 1, 1}

var hashOID = map[crypto.Hash]stdasn1.ObjectIdentifier{
	crypto.SHA1:   {1, 3, 14, 3, 2, 26},
	crypto.SHA256: {2, 16, 840, 1, 101, 3, 4, 2, 1},
	crypto.SHA384: {2, 16, 840, 1, 101, 3, 4, 2, 2},
	crypto.SHA512: {2, 16, 840, 1, 101, 3, 4, 2, 3},
}

func mustMarshal(v interface{}) []byte {
	b, err := stdasn1.Marshal(v)
	if err != nil {
		panic(err)
	}
	return b
}

// ---------------------------------------------------------------- keys and certificates
type party struct {
	name string
	kind int // 1 RSA, 2 P-224, 3 P-256, 4 P-384, 5 P-521
	priv crypto.Signer
	cert *x509.Certificate
}

var (
	issuers   []*party         // one per key kind
	other     *party           // an unrelated CA
	delegates map[string]*party // responder certificates: "<issuer kind>/<delegate kind>"
)

func newKey(c *vh.Ctx, kind int) crypto.Signer {
	switch kind {
	case 1:
		k, err := rsa.GenerateKey(c, 1024)
		if err != nil {
			panic(err)
		}
		return k
	default:
		curve := map[int]elliptic.Curve{2: elliptic.P224(), 3: elliptic.P256(), 4: elliptic.P384(), 5: elliptic.P521()}[kind]
		k, err := ecdsa.GenerateKey(curve, c)
		if err != nil {
			panic(err)
		}
		return k
	}
}

func mkCert(c *vh.Ctx, cn string, serial int64, isCA bool, pub interface{}, parent *party, selfKey crypto.Signer) *x509.Certificate {
	tpl := &x509.Certificate{
		SerialNumber: big.NewInt(serial), Subject: pkix.Name{CommonName: cn},
		NotBefore: time.Unix(1500000000, 0), NotAfter: time.Unix(2500000000, 0),
		IsCA: isCA, BasicConstraintsValid: isCA, KeyUsage: x509.KeyUsageDigitalSignature | x509.KeyUsageCertSign,
	}
	parentCert, signer := tpl, selfKey
	if parent != nil {
		parentCert, signer = parent.cert, parent.priv
	}
	der, err := x509.CreateCertificate(c, tpl, parentCert, pub, signer)
	if err != nil {
		panic(fmt.Sprintf("CreateCertificate %s: %v", cn, err))
	}
	cert, err := x509.ParseCertificate(der)
	if err != nil {
		panic(err)
	}
	return cert
}

func setupParties(c *vh.Ctx) {
	issuers = make([]*party, 6)
	for kind := 1; kind <= 5; kind++ {
		k := newKey(c, kind)
		p := &party{name: fmt.Sprintf("ca%d", kind), kind: kind, priv: k}
		p.cert = mkCert(c, p.name, int64(100+kind), true, k.Public(), nil, k)
		issuers[kind] = p
	}
	ok := newKey(c, 3)
	other = &party{name: "other", kind: 3, priv: ok}
	other.cert = mkCert(c, "other", 99, true, ok.Public(), nil, ok)
	delegates = map[string]*party{}
	for _, pair := range [][2]int{{1, 3}, {3, 1}, {3, 3}, {4, 3}} {
		k := newKey(c, pair[1])
		d := &party{name: fmt.Sprintf("r%d%d", pair[0], pair[1]), kind: pair[1], priv: k}
		d.cert = mkCert(c, d.name, int64(200+10*pair[0]+pair[1]), false, k.Public(), issuers[pair[0]], nil)
		delegates[fmt.Sprintf("%d/%d", pair[0], pair[1])] = d
	}
	// a certificate for the same delegate key that the issuer did NOT sign
	k := delegates["3/3"].priv
	rogue := &party{name: "rogue", kind: 3, priv: k}
	rogue.cert = mkCert(c, "r33", 233, false, k.Public(), other, nil)
	delegates["rogue"] = rogue
}

// ---------------------------------------------------------------- checksums (C13.mix...)
const modP = 1000000007

var bigP = big.NewInt(modP)

func mixZ(h uint64, z *big.Int) uint64 {
	switch z.Sign() {
	case 0:
		return vh.Mix(h, 0)
	case 1:
		return vh.Mix(vh.Mix(h, 1), new(big.Int).Mod(z, bigP).Uint64())
	}
	return vh.Mix(vh.Mix(h, 2), new(big.Int).Mod(new(big.Int).Abs(z), bigP).Uint64())
}
func mixBytes(h uint64, b []byte) uint64 {
	h = vh.Mix(h, uint64(len(b)))
	for _, x := range b {
		h = vh.Mix(h, uint64(x))
	}
	return h
}
func mixBool(h uint64, b bool) uint64 {
	if b {
		return vh.Mix(h, 1)
	}
	return vh.Mix(h, 0)
}
func hashBytes(b []byte) uint64 { return mixBytes(0, b) }

type civil struct{ Y, Mo, D, H, Mi, S int }

func civilOf(t time.Time) civil {
	u := t.UTC()
	return civil{u.Year(), int(u.Month()), u.Day(), u.Hour(), u.Minute(), u.Second()}
}
func (c civil) coq() string {
	return vh.App("Build_civil", vh.NI(c.Y), vh.NI(c.Mo), vh.NI(c.D), vh.NI(c.H), vh.NI(c.Mi), vh.NI(c.S))
}
func mixCivil(h uint64, c civil) uint64 {
	for _, v := range []int{c.Y, c.Mo, c.D, c.H, c.Mi, c.S} {
		h = vh.Mix(h, uint64(v))
	}
	return h
}

func oidContent(o []int) []byte {
	b := mustMarshal(stdasn1.ObjectIdentifier(o))
	if b[1] >= 0x80 {
		panic("long oid")
	}
	return b[2:]
}

// outcome code of a ParseResponse result, as C13.outcome_code
func outcomeCode(r *ocsp.Response, err error) uint64 {
	if err != nil {
		if re, ok := err.(ocsp.ResponseError); ok {
			if re.Status < 0 {
				return 1
			}
			return 1 + uint64(re.Status)
		}
		return 0
	}
	h := mixBool(mixZ(vh.Mix(0, uint64(r.Status)), r.SerialNumber), r.IsRevoked)
	h = mixCivil(mixCivil(mixCivil(mixCivil(h, civilOf(r.ProducedAt)), civilOf(r.ThisUpdate)), civilOf(r.NextUpdate)), civilOf(r.RevokedAt))
	h = vh.Mix(vh.Mix(mixZ(h, big.NewInt(int64(r.RevocationReason))), uint64(r.SignatureAlgorithm)), uint64(r.IssuerHash))
	h = mixBytes(mixBytes(h, r.RawResponderName), r.ResponderKeyHash)
	h = vh.Mix(h, uint64(len(r.Extensions)))
	for _, e := range r.Extensions {
		h = mixBytes(mixBool(mixBytes(h, oidContent([]int(e.Id))), e.Critical), e.Value)
	}
	h = mixBytes(mixBytes(h, r.TBSResponseData), r.Signature)
	if r.Certificate == nil {
		h = vh.Mix(h, 0)
	} else {
		h = mixBytes(vh.Mix(h, 1), r.Certificate.Raw)
	}
	return 1000 + h
}

// ---------------------------------------------------------------- signature / certificate tables
type sigEntry struct {
	key, alg int
	m, s     uint64
	ok       bool
}

func coqSigTable(t []sigEntry) string {
	xs := make([]string, len(t))
	for i, e := range t {
		xs[i] = vh.Pair(vh.NI(e.key), vh.NI(e.alg), vh.N(e.m), vh.N(e.s), vh.Bool(e.ok))
	}
	return vh.List0(xs, "(N * N * N * N * bool)")
}

// what is inside a response, read with the mirror structs (independent of package ocsp)
type anatomy struct {
	tbs, sig  []byte
	alg       x509.SignatureAlgorithm
	certs     [][]byte
	producedAt time.Time
	basic     *mBasic
}

var sigAlgByOID = map[string]x509.SignatureAlgorithm{}

func dissect(der []byte) *anatomy {
	var o mOuter
	if rest, err := stdasn1.Unmarshal(der, &o); err != nil || len(rest) > 0 || len(o.Response.Response) == 0 {
		return nil
	}
	var b mBasic
	if rest, err := stdasn1.Unmarshal(o.Response.Response, &b); err != nil || len(rest) > 0 {
		return nil
	}
	a := &anatomy{tbs: b.TBSResponseData.Raw, sig: b.Signature.RightAlign(), producedAt: b.TBSResponseData.ProducedAt, basic: &b}
	a.alg = sigAlgByOID[b.SignatureAlgorithm.Algorithm.String()]
	for _, c := range b.Certificates {
		a.certs = append(a.certs, c.FullBytes)
	}
	return a
}

// keys: 1 = the issuer handed to ParseResponse, 2 = the unrelated CA, 3 = key of the first embedded certificate
func tables(a *anatomy, issuer *x509.Certificate) (string, string) {
	if a == nil {
		return coqSigTable(nil), "(@nil (N * N * N * N * N))"
	}
	var st []sigEntry
	m, s := hashBytes(a.tbs), hashBytes(a.sig)
	st = append(st, sigEntry{1, int(a.alg), m, s, issuer.CheckSignature(a.alg, a.tbs, a.sig) == nil})
	st = append(st, sigEntry{2, int(a.alg), m, s, other.cert.CheckSignature(a.alg, a.tbs, a.sig) == nil})
	ct := "(@nil (N * N * N * N * N))"
	if len(a.certs) > 0 {
		if ec, err := x509.ParseCertificate(a.certs[0]); err == nil {
			st = append(st, sigEntry{3, int(a.alg), m, s, ec.CheckSignature(a.alg, a.tbs, a.sig) == nil})
			tb, sg := hashBytes(ec.RawTBSCertificate), hashBytes(ec.Signature)
			// the model hands one-element placeholders [tb], [sg] to its signature oracle
			pm, ps := vh.Mix(vh.Mix(0, 1), tb), vh.Mix(vh.Mix(0, 1), sg)
			st = append(st, sigEntry{1, int(ec.SignatureAlgorithm), pm, ps, issuer.CheckSignature(ec.SignatureAlgorithm, ec.RawTBSCertificate, ec.Signature) == nil})
			st = append(st, sigEntry{2, int(ec.SignatureAlgorithm), pm, ps, other.cert.CheckSignature(ec.SignatureAlgorithm, ec.RawTBSCertificate, ec.Signature) == nil})
			ct = vh.List([]string{vh.Pair(vh.N(hashBytes(a.certs[0])), vh.NI(3), vh.NI(int(ec.SignatureAlgorithm)), vh.N(tb), vh.N(sg))})
		}
	}
	return coqSigTable(st), ct
}

// ---------------------------------------------------------------- templates (stream rcase)
type extIn struct {
	OID  []int  `json:"oid"`
	Crit bool   `json:"crit"`
	Val  string `json:"val"`
}
type tmplIn struct {
	Kind     string   `json:"kind"` // "create"
	Issuer   int      `json:"issuer"`   // key kind of the CA
	Delegate string   `json:"delegate"` // "" = the CA signs; else key of delegates
	Embed    bool     `json:"embed"`    // put the responder certificate into the response
	Status   int      `json:"status"`
	Serial   string   `json:"serial"`
	This     [2]int64 `json:"this"` // unix seconds, nanoseconds
	Next     [2]int64 `json:"next"` // {0,0} with NoNext
	NoNext   bool     `json:"no_next"`
	Revoked  [2]int64 `json:"revoked_at"`
	ZeroRev  bool     `json:"zero_revoked_at"`
	Reason   int      `json:"reason"`
	Hash     int      `json:"hash"`
	SigAlg   int      `json:"sigalg"`
	Exts     []extIn  `json:"exts"`
	Zone     int      `json:"zone"` // seconds east of UTC given to the template times
}

func (t tmplIn) times() (this, next, rev time.Time) {
	loc := time.UTC
	if t.Zone != 0 {
		loc = time.FixedZone("z", t.Zone)
	}
	this = time.Unix(t.This[0], t.This[1]).In(loc)
	if !t.NoNext {
		next = time.Unix(t.Next[0], t.Next[1]).In(loc)
	}
	if !t.ZeroRev {
		rev = time.Unix(t.Revoked[0], t.Revoked[1]).In(loc)
	}
	return
}

func (t tmplIn) responder() (*party, *party) {
	ca := issuers[t.Issuer]
	if t.Delegate == "" {
		return ca, ca
	}
	return ca, delegates[t.Delegate]
}

func hashOf(h crypto.Hash, b []byte) []byte {
	switch h {
	case crypto.SHA1:
		s := sha1.Sum(b)
		return s[:]
	case crypto.SHA256:
		s := sha256.Sum256(b)
		return s[:]
	case crypto.SHA384:
		s := sha512.Sum384(b)
		return s[:]
	case crypto.SHA512:
		s := sha512.Sum512(b)
		return s[:]
	}
	return nil
}

func issuerHashes(h crypto.Hash, issuer *x509.Certificate) (nameHash, keyHash []byte) {
	var spki struct {
		Algorithm mAlgID
		PublicKey stdasn1.BitString
	}
	if _, err := stdasn1.Unmarshal(issuer.RawSubjectPublicKeyInfo, &spki); err != nil {
		panic(err)
	}
	return hashOf(h, issuer.RawSubject), hashOf(h, spki.PublicKey.RightAlign())
}

func coqExts(es []extIn) string {
	xs := make([]string, len(es))
	for i, e := range es {
		xs[i] = vh.App("Build_wext", vh.Bytes(oidContent(e.OID)), vh.Bool(e.Crit), vh.Bytes(vh.UnHex(e.Val)))
	}
	return vh.List0(xs, "wext")
}

func runCreate(c *vh.Ctx, t tmplIn) {
	ca, resp := t.responder()
	this, next, rev := t.times()
	serial, _ := new(big.Int).SetString(t.Serial, 10)
	tpl := ocsp.Response{Status: t.Status, SerialNumber: serial, ThisUpdate: this, NextUpdate: next, RevokedAt: rev,
		RevocationReason: crl.RevocationReasonCode(t.Reason), IssuerHash: crypto.Hash(t.Hash), SignatureAlgorithm: x509.SignatureAlgorithm(t.SigAlg)}
	for _, e := range t.Exts {
		tpl.ExtraExtensions = append(tpl.ExtraExtensions, pkix.Extension{Id: asn1.ObjectIdentifier(e.OID), Critical: e.Crit, Value: vh.UnHex(e.Val)})
	}
	var certDER []byte
	if t.Embed {
		tpl.Certificate = resp.cert
		certDER = resp.cert.Raw
	}
	der, err := ocsp.CreateResponse(ca.cert, resp.cert, tpl, resp.priv)
	c.Stat("create", 1)
	effHash := crypto.Hash(t.Hash)
	if effHash == 0 {
		effHash = crypto.SHA1
	}
	nameHash, keyHash := issuerHashes(effHash, ca.cert)
	var derHash uint64
	var a *anatomy
	produced := civil{1, 1, 1, 0, 0, 0}
	var sig []byte
	if err == nil {
		derHash = hashBytes(der)
		if derHash == 0 {
			derHash = 1
		}
		a = dissect(der)
		if a == nil {
			c.Violation("create-unparseable", "CreateResponse output does not parse with the upstream asn1 mirror structs", "rcase", t)
			return
		}
		produced, sig = civilOf(a.producedAt), a.sig
	} else {
		c.Stat("create_error", 1)
	}
	st, ct := tables(a, ca.cert)
	var oNone, oIss, oOther uint64
	var rNone, rIss *ocsp.Response
	var eIss, eOther error
	if err == nil {
		var e0 error
		rNone, e0 = ocsp.ParseResponse(der, nil)
		oNone = outcomeCode(rNone, e0)
		rIss, eIss = ocsp.ParseResponse(der, ca.cert)
		oIss = outcomeCode(rIss, eIss)
		var rO *ocsp.Response
		rO, eOther = ocsp.ParseResponse(der, other.cert)
		oOther = outcomeCode(rO, eOther)
	}
	cthis, cnext, crev := civilOf(this), civilOf(next), civilOf(rev)
	ri := vh.App("Build_rinput", vh.NI(t.Status), vh.BigZ(serial), cthis.coq(), cnext.coq(), crev.coq(), vh.Z(int64(t.Reason)),
		vh.NI(t.Hash), vh.NI(t.SigAlg), coqExts(t.Exts), vh.Bytes(certDER),
		vh.NI(resp.kind), vh.Bytes(nameHash), vh.Bytes(keyHash), vh.Bytes(resp.cert.RawSubject), produced.coq(), vh.Bytes(sig))
	nk := fmt.Sprintf("%d|%s|%v|%d|%s|%d|%d|%d|%v", t.Issuer, t.Delegate, t.Embed, t.Status, t.Serial, t.Reason, t.Hash, t.SigAlg, t.Exts)
	c.Case("rcase", vh.Pair(ri, vh.N(derHash), st, ct, vh.Pair(vh.N(oNone), vh.N(oIss), vh.N(oOther))), t, nk)
	if err != nil {
		return
	}

	// ---- direct oracle
	viol := func(key, desc string) { c.Violation(key, desc, "rcase", t) }
	// (1) acceptance only under the issuer
	hasCrit := false
	for _, e := range t.Exts {
		hasCrit = hasCrit || e.Crit
	}
	legit := t.Delegate == "" || (t.Embed && t.Delegate != "rogue")
	if hasCrit {
		// ParseResponse refuses a single response with a critical extension: nothing to round-trip
		if rNone != nil || eIss == nil || eOther == nil {
			viol("critical-extension-accepted", "a response whose single response carries a critical extension was accepted")
		}
		return
	}
	if legit && eIss != nil {
		viol("genuine-rejected", fmt.Sprintf("response signed by %s (embed=%v) rejected under its issuer: %v", resp.name, t.Embed, eIss))
	}
	if !legit && eIss == nil {
		viol("accepted-without-issuer-signature", fmt.Sprintf("response signed by %s (embed=%v) accepted under issuer %s", resp.name, t.Embed, ca.name))
	}
	if eOther == nil && !(t.Delegate == "rogue" && t.Embed) { // the rogue certificate IS signed by the other CA
		viol("accepted-under-other-issuer", fmt.Sprintf("response of %s accepted under the unrelated CA", ca.name))
	}
	// (2) round trip of the fields the property lists
	r := rNone
	if r == nil {
		viol("roundtrip-parse", "CreateResponse output rejected by ParseResponse(nil issuer)")
		return
	}
	if t.Status >= 0 && t.Status <= 2 {
		bad := []string{}
		if r.Status != t.Status || r.IsRevoked != (t.Status == ocsp.Revoked) {
			bad = append(bad, fmt.Sprintf("status %d/%v", r.Status, r.IsRevoked))
		}
		if r.SerialNumber.Cmp(serial) != 0 {
			bad = append(bad, "serial "+r.SerialNumber.String())
		}
		if !r.ThisUpdate.Equal(this.Truncate(time.Second)) || !r.NextUpdate.Equal(next.Truncate(time.Second)) {
			bad = append(bad, fmt.Sprintf("thisUpdate/nextUpdate %v/%v", r.ThisUpdate, r.NextUpdate))
		}
		if t.Status == ocsp.Revoked && (!r.RevokedAt.Equal(rev.Truncate(time.Second)) || int(r.RevocationReason) != t.Reason) {
			bad = append(bad, fmt.Sprintf("revokedAt/reason %v/%d", r.RevokedAt, r.RevocationReason))
		}
		if t.Status != ocsp.Revoked && (!r.RevokedAt.IsZero() || r.RevocationReason != 0) {
			bad = append(bad, fmt.Sprintf("revokedAt/reason %v/%d on a non-revoked status", r.RevokedAt, r.RevocationReason))
		}
		if r.IssuerHash != effHash {
			bad = append(bad, fmt.Sprintf("issuer hash %d", r.IssuerHash))
		}
		if string(r.RawResponderName) != string(resp.cert.RawSubject) || len(r.ResponderKeyHash) != 0 {
			bad = append(bad, "responder name")
		}
		if len(r.Extensions) != len(t.Exts) {
			bad = append(bad, "extensions")
		} else {
			for i, e := range t.Exts {
				if !r.Extensions[i].Id.Equal(asn1.ObjectIdentifier(e.OID)) || r.Extensions[i].Critical != e.Crit || vh.Hex(r.Extensions[i].Value) != e.Val {
					bad = append(bad, "extensions")
					break
				}
			}
		}
		if (r.Certificate != nil) != t.Embed || (t.Embed && string(r.Certificate.Raw) != string(resp.cert.Raw)) {
			bad = append(bad, "embedded certificate")
		}
		sr := a.basic.TBSResponseData.Responses
		if len(sr) != 1 || string(sr[0].CertID.NameHash) != string(nameHash) || string(sr[0].CertID.IssuerKeyHash) != string(keyHash) {
			bad = append(bad, "issuer name/key hash")
		}
		if len(bad) > 0 {
			viol("roundtrip-fields", "parsed back differently: "+strings.Join(bad, "; "))
		}
	}
}

// ---------------------------------------------------------------- assembled responses (stream pcase)
type singleIn struct {
	Serial  string   `json:"serial"`
	Status  int      `json:"status"` // 0 good 1 revoked 2 unknown 3 none 4 good+revoked
	Hash    int      `json:"hash"`   // crypto.Hash; 99 = an OID the package does not know
	This    int64    `json:"this"`
	Next    int64    `json:"next"` // 0 = absent
	Revoked int64    `json:"revoked_at"`
	Reason  int      `json:"reason"`
	Exts    []extIn  `json:"exts"`
}
type asmIn struct {
	Kind      string     `json:"kind"` // "assemble"
	Issuer    int        `json:"issuer"`
	Signer    string     `json:"signer"`   // "" CA, delegate key, or "other"
	Embed     []string   `json:"embed"`    // certificates to embed: delegate keys / "ca" / "other"
	Singles   []singleIn `json:"singles"`
	KeyHashID bool       `json:"key_hash_id"`
	BadRID    int        `json:"bad_rid"`  // 0 fine, 1 context tag 3, 2 name that is not an RDNSequence
	Version   int        `json:"version"`  // -1 absent, else explicit
	Nonce     bool       `json:"nonce"`    // responseExtensions present
	OuterSt   int        `json:"outer_status"`
	NoBody    bool       `json:"no_body"`
	BadType   bool       `json:"bad_type"`
	Trailing  int        `json:"trailing"` // 0 none, 1 after the outer SEQUENCE, 2 after the BasicOCSPResponse
	SigPad    int        `json:"sig_pad"`  // unused bits claimed in the signature BIT STRING
	UnkSigAlg bool       `json:"unknown_sigalg"`
	Produced  int64      `json:"produced"`
	Query     *string    `json:"query"`    // certificate serial handed to ParseResponseForCert
	With      int        `json:"with"`     // 0 nil issuer, 1 the CA, 2 the unrelated CA
}

func gt(sec int64) time.Time { return time.Unix(sec, 0).UTC() }

func assemble(in asmIn) ([]byte, error) {
	ca := issuers[in.Issuer]
	signer := ca
	switch in.Signer {
	case "":
	case "other":
		signer = other
	default:
		signer = delegates[in.Signer]
	}
	tbs := mTBS{ProducedAt: gt(in.Produced)}
	if in.Version >= 0 {
		tbs.Version = in.Version
	}
	for _, s := range in.Singles {
		h := crypto.Hash(s.Hash)
		oid := hashOID[h]
		if oid == nil {
			oid, h = stdasn1.ObjectIdentifier{1, 2, 840, 113549, 2, 5}, crypto.SHA1 // md5
		}
		nh, kh := issuerHashes(h, ca.cert)
		serial, _ := new(big.Int).SetString(s.Serial, 10)
		m := mSingle{CertID: mCertID{HashAlgorithm: mAlgID{Algorithm: oid, Parameters: stdasn1.RawValue{Tag: 5}}, NameHash: nh, IssuerKeyHash: kh, SerialNumber: serial},
			ThisUpdate: gt(s.This)}
		if s.Next != 0 {
			m.NextUpdate = gt(s.Next)
		}
		switch s.Status {
		case 0:
			m.Good = true
		case 1:
			m.Revoked = mRevoked{RevocationTime: gt(s.Revoked), Reason: stdasn1.Enumerated(s.Reason)}
		case 2:
			m.Unknown = true
		case 4:
			m.Good = true
			m.Revoked = mRevoked{RevocationTime: gt(s.Revoked), Reason: stdasn1.Enumerated(s.Reason)}
		}
		for _, e := range s.Exts {
			m.SingleExtensions = append(m.SingleExtensions, mExt{Id: e.OID, Critical: e.Crit, Value: vh.UnHex(e.Val)})
		}
		tbs.Responses = append(tbs.Responses, m)
	}
	if len(tbs.Responses) == 0 {
		tbs.Responses = []mSingle{}
	}
	switch {
	case in.BadRID == 1:
		tbs.RawResponderID = stdasn1.RawValue{Class: 2, Tag: 3, IsCompound: true, Bytes: signer.cert.RawSubject}
	case in.BadRID == 2:
		tbs.RawResponderID = stdasn1.RawValue{Class: 2, Tag: 1, IsCompound: true, Bytes: mustMarshal([]int{1, 2})}
	case in.KeyHashID:
		tbs.RawResponderID = stdasn1.RawValue{Class: 2, Tag: 2, IsCompound: true, Bytes: mustMarshal(hashOf(crypto.SHA1, []byte(signer.name)))}
	default:
		tbs.RawResponderID = stdasn1.RawValue{Class: 2, Tag: 1, IsCompound: true, Bytes: signer.cert.RawSubject}
	}
	if in.Nonce {
		tbs.Extensions = []mExt{{Id: stdasn1.ObjectIdentifier{1, 3, 6, 1, 5, 5, 7, 48, 1, 2}, Value: []byte{4, 2, 0xaa, 0xbb}}}
	}
	if in.Version == 0 {
		// the mirror struct omits version 0 (default:0); write it explicitly when asked to
		return assembleExplicitV0(in, tbs, signer, ca)
	}
	tbsDER := mustMarshal(tbs)
	return finishAssemble(in, tbsDER, signer, ca)
}

// version [0] EXPLICIT INTEGER 0 written out although it is the default (some responders do)
func assembleExplicitV0(in asmIn, tbs mTBS, signer, ca *party) ([]byte, error) {
	tbs.Version = 0
	der := mustMarshal(tbs) // SEQUENCE without the version
	var seq stdasn1.RawValue
	if _, err := stdasn1.Unmarshal(der, &seq); err != nil {
		return nil, err
	}
	body := append([]byte{0xa0, 0x03, 0x02, 0x01, 0x00}, seq.Bytes...)
	out := mustMarshal(stdasn1.RawValue{Class: 0, Tag: 16, IsCompound: true, Bytes: body})
	return finishAssemble(in, out, signer, ca)
}

func finishAssemble(in asmIn, tbsDER []byte, signer, ca *party) ([]byte, error) {
	var hf crypto.Hash
	var alg mAlgID
	switch signer.kind {
	case 1:
		hf, alg = crypto.SHA256, mAlgID{Algorithm: stdasn1.ObjectIdentifier{1, 2, 840, 113549, 1, 1, 11}, Parameters: stdasn1.RawValue{Tag: 5}}
	case 2, 3:
		hf, alg = crypto.SHA256, mAlgID{Algorithm: stdasn1.ObjectIdentifier{1, 2, 840, 10045, 4, 3, 2}}
	case 4:
		hf, alg = crypto.SHA384, mAlgID{Algorithm: stdasn1.ObjectIdentifier{1, 2, 840, 10045, 4, 3, 3}}
	default:
		hf, alg = crypto.SHA512, mAlgID{Algorithm: stdasn1.ObjectIdentifier{1, 2, 840, 10045, 4, 3, 4}}
	}
	sig, err := signer.priv.Sign(detRand, hashOf(hf, tbsDER), hf)
	if err != nil {
		return nil, err
	}
	if in.UnkSigAlg {
		alg.Algorithm = stdasn1.ObjectIdentifier{1, 2, 840, 113549, 1, 1, 10} // RSASSA-PSS: not in the package's table
	}
	bs := stdasn1.BitString{Bytes: sig, BitLength: 8 * len(sig)}
	if in.SigPad > 0 {
		// claim SigPad unused bits; DER wants them zero, so clear them in the last byte
		b := append([]byte{}, sig...)
		b[len(b)-1] &^= byte(1<<uint(in.SigPad)) - 1
		bs = stdasn1.BitString{Bytes: b, BitLength: 8*len(b) - in.SigPad}
	}
	var tbsRaw stdasn1.RawValue
	if _, err := stdasn1.Unmarshal(tbsDER, &tbsRaw); err != nil {
		return nil, err
	}
	type rawBasic struct {
		TBS          stdasn1.RawValue
		Alg          mAlgID
		Sig          stdasn1.BitString
		Certificates []stdasn1.RawValue `asn1:"explicit,tag:0,optional"`
	}
	rb := rawBasic{TBS: tbsRaw, Alg: alg, Sig: bs}
	for _, e := range in.Embed {
		var cert *x509.Certificate
		switch e {
		case "ca":
			cert = ca.cert
		case "other":
			cert = other.cert
		default:
			cert = delegates[e].cert
		}
		rb.Certificates = append(rb.Certificates, stdasn1.RawValue{FullBytes: cert.Raw})
	}
	basicDER := mustMarshal(rb)
	if in.Trailing == 2 {
		basicDER = append(basicDER, 0x05, 0x00)
	}
	outer := mOuter{Status: stdasn1.Enumerated(in.OuterSt)}
	if !in.NoBody {
		outer.Response = mRespBytes{ResponseType: oidBasic, Response: basicDER}
		if in.BadType {
			outer.Response.ResponseType = stdasn1.ObjectIdentifier{1, 3, 6, 1, 5, 5, 7, 48, 1, 2}
		}
	}
	der := mustMarshal(outer)
	if in.Trailing == 1 {
		der = append(der, 0x05, 0x00)
	}
	return der, nil
}

// deterministic randomness for ECDSA signing in assembled responses
type detReader struct{ c *vh.Ctx }

func (d detReader) Read(p []byte) (int, error) { return d.c.Read(p) }

var detRand detReader

func runAssemble(c *vh.Ctx, in asmIn) {
	der, err := assemble(in)
	if err != nil {
		c.Stat("assemble_failed", 1)
		return
	}
	runParse(c, der, in, "pcase")
}

// parse a DER response for (query, issuer) and emit the pcase + oracle
func runParse(c *vh.Ctx, der []byte, in asmIn, stream string) {
	ca := issuers[in.Issuer]
	var cert *x509.Certificate
	q := "None"
	if in.Query != nil {
		n, _ := new(big.Int).SetString(*in.Query, 10)
		cert = &x509.Certificate{SerialNumber: n}
		q = vh.Some(vh.BigZ(n))
	}
	var issuer *x509.Certificate
	iss := "None"
	switch in.With {
	case 1:
		issuer, iss = ca.cert, vh.Some(vh.NI(1))
	case 2:
		issuer, iss = other.cert, vh.Some(vh.NI(2))
	}
	r, err := ocsp.ParseResponseForCert(der, cert, issuer)
	code := outcomeCode(r, err)
	st, ct := tables(dissect(der), ca.cert)
	nk := fmt.Sprintf("%v", in)
	c.Case(stream, vh.Pair(vh.Bytes(der), q, iss, st, ct, vh.N(code)), in, nk)
	c.Stat("assembled", 1)
	if err == nil {
		c.Stat("assembled_accepted", 1)
	}

	// ---- direct oracle
	viol := func(key, desc string) { c.Violation(key, desc, stream, in) }
	if err != nil {
		// a well-formed genuine response must be accepted
		if expectAccept(in) {
			viol("genuine-rejected", fmt.Sprintf("assembled genuine response rejected: %v", err))
		}
		return
	}
	// accepted with an issuer: signed by the issuer, or by an embedded certificate the issuer signed
	if in.With != 0 {
		chainOK := false
		if len(in.Embed) == 0 {
			chainOK = (in.With == 1 && in.Signer == "") || (in.With == 2 && in.Signer == "other")
		} else {
			first := in.Embed[0]
			signedByFirst := (first == "ca" && in.Signer == "") || (first == "other" && in.Signer == "other") || first == in.Signer ||
				(first == "rogue" && in.Signer == "3/3") || (first == "3/3" && in.Signer == "rogue")
			issuerSignedFirst := false
			switch first {
			case "ca":
				issuerSignedFirst = in.With == 1 // self-signed CA certificate
			case "other":
				issuerSignedFirst = in.With == 2
			case "rogue":
				issuerSignedFirst = in.With == 2
			default:
				issuerSignedFirst = in.With == 1 && strings.HasPrefix(first, fmt.Sprintf("%d/", in.Issuer))
			}
			chainOK = signedByFirst && issuerSignedFirst
		}
		if !chainOK {
			viol("accepted-without-issuer-signature", fmt.Sprintf("accepted with issuer %d although signer=%q embed=%v", in.With, in.Signer, in.Embed))
		}
	}
	if in.SigPad > 0 || in.UnkSigAlg {
		if in.With != 0 || len(in.Embed) > 0 {
			viol("accepted-altered-signature", "accepted although the signature bits / algorithm were altered")
		}
	}
	// first matching serial
	want := -1
	if in.Query == nil {
		if len(in.Singles) == 1 {
			want = 0
		}
	} else {
		for i, s := range in.Singles {
			if s.Serial == *in.Query {
				want = i
				break
			}
		}
	}
	if want < 0 {
		viol("no-matching-single", fmt.Sprintf("accepted although no single response is selected by query %v among %d", in.Query, len(in.Singles)))
		return
	}
	s := in.Singles[want]
	wantStatus := map[int]int{0: ocsp.Good, 1: ocsp.Revoked, 2: ocsp.Unknown, 3: ocsp.Revoked, 4: ocsp.Good}[s.Status]
	if r.SerialNumber.String() != s.Serial || r.Status != wantStatus || !r.ThisUpdate.Equal(gt(s.This)) ||
		(s.Next != 0 && !r.NextUpdate.Equal(gt(s.Next))) || (s.Next == 0 && !r.NextUpdate.IsZero()) ||
		(s.Status == 1 && (!r.RevokedAt.Equal(gt(s.Revoked)) || int(r.RevocationReason) != s.Reason)) {
		viol("wrong-single", fmt.Sprintf("returned serial %v status %d thisUpdate %v: not single response #%d (%+v)", r.SerialNumber, r.Status, r.ThisUpdate, want, s))
	}
	for _, e := range s.Exts {
		if e.Crit {
			viol("critical-extension-accepted", "accepted a single response with a critical extension")
		}
	}
	if _, ok := hashOID[crypto.Hash(s.Hash)]; !ok {
		viol("unknown-hash-accepted", "accepted a single response with an unknown hash algorithm")
	}
}

func expectAccept(in asmIn) bool {
	if in.OuterSt != 0 || in.NoBody || in.BadType || in.Trailing != 0 || in.SigPad != 0 || in.UnkSigAlg || in.BadRID != 0 || len(in.Singles) == 0 {
		return false
	}
	sel := -1
	if in.Query == nil {
		if len(in.Singles) != 1 {
			return false
		}
		sel = 0
	} else {
		for i, s := range in.Singles {
			if s.Serial == *in.Query {
				sel = i
				break
			}
		}
	}
	if sel < 0 {
		return false
	}
	s := in.Singles[sel]
	if _, ok := hashOID[crypto.Hash(s.Hash)]; !ok {
		return false
	}
	for _, e := range s.Exts {
		if e.Crit {
			return false
		}
	}
	for _, x := range in.Singles {
		if x.Reason < 0 || x.Reason > 10 {
			return false
		}
	}
	if len(in.Embed) == 0 {
		return in.With == 0 || (in.With == 1 && in.Signer == "") || (in.With == 2 && in.Signer == "other")
	}
	first := in.Embed[0]
	if !(first == in.Signer || (first == "ca" && in.Signer == "")) {
		return false
	}
	if in.With == 0 {
		return true
	}
	return in.With == 1 && (first == "ca" || strings.HasPrefix(first, fmt.Sprintf("%d/", in.Issuer)))
}

// ---------------------------------------------------------------- requests (stream qcase)
type reqIn struct {
	Kind    string `json:"kind"` // "request"
	Issuer  int    `json:"issuer"`
	Hash    int    `json:"hash"`
	Serial  string `json:"serial"`
	Variant int    `json:"variant"` // 0 CreateRequest output; 1.. assembled requests
}

func runRequest(c *vh.Ctx, in reqIn) {
	ca := issuers[in.Issuer]
	serial, _ := new(big.Int).SetString(in.Serial, 10)
	var opts *ocsp.RequestOptions
	if in.Hash != 0 {
		opts = &ocsp.RequestOptions{Hash: crypto.Hash(in.Hash)}
	}
	eff := crypto.Hash(in.Hash)
	if eff == 0 {
		eff = crypto.SHA1
	}
	nh, kh := issuerHashes(eff, ca.cert)
	der, err := ocsp.CreateRequest(&x509.Certificate{SerialNumber: serial}, ca.cert, opts)
	var derHash uint64
	if err == nil {
		derHash = hashBytes(der)
		if derHash == 0 {
			derHash = 1
		}
	}
	var derIn []byte
	if in.Variant > 0 && nh != nil {
		cid := mCertID{HashAlgorithm: mAlgID{Algorithm: hashOID[eff], Parameters: stdasn1.RawValue{Tag: 5}}, NameHash: nh, IssuerKeyHash: kh, SerialNumber: serial}
		tbs := mTBSRequest{RequestList: []mRequest{{Cert: cid}}}
		switch in.Variant {
		case 1: // two requests: the first is used
			c2 := cid
			c2.SerialNumber = new(big.Int).Add(serial, big.NewInt(1))
			tbs.RequestList = []mRequest{{Cert: cid}, {Cert: c2}}
		case 2: // requestorName present
			tbs.RequestorName = stdasn1.RawValue{FullBytes: ca.cert.RawSubject}
		case 3: // empty request list
			tbs.RequestList = []mRequest{}
		case 4: // unknown hash
			tbs.RequestList[0].Cert.HashAlgorithm.Algorithm = stdasn1.ObjectIdentifier{1, 2, 840, 113549, 2, 5}
		case 5: // version 1 written out
			tbs.Version = 1
		}
		derIn = mustMarshal(mOCSPRequest{TBSRequest: tbs})
		if in.Variant == 6 {
			derIn = append(derIn, 0x05, 0x00)
		}
	}
	target := der
	if derIn != nil {
		target = derIn
	}
	var code uint64
	var rq *ocsp.Request
	var perr error
	if target != nil {
		rq, perr = ocsp.ParseRequest(target)
		if perr == nil {
			code = 1 + mixZ(mixBytes(mixBytes(vh.Mix(0, uint64(rq.HashAlgorithm)), rq.IssuerNameHash), rq.IssuerKeyHash), rq.SerialNumber)
		}
	}
	c.Case("qcase", vh.Pair(vh.NI(in.Hash), vh.Bytes(nh), vh.Bytes(kh), vh.BigZ(serial), vh.N(derHash), vh.Bytes(derIn), vh.N(code)), in,
		fmt.Sprintf("%d|%d|%s|%d", in.Issuer, in.Hash, in.Serial, in.Variant))
	c.Stat("request", 1)
	// ---- oracle: a built request parses back to the same hashes and serial
	if err == nil && in.Variant == 0 {
		if perr != nil {
			c.Violation("request-roundtrip", fmt.Sprintf("CreateRequest output rejected by ParseRequest: %v", perr), "qcase", in)
		} else if rq.HashAlgorithm != eff || string(rq.IssuerNameHash) != string(nh) || string(rq.IssuerKeyHash) != string(kh) || rq.SerialNumber.Cmp(serial) != 0 {
			c.Violation("request-roundtrip", fmt.Sprintf("request parsed back as hash %d serial %v (built with hash %d serial %v, or hashes differ)", rq.HashAlgorithm, rq.SerialNumber, eff, serial), "qcase", in)
		}
		// and the upstream mirror reads the same certID
		var m mOCSPRequest
		if rest, e := stdasn1.Unmarshal(der, &m); e != nil || len(rest) != 0 || len(m.TBSRequest.RequestList) != 1 ||
			!m.TBSRequest.RequestList[0].Cert.HashAlgorithm.Algorithm.Equal(hashOID[eff]) {
			c.Violation("request-encoding", "CreateRequest output is not the expected OCSPRequest", "qcase", in)
		}
	}
	if err != nil && (in.Hash == 0 || hashOID[crypto.Hash(in.Hash)] != nil) {
		c.Violation("request-create-failed", fmt.Sprintf("CreateRequest failed for a supported hash: %v", err), "qcase", in)
	}
}

// ---------------------------------------------------------------- mutation oracle
type mutIn struct {
	Kind     string `json:"kind"` // "mutation"
	Issuer   string `json:"issuer_cert"`
	Original string `json:"original"`
	Mutated  string `json:"mutated"`
	What     string `json:"what"`
}

func sameResponse(a, b *ocsp.Response) string {
	switch {
	case a.Status != b.Status || a.IsRevoked != b.IsRevoked:
		return "status"
	case a.SerialNumber.Cmp(b.SerialNumber) != 0:
		return "serial"
	case !a.ProducedAt.Equal(b.ProducedAt) || !a.ThisUpdate.Equal(b.ThisUpdate) || !a.NextUpdate.Equal(b.NextUpdate) || !a.RevokedAt.Equal(b.RevokedAt):
		return "times"
	case a.RevocationReason != b.RevocationReason:
		return "reason"
	case string(a.TBSResponseData) != string(b.TBSResponseData):
		return "tbs"
	case string(a.Signature) != string(b.Signature) || a.SignatureAlgorithm != b.SignatureAlgorithm:
		return "signature"
	case a.IssuerHash != b.IssuerHash:
		return "issuer hash"
	case string(a.RawResponderName) != string(b.RawResponderName) || string(a.ResponderKeyHash) != string(b.ResponderKeyHash):
		return "responder id"
	case !reflect.DeepEqual(a.Extensions, b.Extensions):
		return "extensions"
	case (a.Certificate == nil) != (b.Certificate == nil):
		return "certificate presence"
	case a.Certificate != nil && string(a.Certificate.Raw) != string(b.Certificate.Raw):
		if string(a.Certificate.RawTBSCertificate) == string(b.Certificate.RawTBSCertificate) &&
			string(a.Certificate.Signature) == string(b.Certificate.Signature) && a.Certificate.SignatureAlgorithm == b.Certificate.SignatureAlgorithm {
			// only bytes of the embedded certificate that no signature covers and the parser ignores differ
			return "embedded-cert-unsigned-part"
		}
		return "certificate"
	}
	return ""
}

// returns (accepted, violation description or "")
func checkMutation(issuer *x509.Certificate, orig *ocsp.Response, mut []byte) (bool, string) {
	r, err := ocsp.ParseResponse(mut, issuer)
	if err != nil {
		return false, ""
	}
	if d := sameResponse(orig, r); d != "" {
		return true, "mutated response accepted with a different " + d
	}
	// the signature that was verified must be the value of the BIT STRING of the accepted bytes themselves
	// (independent decoding with encoding/asn1): a changed unused-bits octet is a changed signature value
	if da := dissect(mut); da != nil && string(da.sig) != string(r.Signature) {
		return true, "mutated response accepted with a different signature bit string value"
	}
	return true, ""
}

func mutateAll(c *vh.Ctx, label string, issuer *x509.Certificate, der []byte) {
	orig, err := ocsp.ParseResponse(der, issuer)
	if err != nil {
		c.Violation("genuine-rejected", fmt.Sprintf("%s: genuine response rejected: %v", label, err), "mutation", mutIn{Kind: "mutation", Issuer: vh.Hex(issuer.Raw), Original: vh.Hex(der), Mutated: vh.Hex(der), What: label})
		return
	}
	accepted := 0
	perKey := map[string]int{}
	report := func(m []byte, what string) {
		ok, d := checkMutation(issuer, orig, m)
		if ok {
			accepted++
		}
		if d != "" {
			key := "tamper-accepted-" + strings.ReplaceAll(strings.TrimPrefix(d, "mutated response accepted with a different "), " ", "-")
			perKey[key]++
			c.Stat(key, 1)
			if perKey[key] <= 2 {
				c.Violation(key, label+": "+what+": "+d, "mutation", mutIn{Kind: "mutation", Issuer: vh.Hex(issuer.Raw), Original: vh.Hex(der), Mutated: vh.Hex(m), What: what})
			}
		}
	}
	n := 0
	for i := range der {
		var vals []byte
		if c.Thorough {
			for v := 0; v < 256; v++ {
				if byte(v) != der[i] {
					vals = append(vals, byte(v))
				}
			}
		} else {
			seen := map[byte]bool{der[i]: true}
			for _, v := range []byte{der[i] ^ 0x01, der[i] ^ 0x80, der[i] ^ 0xff, der[i] + 1, der[i] - 1, 0x00, byte(c.U64())} {
				if !seen[v] {
					seen[v] = true
					vals = append(vals, v)
				}
			}
		}
		for _, v := range vals {
			m := append([]byte{}, der...)
			m[i] = v
			report(m, fmt.Sprintf("byte %d: %02x -> %02x", i, der[i], v))
			n++
		}
	}
	c.Stat("single_byte_mutations", n)
	c.Stat("single_byte_mutations_accepted", accepted)
	// sampled multi-byte mutations
	k := 300
	if c.Thorough {
		k = 3000
	}
	for j := 0; j < k; j++ {
		m := append([]byte{}, der...)
		what := ""
		switch c.Intn(6) {
		case 0, 1:
			cnt := 2 + c.Intn(3)
			for x := 0; x < cnt; x++ {
				p := c.Intn(len(m))
				m[p] = byte(c.U64())
			}
			what = "random bytes"
		case 2:
			p := c.Intn(len(m) - 1)
			m[p], m[p+1] = m[p+1], m[p]
			what = fmt.Sprintf("swap %d,%d", p, p+1)
		case 3:
			p, q := c.Intn(len(m)), c.Intn(len(m))
			l := 1 + c.Intn(8)
			for x := 0; x < l && p+x < len(m) && q+x < len(m); x++ {
				m[q+x] = der[p+x]
			}
			what = fmt.Sprintf("copy %d bytes %d -> %d", l, p, q)
		case 4:
			m = m[:len(m)-1-c.Intn(4)]
			what = "truncate"
		default:
			m = append(m, c.Bytes(1+c.Intn(3))...)
			what = "append"
		}
		report(m, what)
	}
	c.Stat("multi_byte_mutations", k)
	c.Eval(label)
}

func runMutations(c *vh.Ctx) {
	type src struct {
		t tmplIn
	}
	base := tmplIn{Kind: "create", Status: 1, Serial: "123456789", This: [2]int64{1700000000, 0}, Next: [2]int64{1700600000, 0},
		Revoked: [2]int64{1690000000, 0}, Reason: 1, Exts: []extIn{{OID: []int{1, 3, 6, 1, 5, 5, 7, 48, 1, 2}, Val: "0402aabb"}}}
	var list []tmplIn
	for _, v := range []struct {
		iss   int
		del   string
		embed bool
	}{{1, "", false}, {3, "", false}, {3, "3/3", true}, {1, "1/3", true}, {4, "", false}, {3, "3/1", true}} {
		t := base
		t.Issuer, t.Delegate, t.Embed = v.iss, v.del, v.embed
		list = append(list, t)
	}
	good := base
	good.Issuer, good.Status, good.NoNext, good.Exts = 3, 0, true, nil
	list = append(list, good)
	if !c.Thorough {
		list = list[:5]
		list = append(list, good)
	}
	for _, t := range list {
		ca, resp := t.responder()
		this, next, rev := t.times()
		serial, _ := new(big.Int).SetString(t.Serial, 10)
		tpl := ocsp.Response{Status: t.Status, SerialNumber: serial, ThisUpdate: this, NextUpdate: next, RevokedAt: rev, RevocationReason: crl.RevocationReasonCode(t.Reason)}
		for _, e := range t.Exts {
			tpl.ExtraExtensions = append(tpl.ExtraExtensions, pkix.Extension{Id: asn1.ObjectIdentifier(e.OID), Critical: e.Crit, Value: vh.UnHex(e.Val)})
		}
		if t.Embed {
			tpl.Certificate = resp.cert
		}
		der, err := ocsp.CreateResponse(ca.cert, resp.cert, tpl, resp.priv)
		if err != nil {
			c.Violation("create-failed", fmt.Sprintf("CreateResponse failed: %v", err), "mutation", t)
			continue
		}
		mutateAll(c, fmt.Sprintf("issuer kind %d, responder %q, status %d", t.Issuer, t.Delegate, t.Status), ca.cert, der)
	}
	if c.Thorough {
		c.Exhaustive("every single-byte substitution (255 values per position) of 7 signed responses (RSA, P-256, P-384 issuers; direct and delegated with embedded certificate)")
	}
}

// ---------------------------------------------------------------- generators
func randSerial(c *vh.Ctx) string {
	switch c.Intn(8) {
	case 0:
		return "0"
	case 1:
		return fmt.Sprint(c.Intn(300) - 100)
	case 2:
		n := new(big.Int).SetBytes(c.Bytes(20))
		return n.String()
	case 3:
		n := new(big.Int).Lsh(big.NewInt(1), uint(c.Pick([]int{7, 8, 15, 16, 63, 64, 127, 159})))
		n.Add(n, big.NewInt(int64(c.Intn(3))-1))
		if c.Intn(4) == 0 {
			n.Neg(n)
		}
		return n.String()
	default:
		n := new(big.Int).SetBytes(c.Bytes(1 + c.Intn(9)))
		return n.String()
	}
}

func randTime(c *vh.Ctx) int64 {
	switch c.Intn(10) {
	case 0:
		return -62135596800 + int64(c.Intn(1000000)) // year 1
	case 1:
		return 253402300799 - int64(c.Intn(1000000)) // year 9999
	case 2:
		return int64(c.Intn(2000000000)) - 1000000000 // 1938..2001
	case 3: // leap days and year ends
		return time.Date(c.Pick([]int{2000, 2024, 2100, 1900}), time.Month(c.Pick([]int{2, 3, 12})), c.Pick([]int{28, 29, 31, 1}), 23, 59, 59-c.Intn(2), 0, time.UTC).Unix()
	}
	return 1500000000 + int64(c.Intn(800000000))
}

func randExts(c *vh.Ctx, allowCrit bool) []extIn {
	var out []extIn
	if c.Intn(3) != 0 {
		return nil
	}
	n := 1 + c.Intn(2)
	for i := 0; i < n; i++ {
		out = append(out, extIn{OID: [][]int{{1, 3, 6, 1, 5, 5, 7, 48, 1, 2}, {2, 5, 29, 21}, {1, 3, 6, 1, 4, 1, 11129, 2, 4, 5}, {1, 2, 3}}[c.Intn(4)],
			Crit: allowCrit && c.Intn(5) == 0, Val: vh.Hex(c.Bytes(c.Intn(6)))})
	}
	return out
}

func genTemplates(c *vh.Ctx) {
	n := 70
	if c.Thorough {
		n = 1200
	}
	setups := []struct {
		iss   int
		del   string
		embed bool
	}{{1, "", false}, {2, "", false}, {3, "", false}, {4, "", false}, {5, "", false}, {1, "1/3", true}, {3, "3/1", true}, {3, "3/3", true},
		{4, "4/3", true}, {3, "3/3", false}, {3, "rogue", true}, {1, "", true}}
	for i := 0; i < n; i++ {
		s := setups[i%len(setups)]
		t := tmplIn{Kind: "create", Issuer: s.iss, Delegate: s.del, Embed: s.embed}
		t.Status = c.Pick([]int{0, 0, 1, 1, 1, 2, 2, 3})
		t.Serial = randSerial(c)
		t.This = [2]int64{randTime(c), int64(c.Intn(2) * c.Intn(1000000000))}
		t.NoNext = c.Intn(3) == 0
		if !t.NoNext {
			t.Next = [2]int64{randTime(c), 0}
		}
		t.ZeroRev = c.Intn(6) == 0
		if !t.ZeroRev {
			t.Revoked = [2]int64{randTime(c), int64(c.Intn(2) * c.Intn(1000000000))}
		}
		t.Reason = c.Pick([]int{0, 0, 1, 2, 3, 4, 5, 6, 8, 9, 10, 7, 11, 127, 128, 255, 256, 65535, 1 << 30})
		if c.Intn(25) == 0 {
			t.Reason = c.Pick([]int{-1, -128, -32768})
		}
		t.Hash = c.Pick([]int{0, 0, 3, 5, 6, 7, 7, 5})
		if c.Intn(15) == 0 {
			t.Hash = c.Pick([]int{2, 4, 8, 99}) // MD5, SHA224, ...: unsupported
		}
		if c.Intn(4) == 0 {
			t.SigAlg = c.Pick([]int{3, 4, 5, 6, 9, 10, 11, 12, 1, 2, 7, 13, 14, 40})
		}
		t.Exts = randExts(c, true)
		if c.Intn(6) == 0 {
			t.Zone = c.Pick([]int{3600, -18000, 19800})
		}
		runCreate(c, t)
	}
}

func genAssembled(c *vh.Ctx) {
	n := 60
	if c.Thorough {
		n = 700
	}
	for i := 0; i < n; i++ {
		in := asmIn{Kind: "assemble", Issuer: c.Pick([]int{1, 3, 3, 4}), Version: -1, Produced: 1700000000 + int64(c.Intn(100000))}
		k := 1 + c.Intn(4)
		if c.Intn(10) == 0 {
			k = 0
		}
		pool := []string{randSerial(c), randSerial(c), fmt.Sprint(c.Intn(50))}
		if c.Intn(3) == 0 { // the same magnitude with both signs
			if n, ok := new(big.Int).SetString(pool[0], 10); ok && n.Sign() != 0 {
				pool[1] = new(big.Int).Neg(n).String()
			}
		}
		for j := 0; j < k; j++ {
			s := singleIn{Serial: pool[c.Intn(len(pool))], Status: c.Pick([]int{0, 1, 2, 0, 1, 2, 3, 4}), Hash: c.Pick([]int{3, 3, 5, 6, 7}),
				This: 1700000000 + int64(j*1000+c.Intn(900)), Revoked: 1600000000 + int64(c.Intn(1000000)), Reason: c.Intn(11)}
			if c.Intn(2) == 0 {
				s.Next = s.This + 86400
			}
			if c.Intn(12) == 0 {
				s.Hash = 99
			}
			s.Exts = randExts(c, c.Intn(3) == 0)
			in.Singles = append(in.Singles, s)
		}
		// signer / embedded certificates
		iss := fmt.Sprintf("%d/", in.Issuer)
		var dels []string
		for k := range delegates {
			if strings.HasPrefix(k, iss) {
				dels = append(dels, k)
			}
		}
		sort.Strings(dels)
		switch c.Intn(8) {
		case 0, 1, 2:
		case 3:
			in.Signer = "other"
		case 4, 5:
			if len(dels) > 0 {
				in.Signer = dels[c.Intn(len(dels))]
				in.Embed = []string{in.Signer}
				if c.Intn(3) == 0 {
					in.Embed = append(in.Embed, "ca")
				}
			}
		case 6:
			if in.Issuer == 3 {
				in.Signer, in.Embed = "3/3", []string{"rogue"}
			} else {
				in.Embed = []string{"ca"}
			}
		case 7:
			in.Signer, in.Embed = "other", []string{"other"}
		}
		switch c.Intn(14) {
		case 0:
			in.KeyHashID = true
		case 1:
			in.BadRID = 1 + c.Intn(2)
		case 2:
			in.Version = c.Intn(3)
		case 3:
			in.Nonce = true
		case 4:
			in.OuterSt = c.Pick([]int{1, 2, 3, 5, 6, 4, 7})
			in.NoBody = c.Bool()
		case 5:
			in.NoBody = true
		case 6:
			in.BadType = true
		case 7:
			in.Trailing = 1 + c.Intn(2)
		case 8:
			in.SigPad = 1 + c.Intn(7)
		case 9:
			in.UnkSigAlg = true
		}
		// queries
		var qs []*string
		qs = append(qs, nil)
		seen := map[string]bool{}
		for _, s := range in.Singles {
			if !seen[s.Serial] {
				seen[s.Serial] = true
				v := s.Serial
				qs = append(qs, &v)
			}
		}
		miss := "424242424242"
		qs = append(qs, &miss)
		if len(in.Singles) > 0 { // the negation of a listed serial (listed itself or not)
			if n, ok := new(big.Int).SetString(in.Singles[c.Intn(len(in.Singles))].Serial, 10); ok && n.Sign() != 0 {
				v := new(big.Int).Neg(n).String()
				if !seen[v] || c.Bool() {
					qs = append(qs, &v)
				}
			}
		}
		for _, q := range qs {
			if q != nil && c.Intn(3) == 0 && len(qs) > 3 {
				continue
			}
			in.Query = q
			in.With = c.Pick([]int{0, 1, 1, 2})
			runAssemble(c, in)
		}
	}
}

func genRequests(c *vh.Ctx) {
	n := 40
	if c.Thorough {
		n = 600
	}
	for i := 0; i < n; i++ {
		in := reqIn{Kind: "request", Issuer: 1 + c.Intn(5), Hash: c.Pick([]int{0, 3, 5, 6, 7, 0, 3}), Serial: randSerial(c)}
		if c.Intn(10) == 0 {
			in.Hash = c.Pick([]int{2, 4, 99})
		}
		if c.Intn(3) == 0 && hashOID[crypto.Hash(in.Hash)] != nil {
			in.Variant = 1 + c.Intn(6)
		}
		runRequest(c, in)
	}
}

func tablesFile() string {
	content := func(o asn1.ObjectIdentifier) string {
		ints := make([]int, len(o))
		copy(ints, o)
		return vh.Bytes(oidContent(ints))
	}
	var sb strings.Builder
	sb.WriteString("(* generated by harness/c13 --tables from x509/revocation/ocsp (hashOIDs, signatureAlgorithmDetails, idPKIXOCSPBasic); do not edit *)\n")
	sb.WriteString("From Coq Require Import List NArith.\nImport ListNotations.\n\n")
	hs := ocsp.VerifHashOIDs()
	sort.Slice(hs, func(i, j int) bool { return hs[i].Hash < hs[j].Hash })
	sb.WriteString("(* (crypto.Hash, DER content of the OID) *)\nDefinition hash_oids : list (N * list N) := [\n")
	for i, h := range hs {
		sep := ";"
		if i == len(hs)-1 {
			sep = ""
		}
		fmt.Fprintf(&sb, "  (%d%%N, %s)%s\n", h.Hash, content(h.OID), sep)
	}
	sb.WriteString("].\n\n(* (x509.SignatureAlgorithm, x509.PublicKeyAlgorithm, crypto.Hash, DER content of the OID), table order *)\nDefinition sigalg_oids : list (N * N * N * list N) := [\n")
	as := ocsp.VerifSigAlgs()
	for i, a := range as {
		sep := ";"
		if i == len(as)-1 {
			sep = ""
		}
		fmt.Fprintf(&sb, "  (%d%%N, %d%%N, %d%%N, %s)%s\n", a.Algo, a.PubKeyAlgo, a.Hash, content(a.OID), sep)
	}
	fmt.Fprintf(&sb, "].\n\nDefinition ocsp_basic_oid : list N := %s.\n", content(ocsp.VerifBasicOID()))
	return sb.String()
}

func initTables() {
	for _, a := range ocsp.VerifSigAlgs() {
		sigAlgByOID[a.OID.String()] = x509.SignatureAlgorithm(a.Algo)
	}
}

func gen(c *vh.Ctx) {
	if c.Tables {
		c.WriteGen("C13_gen.v", tablesFile())
		return
	}
	initTables()
	detRand = detReader{c}
	setupParties(c)
	genTemplates(c)
	genAssembled(c)
	genRequests(c)
	runMutations(c)
}

func replay(c *vh.Ctx, raw json.RawMessage) {
	initTables()
	detRand = detReader{c}
	var k struct {
		Kind string `json:"kind"`
	}
	json.Unmarshal(raw, &k)
	switch k.Kind {
	case "mutation":
		var m mutIn
		if err := json.Unmarshal(raw, &m); err != nil {
			panic(err)
		}
		issuer, err := x509.ParseCertificate(vh.UnHex(m.Issuer))
		if err != nil {
			panic(err)
		}
		orig, err := ocsp.ParseResponse(vh.UnHex(m.Original), issuer)
		if err != nil {
			c.Violation("genuine-rejected", fmt.Sprintf("genuine response rejected: %v", err), "mutation", m)
			return
		}
		c.Eval("replay")
		if _, d := checkMutation(issuer, orig, vh.UnHex(m.Mutated)); d != "" {
			c.Violation("tamper-accepted-"+strings.ReplaceAll(strings.TrimPrefix(d, "mutated response accepted with a different "), " ", "-"), m.What+": "+d, "mutation", m)
		}
	case "assemble":
		setupParties(c)
		var in asmIn
		if err := json.Unmarshal(raw, &in); err != nil {
			panic(err)
		}
		runAssemble(c, in)
	case "request":
		setupParties(c)
		var in reqIn
		if err := json.Unmarshal(raw, &in); err != nil {
			panic(err)
		}
		runRequest(c, in)
	default:
		setupParties(c)
		var t tmplIn
		if err := json.Unmarshal(raw, &t); err != nil {
			panic(err)
		}
		runCreate(c, t)
	}
}

func main() { vh.Main("C13", gen, replay) }
