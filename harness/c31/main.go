// C31 harness: session tickets.
//  1. hook level: Conn.encryptTicket / decryptTicket with given keys and IV (byte exact), every
//     single-byte modification, truncation and extension of sealed tickets, foreign and
//     rotated keys; the session-state codecs; the TLS 1.2 checkForResumption decision;
//     Config.ticketKeys / SetSessionTicketKeys histories over a controlled clock.
//  2. real handshakes over net.Pipe (zcrypto client against the zcrypto server) at TLS 1.2 and
//     1.3 presenting unmodified / bit-flipped / truncated / extended / foreign / rotated-out /
//     stale tickets; observables: DidResume, error, negotiated version and suite.
//
// The direct oracle restates the property with Go's standard library AES-CTR/HMAC and the
// scenario semantics; it does not use the Coq model.
package main

import (
	"bytes"
	"crypto/aes"
	"crypto/cipher"
	"crypto/ecdsa"
	"crypto/elliptic"
	"crypto/hmac"
	"crypto/rand"
	"crypto/sha256"
	"crypto/x509"
	"crypto/x509/pkix"
	"encoding/json"
	"fmt"
	"math/big"
	"net"
	"sort"
	"strings"
	"time"

	"github.com/zmap/zcrypto/tls"
	"verifharness/vh"
)

// ---------------------------------------------------------------- inputs (replayable)
type keyIn struct {
	Name, AES, HMAC string
	Created         int64
}
type mutIn struct {
	Kind string `json:"kind"` // none | flip | trunc | append | replace
	Pos  int    `json:"pos,omitempty"`
	Mask int    `json:"mask,omitempty"`
	Len  int    `json:"len,omitempty"`
	Data string `json:"data,omitempty"`
}
type srvIn struct {
	Disabled                           bool
	Now                                int64
	Vers                               uint16
	Suites                             []uint16 // nil = defaults
	Auth                               int
	ECDHE, ECSign, RSASign, RSADecrypt bool
}
type kopIn struct {
	Set  bool     `json:"set,omitempty"`
	Now  int64    `json:"now"`
	Keys []string `json:"keys,omitempty"`
}
type input struct {
	Kind         string   `json:"kind"`
	Keys         []keyIn  `json:"keys,omitempty"`
	SealKeys     []keyIn  `json:"seal_keys,omitempty"` // keys the base ticket is sealed under (open-batch)
	Rand         string   `json:"rand,omitempty"`
	State        string   `json:"state,omitempty"`
	Ticket       string   `json:"ticket,omitempty"`
	Muts         []mutIn  `json:"muts,omitempty"`
	Data         string   `json:"data,omitempty"`
	Srv          *srvIn   `json:"srv,omitempty"`
	ClientSuites []uint16 `json:"client_suites,omitempty"`
	UserKey      string   `json:"user_key,omitempty"`
	Ops          []kopIn  `json:"ops,omitempty"`
	Vers         uint16   `json:"vers,omitempty"`
	Scenario     string   `json:"scenario,omitempty"`
	Seed         uint64   `json:"seed,omitempty"`
	// TLS 1.3 decision
	Suite   uint16   `json:"suite,omitempty"`
	ModePSK bool     `json:"mode_plain,omitempty"` // psk_ke only (no psk_dhe_ke)
	IDs     []string `json:"ids,omitempty"`
	Secrets []string `json:"secrets,omitempty"`
	Corrupt []bool   `json:"corrupt,omitempty"`
	Expect  string   `json:"expect,omitempty"` // psk:<i> | none | abort

	// state fields for marshal
	SVers, SSuite uint16
	SCreated      uint64
	SMaster       string
	SCerts        []string
}

func hk(k tls.VerifC31Key) keyIn {
	return keyIn{vh.Hex(k.Name[:]), vh.Hex(k.AES[:]), vh.Hex(k.HMAC[:]), k.Created}
}
func (k keyIn) key() (o tls.VerifC31Key) {
	copy(o.Name[:], vh.UnHex(k.Name))
	copy(o.AES[:], vh.UnHex(k.AES))
	copy(o.HMAC[:], vh.UnHex(k.HMAC))
	o.Created = k.Created
	return
}
func keysOf(ks []keyIn) []tls.VerifC31Key {
	out := make([]tls.VerifC31Key, len(ks))
	for i, k := range ks {
		out[i] = k.key()
	}
	return out
}
func hkeys(ks []tls.VerifC31Key) []keyIn {
	out := make([]keyIn, len(ks))
	for i, k := range ks {
		out[i] = hk(k)
	}
	return out
}

func (m mutIn) apply(t []byte) []byte {
	o := append([]byte{}, t...)
	switch m.Kind {
	case "flip":
		if m.Pos < len(o) {
			o[m.Pos] ^= byte(m.Mask)
		}
	case "trunc":
		if m.Len < len(o) {
			o = o[:m.Len]
		}
	case "append":
		o = append(o, vh.UnHex(m.Data)...)
	case "replace":
		o = vh.UnHex(m.Data)
	}
	return o
}

// ---------------------------------------------------------------- Coq printers
func coqKey(k tls.VerifC31Key) string {
	return vh.App("mk_key", vh.Bytes(k.Name[:]), vh.Bytes(k.AES[:]), vh.Bytes(k.HMAC[:]), vh.Z(k.Created))
}
func coqKeys(ks []tls.VerifC31Key) string {
	xs := make([]string, len(ks))
	for i, k := range ks {
		xs[i] = coqKey(k)
	}
	return vh.List0(xs, "tkey")
}
func coqMut(m mutIn) string {
	switch m.Kind {
	case "flip":
		return vh.App("MFlip", vh.NI(m.Pos), vh.NI(m.Mask))
	case "trunc":
		return vh.App("MTrunc", vh.NI(m.Len))
	case "append":
		return vh.App("MAppend", vh.Bytes(vh.UnHex(m.Data)))
	case "replace":
		return vh.App("MReplace", vh.Bytes(vh.UnHex(m.Data)))
	}
	return "MNone"
}
func coqU16s(xs []uint16) string {
	ys := make([]string, len(xs))
	for i, x := range xs {
		ys[i] = vh.NI(int(x))
	}
	return vh.List0(ys, "N")
}
func coqSrv(s srvIn) string {
	suites := s.Suites
	if suites == nil {
		suites = tls.VerifC31DefaultSuites()
	}
	return vh.App("mk_srv", vh.Bool(s.Disabled), vh.Z(s.Now), vh.NI(int(s.Vers)), coqU16s(suites), vh.NI(s.Auth),
		vh.Bool(s.ECDHE), vh.Bool(s.ECSign), vh.Bool(s.RSASign), vh.Bool(s.RSADecrypt))
}
func coqBytesList(xs [][]byte) string {
	ys := make([]string, len(xs))
	for i, x := range xs {
		ys[i] = vh.Bytes(x)
	}
	return vh.List0(ys, "(list N)")
}

// ---------------------------------------------------------------- reference (stdlib)
func keystream(aesKey, iv []byte, n int) []byte {
	blk, err := aes.NewCipher(aesKey)
	if err != nil {
		panic(err)
	}
	out := make([]byte, n)
	cipher.NewCTR(blk, iv).XORKeyStream(out, out)
	return out
}
func hmac256(key []byte, msg []byte) []byte {
	m := hmac.New(sha256.New, key)
	m.Write(msg)
	return m.Sum(nil)
}

// refSeal: keyName16 | iv16 | state XOR AES-CTR | HMAC-SHA256(all preceding bytes)
func refSeal(k tls.VerifC31Key, iv, state []byte) []byte {
	out := append([]byte{}, k.Name[:]...)
	out = append(out, iv...)
	ks := keystream(k.AES[:], iv, len(state))
	for i := range state {
		out = append(out, state[i]^ks[i])
	}
	return append(out, hmac256(k.HMAC[:], out)...)
}

// refOpen: the property restated: a ticket opens iff it carries the name of a current key (first
// with that name) and its last 32 bytes are that key's HMAC over everything before them
func refOpen(keys []tls.VerifC31Key, t []byte) (pt []byte, old, ok bool) {
	if len(t) < 64 {
		return nil, false, false
	}
	for i, k := range keys {
		if bytes.Equal(t[:16], k.Name[:]) {
			if !hmac.Equal(t[len(t)-32:], hmac256(k.HMAC[:], t[:len(t)-32])) {
				return nil, false, false
			}
			ct := t[32 : len(t)-32]
			ks := keystream(k.AES[:], t[16:32], len(ct))
			pt = make([]byte, len(ct))
			for j := range ct {
				pt[j] = ct[j] ^ ks[j]
			}
			return pt, i > 0, true
		}
	}
	return nil, false, false
}

// keystream table entries the model needs to open ticket t under keys: one per key whose name matches
func ksTable(keys []tls.VerifC31Key, tickets ...[]byte) string {
	seen := map[string]bool{}
	var xs []string
	for _, t := range tickets {
		if len(t) < 64 {
			continue
		}
		if _, _, ok := refOpen(keys, t); !ok {
			continue // the MAC check fails before any keystream is needed
		}
		for _, k := range keys {
			if bytes.Equal(t[:16], k.Name[:]) {
				id := string(k.AES[:]) + string(t[16:32])
				if !seen[id] {
					seen[id] = true
					xs = append(xs, vh.Pair(vh.Pair(vh.Bytes(k.AES[:]), vh.Bytes(t[16:32])), vh.Bytes(keystream(k.AES[:], t[16:32], len(t)-64))))
				}
				break
			}
		}
	}
	return vh.List0(xs, "((bytes * bytes) * bytes)")
}

// certificate-tail table for the TLS 1.3 state parser of the model
func certTable(plaintexts ...[]byte) string {
	var xs []string
	seen := map[string]bool{}
	for _, p := range plaintexts {
		// version(2) revision(1) suite(2) createdAt(8) secret<1..255>
		if len(p) < 14 || 14+int(p[13]) > len(p) {
			continue
		}
		rest := p[14+int(p[13]):]
		if seen[string(rest)] {
			continue
		}
		seen[string(rest)] = true
		n, ok := tls.VerifC31UnmarshalCertificate(rest)
		r := "None"
		if ok {
			r = vh.Some(vh.NI(n))
		}
		xs = append(xs, vh.Pair(vh.Bytes(rest), r))
	}
	return vh.List0(xs, "(bytes * option N)")
}

// ---------------------------------------------------------------- runners
func run(c *vh.Ctx, in input) {
	switch in.Kind {
	case "seal":
		runSeal(c, in)
	case "open-batch":
		runOpenBatch(c, in)
	case "marshal12":
		runMarshal12(c, in)
	case "unmarshal12":
		runUnmarshal12(c, in)
	case "unmarshal13":
		runUnmarshal13(c, in)
	case "check12":
		runCheck12(c, in)
	case "check13":
		runCheck13(c, in)
	case "keys":
		runKeys(c, in)
	case "shake":
		runShake(c, in)
	default:
		panic("unknown kind " + in.Kind)
	}
}

func runSeal(c *vh.Ctx, in input) {
	keys := keysOf(in.Keys)
	rnd, state := vh.UnHex(in.Rand), vh.UnHex(in.State)
	t, err := tls.VerifC31Seal(keys, rnd, state)
	ks := "(@nil ((bytes * bytes) * bytes))"
	if len(keys) > 0 && len(rnd) >= 16 {
		ks = vh.List([]string{vh.Pair(vh.Pair(vh.Bytes(keys[0].AES[:]), vh.Bytes(rnd[:16])), vh.Bytes(keystream(keys[0].AES[:], rnd[:16], len(state))))})
	}
	c.Case("case", vh.App("CSeal", coqKeys(keys), vh.Bytes(rnd), vh.Bytes(state), ks, vh.OptBytes(t, err == nil)), in,
		fmt.Sprintf("seal|%d|%d|%d", len(keys), len(rnd), len(state)))
	wantOK := len(keys) > 0 && len(rnd) >= 16
	if wantOK != (err == nil) {
		c.Violation("seal-error", fmt.Sprintf("encryptTicket with %d keys and %d random bytes: err=%v", len(keys), len(rnd), err), "case", in)
		return
	}
	if !wantOK {
		return
	}
	if want := refSeal(keys[0], rnd[:16], state); !bytes.Equal(t, want) {
		c.Violation("seal-layout", fmt.Sprintf("ticket %x differs from name|iv|AES-CTR(state)|HMAC-SHA256(preceding) = %x", t, want), "case", in)
	}
	if pt, old := tls.VerifC31Open(keys, t); !bytes.Equal(pt, state) || old || (pt == nil) {
		if !(len(state) == 0 && len(pt) == 0 && pt != nil) {
			c.Violation("seal-open-roundtrip", fmt.Sprintf("a ticket sealed under the first key opens to %x (usedOldKey=%v), state was %x", pt, old, state), "case", in)
		}
	}
}

// one base ticket sealed under SealKeys[0], presented in many modified forms to a server holding Keys
func runOpenBatch(c *vh.Ctx, in input) {
	keys, sealKeys := keysOf(in.Keys), keysOf(in.SealKeys)
	base := vh.UnHex(in.Ticket)
	state := vh.UnHex(in.State)
	var outs []string
	var presented [][]byte
	nt := map[string]bool{}
	for _, m := range in.Muts {
		t := m.apply(base)
		presented = append(presented, t)
		pt, old := tls.VerifC31Open(keys, t)
		o := "None"
		if pt != nil {
			o = vh.Some(vh.Pair(vh.Bytes(pt), vh.Bool(old)))
		}
		outs = append(outs, vh.Pair(coqMut(m), o))
		nt[m.Kind] = true
		c.Eval(fmt.Sprintf("open|%s|%d|%d|%d", m.Kind, m.Pos, m.Len, len(keys)))
		// oracle 1: MAC / name / length rule with the standard library
		wpt, wold, wok := refOpen(keys, t)
		if wok != (pt != nil) || (wok && (!bytes.Equal(wpt, pt) || wold != old)) {
			single := in
			single.Muts = []mutIn{m}
			c.Violation("open-"+m.Kind, fmt.Sprintf("decryptTicket(%s) = (%x, %v); a ticket is authentic iff it names a current key and ends in that key's HMAC over all preceding bytes: expected ok=%v (%x, %v)",
				descMut(m), pt, old, wok, wpt, wold), "case", single)
		}
		// oracle 2 (the property): anything accepted is byte-identical to the ticket that was issued,
		// the sealing key is still held, and the plaintext is the sealed state
		if pt != nil {
			held := false
			for _, k := range keys {
				held = held || (len(sealKeys) > 0 && k == sealKeys[0])
			}
			if !bytes.Equal(t, base) || !held || !bytes.Equal(pt, state) {
				single := in
				single.Muts = []mutIn{m}
				c.Violation("forged-ticket-accepted", fmt.Sprintf("decryptTicket accepted %s (sealing key held: %v, identical to the issued ticket: %v)", descMut(m), held, bytes.Equal(t, base)), "case", single)
			}
		}
	}
	var kinds []string
	for k := range nt {
		kinds = append(kinds, k)
	}
	sort.Strings(kinds)
	c.Case("case", vh.App("COpenBatch", coqKeys(keys), vh.Bytes(base), ksTable(keys, presented...), vh.List0(outs, "(mutn * option (bytes * bool))")), in,
		fmt.Sprintf("openbatch|%d|%d|%s", len(keys), len(base), strings.Join(kinds, ",")))
}

func descMut(m mutIn) string {
	switch m.Kind {
	case "flip":
		return fmt.Sprintf("the ticket with byte %d xor %#02x", m.Pos, m.Mask)
	case "trunc":
		return fmt.Sprintf("the ticket truncated to %d bytes", m.Len)
	case "append":
		return "the ticket with " + m.Data + " appended"
	case "replace":
		return "another ticket"
	}
	return "the unmodified ticket"
}

func coqState12(s tls.VerifC31State12) string {
	return vh.App("mk_state12", vh.NI(int(s.Vers)), vh.NI(int(s.Suite)), vh.N(s.CreatedAt), vh.Bytes(s.Master), coqBytesList(s.Certificates))
}

func runMarshal12(c *vh.Ctx, in input) {
	var certs [][]byte
	for _, x := range in.SCerts {
		certs = append(certs, vh.UnHex(x))
	}
	st := tls.VerifC31State12{Vers: in.SVers, Suite: in.SSuite, CreatedAt: in.SCreated, Master: vh.UnHex(in.SMaster), Certificates: certs}
	out, p := tls.VerifC31MarshalState12(st)
	c.Case("case", vh.App("CMarshal12", coqState12(st), vh.OptBytes(out, !p)), in, fmt.Sprintf("m12|%d|%d", len(st.Master), len(certs)))
	if p {
		if len(st.Master) <= 65535 {
			c.Violation("state12-marshal", "sessionState.marshal panicked", "case", in)
		}
		return
	}
	back, ok := tls.VerifC31UnmarshalState12(out)
	same := ok && back.Vers == st.Vers && back.Suite == st.Suite && back.CreatedAt == st.CreatedAt && bytes.Equal(back.Master, st.Master) && len(back.Certificates) == len(certs)
	for i := range certs {
		same = same && bytes.Equal(back.Certificates[i], certs[i])
	}
	if len(st.Master) > 0 && !same {
		c.Violation("state12-roundtrip", fmt.Sprintf("unmarshal(marshal(state)) = (%+v, %v)", back, ok), "case", in)
	}
	if len(st.Master) == 0 && ok {
		c.Violation("state12-empty-master", "a session state with an empty master secret was accepted", "case", in)
	}
}

func runUnmarshal12(c *vh.Ctx, in input) {
	data := vh.UnHex(in.Data)
	st, ok := tls.VerifC31UnmarshalState12(data)
	o := "None"
	if ok {
		o = vh.Some(coqState12(st))
	}
	c.Case("case", vh.App("CUnmarshal12", vh.Bytes(data), o), in, fmt.Sprintf("u12|%d|%v", len(data), ok))
	if ok {
		// canonical: accepted data re-marshals to itself
		back, p := tls.VerifC31MarshalState12(st)
		if p || !bytes.Equal(back, data) {
			c.Violation("state12-noncanonical", fmt.Sprintf("accepted session state %x re-marshals to %x", data, back), "case", in)
		}
	}
}

func runUnmarshal13(c *vh.Ctx, in input) {
	data := vh.UnHex(in.Data)
	st, ok := tls.VerifC31UnmarshalState13(data)
	o := "None"
	if ok {
		o = vh.Some(vh.Pair(vh.NI(int(st.Suite)), vh.N(st.CreatedAt), vh.Bytes(st.Secret), vh.NI(len(st.Certificates))))
	}
	c.Case("case", vh.App("CUnmarshal13", vh.Bytes(data), certTable(data), o), in, fmt.Sprintf("u13|%d|%v", len(data), ok))
}

func runCheck12(c *vh.Ctx, in input) {
	keys := keysOf(in.Keys)
	t := vh.UnHex(in.Ticket)
	s := *in.Srv
	out := tls.VerifC31Check12(tls.VerifC31Check12In{Keys: keys, Ticket: t, TicketsDisabled: s.Disabled, Now: s.Now, Vers: s.Vers,
		ClientSuites: in.ClientSuites, ServerSuites: s.Suites, ClientAuth: tls.ClientAuthType(s.Auth),
		ECDHEOk: s.ECDHE, ECSignOk: s.ECSign, RSASignOk: s.RSASign, RSADecryptOk: s.RSADecrypt})
	o := "None"
	if out.Resume {
		o = vh.Some(vh.Pair(vh.NI(int(out.SuiteID)), vh.Bool(out.UsedOldKey), vh.Bytes(out.Master)))
	}
	c.Case("case", vh.App("CCheck12", coqKeys(keys), coqSrv(s), vh.Bytes(t), coqU16s(in.ClientSuites), ksTable(keys, t), o), in,
		fmt.Sprintf("check12|%s|%v", in.Scenario, out.Resume))
	// property: resumption only from an authentic, fresh ticket, with the ticket's own version and suite
	pt, old, ok := refOpen(keys, t)
	if out.Resume {
		st, sok := tls.VerifC31UnmarshalState12(pt)
		switch {
		case !ok || !sok:
			c.Violation("resumed-unauthentic-ticket", "checkForResumption accepted a ticket that does not open under the current keys", "case", in)
		case st.Vers != s.Vers || st.Suite != out.SuiteID:
			c.Violation("resume-params-changed", fmt.Sprintf("resumed with version %#04x suite %#04x, the ticket holds %#04x / %#04x", s.Vers, out.SuiteID, st.Vers, st.Suite), "case", in)
		case s.Now-int64(st.CreatedAt) > 7*24*3600:
			c.Violation("resumed-stale-ticket", fmt.Sprintf("ticket created at %d resumed at %d", st.CreatedAt, s.Now), "case", in)
		case s.Disabled:
			c.Violation("resumed-while-disabled", "resumed although SessionTicketsDisabled", "case", in)
		case old != out.UsedOldKey || !bytes.Equal(st.Master, out.Master):
			c.Violation("resume-state", "resumed with a different master secret / usedOldKey than the ticket's", "case", in)
		case !hasSuite(in.ClientSuites, out.SuiteID):
			c.Violation("resumed-suite-not-offered", fmt.Sprintf("resumed with suite %#04x, which this ClientHello does not offer", out.SuiteID), "case", in)
		case !suiteUsable(s, out.SuiteID):
			c.Violation("resumed-suite-not-supported", fmt.Sprintf("resumed with suite %#04x, which the server configuration / key type does not allow in a full handshake", out.SuiteID), "case", in)
		case (len(st.Certificates) == 0 && (s.Auth == 2 || s.Auth == 4)) || (len(st.Certificates) != 0 && s.Auth == 0):
			c.Violation("resumed-against-client-auth", fmt.Sprintf("resumed a session with %d client certificates under ClientAuth=%d", len(st.Certificates), s.Auth), "case", in)
		}
	} else if in.Scenario == "valid" || in.Scenario == "old-key" || in.Scenario == "fresh-boundary" {
		c.Violation("valid-ticket-not-resumed", "an authentic fresh ticket with offered and supported suite was not resumed ("+in.Scenario+")", "case", in)
	}
}

func hash13Size(id uint16) int {
	ids, hs := tls.VerifC31Suites13()
	for i := range ids {
		if ids[i] == id {
			return hs[i]
		}
	}
	return 0
}

func runCheck13(c *vh.Ctx, in input) {
	keys := keysOf(in.Keys)
	s := *in.Srv
	var ids, secrets [][]byte
	for _, x := range in.IDs {
		ids = append(ids, vh.UnHex(x))
	}
	for _, x := range in.Secrets {
		secrets = append(secrets, vh.UnHex(x))
	}
	out := tls.VerifC31Check13(tls.VerifC31Check13In{Keys: keys, TicketsDisabled: s.Disabled, Now: s.Now, ClientAuth: tls.ClientAuthType(s.Auth),
		SuiteID: in.Suite, ModeDHE: !in.ModePSK, Identities: ids, Secrets: secrets, Corrupt: in.Corrupt})
	if out.Panicked {
		c.Violation("check13-panic", "checkForResumption (TLS 1.3) panicked", "case", in)
		return
	}
	o := "(Some None)"
	got := "none"
	switch {
	case out.Err:
		o, got = "None", "abort"
	case out.UsingPSK:
		o, got = vh.Some(vh.Some(vh.NI(out.Selected))), fmt.Sprintf("psk:%d", out.Selected)
	}
	var bs []string
	for i, sec := range secrets {
		good := !(i < len(in.Corrupt) && in.Corrupt[i])
		bs = append(bs, vh.Pair(vh.Bool(good), vh.Bytes(sec)))
	}
	var pts [][]byte
	for _, id := range ids {
		if pt, _, ok := refOpen(keys, id); ok {
			pts = append(pts, pt)
		}
	}
	c.Case("case", vh.App("CCheck13", coqKeys(keys), coqSrv(s), vh.NI(hash13Size(in.Suite)), vh.Bool(!in.ModePSK), coqBytesList(ids),
		vh.List0(bs, "(bool * bytes)"), ksTable(keys, ids...), certTable(pts...), o), in, fmt.Sprintf("check13|%s|%s", in.Scenario, got))
	// the property on the implementation alone
	if out.UsingPSK {
		sel := out.Selected
		ok := sel < len(ids) && sel < len(secrets) && !s.Disabled && !in.ModePSK
		if ok {
			pt, _, opened := refOpen(keys, ids[sel])
			st, parsed := tls.VerifC31UnmarshalState13(pt)
			ok = opened && parsed && s.Now-int64(st.CreatedAt) <= 7*24*3600 && hash13Size(st.Suite) == hash13Size(in.Suite) && hash13Size(st.Suite) != 0 &&
				bytes.Equal(st.Secret, secrets[sel]) && !(sel < len(in.Corrupt) && in.Corrupt[sel])
		}
		if !ok {
			c.Violation("psk-from-unauthentic-ticket", fmt.Sprintf("TLS 1.3 server selected PSK identity %d, which is not an authentic fresh ticket with a matching binder (%s)", sel, in.Scenario), "case", in)
		}
	}
	if out.Err && len(ids) == len(secrets) {
		any := false
		for i, id := range ids {
			if pt, _, ok := refOpen(keys, id); ok && i < 5 {
				_, parsed := tls.VerifC31UnmarshalState13(pt)
				any = any || parsed
			}
		}
		if !any {
			c.Violation("psk-alert-without-authentic-ticket", "TLS 1.3 server aborted although no offered identity is an authentic ticket ("+in.Scenario+")", "case", in)
		}
	}
	if in.Expect != "" && in.Expect != got {
		c.Violation("psk-decision", fmt.Sprintf("TLS 1.3 resumption decision for scenario %s: got %s, the property demands %s", in.Scenario, got, in.Expect), "case", in)
	}
}

func hasSuite(xs []uint16, id uint16) bool {
	for _, x := range xs {
		if x == id {
			return true
		}
	}
	return false
}

// suiteUsable: would a full handshake on this server be allowed to pick the suite
// (configured, known, matching the server key type, allowed for the version)?
func suiteUsable(s srvIn, id uint16) bool {
	suites := s.Suites
	if suites == nil {
		suites = tls.VerifC31DefaultSuites()
	}
	if !hasSuite(suites, id) {
		return false
	}
	for _, f := range tls.VerifC31Suites() {
		if f.ID != id {
			continue
		}
		if f.TLS12Only && s.Vers < 0x0303 {
			return false
		}
		if f.ECDHE {
			return s.ECDHE && ((f.ECSign && s.ECSign) || (!f.ECSign && s.RSASign))
		}
		return !f.DSS && s.RSADecrypt
	}
	return false
}

func keyNames(ks []tls.VerifC31Key) string {
	var xs []string
	for _, k := range ks {
		xs = append(xs, vh.Hex(k.Name[:4]))
	}
	return "[" + strings.Join(xs, " ") + "]"
}

type detRand struct{ r *bytes.Reader }

func (d detRand) Read(p []byte) (int, error) { return d.r.Read(p) }

func runKeys(c *vh.Ctx, in input) {
	rnd := vh.UnHex(in.Rand)
	now := int64(0)
	cfg := &tls.Config{Rand: detRand{bytes.NewReader(rnd)}, Time: func() time.Time { return time.Unix(now, 0) }}
	user := "None"
	if in.UserKey != "" {
		copy(cfg.SessionTicketKey[:], vh.UnHex(in.UserKey))
		user = vh.Some(vh.Bytes(vh.UnHex(in.UserKey)))
	}
	rot, life, _ := tls.VerifC31RotationConstants()
	var ops, outs []string
	var prev []tls.VerifC31Key
	var lastSet []tls.VerifC31Key // keys of the most recent SetSessionTicketKeys
	explicit := in.UserKey != ""
	for i, op := range in.Ops {
		now = op.Now
		if op.Set {
			var ks [][32]byte
			var ts []string
			for _, k := range op.Keys {
				var b [32]byte
				copy(b[:], vh.UnHex(k))
				ks = append(ks, b)
				ts = append(ts, vh.Bytes(b[:]))
			}
			cfg.SetSessionTicketKeys(ks)
			explicit = true
			lastSet = nil
			for _, b := range ks {
				lastSet = append(lastSet, tls.VerifC31KeyFromBytes(b))
			}
			ops = append(ops, vh.App("KSet", vh.Z(op.Now), vh.List0(ts, "(list N)")))
			outs = append(outs, "(@nil tkey)")
			continue
		}
		got := tls.VerifC31TicketKeys(cfg)
		ops = append(ops, vh.App("KGet", vh.Z(op.Now)))
		outs = append(outs, coqKeys(got))
		c.Eval(fmt.Sprintf("keys|%v|%d", explicit, len(got)))
		// property: the sealing key is fresh; keys younger than the lifetime stay; older ones go at a rotation
		if len(got) == 0 {
			c.Violation("keys-empty", "ticketKeys returned no key", "case", in)
			break
		}
		if lastSet != nil {
			same := len(got) == len(lastSet)
			for j := 0; same && j < len(got); j++ {
				same = got[j].Name == lastSet[j].Name && got[j].AES == lastSet[j].AES && got[j].HMAC == lastSet[j].HMAC
			}
			if !same {
				c.Violation("set-keys-not-applied", fmt.Sprintf("step %d: after SetSessionTicketKeys with %d keys the connection keys are %s, not the keys that were set (a removed or replaced decrypt-only key keeps opening tickets)", i, len(lastSet), keyNames(got)), "case", in)
			}
		}
		if !explicit {
			if op.Now-got[0].Created >= rot {
				c.Violation("rotation-stale-head", fmt.Sprintf("step %d: sealing key created at %d still first at %d", i, got[0].Created, op.Now), "case", in)
			}
			for _, p := range prev {
				kept := false
				for _, g := range got {
					kept = kept || g == p
				}
				if !kept && op.Now-p.Created < life {
					c.Violation("rotation-dropped-live-key", fmt.Sprintf("step %d: key created at %d dropped at %d", i, p.Created, op.Now), "case", in)
				}
				if kept && op.Now-p.Created >= life && len(got) > 0 && got[0] != prev[0] {
					c.Violation("rotation-kept-expired-key", fmt.Sprintf("step %d: key created at %d kept through a rotation at %d", i, p.Created, op.Now), "case", in)
				}
			}
			prev = got
		}
	}
	c.Case("case", vh.App("CKeys", user, vh.Bytes(rnd), vh.List0(ops, "kop"), vh.List0(outs, "(list tkey)")), in,
		fmt.Sprintf("keys|%d|%v", len(in.Ops), in.UserKey != ""))
}

// ---------------------------------------------------------------- real handshakes
type cache struct {
	s        *tls.ClientSessionState
	mut      *mutIn
	last     *tls.ClientSessionState // most recent session stored by the client
	override *tls.ClientSessionState // present this session as it is
}

func (cc *cache) Get(string) (*tls.ClientSessionState, bool) {
	if cc.override != nil {
		return cc.override, true
	}
	if cc.s == nil {
		return nil, false
	}
	if cc.mut != nil {
		t, _, _ := tls.VerifC31SessionTicket(cc.s)
		return tls.VerifC31WithTicket(cc.s, cc.mut.apply(t)), true
	}
	return cc.s, true
}
func (cc *cache) Put(_ string, s *tls.ClientSessionState) {
	cc.last = s
	if cc.s == nil {
		cc.s = s
	}
}

type shakeObs struct {
	cErr, sErr       error
	cResumed, sResum bool
	vers, suite      uint16
}

var srvCert *tls.Certificate

func serverCert() tls.Certificate {
	if srvCert == nil {
		key, err := ecdsa.GenerateKey(elliptic.P256(), rand.Reader)
		if err != nil {
			panic(err)
		}
		tmpl := &x509.Certificate{SerialNumber: big.NewInt(1), Subject: pkix.Name{CommonName: "c31"},
			NotBefore: time.Unix(1600000000, 0), NotAfter: time.Unix(2000000000, 0), KeyUsage: x509.KeyUsageDigitalSignature, DNSNames: []string{"c31"}}
		der, err := x509.CreateCertificate(rand.Reader, tmpl, tmpl, &key.PublicKey, key)
		if err != nil {
			panic(err)
		}
		srvCert = &tls.Certificate{Certificate: [][]byte{der}, PrivateKey: key}
	}
	return *srvCert
}

// shake runs one handshake over net.Pipe; a handshake that dies on the pipe deadline (loaded machine)
// is retried up to three times before its error is reported
func shake(scfg, ccfg *tls.Config) (o shakeObs) {
	for attempt := 0; attempt < 3; attempt++ {
		o = shakeOnce(scfg, ccfg)
		if !isTimeout(o.cErr) && !isTimeout(o.sErr) {
			return o
		}
	}
	return o
}

func isTimeout(err error) bool {
	if err == nil {
		return false
	}
	if ne, ok := err.(net.Error); ok && ne.Timeout() {
		return true
	}
	return strings.Contains(err.Error(), "i/o timeout") || strings.Contains(err.Error(), "deadline")
}

func shakeOnce(scfg, ccfg *tls.Config) (o shakeObs) {
	a, b := net.Pipe()
	done := make(chan struct{})
	go func() {
		defer close(done)
		s := tls.Server(b, scfg)
		b.SetDeadline(time.Now().Add(60 * time.Second))
		o.sErr = s.Handshake()
		st := s.ConnectionState()
		o.sResum, o.vers, o.suite = st.DidResume, st.Version, st.CipherSuite
		if o.sErr == nil {
			s.Write([]byte("x"))
		}
		b.Close()
	}()
	cl := tls.Client(a, ccfg)
	a.SetDeadline(time.Now().Add(60 * time.Second))
	o.cErr = cl.Handshake()
	if o.cErr == nil {
		buf := make([]byte, 1)
		_, o.cErr = cl.Read(buf) // also collects TLS 1.3 NewSessionTicket
	}
	o.cResumed = cl.ConnectionState().DidResume
	a.Close()
	<-done
	return o
}

func key32(c *vh.Ctx) (b [32]byte) {
	copy(b[:], c.Bytes(32))
	return
}

// runShake derives the whole scenario set from (vers, seed): every random choice comes from a
// sub-generator seeded with in.Seed so that a replay reproduces it.
func runShake(c *vh.Ctx, in input) {
	g := &gen2{s: in.Seed*0x9E3779B97F4A7C15 + 77}
	vers := in.Vers
	const t0 = int64(1700000000)
	now := t0
	var kA, kB, kF [32]byte
	copy(kA[:], g.bytes(32))
	copy(kB[:], g.bytes(32))
	copy(kF[:], g.bytes(32))
	newServer := func(keys ...[32]byte) *tls.Config {
		cfg := &tls.Config{Certificates: []tls.Certificate{serverCert()}, MinVersion: vers, MaxVersion: vers,
			Time: func() time.Time { return time.Unix(now, 0) }}
		cfg.SetSessionTicketKeys(keys)
		return cfg
	}
	cc := &cache{}
	// the client's clock stays at t0: it keeps offering a ticket that the server must judge stale
	ccfg := &tls.Config{InsecureSkipVerify: true, ServerName: "c31", ClientSessionCache: cc, MinVersion: vers, MaxVersion: vers,
		Time: func() time.Time { return time.Unix(t0, 0) }}
	srvA := newServer(kA)
	first := shake(srvA, ccfg)
	for attempt := 0; attempt < 2 && (first.cErr != nil || first.sErr != nil || cc.s == nil); attempt++ {
		cc.s, cc.last = nil, nil
		first = shake(srvA, ccfg)
	}
	if first.cErr != nil || first.sErr != nil || cc.s == nil {
		c.Violation("handshake-setup", fmt.Sprintf("initial full handshake failed or issued no ticket: client %v server %v", first.cErr, first.sErr), "case", in)
		return
	}
	base, sv, ss := tls.VerifC31SessionTicket(cc.s)
	base = append([]byte{}, base...)
	if sv != vers || first.vers != vers {
		c.Violation("handshake-setup", fmt.Sprintf("negotiated %#04x, wanted %#04x", first.vers, vers), "case", in)
		return
	}
	// a ticket for the same client from a server with other keys
	ccF := &cache{}
	ccfgF := ccfg.Clone()
	ccfgF.ClientSessionCache = ccF
	shake(newServer(kF), ccfgF)
	foreign, _, _ := tls.VerifC31SessionTicket(ccF.s)

	type scen struct {
		name   string
		srv    *tls.Config
		keys   [][32]byte
		mut    mutIn
		dt     int64
		resume bool // what the property demands
		useNew bool // present the ticket issued by the previous handshake (with its own session)
		// earlier SetSessionTicketKeys calls on the SAME Config before keys is set (key history)
		history    [][][32]byte
		useForeign bool // present the other server's (kF) ticket with its own session
	}
	var scens []scen
	add := func(name string, keys [][32]byte, m mutIn, dt int64, resume bool) {
		scens = append(scens, scen{name: name, keys: keys, mut: m, dt: dt, resume: resume})
	}
	A := [][32]byte{kA}
	add("unmodified", A, mutIn{Kind: "none"}, 0, true)
	n := len(base)
	// every byte of name, IV and MAC, and a sample of the ciphertext (all of it in the thorough tier)
	var positions []int
	for p := 0; p < 32; p++ {
		positions = append(positions, p)
	}
	for p := n - 32; p < n; p++ {
		positions = append(positions, p)
	}
	if c.Thorough {
		for p := 32; p < n-32; p++ {
			positions = append(positions, p)
		}
	} else {
		for i := 0; i < 6; i++ {
			positions = append(positions, 32+g.intn(n-64))
		}
	}
	for _, p := range positions {
		add("flip", A, mutIn{Kind: "flip", Pos: p, Mask: 1 << uint(g.intn(8))}, 0, false)
	}
	for _, l := range []int{0, 1, 16, 63, 64, n - 33, n - 32, n - 1} {
		if l == 0 && vers == tls.VersionTLS13 {
			continue // an empty PSK identity is not a well-formed ClientHello (opaque identity<1..2^16-1>)
		}
		add("trunc", A, mutIn{Kind: "trunc", Len: l}, 0, false)
	}
	add("append", A, mutIn{Kind: "append", Data: "00"}, 0, false)
	add("foreign", A, mutIn{Kind: "replace", Data: vh.Hex(foreign)}, 0, false)
	add("rotated-kept", [][32]byte{kB, kA}, mutIn{Kind: "none"}, 0, true)
	add("rotated-out", [][32]byte{kB}, mutIn{Kind: "none"}, 0, false)
	add("rotated-out-2", [][32]byte{kB, kF}, mutIn{Kind: "none"}, 0, false)
	// key histories through the public API on one Config: the primary key stays while decrypt-only keys are
	// removed, replaced or reordered; only the keys of the LAST call may open tickets
	H := func(name string, resume, foreignTicket bool, sets ...[][32]byte) {
		scens = append(scens, scen{name: name, history: sets[:len(sets)-1], keys: sets[len(sets)-1], mut: mutIn{Kind: "none"}, resume: resume, useForeign: foreignTicket})
	}
	H("history-removed-old-key", false, false, [][32]byte{kA}, [][32]byte{kB, kA}, [][32]byte{kB})
	H("history-removed-old-key", false, false, [][32]byte{kB, kA, kF}, [][32]byte{kB, kF})
	H("history-replaced-old-key", false, false, [][32]byte{kB, kA}, [][32]byte{kB, kF})
	H("history-kept-old-key", true, false, [][32]byte{kB, kF, kA}, [][32]byte{kB, kA})
	H("history-reordered", true, false, [][32]byte{kB, kA}, [][32]byte{kA, kB})
	H("history-removed-decrypt-key", false, true, [][32]byte{kA, kF}, [][32]byte{kA})
	H("history-kept-decrypt-key", true, true, [][32]byte{kA, kB, kF}, [][32]byte{kA, kF})
	add("fresh-boundary", A, mutIn{Kind: "none"}, 7*24*3600, true)
	add("stale", A, mutIn{Kind: "none"}, 7*24*3600+1, false)
	// the full handshake that followed the stale ticket issued a new ticket: it must resume
	scens = append(scens, scen{name: "reissued-after-stale", keys: A, dt: 7*24*3600 + 2, resume: true, useNew: true})
	add("day-later", A, mutIn{Kind: "none"}, 24*3600, true)
	add("flip", A, mutIn{Kind: "flip", Pos: n - 1, Mask: 1}, 3*24*3600, false)
	scens = append(scens, scen{name: "reissued-after-tamper", keys: A, dt: 3*24*3600 + 1, resume: true, useNew: true})
	add("rotated-kept", [][32]byte{kB, kA}, mutIn{Kind: "none"}, 2*24*3600, true)
	// the ticket re-issued under the current key keeps working once the old key is gone
	scens = append(scens, scen{name: "reissued-after-rotation", keys: [][32]byte{kB}, dt: 2*24*3600 + 1, resume: true, useNew: true})

	var rows, keySets, issues []string
	keySetIdx := map[string]int{}
	var presented [][]byte
	var allKeys []tls.VerifC31Key
	createdOf := func(t []byte) (uint64, bool) {
		pt, _, ok := refOpen(allKeys, t)
		if !ok {
			return 0, false
		}
		if vers == tls.VersionTLS13 {
			st, ok := tls.VerifC31UnmarshalState13(pt)
			return st.CreatedAt, ok
		}
		st, ok := tls.VerifC31UnmarshalState12(pt)
		return st.CreatedAt, ok
	}
	issuedAt := map[string]int64{} // ticket bytes -> server time of the handshake that issued it
	backdated := func(t []byte) bool {
		cr, ok := createdOf(t)
		at, known := issuedAt[string(t)]
		return ok && known && int64(cr) != at
	}
	var prevIssued *tls.ClientSessionState
	for _, sc := range scens {
		now = t0 + sc.dt
		var srv *tls.Config
		if len(sc.history) > 0 {
			srv = newServer(sc.history[0]...)
			for _, ks := range sc.history[1:] {
				srv.SetSessionTicketKeys(ks)
			}
			srv.SetSessionTicketKeys(sc.keys)
		} else {
			srv = newServer(sc.keys...)
		}
		m := sc.mut
		expectSuite := ss
		if sc.useNew {
			if prevIssued == nil {
				continue
			}
			nt, _, nsuite := tls.VerifC31SessionTicket(prevIssued)
			m = mutIn{Kind: "replace", Data: vh.Hex(nt)}
			cc.override = prevIssued
			expectSuite = nsuite
		} else if sc.useForeign {
			_, _, fsuite := tls.VerifC31SessionTicket(ccF.s)
			m = mutIn{Kind: "replace", Data: vh.Hex(foreign)}
			cc.override = ccF.s
			expectSuite = fsuite
		} else {
			cc.override = nil
		}
		cc.mut = &m
		cc.last = nil
		o := shake(srv, ccfg)
		prevIssued = cc.last
		keys := tls.VerifC31TicketKeys(srv)
		allKeys = append(allKeys, keys...)
		ksTerm := coqKeys(keys)
		idx, ok := keySetIdx[ksTerm]
		if !ok {
			idx = len(keySets)
			keySetIdx[ksTerm] = idx
			keySets = append(keySets, ksTerm)
		}
		t := m.apply(base)
		presented = append(presented, t)
		c.Eval(fmt.Sprintf("shake|%#04x|%s|%d|%d", vers, sc.name, m.Pos, m.Len))
		rows = append(rows, vh.Pair(vh.NI(idx), vh.Z(now), coqMut(m), vh.Bool(o.sResum), vh.NI(int(o.suite))))
		single := in
		single.Scenario = fmt.Sprintf("%s pos=%d len=%d", sc.name, m.Pos, m.Len)
		switch {
		case o.cErr != nil || o.sErr != nil:
			c.Violation("ticket-handshake-error", fmt.Sprintf("TLS %#04x, %s (%s): handshake failed instead of falling back: client %v, server %v", vers, sc.name, descMut(m), o.cErr, o.sErr), "case", single)
		case o.sResum && !sc.resume && strings.HasPrefix(sc.name, "history-"):
			c.Violation("resumed-removed-key-ticket", fmt.Sprintf("TLS %#04x: scenario %s: after SetSessionTicketKeys removed or replaced the key a ticket was sealed under, the server (keys now %s) still resumed from it", vers, sc.name, keyNames(tls.VerifC31TicketKeys(srv))), "case", single)
		case o.sResum && !sc.resume && sc.name == "stale":
			c.Violation("resumed-stale-ticket", fmt.Sprintf("TLS %#04x: server resumed from a ticket issued %d s ago", vers, sc.dt), "case", single)
		case o.sResum && !sc.resume:
			c.Violation("resumed-forged-ticket", fmt.Sprintf("TLS %#04x: server resumed from %s in scenario %s", vers, descMut(m), sc.name), "case", single)
		case !o.sResum && sc.resume && sc.useNew && vers < tls.VersionTLS13 && backdated(t):
			// the known class: the presented ticket was issued by the full handshake that followed an
			// authentic but not resumed ticket and carries that ticket's creation time
			c.Violation("issued-ticket-backdated", fmt.Sprintf("TLS %#04x: scenario %s: the ticket issued by the preceding full handshake carries the creation time of the stale ticket presented there and is not resumed one second later", vers, sc.name), "case", single)
		case !o.sResum && sc.resume && sc.useNew:
			c.Violation("issued-ticket-not-resumed", fmt.Sprintf("TLS %#04x: scenario %s: the ticket issued by the preceding handshake under the current key was not resumed one second later", vers, sc.name), "case", single)
		case !o.sResum && sc.resume:
			c.Violation("valid-ticket-not-resumed", fmt.Sprintf("TLS %#04x: scenario %s: an unmodified ticket under a held key was not resumed", vers, sc.name), "case", single)
		case o.sResum != o.cResumed:
			c.Violation("resume-disagreement", fmt.Sprintf("TLS %#04x, %s: server DidResume=%v, client DidResume=%v", vers, sc.name, o.sResum, o.cResumed), "case", single)
		case o.vers != vers || (o.sResum && o.suite != expectSuite):
			c.Violation("resume-params-changed", fmt.Sprintf("TLS %#04x, %s: negotiated %#04x / suite %#04x, session had %#04x / %#04x", vers, sc.name, o.vers, o.suite, sv, expectSuite), "case", single)
		}
		if vers < tls.VersionTLS13 && sc.name == "rotated-kept" && o.sResum {
			// a ticket opened with an old key is re-issued under the current one
			nt, _, _ := tls.VerifC31SessionTicket(cc.last)
			if len(nt) < 16 || !bytes.Equal(nt[:16], keys[0].Name[:]) {
				c.Violation("old-key-ticket-not-refreshed", "resumption under a rotated (kept) key did not issue a ticket under the current key", "case", single)
			}
		}
		// creation time stamped into a ticket issued by this handshake
		if cc.last != nil && o.cErr == nil && o.sErr == nil {
			nt, _, _ := tls.VerifC31SessionTicket(cc.last)
			issuedAt[string(nt)] = now
			if got, ok := createdOf(nt); ok {
				prev := "None"
				if pc, ok := createdOf(t); ok {
					prev = vh.Some(vh.N(pc))
				}
				issues = append(issues, vh.Pair(vh.Bool(o.sResum), prev, vh.Z(now), vh.N(got)))
				// property: a ticket issued by a full handshake is fresh; a re-wrapped one keeps its age
				_, presentedOpened := createdOf(t)
				switch {
				case o.sResum || int64(got) == now:
				case presentedOpened && vers < tls.VersionTLS13:
					c.Violation("issued-ticket-backdated", fmt.Sprintf("TLS %#04x, %s: the full handshake at %d that followed an authentic but not resumed ticket issued a ticket created at %d (the old ticket's time)", vers, sc.name, now, got), "case", single)
				default:
					c.Violation("issued-ticket-wrong-time", fmt.Sprintf("TLS %#04x, %s: full handshake at %d issued a ticket created at %d although no presented ticket opened", vers, sc.name, now, got), "case", single)
				}
			}
		}
	}
	cc.mut, cc.override = nil, nil
	// model side: the server's decision recomputed from the presented bytes
	var pts [][]byte
	for _, t := range presented {
		if pt, _, ok := refOpen(allKeys, t); ok {
			pts = append(pts, pt)
		}
	}
	s := srvIn{Now: 0, Vers: vers, Suites: nil, Auth: 0, ECDHE: true, ECSign: true}
	hashSize := 0
	ids, hs := tls.VerifC31Suites13()
	for i := range ids {
		if ids[i] == first.suite {
			hashSize = hs[i]
		}
	}
	clientSuites := []uint16{ss}
	c.Case("case", vh.App("CShake", coqSrv(s), vh.NI(hashSize), vh.Bytes(base), coqU16s(clientSuites), ksTable(allKeys, presented...), certTable(pts...),
		vh.List0(keySets, "(list tkey)"), vh.List0(rows, "(N * Z * mutn * bool * N)")), in, fmt.Sprintf("shake|%#04x|%d", vers, len(rows)))
	c.Case("case", vh.App("CIssue", vh.Bool(vers == tls.VersionTLS13), vh.List0(issues, "(bool * option N * Z * N)")), in, fmt.Sprintf("issue|%#04x|%d", vers, len(issues)))
}

// small splitmix generator for per-input sub-streams
type gen2 struct{ s uint64 }

func (g *gen2) u64() uint64 {
	g.s += 0x9E3779B97F4A7C15
	z := g.s
	z = (z ^ (z >> 30)) * 0xBF58476D1CE4E5B9
	z = (z ^ (z >> 27)) * 0x94D049BB133111EB
	return z ^ (z >> 31)
}
func (g *gen2) intn(n int) int { return int(g.u64() % uint64(n)) }
func (g *gen2) bytes(n int) []byte {
	b := make([]byte, n)
	for i := range b {
		b[i] = byte(g.u64())
	}
	return b
}

// ---------------------------------------------------------------- generators
func rkey(c *vh.Ctx, created int64) tls.VerifC31Key {
	k := tls.VerifC31KeyFromBytes(key32(c))
	k.Created = created
	return k
}

func tables(c *vh.Ctx) {
	var sb strings.Builder
	sb.WriteString("(* generated by harness/c31 --tables from the suite tables of the tree under test *)\n")
	sb.WriteString("From Coq Require Import List NArith Bool.\nImport ListNotations.\n")
	sb.WriteString("(* id, (ECDHE, EC signature, DSS, TLS 1.2 only) for every id reachable through cipherSuiteByID *)\n")
	sb.WriteString("Definition suite_flags : list (N * (bool * bool * bool * bool)) := [\n")
	ss := tls.VerifC31Suites()
	for i, s := range ss {
		sep := ";"
		if i == len(ss)-1 {
			sep = ""
		}
		fmt.Fprintf(&sb, "  (%d%%N, (%v, %v, %v, %v))%s\n", s.ID, s.ECDHE, s.ECSign, s.DSS, s.TLS12Only, sep)
	}
	sb.WriteString("].\n(* TLS 1.3 suite id, hash size *)\nDefinition suites13 : list (N * N) := [")
	ids, hs := tls.VerifC31Suites13()
	for i := range ids {
		if i > 0 {
			sb.WriteString("; ")
		}
		fmt.Fprintf(&sb, "(%d%%N, %d%%N)", ids[i], hs[i])
	}
	sb.WriteString("].\n")
	c.WriteGen("C31_gen.v", sb.String())
}

func gen(c *vh.Ctx) {
	if c.Tables {
		tables(c)
		return
	}
	const t0 = int64(1700000000)
	// ---- 1. seal: key counts 0..3, random source lengths around 16, state lengths around the AES block
	for _, nk := range []int{0, 1, 3} {
		for _, rl := range []int{0, 15, 16, 17, 40} {
			for _, sl := range []int{0, 1, 15, 16, 17, 65} {
				if nk != 1 && (rl != 16 || sl != 17) && !(nk == 0 && rl == 16) && !c.Thorough {
					continue
				}
				var ks []keyIn
				for i := 0; i < nk; i++ {
					ks = append(ks, hk(rkey(c, t0)))
				}
				run(c, input{Kind: "seal", Keys: ks, Rand: vh.Hex(c.Bytes(rl)), State: vh.Hex(c.Bytes(sl))})
			}
		}
	}
	// ---- 2. open: every single-byte flip, every truncation, extension, foreign / rotated keys
	nb := 2
	if c.Thorough {
		nb = 8
	}
	for b := 0; b < nb; b++ {
		kA, kB, kC := rkey(c, t0), rkey(c, t0), rkey(c, t0)
		state := c.Bytes([]int{5, 33, 70, 1, 16, 48, 100, 0}[b%8])
		base, err := tls.VerifC31Seal([]tls.VerifC31Key{kA}, c.Bytes(16), state)
		if err != nil {
			panic(err)
		}
		var muts []mutIn
		muts = append(muts, mutIn{Kind: "none"})
		for p := 0; p < len(base); p++ {
			muts = append(muts, mutIn{Kind: "flip", Pos: p, Mask: 1 << uint(c.Intn(8))})
		}
		for l := 0; l < len(base); l++ {
			muts = append(muts, mutIn{Kind: "trunc", Len: l})
		}
		muts = append(muts, mutIn{Kind: "append", Data: "00"}, mutIn{Kind: "append", Data: vh.Hex(c.Bytes(32))})
		other, _ := tls.VerifC31Seal([]tls.VerifC31Key{kB}, c.Bytes(16), state)
		muts = append(muts, mutIn{Kind: "replace", Data: vh.Hex(other)})
		// the MAC of another genuine ticket spliced onto this one
		spl := append(append([]byte{}, base[:len(base)-32]...), other[len(other)-32:]...)
		muts = append(muts, mutIn{Kind: "replace", Data: vh.Hex(spl)})
		run(c, input{Kind: "open-batch", Keys: hkeys([]tls.VerifC31Key{kA}), SealKeys: hkeys([]tls.VerifC31Key{kA}), Ticket: vh.Hex(base), State: vh.Hex(state), Muts: muts})
		// key histories: sealing key first / second / third / gone; a key with the same name but other secrets first
		short := []mutIn{{Kind: "none"}, {Kind: "flip", Pos: 3, Mask: 4}, {Kind: "flip", Pos: len(base) - 1, Mask: 128}, {Kind: "trunc", Len: len(base) - 1}}
		fake := kC
		fake.Name = kA.Name
		for _, ks := range [][]tls.VerifC31Key{{kB, kA}, {kC, kB, kA}, {kB}, {kB, kC}, {}, {fake, kA}, {kA, fake}} {
			run(c, input{Kind: "open-batch", Keys: hkeys(ks), SealKeys: hkeys([]tls.VerifC31Key{kA}), Ticket: vh.Hex(base), State: vh.Hex(state), Muts: short})
		}
	}
	c.Exhaustive("decryptTicket on every single-bit-in-a-byte flip position and every truncation length of sealed tickets")
	// ---- 3. session state codecs
	for i := 0; i < 10; i++ {
		var certs []string
		for j := c.Intn(3); j > 0; j-- {
			certs = append(certs, vh.Hex(c.Bytes(c.Intn(40))))
		}
		run(c, input{Kind: "marshal12", SVers: uint16(0x0301 + c.Intn(3)), SSuite: uint16(c.Intn(65536)), SCreated: c.U64() >> uint(c.Intn(64)),
			SMaster: vh.Hex(c.Bytes([]int{48, 48, 1, 0, 300}[i%5])), SCerts: certs})
	}
	good, _ := tls.VerifC31MarshalState12(tls.VerifC31State12{Vers: 0x0303, Suite: 0xc02b, CreatedAt: uint64(t0), Master: c.Bytes(48), Certificates: [][]byte{c.Bytes(20), c.Bytes(3)}})
	run(c, input{Kind: "unmarshal12", Data: vh.Hex(good)})
	for l := 0; l < len(good); l += 1 + c.Intn(4) {
		run(c, input{Kind: "unmarshal12", Data: vh.Hex(good[:l])})
	}
	run(c, input{Kind: "unmarshal12", Data: vh.Hex(append(append([]byte{}, good...), 0))})
	for i := 0; i < 12; i++ {
		m := append([]byte{}, good...)
		m[[]int{12, 13, 62, 63, 64, 65, 66, 67, 68, 87, 88, 89}[i]] ^= byte(1 << uint(c.Intn(8)))
		run(c, input{Kind: "unmarshal12", Data: vh.Hex(m)})
	}
	good13, _ := tls.VerifC31MarshalState13(tls.VerifC31State13{Suite: 0x1301, CreatedAt: uint64(t0), Secret: c.Bytes(32)})
	good13c, _ := tls.VerifC31MarshalState13(tls.VerifC31State13{Suite: 0x1302, CreatedAt: uint64(t0), Secret: c.Bytes(48), Certificates: [][]byte{c.Bytes(30)}})
	for _, d := range [][]byte{good13, good13c, good} {
		run(c, input{Kind: "unmarshal13", Data: vh.Hex(d)})
		for _, l := range []int{0, 2, 3, 13, 14, len(d) - 1} {
			if l < len(d) {
				run(c, input{Kind: "unmarshal13", Data: vh.Hex(d[:l])})
			}
		}
		for _, p := range []int{0, 1, 2, 13, 14, len(d) - 1} {
			m := append([]byte{}, d...)
			m[p] ^= byte(1 << uint(c.Intn(8)))
			run(c, input{Kind: "unmarshal13", Data: vh.Hex(m)})
		}
		run(c, input{Kind: "unmarshal13", Data: vh.Hex(append(append([]byte{}, d...), 0))})
	}
	run(c, input{Kind: "unmarshal12", Data: vh.Hex(good13)})
	// ---- 4. the TLS 1.2 resumption decision
	genCheck12(c, t0)
	genCheck13(c, t0)
	// ---- 5. key management histories
	genKeys(c, t0)
	// ---- 6. real handshakes
	for _, v := range []uint16{tls.VersionTLS12, tls.VersionTLS13} {
		run(c, input{Kind: "shake", Vers: v, Seed: c.U64() >> 16})
	}
	if c.Thorough {
		for _, v := range []uint16{tls.VersionTLS10, tls.VersionTLS11, tls.VersionTLS12, tls.VersionTLS13} {
			run(c, input{Kind: "shake", Vers: v, Seed: c.U64() >> 16})
		}
	}
}

func genCheck12(c *vh.Ctx, t0 int64) {
	type sflag = tls.VerifC31SuiteFlags
	all := tls.VerifC31Suites()
	byID := map[uint16]sflag{}
	for _, s := range all {
		byID[s.ID] = s
	}
	defaults := tls.VerifC31DefaultSuites()
	kA, kB := rkey(c, t0), rkey(c, t0)
	mkTicket := func(k tls.VerifC31Key, st tls.VerifC31State12) []byte {
		pt, _ := tls.VerifC31MarshalState12(st)
		t, err := tls.VerifC31Seal([]tls.VerifC31Key{k}, c.Bytes(16), pt)
		if err != nil {
			panic(err)
		}
		return t
	}
	base := func() (srvIn, tls.VerifC31State12) {
		return srvIn{Now: t0 + 1000, Vers: 0x0303, Auth: 0, ECDHE: true, ECSign: true, RSASign: true, RSADecrypt: true},
			tls.VerifC31State12{Vers: 0x0303, Suite: 0xc02f, CreatedAt: uint64(t0), Master: c.Bytes(48)}
	}
	emit := func(name string, keys []tls.VerifC31Key, s srvIn, t []byte, cs []uint16) {
		sc := s
		run(c, input{Kind: "check12", Scenario: name, Keys: hkeys(keys), Srv: &sc, Ticket: vh.Hex(t), ClientSuites: cs})
	}
	A := []tls.VerifC31Key{kA}
	s, st := base()
	emit("valid", A, s, mkTicket(kA, st), []uint16{0xc02b, 0xc02f})
	emit("old-key", []tls.VerifC31Key{kB, kA}, s, mkTicket(kA, st), []uint16{0xc02f})
	emit("rotated-out", []tls.VerifC31Key{kB}, s, mkTicket(kA, st), []uint16{0xc02f})
	s2 := s
	s2.Disabled = true
	emit("disabled", A, s2, mkTicket(kA, st), []uint16{0xc02f})
	// freshness boundary
	for _, d := range []int64{7 * 24 * 3600, 7*24*3600 + 1, -5, 3600} {
		s3 := s
		s3.Now = t0 + d
		name := "stale"
		if d <= 7*24*3600 {
			name = "fresh-boundary"
		}
		emit(name, A, s3, mkTicket(kA, st), []uint16{0xc02f})
	}
	// createdAt at the extremes of the modelled range
	for _, cr := range []uint64{0, 1 << 40, 1 << 62, ^uint64(0), ^uint64(0) - 1<<40} {
		st4 := st
		st4.CreatedAt = cr
		emit("created-extreme", A, s, mkTicket(kA, st4), []uint16{0xc02f})
	}
	// version mismatch
	for _, v := range []uint16{0x0301, 0x0302, 0x0304} {
		st5 := st
		st5.Vers = v
		emit("version-mismatch", A, s, mkTicket(kA, st5), []uint16{0xc02f})
	}
	s6 := s
	s6.Vers = 0x0301
	st6 := st
	st6.Vers = 0x0301
	emit("tls12-only-suite-at-tls10", A, s6, mkTicket(kA, st6), []uint16{0xc02f})
	st6.Suite = 0xc013
	emit("valid", A, s6, mkTicket(kA, st6), []uint16{0xc013})
	// suite not offered / not supported / unknown / not usable with the server key
	emit("suite-not-offered", A, s, mkTicket(kA, st), []uint16{0xc02b, 0x009c})
	emit("suite-not-offered", A, s, mkTicket(kA, st), nil)
	s7 := s
	s7.Suites = []uint16{0xc02b, 0x009c}
	emit("suite-not-supported", A, s7, mkTicket(kA, st), []uint16{0xc02f})
	st8 := st
	st8.Suite = 0x1301
	emit("suite-unknown", A, s, mkTicket(kA, st8), []uint16{0x1301})
	for _, fl := range []struct{ e, es, rs, rd bool }{{false, true, true, true}, {true, false, true, true}, {true, true, false, true}, {true, true, true, false}} {
		for _, id := range []uint16{0xc02f, 0xc02b, 0x009c} {
			s9 := s
			s9.ECDHE, s9.ECSign, s9.RSASign, s9.RSADecrypt = fl.e, fl.es, fl.rs, fl.rd
			st9 := st
			st9.Suite = id
			f := byID[id]
			ok := (f.ECDHE && fl.e && ((f.ECSign && fl.es) || (!f.ECSign && fl.rs))) || (!f.ECDHE && !f.DSS && fl.rd)
			inDefaults := false
			for _, d := range defaults {
				inDefaults = inDefaults || d == id
			}
			name := "key-capability"
			if ok && inDefaults {
				name = "valid"
			}
			emit(name, A, s9, mkTicket(kA, st9), []uint16{id})
		}
	}
	// every suite of the table once (server offering exactly that suite)
	ids := []uint16{}
	for _, sf := range all {
		ids = append(ids, sf.ID)
	}
	nIDs := 6
	if c.Thorough {
		nIDs = len(ids)
	}
	for i := 0; i < nIDs; i++ {
		id := ids[(i*7)%len(ids)]
		s10 := s
		s10.Suites = []uint16{id}
		st10 := st
		st10.Suite = id
		emit("suite-table", A, s10, mkTicket(kA, st10), []uint16{id})
	}
	// client certificates in the ticket against the ClientAuth policy
	for auth := 0; auth <= 4; auth++ {
		for _, withCert := range []bool{false, true} {
			s11 := s
			s11.Auth = auth
			st11 := st
			if withCert {
				st11.Certificates = [][]byte{c.Bytes(25)}
			}
			emit("client-cert-policy", A, s11, mkTicket(kA, st11), []uint16{0xc02f})
		}
	}
	// malformed plaintext under a valid seal, and a tampered ticket
	bad, _ := tls.VerifC31Seal(A, c.Bytes(16), c.Bytes(30))
	emit("bad-plaintext", A, s, bad, []uint16{0xc02f})
	st13, _ := tls.VerifC31MarshalState13(tls.VerifC31State13{Suite: 0x1301, CreatedAt: uint64(t0), Secret: c.Bytes(32)})
	t13, _ := tls.VerifC31Seal(A, c.Bytes(16), st13)
	emit("tls13-ticket-at-tls12", A, s, t13, []uint16{0xc02f, 0x1301})
	tam := mkTicket(kA, st)
	tam[40] ^= 2
	emit("tampered", A, s, tam, []uint16{0xc02f})
	emit("empty-ticket", A, s, nil, []uint16{0xc02f})
}

func clientCertDER() []byte {
	key, err := ecdsa.GenerateKey(elliptic.P256(), rand.Reader)
	if err != nil {
		panic(err)
	}
	tmpl := &x509.Certificate{SerialNumber: big.NewInt(7), Subject: pkix.Name{CommonName: "c31 client"},
		NotBefore: time.Unix(1600000000, 0), NotAfter: time.Unix(2000000000, 0), KeyUsage: x509.KeyUsageDigitalSignature,
		ExtKeyUsage: []x509.ExtKeyUsage{x509.ExtKeyUsageClientAuth}}
	der, err := x509.CreateCertificate(rand.Reader, tmpl, tmpl, &key.PublicKey, key)
	if err != nil {
		panic(err)
	}
	return der
}

// the TLS 1.3 resumption decision through the hook
func genCheck13(c *vh.Ctx, t0 int64) {
	kA, kB := rkey(c, t0), rkey(c, t0)
	A := []tls.VerifC31Key{kA}
	type tk struct{ ticket, secret []byte }
	mk := func(k tls.VerifC31Key, suite uint16, created int64, certs [][]byte) tk {
		sec := c.Bytes(hash13Size(suite))
		if len(sec) == 0 {
			sec = c.Bytes(32)
		}
		pt, _ := tls.VerifC31MarshalState13(tls.VerifC31State13{Suite: suite, CreatedAt: uint64(created), Secret: sec, Certificates: certs})
		t, err := tls.VerifC31Seal([]tls.VerifC31Key{k}, c.Bytes(16), pt)
		if err != nil {
			panic(err)
		}
		return tk{t, sec}
	}
	emit := func(name, expect string, keys []tls.VerifC31Key, s srvIn, suite uint16, plain bool, ids, secrets [][]byte, corrupt []bool) {
		sc := s
		var hi, hs []string
		for _, x := range ids {
			hi = append(hi, vh.Hex(x))
		}
		for _, x := range secrets {
			hs = append(hs, vh.Hex(x))
		}
		run(c, input{Kind: "check13", Scenario: name, Expect: expect, Keys: hkeys(keys), Srv: &sc, Suite: suite, ModePSK: plain, IDs: hi, Secrets: hs, Corrupt: corrupt})
	}
	s := srvIn{Now: t0 + 100, Vers: 0x0304}
	for _, suite := range []uint16{0x1301, 0x1302} {
		v := mk(kA, suite, t0, nil)
		one, sec := [][]byte{v.ticket}, [][]byte{v.secret}
		emit("valid", "psk:0", A, s, suite, false, one, sec, nil)
		emit("corrupt-binder", "abort", A, s, suite, false, one, sec, []bool{true})
		emit("wrong-secret", "abort", A, s, suite, false, one, [][]byte{c.Bytes(len(v.secret))}, nil)
		emit("mode-psk-ke-only", "none", A, s, suite, true, one, sec, nil)
		sd := s
		sd.Disabled = true
		emit("disabled", "none", A, sd, suite, false, one, sec, nil)
		emit("old-key", "psk:0", []tls.VerifC31Key{kB, kA}, s, suite, false, one, sec, nil)
		emit("rotated-out", "none", []tls.VerifC31Key{kB}, s, suite, false, one, sec, nil)
		tam := append([]byte{}, v.ticket...)
		tam[len(tam)-5] ^= 8
		emit("tampered", "none", A, s, suite, false, [][]byte{tam}, sec, nil)
		emit("tampered-then-valid", "psk:1", A, s, suite, false, [][]byte{tam, v.ticket}, [][]byte{v.secret, v.secret}, nil)
		emit("garbage-then-valid", "psk:1", A, s, suite, false, [][]byte{c.Bytes(40), v.ticket}, [][]byte{c.Bytes(len(v.secret)), v.secret}, nil)
		emit("truncated", "none", A, s, suite, false, [][]byte{v.ticket[:len(v.ticket)-1]}, sec, nil)
		emit("count-mismatch", "abort", A, s, suite, false, [][]byte{v.ticket, v.ticket}, sec, nil)
		emit("count-mismatch-unauthentic", "abort", A, s, suite, false, [][]byte{c.Bytes(70), c.Bytes(70)}, sec, nil)
		emit("no-identities", "none", A, s, suite, false, nil, nil, nil)
		// at most five identities are examined
		for _, pos := range []int{4, 5} {
			var ids, secs [][]byte
			for i := 0; i < 6; i++ {
				if i == pos {
					ids, secs = append(ids, v.ticket), append(secs, v.secret)
				} else {
					ids, secs = append(ids, c.Bytes(64+c.Intn(30))), append(secs, c.Bytes(len(v.secret)))
				}
			}
			exp := "none"
			if pos < 5 {
				exp = fmt.Sprintf("psk:%d", pos)
			}
			emit("sixth-identity", exp, A, s, suite, false, ids, secs, nil)
		}
		// freshness
		for _, d := range []int64{7 * 24 * 3600, 7*24*3600 + 1} {
			sf := s
			sf.Now = t0 + d
			exp := "psk:0"
			if d > 7*24*3600 {
				exp = "none"
			}
			emit("freshness", exp, A, sf, suite, false, one, sec, nil)
		}
		// suite of the ticket: same hash resumes, other hash or unknown suite does not
		for _, ts := range []uint16{0x1301, 0x1302, 0x1303, 0x1399, 0xc02f} {
			w := mk(kA, ts, t0, nil)
			exp := "none"
			if hash13Size(ts) != 0 && hash13Size(ts) == hash13Size(suite) {
				exp = "psk:0"
			}
			emit("ticket-suite", exp, A, s, suite, false, [][]byte{w.ticket}, [][]byte{w.secret}, nil)
		}
		// a TLS 1.2 session state under a valid seal
		pt12, _ := tls.VerifC31MarshalState12(tls.VerifC31State12{Vers: 0x0303, Suite: 0xc02f, CreatedAt: uint64(t0), Master: c.Bytes(48)})
		t12, _ := tls.VerifC31Seal(A, c.Bytes(16), pt12)
		emit("tls12-ticket", "none", A, s, suite, false, [][]byte{t12}, [][]byte{c.Bytes(32)}, nil)
	}
	// client certificates carried in the ticket against the ClientAuth policy
	der := clientCertDER()
	for auth := 0; auth <= 2; auth++ {
		for _, withCert := range []bool{false, true} {
			var certs [][]byte
			if withCert {
				certs = [][]byte{der}
			}
			v := mk(kA, 0x1301, t0, certs)
			sa := s
			sa.Auth = auth
			exp := "psk:0"
			if (auth == 2 && !withCert) || (auth == 0 && withCert) {
				exp = "none"
			}
			emit("client-cert-policy", exp, A, sa, 0x1301, false, [][]byte{v.ticket}, [][]byte{v.secret}, nil)
		}
	}
}

func genKeys(c *vh.Ctx, t0 int64) {
	day := int64(24 * 3600)
	hist := func(user string, ops []kopIn) {
		run(c, input{Kind: "keys", UserKey: user, Rand: vh.Hex(c.Bytes(32 * 14)), Ops: ops})
	}
	// auto rotation: same day, next day, boundary seconds, a week of daily connections, a long gap
	hist("", []kopIn{{Now: t0}, {Now: t0 + 5}, {Now: t0 + day - 1}, {Now: t0 + day}, {Now: t0 + day + 1}, {Now: t0 + 2*day}})
	var week []kopIn
	for d := int64(0); d <= 9; d++ {
		week = append(week, kopIn{Now: t0 + d*day + d})
	}
	hist("", week)
	hist("", []kopIn{{Now: t0}, {Now: t0 + day}, {Now: t0 + 7*day - 1}, {Now: t0 + 7*day}, {Now: t0 + 8*day}, {Now: t0 + 30*day}})
	// explicit keys switch rotation off; legacy SessionTicketKey
	k1, k2, k3 := vh.Hex(c.Bytes(32)), vh.Hex(c.Bytes(32)), vh.Hex(c.Bytes(32))
	hist("", []kopIn{{Now: t0}, {Set: true, Now: t0 + 1, Keys: []string{k1}}, {Now: t0 + 2}, {Now: t0 + 3*day}, {Set: true, Now: t0 + 3*day, Keys: []string{k2, k1}}, {Now: t0 + 9*day}, {Set: true, Now: t0 + 9*day, Keys: []string{k3}}, {Now: t0 + 9*day}})
	hist(vh.Hex(c.Bytes(32)), []kopIn{{Now: t0}, {Now: t0 + 2*day}, {Set: true, Now: t0 + 2*day, Keys: []string{k1, k2}}, {Now: t0 + 3*day}})
	// the same Config through histories that keep the primary key while removing / reordering / replacing
	// decrypt-only keys
	k0 := vh.Hex(c.Bytes(32))
	set := func(t int64, ks ...string) kopIn { return kopIn{Set: true, Now: t, Keys: ks} }
	get := func(t int64) kopIn { return kopIn{Now: t} }
	hist("", []kopIn{set(t0, k1), get(t0), set(t0+1, k2, k1), get(t0 + 1), set(t0+2, k2), get(t0 + 2)})
	hist("", []kopIn{set(t0, k1, k0), get(t0), set(t0+1, k1), get(t0 + 1)})
	hist("", []kopIn{set(t0, k2, k1, k0), get(t0), set(t0+1, k2, k0), get(t0 + 1), set(t0+2, k0, k2), get(t0 + 2)})
	hist("", []kopIn{set(t0, k2, k1), get(t0), set(t0+1, k2, k3), get(t0 + 1), set(t0+2, k2, k3, k1), get(t0 + 2)})
	if c.Thorough {
		for i := 0; i < 20; i++ {
			var ops []kopIn
			t := t0
			for j := 0; j < 8; j++ {
				t += int64(c.Pick([]int{0, 1, 3600, 86399, 86400, 86401, 200000, 604800, 700000}))
				if c.Intn(9) == 0 {
					ops = append(ops, kopIn{Set: true, Now: t, Keys: []string{vh.Hex(c.Bytes(32))}})
				} else {
					ops = append(ops, kopIn{Now: t})
				}
			}
			hist("", ops)
		}
	}
}

func replay(c *vh.Ctx, raw json.RawMessage) {
	var in input
	if err := json.Unmarshal(raw, &in); err != nil {
		panic(err)
	}
	run(c, in)
}

func main() { vh.Main("C31", gen, replay) }
