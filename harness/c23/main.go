// C23 harness: the zcrypto RSA fork (math/big rewrite of crypto/rsa).
//
// Correspondence streams (model coq/model/C23.v):
//
//	bigcase  : math/big primitives the fork is written in (Exp, ModInverse, Bytes/SetBytes/BitLen)
//	pubcase  : checkPub, encrypt, pkcs1v15ConstructEM, VerifyPKCS1v15, EncryptPKCS1v15 on
//	           generated and malformed public keys
//	privcase : decrypt (CRT and plain branch, with and without re-encryption check),
//	           SignPKCS1v15, DecryptPKCS1v15, Precompute
//
// Direct oracle (implementation only): Go's crypto/rsa as the reference for every
// operation on generated keys (2..5 primes, with/without Precompute, e in {3, 65537,
// random 31-bit, large}), an independent math/big RFC 8017 reference where the
// exponent exceeds crypto/rsa's limit, and "error, never panic" on malformed keys.
//
//go:debug rsa1024min=0
package main

import (
	"bytes"
	"crypto"
	_ "crypto/md5"
	srsa "crypto/rsa"
	_ "crypto/sha1"
	"crypto/sha256"
	_ "crypto/sha512"
	"encoding/hex"
	"encoding/json"
	"fmt"
	"math/big"
	"strings"

	zrsa "github.com/zmap/zcrypto/rsa"
	"verifharness/vh"
)

// ---------------------------------------------------------------- small deterministic PRNG
type rng struct{ s uint64 }

func (r *rng) U64() uint64 {
	r.s += 0x9E3779B97F4A7C15
	z := r.s
	z = (z ^ (z >> 30)) * 0xBF58476D1CE4E5B9
	z = (z ^ (z >> 27)) * 0x94D049BB133111EB
	return z ^ (z >> 31)
}
func (r *rng) Intn(n int) int {
	if n <= 0 {
		return 0
	}
	return int(r.U64() % uint64(n))
}
func (r *rng) Bytes(n int) []byte {
	b := make([]byte, n)
	for i := range b {
		b[i] = byte(r.U64())
	}
	return b
}
func (r *rng) Read(p []byte) (int, error) {
	for i := range p {
		p[i] = byte(r.U64())
	}
	return len(p), nil
}

// ---------------------------------------------------------------- keys
// big integers travel as decimal strings; "" = nil pointer
type keyJ struct {
	N, E, D        string
	Primes         []string
	Dp, Dq, Qinv   string // explicit Precomputed values ("" = nil)
	Precompute     bool   // call Precompute() after construction
	StdUnsupported bool   `json:",omitempty"`
}

func bigS(x *big.Int) string {
	if x == nil {
		return ""
	}
	return x.String()
}
func sBig(s string) *big.Int {
	if s == "" {
		return nil
	}
	x, ok := new(big.Int).SetString(s, 10)
	if !ok {
		panic("bad integer " + s)
	}
	return x
}

func (k keyJ) pub() *zrsa.PublicKey { return &zrsa.PublicKey{N: sBig(k.N), E: sBig(k.E)} }
func (k keyJ) priv() *zrsa.PrivateKey {
	p := &zrsa.PrivateKey{PublicKey: *k.pub(), D: sBig(k.D)}
	for _, s := range k.Primes {
		p.Primes = append(p.Primes, sBig(s))
	}
	p.Precomputed.Dp, p.Precomputed.Dq, p.Precomputed.Qinv = sBig(k.Dp), sBig(k.Dq), sBig(k.Qinv)
	if k.Precompute {
		p.Precompute()
	}
	return p
}

// std key (nil when the exponent does not fit crypto/rsa)
func (k keyJ) std() *srsa.PrivateKey {
	e := sBig(k.E)
	if e == nil || !e.IsInt64() || e.Int64() > 1<<31-1 || e.Int64() < 2 {
		return nil
	}
	p := &srsa.PrivateKey{PublicKey: srsa.PublicKey{N: sBig(k.N), E: int(e.Int64())}, D: sBig(k.D)}
	for _, s := range k.Primes {
		p.Primes = append(p.Primes, sBig(s))
	}
	if k.Precompute {
		p.Precompute()
	}
	return p
}

func genPrime(r *rng, bits int) *big.Int {
	for {
		b := r.Bytes((bits + 7) / 8)
		top := uint(bits % 8)
		if top == 0 {
			top = 8
		}
		b[0] &= byte(1<<top - 1)
		if top >= 2 {
			b[0] |= 3 << (top - 2)
		} else {
			b[0] |= 1
			if len(b) > 1 {
				b[1] |= 0x80
			}
		}
		b[len(b)-1] |= 1
		p := new(big.Int).SetBytes(b)
		if p.ProbablyPrime(20) {
			return p
		}
	}
}

var one = big.NewInt(1)

// genKey builds a key of exactly `bits` bits with `nprimes` distinct primes and public exponent e
// (e == nil: pick by kind).  D = e^-1 mod prod(p_i - 1), as GenerateMultiPrimeKey does.
func genKey(r *rng, bits, nprimes int, ekind string) keyJ {
	for {
		var e *big.Int
		switch ekind {
		case "3":
			e = big.NewInt(3)
		case "65537":
			e = big.NewInt(65537)
		case "r31":
			e = new(big.Int).SetUint64(r.U64()%(1<<31-5) | 1)
			if e.Cmp(big.NewInt(3)) < 0 {
				e = big.NewInt(3)
			}
		case "r40":
			e = new(big.Int).SetUint64((r.U64() % (1 << 40)) | 1<<39 | 1)
		case "big":
			e = new(big.Int).SetBytes(r.Bytes(9 + r.Intn(4)))
			e.SetBit(e, 64, 1)
			e.SetBit(e, 0, 1)
		case "huge": // as long as the modulus
			e = new(big.Int).SetBytes(r.Bytes(bits/8 - 1))
			e.SetBit(e, bits-10, 1)
			e.SetBit(e, 0, 1)
		default:
			panic(ekind)
		}
		primes := make([]*big.Int, nprimes)
		todo := bits
		if nprimes >= 7 {
			todo += (nprimes - 2) / 5
		}
		for i := range primes {
			primes[i] = genPrime(r, todo/(nprimes-i))
			todo -= primes[i].BitLen()
		}
		distinct := true
		for i := range primes {
			for j := 0; j < i; j++ {
				if primes[i].Cmp(primes[j]) == 0 {
					distinct = false
				}
			}
		}
		if !distinct {
			continue
		}
		n, tot := big.NewInt(1), big.NewInt(1)
		for _, p := range primes {
			n.Mul(n, p)
			tot.Mul(tot, new(big.Int).Sub(p, one))
		}
		if n.BitLen() != bits {
			continue
		}
		d := new(big.Int).ModInverse(e, tot)
		if d == nil {
			continue
		}
		k := keyJ{N: n.String(), E: e.String(), D: d.String()}
		for _, p := range primes {
			k.Primes = append(k.Primes, p.String())
		}
		return k
	}
}

// ---------------------------------------------------------------- Coq printing
// bz prints an integer; large ones as base-2^32 limbs (zl), which Coq parses quickly
func bz(x *big.Int) string {
	if x.BitLen() <= 62 {
		return vh.BigZ(x)
	}
	limbs := limbs56(new(big.Int).Abs(x).Bytes())
	t := "(zl [" + strings.Join(limbs, ";") + "]%N)"
	if x.Sign() < 0 {
		return "(Z.opp " + t + ")"
	}
	return t
}

// big-endian base-2^56 limbs of a byte string
func limbs56(b []byte) []string {
	for len(b)%7 != 0 {
		b = append([]byte{0}, b...)
	}
	limbs := make([]string, 0, len(b)/7)
	for i := 0; i < len(b); i += 7 {
		var v uint64
		for j := 0; j < 7; j++ {
			v = v<<8 | uint64(b[i+j])
		}
		limbs = append(limbs, fmt.Sprint(v))
	}
	return limbs
}

// cb prints a byte string as (bl len limbs)
func cb(b []byte) string {
	if len(b) == 0 {
		return "(@nil N)"
	}
	if len(b) <= 8 {
		return vh.Bytes(b)
	}
	return fmt.Sprintf("(bl %d%%nat [%s]%%N)", len(b), strings.Join(limbs56(b), ";"))
}

func optZ(x *big.Int) string {
	if x == nil {
		return "None"
	}
	return vh.Some(bz(x))
}
func coqPub(k keyJ) string { return vh.App("mk_pub", optZ(sBig(k.N)), optZ(sBig(k.E))) }
func coqPriv(p *zrsa.PrivateKey) string {
	ps := make([]string, len(p.Primes))
	for i, x := range p.Primes {
		ps[i] = bz(x)
	}
	return vh.App("mk_priv", optZ(p.N), optZ(p.E), optZ(p.D), vh.List0(ps, "Z"),
		optZ(p.Precomputed.Dp), optZ(p.Precomputed.Dq), optZ(p.Precomputed.Qinv))
}

type obs struct {
	kind string // bytes | err | panic | big
	b    []byte
	big  []*big.Int
}

func (o obs) coq() string {
	switch o.kind {
	case "bytes":
		return vh.App("OBytes", cb(o.b))
	case "err":
		return "OErr"
	case "panic":
		return "OPanic"
	}
	xs := make([]string, len(o.big))
	for i, x := range o.big {
		xs[i] = optZ(x)
	}
	return vh.App("OBig", vh.List0(xs, "bigint"))
}
func (o obs) String() string {
	switch o.kind {
	case "bytes":
		return "ok:" + hex.EncodeToString(o.b)
	case "big":
		s := []string{}
		for _, x := range o.big {
			s = append(s, bigS(x))
		}
		return "big:" + strings.Join(s, ",")
	}
	return o.kind
}

// run f, mapping (bytes, error, panic) to an observation
func observe(f func() ([]byte, error)) (o obs) {
	defer func() {
		if r := recover(); r != nil {
			o = obs{kind: "panic"}
		}
	}()
	b, err := f()
	if err != nil {
		return obs{kind: "err"}
	}
	return obs{kind: "bytes", b: b}
}
func observeErr(f func() error) obs {
	return observe(func() ([]byte, error) { return nil, f() })
}

// ---------------------------------------------------------------- correspondence cases
// byte-string specification, expanded identically by bs_eval in the model
type spec struct {
	T    string `json:"t"` // lit | ref | gen | xor | drop | app
	Hex  string `json:"hex,omitempty"`
	Ref  int    `json:"ref,omitempty"`
	Seed uint64 `json:"seed,omitempty"`
	Len  int    `json:"len,omitempty"`
	Pos  int    `json:"pos,omitempty"`
	Mask int    `json:"mask,omitempty"`
	S    *spec  `json:"s,omitempty"`
	S2   *spec  `json:"s2,omitempty"`
}

func lit(b []byte) *spec             { return &spec{T: "lit", Hex: vh.Hex(b)} }
func ref(i int) *spec                { return &spec{T: "ref", Ref: i} }
func bgen(seed uint64, n int) *spec  { return &spec{T: "gen", Seed: seed & 0x7fffffff, Len: n} }
func (s *spec) xor(pos, m int) *spec { return &spec{T: "xor", S: s, Pos: pos, Mask: m} }
func (s *spec) drop(n int) *spec     { return &spec{T: "drop", S: s, Len: n} }
func app(a, b *spec) *spec           { return &spec{T: "app", S: a, S2: b} }

func (s *spec) eval(env [][]byte) []byte {
	if s == nil {
		return nil
	}
	switch s.T {
	case "lit":
		return vh.UnHex(s.Hex)
	case "ref":
		if s.Ref < len(env) {
			return append([]byte{}, env[s.Ref]...)
		}
		return nil
	case "gen":
		x := s.Seed
		b := make([]byte, s.Len)
		for i := range b {
			x = (x*1103515245 + 12345) & 0x7fffffff
			b[i] = byte(x >> 16)
		}
		return b
	case "xor":
		b := s.S.eval(env)
		if s.Pos < len(b) {
			b[s.Pos] ^= byte(s.Mask)
		}
		return b
	case "drop":
		b := s.S.eval(env)
		if s.Len >= len(b) {
			return []byte{}
		}
		return b[s.Len:]
	case "app":
		return append(s.S.eval(env), s.S2.eval(env)...)
	}
	panic("bad spec " + s.T)
}

func (s *spec) coq() string {
	if s == nil {
		return "(BLit (@nil N))"
	}
	switch s.T {
	case "lit":
		return vh.App("BLit", cb(vh.UnHex(s.Hex)))
	case "ref":
		return vh.App("BRef", vh.Nat(s.Ref))
	case "gen":
		return vh.App("BGen", vh.N(s.Seed), vh.Nat(s.Len))
	case "xor":
		return vh.App("BXor", s.S.coq(), vh.Nat(s.Pos), vh.NI(s.Mask))
	case "drop":
		return vh.App("BDrop", s.S.coq(), vh.Nat(s.Len))
	case "app":
		return vh.App("BApp", s.S.coq(), s.S2.coq())
	}
	panic("bad spec " + s.T)
}

type opJ struct {
	Op    string `json:"op"`
	Hash  int    `json:"hash,omitempty"`
	A     *spec  `json:"a,omitempty"`
	B     *spec  `json:"b,omitempty"`
	Check bool   `json:"check,omitempty"`
}

type input struct {
	Kind   string   `json:"kind"` // big | pubgroup | privgroup | oracle | malformed
	Op     string   `json:"op,omitempty"`
	Key    keyJ     `json:"key"`
	Env    []string `json:"env,omitempty"` // hex literals referenced by the ops
	Ops    []opJ    `json:"ops,omitempty"`
	X      string   `json:"x,omitempty"` // decimal (kind big)
	Y      string   `json:"y,omitempty"`
	M      string   `json:"m,omitempty"`
	Seed   uint64   `json:"seed,omitempty"`
	Expect string   `json:"expect,omitempty"`
}

func bigCase(c *vh.Ctx, in input) {
	x, y, m := sBig(in.X), sBig(in.Y), sBig(in.M)
	var o obs
	var term string
	switch in.Op {
	case "exp":
		func() {
			defer func() {
				if recover() != nil {
					o = obs{kind: "panic"}
				}
			}()
			o = obs{kind: "big", big: []*big.Int{new(big.Int).Exp(x, y, m)}}
		}()
		term = vh.App("BExp", bz(x), bz(y), bz(m))
	case "inv":
		func() {
			defer func() {
				if recover() != nil {
					o = obs{kind: "panic"}
				}
			}()
			o = obs{kind: "big", big: []*big.Int{new(big.Int).ModInverse(x, m)}}
		}()
		term = vh.App("BInv", bz(x), bz(m))
	case "bytes":
		b := x.Bytes()
		o = obs{kind: "big", big: []*big.Int{big.NewInt(int64(x.BitLen())), new(big.Int).SetBytes(b), big.NewInt(int64(len(b)))}}
		term = vh.App("BBytes", bz(x))
	default:
		panic(in.Op)
	}
	nk := ""
	if in.Op != "bytes" && (y == nil || y.Sign() < 0 || m.Sign() <= 0 || x.Sign() < 0) {
		nk = in.Op + in.X + "|" + in.Y + "|" + in.M
	} else if in.Op == "bytes" {
		nk = "b" + in.X
	}
	c.Case("bigcase", vh.Pair(term, o.coq()), in, nk)
}

var hashOf = map[int]crypto.Hash{}

func init() {
	for h := crypto.Hash(1); h < 20; h++ {
		hashOf[int(h)] = h
	}
}

// finite random source: io.ReadFull fails when it runs dry
type finite struct{ buf []byte }

func (f *finite) Read(p []byte) (int, error) {
	if len(f.buf) == 0 {
		return 0, fmt.Errorf("random stream exhausted")
	}
	n := copy(p, f.buf)
	f.buf = f.buf[n:]
	return n, nil
}

// one group = one key, literal environment, operations
type group struct {
	c     *vh.Ctx
	in    input
	env   [][]byte
	pub   *zrsa.PublicKey
	priv  *zrsa.PrivateKey
	terms []string
}

func newPubGroup(c *vh.Ctx, k keyJ) *group {
	return &group{c: c, in: input{Kind: "pubgroup", Key: keyJ{N: k.N, E: k.E}}, pub: k.pub()}
}
func newPrivGroup(c *vh.Ctx, k keyJ) *group {
	return &group{c: c, in: input{Kind: "privgroup", Key: k}, priv: k.priv()}
}

// lit adds a literal to the environment and returns a reference to it
func (g *group) lit(b []byte) *spec {
	g.env = append(g.env, append([]byte{}, b...))
	g.in.Env = append(g.in.Env, vh.Hex(b))
	return ref(len(g.env) - 1)
}

func (g *group) add(op opJ) obs {
	var o obs
	var term string
	a, b := op.A.eval(g.env), op.B.eval(g.env)
	if g.pub != nil {
		pub := g.pub
		switch op.Op {
		case "checkpub":
			o = observeErr(func() error { return zrsa.VerifCheckPub(pub) })
			term = "PCheckPub"
		case "encrypt":
			o = observe(func() ([]byte, error) { return zrsa.VerifEncrypt(pub, a) })
			term = vh.App("PEncrypt", op.A.coq())
		case "em":
			o = observe(func() ([]byte, error) { return zrsa.VerifConstructEM(pub, crypto.Hash(op.Hash), a) })
			term = vh.App("PConstructEM", vh.NI(op.Hash), op.A.coq())
		case "verify15":
			o = observeErr(func() error { return zrsa.VerifyPKCS1v15(pub, crypto.Hash(op.Hash), a, b) })
			term = vh.App("PVerify15", vh.NI(op.Hash), op.A.coq(), op.B.coq())
		case "encrypt15": // a = random stream, b = message
			o = observe(func() ([]byte, error) { return zrsa.EncryptPKCS1v15(&finite{buf: a}, pub, b) })
			term = vh.App("PEncrypt15", op.A.coq(), op.B.coq())
		default:
			panic(op.Op)
		}
		g.c.Stat("pub."+op.Op+"."+o.kind, 1)
	} else {
		p := g.priv
		switch op.Op {
		case "decrypt":
			o = observe(func() ([]byte, error) { return zrsa.VerifDecrypt(p, a, op.Check) })
			term = vh.App("VDecrypt", op.A.coq(), vh.Bool(op.Check))
		case "sign15":
			o = observe(func() ([]byte, error) { return zrsa.SignPKCS1v15(nil, p, crypto.Hash(op.Hash), a) })
			term = vh.App("VSign15", vh.NI(op.Hash), op.A.coq())
		case "decrypt15":
			o = observe(func() ([]byte, error) { return zrsa.DecryptPKCS1v15(nil, p, a) })
			term = vh.App("VDecrypt15", op.A.coq())
		case "precompute":
			func() {
				defer func() {
					if recover() != nil {
						o = obs{kind: "panic"}
					}
				}()
				q := *p
				q.Primes = append([]*big.Int{}, p.Primes...)
				q.Precompute()
				o = obs{kind: "big", big: []*big.Int{q.Precomputed.Dp, q.Precomputed.Dq, q.Precomputed.Qinv}}
			}()
			term = "VPrecompute"
		default:
			panic(op.Op)
		}
		g.c.Stat("priv."+op.Op+"."+o.kind, 1)
	}
	// every eighth long output is compared byte by byte, the others by length and checksum
	full := len(g.terms)%8 == 0
	g.terms = append(g.terms, vh.Pair(term, o.coqSum(full)))
	g.in.Ops = append(g.in.Ops, op)
	g.c.Stat("ops", 1)
	return o
}

func (g *group) flush() {
	if len(g.terms) == 0 {
		return
	}
	envs := make([]string, len(g.env))
	for i, e := range g.env {
		envs[i] = cb(e)
	}
	js, _ := json.Marshal(g.in)
	if g.pub != nil {
		g.c.Case("pubcase", vh.Pair(coqPub(g.in.Key), vh.List0(envs, "bytes"), vh.List0(g.terms, "(pubop * obs)")), g.in, string(js))
	} else {
		g.c.Case("privcase", vh.Pair(coqPriv(g.priv), vh.List0(envs, "bytes"), vh.List0(g.terms, "(privop * obs)")), g.in, string(js))
	}
	g.terms, g.in.Ops = nil, nil
}

func bsum(b []byte) uint64 {
	h := uint64(7)
	for _, x := range b {
		h = (h*31 + uint64(x) + 1) & 0x7fffffff
	}
	return h
}

func (o obs) coqSum(full bool) string {
	if o.kind == "bytes" && len(o.b) > 8 && !full {
		return vh.App("OSum", vh.NI(len(o.b)), vh.N(bsum(o.b)))
	}
	return o.coq()
}

// ---------------------------------------------------------------- generators
func genBig(c *vh.Ctx) {
	r := &rng{s: c.U64()}
	rb := func(maxBits int) *big.Int {
		n := 1 + r.Intn(maxBits)
		x := new(big.Int).SetBytes(r.Bytes((n + 7) / 8))
		x.Rsh(x, uint((8-n%8)%8))
		return x
	}
	sgn := func(x *big.Int) *big.Int {
		if r.Intn(4) == 0 {
			return new(big.Int).Neg(x)
		}
		return x
	}
	nexp := 120
	if c.Thorough {
		nexp = 1500
	}
	small := []int64{0, 1, 2, 3, -1, -2, -3, 4, 7, 15, 16}
	// exhaustive small grid
	for _, x := range []int64{0, 1, 2, 3, 5, -2, -3} {
		for _, y := range []int64{0, 1, 2, 3, -1, -2, 5} {
			for _, m := range []int64{0, 1, 2, 3, 4, 7, 15, -7, -1} {
				bigCase(c, input{Kind: "big", Op: "exp", X: fmt.Sprint(x), Y: fmt.Sprint(y), M: fmt.Sprint(m)})
			}
		}
	}
	for _, x := range small {
		for _, m := range small {
			bigCase(c, input{Kind: "big", Op: "inv", X: fmt.Sprint(x), M: fmt.Sprint(m)})
		}
	}
	for i := 0; i < nexp; i++ {
		x, y, m := sgn(rb(200)), sgn(rb(12)), sgn(rb(200))
		if r.Intn(3) == 0 {
			y = sgn(rb(160))
		}
		if m.Sign() == 0 { // x**y without a modulus must stay small
			x = big.NewInt(int64(r.Intn(50)) - 10)
			if y.BitLen() > 6 {
				y = big.NewInt(int64(r.Intn(60)) - 5)
			}
		}
		bigCase(c, input{Kind: "big", Op: "exp", X: x.String(), Y: y.String(), M: m.String()})
		bigCase(c, input{Kind: "big", Op: "inv", X: sgn(rb(160)).String(), M: sgn(rb(160)).String()})
	}
	for k := 0; k <= 20; k++ {
		for _, d := range []int64{-1, 0, 1} {
			x := new(big.Int).Lsh(one, uint(8*k))
			x.Add(x, big.NewInt(d))
			bigCase(c, input{Kind: "big", Op: "bytes", X: x.String()})
			bigCase(c, input{Kind: "big", Op: "bytes", X: new(big.Int).Neg(x).String()})
			y := new(big.Int).Lsh(one, uint(8*k+3))
			y.Add(y, big.NewInt(d))
			bigCase(c, input{Kind: "big", Op: "bytes", X: y.String()})
		}
	}
	for i := 0; i < 40; i++ {
		bigCase(c, input{Kind: "big", Op: "bytes", X: sgn(rb(1100)).String()})
	}
}

var prefixedHashes = []int{2, 3, 4, 5, 6, 7, 8, 9}

func digest(r *rng, h int) []byte {
	if h == 0 {
		return r.Bytes(r.Intn(40))
	}
	return r.Bytes(crypto.Hash(h).Size())
}

// malformed public keys: nil / zero / negative / even / tiny N, nil / zero / one / negative / two E
func malformedKeys(r *rng, good keyJ) []keyJ {
	n := sBig(good.N)
	var ks []keyJ
	ns := []string{"", "0", "1", new(big.Int).Neg(n).String(), new(big.Int).Add(n, one).String(), "255", "65537", good.N}
	es := []string{"", "0", "1", "-1", "-3", "-65537", "2", good.E}
	for _, nn := range ns {
		for _, ee := range es {
			if nn == good.N && ee == good.E {
				continue
			}
			ks = append(ks, keyJ{N: nn, E: ee})
		}
	}
	return ks
}

func genPub(c *vh.Ctx) {
	r := &rng{s: c.U64()}
	type shape struct {
		bits, np int
		e        string
	}
	shapes := []shape{{512, 2, "65537"}, {768, 2, "3"}, {1024, 2, "65537"}, {1024, 3, "r40"}, {520, 2, "big"}, {1016, 2, "r31"}, {2048, 2, "65537"}}
	if c.Thorough {
		shapes = append(shapes, shape{1024, 2, "big"}, shape{777, 3, "3"}, shape{1024, 4, "r31"}, shape{640, 2, "huge"},
			shape{2048, 2, "big"}, shape{1536, 3, "65537"}, shape{3072, 2, "65537"}, shape{4096, 2, "3"}, shape{1024, 2, "huge"})
	}
	reps := 1
	if c.Thorough {
		reps = 3
	}
	seed := func() uint64 { return r.U64() & 0x7fffffff }
	var good keyJ
	for rep := 0; rep < reps; rep++ {
		for si, sh := range shapes {
			k := genKey(r, sh.bits, sh.np, sh.e)
			kp := k
			kp.Precompute = true
			if good.N == "" {
				good = k
			}
			priv := kp.priv()
			n := sBig(k.N)
			ksz := (n.BitLen() + 7) / 8
			g := newPubGroup(c, k)
			g.add(opJ{Op: "checkpub"})
			// raw encrypt: below N, at/above N, short, leading zeros, longer than k
			m := bigRand(r, n)
			for _, pt := range [][]byte{n.Bytes(), new(big.Int).Sub(n, one).Bytes(), new(big.Int).Add(n, one).Bytes(), m.Bytes()} {
				g.add(opJ{Op: "encrypt", A: g.lit(pt)})
			}
			for _, s := range []*spec{lit(nil), lit([]byte{0}), lit([]byte{1}), lit([]byte{0, 0, 2}), app(lit(make([]byte, 5)), ref(3)),
				app(lit([]byte{1}), bgen(seed(), ksz)), bgen(seed(), ksz-1), bgen(seed(), ksz-1), bgen(seed(), ksz/2), app(lit([]byte{0}), bgen(seed(), ksz-1))} {
				g.add(opJ{Op: "encrypt", A: s})
			}
			nenc := 6
			if c.Thorough {
				nenc = 40
			}
			for i := 0; i < nenc; i++ {
				g.add(opJ{Op: "encrypt", A: app(lit([]byte{byte(r.Intn(2))}), bgen(seed(), ksz-1))})
			}
			// EM construction: every crypto.Hash code, right and wrong digest length
			for h := 0; h <= 21; h++ {
				if hh, ok := hashOf[h]; ok {
					g.add(opJ{Op: "em", Hash: h, A: bgen(seed(), hh.Size())})
					g.add(opJ{Op: "em", Hash: h, A: bgen(seed(), hh.Size()+1-2*r.Intn(2))})
				} else {
					g.add(opJ{Op: "em", Hash: h, A: bgen(seed(), 20)})
				}
			}
			// hash 0 (raw DigestInfo supplied by the caller): boundary lengths k-11, k-10
			for _, l := range []int{0, 1, ksz - 12, ksz - 11, ksz - 10, ksz} {
				g.add(opJ{Op: "em", Hash: 0, A: bgen(seed(), l)})
			}
			g.flush()
			// verification: genuine, and every kind of change
			hs := []int{5, 3, 0, 8}
			if si%2 == 1 {
				hs = []int{7, 2, 9, 4, 6}
			}
			for _, h := range hs {
				g := newPubGroup(c, k)
				var dspec *spec
				if h == 0 {
					dspec = bgen(seed(), r.Intn(40))
				} else {
					dspec = bgen(seed(), crypto.Hash(h).Size())
				}
				d := dspec.eval(nil)
				sig, err := zrsa.SignPKCS1v15(nil, priv, crypto.Hash(h), d)
				if err != nil {
					// message too long for the key: verification must fail as well
					g.add(opJ{Op: "verify15", Hash: h, A: dspec, B: bgen(seed(), ksz)})
					g.flush()
					continue
				}
				sg := g.lit(sig)
				v := func(h int, d, s *spec) { g.add(opJ{Op: "verify15", Hash: h, A: d, B: s}) }
				v(h, dspec, sg)
				nflip := 6
				if c.Thorough {
					nflip = 30
				}
				for i := 0; i < nflip; i++ {
					v(h, dspec, sg.xor(r.Intn(len(sig)), 1<<uint(r.Intn(8))))
				}
				v(h, dspec, sg.drop(1))
				v(h, dspec, app(lit([]byte{0}), sg))
				v(h, dspec, app(sg, lit([]byte{0})))
				// s + n: same residue, not below the modulus
				sn := new(big.Int).Add(new(big.Int).SetBytes(sig), n)
				if len(sn.Bytes()) == ksz {
					v(h, dspec, g.lit(sn.Bytes()))
				}
				if len(d) > 0 {
					v(h, dspec.xor(r.Intn(len(d)), 0x80), sg)
					v(h, dspec.drop(1), sg)
					v(h, app(dspec, lit([]byte{0})), sg)
				}
				for _, h2 := range []int{(h + 1) % 10, 0, 5, 11, 20} {
					if h2 != h {
						v(h2, dspec, sg)
					}
				}
				v(h, dspec, lit(make([]byte, ksz)))
				v(h, dspec, bgen(seed(), ksz))
				// signatures whose EM differs from the genuine one in a single byte (built with the private key)
				em, _ := zrsa.VerifConstructEM(&priv.PublicKey, crypto.Hash(h), d)
				for _, pos := range []int{0, 1, 2, 5, len(em) - len(d) - 1, len(em) - len(d) - 2, len(em) - 1} {
					if pos >= 0 && pos < len(em) {
						em2 := append([]byte{}, em...)
						em2[pos] ^= 0x01
						if forged, err := zrsa.VerifDecrypt(priv, em2, false); err == nil {
							v(h, dspec, g.lit(forged))
						}
					}
				}
				g.flush()
			}
			// PKCS #1 v1.5 encryption with a given random stream (zero bytes force re-reads)
			g = newPubGroup(c, k)
			for i := 0; i < 4; i++ {
				mlen := r.Intn(ksz - 10)
				if i == 2 {
					mlen = ksz - 11 + r.Intn(2)
				}
				stream := bgen(seed(), ksz+20)
				for j := 0; j < 8; j++ {
					pos := r.Intn(ksz + 20)
					stream = stream.xor(pos, int(stream.eval(nil)[pos])) // zero byte
				}
				pos := ksz - mlen - 3 + r.Intn(3)
				if pos >= 0 {
					stream = stream.xor(pos, int(stream.eval(nil)[pos])^0x42) // re-read byte that xors to zero
				}
				if i == 1 { // stream runs dry
					short := r.Bytes(max(ksz-mlen-3+r.Intn(3), 1))
					short[len(short)-1] = 0
					stream = lit(short)
				}
				g.add(opJ{Op: "encrypt15", A: stream, B: bgen(seed(), mlen)})
			}
			g.flush()
		}
	}
	// malformed keys: every public operation
	for _, mk := range malformedKeys(r, good) {
		ksz := 0
		if n := sBig(mk.N); n != nil {
			ksz = (n.BitLen() + 7) / 8
		}
		g := newPubGroup(c, mk)
		d := bgen(seed(), 32)
		g.add(opJ{Op: "checkpub"})
		g.add(opJ{Op: "verify15", Hash: 5, A: d, B: lit(make([]byte, ksz))})
		g.add(opJ{Op: "verify15", Hash: 5, A: d, B: app(lit(make([]byte, max(ksz-1, 0))), lit(make([]byte, min(ksz, 1), 1)).xor(0, 1))})
		sg := app(lit(make([]byte, min(ksz, 1))), bgen(seed(), max(ksz-1, 0)))
		g.add(opJ{Op: "verify15", Hash: 0, A: bgen(seed(), 3), B: sg})
		g.add(opJ{Op: "verify15", Hash: 20, A: d, B: sg})
		g.add(opJ{Op: "encrypt", A: sg})
		g.add(opJ{Op: "encrypt", A: lit(nil)})
		g.add(opJ{Op: "em", Hash: 5, A: d})
		g.add(opJ{Op: "encrypt15", A: bgen(seed(), 80), B: lit([]byte{1})})
		g.flush()
	}
}

// uniform-ish integer in [0, n)
func bigRand(r *rng, n *big.Int) *big.Int {
	x := new(big.Int).SetBytes(r.Bytes(len(n.Bytes()) + 8))
	return x.Mod(x, n)
}

func genPriv(c *vh.Ctx) {
	r := &rng{s: c.U64()}
	seed := func() uint64 { return r.U64() & 0x7fffffff }
	type shape struct {
		bits, np   int
		e          string
		precompute bool
	}
	shapes := []shape{{512, 2, "65537", true}, {1024, 2, "3", false}, {768, 3, "65537", true}, {520, 2, "r40", true}, {1024, 2, "65537", true},
		{1024, 2, "big", true}, {1024, 4, "r31", false}}
	if c.Thorough {
		shapes = append(shapes, shape{768, 2, "65537", true}, shape{768, 2, "big", false}, shape{2048, 2, "65537", true}, shape{640, 4, "3", true},
			shape{2048, 2, "3", false}, shape{512, 2, "huge", true}, shape{1536, 5, "65537", true}, shape{3072, 2, "65537", true})
	}
	reps := 1
	if c.Thorough {
		reps = 3
	}
	for rep := 0; rep < reps; rep++ {
		for si, sh := range shapes {
			k := genKey(r, sh.bits, sh.np, sh.e)
			k.Precompute = sh.precompute
			n := sBig(k.N)
			ksz := (n.BitLen() + 7) / 8
			pubk := k.pub()
			kraw := k
			kraw.Precompute = false
			g := newPrivGroup(c, kraw)
			g.add(opJ{Op: "precompute"})
			g.flush()
			g = newPrivGroup(c, k)
			g.add(opJ{Op: "precompute"})
			ndec := 4
			if c.Thorough {
				ndec = 12
			}
			for i := 0; i < ndec; i++ {
				g.add(opJ{Op: "decrypt", A: app(lit([]byte{byte(r.Intn(2))}), bgen(seed(), ksz-1)), Check: i%2 == 0})
			}
			g.add(opJ{Op: "decrypt", A: g.lit(n.Bytes()), Check: true})
			g.add(opJ{Op: "decrypt", A: g.lit(new(big.Int).Sub(n, one).Bytes()), Check: true})
			g.add(opJ{Op: "decrypt", A: lit(nil), Check: true})
			g.add(opJ{Op: "decrypt", A: lit([]byte{1}), Check: false})
			// a ciphertext that shares a factor with n
			g.add(opJ{Op: "decrypt", A: g.lit(new(big.Int).Mul(sBig(k.Primes[0]), big.NewInt(int64(2+r.Intn(1000)))).Bytes()), Check: true})
			for _, h := range []int{5, 7, 3, 0, 8} {
				g.add(opJ{Op: "sign15", Hash: h, A: bgen(seed(), crypto.Hash(max(h, 3)).Size())}) // SHA-512 is too long for <= 752-bit keys
			}
			g.add(opJ{Op: "sign15", Hash: 5, A: bgen(seed(), 31)})
			g.add(opJ{Op: "sign15", Hash: 11, A: bgen(seed(), 32)})
			g.add(opJ{Op: "sign15", Hash: 0, A: bgen(seed(), ksz-11)})
			g.add(opJ{Op: "sign15", Hash: 0, A: bgen(seed(), ksz-10)})
			// DecryptPKCS1v15: genuine ciphertexts, changed ones, and crafted encoded messages
			for i := 0; i < 2; i++ {
				msg := r.Bytes(r.Intn(ksz - 11))
				good, err := zrsa.EncryptPKCS1v15(r, pubk, msg)
				if err != nil {
					panic(err)
				}
				gs := g.lit(good)
				g.add(opJ{Op: "decrypt15", A: gs})
				g.add(opJ{Op: "decrypt15", A: gs.xor(r.Intn(ksz), 1<<uint(r.Intn(8)))})
				g.add(opJ{Op: "decrypt15", A: gs.drop(1)})
			}
			em := make([]byte, ksz)
			em[1] = 2
			for i := 2; i < ksz; i++ {
				em[i] = byte(1 + r.Intn(255))
			}
			mut := func(f func(e []byte)) []byte { e := append([]byte{}, em...); f(e); return e }
			crafted := [][]byte{
				mut(func(e []byte) { e[9] = 0 }),     // PS one byte short
				mut(func(e []byte) { e[10] = 0 }),    // shortest legal PS
				em,                                   // no terminator
				mut(func(e []byte) { e[ksz-1] = 0 }), // empty message
				mut(func(e []byte) { e[1] = 1; e[20] = 0 }), // wrong block type
				mut(func(e []byte) { e[12], e[30] = 0, 0 }), // two terminators: the first one counts
				mut(func(e []byte) { e[2] = 0 }),            // terminator right after the block type
				mut(func(e []byte) { e[0] = 1; e[15] = 0 }), // first byte not zero (only if below n)
			}
			for _, e := range crafted {
				ctx, err := zrsa.VerifEncrypt(pubk, e)
				if err != nil {
					continue
				}
				g.add(opJ{Op: "decrypt15", A: g.lit(ctx)})
			}
			g.flush()
			if si == 0 {
				// faulty precomputed values: the re-encryption check turns a wrong CRT result into an error
				p := k.priv()
				bad := k
				bad.Precompute = false
				bad.Dp, bad.Dq = bigS(p.Precomputed.Dp), bigS(p.Precomputed.Dq)
				bad.Qinv = new(big.Int).Add(p.Precomputed.Qinv, one).String()
				g := newPrivGroup(c, bad)
				ct := bgen(seed(), ksz-1)
				g.add(opJ{Op: "decrypt", A: ct, Check: true})
				g.add(opJ{Op: "decrypt", A: ct, Check: false})
				g.add(opJ{Op: "sign15", Hash: 5, A: bgen(seed(), 32)})
				g.flush()
				bad.Qinv = bigS(p.Precomputed.Qinv)
				bad.Dp = new(big.Int).Add(p.Precomputed.Dp, one).String()
				g = newPrivGroup(c, bad)
				g.add(opJ{Op: "decrypt", A: ct, Check: true})
				g.add(opJ{Op: "decrypt", A: ct, Check: false})
				g.flush()
				// malformed public part of a private key: error before anything is dereferenced
				for _, mk := range []keyJ{{N: "", E: k.E}, {N: k.N, E: ""}, {N: k.N, E: "-3"}, {N: k.N, E: "1"}, {N: "-" + k.N, E: k.E}, {N: "0", E: k.E}} {
					mk.D, mk.Primes = k.D, k.Primes
					g := newPrivGroup(c, mk)
					g.add(opJ{Op: "sign15", Hash: 5, A: bgen(seed(), 32)})
					g.add(opJ{Op: "decrypt15", A: bgen(seed(), ksz)})
					g.flush()
				}
			}
		}
	}
	// Precompute on degenerate prime lists
	for _, ps := range [][]string{{}, {"7"}, {"1", "7"}, {"7", "1"}, {"0", "1"}, {"0", "5"}, {"6", "9"}, {"-7", "5"}, {"7", "-5"}, {"11", "13", "17"}} {
		g := newPrivGroup(c, keyJ{N: "77", E: "7", D: "43", Primes: ps})
		g.add(opJ{Op: "precompute"})
		g.flush()
	}
}

func gen(c *vh.Ctx) {
	genBig(c)
	genPub(c)
	genPriv(c)
	oracle(c)
}

// ---------------------------------------------------------------- direct oracle
func sha(b []byte) []byte { s := sha256.Sum256(b); return s[:] }

type battery struct {
	c    *vh.Ctx
	k    keyJ
	seed uint64
	n    int
}

func (b *battery) fail(key, desc string) {
	b.c.Violation(key, desc, "oracle", input{Kind: "oracle", Key: b.k, Seed: b.seed, Expect: desc})
}

// reference RSASSA-PKCS1-v1_5 verification written directly from RFC 8017 8.2.2 with math/big
func refVerify15(n, e *big.Int, h crypto.Hash, d, sig []byte) bool {
	k := (n.BitLen() + 7) / 8
	if len(sig) != k {
		return false
	}
	s := new(big.Int).SetBytes(sig)
	if s.Cmp(n) >= 0 {
		return false
	}
	m := new(big.Int).Exp(s, e, n)
	em := m.FillBytes(make([]byte, k))
	var t []byte
	if h != 0 {
		if len(d) != h.Size() {
			return false
		}
		t = append(append([]byte{}, refPrefix[h]...), d...)
		if _, ok := refPrefix[h]; !ok {
			return false
		}
	} else {
		t = d
	}
	if k < len(t)+11 {
		return false
	}
	exp := append([]byte{0, 1}, bytes.Repeat([]byte{0xff}, k-len(t)-3)...)
	exp = append(append(exp, 0), t...)
	return bytes.Equal(em, exp)
}

// DigestInfo prefixes, RFC 8017 section 9.2 note 1 (independent copy)
var refPrefix = map[crypto.Hash][]byte{
	crypto.MD5:       vh.UnHex("3020300c06082a864886f70d020505000410"),
	crypto.SHA1:      vh.UnHex("3021300906052b0e03021a05000414"),
	crypto.SHA224:    vh.UnHex("302d300d06096086480165030402040500041c"),
	crypto.SHA256:    vh.UnHex("3031300d060960864801650304020105000420"),
	crypto.SHA384:    vh.UnHex("3041300d060960864801650304020205000430"),
	crypto.SHA512:    vh.UnHex("3051300d060960864801650304020305000440"),
	crypto.MD5SHA1:   {},
	crypto.RIPEMD160: vh.UnHex("3020300806062b2403020105000414"),
}

func runBattery(c *vh.Ctx, k keyJ, seed uint64) {
	b := &battery{c: c, k: k, seed: seed}
	defer func() {
		if rec := recover(); rec != nil {
			b.fail("operation-panics", fmt.Sprintf("an RSA operation on a well-formed key panics: %v", rec))
		}
	}()
	r := &rng{s: seed}
	zp := k.priv()
	sp := k.std()
	n, e := sBig(k.N), sBig(k.E)
	ksz := (n.BitLen() + 7) / 8
	c.Eval(fmt.Sprintf("battery|%s|%s|%v", k.N, k.E, k.Precompute))

	// the same key without precomputed values must compute the same function
	k2 := k
	k2.Precompute = !k.Precompute
	k2.Dp, k2.Dq, k2.Qinv = "", "", ""
	zp2 := k2.priv()

	// 1. raw private operation = c^d mod n, left-padded to k bytes
	for i := 0; i < 4; i++ {
		ct := bigRand(r, n)
		if i == 1 {
			ct = new(big.Int).Sub(n, one)
		}
		if i == 3 {
			ct = big.NewInt(int64(r.Intn(2))) // result has leading zero bytes: left padding
		}
		if i == 2 {
			ct = new(big.Int).Mul(sBig(k.Primes[0]), big.NewInt(int64(1+r.Intn(1000)))) // not coprime to n
			ct.Mod(ct, n)
		}
		want := new(big.Int).Exp(ct, sBig(k.D), n).FillBytes(make([]byte, ksz))
		for _, chk := range []bool{true, false} {
			got, err := zrsa.VerifDecrypt(zp, ct.Bytes(), chk)
			got2, err2 := zrsa.VerifDecrypt(zp2, ct.Bytes(), chk)
			if err != nil || !bytes.Equal(got, want) {
				b.fail("raw-private-op", fmt.Sprintf("decrypt(c=%s, check=%v) = %x, %v; c^d mod n = %x", ct, chk, got, err, want))
			}
			if err2 != nil || !bytes.Equal(got2, want) {
				b.fail("raw-private-op", fmt.Sprintf("decrypt(c=%s, check=%v) with Precompute=%v = %x, %v; c^d mod n = %x", ct, chk, k2.Precompute, got2, err2, want))
			}
		}
		enc, err := zrsa.VerifEncrypt(&zp.PublicKey, ct.Bytes())
		wantE := new(big.Int).Exp(ct, e, n).FillBytes(make([]byte, ksz))
		if err != nil || !bytes.Equal(enc, wantE) {
			b.fail("raw-public-op", fmt.Sprintf("encrypt(m=%s) = %x, %v; m^e mod n = %x", ct, enc, err, wantE))
		}
	}
	if _, err := zrsa.VerifDecrypt(zp, n.Bytes(), true); err == nil {
		b.fail("raw-private-op", "decrypt accepts c = n")
	}
	if _, err := zrsa.VerifEncrypt(&zp.PublicKey, n.Bytes()); err == nil {
		b.fail("raw-public-op", "encrypt accepts m = n")
	}

	// 2. PKCS #1 v1.5 signatures
	hashes := []crypto.Hash{crypto.SHA256, crypto.SHA1, crypto.SHA512, crypto.MD5SHA1, crypto.SHA384, 0, 0, 0, crypto.SHA224, crypto.MD5}
	for hi, h := range hashes {
		var d []byte
		if h == 0 {
			d = r.Bytes(r.Intn(30))
			if hi == 6 {
				d = r.Bytes(ksz - 11) // longest message that fits
			}
			if hi == 7 {
				d = r.Bytes(ksz - 10) // one byte too long
			}
		} else {
			d = r.Bytes(h.Size())
		}
		sig, err := zrsa.SignPKCS1v15(nil, zp, h, d)
		sig2, err2 := zrsa.SignPKCS1v15(nil, zp2, h, d)
		if (err == nil) != (err2 == nil) || !bytes.Equal(sig, sig2) {
			b.fail("sign15-precompute", fmt.Sprintf("SignPKCS1v15(hash=%d) differs with and without Precompute: %x,%v / %x,%v", h, sig, err, sig2, err2))
		}
		if sp != nil {
			ssig, serr := srsa.SignPKCS1v15(nil, sp, h, d)
			if (err == nil) != (serr == nil) || !bytes.Equal(sig, ssig) {
				b.fail("sign15-vs-std", fmt.Sprintf("SignPKCS1v15(hash=%d, digest=%x) = %x,%v; crypto/rsa = %x,%v", h, d, sig, err, ssig, serr))
			}
		}
		if err != nil {
			if refVerify15(n, e, h, d, make([]byte, ksz)) {
				b.fail("sign15-vs-ref", "reference accepts where signing failed")
			}
			continue
		}
		// genuine and changed signatures: same verdict as crypto/rsa and as the RFC 8017 reference
		type tv struct {
			h   crypto.Hash
			d   []byte
			sig []byte
		}
		tvs := []tv{{h, d, sig}}
		for i := 0; i < 6; i++ {
			s2 := append([]byte{}, sig...)
			s2[r.Intn(len(s2))] ^= 1 << uint(r.Intn(8))
			tvs = append(tvs, tv{h, d, s2})
		}
		tvs = append(tvs, tv{h, d, sig[1:]}, tv{h, d, append([]byte{0}, sig...)}, tv{h, d, append(append([]byte{}, sig...), 0)}, tv{h, d, nil})
		if sn := new(big.Int).Add(new(big.Int).SetBytes(sig), n); len(sn.Bytes()) == ksz {
			tvs = append(tvs, tv{h, d, sn.Bytes()})
		}
		if len(d) > 0 {
			d2 := append([]byte{}, d...)
			d2[r.Intn(len(d2))] ^= 1 << uint(r.Intn(8))
			tvs = append(tvs, tv{h, d2, sig}, tv{h, d[:len(d)-1], sig})
		}
		for _, h2 := range []crypto.Hash{crypto.SHA256, crypto.SHA1, crypto.SHA224, 0, crypto.SHA3_256, crypto.MD5} {
			if h2 != h {
				tvs = append(tvs, tv{h2, d, sig})
			}
		}
		// forged encodings: a valid EM with one byte changed, signed with the private key
		em, _ := zrsa.VerifConstructEM(&zp.PublicKey, h, d)
		for _, pos := range []int{0, 1, 2, 3 + r.Intn(6), len(em) - len(d) - 1, len(em) - len(d) - 2} {
			if pos >= 0 && pos < len(em) {
				em2 := append([]byte{}, em...)
				em2[pos] ^= byte(1 + r.Intn(255))
				if f, err := zrsa.VerifDecrypt(zp, em2, false); err == nil {
					tvs = append(tvs, tv{h, d, f})
				}
			}
		}
		for i, t := range tvs {
			func() {
				defer func() {
					if rec := recover(); rec != nil {
						// crypto.Hash.Size of an unsupported hash panics in crypto/rsa as well; not a key property
						_ = rec
					}
				}()
				got := zrsa.VerifyPKCS1v15(&zp.PublicKey, t.h, t.d, t.sig) == nil
				ref := refVerify15(n, e, t.h, t.d, t.sig)
				if got != ref {
					b.fail("verify15-vs-ref", fmt.Sprintf("VerifyPKCS1v15(hash=%d, digest=%x, sig=%x) accept=%v, RFC 8017 reference accept=%v (variant %d)", t.h, t.d, t.sig, got, ref, i))
				}
				if sp != nil {
					std := srsa.VerifyPKCS1v15(&sp.PublicKey, t.h, t.d, t.sig) == nil
					if got != std {
						b.fail("verify15-vs-std", fmt.Sprintf("VerifyPKCS1v15(hash=%d, digest=%x, sig=%x) accept=%v, crypto/rsa accept=%v (variant %d)", t.h, t.d, t.sig, got, std, i))
					}
				}
				if i == 0 && !got {
					b.fail("sign15-verify15", fmt.Sprintf("own PKCS#1 v1.5 signature (hash=%d) does not verify", t.h))
				}
			}()
		}
	}

	// a fault in the CRT values must never leak a wrong signature: the re-encryption check turns it into an error
	if len(zp.Primes) == 2 && zp.Precomputed.Qinv != nil {
		faulty := *zp
		faulty.Precomputed.Qinv = new(big.Int).Add(zp.Precomputed.Qinv, one)
		d := r.Bytes(32)
		if sig, err := zrsa.SignPKCS1v15(nil, &faulty, crypto.SHA256, d); err == nil && !refVerify15(n, e, crypto.SHA256, d, sig) {
			b.fail("sign15-faulty-crt", fmt.Sprintf("SignPKCS1v15 with a faulty Qinv returns a signature that does not verify: %x", sig))
		}
		if sig, err := zrsa.SignPSS(r, &faulty, crypto.SHA256, d, nil); err == nil && zrsa.VerifyPSS(&zp.PublicKey, crypto.SHA256, d, sig, nil) != nil {
			b.fail("signpss-faulty-crt", fmt.Sprintf("SignPSS with a faulty Qinv returns a signature that does not verify: %x", sig))
		}
	}

	// 3. PSS: every salt mode, both directions
	type saltMode struct{ sign, verify int }
	modes := []saltMode{{zrsa.PSSSaltLengthAuto, zrsa.PSSSaltLengthAuto}, {zrsa.PSSSaltLengthEqualsHash, zrsa.PSSSaltLengthEqualsHash},
		{zrsa.PSSSaltLengthEqualsHash, zrsa.PSSSaltLengthAuto}, {8, 8}, {8, zrsa.PSSSaltLengthAuto}, {8, 9}, {zrsa.PSSSaltLengthAuto, zrsa.PSSSaltLengthEqualsHash}, {1, 1}}
	for _, h := range []crypto.Hash{crypto.SHA256, crypto.SHA1, crypto.SHA512} {
		d := r.Bytes(h.Size())
		for _, m := range modes {
			zsig, zerr := zrsa.SignPSS(r, zp, h, d, &zrsa.PSSOptions{SaltLength: m.sign, Hash: h})
			zsig2, zerr2 := zrsa.SignPSS(r, zp2, h, d, &zrsa.PSSOptions{SaltLength: m.sign})
			if (zerr == nil) != (zerr2 == nil) {
				b.fail("pss-precompute", fmt.Sprintf("SignPSS(hash=%d, salt=%d) error differs with and without Precompute: %v / %v", h, m.sign, zerr, zerr2))
			}
			if sp == nil {
				if zerr == nil {
					for _, s := range [][]byte{zsig, zsig2} {
						if err := zrsa.VerifyPSS(&zp.PublicKey, h, d, s, &zrsa.PSSOptions{SaltLength: zrsa.PSSSaltLengthAuto}); err != nil {
							b.fail("pss-sign-verify", fmt.Sprintf("own PSS signature (hash=%d, salt=%d) does not verify: %v", h, m.sign, err))
						}
					}
				}
				continue
			}
			ssig, serr := srsa.SignPSS(r, sp, h, d, &srsa.PSSOptions{SaltLength: m.sign, Hash: h})
			if (zerr == nil) != (serr == nil) {
				b.fail("pss-sign-vs-std", fmt.Sprintf("SignPSS(hash=%d, salt=%d): err=%v, crypto/rsa err=%v", h, m.sign, zerr, serr))
				continue
			}
			if zerr != nil {
				continue
			}
			sigs := [][]byte{zsig, ssig, zsig2}
			for j := 0; j < 3; j++ {
				s2 := append([]byte{}, sigs[j%2]...)
				s2[r.Intn(len(s2))] ^= 1 << uint(r.Intn(8))
				sigs = append(sigs, s2)
			}
			sigs = append(sigs, zsig[1:], append([]byte{0}, zsig...))
			// forged EM: a valid encoding with one byte changed (first byte, trailer, inside)
			for i, s := range sigs {
				for _, dd := range [][]byte{d, append([]byte{d[0] ^ 1}, d[1:]...)} {
					zv := zrsa.VerifyPSS(&zp.PublicKey, h, dd, s, &zrsa.PSSOptions{SaltLength: m.verify}) == nil
					sv := srsa.VerifyPSS(&sp.PublicKey, h, dd, s, &srsa.PSSOptions{SaltLength: m.verify}) == nil
					if zv != sv {
						b.fail("verifypss-vs-std", fmt.Sprintf("VerifyPSS(hash=%d, sign salt=%d, verify salt=%d, sig variant %d) accept=%v, crypto/rsa accept=%v", h, m.sign, m.verify, i, zv, sv))
					}
				}
			}
			// forged PSS encodings through the private key
			emBits := n.BitLen() - 1
			salt := r.Bytes(8)
			if em, err := zrsa.VerifEMSAPSSEncode(d, emBits, salt, h); err == nil {
				for _, pos := range []int{0, len(em) - 1, len(em) - 2, r.Intn(len(em))} {
					em2 := append([]byte{}, em...)
					em2[pos] ^= byte(1 << uint(r.Intn(8)))
					if new(big.Int).SetBytes(em2).Cmp(n) >= 0 {
						continue
					}
					f, err := zrsa.VerifDecrypt(zp, em2, false)
					if err != nil {
						continue
					}
					zv := zrsa.VerifyPSS(&zp.PublicKey, h, d, f, &zrsa.PSSOptions{SaltLength: m.verify}) == nil
					sv := srsa.VerifyPSS(&sp.PublicKey, h, d, f, &srsa.PSSOptions{SaltLength: m.verify}) == nil
					if zv != sv {
						b.fail("verifypss-vs-std", fmt.Sprintf("VerifyPSS on a forged encoding (hash=%d, byte %d changed, verify salt=%d) accept=%v, crypto/rsa accept=%v", h, pos, m.verify, zv, sv))
					}
				}
			}
		}
	}

	// 4. encryption: PKCS #1 v1.5 and OAEP, both directions, changed ciphertexts
	if ksz >= 11 {
		for i := 0; i < 3; i++ {
			msg := r.Bytes(r.Intn(ksz - 10))
			zc, zerr := zrsa.EncryptPKCS1v15(r, &zp.PublicKey, msg)
			if zerr != nil {
				b.fail("encrypt15", fmt.Sprintf("EncryptPKCS1v15(len %d): %v", len(msg), zerr))
				continue
			}
			cts := [][]byte{zc}
			if sp != nil {
				sc, serr := srsa.EncryptPKCS1v15(r, &sp.PublicKey, msg)
				if serr == nil {
					cts = append(cts, sc)
				}
			}
			for j := 0; j < 4; j++ {
				c2 := append([]byte{}, zc...)
				c2[r.Intn(len(c2))] ^= 1 << uint(r.Intn(8))
				cts = append(cts, c2)
			}
			cts = append(cts, zc[1:], make([]byte, ksz), n.Bytes())
			// crafted encoded messages through the public operation: padding string of 7 and 8 bytes,
			// no terminator, wrong block type, first byte not zero
			em := make([]byte, ksz)
			em[1] = 2
			for j := 2; j < ksz; j++ {
				em[j] = byte(1 + r.Intn(255))
			}
			for _, f := range []func(e []byte){func(e []byte) { e[9] = 0 }, func(e []byte) { e[10] = 0 }, func(e []byte) {}, func(e []byte) { e[1] = 1; e[20] = 0 },
				func(e []byte) { e[2] = 0 }, func(e []byte) { e[ksz-1] = 0 }, func(e []byte) { e[0] = 1; e[12] = 0 }, func(e []byte) { e[12], e[13] = 0, 0 }} {
				e := append([]byte{}, em...)
				f(e)
				if ct, err := zrsa.VerifEncrypt(&zp.PublicKey, e); err == nil {
					cts = append(cts, ct)
				}
			}
			for j, ct := range cts {
				zm, zerr := zrsa.DecryptPKCS1v15(nil, zp, ct)
				zm2, zerr2 := zrsa.DecryptPKCS1v15(nil, zp2, ct)
				if (zerr == nil) != (zerr2 == nil) || !bytes.Equal(zm, zm2) {
					b.fail("decrypt15-precompute", fmt.Sprintf("DecryptPKCS1v15 differs with and without Precompute (variant %d)", j))
				}
				if j == 0 && (zerr != nil || !bytes.Equal(zm, msg)) {
					b.fail("encrypt15-decrypt15", fmt.Sprintf("DecryptPKCS1v15(EncryptPKCS1v15(%x)) = %x, %v", msg, zm, zerr))
				}
				if sp != nil {
					sm, serr := srsa.DecryptPKCS1v15(nil, sp, ct)
					if (zerr == nil) != (serr == nil) || !bytes.Equal(zm, sm) {
						b.fail("decrypt15-vs-std", fmt.Sprintf("DecryptPKCS1v15(ct=%x) = %x,%v; crypto/rsa = %x,%v (variant %d)", ct, zm, zerr, sm, serr, j))
					}
				}
			}
			// session-key variant: constant-time copy on success, key untouched otherwise
			key := r.Bytes(len(msg))
			orig := append([]byte{}, key...)
			if err := zrsa.DecryptPKCS1v15SessionKey(nil, zp, zc, key); err != nil || (len(msg) > 0 && !bytes.Equal(key, msg)) {
				b.fail("sessionkey", fmt.Sprintf("DecryptPKCS1v15SessionKey: key=%x want %x err=%v", key, msg, err))
			}
			if sp != nil {
				bad := append([]byte{}, zc...)
				bad[len(bad)-1] ^= 1
				k1, k2 := append([]byte{}, orig...), append([]byte{}, orig...)
				e1 := zrsa.DecryptPKCS1v15SessionKey(nil, zp, bad, k1)
				e2 := srsa.DecryptPKCS1v15SessionKey(nil, sp, bad, k2)
				if (e1 == nil) != (e2 == nil) || !bytes.Equal(k1, k2) {
					b.fail("sessionkey-vs-std", fmt.Sprintf("DecryptPKCS1v15SessionKey on a changed ciphertext: %x,%v; crypto/rsa %x,%v", k1, e1, k2, e2))
				}
			}
		}
	}
	for _, h := range []crypto.Hash{crypto.SHA1, crypto.SHA256} {
		if ksz < 2*h.Size()+2 {
			continue
		}
		label := r.Bytes(r.Intn(5))
		msg := r.Bytes(r.Intn(ksz - 2*h.Size() - 1))
		zc, zerr := zrsa.EncryptOAEP(h.New(), r, &zp.PublicKey, msg, label)
		if zerr != nil {
			b.fail("oaep", fmt.Sprintf("EncryptOAEP(len %d): %v", len(msg), zerr))
			continue
		}
		cts := [][]byte{zc}
		if sp != nil {
			if sc, serr := srsa.EncryptOAEP(h.New(), r, &sp.PublicKey, msg, label); serr == nil {
				cts = append(cts, sc)
			}
		}
		for j := 0; j < 3; j++ {
			c2 := append([]byte{}, zc...)
			c2[r.Intn(len(c2))] ^= 1 << uint(r.Intn(8))
			cts = append(cts, c2)
		}
		// crafted encoded messages: first byte non-zero, no 0x01 separator — through the public operation
		cts = append(cts, zc[1:], make([]byte, ksz))
		if emv, err := zrsa.VerifDecrypt(zp, zc, false); err == nil {
			e := append([]byte{}, emv...)
			e[0] = 1 // first byte not zero
			if ct, err := zrsa.VerifEncrypt(&zp.PublicKey, e); err == nil {
				cts = append(cts, ct)
			}
		}
		for j, ct := range cts {
			for _, lb := range [][]byte{label, append([]byte{1}, label...)} {
				zm, zerr := zrsa.DecryptOAEP(h.New(), nil, zp, ct, lb)
				zm2, zerr2 := zrsa.DecryptOAEP(h.New(), nil, zp2, ct, lb)
				if (zerr == nil) != (zerr2 == nil) || !bytes.Equal(zm, zm2) {
					b.fail("oaep-precompute", fmt.Sprintf("DecryptOAEP differs with and without Precompute (variant %d)", j))
				}
				if j == 0 && bytes.Equal(lb, label) && (zerr != nil || !bytes.Equal(zm, msg)) {
					b.fail("oaep-roundtrip", fmt.Sprintf("DecryptOAEP(EncryptOAEP(%x)) = %x, %v", msg, zm, zerr))
				}
				if sp != nil {
					sm, serr := srsa.DecryptOAEP(h.New(), nil, sp, ct, lb)
					if (zerr == nil) != (serr == nil) || !bytes.Equal(zm, sm) {
						b.fail("oaep-vs-std", fmt.Sprintf("DecryptOAEP(ct=%x) = %x,%v; crypto/rsa = %x,%v (variant %d)", ct, zm, zerr, sm, serr, j))
					}
				}
			}
		}
	}
	// Validate agrees with crypto/rsa on the key and on a damaged copy
	if sp != nil {
		if (zp.Validate() == nil) != (sp.Validate() == nil) {
			b.fail("validate-vs-std", fmt.Sprintf("Validate: %v, crypto/rsa: %v", zp.Validate(), sp.Validate()))
		}
	}
	if err := zp.Validate(); err != nil {
		b.fail("validate", "generated key does not validate: "+err.Error())
	}
}

// every exported operation on a malformed public key: an error, never a panic, never success
func malformedBattery(c *vh.Ctx, mk keyJ, good keyJ) {
	c.Eval("malformed|" + mk.N + "|" + mk.E)
	pub := mk.pub()
	ksz := 0
	if pub.N != nil {
		ksz = (pub.N.BitLen() + 7) / 8
	}
	d := sha([]byte("x"))
	priv := good.priv()
	priv.PublicKey = *pub
	sigs := [][]byte{make([]byte, ksz), bytes.Repeat([]byte{1}, ksz), nil, {0}, append(make([]byte, max(ksz-1, 0)), 2)}
	type op struct {
		name string
		f    func() error
	}
	var ops []op
	for i, s := range sigs {
		s := s
		ops = append(ops,
			op{fmt.Sprintf("VerifyPKCS1v15#%d", i), func() error { return zrsa.VerifyPKCS1v15(pub, crypto.SHA256, d, s) }},
			op{fmt.Sprintf("VerifyPKCS1v15-nohash#%d", i), func() error { return zrsa.VerifyPKCS1v15(pub, 0, d[:2], s) }},
			op{fmt.Sprintf("VerifyPSS#%d", i), func() error { return zrsa.VerifyPSS(pub, crypto.SHA256, d, s, nil) }},
			op{fmt.Sprintf("VerifyPSS-eq#%d", i), func() error {
				return zrsa.VerifyPSS(pub, crypto.SHA256, d, s, &zrsa.PSSOptions{SaltLength: zrsa.PSSSaltLengthEqualsHash})
			}},
			op{fmt.Sprintf("DecryptPKCS1v15#%d", i), func() error { _, err := zrsa.DecryptPKCS1v15(nil, priv, s); return err }},
			op{fmt.Sprintf("DecryptOAEP#%d", i), func() error { _, err := zrsa.DecryptOAEP(sha256.New(), nil, priv, s, nil); return err }},
			op{fmt.Sprintf("DecryptPKCS1v15SessionKey#%d", i), func() error { return zrsa.DecryptPKCS1v15SessionKey(nil, priv, s, make([]byte, 4)) }},
		)
	}
	if ksz >= 11+19+32 {
		// with E = 1 (or any exponent that checkPub must refuse) the encoded message itself is a "signature"
		em := append([]byte{0, 1}, bytes.Repeat([]byte{0xff}, ksz-3-19-32)...)
		em = append(append(append(em, 0), refPrefix[crypto.SHA256]...), d...)
		ops = append(ops, op{"VerifyPKCS1v15-em-as-signature", func() error { return zrsa.VerifyPKCS1v15(pub, crypto.SHA256, d, em) }})
	}
	if pub.N == nil || pub.E == nil || pub.E.Cmp(big.NewInt(2)) < 0 {
		ops = append(ops, op{"checkPub", func() error { return zrsa.VerifCheckPub(pub) }})
	}
	ops = append(ops,
		op{"EncryptPKCS1v15", func() error { _, err := zrsa.EncryptPKCS1v15(&rng{s: 1}, pub, []byte{1}); return err }},
		op{"EncryptPKCS1v15-empty", func() error { _, err := zrsa.EncryptPKCS1v15(&rng{s: 1}, pub, nil); return err }},
		op{"EncryptOAEP", func() error { _, err := zrsa.EncryptOAEP(sha256.New(), &rng{s: 1}, pub, []byte{1}, nil); return err }},
		op{"SignPKCS1v15", func() error { _, err := zrsa.SignPKCS1v15(nil, priv, crypto.SHA256, d); return err }},
		op{"SignPSS", func() error { _, err := zrsa.SignPSS(&rng{s: 1}, priv, crypto.SHA256, d, nil); return err }},
		op{"Sign", func() error { _, err := priv.Sign(&rng{s: 1}, d, crypto.SHA256); return err }},
		op{"Sign-pss", func() error {
			_, err := priv.Sign(&rng{s: 1}, d, &zrsa.PSSOptions{Hash: crypto.SHA256, SaltLength: zrsa.PSSSaltLengthEqualsHash})
			return err
		}},
		op{"Decrypt", func() error { _, err := priv.Decrypt(nil, make([]byte, ksz), nil); return err }},
		op{"Validate", func() error { return priv.Validate() }},
	)
	for _, o := range ops {
		func() {
			defer func() {
				if rec := recover(); rec != nil {
					c.Violation("malformed-pub-panic", fmt.Sprintf("%s on public key N=%q E=%q panics: %v", o.name, mk.N, mk.E, rec), "oracle",
						input{Kind: "malformed", Key: mk, Op: o.name})
				}
			}()
			if err := o.f(); err == nil {
				c.Violation("malformed-pub-accepted", fmt.Sprintf("%s on public key N=%q E=%q succeeds", o.name, mk.N, mk.E), "oracle",
					input{Kind: "malformed", Key: mk, Op: o.name})
			}
		}()
	}
}

var oracleGood keyJ

func oracle(c *vh.Ctx) {
	r := &rng{s: c.U64()}
	type shape struct {
		bits, np int
		e        string
	}
	shapes := []shape{{512, 2, "65537"}, {1024, 2, "65537"}, {1024, 2, "3"}, {768, 3, "65537"}, {1024, 4, "r31"}, {2048, 2, "65537"},
		{1024, 2, "big"}, {1000, 2, "r31"}, {1024, 5, "3"}, {1025, 2, "65537"}, {600, 3, "big"}, {1024, 2, "huge"}}
	reps := 1
	if c.Thorough {
		shapes = append(shapes, shape{3072, 2, "65537"}, shape{4096, 2, "3"}, shape{2048, 3, "r31"}, shape{2048, 5, "65537"}, shape{4096, 4, "big"},
			shape{1031, 2, "r40"}, shape{1536, 2, "huge"}, shape{513, 2, "3"})
		reps = 4
	}
	for rep := 0; rep < reps; rep++ {
		for _, sh := range shapes {
			k := genKey(r, sh.bits, sh.np, sh.e)
			if oracleGood.N == "" {
				oracleGood = k
			}
			for _, pre := range []bool{true, false} {
				k.Precompute = pre
				runBattery(c, k, r.U64())
				c.Stat(fmt.Sprintf("oracle.key.%dbit.%dprimes.e=%s", sh.bits, sh.np, sh.e), 1)
			}
		}
	}
	for _, mk := range malformedKeys(r, oracleGood) {
		if mk.N == oracleGood.N && sBig(mk.E) != nil && sBig(mk.E).Cmp(big.NewInt(2)) >= 0 {
			continue // E = 2 with a good modulus is not malformed for checkPub
		}
		if sBig(mk.E) != nil && sBig(mk.E).Cmp(big.NewInt(2)) >= 0 && sBig(mk.N) != nil && sBig(mk.N).Sign() > 0 {
			continue
		}
		malformedBattery(c, mk, oracleGood)
	}
}

// ---------------------------------------------------------------- replay
func replay(c *vh.Ctx, raw json.RawMessage) {
	var in input
	if err := json.Unmarshal(raw, &in); err != nil {
		panic(err)
	}
	switch in.Kind {
	case "big":
		bigCase(c, in)
	case "pubgroup", "privgroup":
		var g *group
		if in.Kind == "pubgroup" {
			g = newPubGroup(c, in.Key)
		} else {
			g = newPrivGroup(c, in.Key)
		}
		for _, e := range in.Env {
			g.lit(vh.UnHex(e))
		}
		for _, op := range in.Ops {
			g.add(op)
		}
		g.flush()
	case "oracle":
		runBattery(c, in.Key, in.Seed)
	case "malformed":
		good := genKey(&rng{s: 7}, 512, 2, "65537")
		malformedBattery(c, in.Key, good)
	default:
		panic("unknown replay kind " + in.Kind)
	}
}

func main() { vh.Main("C23", gen, replay) }
