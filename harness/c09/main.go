// C09 harness: x509.(*Certificate).VerifyHostname, matchHostnames and
// toLowerCaseASCII on enumerated and generated hosts / SAN / CN sets.
// Prints correspondence cases for coq/model/C09.v and evaluates the property
// directly with an independently written reference matcher (oracle).
package main

import (
	"bytes"
	"crypto/ed25519"
	"encoding/json"
	"fmt"
	"math/big"
	"net"
	"strings"
	"time"

	"github.com/zmap/zcrypto/encoding/asn1"
	"github.com/zmap/zcrypto/x509"
	"github.com/zmap/zcrypto/x509/pkix"
	"verifharness/vh"
)

// ---------- replayable input ----------
type certIn struct {
	IPs    []string `json:"ips"` // hex of net.IP bytes
	SAN    bool     `json:"san"` // certificate carries a subjectAltName extension
	DNS    []string `json:"dns"` // hex
	CN     string   `json:"cn"`  // hex
	Parsed bool     `json:"parsed,omitempty"`
	Emails []string `json:"emails,omitempty"` // only for Parsed
}
type input struct {
	Kind string  `json:"kind"` // lower | match | verify
	S    string  `json:"s,omitempty"`
	P    string  `json:"p,omitempty"`
	H    string  `json:"h,omitempty"`
	Cert *certIn `json:"cert,omitempty"`
}

var oidSAN = asn1.ObjectIdentifier{2, 5, 29, 17}

func hx(s string) string   { return vh.Hex([]byte(s)) }
func unhx(s string) string { return string(vh.UnHex(s)) }

func mkCert(ci *certIn) *x509.Certificate {
	c := &x509.Certificate{}
	for _, ip := range ci.IPs {
		c.IPAddresses = append(c.IPAddresses, net.IP(vh.UnHex(ip)))
	}
	for _, d := range ci.DNS {
		c.DNSNames = append(c.DNSNames, unhx(d))
	}
	c.Subject = pkix.Name{CommonName: unhx(ci.CN)}
	if ci.SAN {
		c.Extensions = []pkix.Extension{{Id: asn1.ObjectIdentifier{2, 5, 29, 15}}, {Id: oidSAN}}
	} else {
		c.Extensions = []pkix.Extension{{Id: asn1.ObjectIdentifier{2, 5, 29, 15}}}
	}
	return c
}

var edPriv ed25519.PrivateKey

// a certificate made by CreateCertificate + ParseCertificate: the SAN flag the
// model gets is what was asked for, the name lists are what the parser produced
func mkParsed(ci *certIn) (*x509.Certificate, *certIn, error) {
	if edPriv == nil {
		edPriv = ed25519.NewKeyFromSeed(bytes.Repeat([]byte{9}, 32))
	}
	t := &x509.Certificate{SerialNumber: big.NewInt(7), Subject: pkix.Name{CommonName: unhx(ci.CN)},
		NotBefore: time.Unix(1000, 0), NotAfter: time.Unix(2000, 0), SignatureAlgorithm: x509.Ed25519Sig}
	for _, ip := range ci.IPs {
		t.IPAddresses = append(t.IPAddresses, net.IP(vh.UnHex(ip)))
	}
	for _, d := range ci.DNS {
		t.DNSNames = append(t.DNSNames, unhx(d))
	}
	t.EmailAddresses = ci.Emails
	der, err := x509.CreateCertificate(zero{}, t, t, edPriv.Public(), edPriv)
	if err != nil {
		return nil, nil, err
	}
	c, err := x509.ParseCertificate(der)
	if err != nil {
		return nil, nil, err
	}
	out := &certIn{SAN: len(ci.IPs)+len(ci.DNS)+len(ci.Emails) > 0, CN: hx(c.Subject.CommonName)}
	for _, ip := range c.IPAddresses {
		out.IPs = append(out.IPs, vh.Hex(ip))
	}
	for _, d := range c.DNSNames {
		out.DNS = append(out.DNS, hx(d))
	}
	return c, out, nil
}

type zero struct{}

func (zero) Read(p []byte) (int, error) {
	for i := range p {
		p[i] = 0
	}
	return len(p), nil
}

// ---------- reference (the property, executable, written without Split/ToLower) ----------
func refLower(s string) string {
	b := make([]byte, 0, len(s))
	for i := 0; i < len(s); i++ {
		ch := s[i]
		if ch >= 'A' && ch <= 'Z' {
			ch = ch - 'A' + 'a'
		}
		b = append(b, ch)
	}
	return string(b)
}

func refMatch(p, h string) bool {
	if len(p) > 0 && p[len(p)-1] == '.' {
		p = p[:len(p)-1]
	}
	if len(h) > 0 && h[len(h)-1] == '.' {
		h = h[:len(h)-1]
	}
	if p == "" || h == "" {
		return false
	}
	for {
		pi, hi := strings.IndexByte(p, '.'), strings.IndexByte(h, '.')
		pl, hl := p, h
		if pi >= 0 {
			pl = p[:pi]
		}
		if hi >= 0 {
			hl = h[:hi]
		}
		if pl != "*" && pl != hl {
			return false
		}
		if (pi < 0) != (hi < 0) {
			return false
		}
		if pi < 0 {
			return true
		}
		p, h = p[pi+1:], h[hi+1:]
	}
}

func refCandidate(h string) string {
	if len(h) >= 3 && strings.HasPrefix(h, "[") && strings.HasSuffix(h, "]") {
		return h[1 : len(h)-1]
	}
	return h
}

// returns accept and the rule that decided
func refVerify(ci *certIn, h string) (bool, string) {
	if ip := net.ParseIP(refCandidate(h)); ip != nil {
		ip16 := ip.To16()
		for _, s := range ci.IPs {
			s16 := net.IP(vh.UnHex(s)).To16()
			if s16 != nil && bytes.Equal(s16, ip16) {
				return true, "ip"
			}
		}
		return false, "ip"
	}
	lh := refLower(h)
	if ci.SAN {
		for _, d := range ci.DNS {
			if refMatch(refLower(unhx(d)), lh) {
				return true, "dns"
			}
		}
		return false, "dns"
	}
	return refMatch(refLower(unhx(ci.CN)), lh), "cn"
}

// ---------- Coq printers ----------
func coqCert(ci *certIn) string {
	ips := make([]string, len(ci.IPs))
	for i, s := range ci.IPs {
		ips[i] = vh.Bytes(vh.UnHex(s))
	}
	dns := make([]string, len(ci.DNS))
	for i, s := range ci.DNS {
		dns[i] = vh.Bytes(vh.UnHex(s))
	}
	return fmt.Sprintf("{| ips := %s; has_san := %s; dns := %s; cn := %s |}",
		vh.List0(ips, "bytes"), vh.Bool(ci.SAN), vh.List0(dns, "bytes"), vh.Bytes(vh.UnHex(ci.CN)))
}

func optIP(s string) string {
	ip := net.ParseIP(s)
	if ip == nil {
		return "None"
	}
	return vh.Some(vh.Bytes(ip))
}

// every string the implementation could conceivably hand to ParseIP
func queried(h string) string {
	seen := map[string]bool{}
	var xs []string
	add := func(s string) {
		if !seen[s] {
			seen[s] = true
			xs = append(xs, vh.Pair(vh.Str(s), optIP(s)))
		}
	}
	add(h)
	if len(h) >= 1 {
		add(h[1:])
		add(h[:len(h)-1])
	}
	if len(h) >= 2 {
		add(h[1 : len(h)-1])
	}
	return vh.List(xs)
}

// ---------- running one case ----------
func runLower(c *vh.Ctx, s string) {
	got := x509.VerifToLowerCaseASCII(s)
	nk := ""
	if got != s {
		nk = s
	}
	in := input{Kind: "lower", S: hx(s)}
	c.Case("case", vh.App("CLower", vh.Str(s), vh.Str(got)), in, nk)
	if got != refLower(s) {
		c.Violation("lowercase", fmt.Sprintf("toLowerCaseASCII(%q) = %q, bytewise ASCII lower-casing gives %q", s, got, refLower(s)), "case", in)
	}
}

func runMatch(c *vh.Ctx, p, h string) {
	got := x509.VerifMatchHostnames(p, h)
	nk := ""
	if strings.Count(strings.TrimSuffix(p, "."), ".") == strings.Count(strings.TrimSuffix(h, "."), ".") && p != "" && h != "" {
		nk = p + "\x00" + h
	}
	in := input{Kind: "match", P: hx(p), H: hx(h)}
	c.Case("case", vh.App("CMatch", vh.Str(p), vh.Str(h), vh.Bool(got)), in, nk)
	checkMatch(c, p, h, got, "case")
}

func checkMatch(c *vh.Ctx, p, h string, got bool, stream string) bool {
	if want := refMatch(p, h); got != want {
		key := "match-accepts"
		if want {
			key = "match-rejects"
		}
		c.Violation(key, fmt.Sprintf("matchHostnames(%q, %q) = %v, label-by-label rule gives %v", p, h, got, want), stream,
			input{Kind: "match", P: hx(p), H: hx(h)})
		return false
	}
	return true
}

func verifyImpl(crt *x509.Certificate, h string) bool { return crt.VerifyHostname(h) == nil }

func checkVerify(c *vh.Ctx, ci *certIn, h string, got bool, stream string) bool {
	want, rule := refVerify(ci, h)
	if got != want {
		verb := "rejects"
		if got {
			verb = "accepts"
		}
		c.Violation("verify-"+rule+"-"+verb, fmt.Sprintf("VerifyHostname(%q) on %+v: ok=%v, the %s rule gives %v", h, *ci, got, rule, want),
			stream, input{Kind: "verify", H: hx(h), Cert: ci})
		return false
	}
	return true
}

func runVerify(c *vh.Ctx, ci *certIn, h string) {
	var crt *x509.Certificate
	eff := ci
	if ci.Parsed {
		var err error
		crt, eff, err = mkParsed(ci)
		if err != nil {
			c.Stat("parsed_cert_skipped", 1)
			return
		}
		if x509.VerifHasSANExtension(crt) != eff.SAN {
			c.Violation("san-detect", fmt.Sprintf("hasSANExtension = %v for a certificate created with SAN=%v", !eff.SAN, eff.SAN), "case",
				input{Kind: "verify", H: hx(h), Cert: ci})
		}
	} else {
		crt = mkCert(ci)
	}
	got := verifyImpl(crt, h)
	_, rule := refVerify(eff, h)
	c.Stat("rule."+rule, 1)
	if got {
		c.Stat("accepted", 1)
	}
	in := input{Kind: "verify", H: hx(h), Cert: ci}
	c.Case("case", vh.App("CVerify", queried(h), coqCert(eff), vh.Str(h), vh.Bool(got)), in, fmt.Sprintf("%v|%s", *eff, h))
	checkVerify(c, eff, h, got, "case")
}

// ---------- enumeration ----------
// same order as C09.strings_upto: by length, then lexicographic by alphabet position
func stringsUpto(alpha []byte, n int) []string {
	var out []string
	var rec func(pre []byte, k int)
	rec = func(pre []byte, k int) {
		if k == 0 {
			out = append(out, string(pre))
			return
		}
		for _, a := range alpha {
			rec(append(pre, a), k-1)
		}
	}
	for k := 0; k <= n; k++ {
		rec(nil, k)
	}
	return out
}

func hashBytes(h uint64, s string) uint64 {
	h = mix(h, 7)
	for i := 0; i < len(s); i++ {
		h = mix(h, uint64(s[i]))
	}
	return h
}
// mix mirrors the model's rolling checksum (mask instead of modulus: cheap under vm_compute)
func mix(h, x uint64) uint64 { return (h*31 + x + 1) & 0x7fffffff }

func b2n(b bool) uint64 {
	if b {
		return 1
	}
	return 0
}

func xLower(c *vh.Ctx, alpha []byte, n int) {
	var h uint64
	ss := stringsUpto(alpha, n)
	bad := false
	for _, s := range ss {
		got := x509.VerifToLowerCaseASCII(s)
		h = hashBytes(h, got)
		c.Eval("")
		if !bad && got != refLower(s) {
			bad = true
			c.Violation("lowercase", fmt.Sprintf("toLowerCaseASCII(%q) = %q, bytewise ASCII lower-casing gives %q", s, got, refLower(s)), "case",
				input{Kind: "lower", S: hx(s)})
		}
	}
	c.Case("xcase", vh.App("XLower", vh.Bytes(alpha), vh.Nat(n), vh.N(h)), map[string]interface{}{"kind": "xlower", "alpha": vh.Hex(alpha), "n": n},
		fmt.Sprintf("xl%x/%d", alpha, n))
	c.Stat("exhaustive_lower", len(ss))
	c.Exhaustive(fmt.Sprintf("toLowerCaseASCII on every string of length <= %d over bytes %x", n, alpha))
}

func xMatch(c *vh.Ctx, alpha []byte, n int) {
	var h uint64
	ss := stringsUpto(alpha, n)
	bad := false
	for _, p := range ss {
		for _, s := range ss {
			got := x509.VerifMatchHostnames(p, s)
			h = mix(h, b2n(got))
			if !bad && !checkMatch(c, p, s, got, "case") {
				bad = true
			}
		}
	}
	c.Case("xcase", vh.App("XMatch", vh.Bytes(alpha), vh.Nat(n), vh.N(h)), map[string]interface{}{"kind": "xmatch", "alpha": vh.Hex(alpha), "n": n},
		fmt.Sprintf("xm%x/%d", alpha, n))
	c.Stat("exhaustive_match_pairs", len(ss)*len(ss))
	c.Exhaustive(fmt.Sprintf("matchHostnames on every (pattern, host) pair of strings of length <= %d over %q", n, alpha))
}

func xVerify(c *vh.Ctx, alpha []byte, n int, certs []*certIn) {
	ss := stringsUpto(alpha, n)
	var tbl []string
	for _, s := range ss {
		if ip := net.ParseIP(s); ip != nil {
			tbl = append(tbl, vh.Pair(vh.Str(s), vh.Bytes(ip)))
		}
	}
	var h uint64
	cs := make([]string, len(certs))
	badKeys := map[string]bool{}
	for i, ci := range certs {
		cs[i] = coqCert(ci)
		crt := mkCert(ci)
		for _, s := range ss {
			got := verifyImpl(crt, s)
			h = mix(h, b2n(got))
			want, rule := refVerify(ci, s)
			if got != want && !badKeys[rule] {
				badKeys[rule] = true
				checkVerify(c, ci, s, got, "case")
			}
		}
	}
	c.Case("xcase", vh.App("XVerify", vh.Bytes(alpha), vh.Nat(n), vh.List0(tbl, "(bytes*bytes)"), vh.List0(cs, "hcert"), vh.N(h)),
		map[string]interface{}{"kind": "xverify", "alpha": vh.Hex(alpha), "n": n, "certs": certs}, fmt.Sprintf("xv%x/%d/%d", alpha, n, len(certs)))
	c.Stat("exhaustive_verify", len(ss)*len(certs))
	c.Stat("exhaustive_ip_literals", len(tbl))
	c.Exhaustive(fmt.Sprintf("VerifyHostname on every host of length <= %d over %q x %d SAN/CN sets", n, alpha, len(certs)))
}

// ---------- generators ----------
var alphaFull = []byte{'a', 'B', '1', '.', '*', '[', ']', ':', 0xC3}

func ipHex(s string) string {
	ip := net.ParseIP(s)
	if ip4 := ip.To4(); ip4 != nil && !strings.Contains(s, ":") {
		return vh.Hex(ip4)
	}
	return vh.Hex(ip)
}

func fixedCerts() []*certIn {
	hs := func(xs ...string) []string {
		o := []string{}
		for _, x := range xs {
			o = append(o, hx(x))
		}
		return o
	}
	return []*certIn{
		{SAN: true, DNS: hs("a.B"), CN: hx("a")},
		{SAN: false, CN: hx("a.B"), DNS: hs("1")},
		{SAN: true, DNS: hs(), CN: hx("a"), IPs: []string{ipHex("::1")}},
		{SAN: true, DNS: hs("*.a", "B"), CN: hx("1")},
		{SAN: true, DNS: hs("*"), CN: hx("")},
		{SAN: true, DNS: hs("a.", "1.*"), CN: hx("B")},
		{SAN: false, CN: hx("*.*")},
		{SAN: true, DNS: hs("1.a", "a.*.1"), IPs: []string{ipHex("::"), "00000001", vh.Hex(net.ParseIP("1::"))}, CN: hx("::")},
		{SAN: false, CN: hx("")},
		{SAN: true, DNS: hs("\xc3", "\xc3.a", "A\xc3"), CN: hx("a")},
		{SAN: false, CN: hx("B."), IPs: []string{ipHex("::1"), ipHex("::1:1")}},
		{SAN: true, DNS: hs("[a]", ":", "[::]", "."), CN: hx("a")},
		{SAN: false, CN: hx("[::1]"), IPs: []string{"00000000000000000000ffff00000001", "0001"}},
		{SAN: true, DNS: hs("", "*.", ".a", "a..B"), CN: hx("a")},
	}
}

var labelPool = []string{"a", "B", "ab", "Ab", "*", "1", "www", "WWW", "xn--x", "\xc3\xa9", "\xc3", "a*", "", "Z", "z", "@", "`", "[", "{"}

func randName(c *vh.Ctx) string {
	n := 1 + c.Intn(4)
	var ls []string
	for i := 0; i < n; i++ {
		ls = append(ls, labelPool[c.Intn(len(labelPool))])
	}
	s := strings.Join(ls, ".")
	switch c.Intn(8) {
	case 0:
		s += "."
	case 1:
		s += ".."
	}
	return s
}

// mutate case / trailing dot / one label of s
func nearName(c *vh.Ctx, s string) string {
	switch c.Intn(7) {
	case 0:
		return strings.ToUpper(s)
	case 1:
		return s + "."
	case 2:
		return strings.TrimSuffix(s, ".")
	case 3:
		ls := strings.Split(s, ".")
		ls[c.Intn(len(ls))] = labelPool[c.Intn(len(labelPool))]
		return strings.Join(ls, ".")
	case 4:
		ls := strings.Split(s, ".")
		for i := range ls {
			if ls[i] == "*" {
				ls[i] = labelPool[c.Intn(len(labelPool))]
			}
		}
		return strings.Join(ls, ".")
	case 5:
		b := []byte(s)
		if len(b) > 0 {
			i := c.Intn(len(b))
			b[i] ^= 0x20
		}
		return string(b)
	}
	return s
}

var ipLits = []string{"1.2.3.4", "::ffff:1.2.3.4", "::ffff:102:304", "0:0:0:0:0:ffff:0102:0304", "::1", "0::1", "[::1]", "[1.2.3.4]",
	"2001:db8::1", "2001:DB8::1", "[2001:db8::1]", "1.2.3.4.", "01.2.3.4", "1.2.3", "fe80::1%eth0", "[]", "[a]", "[1.2.3.4", "1.2.3.4]", "::",
	"[::ffff:1.2.3.4]", "::1.2.3.4", "1.2.3.5", "[[::1]]", "[::1].", "0.0.0.0", "::ffff:0:0", "255.255.255.255"}

func randCert(c *vh.Ctx) *certIn {
	ci := &certIn{SAN: c.Intn(3) != 0, CN: hx(randName(c)), DNS: []string{}, IPs: []string{}}
	for i := c.Intn(4); i > 0; i-- {
		ci.DNS = append(ci.DNS, hx(randName(c)))
	}
	for i := c.Intn(3); i > 0; i-- {
		l := ipLits[c.Intn(len(ipLits))]
		l = strings.Trim(l, "[]")
		if ip := net.ParseIP(l); ip != nil {
			switch c.Intn(4) {
			case 0:
				ci.IPs = append(ci.IPs, vh.Hex(ip)) // 16-byte form
			case 1:
				ci.IPs = append(ci.IPs, vh.Hex(ip[:12])) // odd length
			default:
				ci.IPs = append(ci.IPs, ipHex(l))
			}
		}
	}
	if c.Intn(6) == 0 {
		ci.DNS = append(ci.DNS, hx(ipLits[c.Intn(len(ipLits))])) // an IP literal as a DNS SAN must never match an IP host
	}
	if c.Intn(8) == 0 {
		ci.CN = hx(ipLits[c.Intn(len(ipLits))])
	}
	return ci
}

func gen(c *vh.Ctx) {
	// --- exhaustive ---
	lowAlpha := []byte{'a', 'Z', '@', '[', 0x80, 0xC3, 0xA9, 0xE2, 0xEF, 0xBF, 0xBD, 0xF0, 0xC1}
	ln, mn, vn := 3, 4, 4
	if c.Thorough {
		ln, mn, vn = 4, 5, 5
	}
	xLower(c, lowAlpha, ln)
	xLower(c, []byte{'A', 'z', 0xED, 0xA0, 0x9F, 0xF4, 0x8F, 0x90, 0xE0}, ln)
	xMatch(c, []byte{'a', 'b', '.', '*'}, mn)
	fc := fixedCerts()
	xVerify(c, alphaFull, vn, fc)
	// seeded extra SAN/CN sets over the same alphabet
	pool := stringsUpto(alphaFull, 3)
	var rc []*certIn
	for i := 0; i < 6; i++ {
		ci := &certIn{SAN: c.Bool(), CN: hx(pool[c.Intn(len(pool))]), DNS: []string{}, IPs: []string{}}
		for j := c.Intn(3); j > 0; j-- {
			ci.DNS = append(ci.DNS, hx(pool[c.Intn(len(pool))]))
		}
		if c.Bool() {
			ci.IPs = append(ci.IPs, ipHex([]string{"::", "::1", "1::", "::1:1", "1::1"}[c.Intn(5)]))
		}
		rc = append(rc, ci)
	}
	xVerify(c, alphaFull, vn-1, rc)

	// --- localised streams ---
	for _, s := range stringsUpto([]byte{'a', 'Q', 0xC3, 0xA9, 0xEF, 0xBF, 0xBD}, 3) {
		runLower(c, s)
	}
	for _, p := range stringsUpto([]byte{'a', '.', '*'}, 3) {
		for _, h := range stringsUpto([]byte{'a', '.', '*'}, 3) {
			runMatch(c, p, h)
		}
	}
	nr := 300
	if c.Thorough {
		nr = 6000
	}
	for i := 0; i < nr; i++ {
		s := randName(c)
		runLower(c, s)
		b := c.Bytes(1 + c.Intn(6))
		runLower(c, string(b))
		p := randName(c)
		runMatch(c, p, nearName(c, p))
		runMatch(c, p, randName(c))
	}
	// IP literal forms against certificates holding the same address in 4- and 16-byte form
	ipCerts := []*certIn{
		{SAN: true, IPs: []string{"01020304"}, DNS: []string{hx("1.2.3.4")}, CN: hx("1.2.3.4")},
		{SAN: true, IPs: []string{vh.Hex(net.ParseIP("1.2.3.4"))}, DNS: []string{}, CN: hx("::1")},
		{SAN: true, IPs: []string{vh.Hex(net.ParseIP("::1")), vh.Hex(net.ParseIP("2001:db8::1"))}, DNS: []string{hx("[::1]"), hx("2001:db8::1")}, CN: hx("a")},
		{SAN: false, IPs: []string{}, DNS: []string{}, CN: hx("1.2.3.4")},
		{SAN: false, IPs: []string{"01020305", "0102030400"}, DNS: []string{}, CN: hx("[::1]")},
		{SAN: true, IPs: []string{"00000000"}, DNS: []string{hx("*.2.3.4"), hx("*")}, CN: hx("")},
		{SAN: true, IPs: []string{"00000000000000000000fffe01020304", "000000000000000000000000ffff01020304"}, DNS: []string{}, CN: hx("")},
	}
	for _, ci := range ipCerts {
		for _, h := range ipLits {
			runVerify(c, ci, h)
		}
	}
	// parsed certificates: SAN detection through the real parser
	parsed := []*certIn{
		{Parsed: true, CN: hx("a.example"), DNS: []string{hx("b.example")}},
		{Parsed: true, CN: hx("a.example")},
		{Parsed: true, CN: hx("a.example"), IPs: []string{"01020304"}},
		{Parsed: true, CN: hx("a.example"), Emails: []string{"x@a.example"}},
		{Parsed: true, CN: hx("*.example"), DNS: []string{hx("*.B.example"), hx("c.example.")}, IPs: []string{vh.Hex(net.ParseIP("::1"))}},
	}
	for _, ci := range parsed {
		for _, h := range []string{"a.example", "A.EXAMPLE.", "b.example", "x.b.example", "c.example", "1.2.3.4", "[::1]", "x.example", "example"} {
			runVerify(c, ci, h)
		}
	}
	// random certificates x related hosts
	for i := 0; i < nr; i++ {
		ci := randCert(c)
		for j := 0; j < 4; j++ {
			var h string
			switch c.Intn(6) {
			case 0:
				h = ipLits[c.Intn(len(ipLits))]
			case 1:
				h = nearName(c, unhx(ci.CN))
			case 2, 3:
				if len(ci.DNS) > 0 {
					h = nearName(c, unhx(ci.DNS[c.Intn(len(ci.DNS))]))
				} else {
					h = randName(c)
				}
			case 4:
				h = "[" + randName(c) + "]"
			default:
				h = randName(c)
			}
			runVerify(c, ci, h)
		}
	}
}

func replay(c *vh.Ctx, raw json.RawMessage) {
	var in input
	if err := json.Unmarshal(raw, &in); err != nil {
		panic(err)
	}
	switch in.Kind {
	case "lower":
		runLower(c, unhx(in.S))
	case "match":
		runMatch(c, unhx(in.P), unhx(in.H))
	case "verify":
		runVerify(c, in.Cert, unhx(in.H))
	default:
		// an exhaustive case: rerun the whole generator in the quick tier
		gen(c)
	}
}

func main() { vh.Main("C09", gen, replay) }
