// C30 harness: TLS handshake messages and session states round-trip and
// reject truncation.  Drives marshal/unmarshal of every message type through
// the verif hook tls/verif_c30.go:
//
//	ecase: generated value -> Go marshal bytes (or panic) + validity   vs model enc_msg / valid
//	dcase: input bytes -> for EVERY prefix of the input, Go unmarshal accept + decoded value
//	       vs model dec_msg (inputs: encodings, mutated encodings, exhaustive small bodies, random bytes)
//	scase: large inputs, whole-input decode only
//
// Direct oracle (implementation only): unmarshal(marshal(v)) == v for valid v; no strict prefix of
// marshal(v) is accepted (hellos: only the cut before the extension block).
package main

import (
	"bytes"
	"encoding/json"
	"fmt"

	"github.com/zmap/zcrypto/tls"
	"verifharness/c30/tlsfmt"
	"verifharness/vh"
)

type input struct {
	Kind  int           `json:"kind"`
	Has   bool          `json:"has"`
	Msg   *tls.VerifMsg `json:"msg,omitempty"`   // value case
	Data  string        `json:"data,omitempty"`  // raw decoder input (hex)
	Small int           `json:"small,omitempty"` // exhaustive small-body enumeration of this depth
	Subst bool          `json:"subst,omitempty"` // Data is the base of a systematic single-byte substitution
}

func gen(c *vh.Ctx) {
	nval := 20
	nmut := 3
	nrand := 25
	nbase, maxbase := 3, 160
	if c.Thorough {
		nval, nmut, nrand = 60, 6, 150
		nbase, maxbase = 8, 400
	}
	for k := 0; k < tls.VerifNumKinds; k++ {
		ki := kinds[k]
		if ki == nil {
			continue
		}
		// 1. generated values: encoding, all prefixes, mutations
		vals := ki.gen(c, nval)
		bases := 0
		for _, v := range vals {
			enc := valueCase(c, k, v.has, v.m, "gen")
			if enc == nil {
				continue
			}
			// systematic single-byte substitution on a few valid encodings of moderate size
			if bases < nbase && len(enc) >= 8 && len(enc) <= maxbase && ki.valid(v.has, v.m) {
				bases++
				substCase(c, k, v.has, enc)
			}
			for i := 0; i < nmut; i++ {
				mut := mutate(c, enc)
				dataCase(c, k, v.has, mut, "mut")
			}
		}
		// 2. exhaustive small bodies: type || uint24(len) || body, body in {0,1,2}^<=depth, every prefix,
		//    folded into one rolling checksum computed in the same order by the model
		hasVals := []bool{false}
		if ki.usesHas {
			hasVals = []bool{false, true}
		}
		depth := 5
		if c.Thorough {
			depth = 7
		}
		for _, has := range hasVals {
			h, n := enumSmall(k, has, depth)
			c.Case("xcase", vh.Pair(ki.ctor, vh.Bool(has), vh.NI(int(ki.typ)), vh.Bool(ki.noHeader), vh.Nat(depth), vh.N(h)),
				input{Kind: k, Has: has, Small: depth}, fmt.Sprintf("x%d%v", k, has))
			c.Stat("exhaustive_small_inputs", n)
			c.Exhaustive(fmt.Sprintf("%s(has=%v): header+uint24 length+every body in {0,1,2}^<=%d, every prefix", ki.name, has, depth))
			// 3. random bytes
			for i := 0; i < nrand; i++ {
				n := c.Intn(40)
				b := c.Bytes(n)
				if n > 4 && c.Bool() && !ki.noHeader {
					b[0], b[1], b[2], b[3] = ki.typ, 0, 0, byte(n-4)
				}
				dataCase(c, k, has, b, "rand")
			}
		}
	}
}

func replay(c *vh.Ctx, raw json.RawMessage) {
	var in input
	if err := json.Unmarshal(raw, &in); err != nil {
		panic(err)
	}
	if in.Kind < 0 || in.Kind >= tls.VerifNumKinds || kinds[in.Kind] == nil {
		panic("bad kind")
	}
	if in.Small > 0 {
		ki := kinds[in.Kind]
		h, _ := enumSmall(in.Kind, in.Has, in.Small)
		c.Case("xcase", vh.Pair(ki.ctor, vh.Bool(in.Has), vh.NI(int(ki.typ)), vh.Bool(ki.noHeader), vh.Nat(in.Small), vh.N(h)), in, "x")
		return
	}
	if in.Subst {
		substCase(c, in.Kind, in.Has, vh.UnHex(in.Data))
		return
	}
	if in.Msg != nil {
		valueCase(c, in.Kind, in.Has, in.Msg, "replay")
	}
	if in.Data != "" || in.Msg == nil {
		dataCase(c, in.Kind, in.Has, vh.UnHex(in.Data), "replay")
	}
}

// valueCase: marshal v, compare with the model (ecase), run the oracle, emit the prefix case.
func valueCase(c *vh.Ctx, k int, has bool, m *tls.VerifMsg, origin string) []byte {
	ki := kinds[k]
	m.HasSignatureAlgorithm = has
	enc, ok := tls.VerifMarshal(k, m)
	valid := ki.valid(has, m)
	in := input{Kind: k, Has: has, Msg: m}
	out := "None"
	if ok {
		out = vh.Some(hb(enc))
	}
	nk := ""
	if ok {
		nk = fmt.Sprintf("%d|%x", k, enc)
		if len(enc) > 64 {
			nk = nk[:64] + fmt.Sprint(len(enc))
		}
	}
	c.Case("ecase", vh.Pair(ki.coq(has, m), vh.Bool(valid), out), in, nk)
	c.Stat("values."+ki.name, 1)
	if !ok {
		c.Stat("marshal_overflow", 1)
		return nil
	}
	if valid {
		c.Stat("valid_values", 1)
	}
	// ---- direct oracle ----
	dec, dok := tls.VerifUnmarshal(k, has, enc)
	if valid {
		if !dok {
			c.Violation("roundtrip-"+ki.name, fmt.Sprintf("%s: unmarshal rejects marshal's output %x", ki.name, clip(enc)), "ecase", in)
		} else if d := ki.diff(has, m, dec); d != "" {
			c.Violation("roundtrip-"+ki.name, fmt.Sprintf("%s: unmarshal(marshal(v)) differs from v in %s (encoding %x)", ki.name, d, clip(enc)), "ecase", in)
		}
	}
	if valid || dok {
		// no strict prefix of an accepted encoding may be accepted (hellos: only the cut before the extensions)
		allowed := -1
		if ki.optTailCut != nil {
			allowed = ki.optTailCut(enc)
		}
		for i := 0; i < len(enc); i++ {
			if _, pok := tls.VerifUnmarshal(k, has, enc[:i]); pok && i != allowed {
				c.Violation("prefix-"+ki.name, fmt.Sprintf("%s: the %d-byte prefix of a %d-byte encoding is accepted (%x)", ki.name, i, len(enc), clip(enc)), "ecase", in)
				break
			}
		}
	}
	if len(enc) > 1500 {
		r := "None"
		if dok {
			r = vh.Some(ki.coq(has, dec))
		}
		c.Case("scase", vh.Pair(ki.ctor, vh.Bool(has), hb(enc), r), input{Kind: k, Has: has, Data: vh.Hex(enc)}, "")
		return nil // no mutations / prefix cases of huge inputs
	}
	dataCase(c, k, has, enc, origin)
	return enc
}

// dataCase: feed every prefix of data to Go's decoder; the model must agree on every prefix.
func dataCase(c *vh.Ctx, k int, has bool, data []byte, origin string) {
	ki := kinds[k]
	var acc []string
	for i := 0; i <= len(data); i++ {
		if d, ok := tls.VerifUnmarshal(k, has, data[:i]); ok {
			acc = append(acc, vh.Pair(vh.NI(i), ki.coq(has, d)))
		}
	}
	nk := ""
	if len(acc) > 0 || origin == "mut" {
		nk = fmt.Sprintf("%d|%v|%x", k, has, data)
		if len(nk) > 80 {
			nk = nk[:80] + fmt.Sprint(len(data))
		}
	}
	c.Stat("inputs."+origin, 1)
	c.Stat("prefixes_decoded", len(data)+1)
	if len(acc) > 0 {
		c.Stat("inputs_with_accepted_prefix", 1)
	}
	c.Case("dcase", vh.Pair(ki.ctor, vh.Bool(has), hb(data), vh.List0(acc, "(N*msg)")),
		input{Kind: k, Has: has, Data: vh.Hex(data)}, nk)
}

// mutate returns a damaged copy of an encoding: byte flips, +-1 on a byte (length fields),
// zeroing, appending, dropping or duplicating a byte.
func mutate(c *vh.Ctx, enc []byte) []byte {
	b := append([]byte{}, enc...)
	n := 1 + c.Intn(2)
	for j := 0; j < n; j++ {
		if len(b) == 0 {
			b = append(b, byte(c.U64()))
			continue
		}
		i := c.Intn(len(b))
		if c.Intn(3) == 0 && len(b) > 4 { // prefer the structured front part (lengths live there)
			i = c.Intn(min(len(b), 48))
		}
		switch c.Intn(8) {
		case 0:
			b[i] ^= 1 << uint(c.Intn(8))
		case 1:
			b[i]++
		case 2:
			b[i]--
		case 3:
			b[i] = 0
		case 4:
			b = append(b, c.Bytes(1+c.Intn(3))...)
		case 5:
			b = append(b[:i], b[i+1:]...)
		case 6:
			b = append(b[:i+1], b[i:]...)
		case 7:
			b[i] = byte(c.U64())
		}
	}
	return b
}

func clip(b []byte) []byte {
	if len(b) > 96 {
		return b[:96]
	}
	return b
}

// digest of one whole-input decode: see C30.digest_dec
func digestDec(k int, has bool, in []byte, h uint64) uint64 {
	m, ok := tls.VerifUnmarshal(k, has, in)
	if !ok {
		return vh.Mix(h, 0)
	}
	m.HasSignatureAlgorithm = has
	e, eok := tls.VerifMarshal(k, m)
	if !eok {
		return vh.Mix(h, 2)
	}
	h = vh.Mix(h, 1)
	for _, b := range e {
		h = vh.Mix(h, uint64(b))
	}
	return h
}

// substCase: see C30.digest_subst (every position x 9 substituted values, whole-input decode)
func substCase(c *vh.Ctx, k int, has bool, base []byte) {
	ki := kinds[k]
	var h uint64
	buf := make([]byte, len(base))
	for i := range base {
		o := base[i]
		for _, v := range []byte{0, 1, 2, 3, 127, 128, 255, o + 1, o + 255} {
			copy(buf, base)
			buf[i] = v
			h = digestDec(k, has, buf, h)
		}
	}
	c.Stat("substituted_inputs", 9*len(base))
	c.Case("ycase", vh.Pair(ki.ctor, vh.Bool(has), hb(base), vh.N(h)), input{Kind: k, Has: has, Data: vh.Hex(base), Subst: true},
		fmt.Sprintf("y%d|%x", k, clip(base)))
}

// enumSmall: see C30.enum_small (same traversal, same checksum)
func enumSmall(k int, has bool, depth int) (uint64, int) {
	ki := kinds[k]
	var h uint64
	n := 0
	var rec func(body []byte, d int)
	rec = func(body []byte, d int) {
		in := append([]byte{}, body...)
		if !ki.noHeader {
			in = append([]byte{ki.typ, 0, 0, byte(len(body))}, body...)
		}
		n++
		for i := 0; i <= len(in); i++ {
			m, ok := tls.VerifUnmarshal(k, has, in[:i])
			if !ok {
				h = vh.Mix(h, 0)
				continue
			}
			m.HasSignatureAlgorithm = has
			if e, eok := tls.VerifMarshal(k, m); eok {
				h = vh.Mix(h, 1)
				for _, b := range e {
					h = vh.Mix(h, uint64(b))
				}
			} else {
				h = vh.Mix(h, 2)
			}
		}
		if d > 0 {
			for b := byte(0); b < 3; b++ {
				rec(append(append([]byte{}, body...), b), d-1)
			}
		}
	}
	rec(nil, depth)
	return h, n
}

// ---- Coq printers ----
func hb(b []byte) string { return tlsfmt.HB(b) }

func hbs(l [][]byte) string {
	xs := make([]string, len(l))
	for i, b := range l {
		xs[i] = hb(b)
	}
	return vh.List0(xs, "bytes")
}
func nums(l []uint16) string {
	xs := make([]string, len(l))
	for i, x := range l {
		xs[i] = vh.N(uint64(x))
	}
	return vh.List0(xs, "N")
}

func beq(a, b []byte) bool { return bytes.Equal(a, b) }
func bseq(a, b [][]byte) bool {
	if len(a) != len(b) {
		return false
	}
	for i := range a {
		if !bytes.Equal(a[i], b[i]) {
			return false
		}
	}
	return true
}
func u16eq(a, b []uint16) bool {
	if len(a) != len(b) {
		return false
	}
	for i := range a {
		if a[i] != b[i] {
			return false
		}
	}
	return true
}
func allNonEmpty(l [][]byte) bool {
	for _, x := range l {
		if len(x) == 0 {
			return false
		}
	}
	return true
}

func main() { vh.Main("C30", gen, replay) }
