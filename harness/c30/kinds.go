package main

import (
	"fmt"

	"github.com/zmap/zcrypto/tls"
	"verifharness/vh"
)

type val struct {
	has bool
	m   *tls.VerifMsg
}

type kindInfo struct {
	name       string
	ctor       string // Coq constructor of C30.kind
	typ        byte   // handshake type byte
	noHeader   bool   // session states: no 4-byte header
	usesHas    bool   // decoder reads hasSignatureAlgorithm
	gen        func(c *vh.Ctx, n int) []val
	coq        func(has bool, m *tls.VerifMsg) string
	valid      func(has bool, m *tls.VerifMsg) bool      // the round-trip domain, restated on the Go side
	diff       func(has bool, a, b *tls.VerifMsg) string // "" when the decoded value equals the original
	optTailCut func(enc []byte) int                      // hellos: the one strict prefix that may be accepted
}

var kinds [tls.VerifNumKinds]*kindInfo

// fill returns n bytes: random when short, one repeated byte when long (printed as a run)
func fill(c *vh.Ctx, n int) []byte {
	if n < 600 {
		return c.Bytes(n)
	}
	b := make([]byte, n)
	x := byte(c.U64())
	for i := range b {
		b[i] = x
	}
	return b
}

// pick a size: boundary values first, then random below max
func size(c *vh.Ctx, i int, bounds []int, max int) int {
	if i < len(bounds) {
		return bounds[i]
	}
	return c.Intn(max + 1)
}

func always(bool, *tls.VerifMsg) bool { return true }

func opaqueKind(name, ctor, coqCtor string, typ byte, get func(*tls.VerifMsg) *[]byte, bounds []int, max int, nonEmpty bool) *kindInfo {
	return &kindInfo{name: name, ctor: ctor, typ: typ,
		gen: func(c *vh.Ctx, n int) []val {
			var out []val
			for i := 0; i < n; i++ {
				m := &tls.VerifMsg{}
				*get(m) = fill(c, size(c, i, bounds, max))
				out = append(out, val{false, m})
			}
			return out
		},
		coq:   func(_ bool, m *tls.VerifMsg) string { return vh.App(coqCtor, hb(*get(m))) },
		valid: func(_ bool, m *tls.VerifMsg) bool { return !nonEmpty || len(*get(m)) > 0 },
		diff: func(_ bool, a, b *tls.VerifMsg) string {
			if !beq(*get(a), *get(b)) {
				return "the opaque field"
			}
			return ""
		}}
}

func emptyKind(name, ctor, coqCtor string, typ byte) *kindInfo {
	return &kindInfo{name: name, ctor: ctor, typ: typ,
		gen:   func(c *vh.Ctx, n int) []val { return []val{{false, &tls.VerifMsg{}}} },
		coq:   func(bool, *tls.VerifMsg) string { return coqCtor },
		valid: always,
		diff:  func(bool, *tls.VerifMsg, *tls.VerifMsg) string { return "" }}
}

func randU16s(c *vh.Ctx, n int) []uint16 {
	out := make([]uint16, n)
	for i := range out {
		out[i] = uint16(c.U64())
	}
	return out
}

func randList(c *vh.Ctx, n, maxLen int, allowEmpty bool) [][]byte {
	out := make([][]byte, n)
	for i := range out {
		l := c.Intn(maxLen + 1)
		if l == 0 && !(allowEmpty && c.Intn(4) == 0) {
			l = 1
		}
		out[i] = c.Bytes(l)
	}
	return out
}

func init() {
	kinds[tls.VerifKindFinished] = opaqueKind("finished", "KFinished", "MFinished", 20,
		func(m *tls.VerifMsg) *[]byte { return &m.VerifyData }, []int{0, 12, 32, 48, 1, 255, 256}, 80, false)
	kinds[tls.VerifKindClientKeyExchange] = opaqueKind("clientKeyExchange", "KCKX", "MCKX", 16,
		func(m *tls.VerifMsg) *[]byte { return &m.Ciphertext }, []int{0, 1, 2, 255, 256, 258, 1000}, 300, false)
	kinds[tls.VerifKindServerKeyExchange] = opaqueKind("serverKeyExchange", "KSKX", "MSKX", 12,
		func(m *tls.VerifMsg) *[]byte { return &m.Key }, []int{0, 1, 3, 255, 256, 333, 1000}, 300, false)
	kinds[tls.VerifKindCertificateStatus] = opaqueKind("certificateStatus", "KCertStatus", "MCertStatus", 22,
		func(m *tls.VerifMsg) *[]byte { return &m.Response }, []int{0, 1, 2, 255, 256, 1000, 70000}, 300, true)
	kinds[tls.VerifKindServerHelloDone] = emptyKind("serverHelloDone", "KSHD", "MSHD", 14)
	kinds[tls.VerifKindHelloRequest] = emptyKind("helloRequest", "KHelloReq", "MHelloReq", 0)
	kinds[tls.VerifKindEndOfEarlyData] = emptyKind("endOfEarlyData", "KEOED", "MEOED", 5)

	kinds[tls.VerifKindKeyUpdate] = &kindInfo{name: "keyUpdate", ctor: "KKeyUpdate", typ: 24,
		gen: func(c *vh.Ctx, n int) []val {
			return []val{{false, &tls.VerifMsg{UpdateRequested: false}}, {false, &tls.VerifMsg{UpdateRequested: true}}}
		},
		coq:   func(_ bool, m *tls.VerifMsg) string { return vh.App("MKeyUpdate", vh.Bool(m.UpdateRequested)) },
		valid: always,
		diff: func(_ bool, a, b *tls.VerifMsg) string {
			if a.UpdateRequested != b.UpdateRequested {
				return "updateRequested"
			}
			return ""
		}}

	kinds[tls.VerifKindCertificateVerify] = &kindInfo{name: "certificateVerify", ctor: "KCertVerify", typ: 15, usesHas: true,
		gen: func(c *vh.Ctx, n int) []val {
			var out []val
			for i := 0; i < n; i++ {
				m := &tls.VerifMsg{Signature: fill(c, size(c, i/2, []int{0, 1, 64, 255, 256, 65535, 65536}, 300))}
				has := i%2 == 0
				if has || c.Intn(5) == 0 {
					m.SignatureAlgorithm = uint16(c.U64())
					if c.Intn(8) == 0 {
						m.SignatureAlgorithm = 0
					}
				}
				out = append(out, val{has, m})
			}
			return out
		},
		coq: func(has bool, m *tls.VerifMsg) string {
			return vh.App("MCertVerify", vh.Bool(has), vh.N(uint64(m.SignatureAlgorithm)), hb(m.Signature))
		},
		valid: func(has bool, m *tls.VerifMsg) bool { return has || m.SignatureAlgorithm == 0 },
		diff: func(_ bool, a, b *tls.VerifMsg) string {
			switch {
			case a.SignatureAlgorithm != b.SignatureAlgorithm:
				return "signatureAlgorithm"
			case !beq(a.Signature, b.Signature):
				return "signature"
			}
			return ""
		}}

	kinds[tls.VerifKindNewSessionTicket] = &kindInfo{name: "newSessionTicket", ctor: "KNST", typ: 4,
		gen: func(c *vh.Ctx, n int) []val {
			var out []val
			hints := []uint32{0, 1, 7200, 0xffffffff, 0x80000000, 0x01020304}
			for i := 0; i < n; i++ {
				m := &tls.VerifMsg{Ticket: fill(c, size(c, i, []int{0, 1, 2, 255, 256, 65535}, 300))}
				if i < len(hints) {
					m.LifetimeHint = hints[i]
				} else {
					m.LifetimeHint = uint32(c.U64())
				}
				out = append(out, val{false, m})
			}
			return out
		},
		coq: func(_ bool, m *tls.VerifMsg) string {
			return vh.App("MNST", vh.N(uint64(m.LifetimeHint)), hb(m.Ticket))
		},
		valid: always,
		diff: func(_ bool, a, b *tls.VerifMsg) string {
			switch {
			case a.LifetimeHint != b.LifetimeHint:
				return "lifetimeHint"
			case !beq(a.Ticket, b.Ticket):
				return "ticket"
			}
			return ""
		}}

	kinds[tls.VerifKindCertificateRequest] = &kindInfo{name: "certificateRequest", ctor: "KCertReq", typ: 13, usesHas: true,
		gen: func(c *vh.Ctx, n int) []val {
			var out []val
			for i := 0; i < n; i++ {
				m := &tls.VerifMsg{CertificateTypes: c.Bytes(size(c, i/2, []int{1, 0, 2, 255, 5}, 6))}
				has := i%2 == 0
				if has || c.Intn(6) == 0 {
					m.SupportedSignatureAlgorithms = randU16s(c, c.Intn(6))
				}
				m.CertificateAuthorities = randList(c, c.Intn(5), 20, true)
				if i == 7 {
					m.CertificateAuthorities = [][]byte{fill(c, 3000), {}, c.Bytes(1)}
				}
				if i >= 8 && i < 14 {
					m.CertificateAuthorities = [][]byte{c.Bytes(253 + (i - 8) - 2), c.Bytes(1)} // CA list total at 254..259+
				}
				if i >= 14 && i < 17 && has {
					m.SupportedSignatureAlgorithms = randU16s(c, 126+(i-14)*1) // 252..256 bytes
				}
				if i == 17 {
					m.CertificateTypes = c.Bytes(253)
				}
				out = append(out, val{has, m})
			}
			return out
		},
		coq: func(has bool, m *tls.VerifMsg) string {
			return vh.App("MCertReq", vh.Bool(has), hb(m.CertificateTypes), nums(m.SupportedSignatureAlgorithms), hbs(m.CertificateAuthorities))
		},
		valid: func(has bool, m *tls.VerifMsg) bool {
			return len(m.CertificateTypes) > 0 && (has || len(m.SupportedSignatureAlgorithms) == 0)
		},
		diff: func(_ bool, a, b *tls.VerifMsg) string {
			switch {
			case !beq(a.CertificateTypes, b.CertificateTypes):
				return "certificateTypes"
			case !u16eq(a.SupportedSignatureAlgorithms, b.SupportedSignatureAlgorithms):
				return "supportedSignatureAlgorithms"
			case !bseq(a.CertificateAuthorities, b.CertificateAuthorities):
				return "certificateAuthorities"
			}
			return ""
		}}

	kinds[tls.VerifKindCertificate] = &kindInfo{name: "certificate", ctor: "KCert", typ: 11,
		gen: func(c *vh.Ctx, n int) []val {
			var out []val
			for i := 0; i < n; i++ {
				m := &tls.VerifMsg{Certificates: randList(c, size(c, i, []int{0, 1, 2, 3}, 6), 30, true)}
				switch i {
				case 4:
					m.Certificates = [][]byte{{}}
				case 5:
					m.Certificates = [][]byte{{1}, {}}
				case 6:
					m.Certificates = [][]byte{{}, {7}}
				case 8:
					m.Certificates = [][]byte{fill(c, 1200), c.Bytes(256)}
				case 9, 10, 11, 12, 13, 14:
					// one certificate / the list / the message at 253..258
					m.Certificates = [][]byte{c.Bytes(253 + (i - 9) - []int{0, 3, 6}[i%3])}
				case 15, 16:
					m.Certificates = [][]byte{c.Bytes(100), c.Bytes(509 + i - 15 - 106)}
				}
				out = append(out, val{false, m})
			}
			return out
		},
		coq:   func(_ bool, m *tls.VerifMsg) string { return vh.App("MCert", hbs(m.Certificates)) },
		valid: func(_ bool, m *tls.VerifMsg) bool { return allNonEmpty(m.Certificates) },
		diff: func(_ bool, a, b *tls.VerifMsg) string {
			if !bseq(a.Certificates, b.Certificates) {
				return "certificates"
			}
			return ""
		}}

	kinds[tls.VerifKindSessionState] = &kindInfo{name: "sessionState", ctor: "KSess", noHeader: true,
		gen: func(c *vh.Ctx, n int) []val {
			var out []val
			for i := 0; i < n; i++ {
				m := &tls.VerifMsg{Vers: uint16(c.U64()), CipherSuite: uint16(c.U64()), CreatedAt: c.U64(),
					MasterSecret: fill(c, size(c, i, []int{48, 0, 1, 255, 256, 65535, 65536}, 100)),
					Certificates: randList(c, c.Intn(4), 40, true)}
				if i == 3 {
					m.CreatedAt = 0xffffffffffffffff
				}
				if i == 4 {
					m.CreatedAt = 0x00000001ffffffff
				}
				out = append(out, val{false, m})
			}
			return out
		},
		coq: func(_ bool, m *tls.VerifMsg) string {
			return vh.App("MSess", vh.N(uint64(m.Vers)), vh.N(uint64(m.CipherSuite)), vh.N(m.CreatedAt), hb(m.MasterSecret), hbs(m.Certificates))
		},
		valid: func(_ bool, m *tls.VerifMsg) bool { return len(m.MasterSecret) > 0 },
		diff: func(_ bool, a, b *tls.VerifMsg) string {
			switch {
			case a.Vers != b.Vers || a.CipherSuite != b.CipherSuite || a.CreatedAt != b.CreatedAt:
				return fmt.Sprintf("vers/cipherSuite/createdAt (%d,%d,%d vs %d,%d,%d)", a.Vers, a.CipherSuite, a.CreatedAt, b.Vers, b.CipherSuite, b.CreatedAt)
			case !beq(a.MasterSecret, b.MasterSecret):
				return "masterSecret"
			case !bseq(a.Certificates, b.Certificates):
				return "certificates"
			}
			return ""
		}}
}
