// Package tlsfmt prints TLS message values as Coq terms of the C30 model
// (bytes as WireTLS.pk literals, extension-set fields as slot lists).
// Shared by the C30 and C29 harnesses.
package tlsfmt

import (
	"fmt"
	"strconv"
	"strings"

	"github.com/zmap/zcrypto/tls"
	"verifharness/vh"
)

// bytes packed 7 per primitive integer (WireTLS.pk); long runs of one byte value as (nrep n b)
func HB(b []byte) string {
	if len(b) == 0 {
		return "(@nil N)"
	}
	if len(b) < 600 {
		return pk(b)
	}
	var segs []string
	start := 0
	for i := 0; i < len(b); {
		j := i
		for j < len(b) && b[j] == b[i] {
			j++
		}
		if j-i >= 256 {
			if i > start {
				segs = append(segs, pk(b[start:i]))
			}
			segs = append(segs, fmt.Sprintf("(nrep %d%%N %d%%N)", j-i, b[i]))
			start = j
		}
		i = j
	}
	if start < len(b) {
		segs = append(segs, pk(b[start:]))
	}
	if len(segs) == 1 {
		return segs[0]
	}
	return "(" + strings.Join(segs, " ++ ") + ")"
}

func pk(b []byte) string {
	var sb strings.Builder
	sb.WriteString("(pk ")
	sb.WriteString(strconv.Itoa(len(b)))
	sb.WriteString(" [")
	for i := 0; i < len(b); i += 7 {
		var x uint64
		for j := i; j < i+7 && j < len(b); j++ {
			x = x<<8 | uint64(b[j])
		}
		if i > 0 {
			sb.WriteString(";")
		}
		sb.WriteString(strconv.FormatUint(x, 10))
	}
	sb.WriteString("]%uint63)")
	return sb.String()
}

func HBs(l [][]byte) string {
	xs := make([]string, len(l))
	for i, b := range l {
		xs[i] = HB(b)
	}
	return vh.List0(xs, "bytes")
}

func Nums(l []uint16) string {
	xs := make([]string, len(l))
	for i, x := range l {
		xs[i] = vh.N(uint64(x))
	}
	return vh.List0(xs, "N")
}

func VB(b []byte) string { return "(VB " + HB(b) + ")" }
func VN(x uint64) string { return "(VN " + vh.N(x) + ")" }
func VFlag(b bool) string {
	if b {
		return "(VN 1%N)"
	}
	return "(VN 0%N)"
}
func VL(xs []string) string      { return "(VL [" + strings.Join(xs, "; ") + "])" }
func VP(a, b string) string      { return "(VP " + a + " " + b + ")" }
func VSlots(xs ...string) string { return "[" + strings.Join(xs, "; ") + "]" }
func VLB(l [][]byte) string {
	xs := make([]string, len(l))
	for i, b := range l {
		xs[i] = VB(b)
	}
	return VL(xs)
}
func VLN(l []uint16) string {
	xs := make([]string, len(l))
	for i, x := range l {
		xs[i] = VN(uint64(x))
	}
	return VL(xs)
}

// CHSlots: the 18 extension slots of a clientHello (see coq/model/C30.v)
func CHSlots(m *tls.VerifMsg) string {
	ks := make([]string, len(m.KeyShares))
	for i, k := range m.KeyShares {
		ks[i] = VP(VN(uint64(k.Group)), VB(k.Data))
	}
	ids := make([]string, len(m.PSKIdentities))
	for i, p := range m.PSKIdentities {
		ids[i] = VP(VB(p.Label), VN(uint64(p.ObfuscatedTicketAge)))
	}
	return VSlots(VB(m.ServerName), VFlag(m.OCSPStapling), VLN(m.SupportedCurves), VB(m.SupportedPoints),
		VP(VFlag(m.TicketSupported), VB(m.SessionTicket)),
		VLN(m.SupportedSignatureAlgorithms), VLN(m.SupportedSignatureAlgorithmsCert),
		VP(VFlag(m.SecureRenegotiationSupported), VB(m.SecureRenegotiation)),
		VLB(m.ALPNProtocols), VP(VFlag(m.ExtendedRandomEnabled), VB(m.ExtendedRandom)),
		VFlag(m.ExtendedMasterSecret), VFlag(m.SCTs), VLN(m.SupportedVersions), VB(m.Cookie),
		VL(ks), VFlag(m.EarlyData), VB(m.PSKModes), VP(VL(ids), VLB(m.PSKBinders)))
}

// CoqCH prints a clientHello value as a term of C30.msg
func CoqCH(m *tls.VerifMsg) string {
	return vh.App("MCH", vh.N(uint64(m.Vers)), HB(m.Random), HB(m.SessionID), Nums(m.CipherSuites), HB(m.CompressionMethods), CHSlots(m))
}
