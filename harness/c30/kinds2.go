package main

// Part 2: messages with extension blocks.  The fields that extensions set are printed as the
// slot lists documented in coq/model/C30.v.

import (
	"bytes"
	"fmt"

	"github.com/zmap/zcrypto/tls"
	"verifharness/c30/tlsfmt"
	"verifharness/vh"
)

// ---- val printers (shared with the C29 harness) ----
func vB(b []byte) string             { return tlsfmt.VB(b) }
func vN(x uint64) string             { return tlsfmt.VN(x) }
func vFlag(b bool) string            { return tlsfmt.VFlag(b) }
func vL(xs []string) string          { return tlsfmt.VL(xs) }
func vP(a, b string) string          { return tlsfmt.VP(a, b) }
func vSlots(xs ...string) string     { return tlsfmt.VSlots(xs...) }
func vLB(l [][]byte) string          { return tlsfmt.VLB(l) }
func vLN(l []uint16) string          { return tlsfmt.VLN(l) }
func chSlots(m *tls.VerifMsg) string { return tlsfmt.CHSlots(m) }
func vOptB(b []byte) string {
	if b == nil {
		return "VU"
	}
	return vB(b)
}
func vOptLB(l [][]byte) string {
	if l == nil {
		return "VU"
	}
	return vLB(l)
}

func knownSH(t uint16) bool {
	switch t {
	case 5, 35, 65281, 16, 18, 43, 44, 51, 41, 11, 23:
		return true
	}
	return false
}

// rawOK: a recorded unknown extension is exactly type(2) length(2) data with an unknown type
func rawOK(raw []byte) bool {
	if len(raw) < 4 {
		return false
	}
	t := uint16(raw[0])<<8 | uint16(raw[1])
	l := int(raw[2])<<8 | int(raw[3])
	return len(raw) == 4+l && !knownSH(t)
}

func certSlotsValid(m *tls.VerifMsg) bool {
	if m.OCSPStaple != nil && len(m.OCSPStaple) == 0 {
		return false
	}
	if m.SCTList != nil && (len(m.SCTList) == 0 || !allNonEmpty(m.SCTList)) {
		return false
	}
	return true
}

func certDiff(a, b *tls.VerifMsg) string {
	switch {
	case !bseq(a.Certificates, b.Certificates):
		return "certificate list"
	case (a.OCSPStaple == nil) != (b.OCSPStaple == nil) || !beq(a.OCSPStaple, b.OCSPStaple):
		return "OCSPStaple"
	case (a.SCTList == nil) != (b.SCTList == nil) || !bseq(a.SCTList, b.SCTList):
		return "SignedCertificateTimestamps"
	}
	return ""
}

func genCert(c *vh.Ctx, i int, m *tls.VerifMsg) {
	m.Certificates = randList(c, size(c, i, []int{1, 0, 2, 3}, 3), 40, true)
	if c.Intn(2) == 0 {
		m.OCSPStaple = c.Bytes(1 + c.Intn(30))
		if c.Intn(10) == 0 {
			m.OCSPStaple = []byte{}
		}
	}
	if c.Intn(2) == 0 {
		m.SCTList = randList(c, 1+c.Intn(3), 20, c.Intn(8) == 0)
		if c.Intn(12) == 0 {
			m.SCTList = [][]byte{}
		}
	}
}

func keySharesEq(a, b []tls.VerifKeyShare) bool {
	if len(a) != len(b) {
		return false
	}
	for i := range a {
		if a[i].Group != b[i].Group || !bytes.Equal(a[i].Data, b[i].Data) {
			return false
		}
	}
	return true
}

func pskEq(a, b []tls.VerifPSKIdentity) bool {
	if len(a) != len(b) {
		return false
	}
	for i := range a {
		if a[i].ObfuscatedTicketAge != b[i].ObfuscatedTicketAge || !bytes.Equal(a[i].Label, b[i].Label) {
			return false
		}
	}
	return true
}

func hasSCSV(s []uint16) bool {
	for _, x := range s {
		if x == 0x00ff {
			return true
		}
	}
	return false
}

func shSlots(m *tls.VerifMsg) string {
	return vSlots(vFlag(m.OCSPStapling), vFlag(m.TicketSupported),
		vP(vFlag(m.SecureRenegotiationSupported), vB(m.SecureRenegotiation)),
		vB(m.ALPNProtocol), vLB(m.SCTList), vN(uint64(m.SupportedVersion)),
		vP(vN(uint64(m.ServerShare.Group)), vB(m.ServerShare.Data)),
		vP(vFlag(m.SelectedIdentityPresent), vN(uint64(m.SelectedIdentity))),
		vB(m.Cookie), vN(uint64(m.SelectedGroup)), vB(m.SupportedPoints), vFlag(m.ExtendedMasterSecret),
		vLB(m.UnknownExtensions))
}

// cut before the extension block of a hello encoding (-1 if it cannot be located)
func shCut(enc []byte) int {
	if len(enc) < 39 {
		return -1
	}
	n := 4 + 2 + 32 + 1 + int(enc[38]) + 3
	if n > len(enc) {
		return -1
	}
	return n
}
func chCut(enc []byte) int {
	if len(enc) < 39 {
		return -1
	}
	n := 4 + 2 + 32 + 1 + int(enc[38])
	if n+2 > len(enc) {
		return -1
	}
	n += 2 + (int(enc[n])<<8 | int(enc[n+1]))
	if n+1 > len(enc) {
		return -1
	}
	n += 1 + int(enc[n])
	if n > len(enc) {
		return -1
	}
	return n
}

const (
	modeTypical = iota // valid, ordinary sizes
	modeMin            // valid, smallest / boundary content
	modeBad            // outside the round-trip domain (empty element, dangling data, ...)
	modeCarry          // valid, sized so that a length field sits at 253..258 / 509..514
)

var carrySizes = []int{253, 254, 255, 256, 257, 258, 509, 510, 511, 512, 513, 514}

// carry: a size near an 8/9-bit carry, minus the framing overhead of the field
func carry(c *vh.Ctx, overhead, max int) int {
	n := carrySizes[c.Intn(len(carrySizes))] - overhead
	if n > max {
		n = carrySizes[c.Intn(6)] - overhead
	}
	if n > max {
		n = max
	}
	if n < 1 {
		n = 1
	}
	return n
}

// n elements: typical 1..max, min 1
func cnt(c *vh.Ctx, mode, max int) int {
	if mode == modeMin {
		return 1
	}
	return 1 + c.Intn(max)
}

const numSHExt = 13

func setSHExt(c *vh.Ctx, m *tls.VerifMsg, j, mode int) {
	if mode == modeCarry {
		switch j {
		case 2:
			m.SecureRenegotiationSupported, m.SecureRenegotiation = true, c.Bytes(carry(c, c.Intn(2), 255))
		case 3:
			m.ALPNProtocol = c.Bytes(carry(c, []int{0, 1, 3}[c.Intn(3)], 255))
		case 4:
			m.SCTList = [][]byte{c.Bytes(carry(c, []int{0, 2, 4}[c.Intn(3)], 600))}
		case 6:
			m.ServerShare = tls.VerifKeyShare{Group: 29, Data: c.Bytes(carry(c, []int{0, 2, 4}[c.Intn(3)], 600))}
		case 8:
			m.Cookie = c.Bytes(carry(c, c.Intn(2)*2, 600))
		case 10:
			m.SupportedPoints = c.Bytes(carry(c, c.Intn(2), 255))
		case 12:
			d := c.Bytes(carry(c, c.Intn(2)*4, 600))
			m.UnknownExtensions = [][]byte{append([]byte{0, 15, byte(len(d) >> 8), byte(len(d))}, d...)}
		default:
			setSHExt(c, m, j, modeTypical)
		}
		return
	}
	switch j {
	case 0:
		m.OCSPStapling = true
	case 1:
		m.TicketSupported = true
	case 2:
		m.SecureRenegotiationSupported = mode != modeBad
		m.SecureRenegotiation = c.Bytes(c.Intn(30))
		if mode == modeMin {
			m.SecureRenegotiation = nil
		}
		if mode == modeBad {
			m.SecureRenegotiation = c.Bytes(3) // data without the flag: lost
		}
	case 3:
		m.ALPNProtocol = c.Bytes(cnt(c, mode, 10))
	case 4:
		m.SCTList = randList(c, cnt(c, mode, 4), 30, false)
		if mode == modeMin {
			m.SCTList = [][]byte{{7}}
		}
		if mode == modeBad {
			m.SCTList[c.Intn(len(m.SCTList))] = []byte{}
		}
	case 5:
		m.SupportedVersion = uint16(1 + c.Intn(65535))
		if mode == modeMin {
			m.SupportedVersion = 1
		}
	case 6:
		m.ServerShare = tls.VerifKeyShare{Group: uint16(1 + c.Intn(65535)), Data: c.Bytes(c.Intn(40))}
		if mode == modeMin {
			m.ServerShare = tls.VerifKeyShare{Group: 1}
		}
		if mode == modeBad {
			m.ServerShare = tls.VerifKeyShare{Group: 0, Data: c.Bytes(2)}
		}
	case 7:
		m.SelectedIdentityPresent = mode != modeBad
		m.SelectedIdentity = uint16(c.U64())
		if mode == modeMin {
			m.SelectedIdentity = 0
		}
		if mode == modeBad {
			m.SelectedIdentity = 7
		}
	case 8:
		m.Cookie = c.Bytes(cnt(c, mode, 40))
	case 9:
		m.SelectedGroup = uint16(1 + c.Intn(65535))
		if mode == modeMin {
			m.SelectedGroup = 1
		}
	case 10:
		m.SupportedPoints = c.Bytes(cnt(c, mode, 4))
	case 11:
		m.ExtendedMasterSecret = true
	case 12:
		for k := 0; k < cnt(c, mode, 2); k++ {
			t := []uint16{15, 13172, 1, 0, 10, 0xfafa, 21}[c.Intn(7)]
			d := c.Bytes(c.Intn(6))
			if mode == modeMin {
				d = nil
			}
			raw := append([]byte{byte(t >> 8), byte(t), 0, byte(len(d))}, d...)
			if mode == modeBad {
				switch c.Intn(3) {
				case 0:
					raw = raw[:len(raw)-1] // truncated
				case 1:
					raw[0], raw[1] = 0, 23 // a known type smuggled in
				case 2:
					raw = append(raw, 0) // trailing byte
				}
			}
			m.UnknownExtensions = append(m.UnknownExtensions, raw)
		}
	}
}

const numCHExt = 18

func setCHExt(c *vh.Ctx, m *tls.VerifMsg, j, mode int) {
	if mode == modeCarry {
		switch j {
		case 0:
			m.ServerName = c.Bytes(carry(c, []int{0, 3, 5}[c.Intn(3)], 600))
			if m.ServerName[len(m.ServerName)-1] == '.' {
				m.ServerName[len(m.ServerName)-1] = 'x'
			}
		case 2:
			m.SupportedCurves = randU16s(c, carry(c, c.Intn(2)*2, 600)/2)
		case 3:
			m.SupportedPoints = c.Bytes(carry(c, 0, 255))
		case 4:
			m.TicketSupported, m.SessionTicket = true, c.Bytes(carry(c, 0, 600))
		case 5:
			m.SupportedSignatureAlgorithms = randU16s(c, carry(c, c.Intn(2)*2, 600)/2)
		case 6:
			m.SupportedSignatureAlgorithmsCert = randU16s(c, carry(c, c.Intn(2)*2, 600)/2)
		case 7:
			m.SecureRenegotiationSupported, m.SecureRenegotiation = true, c.Bytes(carry(c, c.Intn(2), 255))
		case 8:
			m.ALPNProtocols = [][]byte{c.Bytes(255), c.Bytes(carry(c, 256+1+c.Intn(2)*2, 255))}
			if c.Bool() {
				m.ALPNProtocols = [][]byte{c.Bytes(carry(c, 1+c.Intn(2)*2, 255))}
			}
		case 9:
			m.ExtendedRandomEnabled, m.ExtendedRandom = true, c.Bytes(carry(c, c.Intn(2)*2, 600))
		case 12:
			m.SupportedVersions = randU16s(c, carry(c, c.Intn(2), 254)/2)
		case 13:
			m.Cookie = c.Bytes(carry(c, c.Intn(2)*2, 600))
		case 14:
			m.KeyShares = []tls.VerifKeyShare{{Group: uint16(c.U64()), Data: c.Bytes(carry(c, []int{0, 4, 6}[c.Intn(3)], 600))}}
			if c.Bool() {
				m.KeyShares = append(m.KeyShares, tls.VerifKeyShare{Group: 29, Data: c.Bytes(32)})
			}
		case 16:
			m.PSKModes = c.Bytes(carry(c, c.Intn(2), 255))
		case 17:
			m.PSKIdentities = []tls.VerifPSKIdentity{{Label: c.Bytes(carry(c, []int{0, 6, 8}[c.Intn(3)], 600)), ObfuscatedTicketAge: uint32(c.U64())}}
			m.PSKBinders = [][]byte{c.Bytes(carry(c, c.Intn(2), 255))}
		default:
			setCHExt(c, m, j, modeTypical)
		}
		return
	}
	switch j {
	case 0:
		m.ServerName = c.Bytes(cnt(c, mode, 20))
		if mode == modeBad {
			m.ServerName[len(m.ServerName)-1] = '.'
		}
	case 1:
		m.OCSPStapling = true
	case 2:
		m.SupportedCurves = randU16s(c, cnt(c, mode, 8))
	case 3:
		m.SupportedPoints = c.Bytes(cnt(c, mode, 3))
	case 4:
		m.TicketSupported = mode != modeBad
		m.SessionTicket = c.Bytes(c.Intn(3) * c.Intn(60))
		if mode == modeMin {
			m.SessionTicket = nil
		}
		if mode == modeBad {
			m.SessionTicket = c.Bytes(4) // ticket without the flag: lost
		}
	case 5:
		m.SupportedSignatureAlgorithms = randU16s(c, cnt(c, mode, 8))
	case 6:
		m.SupportedSignatureAlgorithmsCert = randU16s(c, cnt(c, mode, 8))
	case 7:
		m.SecureRenegotiationSupported = mode != modeBad
		m.SecureRenegotiation = c.Bytes(c.Intn(2) * c.Intn(40))
		if mode == modeBad {
			m.SecureRenegotiation = c.Bytes(2)
		}
	case 8:
		m.ALPNProtocols = randList(c, cnt(c, mode, 5), 12, false)
		if mode == modeMin {
			m.ALPNProtocols = [][]byte{{'h'}}
		}
		if mode == modeBad {
			m.ALPNProtocols[c.Intn(len(m.ALPNProtocols))] = []byte{}
		}
	case 9:
		m.ExtendedRandomEnabled = true
		m.ExtendedRandom = c.Bytes(cnt(c, mode, 32))
		if mode == modeBad {
			m.ExtendedRandom = nil
		}
	case 10:
		m.ExtendedMasterSecret = true
	case 11:
		m.SCTs = true
	case 12:
		m.SupportedVersions = randU16s(c, cnt(c, mode, 8))
	case 13:
		m.Cookie = c.Bytes(cnt(c, mode, 60))
	case 14:
		for k := 0; k < cnt(c, mode, 4); k++ {
			m.KeyShares = append(m.KeyShares, tls.VerifKeyShare{Group: uint16(c.U64()), Data: c.Bytes(cnt(c, mode, 40))})
		}
		if mode == modeBad {
			m.KeyShares[c.Intn(len(m.KeyShares))].Data = nil
		}
	case 15:
		m.EarlyData = true
	case 16:
		m.PSKModes = c.Bytes(cnt(c, mode, 2))
	case 17:
		for k := 0; k < cnt(c, mode, 4); k++ {
			m.PSKIdentities = append(m.PSKIdentities, tls.VerifPSKIdentity{Label: c.Bytes(cnt(c, mode, 40)), ObfuscatedTicketAge: uint32(c.U64())})
			m.PSKBinders = append(m.PSKBinders, c.Bytes(cnt(c, mode, 48)))
		}
		if mode == modeBad {
			switch c.Intn(3) {
			case 0:
				m.PSKIdentities[c.Intn(len(m.PSKIdentities))].Label = nil
			case 1:
				m.PSKBinders = nil
			case 2:
				m.PSKBinders[c.Intn(len(m.PSKBinders))] = nil
			}
		}
	}
}

func maybe(c *vh.Ctx, num, den int) bool { return c.Intn(den) < num }

func init() {
	kinds[tls.VerifKindEncryptedExtensions] = &kindInfo{name: "encryptedExtensions", ctor: "KEE", typ: 8,
		gen: func(c *vh.Ctx, n int) []val {
			var out []val
			for i := 0; i < n; i++ {
				out = append(out, val{false, &tls.VerifMsg{ALPNProtocol: c.Bytes(size(c, i, []int{0, 1, 2, 255, 256}, 12))}})
			}
			return out
		},
		coq:   func(_ bool, m *tls.VerifMsg) string { return vh.App("MEE", vSlots(vB(m.ALPNProtocol))) },
		valid: always,
		diff: func(_ bool, a, b *tls.VerifMsg) string {
			if !beq(a.ALPNProtocol, b.ALPNProtocol) {
				return "alpnProtocol"
			}
			return ""
		}}

	kinds[tls.VerifKindNewSessionTicketTLS13] = &kindInfo{name: "newSessionTicketTLS13", ctor: "KNST13", typ: 4,
		gen: func(c *vh.Ctx, n int) []val {
			var out []val
			for i := 0; i < n; i++ {
				m := &tls.VerifMsg{Lifetime: uint32(c.U64()), AgeAdd: uint32(c.U64()),
					Nonce: c.Bytes(size(c, i, []int{0, 1, 255, 256, 8}, 20)),
					Label: fill(c, size(c, i, []int{0, 1, 300, 3, 65535, 65536}, 100))}
				if i%2 == 1 {
					m.MaxEarlyData = uint32(c.U64())
				}
				if med := []uint32{0, 1, 255, 256, 65535, 65536, 0xffffffff}; i < len(med) {
					m.MaxEarlyData = med[i]
				}
				out = append(out, val{false, m})
			}
			return out
		},
		coq: func(_ bool, m *tls.VerifMsg) string {
			return vh.App("MNST13", vh.N(uint64(m.Lifetime)), vh.N(uint64(m.AgeAdd)), hb(m.Nonce), hb(m.Label), vSlots(vN(uint64(m.MaxEarlyData))))
		},
		valid: always,
		diff: func(_ bool, a, b *tls.VerifMsg) string {
			switch {
			case a.Lifetime != b.Lifetime || a.AgeAdd != b.AgeAdd:
				return "lifetime/ageAdd"
			case !beq(a.Nonce, b.Nonce) || !beq(a.Label, b.Label):
				return "nonce/label"
			case a.MaxEarlyData != b.MaxEarlyData:
				return "maxEarlyData"
			}
			return ""
		}}

	kinds[tls.VerifKindCertificateRequestTLS13] = &kindInfo{name: "certificateRequestTLS13", ctor: "KCertReq13", typ: 13,
		gen: func(c *vh.Ctx, n int) []val {
			var out []val
			for i := 0; i < n; i++ {
				m := &tls.VerifMsg{OCSPStapling: c.Bool(), SCTs: c.Bool()}
				if c.Bool() {
					m.SupportedSignatureAlgorithms = randU16s(c, 1+c.Intn(5))
				}
				if c.Bool() {
					m.SupportedSignatureAlgorithmsCert = randU16s(c, 1+c.Intn(5))
				}
				if c.Bool() {
					m.CertificateAuthorities = randList(c, 1+c.Intn(3), 20, c.Intn(6) == 0)
				}
				if i == 0 {
					m = &tls.VerifMsg{}
				}
				out = append(out, val{false, m})
			}
			return out
		},
		coq: func(_ bool, m *tls.VerifMsg) string {
			return vh.App("MCertReq13", vSlots(vFlag(m.OCSPStapling), vFlag(m.SCTs), vLN(m.SupportedSignatureAlgorithms),
				vLN(m.SupportedSignatureAlgorithmsCert), vLB(m.CertificateAuthorities)))
		},
		valid: func(_ bool, m *tls.VerifMsg) bool { return allNonEmpty(m.CertificateAuthorities) },
		diff: func(_ bool, a, b *tls.VerifMsg) string {
			switch {
			case a.OCSPStapling != b.OCSPStapling || a.SCTs != b.SCTs:
				return "ocspStapling/scts"
			case !u16eq(a.SupportedSignatureAlgorithms, b.SupportedSignatureAlgorithms):
				return "supportedSignatureAlgorithms"
			case !u16eq(a.SupportedSignatureAlgorithmsCert, b.SupportedSignatureAlgorithmsCert):
				return "supportedSignatureAlgorithmsCert"
			case !bseq(a.CertificateAuthorities, b.CertificateAuthorities):
				return "certificateAuthorities"
			}
			return ""
		}}

	kinds[tls.VerifKindCertificateTLS13] = &kindInfo{name: "certificateTLS13", ctor: "KCert13", typ: 11,
		gen: func(c *vh.Ctx, n int) []val {
			var out []val
			for i := 0; i < n; i++ {
				m := &tls.VerifMsg{}
				genCert(c, i, m)
				m.OCSPStapling = m.OCSPStaple != nil
				m.SCTs = m.SCTList != nil
				if c.Intn(6) == 0 { // flag and field disagree: marshal drops / decoder cannot restore
					m.OCSPStapling = !m.OCSPStapling
				}
				if c.Intn(6) == 0 {
					m.SCTs = !m.SCTs
				}
				out = append(out, val{false, m})
			}
			return out
		},
		coq: func(_ bool, m *tls.VerifMsg) string {
			return vh.App("MCert13", vh.Bool(m.OCSPStapling), vh.Bool(m.SCTs), hbs(m.Certificates), vSlots(vOptB(m.OCSPStaple), vOptLB(m.SCTList)))
		},
		valid: func(_ bool, m *tls.VerifMsg) bool {
			return certSlotsValid(m) && m.OCSPStapling == (m.OCSPStaple != nil) && m.SCTs == (m.SCTList != nil) &&
				(len(m.Certificates) > 0 || (m.OCSPStaple == nil && m.SCTList == nil))
		},
		diff: func(_ bool, a, b *tls.VerifMsg) string {
			if a.OCSPStapling != b.OCSPStapling || a.SCTs != b.SCTs {
				return "ocspStapling/scts"
			}
			return certDiff(a, b)
		}}

	kinds[tls.VerifKindSessionStateTLS13] = &kindInfo{name: "sessionStateTLS13", ctor: "KSess13", noHeader: true,
		gen: func(c *vh.Ctx, n int) []val {
			var out []val
			for i := 0; i < n; i++ {
				m := &tls.VerifMsg{CipherSuite: uint16(c.U64()), CreatedAt: c.U64(),
					ResumptionSecret: c.Bytes(size(c, i, []int{32, 0, 1, 255, 256, 48}, 64))}
				genCert(c, i, m)
				out = append(out, val{false, m})
			}
			return out
		},
		coq: func(_ bool, m *tls.VerifMsg) string {
			return vh.App("MSess13", vh.N(uint64(m.CipherSuite)), vh.N(m.CreatedAt), hb(m.ResumptionSecret), hbs(m.Certificates),
				vSlots(vOptB(m.OCSPStaple), vOptLB(m.SCTList)))
		},
		valid: func(_ bool, m *tls.VerifMsg) bool {
			return certSlotsValid(m) && len(m.ResumptionSecret) > 0 &&
				(len(m.Certificates) > 0 || (m.OCSPStaple == nil && m.SCTList == nil))
		},
		diff: func(_ bool, a, b *tls.VerifMsg) string {
			switch {
			case a.CipherSuite != b.CipherSuite || a.CreatedAt != b.CreatedAt:
				return "cipherSuite/createdAt"
			case !beq(a.ResumptionSecret, b.ResumptionSecret):
				return "resumptionSecret"
			}
			return certDiff(a, b)
		}}

	kinds[tls.VerifKindServerHello] = &kindInfo{name: "serverHello", ctor: "KSH", typ: 2, optTailCut: shCut,
		gen: func(c *vh.Ctx, n int) []val {
			var out []val
			base := func(i int) *tls.VerifMsg {
				return &tls.VerifMsg{Vers: uint16(c.U64()), Random: c.Bytes(32), SessionID: c.Bytes(size(c, i, []int{0, 32, 1, 255}, 32)),
					CipherSuite: uint16(c.U64()), CompressionMethod: uint8(c.U64())}
			}
			// every extension alone, with boundary / invalid content
			for j := 0; j < numSHExt; j++ {
				for _, mode := range []int{modeMin, modeBad, modeCarry} {
					m := base(4)
					setSHExt(c, m, j, mode)
					out = append(out, val{false, m})
				}
			}
			for i := 0; i < n; i++ {
				m := base(i)
				p := 3
				if i == 0 {
					p = 0 // no extensions at all
				}
				if i == 1 {
					p = 8 // everything
				}
				for j := 0; j < numSHExt; j++ {
					if maybe(c, p, 8) && !(i == 1 && j == 9) {
						mode := modeTypical
						if c.Intn(10) == 0 {
							mode = modeBad
						}
						if c.Intn(10) == 0 {
							mode = modeMin
						}
						setSHExt(c, m, j, mode)
					}
				}
				if i == 2 {
					m.Random = c.Bytes(31)
				}
				out = append(out, val{false, m})
			}
			return out
		},
		coq: func(_ bool, m *tls.VerifMsg) string {
			return vh.App("MSH", vh.N(uint64(m.Vers)), hb(m.Random), hb(m.SessionID), vh.N(uint64(m.CipherSuite)),
				vh.N(uint64(m.CompressionMethod)), shSlots(m))
		},
		valid: func(_ bool, m *tls.VerifMsg) bool {
			if !m.SecureRenegotiationSupported && len(m.SecureRenegotiation) > 0 {
				return false
			}
			if !allNonEmpty(m.SCTList) {
				return false
			}
			if m.ServerShare.Group == 0 && len(m.ServerShare.Data) > 0 {
				return false
			}
			if !m.SelectedIdentityPresent && m.SelectedIdentity != 0 {
				return false
			}
			for _, raw := range m.UnknownExtensions {
				if !rawOK(raw) {
					return false
				}
			}
			return true
		},
		diff: func(_ bool, a, b *tls.VerifMsg) string {
			switch {
			case a.Vers != b.Vers || !beq(a.Random, b.Random) || !beq(a.SessionID, b.SessionID) || a.CipherSuite != b.CipherSuite || a.CompressionMethod != b.CompressionMethod:
				return "the fixed part"
			case a.OCSPStapling != b.OCSPStapling || a.TicketSupported != b.TicketSupported || a.ExtendedMasterSecret != b.ExtendedMasterSecret:
				return "ocspStapling/ticketSupported/extendedMasterSecret"
			case a.SecureRenegotiationSupported != b.SecureRenegotiationSupported || !beq(a.SecureRenegotiation, b.SecureRenegotiation):
				return "secureRenegotiation"
			case !beq(a.ALPNProtocol, b.ALPNProtocol):
				return "alpnProtocol"
			case !bseq(a.SCTList, b.SCTList):
				return "scts"
			case a.SupportedVersion != b.SupportedVersion:
				return "supportedVersion"
			case a.ServerShare.Group != b.ServerShare.Group || !beq(a.ServerShare.Data, b.ServerShare.Data):
				return "serverShare"
			case a.SelectedIdentityPresent != b.SelectedIdentityPresent || a.SelectedIdentity != b.SelectedIdentity:
				return "selectedIdentity"
			case !beq(a.Cookie, b.Cookie) || a.SelectedGroup != b.SelectedGroup:
				return "cookie/selectedGroup"
			case !beq(a.SupportedPoints, b.SupportedPoints):
				return "supportedPoints"
			case !bseq(a.UnknownExtensions, b.UnknownExtensions):
				return "unknownExtensions"
			}
			return ""
		}}

	kinds[tls.VerifKindClientHello] = &kindInfo{name: "clientHello", ctor: "KCH", typ: 1, optTailCut: chCut,
		gen: func(c *vh.Ctx, n int) []val {
			var out []val
			base := func(i int) *tls.VerifMsg {
				m := &tls.VerifMsg{Vers: uint16(c.U64()), Random: c.Bytes(32), SessionID: c.Bytes(size(c, i, []int{0, 32, 1, 255}, 32)),
					CipherSuites: randU16s(c, size(c, i, []int{1, 0, 2, 40}, 8)), CompressionMethods: c.Bytes(size(c, i, []int{1, 0, 2, 255}, 3))}
				if c.Intn(6) == 0 && len(m.CipherSuites) > 0 {
					m.CipherSuites[c.Intn(len(m.CipherSuites))] = 0x00ff
				}
				return m
			}
			for j := 0; j < numCHExt; j++ {
				for _, mode := range []int{modeMin, modeBad, modeCarry} {
					m := base(4)
					setCHExt(c, m, j, mode)
					out = append(out, val{false, m})
				}
			}
			for i := 0; i < n; i++ {
				m := base(i)
				p := 3
				if i == 0 {
					p = 0
				}
				if i == 1 {
					p = 8
				}
				for j := 0; j < numCHExt; j++ {
					if maybe(c, p, 8) {
						mode := modeTypical
						if c.Intn(10) == 0 {
							mode = modeBad
						}
						if c.Intn(10) == 0 {
							mode = modeMin
						}
						setCHExt(c, m, j, mode)
					}
				}
				if i == 2 {
					m.Random = c.Bytes(33)
				}
				if i == 3 {
					m.PSKBinders = [][]byte{c.Bytes(32)} // binders without identities: lost
				}
				out = append(out, val{false, m})
			}
			return out
		},
		coq: func(_ bool, m *tls.VerifMsg) string {
			return vh.App("MCH", vh.N(uint64(m.Vers)), hb(m.Random), hb(m.SessionID), nums(m.CipherSuites), hb(m.CompressionMethods), chSlots(m))
		},
		valid: func(_ bool, m *tls.VerifMsg) bool {
			if n := len(m.ServerName); n > 0 && m.ServerName[n-1] == '.' {
				return false
			}
			if !m.TicketSupported && len(m.SessionTicket) > 0 {
				return false
			}
			if !m.SecureRenegotiationSupported && (len(m.SecureRenegotiation) > 0 || hasSCSV(m.CipherSuites)) {
				return false
			}
			if !allNonEmpty(m.ALPNProtocols) {
				return false
			}
			if m.ExtendedRandomEnabled != (len(m.ExtendedRandom) > 0) {
				return false
			}
			for _, ks := range m.KeyShares {
				if len(ks.Data) == 0 {
					return false
				}
			}
			if len(m.PSKIdentities) == 0 {
				return len(m.PSKBinders) == 0
			}
			for _, id := range m.PSKIdentities {
				if len(id.Label) == 0 {
					return false
				}
			}
			return len(m.PSKBinders) > 0 && allNonEmpty(m.PSKBinders)
		},
		diff: func(_ bool, a, b *tls.VerifMsg) string {
			switch {
			case a.Vers != b.Vers || !beq(a.Random, b.Random) || !beq(a.SessionID, b.SessionID) || !u16eq(a.CipherSuites, b.CipherSuites) || !beq(a.CompressionMethods, b.CompressionMethods):
				return "the fixed part"
			case !beq(a.ServerName, b.ServerName):
				return "serverName"
			case a.OCSPStapling != b.OCSPStapling || a.ExtendedMasterSecret != b.ExtendedMasterSecret || a.SCTs != b.SCTs || a.EarlyData != b.EarlyData:
				return "a flag extension"
			case !u16eq(a.SupportedCurves, b.SupportedCurves) || !beq(a.SupportedPoints, b.SupportedPoints):
				return "supportedCurves/supportedPoints"
			case a.TicketSupported != b.TicketSupported || !beq(a.SessionTicket, b.SessionTicket):
				return "sessionTicket"
			case !u16eq(a.SupportedSignatureAlgorithms, b.SupportedSignatureAlgorithms) || !u16eq(a.SupportedSignatureAlgorithmsCert, b.SupportedSignatureAlgorithmsCert):
				return "supportedSignatureAlgorithms(Cert)"
			case a.SecureRenegotiationSupported != b.SecureRenegotiationSupported || !beq(a.SecureRenegotiation, b.SecureRenegotiation):
				return "secureRenegotiation"
			case !bseq(a.ALPNProtocols, b.ALPNProtocols):
				return "alpnProtocols"
			case a.ExtendedRandomEnabled != b.ExtendedRandomEnabled || !beq(a.ExtendedRandom, b.ExtendedRandom):
				return fmt.Sprintf("extendedRandom (%x vs %x)", a.ExtendedRandom, b.ExtendedRandom)
			case !u16eq(a.SupportedVersions, b.SupportedVersions) || !beq(a.Cookie, b.Cookie):
				return "supportedVersions/cookie"
			case !keySharesEq(a.KeyShares, b.KeyShares):
				return "keyShares"
			case !beq(a.PSKModes, b.PSKModes) || !pskEq(a.PSKIdentities, b.PSKIdentities) || !bseq(a.PSKBinders, b.PSKBinders):
				return "pskModes/pskIdentities/pskBinders"
			}
			return ""
		}}
}
