// C34 harness.
//
//   --tables   walks the Go AST of tls/conn.go and writes coq/gen/C34Summary_gen.v:
//              one lock/field-access program per entry-point method and per path
//              through the handshake-phase guards (package locksum).
//   default    (a) the activeCall interlock of Write/Close driven step by step
//              through a transport whose Write blocks until released: observed
//              results are printed as cases for coq/model/C34.v;
//              (b) stress: goroutines issue random sequences of Read / Write /
//              Handshake / ConnectionState / SetDeadline / CloseWrite / Close on
//              both ends of a net.Pipe pair; a watchdog reports goroutines still
//              blocked after the transport is closed or the deadlines expired;
//              the bytes received in each direction are checked against the
//              bytes sent (self-describing messages: no corruption, duplication,
//              reordering; complete in clean runs).
//   --race     the same stress with a -race build: a DATA RACE report in the
//              output is turned into a violation by the driver.
package main

import (
	"bytes"
	"crypto/ecdsa"
	"crypto/elliptic"
	"crypto/rand"
	stdx509 "crypto/x509"
	"crypto/x509/pkix"
	"encoding/json"
	"errors"
	"fmt"
	"io"
	"math/big"
	"net"
	"os"
	"os/exec"
	"path/filepath"
	"runtime"
	"strconv"
	"strings"
	"sync"
	"sync/atomic"
	"time"

	"github.com/zmap/zcrypto/tls"
	"verifharness/c17/locksum"
	"verifharness/vh"
)

// ---------------------------------------------------------------- replayable input
type opSpec struct {
	Op string `json:"op"` // read write handshake state deadline closewrite close sleep keyupdate
	N  int    `json:"n,omitempty"`
	D  int    `json:"d,omitempty"` // sleep: microseconds; deadline: milliseconds from now (0 = clear)
}
type actor struct {
	End  int      `json:"end"` // 0 client, 1 server
	Loop bool     `json:"loop,omitempty"`
	Ops  []opSpec `json:"ops"`
}
type scenario struct {
	Kind     string  `json:"kind"` // stress | oversized | activecall | configlock
	Vers     uint16  `json:"vers"`
	Mode     string  `json:"mode"`  // stream: one reader per end, variable messages; message: several readers, fixed-size messages
	Clean    bool    `json:"clean"` // no deadlines, no Close/CloseWrite by actors: everything sent must arrive
	Actors   []actor `json:"actors"`
	Procs    int     `json:"procs"`
	LimitMs  int     `json:"limit_ms"`
	CloseEnd int     `json:"close_end"` // which raw transport end the harness closes at the end
	Buffered bool     `json:"buffered,omitempty"` // transport with unbounded buffering instead of net.Pipe
	Events   []string `json:"events,omitempty"` // activecall script
}

const msgSize = 32

// ---------------------------------------------------------------- certificates / configs
var (
	srvCert tls.Certificate
	once    sync.Once
)

func setup() {
	once.Do(func() {
		key, err := ecdsa.GenerateKey(elliptic.P256(), rand.Reader)
		if err != nil {
			panic(err)
		}
		t := &stdx509.Certificate{
			SerialNumber: big.NewInt(34), Subject: pkix.Name{CommonName: "c34.example"},
			NotBefore: time.Now().Add(-time.Hour), NotAfter: time.Now().Add(24 * time.Hour),
			DNSNames: []string{"c34.example"}, KeyUsage: stdx509.KeyUsageDigitalSignature,
			ExtKeyUsage: []stdx509.ExtKeyUsage{stdx509.ExtKeyUsageServerAuth},
		}
		der, err := stdx509.CreateCertificate(rand.Reader, t, t, &key.PublicKey, key)
		if err != nil {
			panic(err)
		}
		srvCert = tls.Certificate{Certificate: [][]byte{der}, PrivateKey: key}
	})
}

// bufPipe is an in-memory duplex transport with unbounded buffering (a Write never waits
// for the peer's Read, like a socket with room in its buffers).  Used where the synchronous
// net.Pipe would turn an error path that sends an alert into a four-way wait.
type bufHalf struct {
	mu     sync.Mutex
	cond   *sync.Cond
	buf    []byte
	closed bool
}
type bufConn struct {
	rd, wr     *bufHalf
	mu         sync.Mutex
	rdl, wdl   time.Time
	closedSelf bool
}
type bufAddr struct{}

func (bufAddr) Network() string { return "buf" }
func (bufAddr) String() string  { return "buf" }

type timeoutErr struct{}

func (timeoutErr) Error() string   { return "i/o timeout" }
func (timeoutErr) Timeout() bool   { return true }
func (timeoutErr) Temporary() bool { return true }

func bufPipe() (net.Conn, net.Conn) {
	a, b := &bufHalf{}, &bufHalf{}
	a.cond, b.cond = sync.NewCond(&a.mu), sync.NewCond(&b.mu)
	return &bufConn{rd: a, wr: b}, &bufConn{rd: b, wr: a}
}
func (c *bufConn) Read(p []byte) (int, error) {
	c.mu.Lock()
	dl := c.rdl
	c.mu.Unlock()
	h := c.rd
	h.mu.Lock()
	defer h.mu.Unlock()
	var timer *time.Timer
	if !dl.IsZero() {
		timer = time.AfterFunc(time.Until(dl), func() { h.mu.Lock(); h.cond.Broadcast(); h.mu.Unlock() })
		defer timer.Stop()
	}
	for len(h.buf) == 0 {
		if h.closed {
			return 0, io.EOF
		}
		c.mu.Lock()
		self := c.closedSelf
		c.mu.Unlock()
		if self {
			return 0, io.ErrClosedPipe
		}
		if !dl.IsZero() && !time.Now().Before(dl) {
			return 0, timeoutErr{}
		}
		h.cond.Wait()
	}
	n := copy(p, h.buf)
	h.buf = h.buf[n:]
	return n, nil
}
func (c *bufConn) Write(p []byte) (int, error) {
	c.mu.Lock()
	dl, self := c.wdl, c.closedSelf
	c.mu.Unlock()
	if self {
		return 0, io.ErrClosedPipe
	}
	if !dl.IsZero() && !time.Now().Before(dl) {
		return 0, timeoutErr{}
	}
	h := c.wr
	h.mu.Lock()
	defer h.mu.Unlock()
	if h.closed {
		return 0, io.ErrClosedPipe
	}
	h.buf = append(h.buf, p...)
	h.cond.Broadcast()
	return len(p), nil
}
func (c *bufConn) Close() error {
	c.mu.Lock()
	c.closedSelf = true
	c.mu.Unlock()
	for _, h := range []*bufHalf{c.rd, c.wr} {
		h.mu.Lock()
		h.closed = true
		h.cond.Broadcast()
		h.mu.Unlock()
	}
	return nil
}
func (c *bufConn) LocalAddr() net.Addr  { return bufAddr{} }
func (c *bufConn) RemoteAddr() net.Addr { return bufAddr{} }
func (c *bufConn) SetDeadline(t time.Time) error {
	c.mu.Lock()
	c.rdl, c.wdl = t, t
	c.mu.Unlock()
	c.rd.mu.Lock()
	c.rd.cond.Broadcast()
	c.rd.mu.Unlock()
	return nil
}
func (c *bufConn) SetReadDeadline(t time.Time) error {
	c.mu.Lock()
	c.rdl = t
	c.mu.Unlock()
	c.rd.mu.Lock()
	c.rd.cond.Broadcast()
	c.rd.mu.Unlock()
	return nil
}
func (c *bufConn) SetWriteDeadline(t time.Time) error {
	c.mu.Lock()
	c.wdl = t
	c.mu.Unlock()
	return nil
}

func pair(vers uint16) (cli, srv *tls.Conn, rawC, rawS net.Conn) {
	return pairOn(vers, false)
}

func pairOn(vers uint16, buffered bool) (cli, srv *tls.Conn, rawC, rawS net.Conn) {
	setup()
	if buffered {
		rawC, rawS = bufPipe()
	} else {
		rawC, rawS = net.Pipe()
	}
	cc := &tls.Config{InsecureSkipVerify: true, ServerName: "c34.example", MinVersion: vers, MaxVersion: vers}
	sc := &tls.Config{Certificates: []tls.Certificate{srvCert}, MinVersion: vers, MaxVersion: vers}
	return tls.Client(rawC, cc), tls.Server(rawS, sc), rawC, rawS
}

// ---------------------------------------------------------------- messages
// stream mode: [id][seq hi][seq lo][len hi][len lo] + len bytes b(i) = id*7 + seq*13 + i
// message mode: msgSize bytes: [id][seq hi][seq lo] + fill
func fillByte(id, seq, i int) byte { return byte(id*7 + seq*13 + i*3 + 1) }

func mkMsg(mode string, id, seq, n int) []byte {
	if mode == "message" {
		b := make([]byte, msgSize)
		b[0], b[1], b[2] = byte(id), byte(seq>>8), byte(seq)
		for i := 3; i < msgSize; i++ {
			b[i] = fillByte(id, seq, i)
		}
		return b
	}
	b := make([]byte, 5+n)
	b[0], b[1], b[2], b[3], b[4] = byte(id), byte(seq>>8), byte(seq), byte(n>>8), byte(n)
	for i := 0; i < n; i++ {
		b[5+i] = fillByte(id, seq, i)
	}
	return b
}

type recvLog struct {
	mu     sync.Mutex
	stream []byte         // stream mode: everything the single reader got, in order
	msgs   map[int][]rmsg // message mode: per reader
}
type rmsg struct{ id, seq int }

// ---------------------------------------------------------------- stress run
type result struct {
	viol    string
	desc    string
	blocked []string
	panics  []string
	sent    [2]map[int]int // per end: writer id -> number of messages whose Write returned nil
	tried   [2]map[int]int // per end: writer id -> number of Write calls started
	done    time.Duration
}

func runStress(sc *scenario) *result {
	if sc.Procs > 0 {
		defer runtime.GOMAXPROCS(runtime.GOMAXPROCS(sc.Procs))
	}
	cli, srv, rawC, rawS := pairOn(sc.Vers, sc.Buffered)
	conns := [2]*tls.Conn{cli, srv}
	res := &result{}
	var rmu sync.Mutex
	logs := [2]*recvLog{{msgs: map[int][]rmsg{}}, {msgs: map[int][]rmsg{}}} // logs[e] = what end e received
	for e := 0; e < 2; e++ {
		res.sent[e], res.tried[e] = map[int]int{}, map[int]int{}
	}
	var writers, all sync.WaitGroup
	var running int64
	var shuttingDown int32
	abort := make(chan string, 64) // clean runs: a Read failed although nobody closed anything
	names := make([]string, len(sc.Actors))
	state := make([]atomic.Value, len(sc.Actors))
	for ai := range sc.Actors {
		a := sc.Actors[ai]
		hasWrite := false
		for _, o := range a.Ops {
			if o.Op == "write" {
				hasWrite = true
			}
		}
		names[ai] = fmt.Sprintf("actor %d (end %d)", ai, a.End)
		all.Add(1)
		if hasWrite {
			writers.Add(1)
		}
		atomic.AddInt64(&running, 1)
		state[ai].Store("start")
		go func(ai int, a actor, hasWrite bool) {
			defer all.Done()
			defer atomic.AddInt64(&running, -1)
			if hasWrite {
				defer writers.Done()
			}
			defer func() {
				if r := recover(); r != nil {
					rmu.Lock()
					res.panics = append(res.panics, fmt.Sprintf("%s: %v", names[ai], r))
					rmu.Unlock()
				}
				state[ai].Store("done")
			}()
			c := conns[a.End]
			seq := 0
			buf := make([]byte, 70000)
			for round := 0; ; round++ {
				for oi, o := range a.Ops {
					state[ai].Store(fmt.Sprintf("op %d %s", oi, o.Op))
					switch o.Op {
					case "read":
						n := o.N
						if sc.Mode == "message" {
							n = msgSize
						}
						k, err := c.Read(buf[:n])
						if k > 0 {
							l := logs[a.End]
							l.mu.Lock()
							if sc.Mode == "message" {
								if k == msgSize {
									l.msgs[ai] = append(l.msgs[ai], parseFixed(buf[:k]))
								} else {
									l.msgs[ai] = append(l.msgs[ai], rmsg{-1, k})
								}
							} else {
								l.stream = append(l.stream, buf[:k]...)
							}
							l.mu.Unlock()
						}
						if err != nil {
							if sc.Clean && atomic.LoadInt32(&shuttingDown) == 0 {
								select {
								case abort <- fmt.Sprintf("%s: Read failed with %q", names[ai], err.Error()):
								default:
								}
							}
							return
						}
					case "write":
						m := mkMsg(sc.Mode, ai, seq, o.N)
						rmu.Lock()
						res.tried[a.End][ai]++
						rmu.Unlock()
						k, err := c.Write(m)
						if err == nil && k == len(m) {
							rmu.Lock()
							res.sent[a.End][ai]++
							rmu.Unlock()
							seq++
						} else {
							return // a failed Write may have sent part of the message: this writer stops
						}
					case "keyupdate":
						// ask the peer to update its keys too (TLS 1.3): it must answer with a KeyUpdate and
						// switch its write key in one step with respect to its concurrent Writes
						if c.Handshake() == nil {
							tls.VerifSendKeyUpdate(c, true)
						}
					case "handshake":
						c.Handshake()
					case "state":
						st := c.ConnectionState()
						if st.HandshakeComplete && st.Version != sc.Vers {
							rmu.Lock()
							res.viol, res.desc = "state-version", fmt.Sprintf("ConnectionState reports version %#x after completion, negotiated %#x", st.Version, sc.Vers)
							rmu.Unlock()
						}
					case "deadline":
						if o.D == 0 {
							c.SetDeadline(time.Time{})
						} else {
							c.SetDeadline(time.Now().Add(time.Duration(o.D) * time.Millisecond))
						}
					case "closewrite":
						c.CloseWrite()
					case "close":
						c.Close()
					case "sleep":
						time.Sleep(time.Duration(o.D) * time.Microsecond)
					}
				}
				if !a.Loop {
					return
				}
			}
		}(ai, a, hasWrite)
	}
	t0 := time.Now()
	wdone := make(chan struct{})
	go func() { writers.Wait(); close(wdone) }()
	limit := time.Duration(sc.LimitMs) * time.Millisecond
	if sc.Clean {
		limit = 60 * time.Second // a clean run has nothing that could stall it
	}
	timedOut := false
	broken := ""
	select {
	case <-wdone:
		select {
		case broken = <-abort:
		default:
		}
	case broken = <-abort:
	case <-time.After(limit):
		timedOut = true
	}
	atomic.StoreInt32(&shuttingDown, 1)
	if sc.Clean && !timedOut && broken == "" {
		// orderly shutdown: readers see close_notify / EOF
		cli.Close()
		srv.Close()
	}
	// the peer goes away: close one raw transport end (net.Pipe: both directions fail)
	if sc.CloseEnd == 0 {
		rawC.Close()
	} else {
		rawS.Close()
	}
	adone := make(chan struct{})
	go func() { all.Wait(); close(adone) }()
	select {
	case <-adone:
	case <-time.After(45 * time.Second):
		for ai := range sc.Actors {
			if s := state[ai].Load().(string); s != "done" {
				res.blocked = append(res.blocked, names[ai]+" in "+s)
			}
		}
		rawC.Close()
		rawS.Close()
	}
	res.done = time.Since(t0)
	rmu.Lock()
	defer rmu.Unlock()
	if res.viol != "" {
		return res
	}
	if len(res.panics) > 0 {
		res.viol, res.desc = "panic", strings.Join(res.panics, "; ")
		return res
	}
	if len(res.blocked) > 0 {
		res.viol, res.desc = "blocked-after-close", "goroutines still blocked 45 s after the transport was closed: "+strings.Join(res.blocked, "; ")
		return res
	}
	if broken != "" {
		res.viol, res.desc = "stream-broken", "clean run (no deadlines, no Close, no CloseWrite): "+broken
		return res
	}
	if sc.Clean && timedOut {
		res.viol, res.desc = "stalled", "clean run (no deadlines, no Close): the writers did not finish within 60 s"
		return res
	}
	// byte streams: what end e received was sent by end 1-e
	for e := 0; e < 2; e++ {
		from := 1 - e
		got := map[int][]int{} // writer id -> seqs in arrival order (per reader in message mode)
		l := logs[e]
		l.mu.Lock()
		if sc.Mode == "message" {
			for rd, ms := range l.msgs {
				last := map[int]int{}
				for _, m := range ms {
					if m.id < 0 {
						res.viol, res.desc = "stream-corrupt", fmt.Sprintf("end %d reader %d: Read returned %d bytes or a damaged message (messages are %d bytes, one per record)", e, rd, m.seq, msgSize)
						l.mu.Unlock()
						return res
					}
					if p, ok := last[m.id]; ok && m.seq <= p {
						res.viol, res.desc = "stream-reorder", fmt.Sprintf("end %d reader %d: message %d of writer %d after message %d", e, rd, m.seq, m.id, p)
						l.mu.Unlock()
						return res
					}
					last[m.id] = m.seq
					got[m.id] = append(got[m.id], m.seq)
				}
			}
		} else {
			s := l.stream
			for len(s) >= 5 {
				id, seq, n := int(s[0]), int(s[1])<<8|int(s[2]), int(s[3])<<8|int(s[4])
				if _, ok := res.tried[from][id]; !ok {
					res.viol, res.desc = "stream-corrupt", fmt.Sprintf("end %d received a message header of unknown writer %d", e, id)
					l.mu.Unlock()
					return res
				}
				if len(s) < 5+n {
					break // trailing partial message (connection ended)
				}
				if !bytes.Equal(s[:5+n], mkMsg("stream", id, seq, n)) {
					res.viol, res.desc = "stream-corrupt", fmt.Sprintf("end %d: message %d of writer %d arrived damaged", e, seq, id)
					l.mu.Unlock()
					return res
				}
				got[id] = append(got[id], seq)
				s = s[5+n:]
			}
		}
		l.mu.Unlock()
		for id, seqs := range got {
			seen := map[int]bool{}
			for _, q := range seqs {
				if seen[q] {
					res.viol, res.desc = "stream-dup", fmt.Sprintf("end %d received message %d of writer %d twice", e, q, id)
					return res
				}
				seen[q] = true
				if q >= res.tried[from][id] {
					res.viol, res.desc = "stream-corrupt", fmt.Sprintf("end %d received message %d of writer %d, which was never written", e, q, id)
					return res
				}
			}
			if sc.Mode != "message" {
				for i, q := range seqs {
					if q != i {
						res.viol, res.desc = "stream-reorder", fmt.Sprintf("end %d: writer %d's messages arrived as %v", e, id, seqs)
						return res
					}
				}
			} else {
				// across readers: the set must be a prefix 0..k-1
				for i := 0; i < len(seqs); i++ {
					if !seen[i] {
						res.viol, res.desc = "stream-lost", fmt.Sprintf("end %d: writer %d's message %d is missing although later ones arrived", e, id, i)
						return res
					}
				}
			}
		}
		if sc.Clean {
			for id, n := range res.sent[from] {
				if len(got[id]) != n {
					res.viol, res.desc = "stream-lost", fmt.Sprintf("clean run: writer %d on end %d completed %d writes, the peer received %d", id, from, n, len(got[id]))
					return res
				}
			}
		}
	}
	return res
}

func parseFixed(b []byte) rmsg {
	id, seq := int(b[0]), int(b[1])<<8|int(b[2])
	for i := 3; i < msgSize; i++ {
		if b[i] != fillByte(id, seq, i) {
			return rmsg{-1, len(b)}
		}
	}
	return rmsg{id, seq}
}

// ---------------------------------------------------------------- a peer that announces an oversized handshake message
// After the handshake the server sends a handshake record whose header claims
// 65537 bytes while the client reads and writes concurrently.  The client must
// reject it (alert) without disturbing its writer.
func runOversized(sc *scenario) *result {
	cli, srv, rawC, rawS := pair(sc.Vers)
	res := &result{}
	stop := make(chan struct{})
	var all sync.WaitGroup
	all.Add(4)
	go func() { // server drains what the client writes
		defer all.Done()
		b := make([]byte, 4096)
		for {
			if _, err := srv.Read(b); err != nil {
				break
			}
		}
		// keep the synchronous pipe flowing after the TLS layer has given up (the client's
		// alert and its writer must never block on a reader that went away)
		io.Copy(io.Discard, rawS)
	}()
	go func() { // client writer
		defer all.Done()
		m := mkMsg("stream", 1, 0, 200)
		for {
			select {
			case <-stop:
				return
			default:
			}
			if _, err := cli.Write(m); err != nil {
				return
			}
		}
	}()
	readerDone := make(chan struct{})
	go func() { // client reader: meets the oversized handshake message and fails
		defer all.Done()
		defer close(readerDone)
		b := make([]byte, 4096)
		for {
			if _, err := cli.Read(b); err != nil {
				return
			}
		}
	}()
	go func() { // server: once its handshake is over and some data has flowed, send the oversized header
		defer all.Done()
		if err := srv.Handshake(); err != nil {
			return
		}
		time.Sleep(2 * time.Millisecond)
		typ := byte(24) // key_update (TLS 1.3); TLS 1.2 clients treat any handshake message here as a renegotiation request
		if sc.Vers != tls.VersionTLS13 {
			typ = 0 // hello_request
		}
		tls.VerifWriteRecord(srv, 22, []byte{typ, 0x01, 0x00, 0x01})
	}()
	// the scenario is over when the client's reader has rejected the message (or after 20 s)
	select {
	case <-readerDone:
		time.Sleep(time.Duration(sc.LimitMs) * time.Millisecond / 10)
	case <-time.After(20 * time.Second):
		res.viol, res.desc = "oversized-not-rejected", "the client's Read did not fail within 20 s of an oversized handshake message"
	}
	close(stop)
	rawC.Close()
	rawS.Close()
	done := make(chan struct{})
	go func() { all.Wait(); close(done) }()
	select {
	case <-done:
	case <-time.After(45 * time.Second):
		res.viol, res.desc = "blocked-after-close", "oversized handshake message: goroutines still blocked 45 s after the transport was closed"
	}
	return res
}

// ---------------------------------------------------------------- Config.mutex is released on every path of the handshake
// A server whose GetConfigForClient returns a shared Config with session
// tickets disabled: after a handshake that Config's RWMutex must be free again
// (SetSessionTicketKeys takes it exclusively; a leaked read lock blocks it, and
// with it every later handshake, for ever).
func runConfigLock(sc *scenario) *result {
	setup()
	res := &result{}
	inner := &tls.Config{Certificates: []tls.Certificate{srvCert}, MinVersion: sc.Vers, MaxVersion: sc.Vers, SessionTicketsDisabled: true}
	outer := &tls.Config{Certificates: []tls.Certificate{srvCert}, MinVersion: sc.Vers, MaxVersion: sc.Vers,
		GetConfigForClient: func(*tls.ClientHelloInfo) (*tls.Config, error) { return inner, nil }}
	for round := 0; round < 2; round++ {
		rawC, rawS := net.Pipe()
		cli := tls.Client(rawC, &tls.Config{InsecureSkipVerify: true, ServerName: "c34.example", MinVersion: sc.Vers, MaxVersion: sc.Vers})
		srv := tls.Server(rawS, outer)
		var wg sync.WaitGroup
		wg.Add(2)
		go func() { defer wg.Done(); io.Copy(io.Discard, srv) }()
		go func() { defer wg.Done(); io.Copy(io.Discard, cli) }()
		hs := make(chan error, 1)
		go func() {
			if err := cli.Handshake(); err != nil {
				hs <- err
				return
			}
			_, err := cli.Write([]byte("ping")) // through once the server's handshake is over
			hs <- err
		}()
		select {
		case err := <-hs:
			if err != nil {
				res.viol, res.desc = "handshake-failed", fmt.Sprintf("round %d: %v", round, err)
			}
		case <-time.After(30 * time.Second):
			res.viol, res.desc = "config-lock-leak", fmt.Sprintf("handshake %d against a server whose GetConfigForClient returns a shared Config with SessionTicketsDisabled did not complete within 30 s", round+1)
		}
		rawC.Close()
		rawS.Close()
		wg.Wait()
		if res.viol != "" {
			return res
		}
		done := make(chan struct{})
		go func() { inner.SetSessionTicketKeys([][32]byte{{1, 2, 3}}); close(done) }()
		select {
		case <-done:
		case <-time.After(15 * time.Second):
			res.viol, res.desc = "config-lock-leak", fmt.Sprintf("after %d handshake(s) SetSessionTicketKeys on the Config returned by GetConfigForClient (SessionTicketsDisabled) blocks: Config.ticketKeys left its read lock held", round+1)
			return res
		}
	}
	return res
}

// ---------------------------------------------------------------- activeCall interlock, step by step
// A transport whose Write blocks until the harness releases it, so that a
// tls.Conn.Write is "in flight" for as long as the script wants.
type gateConn struct {
	net.Conn
	mu      sync.Mutex
	gated   bool
	waiting chan struct{} // signalled when a Write is parked
	release chan struct{}
	closed  chan struct{}
	once    sync.Once
	wrote   [][]byte
}

func (g *gateConn) Write(b []byte) (int, error) {
	g.mu.Lock()
	gated := g.gated
	g.wrote = append(g.wrote, append([]byte{}, b...))
	g.mu.Unlock()
	if gated {
		select {
		case g.waiting <- struct{}{}:
		default:
		}
		select {
		case <-g.release:
		case <-g.closed:
			return 0, io.ErrClosedPipe
		}
	}
	return g.Conn.Write(b)
}
func (g *gateConn) Close() error {
	g.once.Do(func() { close(g.closed) })
	return g.Conn.Close()
}

// events: "w" start a Write (parks in the transport), "r" release the oldest parked Write, "c" Close.
// observed per event: w -> "" (parked) | "closed" (returned net.ErrClosed at once); r -> result of that Write ("ok"|"err"); c -> "ok"|"closed" + whether a close_notify record was written
type acObs struct {
	Ev     string
	Result string
	Alert  bool
}

func runActiveCall(sc *scenario) ([]acObs, string) {
	setup()
	rawC, rawS := net.Pipe()
	g := &gateConn{Conn: rawC, waiting: make(chan struct{}, 16), release: make(chan struct{}), closed: make(chan struct{})}
	cc := &tls.Config{InsecureSkipVerify: true, ServerName: "c34.example", MinVersion: sc.Vers, MaxVersion: sc.Vers}
	scfg := &tls.Config{Certificates: []tls.Certificate{srvCert}, MinVersion: sc.Vers, MaxVersion: sc.Vers}
	cli, srv := tls.Client(g, cc), tls.Server(rawS, scfg)
	defer rawS.Close()
	defer g.Close()
	go func() { // the server reads everything
		b := make([]byte, 4096)
		for {
			if _, err := srv.Read(b); err != nil {
				return
			}
		}
	}()
	go func() { // the client reads too (TLS 1.3 session tickets must not stall the synchronous pipe)
		b := make([]byte, 4096)
		for {
			if _, err := cli.Read(b); err != nil {
				return
			}
		}
	}()
	if err := cli.Handshake(); err != nil {
		return nil, "handshake: " + err.Error()
	}
	if _, err := cli.Write([]byte("warm-up")); err != nil { // the server's handshake is over once this is through
		return nil, "warm-up write: " + err.Error()
	}
	g.mu.Lock()
	g.gated = true
	g.wrote = nil
	g.mu.Unlock()
	var obs []acObs
	var parked []chan error
	for _, ev := range sc.Events {
		switch ev {
		case "w":
			ch := make(chan error, 1)
			go func() { _, err := cli.Write([]byte("x")); ch <- err }()
			select {
			case <-g.waiting:
				parked = append(parked, ch)
				obs = append(obs, acObs{Ev: "w", Result: "parked"})
			case err := <-ch:
				r := "err"
				if errors.Is(err, net.ErrClosed) {
					r = "closed"
				}
				obs = append(obs, acObs{Ev: "w", Result: r})
			case <-time.After(20 * time.Second):
				return obs, "a Write neither reached the transport nor returned"
			}
		case "r":
			if len(parked) == 0 {
				obs = append(obs, acObs{Ev: "r", Result: "none"})
				continue
			}
			ch := parked[0]
			parked = parked[1:]
			select {
			case g.release <- struct{}{}:
			case <-g.closed:
			}
			select {
			case err := <-ch:
				r := "ok"
				if err != nil {
					r = "err"
				}
				obs = append(obs, acObs{Ev: "r", Result: r})
			case <-time.After(20 * time.Second):
				return obs, "a released Write did not return"
			}
		case "c":
			g.mu.Lock()
			before := len(g.wrote)
			g.gated = false // Close's own alert must not park
			g.mu.Unlock()
			ch := make(chan error, 1)
			go func() { ch <- cli.Close() }()
			select {
			case err := <-ch:
				r := "ok"
				if errors.Is(err, net.ErrClosed) {
					r = "closed"
				} else if err != nil {
					r = "err"
				}
				g.mu.Lock()
				alert := false
				for _, w := range g.wrote[before:] {
					if len(w) > 0 && (w[0] == 21 || (sc.Vers == tls.VersionTLS13 && w[0] == 23)) {
						alert = true
					}
				}
				g.gated = true
				g.mu.Unlock()
				obs = append(obs, acObs{Ev: "c", Result: r, Alert: alert})
			case <-time.After(20 * time.Second):
				return obs, "Close did not return while a Write was in flight (it must not wait for c.out)"
			}
		}
	}
	return obs, ""
}

// ---------------------------------------------------------------- generators
var versions = []uint16{tls.VersionTLS13, tls.VersionTLS12, tls.VersionTLS13, tls.VersionTLS12, tls.VersionTLS11, tls.VersionTLS10}

func genStress(c *vh.Ctx, clean bool) *scenario {
	sc := &scenario{Kind: "stress", Clean: clean, LimitMs: 120 + c.Intn(200), CloseEnd: c.Intn(2)}
	sc.Procs = []int{0, 2, 4, 8, 1}[c.Intn(5)]
	if c.Intn(3) == 0 {
		sc.Mode = "message"
		sc.Vers = versions[c.Intn(4)]
	} else {
		sc.Mode = "stream"
		sc.Vers = versions[c.Intn(len(versions))]
	}
	for e := 0; e < 2; e++ {
		// readers
		nr := 1
		if sc.Mode == "message" {
			nr = 1 + c.Intn(3)
		}
		for i := 0; i < nr; i++ {
			a := actor{End: e, Loop: true}
			for j := 0; j < 1+c.Intn(3); j++ {
				a.Ops = append(a.Ops, opSpec{Op: "read", N: []int{1, 7, 100, 1000, 20000}[c.Intn(5)]})
				if c.Intn(4) == 0 {
					a.Ops = append(a.Ops, opSpec{Op: "state"})
				}
			}
			sc.Actors = append(sc.Actors, a)
		}
		// writers
		for i := 0; i < 1+c.Intn(3); i++ {
			a := actor{End: e}
			for j := 0; j < 2+c.Intn(10); j++ {
				if c.Intn(5) == 0 {
					a.Ops = append(a.Ops, opSpec{Op: []string{"state", "handshake", "sleep"}[c.Intn(3)], D: c.Intn(300)})
				}
				n := []int{0, 1, 2, 50, 1000, 17000, 40000}[c.Intn(7)]
				a.Ops = append(a.Ops, opSpec{Op: "write", N: n})
			}
			sc.Actors = append(sc.Actors, a)
		}
		// bystanders
		for i := 0; i < c.Intn(3); i++ {
			a := actor{End: e}
			for j := 0; j < 1+c.Intn(6); j++ {
				var o opSpec
				if clean {
					o = opSpec{Op: []string{"state", "handshake", "sleep", "deadline"}[c.Intn(4)], D: c.Intn(400)}
					if o.Op == "deadline" {
						o.D = 0
						if c.Bool() {
							o.D = 600000 // far away
						}
					}
				} else {
					switch c.Intn(9) {
					case 0, 1:
						o = opSpec{Op: "state"}
					case 2:
						o = opSpec{Op: "handshake"}
					case 3, 4:
						o = opSpec{Op: "sleep", D: c.Intn(3000)}
					case 5:
						o = opSpec{Op: "deadline", D: c.Intn(30)}
					case 6:
						o = opSpec{Op: "deadline", D: 1 + c.Intn(5)}
					case 7:
						o = opSpec{Op: "closewrite"}
					default:
						o = opSpec{Op: "close"}
					}
				}
				a.Ops = append(a.Ops, o)
			}
			sc.Actors = append(sc.Actors, a)
		}
	}
	return sc
}

// TLS 1.3: end A keeps asking for key updates while end B has one reader and 4-8 writers queued on c.out.
// B's reply KeyUpdate and its switch to the next write key must be one step for B's writers.
func genKeyUpdate(c *vh.Ctx) *scenario {
	sc := &scenario{Kind: "stress", Clean: true, Mode: "stream", Vers: tls.VersionTLS13, LimitMs: 200, CloseEnd: c.Intn(2), Buffered: true}
	sc.Procs = []int{0, 2, 4, 8}[c.Intn(4)]
	a, b := c.Intn(2), 0
	b = 1 - a
	// end A: a reader, and one goroutine alternating KeyUpdate requests with small writes
	sc.Actors = append(sc.Actors, actor{End: a, Loop: true, Ops: []opSpec{{Op: "read", N: 20000}}})
	ku := actor{End: a}
	for i := 0; i < 12+c.Intn(12); i++ {
		ku.Ops = append(ku.Ops, opSpec{Op: "keyupdate"}, opSpec{Op: "write", N: c.Intn(40)})
		if c.Intn(3) == 0 {
			ku.Ops = append(ku.Ops, opSpec{Op: "sleep", D: c.Intn(400)})
		}
	}
	sc.Actors = append(sc.Actors, ku)
	// end B: one reader, 4-8 writers
	sc.Actors = append(sc.Actors, actor{End: b, Loop: true, Ops: []opSpec{{Op: "read", N: 4096}}})
	for w := 0; w < 4+c.Intn(5); w++ {
		wr := actor{End: b}
		for j := 0; j < 15+c.Intn(15); j++ {
			wr.Ops = append(wr.Ops, opSpec{Op: "write", N: []int{1, 30, 300, 3000, 17000}[c.Intn(5)]})
		}
		sc.Actors = append(sc.Actors, wr)
	}
	return sc
}

func runCase(c *vh.Ctx, sc *scenario) {
	switch sc.Kind {
	case "activecall":
		obs, problem := runActiveCall(sc)
		evs := make([]string, len(sc.Events))
		for i, e := range sc.Events {
			evs[i] = map[string]string{"w": "EWrite", "r": "ERelease", "c": "EClose"}[e]
		}
		os2 := make([]string, len(obs))
		for i, o := range obs {
			code := map[string]int{"parked": 0, "closed": 1, "ok": 2, "err": 3, "none": 4}[o.Result]
			os2[i] = vh.Pair(vh.NI(code), vh.Bool(o.Alert))
		}
		c.Stat("activecall_scripts", 1)
		if problem == "" {
			c.Case("accase", vh.Pair(vh.List0(evs, "acevent"), vh.List0(os2, "(N * bool)")), sc, strings.Join(sc.Events, ""))
		} else {
			c.Violation("activecall-stuck", problem+fmt.Sprintf(" (events %v)", sc.Events), "accase", sc)
		}
		// oracle: the documented interlock
		closed := false
		inflight := 0
		for i, o := range obs {
			switch o.Ev {
			case "w":
				if closed && o.Result != "closed" {
					c.Violation("write-after-close", fmt.Sprintf("event %d: a Write started after Close did not return net.ErrClosed (%s)", i, o.Result), "accase", sc)
					return
				}
				if !closed && o.Result == "parked" {
					inflight++
				}
			case "r":
				if o.Result != "none" && inflight > 0 {
					inflight--
				}
			case "c":
				if closed && o.Result != "closed" {
					c.Violation("double-close", fmt.Sprintf("event %d: second Close returned %s, not net.ErrClosed", i, o.Result), "accase", sc)
					return
				}
				if !closed && inflight == 0 && !o.Alert {
					c.Violation("close-no-alert", fmt.Sprintf("event %d: Close with no Write in flight did not send close_notify", i), "accase", sc)
					return
				}
				if !closed && inflight > 0 && o.Alert {
					c.Violation("close-alert-during-write", fmt.Sprintf("event %d: Close during a Write sent an alert (it would have to wait for c.out)", i), "accase", sc)
					return
				}
				closed = true
				inflight = 0
			}
		}
		return
	case "configlock":
		r := runConfigLock(sc)
		c.Eval(fmt.Sprintf("configlock-%x", sc.Vers))
		c.Stat("configlock_runs", 1)
		if r.viol != "" {
			c.Violation(r.viol, r.desc, "stress", sc)
		}
		return
	case "oversized":
		r := runOversized(sc)
		c.Eval(fmt.Sprintf("oversized-%x", sc.Vers))
		c.Stat("oversized_runs", 1)
		if r.viol != "" {
			c.Violation(r.viol, r.desc, "stress", sc)
		}
		return
	}
	r := runStress(sc)
	js, _ := json.Marshal(sc)
	c.Eval(string(js))
	c.Stat("stress_runs", 1)
	c.Stat(fmt.Sprintf("vers_%x", sc.Vers), 1)
	c.Stat("mode_"+sc.Mode, 1)
	if sc.Clean {
		c.Stat("clean_runs", 1)
	}
	for e := 0; e < 2; e++ {
		for _, n := range r.sent[e] {
			c.Stat("writes_completed", n)
		}
	}
	if os.Getenv("C34_DEBUG") != "" {
		fmt.Fprintf(os.Stderr, "stress vers=%x mode=%s clean=%v actors=%d wall=%v viol=%s\n", sc.Vers, sc.Mode, sc.Clean, len(sc.Actors), r.done, r.viol)
	}
	if r.viol != "" {
		c.Violation(r.viol, r.desc, "stress", sc)
	}
}

func gen(c *vh.Ctx) {
	setup()
	// activeCall scripts: every sequence over {w, r, c} up to length 4 (5 thorough) with at most 1 Write parked at a time
	if !c.Race {
		maxLen := 4
		if c.Thorough {
			maxLen = 5
		}
		var rec func(pre []string, parked int)
		rec = func(pre []string, parked int) {
			if len(pre) > 0 {
				for _, v := range []uint16{tls.VersionTLS12, tls.VersionTLS13} {
					runCase(c, &scenario{Kind: "activecall", Vers: v, Events: append([]string{}, pre...)})
				}
			}
			if len(pre) == maxLen {
				return
			}
			closedSeen := false
			for _, e := range pre {
				if e == "c" {
					closedSeen = true
				}
			}
			if parked == 0 {
				np := 1
				if closedSeen {
					np = 0
				}
				rec(append(pre, "w"), np)
			}
			if parked > 0 {
				rec(append(pre, "r"), 0)
			}
			rec(append(pre, "c"), parked)
		}
		rec(nil, 0)
		c.Exhaustive(fmt.Sprintf("activeCall interlock: every script over {start Write, release Write, Close} up to length %d with at most one Write in the transport, TLS 1.2 and 1.3", maxLen))
	}
	// oversized post-handshake handshake message while reading and writing
	for _, v := range []uint16{tls.VersionTLS13, tls.VersionTLS12} {
		runCase(c, &scenario{Kind: "oversized", Vers: v, LimitMs: 30})
	}
	if !c.Race {
		for _, v := range []uint16{tls.VersionTLS13, tls.VersionTLS12} {
			runCase(c, &scenario{Kind: "configlock", Vers: v})
		}
	}
	nku := 8
	if c.Thorough {
		nku = 300
	}
	if c.Race {
		nku = 4
		if c.Thorough {
			nku = 100
		}
	}
	for i := 0; i < nku && c.NumViolations() <= 3; i++ {
		sc := genKeyUpdate(c)
		c.Stat("keyupdate_runs", 1)
		runCase(c, sc)
	}
	n := 30
	if c.Thorough {
		n = 3000
	}
	if c.Race {
		n = 26
		if c.Thorough {
			n = 1200
		}
	}
	for i := 0; i < n; i++ {
		runCase(c, genStress(c, i%3 == 0))
		if c.NumViolations() > 3 {
			break
		}
	}
}

func replay(c *vh.Ctx, raw json.RawMessage) {
	setup()
	var sc scenario
	if err := json.Unmarshal(raw, &sc); err != nil {
		panic(err)
	}
	if sc.Kind == "" {
		var rr struct {
			Seed uint64 `json:"seed"`
			Tier string `json:"tier"`
		}
		json.Unmarshal(raw, &rr)
		replayRace(c, rr.Seed, rr.Tier)
		return
	}
	// a failure that depends on the schedule may need several attempts
	attempts := 3
	if sc.Kind == "stress" {
		attempts = 20
	}
	for i := 0; i < attempts && c.NumViolations() == 0; i++ {
		runCase(c, &sc)
	}
}

func replayRace(c *vh.Ctx, seed uint64, tier string) {
	self, err := os.Executable()
	if err != nil {
		panic(err)
	}
	exe := filepath.Join(filepath.Dir(self), "vh-race")
	if _, err := os.Stat(exe); err != nil {
		c.Race = true
		gen(c)
		return
	}
	if tier == "" {
		tier = "quick"
	}
	dir, err := os.MkdirTemp("", "c34-race-replay")
	if err != nil {
		panic(err)
	}
	defer os.RemoveAll(dir)
	out, _ := exec.Command(exe, "--race", "--tier", tier, "--seed", strconv.FormatUint(seed, 10), "--out", dir).CombinedOutput()
	c.Eval("race-replay")
	if i := bytes.Index(out, []byte("DATA RACE")); i >= 0 {
		end := i + 1500
		if end > len(out) {
			end = len(out)
		}
		c.Violation("data-race", "Go race detector report (replayed): "+string(out[i:end]), "race", map[string]interface{}{"seed": seed, "tier": tier, "run": "race"})
		return
	}
	var res struct {
		Violations []vh.Violation `json:"violations"`
	}
	if b, err := os.ReadFile(filepath.Join(dir, "result.json")); err == nil && json.Unmarshal(b, &res) == nil {
		for _, v := range res.Violations {
			c.Violation(v.Key, v.Desc, v.Stream, v.Input)
		}
	}
}

func tables(c *vh.Ctx) {
	repo := os.Getenv("VERIF_REPO_DIR")
	if repo == "" {
		repo = "/repo"
	}
	out, err := locksum.ConnSummary(filepath.Join(repo, "tls", "conn.go"))
	if err != nil {
		fmt.Fprintln(os.Stderr, "summary:", err)
		os.Exit(1)
	}
	c.WriteGen("C34Summary_gen.v", out)
}

func main() {
	vh.Main("C34", func(c *vh.Ctx) {
		if c.Tables {
			tables(c)
			return
		}
		gen(c)
	}, replay)
}
