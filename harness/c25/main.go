// C25 harness: the TLS record layer of zcrypto/tls (conn.go) driven through
// the verif hooks with spy primitives (every nonce, additional data, IV, MAC
// input and plaintext handed to a primitive is recorded and compared with the
// Coq model byte for byte), extractPadding enumerated, fragmentation and the
// data-phase reader on spy connections, and — as the direct oracle — real
// handshaken connections for every negotiable (version, suite) cell with
// random write splits, transport segmentations and wire faults.
package main

import (
	"encoding/json"
	"errors"
	"fmt"
	"io"
	"net"
	"time"

	"github.com/zmap/zcrypto/tls"
	"verifharness/vh"
)

type input struct {
	S       string   `json:"s"` // stream / oracle name
	P       params   `json:"p"`
	Hdr     string   `json:"hdr,omitempty"`
	Payload string   `json:"payload,omitempty"`
	Rnd     string   `json:"rnd,omitempty"`
	Rec     string   `json:"rec,omitempty"`
	L       int      `json:"l,omitempty"`
	Bytes0  int64    `json:"bytes0,omitempty"`
	Pkts0   int64    `json:"pkts0,omitempty"`
	DynOff  bool     `json:"dynoff,omitempty"`
	Beast   bool     `json:"beastoff,omitempty"`
	Lens    []int    `json:"lens,omitempty"`
	Writes  []string `json:"writes,omitempty"`
	Wire    string   `json:"wire,omitempty"`
	Segs    []int    `json:"segs,omitempty"`
	Real    *realIn  `json:"real,omitempty"`
	NoCase  bool     `json:"-"` // oracle only: do not emit a model case (large inputs in the quick tier)
	// expectations of the direct oracle (kept so that a replay re-evaluates them)
	Exp    int    `json:"exp,omitempty"`    // dec: 0 none, 1 genuine record, 2 tampered record
	ExpPt  string `json:"exppt,omitempty"`  // dec: plaintext of the genuine record
	ExpTyp int    `json:"exptyp,omitempty"` // dec: its content type
	Sent   string `json:"sent,omitempty"`   // rx: the bytes written
	HasExp bool   `json:"hasexp,omitempty"` // rx: Sent / ExpLen are meaningful
	ExpLen int    `json:"explen,omitempty"` // rx: bytes carried by the intact prefix of the wire
}

// ------------------------------------------------------------- extractPadding
func refPadding(payload []byte) (int, byte) {
	if len(payload) == 0 {
		return 0, 0
	}
	p := int(payload[len(payload)-1])
	if p+1 > len(payload) {
		return 1, 0
	}
	for i := 0; i <= p; i++ {
		if int(payload[len(payload)-1-i]) != p {
			return 1, 0
		}
	}
	return p + 1, 255
}

func runPad(c *vh.Ctx, payload []byte, emit bool) (int, byte) {
	rm, good := tls.VerifExtractPadding(append([]byte{}, payload...))
	wr, wg := refPadding(payload)
	in := input{S: "pad", Payload: vh.Hex(payload)}
	if rm != wr || good != wg {
		c.Violation("extract-padding", fmt.Sprintf("extractPadding(%x) = (%d,%d), RFC 2246 6.2.3.2 padding check gives (%d,%d)",
			payload, rm, good, wr, wg), "pad", in)
	}
	if emit {
		nk := ""
		if good == 255 {
			nk = vh.Hex(payload)
		}
		c.Case("pad", vh.Pair(vh.Bytes(payload), vh.NI(rm), vh.NI(int(good))), in, nk)
	} else {
		c.Eval("")
	}
	return rm, good
}

func genPayload(f func(j int) byte, L int) []byte {
	o := make([]byte, L)
	for j := 0; j < L; j++ {
		o[L-1-j] = f(j)
	}
	return o
}

// same enumeration and fold order as C25.xpad_hash
func xpadHash(c *vh.Ctx, L int) uint64 {
	h := uint64(0)
	mixp := func(pl []byte) {
		rm, good := runPad(c, pl, false)
		h = vh.Mix(vh.Mix(h, uint64(rm)), uint64(good))
	}
	for p := 0; p < 256; p++ {
		pb := byte(p)
		mixp(genPayload(func(int) byte { return pb }, L))
		mixp(genPayload(func(j int) byte {
			if j <= p {
				return pb
			}
			return pb ^ 170
		}, L))
		for k := 0; k < L; k++ {
			mixp(genPayload(func(j int) byte {
				if j == k {
					return pb ^ 1
				}
				return pb
			}, L))
			mixp(genPayload(func(j int) byte {
				if j == k {
					return byte((k*13 + 5) % 256)
				}
				return pb
			}, L))
		}
	}
	return h
}

func genPad(c *vh.Ctx) {
	maxL, extra := 12, []int{16, 17}
	if c.Thorough {
		maxL, extra = 34, []int{48, 64}
	}
	var Ls []int
	for L := 0; L <= maxL; L++ {
		Ls = append(Ls, L)
	}
	for _, L := range append(Ls, extra...) {
		h := xpadHash(c, L)
		c.Case("xpad", vh.Pair(vh.Nat(L), vh.N(h)), input{S: "xpad", L: L}, fmt.Sprintf("L%d", L))
	}
	c.Exhaustive(fmt.Sprintf("extractPadding: every payload length 0..%d and %v x every padding byte 0..255 x {all bytes equal, bytes beyond the padding differ, each single position deviating in two ways}", maxL, extra))
	// individual cases: boundaries of the 256-byte window and of the length test
	for _, L := range []int{0, 1, 2, 16, 255, 256, 257, 258, 300} {
		for _, p := range []int{0, L - 2, L - 1, L, 254, 255} {
			if p < 0 || p > 255 || L == 0 {
				continue
			}
			pl := genPayload(func(j int) byte {
				if j <= p {
					return byte(p)
				}
				return byte(j*7 + 1)
			}, L)
			runPad(c, pl, true)
			// deviations at the last padding position, just beyond it, and at a random place
			for _, k := range []int{p, p + 1, c.Intn(min(L, p+2))} {
				if k < L && L > 1 {
					q := append([]byte{}, pl...)
					q[L-1-k] ^= byte(1 + c.Intn(255))
					runPad(c, q, true)
				}
			}
		}
		if L == 0 {
			runPad(c, nil, true)
		}
	}
	n := 120
	if c.Thorough {
		n = 3000
	}
	for i := 0; i < n; i++ {
		L := 1 + c.Intn(48)
		if c.Intn(20) == 0 {
			L = 200 + c.Intn(200)
		}
		pl := c.Bytes(L)
		if c.Intn(4) != 0 {
			p := c.Intn(min(L, 256))
			for j := 0; j <= p; j++ {
				pl[L-1-j] = byte(p)
			}
			if c.Intn(3) == 0 {
				pl[L-1-c.Intn(p+1)] ^= byte(1 << uint(c.Intn(8)))
			}
		}
		runPad(c, pl, true)
	}
}

// ------------------------------------------------------------- parameters
var seqPool = []uint64{0, 1, 2, 255, 256, 65535, 1<<24 - 1, 1 << 32, 1<<32 - 1, 1<<40 - 1, 1<<48 - 1, 1<<56 - 1, 1 << 63, 1<<64 - 2, 0x0102030405060708}

func paramSpace(c *vh.Ctx) []params {
	var out []params
	for _, v := range []int{0x0301, 0x0302, 0x0303, 0x0304} {
		out = append(out, params{Vers: v, Kind: "null"})
		for _, ms := range []int{20, 32} {
			out = append(out, params{Vers: v, Kind: "stream", MS: ms})
		}
		for _, bm := range [][2]int{{8, 20}, {16, 20}, {16, 32}, {16, 48}, {32, 20}} {
			out = append(out, params{Vers: v, Kind: "cbc", BS: bm[0], MS: bm[1]})
		}
		for _, eo := range [][2]int{{0, 16}, {8, 16}, {16, 16}, {24, 8}, {8, 0}, {0, 0}} {
			out = append(out, params{Vers: v, Kind: "aead", E: eo[0], OVH: eo[1]})
		}
		out = append(out, params{Vers: v, Kind: "aead", Wrap: "prefix", OVH: 16})
		out = append(out, params{Vers: v, Kind: "aead", Wrap: "xor", OVH: 16})
	}
	return out
}

func fillParams(c *vh.Ctx, p params) params {
	p.Seq = seqPool[c.Intn(len(seqPool))]
	if c.Intn(3) == 0 {
		p.Seq = c.U64() >> uint(c.Intn(64))
	}
	if p.Seq == 1<<64-1 && c.Intn(4) != 0 {
		p.Seq = 7
	}
	switch p.Kind {
	case "stream":
		p.Spos = c.Intn(1000)
	case "cbc":
		p.IV = vh.Hex(c.Bytes(p.BS))
	case "aead":
		switch p.Wrap {
		case "prefix":
			p.WB = vh.Hex(c.Bytes(4))
		case "xor":
			p.WB = vh.Hex(c.Bytes(12))
		}
	}
	return p
}

var lenPool = []int{0, 1, 2, 3, 7, 8, 9, 11, 12, 15, 16, 17, 27, 28, 31, 32, 33, 43, 44, 47, 48}
var bigLens = []int{63, 64, 100, 235, 236, 255, 256, 257, 300}

func pickLen(c *vh.Ctx) int {
	if c.Intn(16) == 0 {
		return bigLens[c.Intn(len(bigLens))]
	}
	return lenPool[c.Intn(len(lenPool))]
}

func be16(n int) []byte { return []byte{byte(n >> 8), byte(n)} }
func wireVers(v int) int {
	if v == 0 {
		return 0x0301
	}
	if v == 0x0304 {
		return 0x0303
	}
	return v
}
func header(typ byte, vers, n int) []byte {
	return append(append([]byte{typ}, be16(wireVers(vers))...), be16(n)...)
}

// ------------------------------------------------------------- encrypt
func runEnc(c *vh.Ctx, in input) {
	p := in.P
	hdr, payload, rnd := vh.UnHex(in.Hdr), vh.UnHex(in.Payload), vh.UnHex(in.Rnd)
	log := &spyLog{}
	hc := p.half(log, false)
	rec, err, pan := hc.Encrypt(hdr, payload, &fixedReader{append([]byte{}, rnd...)})
	cls := 0
	switch {
	case pan != "":
		cls = 2
	case err != nil:
		cls = 1
	}
	seqAfter := seqOf(hc.Seq())
	nk := ""
	if cls == 0 && p.Kind != "null" {
		nk = fmt.Sprintf("%s|%d|%d", p.name(), len(payload), p.Seq%3)
	}
	calls := log.calls
	if cls != 0 {
		rec, calls = nil, nil
	}
	if in.NoCase {
		c.Eval(nk)
	} else {
		c.Case("enc", vh.Pair(p.coqWrap(), p.coqState(), vh.Bytes(hdr), vh.Bytes(payload), vh.Bytes(rnd),
			vh.Pair(vh.Z(int64(cls)), vh.Bytes(rec), vh.N(seqAfter), coqCalls(calls))), in, nk)
	}
	c.Stat("enc.class."+fmt.Sprint(cls), 1)

	// direct oracle: a reader in the same state recovers exactly (payload, type)
	wellFormed := len(hdr) == 5 && int(hdr[3])<<8|int(hdr[4]) == len(payload) && len(payload) <= 16384 &&
		!(p.Vers == 0x0304 && (hdr[0] == 0 || (p.Kind == "aead" && p.effE() != 0) || p.Kind != "aead")) &&
		!(p.Kind == "aead" && p.effE() != 0 && p.effE() != 8 && p.effE() < 16) && p.Kind != "null"
	if cls == 0 && wellFormed {
		q := p
		if p.Kind == "cbc" && p.Vers < 0x0302 {
			q.IV = p.IV
		}
		rlog := &spyLog{}
		rh := q.half(rlog, true)
		pt, typ, alert, rpan := rh.Decrypt(rec)
		if rpan != "" || alert != -1 || string(pt) != string(payload) || typ != hdr[0] || seqOf(rh.Seq()) != p.Seq+1 || seqAfter != p.Seq+1 {
			c.Violation("roundtrip-"+p.Kind, fmt.Sprintf("%s: decrypt(encrypt(type %d, %d bytes, seq %d)) = (alert %d, panic %q, type %d, %d bytes, equal=%v), seq after: writer %d reader %d",
				p.name(), hdr[0], len(payload), p.Seq, alert, rpan, typ, len(pt), string(pt) == string(payload), seqAfter, seqOf(rh.Seq())), "enc", in)
		}
		// the sequence number reaches the primitive on both sides
		if !seqInCalls(p, log.calls) {
			c.Violation("seq-unbound-"+p.Kind, fmt.Sprintf("%s: sequence number %d not part of the nonce / additional data / MAC input", p.name(), p.Seq), "enc", in)
		}
	}
	if cls == 2 && p.Seq != 1<<64-1 {
		c.Violation("encrypt-panic", fmt.Sprintf("%s: encrypt panicked: %s", p.name(), pan), "enc", in)
	}
}

// the 8 sequence bytes must be visible in what is authenticated
func seqInCalls(p params, calls []call) bool {
	s := seqBytes(p.Seq)
	for _, cl := range calls {
		switch cl.K {
		case "mac":
			return len(cl.A) >= 8 && string(cl.A[:8]) == string(s[:])
		case "seal", "open":
			if p.Vers == 0x0304 {
				// nonce = mask xor seq (or seq itself without wrapper)
				n := cl.A
				if p.Wrap == "xor" {
					m := vh.UnHex(p.WB)
					x := make([]byte, 8)
					for i := range x {
						x[i] = n[4+i] ^ m[4+i]
					}
					return string(x) == string(s[:])
				}
				return len(n) >= 8 && string(n[len(n)-8:]) == string(s[:])
			}
			return len(cl.B) >= 8 && string(cl.B[:8]) == string(s[:])
		}
	}
	return false
}

func genEnc(c *vh.Ctx) {
	space := paramSpace(c)
	reps := 2
	if c.Thorough {
		reps = 40
	}
	for _, p0 := range space {
		for r := 0; r < reps; r++ {
			p := fillParams(c, p0)
			n := pickLen(c)
			payload := c.Bytes(n)
			typ := []byte{23, 23, 22, 21, 20, 0, byte(c.Intn(256))}[c.Intn(7)]
			hdr := header(typ, p.Vers, n)
			if c.Intn(12) == 0 {
				hdr[3], hdr[4] = byte(c.Intn(256)), byte(c.Intn(256))
			}
			rnd := c.Bytes(32)
			if c.Intn(15) == 0 {
				rnd = rnd[:c.Intn(20)]
			}
			runEnc(c, input{S: "enc", P: p, Hdr: vh.Hex(hdr), Payload: vh.Hex(payload), Rnd: vh.Hex(rnd)})
		}
	}
	// the overflow boundary and the wrap-around panic
	for _, p0 := range []params{{Vers: 0x0304, Kind: "aead", Wrap: "xor", OVH: 16}, {Vers: 0x0303, Kind: "cbc", BS: 16, MS: 20}} {
		p := fillParams(c, p0)
		payload := c.Bytes(16384)
		runEnc(c, input{S: "enc", P: p, Hdr: vh.Hex(header(23, p.Vers, 16384)), Payload: vh.Hex(payload), Rnd: vh.Hex(c.Bytes(16)), NoCase: !c.Thorough})
		p.Seq = 1<<64 - 1
		runEnc(c, input{S: "enc", P: p, Hdr: vh.Hex(header(23, p.Vers, 3)), Payload: "010203", Rnd: vh.Hex(c.Bytes(16))})
	}
}

// ------------------------------------------------------------- decrypt
func innerNonce(p params, n []byte) []byte {
	switch p.Wrap {
	case "prefix":
		return append(append([]byte{}, vh.UnHex(p.WB)[:4]...), n[:8]...)
	case "xor":
		m := vh.UnHex(p.WB)
		o := append([]byte{}, m...)
		for i := 0; i < 8 && i < len(n); i++ {
			o[4+i] ^= n[i]
		}
		return o
	}
	return n
}

type craftOpt struct {
	padLen   int  // CBC: total padding bytes incl. the length byte (0 = minimal)
	padByte  int  // CBC: value of the padding bytes (-1 = padLen-1)
	zeros    int  // TLS 1.3: zero bytes after the content type
	noType   bool // TLS 1.3: inner plaintext of zeros only
	explicit []byte
}

// craft builds a protected record with the toy primitives, independently of
// the code under test
func craft(p params, typ byte, payload []byte, o craftOpt) []byte {
	s := seqBytes(p.Seq)
	hdr := header(typ, p.Vers, len(payload))
	var body []byte
	switch p.Kind {
	case "null":
		body = payload
	case "stream":
		m := toyMac(p.MS, append(append(append([]byte{}, s[:]...), hdr...), payload...))
		body = xorKS(p.Spos, append(append([]byte{}, payload...), m...))
	case "cbc":
		m := toyMac(p.MS, append(append(append([]byte{}, s[:]...), hdr...), payload...))
		pt := append(append([]byte{}, payload...), m...)
		k := o.padLen
		if k == 0 {
			k = p.BS - len(pt)%p.BS
		}
		for (len(pt)+k)%p.BS != 0 {
			k++
		}
		for k > 256 {
			k -= p.BS
		}
		pb := k - 1
		if o.padByte >= 0 {
			pb = o.padByte
		}
		for i := 0; i < k; i++ {
			pt = append(pt, byte(pb))
		}
		iv := vh.UnHex(p.IV)
		if p.Vers >= 0x0302 {
			iv = o.explicit
			body = append(body, iv...)
		}
		ct, _ := toyCBC(p.BS, iv, pt, false)
		body = append(body, ct...)
	case "aead":
		e := p.effE()
		nonce := s[:]
		if e > 0 {
			nonce = o.explicit
			body = append(body, nonce...)
		}
		if p.Vers == 0x0304 {
			inner := append([]byte{}, payload...)
			if !o.noType {
				inner = append(inner, typ)
			}
			inner = append(inner, make([]byte, o.zeros)...)
			hdr = header(23, p.Vers, len(inner)+p.OVH)
			body = append(body, toySeal(p.OVH, innerNonce(p, nonce), hdr, inner)...)
		} else {
			ad := append(append([]byte{}, s[:]...), hdr...)
			body = append(body, toySeal(p.OVH, innerNonce(p, nonce), ad, payload)...)
		}
	}
	rec := append([]byte{}, hdr...)
	rec = append(rec, body...)
	n := len(rec) - 5
	rec[3], rec[4] = byte(n>>8), byte(n)
	return rec
}

func runDec(c *vh.Ctx, in input, expect []byte, expectTyp int) {
	switch {
	case expectTyp >= 0:
		in.Exp, in.ExpPt, in.ExpTyp = 1, vh.Hex(expect), expectTyp
	case expectTyp == -2:
		in.Exp = 2
	case expectTyp == -3: // replay: take the expectation from the input
		expectTyp = -1
		if in.Exp == 1 {
			expect, expectTyp = vh.UnHex(in.ExpPt), in.ExpTyp
		} else if in.Exp == 2 {
			expectTyp = -2
		}
	}
	p := in.P
	rec := vh.UnHex(in.Rec)
	log := &spyLog{}
	hc := p.half(log, true)
	pt, typ, alert, pan := hc.Decrypt(rec)
	cls := alert
	if pan != "" {
		cls = 300
	}
	calls := log.calls
	if cls != -1 {
		pt, typ, calls = nil, 0, nil
	}
	nk := ""
	if cls == -1 && p.Kind != "null" {
		nk = fmt.Sprintf("%s|%d", p.name(), len(pt))
	}
	if in.NoCase {
		c.Eval(nk)
	} else {
		c.Case("dec", vh.Pair(p.coqWrap(), p.coqState(), vh.Bytes(rec),
			vh.Pair(vh.Z(int64(cls)), vh.Bytes(pt), vh.NI(int(typ)), vh.N(seqOf(hc.Seq())), coqCalls(calls))), in, nk)
	}
	c.Stat("dec.class."+fmt.Sprint(cls), 1)
	if expectTyp >= 0 {
		// genuine crafted record: must come back intact
		if cls != -1 || string(pt) != string(expect) || int(typ) != expectTyp {
			c.Violation("genuine-rejected-"+p.Kind, fmt.Sprintf("%s: a genuine record (type %d, %d bytes, seq %d) decrypts to (class %d, type %d, %d bytes)",
				p.name(), expectTyp, len(expect), p.Seq, cls, typ, len(pt)), "dec", in)
		}
	} else if expectTyp == -2 {
		// tampered record on an authenticated kind: must not be accepted
		if cls == -1 {
			c.Violation("tamper-accepted-"+p.Kind, fmt.Sprintf("%s: a tampered record was accepted (type %d, %d bytes)", p.name(), typ, len(pt)), "dec", in)
		}
	}
	if cls == 300 && len(rec) >= 5 && p.Seq != 1<<64-1 {
		c.Violation("decrypt-panic", fmt.Sprintf("%s: decrypt panicked: %s", p.name(), pan), "dec", in)
	}
}

func realistic(p params) bool {
	if p.Kind == "null" || (p.Kind == "aead" && p.OVH == 0) {
		return false // no authentication tag at all
	}
	if p.Vers == 0x0304 {
		return p.Kind == "aead" && p.effE() == 0
	}
	if p.Kind == "aead" {
		return p.effE() == 0 || p.effE() == 8 || p.effE() >= 16
	}
	return true
}

func genDec(c *vh.Ctx) {
	space := paramSpace(c)
	reps := 1
	if c.Thorough {
		reps = 25
	}
	for _, p0 := range space {
		for r := 0; r < reps; r++ {
			p := fillParams(c, p0)
			if p.Seq == 1<<64-1 {
				p.Seq = 3
			}
			n := pickLen(c)
			payload := c.Bytes(n)
			typ := []byte{23, 23, 22, 21, 20}[c.Intn(5)]
			o := craftOpt{padByte: -1, explicit: c.Bytes(max(p.effE(), p.BS))}
			if p.Kind == "cbc" {
				o.explicit = o.explicit[:p.BS]
				if c.Intn(2) == 0 {
					o.padLen = 1 + c.Intn(40)
					if c.Intn(4) == 0 {
						o.padLen = 200 + c.Intn(57)
					}
				}
			} else {
				o.explicit = o.explicit[:p.effE()]
			}
			if p.Vers == 0x0304 && c.Intn(2) == 0 {
				o.zeros = c.Intn(40)
			}
			rec := craft(p, typ, payload, o)
			in := input{S: "dec", P: p, Rec: vh.Hex(rec)}
			if realistic(p) && !(p.Vers == 0x0304 && typ == 20) {
				runDec(c, in, payload, int(typ))
			} else {
				runDec(c, in, nil, -1)
			}
			// tampering: one or two of the mutation classes per genuine record
			for t := 0; t < 3; t++ {
				m := append([]byte{}, rec...)
				authenticated := realistic(p)
				switch c.Intn(9) {
				case 0: // flip anywhere in the body
					if len(m) > 5 {
						m[5+c.Intn(len(m)-5)] ^= byte(1 << uint(c.Intn(8)))
					} else {
						continue
					}
				case 1: // flip type or version
					i := c.Intn(3)
					m[i] ^= byte(1 << uint(c.Intn(8)))
					if p.Vers == 0x0304 && i == 0 && m[0] == 20 {
						authenticated = false // an unprotected change_cipher_spec record
					}
				case 2: // last byte (padding length / tag)
					m[len(m)-1] ^= byte(1 + c.Intn(255))
					if len(m) == 5 {
						continue
					}
				case 3: // truncate
					k := 1 + c.Intn(min(len(m)-4, 40))
					if len(m)-k < 5 {
						continue
					}
					m = m[:len(m)-k]
					m[3], m[4] = byte((len(m)-5)>>8), byte(len(m)-5)
				case 4: // extend
					m = append(m, c.Bytes(1+c.Intn(2*max(p.BS, 8)))...)
					m[3], m[4] = byte((len(m)-5)>>8), byte(len(m)-5)
				case 5: // wrong sequence number on the receiver
					q := p
					q.Seq = p.Seq + 1
					in2 := input{S: "dec", P: q, Rec: vh.Hex(m)}
					exp := -1
					if authenticated {
						exp = -2
					}
					runDec(c, in2, nil, exp)
					continue
				case 6: // CBC: bad padding bytes
					if p.Kind != "cbc" {
						continue
					}
					o2 := o
					o2.padLen = 2 + c.Intn(60)
					o2.padByte = c.Intn(256)
					m = craft(p, typ, payload, o2)
					if o2.padByte == len(m)-5-map2(p.Vers >= 0x0302, p.BS, 0)-len(payload)-p.MS-1 {
						authenticated = false // happens to be valid padding
					}
				case 7: // TLS 1.3: no content type
					if p.Vers != 0x0304 || p.Kind != "aead" {
						continue
					}
					o2 := o
					o2.noType = true
					m = craft(p, typ, make([]byte, c.Intn(5)), o2)
					// sealed with the key, so this is not tampering: zcrypto (like upstream) treats an
					// empty inner plaintext as empty application data and rejects all-zero ones;
					// the model comparison covers both, the tamper oracle does not apply
					authenticated = false
				case 8: // header only / short body
					m = m[:5+c.Intn(min(len(m)-4, 3*max(p.BS, 4)))]
					m[3], m[4] = byte((len(m)-5)>>8), byte(len(m)-5)
					if len(m) == len(rec) {
						continue
					}
				}
				exp := -1
				if authenticated && string(m) != string(rec) {
					exp = -2
				}
				runDec(c, input{S: "dec", P: p, Rec: vh.Hex(m)}, nil, exp)
			}
		}
	}
	// TLS 1.3 inner plaintext with zero padding (zcrypto never pads, peers may)
	for _, p0 := range []params{{Vers: 0x0304, Kind: "aead", Wrap: "xor", OVH: 16}, {Vers: 0x0304, Kind: "aead", E: 0, OVH: 16}} {
		for _, z := range []int{0, 1, 2, 3, 16, 255} {
			for _, n := range []int{0, 1, 5} {
				p := fillParams(c, p0)
				if p.Seq == 1<<64-1 {
					p.Seq = 4
				}
				payload := c.Bytes(n)
				typ := []byte{23, 22, 21}[c.Intn(3)]
				rec := craft(p, typ, payload, craftOpt{zeros: z, padByte: -1})
				runDec(c, input{S: "dec", P: p, Rec: vh.Hex(rec)}, payload, int(typ))
			}
		}
	}
	// TLS 1.3 record_overflow boundary: inner plaintext of 2^14+1 and 2^14+2 bytes
	for _, extra := range []int{0, 1} {
		p := fillParams(c, params{Vers: 0x0304, Kind: "aead", Wrap: "xor", OVH: 16})
		p.Seq = 9
		payload := c.Bytes(16384)
		rec := craft(p, 23, payload, craftOpt{zeros: extra})
		exp, et := payload, 23
		if extra == 1 {
			exp, et = nil, -1
		}
		runDec(c, input{S: "dec", P: p, Rec: vh.Hex(rec), NoCase: !c.Thorough}, exp, et)
	}
	// short records: fewer than five bytes panic in decrypt (never reached through readRecordOrCCS)
	p := fillParams(c, params{Vers: 0x0303, Kind: "aead", E: 8, OVH: 16})
	runDec(c, input{S: "dec", P: p, Rec: "170303"}, nil, -1)
}

func map2(b bool, x, y int) int {
	if b {
		return x
	}
	return y
}

// ------------------------------------------------------------- fake transports
type fakeAddr struct{}

func (fakeAddr) Network() string { return "mem" }
func (fakeAddr) String() string  { return "mem" }

// captureConn records everything written to it; reads see EOF
type captureConn struct{ w []byte }

func (c *captureConn) Read(p []byte) (int, error)         { return 0, io.EOF }
func (c *captureConn) Write(p []byte) (int, error)        { c.w = append(c.w, p...); return len(p), nil }
func (c *captureConn) Close() error                       { return nil }
func (c *captureConn) LocalAddr() net.Addr                { return fakeAddr{} }
func (c *captureConn) RemoteAddr() net.Addr               { return fakeAddr{} }
func (c *captureConn) SetDeadline(t time.Time) error      { return nil }
func (c *captureConn) SetReadDeadline(t time.Time) error  { return nil }
func (c *captureConn) SetWriteDeadline(t time.Time) error { return nil }

// segConn delivers the given segments one Read at a time, then EOF
type segConn struct {
	captureConn
	segs [][]byte
}

func (c *segConn) Read(p []byte) (int, error) {
	for len(c.segs) > 0 && len(c.segs[0]) == 0 {
		c.segs = c.segs[1:]
	}
	if len(c.segs) == 0 {
		return 0, io.EOF
	}
	n := copy(p, c.segs[0])
	c.segs[0] = c.segs[0][n:]
	return n, nil
}

func segment(b []byte, cuts []int) [][]byte {
	var out [][]byte
	i := 0
	for _, k := range cuts {
		if k <= 0 {
			continue
		}
		if i+k > len(b) {
			break
		}
		out = append(out, b[i:i+k])
		i += k
	}
	if i < len(b) {
		out = append(out, b[i:])
	}
	return out
}

func splitRecords(w []byte) (recs [][]byte, ok bool) {
	for len(w) > 0 {
		if len(w) < 5 {
			return recs, false
		}
		n := int(w[3])<<8 | int(w[4])
		if len(w) < 5+n {
			return recs, false
		}
		recs = append(recs, w[:5+n])
		w = w[5+n:]
	}
	return recs, true
}

// ------------------------------------------------------------- fragmentation
func plaintexts(p params, calls []call, wire []byte) [][]byte {
	var out [][]byte
	if p.Kind == "null" {
		recs, _ := splitRecords(wire)
		for _, r := range recs {
			out = append(out, r[5:])
		}
		return out
	}
	for _, cl := range calls {
		switch cl.K {
		case "mac":
			out = append(out, cl.A[13:])
		case "seal":
			if p.Vers == 0x0304 {
				out = append(out, cl.C[:len(cl.C)-1])
			} else {
				out = append(out, cl.C)
			}
		}
	}
	return out
}

func writerConn(p params, in input, log *spyLog, rnd io.Reader) (*tls.Conn, *captureConn) {
	cc := &captureConn{}
	ciph, mac := p.primitives(log, false)
	cfg := &tls.Config{DynamicRecordSizingDisabled: in.DynOff, DisableTLS10BEASTMitigation: in.Beast, Rand: rnd}
	conn := tls.VerifDataConn(cc, true, uint16(p.Vers), nil, nil, ciph, mac, cfg)
	if p.Seq != 0 {
		panic("writerConn: sequence number must start at 0")
	}
	tls.VerifSetSent(conn, in.Bytes0, in.Pkts0)
	return conn, cc
}

// checks on any spy writer run: the fragments are the written bytes, none larger than 2^14
func oracleFragments(c *vh.Ctx, p params, in input, frs [][]byte, written []byte, wire []byte, stream string, calls []call) {
	seen := map[string]bool{}
	for _, cl := range calls {
		if cl.K == "seal" {
			if seen[string(cl.A)] {
				c.Violation("nonce-reuse", fmt.Sprintf("%s: two records were sealed with the same nonce %x", p.name(), cl.A), stream, in)
				return
			}
			seen[string(cl.A)] = true
		}
	}
	var cat []byte
	for i, f := range frs {
		if len(f) > 16384 {
			c.Violation("fragment-too-large", fmt.Sprintf("%s: record %d carries %d plaintext bytes (> 2^14)", p.name(), i, len(f)), stream, in)
			return
		}
		if len(f) == 0 {
			c.Violation("empty-fragment", fmt.Sprintf("%s: record %d carries no plaintext", p.name(), i), stream, in)
			return
		}
		cat = append(cat, f...)
	}
	if string(cat) != string(written) {
		c.Violation("fragments-not-data", fmt.Sprintf("%s: the plaintext fragments handed to the primitive (%d bytes in %d records) are not the %d bytes written", p.name(), len(cat), len(frs), len(written)), stream, in)
	}
	recs, ok := splitRecords(wire)
	if !ok || len(recs) != len(frs) {
		c.Violation("wire-framing", fmt.Sprintf("%s: the wire does not parse into %d records", p.name(), len(frs)), stream, in)
	}
}

func runFrag(c *vh.Ctx, in input) {
	p := in.P
	log := &spyLog{}
	conn, cc := writerConn(p, in, log, zeroReader{})
	var written []byte
	for _, n := range in.Lens {
		b := make([]byte, n)
		if m, err := conn.Write(b); err != nil || m != n {
			c.Violation("write-failed", fmt.Sprintf("%s: Write(%d bytes) = (%d, %v)", p.name(), n, m, err), "frag", in)
			return
		}
		written = append(written, b...)
	}
	recs, _ := splitRecords(cc.w)
	var rl []int
	for _, r := range recs {
		rl = append(rl, len(r))
	}
	bs, ps := tls.VerifSent(conn)
	nk := ""
	if len(recs) > len(in.Lens) {
		nk = fmt.Sprintf("%s|%v|%d|%d|%v%v", p.name(), in.Lens, in.Bytes0, in.Pkts0, in.DynOff, in.Beast)
	}
	c.Case("frag", vh.Pair(p.coqState(), vh.Z(in.Bytes0), vh.Z(in.Pkts0), vh.Bool(in.DynOff), vh.Bool(in.Beast), coqZs(in.Lens),
		vh.Pair(coqZs(rl), vh.Z(bs), vh.Z(ps))), in, nk)
	c.Stat("frag.records", len(recs))
	oracleFragments(c, p, in, plaintexts(p, log.calls, cc.w), written, cc.w, "frag", log.calls)
}

func fragParams() []params {
	return []params{
		{Vers: 0x0301, Kind: "cbc", BS: 16, MS: 20}, {Vers: 0x0301, Kind: "cbc", BS: 8, MS: 20}, {Vers: 0x0301, Kind: "stream", MS: 20},
		{Vers: 0x0302, Kind: "cbc", BS: 16, MS: 20}, {Vers: 0x0303, Kind: "cbc", BS: 16, MS: 32}, {Vers: 0x0303, Kind: "cbc", BS: 8, MS: 20},
		{Vers: 0x0303, Kind: "stream", MS: 20}, {Vers: 0x0303, Kind: "aead", E: 8, OVH: 16}, {Vers: 0x0303, Kind: "aead", E: 0, OVH: 16},
		{Vers: 0x0304, Kind: "aead", E: 0, OVH: 16}, {Vers: 0x0303, Kind: "null"},
	}
}

func genFrag(c *vh.Ctx) {
	big := 1
	if c.Thorough {
		big = 6
	}
	for _, p0 := range fragParams() {
		p := p0
		if p.Kind == "cbc" {
			p.IV = vh.Hex(make([]byte, p.BS))
		}
		// around the first record size, 2^14 and the boost threshold
		sets := [][]int{{0}, {1}, {2}, {1, 1, 1}, {1100, 1200, 1300}, {1150, 1151}, {5000}, {16383, 16384, 16385}, {40000}}
		for i := 0; i < big; i++ {
			sets = append(sets, []int{1 + c.Intn(3000), c.Intn(2), 1 + c.Intn(40000), 1 + c.Intn(200)})
		}
		for _, ls := range sets {
			in := input{S: "frag", P: p, Lens: ls, DynOff: c.Intn(6) == 0, Beast: c.Intn(4) == 0}
			runFrag(c, in)
		}
		for _, b0 := range []int64{131072 - 1300, 131071, 131072, 129000} {
			in := input{S: "frag", P: p, Lens: []int{1000, 3000, 20000}, Bytes0: b0, Pkts0: int64(c.Intn(4))}
			runFrag(c, in)
		}
		for _, k0 := range []int64{10, 13, 14, 999, 1000, 1001, 1002} {
			in := input{S: "frag", P: p, Lens: []int{17000, 17000}, Pkts0: k0, Bytes0: int64(c.Intn(2000))}
			runFrag(c, in)
		}
	}
	if c.Thorough {
		p := params{Vers: 0x0303, Kind: "aead", E: 8, OVH: 16}
		runFrag(c, input{S: "frag", P: p, Lens: []int{140000, 20000}})
	}
}

// ------------------------------------------------------------- wire contents
func runWire(c *vh.Ctx, in input) ([]byte, bool) {
	p := in.P
	log := &spyLog{}
	rnd := vh.UnHex(in.Rnd)
	conn, cc := writerConn(p, in, log, &fixedReader{append([]byte{}, rnd...)})
	var written []byte
	var ws [][]byte
	for _, h := range in.Writes {
		b := vh.UnHex(h)
		ws = append(ws, b)
		if m, err := conn.Write(append([]byte{}, b...)); err != nil || m != len(b) {
			c.Violation("write-failed", fmt.Sprintf("%s: Write(%d bytes) = (%d, %v)", p.name(), len(b), m, err), "wire", in)
			return nil, false
		}
		written = append(written, b...)
	}
	nk := ""
	if len(written) > 0 && p.Kind != "null" {
		nk = fmt.Sprintf("%s|%d|%d", p.name(), len(ws), len(written))
	}
	c.Case("wire", vh.Pair(p.coqWrap(), p.coqState(), vh.Z(in.Bytes0), vh.Z(in.Pkts0), vh.Bool(in.DynOff), vh.Bool(in.Beast),
		coqBytesList(ws), vh.Bytes(rnd), vh.Pair(vh.Bytes(cc.w), coqCalls(log.calls))), in, nk)
	oracleFragments(c, p, in, plaintexts(p, log.calls, cc.w), written, cc.w, "wire", log.calls)
	return cc.w, true
}

func wireParams() []params {
	return []params{
		{Vers: 0x0301, Kind: "cbc", BS: 16, MS: 20}, {Vers: 0x0301, Kind: "stream", MS: 20}, {Vers: 0x0302, Kind: "cbc", BS: 8, MS: 20},
		{Vers: 0x0303, Kind: "cbc", BS: 16, MS: 32}, {Vers: 0x0303, Kind: "stream", MS: 20},
		{Vers: 0x0303, Kind: "aead", Wrap: "prefix", OVH: 16}, {Vers: 0x0303, Kind: "aead", Wrap: "xor", OVH: 16},
		{Vers: 0x0304, Kind: "aead", Wrap: "xor", OVH: 16}, {Vers: 0x0303, Kind: "null"},
	}
}

func randWrites(c *vh.Ctx) []string {
	var ws []string
	k := 1 + c.Intn(4)
	for i := 0; i < k; i++ {
		n := []int{0, 1, 2, 5, 16, 31, 60, 100}[c.Intn(8)]
		if c.Intn(25) == 0 {
			n = 1100 + c.Intn(300)
		}
		ws = append(ws, vh.Hex(c.Bytes(n)))
	}
	return ws
}

func wireInput(c *vh.Ctx, p0 params) input {
	p := fillParams(c, p0)
	p.Seq = 0
	p.Spos = 0
	return input{S: "wire", P: p, Writes: randWrites(c), Rnd: vh.Hex(c.Bytes(16 * 8)), Beast: c.Intn(4) == 0, DynOff: c.Intn(5) == 0}
}

func genWire(c *vh.Ctx) {
	reps := 3
	if c.Thorough {
		reps = 40
	}
	for _, p0 := range wireParams() {
		for r := 0; r < reps; r++ {
			runWire(c, wireInput(c, p0))
		}
	}
}

// ------------------------------------------------------------- data-phase reader
func classify(err error) int {
	if err == io.EOF {
		return 0
	}
	if err == io.ErrUnexpectedEOF {
		return 1
	}
	var rhe tls.RecordHeaderError
	if errors.As(err, &rhe) {
		return 2
	}
	var op *net.OpError
	if errors.As(err, &op) {
		if a, ok := op.Err.(tls.Alert); ok {
			if op.Op == "local error" {
				return 1000 + int(a)
			}
			if op.Op == "remote error" {
				return 2000 + int(a)
			}
		}
	}
	return 3
}

func readAll(conn *tls.Conn, c *vh.Ctx) (got []byte, err error, panicked string) {
	defer func() {
		if r := recover(); r != nil {
			panicked = fmt.Sprint(r)
		}
	}()
	buf := make([]byte, 20000)
	for i := 0; i < 100000; i++ {
		k := len(buf)
		if c.Intn(3) == 0 {
			k = 1 + c.Intn(700)
		}
		n, e := conn.Read(buf[:k])
		got = append(got, buf[:n]...)
		if e != nil {
			return got, e, ""
		}
	}
	return got, errors.New("reader did not stop"), ""
}

// runRx feeds wire (in the given segmentation) to a data-phase reader.
// sent / firstBad (when >= 0) describe the oracle: the reader must deliver
// exactly sent[:firstBad] and then an error.
func runRx(c *vh.Ctx, in input, sent []byte, expectLen int) {
	if sent != nil {
		in.Sent, in.HasExp, in.ExpLen = vh.Hex(sent), true, expectLen
	} else if expectLen == -3 { // replay
		expectLen = -1
		if in.HasExp {
			sent, expectLen = vh.UnHex(in.Sent), in.ExpLen
			if sent == nil {
				sent = []byte{}
			}
		}
	}
	p := in.P
	wire := vh.UnHex(in.Wire)
	log := &spyLog{}
	ciph, mac := p.primitives(log, true)
	sc := &segConn{segs: segment(wire, in.Segs)}
	conn := tls.VerifDataConn(sc, false, uint16(p.Vers), ciph, mac, nil, nil, &tls.Config{})
	got, err, pan := readAll(conn, c)
	cls := classify(err)
	if pan != "" {
		c.Violation("read-panic", fmt.Sprintf("%s: Read panicked: %s", p.name(), pan), "rx", in)
		return
	}
	nk := ""
	if len(got) > 0 {
		nk = fmt.Sprintf("%s|%d|%d", p.name(), len(got), cls)
	}
	c.Case("rx", vh.Pair(p.coqWrap(), p.coqState(), vh.Bytes(wire), vh.Pair(vh.Bytes(got), vh.Z(int64(cls)))), in, nk)
	c.Stat("rx.end."+fmt.Sprint(cls), 1)
	if sent != nil {
		if len(got) > len(sent) || string(got) != string(sent[:len(got)]) {
			c.Violation("rx-not-prefix", fmt.Sprintf("%s: the reader delivered %d bytes that are not a prefix of the %d bytes sent", p.name(), len(got), len(sent)), "rx", in)
		} else if expectLen >= 0 && len(got) != expectLen {
			c.Violation("rx-wrong-amount", fmt.Sprintf("%s: the reader delivered %d bytes, the intact prefix of the wire carries %d (end class %d)", p.name(), len(got), expectLen, cls), "rx", in)
		}
		if err == nil {
			c.Violation("rx-no-error", p.name()+": reader finished without an error", "rx", in)
		}
	}
}

type fault struct {
	name     string
	wire     []byte
	intact   int // number of leading genuine records still in place
	tampered bool
}

// faults at record granularity over a wire of genuine records
func makeFaults(c *vh.Ctx, recs [][]byte) []fault {
	join := func(rs [][]byte) []byte {
		var o []byte
		for _, r := range rs {
			o = append(o, r...)
		}
		return o
	}
	cl := func() [][]byte {
		o := make([][]byte, len(recs))
		for i, r := range recs {
			o[i] = append([]byte{}, r...)
		}
		return o
	}
	out := []fault{{"none", join(recs), len(recs), false}}
	if len(recs) == 0 {
		return out
	}
	k := c.Intn(len(recs))
	{ // flip one bit of one byte of record k
		rs := cl()
		rs[k][c.Intn(len(rs[k]))] ^= byte(1 << uint(c.Intn(8)))
		out = append(out, fault{"flip", join(rs), k, true})
	}
	{ // drop record k
		rs := cl()
		rs = append(rs[:k], rs[k+1:]...)
		out = append(out, fault{"drop", join(rs), k, true})
	}
	{ // duplicate record k
		rs := cl()
		rs = append(rs[:k+1], append([][]byte{append([]byte{}, recs[k]...)}, rs[k+1:]...)...)
		out = append(out, fault{"dup", join(rs), k + 1, true})
	}
	if len(recs) > 1 { // swap two adjacent records
		j := c.Intn(len(recs) - 1)
		rs := cl()
		rs[j], rs[j+1] = rs[j+1], rs[j]
		if string(rs[j]) != string(rs[j+1]) {
			out = append(out, fault{"swap", join(rs), j, true})
		}
		// replay an earlier record later
		rs = cl()
		rs = append(rs, append([]byte{}, recs[j]...))
		out = append(out, fault{"replay", join(rs), len(recs), true})
	}
	{ // cut the wire inside record k
		w := join(recs[:k])
		cut := 1 + c.Intn(len(recs[k])-1)
		w = append(w, recs[k][:cut]...)
		out = append(out, fault{"truncate", w, k, true})
	}
	return out
}

func genRx(c *vh.Ctx) {
	reps := 2
	if c.Thorough {
		reps = 25
	}
	for _, p0 := range wireParams() {
		for r := 0; r < reps; r++ {
			win := wireInput(c, p0)
			win.S = "rxsrc"
			p := win.P
			// produce the genuine wire with a spy writer (not emitted as a case here)
			log := &spyLog{}
			conn, cc := writerConn(p, win, log, &fixedReader{vh.UnHex(win.Rnd)})
			var sent []byte
			for _, h := range win.Writes {
				b := vh.UnHex(h)
				conn.Write(append([]byte{}, b...))
				sent = append(sent, b...)
			}
			frs := plaintexts(p, log.calls, cc.w)
			recs, _ := splitRecords(cc.w)
			if len(recs) != len(frs) {
				continue
			}
			for _, f := range makeFaults(c, recs) {
				var cuts []int
				for i := c.Intn(6); i > 0; i-- {
					cuts = append(cuts, 1+c.Intn(len(f.wire)/2+2))
				}
				if c.Intn(4) == 0 {
					cuts = nil
					for i := 0; i < len(f.wire); i++ {
						cuts = append(cuts, 1)
					}
				}
				in := input{S: "rx", P: p, Wire: vh.Hex(f.wire), Segs: cuts}
				exp := 0
				for i := 0; i < f.intact && i < len(frs); i++ {
					exp += len(frs[i])
				}
				if p.Kind == "null" {
					// no protection: nothing to expect from tampering (application data is refused anyway)
					runRx(c, in, nil, -1)
					continue
				}
				runRx(c, in, sent, exp)
				c.Stat("rx.fault."+f.name, 1)
			}
		}
	}
	// records the writer never produces: alerts, empty records, change_cipher_spec
	for _, p0 := range wireParams() {
		p := fillParams(c, p0)
		p.Seq, p.Spos = 0, 0
		o := craftOpt{padByte: -1}
		mk := func(seq uint64, typ byte, payload []byte) []byte {
			q := p
			q.Seq = seq
			o.explicit = c.Bytes(max(p.effE(), p.BS))[:max(p.effE(), map2(p.Kind == "cbc", p.BS, 0))]
			return craft(q, typ, payload, o)
		}
		if p.Kind == "stream" || (p.Kind == "cbc" && p.Vers < 0x0302) {
			continue // the toy key stream / chained IV position depends on earlier records; covered above
		}
		var seqs [][]byte
		seqs = append(seqs, append(append(mk(0, 23, []byte("ab")), mk(1, 21, []byte{1, 0})...), mk(2, 23, []byte("never"))...))   // close_notify
		seqs = append(seqs, append(append(mk(0, 23, []byte("ab")), mk(1, 21, []byte{1, 90})...), mk(2, 23, []byte("after"))...))  // warning alert ignored (<= 1.2)
		seqs = append(seqs, append(mk(0, 21, []byte{2, 40}), mk(1, 23, []byte("x"))...))                                           // fatal alert
		seqs = append(seqs, append(mk(0, 21, []byte{3, 40}), mk(1, 23, []byte("x"))...))                                           // bad level
		seqs = append(seqs, append(mk(0, 21, []byte{1}), mk(1, 23, []byte("x"))...))                                               // short alert
		seqs = append(seqs, append(mk(0, 23, nil), mk(1, 23, []byte("after-empty"))...))                                           // empty record ignored
		seqs = append(seqs, append(mk(0, 20, []byte{1}), mk(1, 23, []byte("x"))...))                                               // change_cipher_spec in the data phase
		seqs = append(seqs, mk(0, 24, []byte("hb")))                                                                               // unknown type
		var many []byte
		for i := 0; i < 18; i++ {
			many = append(many, mk(uint64(i), 23, nil)...)
		}
		seqs = append(seqs, append(many, mk(18, 23, []byte("late"))...)) // more than maxUselessRecords empty records
		if p.Vers == 0x0304 {
			ccs := []byte{20, 3, 3, 0, 1, 1}
			seqs = append(seqs, append(append(mk(0, 23, []byte("a")), ccs...), mk(1, 23, []byte("b"))...)) // plaintext CCS is skipped in TLS 1.3
			seqs = append(seqs, append([]byte{20, 3, 3, 0, 2, 1, 1}, mk(0, 23, []byte("b"))...))
		}
		// oversized and wrong-version headers
		seqs = append(seqs, append([]byte{23, byte(wireVers(p.Vers) >> 8), byte(wireVers(p.Vers)), 0x48, 0x01}, make([]byte, 40)...))
		seqs = append(seqs, append([]byte{23, byte(wireVers(p.Vers) >> 8), byte(wireVers(p.Vers)), 0x41, 0x01}, make([]byte, 40)...))
		seqs = append(seqs, append([]byte{23, 3, 0, 0, 4}, make([]byte, 4)...))
		for _, w := range seqs {
			runRx(c, input{S: "rx", P: p, Wire: vh.Hex(w), Segs: []int{c.Intn(9), c.Intn(30)}}, nil, -1)
		}
	}
}

// ------------------------------------------------------------- driver
func gen(c *vh.Ctx) {
	genPad(c)
	genEnc(c)
	genDec(c)
	genFrag(c)
	genWire(c)
	genRx(c)
	genReal(c)
}

func replay(c *vh.Ctx, raw json.RawMessage) {
	var in input
	if err := json.Unmarshal(raw, &in); err != nil {
		panic(err)
	}
	switch in.S {
	case "pad":
		runPad(c, vh.UnHex(in.Payload), true)
	case "xpad":
		h := xpadHash(c, in.L)
		c.Case("xpad", vh.Pair(vh.Nat(in.L), vh.N(h)), in, "")
	case "enc":
		runEnc(c, in)
	case "dec":
		runDec(c, in, nil, -3)
	case "frag":
		runFrag(c, in)
	case "wire":
		runWire(c, in)
	case "rx":
		runRx(c, in, nil, -3)
	case "real":
		runReal(c, *in.Real)
	default:
		panic("unknown replay stream " + in.S)
	}
}

func main() { vh.Main("C25", gen, replay) }
