// Direct oracle on real connections: a zcrypto client and server complete a
// handshake over an in-memory duplex transport for every (version, suite)
// cell that negotiates; then one side writes (random splits), the wire is
// captured, optionally damaged at record granularity, cut into transport
// segments and handed to the other side, which must deliver exactly the
// intact prefix of the data and then an error.
package main

import (
	"crypto/ecdsa"
	"crypto/elliptic"
	"crypto/rand"
	"crypto/rsa"
	stdx509 "crypto/x509"
	"crypto/x509/pkix"
	"encoding/pem"
	"fmt"
	"io"
	"math/big"
	"net"
	"strings"
	"sync"
	"time"

	"github.com/zmap/zcrypto/tls"
	"verifharness/vh"
)

// ---- in-memory duplex transport ---------------------------------------------
type memPipe struct {
	mu     sync.Mutex
	cond   *sync.Cond
	segs   [][]byte
	closed bool
}

func newMemPipe() *memPipe { p := &memPipe{}; p.cond = sync.NewCond(&p.mu); return p }
func (p *memPipe) write(b []byte) (int, error) {
	p.mu.Lock()
	defer p.mu.Unlock()
	if p.closed {
		return 0, io.ErrClosedPipe
	}
	p.segs = append(p.segs, append([]byte{}, b...))
	p.cond.Broadcast()
	return len(b), nil
}
func (p *memPipe) read(b []byte) (int, error) {
	p.mu.Lock()
	defer p.mu.Unlock()
	for {
		for len(p.segs) > 0 && len(p.segs[0]) == 0 {
			p.segs = p.segs[1:]
		}
		if len(p.segs) > 0 {
			n := copy(b, p.segs[0])
			p.segs[0] = p.segs[0][n:]
			return n, nil
		}
		if p.closed {
			return 0, io.EOF
		}
		p.cond.Wait()
	}
}
func (p *memPipe) close() {
	p.mu.Lock()
	p.closed = true
	p.cond.Broadcast()
	p.mu.Unlock()
}
func (p *memPipe) takeAll() []byte {
	p.mu.Lock()
	defer p.mu.Unlock()
	var o []byte
	for _, s := range p.segs {
		o = append(o, s...)
	}
	p.segs = nil
	return o
}

type memConn struct{ r, w *memPipe }

func (c *memConn) Read(b []byte) (int, error)         { return c.r.read(b) }
func (c *memConn) Write(b []byte) (int, error)        { return c.w.write(b) }
func (c *memConn) Close() error                       { c.w.close(); c.r.close(); return nil }
func (c *memConn) LocalAddr() net.Addr                { return fakeAddr{} }
func (c *memConn) RemoteAddr() net.Addr               { return fakeAddr{} }
func (c *memConn) SetDeadline(t time.Time) error      { return nil }
func (c *memConn) SetReadDeadline(t time.Time) error  { return nil }
func (c *memConn) SetWriteDeadline(t time.Time) error { return nil }

// ---- certificates -------------------------------------------------------------
var certOnce sync.Once
var certRSA, certECDSA tls.Certificate

func mkCert(pub, priv interface{}) tls.Certificate {
	tmpl := &stdx509.Certificate{SerialNumber: big.NewInt(1), Subject: pkix.Name{CommonName: "verif.test"},
		NotBefore: time.Now().Add(-time.Hour), NotAfter: time.Now().Add(24 * time.Hour),
		KeyUsage: stdx509.KeyUsageDigitalSignature | stdx509.KeyUsageKeyEncipherment, DNSNames: []string{"verif.test"},
		ExtKeyUsage: []stdx509.ExtKeyUsage{stdx509.ExtKeyUsageServerAuth}, BasicConstraintsValid: true}
	der, err := stdx509.CreateCertificate(rand.Reader, tmpl, tmpl, pub, priv)
	if err != nil {
		panic(err)
	}
	// let zcrypto parse the key into its own key types (zcrypto/rsa for RSA)
	var keyPEM []byte
	switch k := priv.(type) {
	case *rsa.PrivateKey:
		keyPEM = pem.EncodeToMemory(&pem.Block{Type: "RSA PRIVATE KEY", Bytes: stdx509.MarshalPKCS1PrivateKey(k)})
	case *ecdsa.PrivateKey:
		b, err := stdx509.MarshalECPrivateKey(k)
		if err != nil {
			panic(err)
		}
		keyPEM = pem.EncodeToMemory(&pem.Block{Type: "EC PRIVATE KEY", Bytes: b})
	}
	cert, err := tls.X509KeyPair(pem.EncodeToMemory(&pem.Block{Type: "CERTIFICATE", Bytes: der}), keyPEM)
	if err != nil {
		panic(err)
	}
	return cert
}
func certs() {
	certOnce.Do(func() {
		rk, err := rsa.GenerateKey(rand.Reader, 2048)
		if err != nil {
			panic(err)
		}
		certRSA = mkCert(&rk.PublicKey, rk)
		ek, err := ecdsa.GenerateKey(elliptic.P256(), rand.Reader)
		if err != nil {
			panic(err)
		}
		certECDSA = mkCert(&ek.PublicKey, ek)
	})
}

// ---- one scenario ---------------------------------------------------------------
type realFault struct {
	Kind string `json:"kind"` // none flip drop dup swap replay truncate insert
	K    int    `json:"k"`    // record index (per mille of the record count, resolved at run time)
	Off  int    `json:"off"`  // byte offset (per mille of the record length)
	Bit  int    `json:"bit"`
}
type realIn struct {
	Vers     uint16    `json:"vers"`
	Suite    uint16    `json:"suite"`
	S2C      bool      `json:"s2c"`
	DynOff   bool      `json:"dynoff"`
	DataSeed uint64    `json:"dataseed"`
	Lens     []int     `json:"lens"`
	Fault    realFault `json:"fault"`
	Segs     []int     `json:"segs"`
}

func (r realIn) cell() string {
	return fmt.Sprintf("%04x/%s", r.Vers, tls.CipherSuiteName(r.Suite))
}

func prng(seed uint64, n int) []byte {
	o := make([]byte, n)
	x := seed*0x9E3779B97F4A7C15 + 1
	for i := range o {
		x ^= x << 13
		x ^= x >> 7
		x ^= x << 17
		o[i] = byte(x >> 24)
	}
	return o
}

// handshake returns a connected pair, or ok=false if the cell does not negotiate
func handshake(r realIn) (cli, srv *tls.Conn, c2s, s2c *memPipe, ok bool, why string) {
	certs()
	c2s, s2c = newMemPipe(), newMemPipe()
	cc := &memConn{r: s2c, w: c2s}
	sc := &memConn{r: c2s, w: s2c}
	name := tls.CipherSuiteName(r.Suite)
	cert := certRSA
	if strings.Contains(name, "ECDSA") {
		cert = certECDSA
	}
	scfg := &tls.Config{Certificates: []tls.Certificate{cert}, MinVersion: r.Vers, MaxVersion: r.Vers,
		SessionTicketsDisabled: true, DynamicRecordSizingDisabled: r.DynOff}
	ccfg := &tls.Config{InsecureSkipVerify: true, ServerName: "verif.test", MinVersion: r.Vers, MaxVersion: r.Vers,
		DynamicRecordSizingDisabled: r.DynOff}
	ccfg.CipherSuites = []uint16{r.Suite} // for TLS 1.3 the client's list decides
	if r.Vers != tls.VersionTLS13 {
		scfg.CipherSuites = []uint16{r.Suite}
	}
	cli = tls.Client(cc, ccfg)
	srv = tls.Server(sc, scfg)
	errs := make(chan error, 2)
	go func() { errs <- cli.Handshake() }()
	go func() { errs <- srv.Handshake() }()
	for i := 0; i < 2; i++ {
		select {
		case err := <-errs:
			if err != nil {
				cc.Close()
				sc.Close()
				return nil, nil, nil, nil, false, err.Error()
			}
		case <-time.After(20 * time.Second):
			cc.Close()
			sc.Close()
			return nil, nil, nil, nil, false, "handshake timeout"
		}
	}
	st := cli.ConnectionState()
	if st.Version != r.Vers || (r.Vers != tls.VersionTLS13 && st.CipherSuite != r.Suite) {
		return nil, nil, nil, nil, false, "negotiated something else"
	}
	if r.Vers == tls.VersionTLS13 && st.CipherSuite != r.Suite {
		return nil, nil, nil, nil, false, "tls13 suite not selected"
	}
	return cli, srv, c2s, s2c, true, ""
}

// upper bound of (wire body length - plaintext length) per record for a cell
func maxOverhead(vers uint16, name string) int {
	switch {
	case vers == tls.VersionTLS13:
		return 17
	case strings.Contains(name, "CHACHA20"):
		return 16
	case strings.Contains(name, "GCM"):
		return 24
	case strings.Contains(name, "RC4"):
		return 20
	}
	bs, ms := 16, 20
	if strings.Contains(name, "3DES") {
		bs = 8
	}
	if strings.HasSuffix(name, "SHA256") {
		ms = 32
	}
	if strings.HasSuffix(name, "SHA384") {
		ms = 48
	}
	e := 0
	if vers >= tls.VersionTLS11 {
		e = bs
	}
	return e + ms + bs
}

func runReal(c *vh.Ctx, r realIn) (negotiated bool) {
	in := input{S: "real", Real: &r}
	cli, srv, c2s, s2c, ok, why := handshake(r)
	if !ok {
		c.Stat("real.cell-not-negotiated", 1)
		_ = why
		return false
	}
	sender, receiver, pipe := cli, srv, c2s
	if r.S2C {
		sender, receiver, pipe = srv, cli, s2c
	}
	leftover := pipe.takeAll() // anything of the handshake the receiver has not consumed yet
	total := 0
	for _, n := range r.Lens {
		total += n
	}
	data := prng(r.DataSeed, total)
	// write, keeping the record boundaries of every Write
	var recs [][]byte
	var ptlen []int // plaintext bytes per record, -1 if unknown
	known := true
	off := 0
	name := tls.CipherSuiteName(r.Suite)
	for _, n := range r.Lens {
		m, err := sender.Write(data[off : off+n])
		if err != nil || m != n {
			c.Violation("real-write-failed", fmt.Sprintf("%s: Write(%d) = (%d, %v)", r.cell(), n, m, err), "real", in)
			return true
		}
		off += n
		w := pipe.takeAll()
		rs, okp := splitRecords(w)
		if !okp {
			c.Violation("real-wire-framing", fmt.Sprintf("%s: a Write of %d bytes left a wire that does not parse into records", r.cell(), n), "real", in)
			return true
		}
		sum := 0
		for _, rec := range rs {
			body := len(rec) - 5
			if body > 16384+maxOverhead(r.Vers, name) {
				c.Violation("real-record-too-large", fmt.Sprintf("%s: a record body of %d bytes cannot hold <= 2^14 plaintext bytes", r.cell(), body), "real", in)
				return true
			}
			sum += body
		}
		switch {
		case n == 0 && len(rs) == 0:
		case len(rs) == 1:
			ptlen = append(ptlen, n)
		case len(rs) == 2 && r.Vers == tls.VersionTLS10 && n > 1:
			ptlen = append(ptlen, 1, n-1)
		default:
			known = false
			for range rs {
				ptlen = append(ptlen, -1)
			}
		}
		recs = append(recs, rs...)
	}
	// fault
	cl := func(b []byte) []byte { return append([]byte{}, b...) }
	wire := [][]byte{}
	for _, x := range recs {
		wire = append(wire, cl(x))
	}
	intact := len(recs)
	f := r.Fault
	k := 0
	if len(recs) > 0 {
		k = f.K * len(recs) / 1000
		if k >= len(recs) {
			k = len(recs) - 1
		}
	}
	if len(recs) == 0 {
		f.Kind = "none"
	}
	switch f.Kind {
	case "flip":
		o := f.Off * len(wire[k]) / 1000
		if o >= len(wire[k]) {
			o = len(wire[k]) - 1
		}
		wire[k][o] ^= byte(1 << uint(f.Bit%8))
		intact = k
	case "drop":
		wire = append(wire[:k], wire[k+1:]...)
		intact = k
	case "dup":
		wire = append(wire[:k+1], append([][]byte{cl(recs[k])}, wire[k+1:]...)...)
		intact = k + 1
	case "swap":
		if k+1 < len(wire) && string(wire[k]) != string(wire[k+1]) {
			wire[k], wire[k+1] = wire[k+1], wire[k]
			intact = k
		} else {
			f.Kind = "none"
		}
	case "replay":
		wire = append(wire, cl(recs[k]))
	case "truncate":
		o := 1 + f.Off*(len(wire[k])-1)/1000
		if o >= len(wire[k]) {
			o = len(wire[k]) - 1
		}
		wire = append(wire[:k], wire[k][:o])
		intact = k
	case "insert":
		g := cl(recs[k])
		for i := 5; i < len(g); i++ {
			g[i] ^= byte(0x5a + i)
		}
		wire = append(wire[:k], append([][]byte{g}, wire[k:]...)...)
		intact = k
	}
	var flat []byte
	flat = append(flat, leftover...)
	for _, x := range wire {
		flat = append(flat, x...)
	}
	// hand the wire to the receiver in segments, then close the transport
	for _, s := range segment(flat, r.Segs) {
		pipe.write(s)
	}
	pipe.close()
	done := make(chan struct{})
	var got []byte
	var rerr error
	var pan string
	go func() {
		got, rerr, pan = readAll(receiver, c)
		close(done)
	}()
	select {
	case <-done:
	case <-time.After(30 * time.Second):
		c.Violation("real-read-hang", r.cell()+": Read does not return although the transport is closed", "real", in)
		return true
	}
	c.Eval(fmt.Sprintf("%s|%v|%s|%d", r.cell(), r.S2C, f.Kind, len(recs)))
	c.Stat("real.fault."+f.Kind, 1)
	c.Stat("real.records", len(recs))
	if pan != "" {
		c.Violation("real-read-panic", r.cell()+": Read panicked: "+pan, "real", in)
		return true
	}
	if len(got) > len(data) || string(got) != string(data[:len(got)]) {
		c.Violation("real-not-prefix", fmt.Sprintf("%s (%s, fault %s at record %d of %d): the reader delivered %d bytes that are not a prefix of the %d bytes written",
			r.cell(), dir(r), f.Kind, k, len(recs), len(got), len(data)), "real", in)
		return true
	}
	if rerr == nil {
		c.Violation("real-no-error", r.cell()+": reader stopped without an error", "real", in)
		return true
	}
	if f.Kind == "none" {
		if len(got) != len(data) {
			c.Violation("real-data-lost", fmt.Sprintf("%s (%s): %d of %d bytes arrived on an undamaged wire (error %v)", r.cell(), dir(r), len(got), len(data), rerr), "real", in)
		}
		return true
	}
	if known {
		exp := 0
		for i := 0; i < intact && i < len(ptlen); i++ {
			exp += ptlen[i]
		}
		if len(got) != exp {
			c.Violation("real-tamper-"+f.Kind, fmt.Sprintf("%s (%s, fault %s at record %d of %d): the reader delivered %d bytes, the intact prefix of the wire carries %d (error %v)",
				r.cell(), dir(r), f.Kind, k, len(recs), len(got), exp, rerr), "real", in)
		}
	} else if f.Kind != "replay" && len(got) == len(data) && intact < len(recs) {
		c.Violation("real-tamper-"+f.Kind, fmt.Sprintf("%s (%s, fault %s at record %d of %d): all data was delivered although the wire was damaged", r.cell(), dir(r), f.Kind, k, len(recs)), "real", in)
	}
	return true
}

func dir(r realIn) string {
	if r.S2C {
		return "server->client"
	}
	return "client->server"
}

func genReal(c *vh.Ctx) {
	var ids []uint16
	for _, s := range tls.CipherSuites() {
		ids = append(ids, s.ID)
	}
	for _, s := range tls.InsecureCipherSuites() {
		ids = append(ids, s.ID)
	}
	faults := []string{"flip", "drop", "dup", "swap", "replay", "truncate", "insert"}
	cells := 0
	for _, v := range []uint16{tls.VersionTLS10, tls.VersionTLS11, tls.VersionTLS12, tls.VersionTLS13} {
		for _, id := range ids {
			is13 := id == tls.TLS_AES_128_GCM_SHA256 || id == tls.TLS_AES_256_GCM_SHA384 || id == tls.TLS_CHACHA20_POLY1305_SHA256
			if is13 != (v == tls.VersionTLS13) {
				continue
			}
			// clean transfer with large and small writes, both directions
			lens := []int{1 + c.Intn(2000), 0, 1, 1 + c.Intn(40000), 1 + c.Intn(300)}
			r := realIn{Vers: v, Suite: id, S2C: c.Bool(), DynOff: c.Intn(4) == 0, DataSeed: c.U64(), Lens: lens,
				Fault: realFault{Kind: "none"}, Segs: randCuts(c)}
			if !runReal(c, r) {
				continue
			}
			cells++
			nf := 4
			if c.Thorough {
				nf = 40
			}
			for i := 0; i < nf; i++ {
				var ls []int
				for j := 1 + c.Intn(4); j > 0; j-- {
					ls = append(ls, 1+c.Intn(900))
				}
				fk := faults[c.Intn(len(faults))]
				if i < len(faults) && c.Thorough {
					fk = faults[i]
				}
				r := realIn{Vers: v, Suite: id, S2C: c.Bool(), DynOff: c.Intn(4) == 0, DataSeed: c.U64(), Lens: ls,
					Fault: realFault{Kind: fk, K: c.Intn(1000), Off: c.Intn(1000), Bit: c.Intn(8)}, Segs: randCuts(c)}
				runReal(c, r)
			}
		}
	}
	c.Stat("real.cells", cells)
	c.Note(fmt.Sprintf("real connections: %d (version, suite) cells negotiated", cells))
	if cells < 20 {
		c.Violation("real-cells-missing", fmt.Sprintf("only %d (version, suite) cells negotiate; the oracle expects at least 20 on this tree", cells), "real",
			input{S: "real", Real: &realIn{Vers: tls.VersionTLS12, Suite: tls.TLS_ECDHE_RSA_WITH_AES_128_GCM_SHA256, Lens: []int{10}, Fault: realFault{Kind: "none"}}})
	}
}

func randCuts(c *vh.Ctx) []int {
	var cuts []int
	switch c.Intn(4) {
	case 0:
		return nil
	case 1:
		for i := 0; i < 3000; i++ {
			cuts = append(cuts, 1+c.Intn(3))
		}
	default:
		for i := c.Intn(12); i > 0; i-- {
			cuts = append(cuts, 1+c.Intn(2000))
		}
	}
	return cuts
}
