// C22 harness: distinguished names <-> RDN sequences <-> DER.
// Streams (Coq case types in coq/model/C22.v):
//
//	tordn  Name.ToRDNSequence on generated names
//	fillc  Name.FillFromRDNSequence on generated sequences (string and non-string values, nil argument,
//	       pre-populated receiver) and ToRDNSequence afterwards
//	enc    asn1.Marshal(pkix.RDNSequence)
//	dec    asn1.Unmarshal(bytes, *pkix.RDNSequence) on encoder output, hand-built DER and mutations
//	rt     the whole trip name -> sequence -> DER -> sequence -> fresh name
//
// The oracle restates the property on the implementation alone: per-field
// multiset equality after the trip (list equality when the attribute
// encodings are already in DER SET OF order), ToRDNSequence(Fill(s)) = s, a
// reference table-driven Fill, and the Go standard library's encoding/asn1 +
// crypto/x509/pkix as a differential for the DER step.
package main

import (
	"bytes"
	stdasn1 "encoding/asn1"
	"encoding/hex"
	"encoding/json"
	"fmt"
	"reflect"
	"sort"
	"strings"
	"unicode/utf8"

	stdpkix "crypto/x509/pkix"

	"github.com/zmap/zcrypto/encoding/asn1"
	"github.com/zmap/zcrypto/x509/pkix"
	"verifharness/vh"
)

// ---- the 17 list fields in the order of the Coq record ----
type fieldInfo struct {
	goName  string
	oid     []int
	emitted bool // ToRDNSequence writes it
}

var fields = []fieldInfo{
	{"Country", []int{2, 5, 4, 6}, true},
	{"Organization", []int{2, 5, 4, 10}, true},
	{"OrganizationalUnit", []int{2, 5, 4, 11}, true},
	{"Locality", []int{2, 5, 4, 7}, true},
	{"Province", []int{2, 5, 4, 8}, true},
	{"StreetAddress", []int{2, 5, 4, 9}, true},
	{"PostalCode", []int{2, 5, 4, 17}, true},
	{"DomainComponent", []int{0, 9, 2342, 19200300, 100, 1, 25}, true},
	{"EmailAddress", []int{1, 2, 840, 113549, 1, 9, 1}, true},
	{"SerialNumbers", []int{2, 5, 4, 5}, false},
	{"CommonNames", []int{2, 5, 4, 3}, false},
	{"GivenName", []int{2, 5, 4, 42}, false},
	{"Surname", []int{2, 5, 4, 4}, false},
	{"OrganizationIDs", []int{2, 5, 4, 97}, true},
	{"JurisdictionLocality", []int{1, 3, 6, 1, 4, 1, 311, 60, 2, 1, 1}, true},
	{"JurisdictionProvince", []int{1, 3, 6, 1, 4, 1, 311, 60, 2, 1, 2}, true},
	{"JurisdictionCountry", []int{1, 3, 6, 1, 4, 1, 311, 60, 2, 1, 3}, true},
}

const nFields = 17
const idxSerialNumbers, idxCommonNames = 9, 10

// ---- replayable inputs (strings are hex so that any byte sequence survives JSON) ----
type AV struct {
	Oid  []int  `json:"oid"`
	Kind string `json:"kind"` // str | raw | int | nil | bytes
	S    string `json:"s,omitempty"`
	Cls  int    `json:"cls,omitempty"`
	Tag  int    `json:"tag,omitempty"`
	Comp bool   `json:"comp,omitempty"`
}
type NameIn struct {
	Lists [nFields][]string `json:"lists"`
	SN    string            `json:"sn"`
	CN    string            `json:"cn"`
	Names []AV              `json:"names,omitempty"`
	Extra []AV              `json:"extra,omitempty"`
	Orig  *[][]AV           `json:"orig,omitempty"`
}
type Input struct {
	Kind  string  `json:"kind"` // tordn | fill | enc | dec | rt
	Name  *NameIn `json:"name,omitempty"`
	Seq   *[][]AV `json:"seq,omitempty"`
	Bytes string  `json:"bytes,omitempty"`
	Note  string  `json:"note,omitempty"`
	Diff  bool    `json:"diff,omitempty"` // dec: also compare with the standard library decoder
}

func hx(s string) string   { return hex.EncodeToString([]byte(s)) }
func unhx(s string) string { return string(vh.UnHex(s)) }

func (a AV) value() interface{} {
	switch a.Kind {
	case "str":
		return unhx(a.S)
	case "raw":
		return asn1.RawValue{Class: a.Cls, Tag: a.Tag, IsCompound: a.Comp, Bytes: vh.UnHex(a.S)}
	case "int":
		return int64(5)
	case "bytes":
		return vh.UnHex(a.S)
	}
	return nil
}
func toATV(a AV) pkix.AttributeTypeAndValue {
	return pkix.AttributeTypeAndValue{Type: asn1.ObjectIdentifier(append([]int{}, a.Oid...)), Value: a.value()}
}
func toSeq(s [][]AV) pkix.RDNSequence {
	out := make(pkix.RDNSequence, len(s)) // non-nil even when empty
	for i, r := range s {
		set := make(pkix.RelativeDistinguishedNameSET, len(r))
		for j, a := range r {
			set[j] = toATV(a)
		}
		out[i] = set
	}
	return out
}
func toName(in *NameIn) pkix.Name {
	var n pkix.Name
	rv := reflect.ValueOf(&n).Elem()
	for i, f := range fields {
		if in.Lists[i] != nil {
			l := make([]string, len(in.Lists[i]))
			for j, s := range in.Lists[i] {
				l[j] = unhx(s)
			}
			rv.FieldByName(f.goName).Set(reflect.ValueOf(l))
		}
	}
	n.SerialNumber, n.CommonName = unhx(in.SN), unhx(in.CN)
	for _, a := range in.Names {
		n.Names = append(n.Names, toATV(a))
	}
	for _, a := range in.Extra {
		n.ExtraNames = append(n.ExtraNames, toATV(a))
	}
	if in.Orig != nil {
		n.OriginalRDNS = toSeq(*in.Orig)
	}
	return n
}

// ---- Coq printers ----
func coqOid(o []int) string {
	if len(o) == 0 {
		return "(@nil N)"
	}
	xs := make([]string, len(o))
	for i, a := range o {
		xs[i] = fmt.Sprint(a)
	}
	return "[" + strings.Join(xs, ";") + "]%N"
}

const placeholder = "(VOther 0%N false 0%N (@nil N))"

// exact: print raw values with their identifier and content (marshalling); otherwise every
// non-string is the opaque placeholder
func coqValue(v interface{}, exact bool) string {
	switch x := v.(type) {
	case string:
		return vh.App("VStr", vh.Str(x))
	case asn1.RawValue:
		if exact {
			return vh.App("VOther", vh.NI(x.Class), vh.Bool(x.IsCompound), vh.NI(x.Tag), vh.Bytes(x.Bytes))
		}
	}
	return placeholder
}
func coqATV(a pkix.AttributeTypeAndValue, exact bool) string {
	return vh.Pair(coqOid(a.Type), coqValue(a.Value, exact))
}
func coqATVs(l []pkix.AttributeTypeAndValue, exact bool) string {
	xs := make([]string, len(l))
	for i, a := range l {
		xs[i] = coqATV(a, exact)
	}
	return vh.List0(xs, "atv")
}
func coqSeq(s pkix.RDNSequence, exact bool) string {
	xs := make([]string, len(s))
	for i, r := range s {
		xs[i] = coqATVs(r, exact)
	}
	return vh.List0(xs, "rdn")
}
func coqStrs(l []string) string {
	xs := make([]string, len(l))
	for i, s := range l {
		xs[i] = vh.Str(s)
	}
	return vh.List0(xs, "bytes")
}
func listField(n *pkix.Name, i int) []string {
	return reflect.ValueOf(n).Elem().FieldByName(fields[i].goName).Interface().([]string)
}
func coqName(n *pkix.Name) string {
	args := []string{}
	for i := 0; i < 9; i++ {
		args = append(args, coqStrs(listField(n, i)))
	}
	args = append(args, vh.Str(n.SerialNumber), vh.Str(n.CommonName))
	for i := 9; i < nFields; i++ {
		args = append(args, coqStrs(listField(n, i)))
	}
	args = append(args, coqATVs(n.Names, false), coqATVs(n.ExtraNames, false))
	if n.OriginalRDNS == nil {
		args = append(args, "None")
	} else {
		args = append(args, vh.Some(coqSeq(n.OriginalRDNS, false)))
	}
	return vh.App("mkName", args...)
}

// ---- projections used by the oracle ----
func oidEq(a, b []int) bool {
	if len(a) != len(b) {
		return false
	}
	for i := range a {
		if a[i] != b[i] {
			return false
		}
	}
	return true
}
func seqEqual(a, b pkix.RDNSequence) bool {
	if len(a) != len(b) {
		return false
	}
	for i := range a {
		if len(a[i]) != len(b[i]) {
			return false
		}
		for j := range a[i] {
			if !oidEq(a[i][j].Type, b[i][j].Type) || !reflect.DeepEqual(a[i][j].Value, b[i][j].Value) {
				return false
			}
		}
	}
	return true
}
func sorted(l []string) []string {
	o := append([]string{}, l...)
	sort.Strings(o)
	return o
}
func strsEq(a, b []string) bool {
	if len(a) != len(b) {
		return false
	}
	for i := range a {
		if a[i] != b[i] {
			return false
		}
	}
	return true
}

// string values of attribute type oid in sequence order (the reference reading of Fill)
func valsOf(oid []int, s pkix.RDNSequence) []string {
	var o []string
	for _, r := range s {
		for _, a := range r {
			if v, ok := a.Value.(string); ok && oidEq(a.Type, oid) {
				o = append(o, v)
			}
		}
	}
	return o
}

// ---- standard library mirror (differential oracle for the DER step) ----
func stdValue(v interface{}) interface{} {
	if r, ok := v.(asn1.RawValue); ok {
		return stdasn1.RawValue{Class: r.Class, Tag: r.Tag, IsCompound: r.IsCompound, Bytes: r.Bytes}
	}
	return v
}
func stdSeq(s pkix.RDNSequence) stdpkix.RDNSequence {
	out := make(stdpkix.RDNSequence, len(s))
	for i, r := range s {
		set := make(stdpkix.RelativeDistinguishedNameSET, len(r))
		for j, a := range r {
			set[j] = stdpkix.AttributeTypeAndValue{Type: stdasn1.ObjectIdentifier(a.Type), Value: stdValue(a.Value)}
		}
		out[i] = set
	}
	return out
}

// ---- the streams ----
func runToRDN(c *vh.Ctx, in Input) {
	c.Stat("kind.tordn", 1)
	n := toName(in.Name)
	got := n.ToRDNSequence()
	nk := ""
	if len(got) > 0 {
		nk = coqSeq(got, false)
	}
	c.Case("case", vh.App("CTordn", vh.Pair(coqName(&n), coqSeq(got, false))), in, nk)
	if n.OriginalRDNS != nil && !seqEqual(got, n.OriginalRDNS) {
		c.Violation("tordn-original", "ToRDNSequence of a name with OriginalRDNS does not return it", "tordn", in)
	}
	if n.OriginalRDNS == nil {
		// reference: per emitted field, the string values of its type are the field followed by matching ExtraNames
		extra := pkix.RDNSequence{}
		for _, a := range n.ExtraNames {
			extra = append(extra, pkix.RelativeDistinguishedNameSET{a})
		}
		for i, f := range fields {
			want := []string{}
			if f.emitted {
				want = append(want, listField(&n, i)...)
			}
			if i == idxCommonNames && n.CommonName != "" {
				want = append(want, n.CommonName)
			}
			if i == idxSerialNumbers && n.SerialNumber != "" {
				want = append(want, n.SerialNumber)
			}
			want = append(want, valsOf(f.oid, extra)...)
			if !strsEq(valsOf(f.oid, got), want) {
				c.Violation("tordn-field-"+f.goName, fmt.Sprintf("ToRDNSequence carries %q for %s, fields hold %q", valsOf(f.oid, got), f.goName, want), "tordn", in)
				return
			}
		}
		// one RDN per non-empty field, ExtraNames as singletons at the end
		for _, r := range got {
			if len(r) == 0 {
				c.Violation("tordn-empty-rdn", "ToRDNSequence produced an empty RDN", "tordn", in)
				return
			}
			for _, a := range r {
				if !oidEq(a.Type, r[0].Type) {
					c.Violation("tordn-mixed-rdn", "ToRDNSequence produced an RDN with mixed attribute types", "tordn", in)
					return
				}
			}
		}
	}
}

func runFill(c *vh.Ctx, in Input) {
	c.Stat("kind.fill", 1)
	start := toName(in.Name)
	n := toName(in.Name)
	var seq pkix.RDNSequence // nil
	arg := "None"
	if in.Seq != nil {
		seq = toSeq(*in.Seq)
		arg = vh.Some(coqSeq(seq, false))
	}
	n.FillFromRDNSequence(&seq)
	after := n.ToRDNSequence()
	nk := ""
	if len(seq) > 0 {
		nk = arg + coqName(&start)
	}
	c.Case("case", vh.App("CFill", vh.Pair(coqName(&start), arg, coqName(&n), coqSeq(after, false))), in, nk)
	// oracle: reference reading of Fill
	for i, f := range fields {
		want := append(append([]string{}, listField(&start, i)...), valsOf(f.oid, seq)...)
		if !strsEq(listField(&n, i), want) {
			c.Violation("fill-field-"+f.goName, fmt.Sprintf("after Fill %s = %q, want %q", f.goName, listField(&n, i), want), "fillc", in)
			return
		}
	}
	wantCN, wantSN := start.CommonName, start.SerialNumber
	if v := valsOf(fields[idxCommonNames].oid, seq); len(v) > 0 {
		wantCN = v[len(v)-1]
	}
	if v := valsOf(fields[idxSerialNumbers].oid, seq); len(v) > 0 {
		wantSN = v[len(v)-1]
	}
	if n.CommonName != wantCN || n.SerialNumber != wantSN {
		c.Violation("fill-last-wins", fmt.Sprintf("after Fill CommonName=%q SerialNumber=%q, want %q %q", n.CommonName, n.SerialNumber, wantCN, wantSN), "fillc", in)
		return
	}
	wantNames := append([]pkix.AttributeTypeAndValue{}, start.Names...)
	for _, r := range seq {
		wantNames = append(wantNames, r...)
	}
	if !seqEqual(pkix.RDNSequence{n.Names}, pkix.RDNSequence{wantNames}) {
		c.Violation("fill-names", "Names is not the previous Names followed by every attribute of the sequence", "fillc", in)
		return
	}
	if in.Seq != nil && !seqEqual(after, seq) {
		c.Violation("fill-tordn", "ToRDNSequence after FillFromRDNSequence(s) is not s", "fillc", in)
	}
}

func zMarshal(s pkix.RDNSequence) ([]byte, bool) {
	b, err := asn1.Marshal(s)
	return b, err == nil
}

func runEnc(c *vh.Ctx, in Input) {
	c.Stat("kind.enc", 1)
	seq := toSeq(*in.Seq)
	b, ok := zMarshal(seq)
	nk := ""
	if ok {
		nk = vh.Hex(b)
	}
	c.Case("case", vh.App("CEnc", vh.Pair(coqSeq(seq, true), vh.OptBytes(b, ok))), in, nk)
	if ok {
		onlyStr := true
		for _, r := range seq {
			for _, a := range r {
				if _, isStr := a.Value.(string); !isStr || !validOid(a.Type) {
					onlyStr = false // (non-strings may be anything; an arc above MaxInt32 marshals but is outside the decoder's range)
				}
			}
		}
		if back, rest, dok := zUnmarshal(b); onlyStr && (!dok || len(rest) != 0) {
			c.Violation("enc-decode-own-output", fmt.Sprintf("asn1.Marshal(RDNSequence) = %x is not accepted back by asn1.Unmarshal", b), "enc", in)
			return
		} else if onlyStr && len(back) != len(seq) {
			c.Violation("enc-decode-own-output", "decoding the marshalled sequence yields a different number of RDNs", "enc", in)
			return
		}
	}
	sb, serr := stdasn1.Marshal(stdSeq(seq))
	if (serr == nil) != ok {
		c.Violation("enc-accept", fmt.Sprintf("asn1.Marshal(RDNSequence) ok=%v, standard library ok=%v", ok, serr == nil), "enc", in)
		return
	}
	if ok && !bytes.Equal(b, sb) {
		c.Violation("enc-bytes", fmt.Sprintf("asn1.Marshal(RDNSequence) = %x, standard library %x", b, sb), "enc", in)
	}
}

func zUnmarshal(b []byte) (pkix.RDNSequence, []byte, bool) {
	var s pkix.RDNSequence
	rest, err := asn1.Unmarshal(b, &s)
	return s, rest, err == nil
}

// differential: compare with the standard library's decoder (only where both are specified to agree)
func runDec(c *vh.Ctx, in Input) {
	c.Stat("kind.dec", 1)
	diff := in.Diff
	b := vh.UnHex(in.Bytes)
	s, rest, ok := zUnmarshal(b)
	obs := "None"
	nk := ""
	if ok {
		obs = vh.Some(vh.Pair(coqSeq(s, false), vh.Bytes(rest)))
		nk = in.Bytes
	}
	if len(b) <= 4000 { // longer inputs only go to the differential oracle (term size)
		c.Case("case", vh.App("CDec", vh.Pair(vh.Bytes(b), obs)), in, nk)
	} else {
		c.Eval(nk)
	}
	if ok {
		c.Stat("dec_accepted", 1)
	} else {
		c.Stat("dec_rejected", 1)
	}
	if diff {
		var ss stdpkix.RDNSequence
		srest, serr := stdasn1.Unmarshal(b, &ss)
		if (serr == nil) != ok {
			c.Violation("dec-accept", fmt.Sprintf("asn1.Unmarshal(%x) ok=%v, standard library ok=%v", b, ok, serr == nil), "dec", in)
			return
		}
		if ok {
			same := len(ss) == len(s) && bytes.Equal(rest, srest)
			for i := 0; same && i < len(s); i++ {
				same = len(s[i]) == len(ss[i])
				for j := 0; same && j < len(s[i]); j++ {
					v1, ok1 := s[i][j].Value.(string)
					v2, ok2 := ss[i][j].Value.(string)
					same = oidEq(s[i][j].Type, ss[i][j].Type) && ok1 == ok2 && v1 == v2
				}
			}
			if !same {
				c.Violation("dec-value", fmt.Sprintf("asn1.Unmarshal(%x) differs from the standard library's result", b), "dec", in)
			}
		}
	}
}

func validOid(o []int) bool {
	if len(o) < 2 || o[0] > 2 || o[0] < 0 || (o[0] < 2 && o[1] >= 40) {
		return false
	}
	for _, a := range o {
		if a < 0 || a > 0x7fffffff {
			return false
		}
	}
	return o[0]*40+o[1] <= 0x7fffffff
}

func runRT(c *vh.Ctx, in Input) {
	c.Stat("kind.rt", 1)
	n := toName(in.Name)
	seq := n.ToRDNSequence()
	der, ok := zMarshal(seq)
	// the trip must succeed exactly when every value is valid UTF-8 and every type is an encodable OID
	encodable := true
	for _, r := range seq {
		for _, a := range r {
			v, isStr := a.Value.(string)
			if !isStr || !utf8.ValidString(v) || !validOid(a.Type) {
				encodable = false
			}
		}
	}
	var m pkix.Name
	var back pkix.RDNSequence
	good := false
	if ok {
		var rest []byte
		var dok bool
		back, rest, dok = zUnmarshal(der)
		if dok && len(rest) == 0 {
			good = true
			m.FillFromRDNSequence(&back)
		}
	}
	obs := "None"
	nk := ""
	if good {
		obs = vh.Some(coqName(&m))
		nk = vh.Hex(der)
	}
	c.Case("case", vh.App("CRt", vh.Pair(coqName(&n), obs)), in, nk)
	if ok && !good && encodable { // (an OID arc above MaxInt32 marshals but is outside the decoder's range: not encodable)
		c.Violation("rt-decode-own-output", fmt.Sprintf("asn1.Marshal(ToRDNSequence()) = %x is not accepted back by asn1.Unmarshal (or leaves trailing bytes)", der), "rt", in)
		return
	}
	if encodable != good {
		c.Violation("rt-accept", fmt.Sprintf("name with encodable=%v: marshal ok=%v, unmarshal+fill ok=%v", encodable, ok, good), "rt", in)
		return
	}
	if !good {
		return
	}
	// property, part 1: every field comes back (as a multiset; in order when the attribute encodings are in SET OF order)
	extra := pkix.RDNSequence{}
	for _, a := range n.ExtraNames {
		extra = append(extra, pkix.RelativeDistinguishedNameSET{a})
	}
	for i, f := range fields {
		want := []string{}
		if f.emitted {
			want = append(want, listField(&n, i)...)
		}
		if i == idxCommonNames && n.CommonName != "" {
			want = append(want, n.CommonName)
		}
		if i == idxSerialNumbers && n.SerialNumber != "" {
			want = append(want, n.SerialNumber)
		}
		want = append(want, valsOf(f.oid, extra)...)
		got := listField(&m, i)
		if !strsEq(sorted(got), sorted(want)) {
			c.Violation("rt-field-"+f.goName, fmt.Sprintf("%s: sent %q, came back %q", f.goName, want, got), "rt", in)
			return
		}
		if f.emitted && inSetOrder(f.oid, listField(&n, i)) && !strsEq(got, want) {
			c.Violation("rt-order-"+f.goName, fmt.Sprintf("%s: values already in DER order %q came back as %q", f.goName, want, got), "rt", in)
			return
		}
	}
	wantCN, wantSN := n.CommonName, n.SerialNumber
	if v := valsOf(fields[idxCommonNames].oid, extra); len(v) > 0 {
		wantCN = v[len(v)-1]
	}
	if v := valsOf(fields[idxSerialNumbers].oid, extra); len(v) > 0 {
		wantSN = v[len(v)-1]
	}
	if m.CommonName != wantCN || m.SerialNumber != wantSN {
		c.Violation("rt-scalar", fmt.Sprintf("CommonName/SerialNumber sent %q %q, came back %q %q", wantCN, wantSN, m.CommonName, m.SerialNumber), "rt", in)
		return
	}
	// property, part 2: the filled name converts back to the parsed sequence, which re-encodes to the same bytes
	if !seqEqual(m.ToRDNSequence(), back) {
		c.Violation("rt-tordn", "ToRDNSequence(Fill(s)) is not s", "rt", in)
		return
	}
	if der2, ok2 := zMarshal(m.ToRDNSequence()); !ok2 || !bytes.Equal(der, der2) {
		c.Violation("rt-reencode", "the parsed sequence does not re-encode to the bytes it was parsed from", "rt", in)
		return
	}
	// and without OriginalRDNS the derived sequence is the first one up to SET OF order
	m2 := m
	m2.OriginalRDNS = nil
	if len(n.ExtraNames) == 0 {
		d1, _ := zMarshal(m2.ToRDNSequence())
		if !bytes.Equal(d1, der) {
			c.Violation("rt-rederive", "ToRDNSequence of the filled fields (OriginalRDNS cleared) encodes differently from the original name", "rt", in)
		}
	}
}

// inSetOrder: the attributes (oid, v) for v in vals, each marshalled alone by the standard library, ascend
func inSetOrder(oid []int, vals []string) bool {
	var prev []byte
	for i, v := range vals {
		b, err := stdasn1.Marshal(stdpkix.AttributeTypeAndValue{Type: stdasn1.ObjectIdentifier(oid), Value: v})
		if err != nil {
			return false
		}
		if i > 0 && bytes.Compare(prev, b) > 0 {
			return false
		}
		prev = b
	}
	return true
}

// ---- generators ----
var pool = []string{
	"", "US", "Acme Co", "Example Org", "a", "aa", "ab", "b", "B", "A", "0", "a b", "x=y", "it's (ok) +,-./:?",
	"Łukasz", "中", "Aleš", "са", "Ā", "中-文", "ŁA", "A Ł", "１２", "Zürich", "日本", "é", "ñandú", " ", "\U0001F600", "�", "a\x00b", "\x7f", "tab\there",
	`a,b+c"d\e<f>g;h#i`, " lead", "trail ", "#hash", "  ", ",", "+", "\"", "\\", "<", ">", ";",
	"*.example.com", "AT&T", "user@example.com", "under_score", "semi;colon", "100%", "a@", "a*",
	strings.Repeat("x", 127), strings.Repeat("y", 128), strings.Repeat("z", 130), strings.Repeat("w", 256), strings.Repeat("é", 150),
}
var badUTF8 = []string{"\xff", "\xc3\x28", "\xed\xa0\x80", "\xc0\xaf", "\xf4\x90\x80\x80", "\xe0\x80\x80", "ok\x80", "\xf8\x88\x80\x80\x80", "\xc2"}

var extraOids = [][]int{
	{2, 5, 4, 3}, {2, 5, 4, 5}, {2, 5, 4, 6}, {2, 5, 4, 10}, {2, 5, 4, 99}, {2, 5, 4, 42}, {2, 5, 4, 4}, {2, 5, 4, 97},
	{2, 5, 4}, {2, 5, 4, 3, 1}, {2, 5, 5, 3}, {1, 5, 4, 3}, {2, 5, 4, 128}, {2, 5, 4, 16383}, {1, 2, 3, 4},
	{2, 999, 1}, {0, 39}, {1, 39, 2147483647}, {2, 2147483567}, {2, 100, 268435455, 268435456},
	{0, 9, 2342, 19200300, 100, 1, 25}, {1, 2, 840, 113549, 1, 9, 1}, {1, 3, 6, 1, 4, 1, 311, 60, 2, 1, 1},
	{1, 3, 6, 1, 4, 1, 311, 60, 2, 1, 2}, {1, 3, 6, 1, 4, 1, 311, 60, 2, 1, 3}, {1, 3, 6, 1, 4, 1, 311, 60, 2, 1},
	{0, 9, 2342, 19200300, 100, 1, 26},
}
var badOids = [][]int{{}, {2}, {3, 1}, {0, 40}, {1, 40, 1}, {1, 2147483647}, {2, 2147483568}, {2, 5, 2147483648}}

// printable low bytes: a non-ASCII rune whose code point ends in one of these must still force UTF8String
const printableLow = "abcxyzABCXYZ019 '()+,-./:=?"

// lowByteStr builds a value from non-ASCII runes chosen by the low byte of their code point (every such low
// byte is in the PrintableString set), optionally mixed with ASCII
func lowByteStr(c *vh.Ctx) string {
	bases := []rune{0x100, 0x400, 0x4e00, 0x9f00, 0xff00, 0x10400, 0x1f600}
	var rs []rune
	for n := 1 + c.Intn(4); n > 0; n-- {
		lb := rune(printableLow[c.Intn(len(printableLow))])
		if c.Intn(4) == 0 {
			rs = append(rs, lb) // plain ASCII in between
		} else {
			rs = append(rs, bases[c.Intn(len(bases))]+lb)
		}
	}
	if c.Intn(3) == 0 { // make sure at least one non-ASCII rune is present
		rs = append(rs, bases[c.Intn(len(bases))]+rune(printableLow[c.Intn(len(printableLow))]))
	}
	return string(rs)
}

func pickStr(c *vh.Ctx, allowBad bool) string {
	if allowBad && c.Intn(40) == 0 {
		return badUTF8[c.Intn(len(badUTF8))]
	}
	if c.Intn(6) == 0 {
		return lowByteStr(c)
	}
	if c.Intn(6) == 0 { // random short string over a small alphabet: many ties and shared prefixes for the SET OF sort
		n := c.Intn(4)
		b := make([]byte, n)
		for i := range b {
			b[i] = "abAB01 *&@é"[c.Intn(11)]
		}
		return string(b)
	}
	return pool[c.Intn(len(pool))]
}

func genList(c *vh.Ctx, allowBad bool) []string {
	var n int
	switch c.Intn(8) {
	case 0, 1, 2, 3:
		return nil
	case 4, 5:
		n = 1
	case 6:
		n = 3
	default:
		n = 2 + c.Intn(3)
	}
	l := make([]string, n)
	for i := range l {
		l[i] = hx(pickStr(c, allowBad))
	}
	return l
}

func genExtra(c *vh.Ctx, allowBad bool) []AV {
	var l []AV
	for k := c.Intn(4) - 1; k > 0; k-- {
		oid := extraOids[c.Intn(len(extraOids))]
		if allowBad && c.Intn(25) == 0 {
			oid = badOids[c.Intn(len(badOids))]
		}
		l = append(l, AV{Oid: oid, Kind: "str", S: hx(pickStr(c, allowBad))})
	}
	return l
}

func genName(c *vh.Ctx, allowBad, onlyEmitted bool) *NameIn {
	n := &NameIn{}
	sparse := c.Intn(3) == 0
	for i := range fields {
		if onlyEmitted && !fields[i].emitted {
			continue
		}
		if sparse && c.Intn(4) != 0 {
			continue
		}
		n.Lists[i] = genList(c, allowBad)
	}
	if c.Bool() {
		n.CN = hx(pickStr(c, allowBad))
	}
	if c.Intn(3) == 0 {
		n.SN = hx(pickStr(c, allowBad))
	}
	return n
}

// a sequence for Fill / Marshal: derived from a name, then regrouped and salted with odd attributes
func genSeq(c *vh.Ctx, forEnc bool) [][]AV {
	base := toName(genName(c, forEnc, true))
	var s [][]AV
	for _, r := range base.ToRDNSequence() {
		var rr []AV
		for _, a := range r {
			rr = append(rr, AV{Oid: a.Type, Kind: "str", S: hx(a.Value.(string))})
		}
		s = append(s, rr)
	}
	odd := func() AV {
		a := AV{Oid: extraOids[c.Intn(len(extraOids))], Kind: "str", S: hx(pickStr(c, forEnc))}
		switch c.Intn(8) {
		case 0:
			a.Kind = "raw"
			a.Cls, a.Tag, a.Comp = c.Intn(4), []int{0, 1, 2, 4, 5, 12, 19, 22, 30, 31, 127, 128, 16384}[c.Intn(13)], c.Bool()
			a.S = vh.Hex(c.Bytes(c.Intn(4)))
		case 1:
			if !forEnc {
				a.Kind = []string{"int", "nil", "bytes"}[c.Intn(3)]
			}
		}
		if forEnc && c.Intn(30) == 0 {
			a.Oid = badOids[c.Intn(len(badOids))]
		}
		return a
	}
	for k := c.Intn(4); k > 0; k-- {
		switch c.Intn(5) {
		case 0: // new RDN somewhere
			i := c.Intn(len(s) + 1)
			s = append(s[:i], append([][]AV{{odd()}}, s[i:]...)...)
		case 1: // extend an RDN (mixed types within one SET)
			if len(s) > 0 {
				i := c.Intn(len(s))
				s[i] = append(s[i], odd())
			}
		case 2: // merge two neighbours
			if len(s) > 1 {
				i := c.Intn(len(s) - 1)
				s[i] = append(s[i], s[i+1]...)
				s = append(s[:i+1], s[i+2:]...)
			}
		case 3: // empty RDN
			i := c.Intn(len(s) + 1)
			s = append(s[:i], append([][]AV{{}}, s[i:]...)...)
		case 4: // duplicate an attribute (last-wins, equal encodings in one SET)
			if len(s) > 0 {
				i := c.Intn(len(s))
				if len(s[i]) > 0 {
					s[i] = append(s[i], s[i][c.Intn(len(s[i]))])
				}
			}
		}
	}
	if s == nil {
		s = [][]AV{}
	}
	return s
}

// ---- hand-built DER (independent of the code under test) ----
func derLen(n int) []byte {
	if n < 128 {
		return []byte{byte(n)}
	}
	var b []byte
	for m := n; m > 0; m >>= 8 {
		b = append([]byte{byte(m)}, b...)
	}
	return append([]byte{0x80 | byte(len(b))}, b...)
}
func derTLV(id byte, content []byte) []byte {
	return append(append([]byte{id}, derLen(len(content))...), content...)
}
func derATV(oidBody []byte, value []byte) []byte {
	return derTLV(0x30, append(derTLV(0x06, oidBody), value...))
}
func derName(atvs ...[]byte) []byte {
	var sets []byte
	for _, a := range atvs {
		sets = append(sets, derTLV(0x31, a)...)
	}
	return derTLV(0x30, sets)
}

var cnBody = []byte{0x55, 0x04, 0x03}

func handBuilt() []struct {
	note string
	b    []byte
	diff bool
} {
	type hb = struct {
		note string
		b    []byte
		diff bool
	}
	var out []hb
	add := func(note string, b []byte, diff bool) { out = append(out, hb{note, b, diff}) }
	str := func(tag byte, s string) []byte { return derTLV(tag, []byte(s)) }
	one := func(v []byte) []byte { return derName(derATV(cnBody, v)) }
	add("empty sequence", []byte{0x30, 0x00}, true)
	add("empty input", []byte{}, true)
	add("empty set", derTLV(0x30, []byte{0x31, 0x00}), true)
	add("printable", one(str(0x13, "abc")), true)
	add("printable with asterisk", one(str(0x13, "*.a")), true)
	add("printable with ampersand", one(str(0x13, "AT&T")), true)
	add("printable with at", one(str(0x13, "a@b")), true)
	add("printable with underscore", one(str(0x13, "a_b")), true)
	add("utf8", one(str(0x0c, "Zürich")), true)
	add("utf8 invalid", one(str(0x0c, "\xc3\x28")), true)
	add("utf8 surrogate", one(str(0x0c, "\xed\xa0\x80")), true)
	add("utf8 overlong", one(str(0x0c, "\xc0\xaf")), true)
	add("utf8 beyond max", one(str(0x0c, "\xf4\x90\x80\x80")), true)
	add("utf8 max", one(str(0x0c, "\xf4\x8f\xbf\xbf")), true)
	add("utf8 three byte edge", one(str(0x0c, "\xe0\xa0\x80\xed\x9f\xbf\xee\x80\x80")), true)
	add("utf8 truncated", one(str(0x0c, "\xe2\x82")), true)
	add("ia5", one(str(0x16, "user@example.com")), true)
	add("ia5 high", one(str(0x16, "\x80")), true)
	add("t61", one(str(0x14, "\xe9\xff")), false)
	add("numeric", one(str(0x12, "12 34")), true)
	add("numeric bad", one(str(0x12, "12a")), true)
	add("general string", one(str(0x1b, "abc")), true)
	add("integer", one(derTLV(0x02, []byte{0x05})), true)
	add("integer empty", one(derTLV(0x02, []byte{})), true)
	add("integer non-minimal", one(derTLV(0x02, []byte{0x00, 0x05})), true)
	add("integer non-minimal ff", one(derTLV(0x02, []byte{0xff, 0x85})), true)
	add("integer 8 bytes", one(derTLV(0x02, []byte{1, 2, 3, 4, 5, 6, 7, 8})), true)
	add("integer 9 bytes", one(derTLV(0x02, []byte{1, 2, 3, 4, 5, 6, 7, 8, 9})), true)
	add("bit string", one(derTLV(0x03, []byte{0x04, 0xf0})), true)
	add("bit string bad padding", one(derTLV(0x03, []byte{0x04, 0xf8})), true)
	add("bit string pad 8", one(derTLV(0x03, []byte{0x08, 0x00})), true)
	add("bit string only pad", one(derTLV(0x03, []byte{0x01})), true)
	add("bit string empty", one(derTLV(0x03, []byte{})), true)
	add("bit string zero", one(derTLV(0x03, []byte{0x00})), true)
	add("oid value", one(derTLV(0x06, []byte{0x2a, 0x03})), true)
	add("oid value bad", one(derTLV(0x06, []byte{0x2a, 0x80, 0x01})), true)
	add("oid value empty", one(derTLV(0x06, []byte{})), true)
	add("octet string", one(derTLV(0x04, []byte{1, 2})), true)
	add("null", one([]byte{0x05, 0x00}), true)
	add("boolean", one([]byte{0x01, 0x01, 0xff}), true)
	add("constructed value", one(derTLV(0x30, str(0x13, "x"))), true)
	add("constructed printable", one(derTLV(0x33, []byte("abc"))), true)
	add("context value", one(derTLV(0x80, []byte("abc"))), true)
	add("application constructed", one(derTLV(0x61, []byte{})), true)
	add("high tag value", one(append([]byte{0x1f, 0x1f, 0x01}, 0x41)), true)
	add("high tag value 2 groups", one(append([]byte{0x1f, 0x81, 0x00, 0x01}, 0x41)), true)
	add("high tag non-minimal", one(append([]byte{0x1f, 0x1e, 0x01}, 0x41)), true)
	add("high tag leading 80", one(append([]byte{0x1f, 0x80, 0x1f, 0x01}, 0x41)), true)
	add("high tag too large", one(append([]byte{0x1f, 0x88, 0x80, 0x80, 0x80, 0x00, 0x01}, 0x41)), true)
	add("high tag max int32", one(append([]byte{0x1f, 0x87, 0xff, 0xff, 0xff, 0x7f, 0x01}, 0x41)), true)
	add("high tag six groups", one(append([]byte{0x1f, 0x81, 0x80, 0x80, 0x80, 0x80, 0x00, 0x01}, 0x41)), true)
	add("utc time (unmodelled)", one(str(0x17, "250101000000Z")), true)
	add("generalized time (unmodelled)", one(str(0x18, "20250101000000Z")), true)
	add("bmp string (unmodelled)", one(derTLV(0x1e, []byte{0, 'a', 0, 'b'})), false)
	add("missing value", derName(derTLV(0x30, derTLV(0x06, cnBody))), true)
	add("empty atv", derName([]byte{0x30, 0x00}), true)
	add("trailing element in atv", derName(derTLV(0x30, append(append(derTLV(0x06, cnBody), str(0x13, "a")...), 0x05, 0x00))), true)
	add("trailing garbage in atv", derName(derTLV(0x30, append(append(derTLV(0x06, cnBody), str(0x13, "a")...), 0xff))), true)
	add("type not an oid", derName(derTLV(0x30, append(str(0x13, "a"), str(0x13, "b")...))), true)
	add("constructed oid", derName(derTLV(0x30, append(derTLV(0x26, cnBody), str(0x13, "b")...))), true)
	add("oid empty", derName(derATV([]byte{}, str(0x13, "a"))), true)
	add("oid leading 80", derName(derATV([]byte{0x80, 0x01}, str(0x13, "a"))), true)
	add("oid truncated", derName(derATV([]byte{0x55, 0x84}, str(0x13, "a"))), true)
	add("oid arc max", derName(derATV([]byte{0x55, 0x87, 0xff, 0xff, 0xff, 0x7f}, str(0x13, "a"))), true)
	add("oid arc too large", derName(derATV([]byte{0x55, 0x88, 0x80, 0x80, 0x80, 0x00}, str(0x13, "a"))), true)
	add("oid first 2.999", derName(derATV([]byte{0x88, 0x37, 0x01}, str(0x13, "a"))), true)
	add("oid first 79", derName(derATV([]byte{0x4f}, str(0x13, "a"))), true)
	add("unsorted set", derTLV(0x30, derTLV(0x31, append(derATV(cnBody, str(0x13, "b")), derATV(cnBody, str(0x13, "a"))...))), true)
	add("two values sorted", derTLV(0x30, derTLV(0x31, append(derATV(cnBody, str(0x13, "a")), derATV(cnBody, str(0x13, "b"))...))), true)
	add("set instead of sequence at top", derTLV(0x31, derTLV(0x31, derATV(cnBody, str(0x13, "a")))), true)
	add("sequence instead of set", derTLV(0x30, derTLV(0x30, derATV(cnBody, str(0x13, "a")))), true)
	add("set of sets", derTLV(0x30, derTLV(0x31, derTLV(0x31, []byte{}))), true)
	add("primitive sequence", []byte{0x10, 0x00}, true)
	add("trailing data after name", append(one(str(0x13, "a")), 0xde, 0xad), true)
	add("length non-minimal 81 05", []byte{0x30, 0x81, 0x05, 0x31, 0x03, 0x30, 0x01, 0x00}, true)
	add("length leading zero", []byte{0x30, 0x82, 0x00, 0x80}, true)
	add("length indefinite", []byte{0x30, 0x80, 0x00, 0x00}, true)
	add("length too large", []byte{0x30, 0x84, 0x80, 0x00, 0x00, 0x00}, true)
	add("length 5 bytes", []byte{0x30, 0x85, 0x01, 0x00, 0x00, 0x00, 0x00}, true)
	add("length truncated", []byte{0x30, 0x82, 0x01}, true)
	add("content truncated", []byte{0x30, 0x05, 0x31, 0x00}, true)
	add("only identifier", []byte{0x30}, true)
	add("length 3 bytes truncated content", []byte{0x30, 0x83, 0x01, 0x00, 0x00, 0x31, 0x00}, true)
	add("length 4 bytes truncated content", []byte{0x30, 0x84, 0x7f, 0xff, 0xff, 0xff, 0x31, 0x00}, true)
	add("length 2 bytes", one(str(0x13, strings.Repeat("a", 300))), true)
	add("long value 200", one(str(0x13, strings.Repeat("a", 200))), true)
	add("long value 70000", one(str(0x0c, strings.Repeat("é", 35000))), true)
	return out
}

func mutate(c *vh.Ctx, b []byte) []byte {
	o := append([]byte{}, b...)
	if len(o) == 0 {
		return []byte{byte(c.U64())}
	}
	switch c.Intn(7) {
	case 0: // flip one bit
		i := c.Intn(len(o))
		o[i] ^= 1 << uint(c.Intn(8))
	case 1: // replace a byte by an interesting one
		o[c.Intn(len(o))] = []byte{0x00, 0x01, 0x7f, 0x80, 0x81, 0xff, 0x30, 0x31, 0x06, 0x0c, 0x13, 0x16, 0x1f, 0x02, 0x03}[c.Intn(15)]
	case 2: // delete a byte
		i := c.Intn(len(o))
		o = append(o[:i], o[i+1:]...)
	case 3: // insert a byte
		i := c.Intn(len(o) + 1)
		o = append(o[:i], append([]byte{byte(c.U64())}, o[i:]...)...)
	case 4: // truncate
		o = o[:c.Intn(len(o))]
	case 5: // append
		o = append(o, c.Bytes(1+c.Intn(3))...)
	case 6: // increment / decrement a byte (lengths)
		i := c.Intn(len(o))
		if c.Bool() {
			o[i]++
		} else {
			o[i]--
		}
	}
	return o
}

func gen(c *vh.Ctx) {
	scale := 1
	if c.Thorough {
		scale = 12
	}
	// fixed shapes first: 0/1/3 values in every field, each character class
	for _, k := range []int{0, 1, 3} {
		for _, vals := range [][]string{{"US", "Acme Co", "b"}, {"Zürich", "日本", "é"}, {`a,b+c"d\e<f>g;h#i `, " lead", "#x"}, {"b", "a", "aa"}, {"a@", "ab", "a*"}, {"Łukasz", "中", "са"}, {"Aleš", "A Ł", "中-文"}} {
			n := &NameIn{}
			for i := range fields {
				for j := 0; j < k; j++ {
					n.Lists[i] = append(n.Lists[i], hx(vals[j]))
				}
			}
			if k > 0 {
				n.CN, n.SN = hx(vals[0]), hx(vals[1])
			}
			runRT(c, Input{Kind: "rt", Name: n})
			runToRDN(c, Input{Kind: "tordn", Name: n})
		}
	}
	for i := 0; i < 260*scale; i++ {
		n := genName(c, true, false)
		n.Extra = genExtra(c, true)
		runRT(c, Input{Kind: "rt", Name: n})
	}
	for i := 0; i < 150*scale; i++ {
		n := genName(c, true, false)
		n.Extra = genExtra(c, true)
		if c.Intn(5) == 0 {
			s := genSeq(c, false)
			if c.Intn(4) == 0 {
				s = [][]AV{}
			}
			n.Orig = &s
		}
		runToRDN(c, Input{Kind: "tordn", Name: n})
	}
	for i := 0; i < 200*scale; i++ {
		in := Input{Kind: "fill", Name: &NameIn{}}
		if c.Intn(3) == 0 {
			in.Name = genName(c, false, false)
			if c.Bool() {
				in.Name.Names = genExtra(c, false)
			}
			if c.Intn(4) == 0 {
				s := genSeq(c, false)
				in.Name.Orig = &s
			}
		}
		if c.Intn(12) != 0 {
			s := genSeq(c, false)
			in.Seq = &s
		}
		runFill(c, in)
	}
	var encoded [][]byte
	var encodedStrOnly []bool // the standard library decodes more non-string ANY values (e.g. BOOLEAN) than the fork: compare on strings only
	for i := 0; i < 200*scale; i++ {
		s := genSeq(c, true)
		in := Input{Kind: "enc", Seq: &s}
		runEnc(c, in)
		if b, ok := zMarshal(toSeq(s)); ok {
			encoded = append(encoded, b)
			strOnly := true
			for _, r := range s {
				for _, a := range r {
					if a.Kind != "str" {
						strOnly = false
					}
				}
			}
			encodedStrOnly = append(encodedStrOnly, strOnly)
		}
	}
	hbs := handBuilt()
	for _, h := range hbs {
		runDec(c, Input{Kind: "dec", Bytes: vh.Hex(h.b), Note: h.note, Diff: h.diff})
	}
	for i, b := range encoded {
		if len(b) < 1500 {
			runDec(c, Input{Kind: "dec", Bytes: vh.Hex(b), Diff: encodedStrOnly[i]})
		}
	}
	for i := 0; i < 500*scale; i++ {
		var b []byte
		if c.Intn(3) == 0 || len(encoded) == 0 {
			b = hbs[c.Intn(len(hbs))].b
		} else {
			b = encoded[c.Intn(len(encoded))]
		}
		if len(b) > 400 {
			continue
		}
		b = mutate(c, b)
		if c.Intn(4) == 0 {
			b = mutate(c, b)
		}
		runDec(c, Input{Kind: "dec", Bytes: vh.Hex(b), Note: "mutated"})
	}
}

func replay(c *vh.Ctx, raw json.RawMessage) {
	var in Input
	if err := json.Unmarshal(raw, &in); err != nil {
		panic(err)
	}
	if in.Name == nil {
		in.Name = &NameIn{}
	}
	switch in.Kind {
	case "tordn":
		runToRDN(c, in)
	case "fill":
		runFill(c, in)
	case "enc":
		if in.Seq == nil {
			in.Seq = &[][]AV{}
		}
		runEnc(c, in)
	case "dec":
		runDec(c, in)
	default:
		runRT(c, in)
	}
}

func main() { vh.Main("C22", gen, replay) }
