// C03 harness: signature creation and verification in zcrypto's x509 / ocsp / rsa / dsa.
//
// --tables regenerates coq/gen/C03Tables_gen.v from the built code: both
// signatureAlgorithmDetails tables (x509 and the OCSP copy) and rsa.hashPrefixes.
//
// Correspondence streams (model coq/model/C03.v):
//
//	signcase  : for every (creation API x key type x requested algorithm) cell, what the created
//	            object carries (AlgorithmIdentifier OID + parameters) and how it is really signed
//	            (hash, padding), read back from the DER bytes with independent primitives
//	checkcase : CheckSignatureFromKey on genuine signatures of every (padding, hash) under every
//	            claimed algorithm, key (same / other / other type) and message
//	psscase   : emsaPSSEncode / emsaPSSVerify with an instrumented hash (the model gets the table of
//	            hash calls), incl. every single-bit change of small encoded messages
//	dsacase   : dsa.Verify on a toy group (every (r, s) pair) and on generated 1024/160 groups
//
// Direct oracle: for every cell create -> verify with the object's own API -> change message,
// signature, key, claimed algorithm -> must be rejected; crypto/x509 as second verifier.
//
//go:debug rsa1024min=0
package main

import (
	"bytes"
	"crypto"
	"crypto/ecdsa"
	ed "crypto/ed25519"
	"crypto/elliptic"
	_ "crypto/md5"
	srsa "crypto/rsa"
	_ "crypto/sha1"
	"crypto/sha256"
	_ "crypto/sha512"
	sx509 "crypto/x509"
	spkix "crypto/x509/pkix"
	sasn1 "encoding/asn1"
	"encoding/json"
	"errors"
	"fmt"
	"hash"
	"io"
	"math/big"
	"sort"
	"strings"
	"time"

	"golang.org/x/crypto/ed25519"

	zdsa "github.com/zmap/zcrypto/dsa"
	zrsa "github.com/zmap/zcrypto/rsa"
	"github.com/zmap/zcrypto/x509"
	"github.com/zmap/zcrypto/x509/pkix"
	"github.com/zmap/zcrypto/x509/revocation/ocsp"
	"verifharness/vh"
)

// ---------------------------------------------------------------- deterministic PRNG
type rng struct{ s uint64 }

func (r *rng) U64() uint64 {
	r.s += 0x9E3779B97F4A7C15
	z := r.s
	z = (z ^ (z >> 30)) * 0xBF58476D1CE4E5B9
	z = (z ^ (z >> 27)) * 0x94D049BB133111EB
	return z ^ (z >> 31)
}
func (r *rng) Intn(n int) int {
	if n <= 0 {
		return 0
	}
	return int(r.U64() % uint64(n))
}
func (r *rng) Bytes(n int) []byte {
	b := make([]byte, n)
	for i := range b {
		b[i] = byte(r.U64())
	}
	return b
}
func (r *rng) Read(p []byte) (int, error) {
	for i := range p {
		p[i] = byte(r.U64())
	}
	return len(p), nil
}

var one = big.NewInt(1)

func genPrime(r *rng, bits int) *big.Int {
	for {
		b := r.Bytes((bits + 7) / 8)
		top := uint(bits % 8)
		if top == 0 {
			top = 8
		}
		b[0] &= byte(1<<top - 1)
		if top >= 2 {
			b[0] |= 3 << (top - 2)
		} else {
			b[0] |= 1
		}
		b[len(b)-1] |= 1
		p := new(big.Int).SetBytes(b)
		if p.ProbablyPrime(20) {
			return p
		}
	}
}

func genRSA(r *rng, bits int) *zrsa.PrivateKey {
	for {
		p, q := genPrime(r, bits/2), genPrime(r, bits-bits/2)
		if p.Cmp(q) == 0 {
			continue
		}
		n := new(big.Int).Mul(p, q)
		if n.BitLen() != bits {
			continue
		}
		tot := new(big.Int).Mul(new(big.Int).Sub(p, one), new(big.Int).Sub(q, one))
		e := big.NewInt(65537)
		d := new(big.Int).ModInverse(e, tot)
		if d == nil {
			continue
		}
		k := &zrsa.PrivateKey{PublicKey: zrsa.PublicKey{N: n, E: e}, D: d, Primes: []*big.Int{p, q}}
		k.Precompute()
		return k
	}
}

func genEC(r *rng, c elliptic.Curve) *ecdsa.PrivateKey {
	n := c.Params().N
	for {
		d := new(big.Int).SetBytes(r.Bytes((n.BitLen() + 7) / 8))
		d.Mod(d, n)
		if d.Sign() == 0 {
			continue
		}
		x, y := c.ScalarBaseMult(d.Bytes())
		return &ecdsa.PrivateKey{PublicKey: ecdsa.PublicKey{Curve: c, X: x, Y: y}, D: d}
	}
}

func genDSA(r *rng, L, N int) *zdsa.PrivateKey {
	for {
		q := genPrime(r, N)
		for tries := 0; tries < 4096; tries++ {
			k := new(big.Int).SetBytes(r.Bytes((L - N + 7) / 8))
			k.SetBit(k, L-N-1, 1)
			k.Rsh(k, 0)
			p := new(big.Int).Mul(q, k)
			p.Add(p, one)
			if p.BitLen() != L || !p.ProbablyPrime(20) {
				continue
			}
			e := new(big.Int).Div(new(big.Int).Sub(p, one), q)
			g := new(big.Int).Exp(big.NewInt(2), e, p)
			if g.Cmp(one) == 0 {
				continue
			}
			x := new(big.Int).SetBytes(r.Bytes(N / 8))
			x.Mod(x, new(big.Int).Sub(q, one))
			x.Add(x, one)
			priv := &zdsa.PrivateKey{X: x}
			priv.P, priv.Q, priv.G = p, q, g
			priv.Y = new(big.Int).Exp(g, x, p)
			return priv
		}
	}
}

// a crypto.Signer whose Public() is of a type the library does not sign with
type fakeSigner struct{ pub crypto.PublicKey }

func (f fakeSigner) Public() crypto.PublicKey { return f.pub }
func (f fakeSigner) Sign(io.Reader, []byte, crypto.SignerOpts) ([]byte, error) {
	return nil, errors.New("fake signer")
}

// ---------------------------------------------------------------- keys of one run
type keyset struct {
	seed  uint64
	rsa   [2]*zrsa.PrivateKey
	ec    map[int][2]*ecdsa.PrivateKey // curve code -> keys
	ed    [2]ed25519.PrivateKey
	dsa   *zdsa.PrivateKey
	std   *srsa.PrivateKey
	certs map[string]*x509.Certificate // self-signed certificate per signer key
}

var curves = map[int]elliptic.Curve{1: elliptic.P224(), 2: elliptic.P256(), 3: elliptic.P384(), 4: elliptic.P521()}

func newKeyset(seed uint64) *keyset {
	r := &rng{s: seed}
	ks := &keyset{seed: seed, ec: map[int][2]*ecdsa.PrivateKey{}, certs: map[string]*x509.Certificate{}}
	ks.rsa[0], ks.rsa[1] = genRSA(r, 1536), genRSA(r, 1536) // large enough for PSS with SHA-512
	for _, c := range []int{1, 2, 3, 4} {
		ks.ec[c] = [2]*ecdsa.PrivateKey{genEC(r, curves[c]), genEC(r, curves[c])}
	}
	ks.ed[0], ks.ed[1] = ed25519.NewKeyFromSeed(r.Bytes(32)), ed25519.NewKeyFromSeed(r.Bytes(32))
	ks.dsa = genDSA(r, 1024, 160)
	z := ks.rsa[1]
	ks.std = &srsa.PrivateKey{PublicKey: srsa.PublicKey{N: z.N, E: 65537}, D: z.D, Primes: z.Primes}
	ks.std.Precompute()
	return ks
}

// key types, as model codes
type ktype struct {
	name  string // rsa | dsa | ec | aug | ed | other
	curve int
}

func (k ktype) coq() string {
	switch k.name {
	case "rsa":
		return "KRSA"
	case "dsa":
		return "KDSA"
	case "ec":
		return vh.App("KECDSA", vh.NI(k.curve))
	case "aug":
		return "KAugECDSA"
	case "ed":
		return "KEd25519"
	}
	return "KOther"
}

func (ks *keyset) signer(k ktype, idx int) crypto.Signer {
	switch k.name {
	case "rsa":
		return ks.rsa[idx]
	case "ec":
		return ks.ec[k.curve][idx]
	case "ed":
		return ks.ed[idx]
	case "dsa":
		return fakeSigner{&ks.dsa.PublicKey}
	}
	return ks.std // *crypto/rsa.PrivateKey: not a key type zcrypto signs with
}

var now = time.Date(2026, 9, 1, 0, 0, 0, 0, time.UTC)

func caTemplate(cn string) *x509.Certificate {
	return &x509.Certificate{SerialNumber: big.NewInt(7), Subject: pkix.Name{CommonName: cn}, NotBefore: now.Add(-time.Hour), NotAfter: now.Add(240 * time.Hour),
		IsCA: true, BasicConstraintsValid: true, KeyUsage: x509.KeyUsageCertSign | x509.KeyUsageCRLSign | x509.KeyUsageDigitalSignature, SubjectKeyId: []byte{1, 2, 3, 4}}
}

// the parsed self-signed certificate of a signer key (default algorithm); nil if it cannot be made
func (ks *keyset) cert(k ktype, idx int) *x509.Certificate {
	id := fmt.Sprintf("%s%d-%d", k.name, k.curve, idx)
	if c, ok := ks.certs[id]; ok {
		return c
	}
	s := ks.signer(k, idx)
	tpl := caTemplate("ca-" + id)
	der, err := x509.CreateCertificate(&rng{s: 1}, tpl, tpl, s.Public(), s)
	var c *x509.Certificate
	if err == nil {
		c, _ = x509.ParseCertificate(der)
	}
	ks.certs[id] = c
	return c
}

// ---------------------------------------------------------------- creation APIs
var apis = []string{"cert", "csr", "crl", "revlist", "ocsp"}

func apiCoq(a string) string {
	return map[string]string{"cert": "ACert", "csr": "ACSR", "crl": "ACRL", "revlist": "ARevList", "ocsp": "AOCSP"}[a]
}

func create(ks *keyset, api string, s crypto.Signer, req int) (der []byte, err error) {
	defer func() {
		if rec := recover(); rec != nil {
			err = fmt.Errorf("panic: %v", rec)
		}
	}()
	r := &rng{s: 99}
	alg := x509.SignatureAlgorithm(req)
	tpl := caTemplate("issuer")
	switch api {
	case "cert":
		tpl.SignatureAlgorithm = alg
		return x509.CreateCertificate(r, tpl, tpl, s.Public(), s)
	case "csr":
		return x509.CreateCertificateRequest(r, &x509.CertificateRequest{Subject: pkix.Name{CommonName: "req"}, SignatureAlgorithm: alg, DNSNames: []string{"a.example"}}, s)
	case "crl":
		// Certificate.CreateCRL has no algorithm parameter; req is ignored
		return tpl.CreateCRL(r, s, []pkix.RevokedCertificate{{SerialNumber: big.NewInt(5), RevocationTime: now}}, now, now.Add(24*time.Hour))
	case "revlist":
		return x509.CreateRevocationList(r, &x509.RevocationList{SignatureAlgorithm: alg, Number: big.NewInt(3), ThisUpdate: now, NextUpdate: now.Add(24 * time.Hour),
			RevokedCertificates: []x509.RevokedCertificate{{SerialNumber: big.NewInt(5), RevocationTime: now}}}, tpl, s)
	case "ocsp":
		issuer := ks.cert(ktype{name: "rsa"}, 0)
		return ocsp.CreateResponse(issuer, issuer, ocsp.Response{Status: ocsp.Good, SerialNumber: big.NewInt(9), ThisUpdate: now, NextUpdate: now.Add(time.Hour), SignatureAlgorithm: alg}, s)
	}
	panic(api)
}

// independent dissection of a signed object: TBS bytes, AlgorithmIdentifier, signature
type signedObj struct {
	tbs    []byte
	oid    []int
	params []byte
	sig    []byte
	tbsOff int // offset of the TBS bytes inside the DER (for mutations)
	sigOff int
}

func dissect(api string, der []byte) (*signedObj, error) {
	body := der
	base := 0
	if api == "ocsp" {
		var resp struct {
			Status   sasn1.Enumerated
			Response struct {
				Type     sasn1.ObjectIdentifier
				Response []byte
			} `asn1:"explicit,tag:0"`
		}
		if _, err := sasn1.Unmarshal(der, &resp); err != nil {
			return nil, err
		}
		body = resp.Response.Response
		base = bytes.Index(der, body)
	}
	var outer struct {
		TBS  sasn1.RawValue
		Alg  spkix.AlgorithmIdentifier
		Sig  sasn1.BitString
		Rest []sasn1.RawValue `asn1:"optional,explicit,tag:0"`
	}
	if _, err := sasn1.Unmarshal(body, &outer); err != nil {
		return nil, err
	}
	o := &signedObj{tbs: outer.TBS.FullBytes, oid: outer.Alg.Algorithm, params: outer.Alg.Parameters.FullBytes, sig: outer.Sig.RightAlign()}
	o.tbsOff = base + bytes.Index(body, o.tbs)
	o.sigOff = base + bytes.LastIndex(body, o.sig)
	return o, nil
}

var hashCodes = []crypto.Hash{crypto.MD5, crypto.SHA1, crypto.SHA224, crypto.SHA256, crypto.SHA384, crypto.SHA512}

func digestOf(h crypto.Hash, m []byte) []byte {
	if h == 0 {
		return m
	}
	x := h.New()
	x.Write(m)
	return x.Sum(nil)
}

// DigestInfo prefixes, RFC 8017 section 9.2 note 1 (independent copy)
var refPrefix = map[crypto.Hash][]byte{
	crypto.MD5:    vh.UnHex("3020300c06082a864886f70d020505000410"),
	crypto.SHA1:   vh.UnHex("3021300906052b0e03021a05000414"),
	crypto.SHA224: vh.UnHex("302d300d06096086480165030402040500041c"),
	crypto.SHA256: vh.UnHex("3031300d060960864801650304020105000420"),
	crypto.SHA384: vh.UnHex("3041300d060960864801650304020205000430"),
	crypto.SHA512: vh.UnHex("3051300d060960864801650304020305000440"),
}

var hashOIDs = map[string]crypto.Hash{"2.16.840.1.101.3.4.2.1": crypto.SHA256, "2.16.840.1.101.3.4.2.2": crypto.SHA384, "2.16.840.1.101.3.4.2.3": crypto.SHA512,
	"1.3.14.3.2.26": crypto.SHA1, "2.16.840.1.101.3.4.2.4": crypto.SHA224}

// class of AlgorithmIdentifier.Parameters: "absent", "null", "pss:<hash>" or "other"
func paramClass(p []byte) string {
	if len(p) == 0 {
		return "absent"
	}
	if bytes.Equal(p, []byte{5, 0}) {
		return "null"
	}
	var pp struct {
		Hash    spkix.AlgorithmIdentifier `asn1:"explicit,tag:0"`
		MGF     spkix.AlgorithmIdentifier `asn1:"explicit,tag:1"`
		Salt    int                       `asn1:"explicit,tag:2"`
		Trailer int                       `asn1:"optional,explicit,tag:3,default:1"`
	}
	if rest, err := sasn1.Unmarshal(p, &pp); err != nil || len(rest) != 0 {
		return "other"
	}
	h, ok := hashOIDs[pp.Hash.Algorithm.String()]
	var mgfHash spkix.AlgorithmIdentifier
	if _, err := sasn1.Unmarshal(pp.MGF.Parameters.FullBytes, &mgfHash); err != nil || !ok {
		return "other"
	}
	if pp.MGF.Algorithm.String() != "1.2.840.113549.1.1.8" || !mgfHash.Algorithm.Equal(pp.Hash.Algorithm) || pp.Salt != h.Size() || pp.Trailer != 1 ||
		!bytes.Equal(pp.Hash.Parameters.FullBytes, []byte{5, 0}) {
		return "other"
	}
	return fmt.Sprintf("pss:%d", int(h))
}

func paramCoq(c string) string {
	switch {
	case c == "absent":
		return "PAbsent"
	case c == "null":
		return "PNull"
	case strings.HasPrefix(c, "pss:"):
		return "(PPSS " + c[4:] + "%N)"
	}
	return "(PPSS 999%N)"
}

// how a signature was really made: (hash, padding) such that an independent verifier accepts; "" if none
func classifySig(pub crypto.PublicKey, tbs, sig []byte) (crypto.Hash, string) {
	switch p := pub.(type) {
	case *zrsa.PublicKey:
		k := (p.N.BitLen() + 7) / 8
		if len(sig) != k {
			return 0, ""
		}
		s := new(big.Int).SetBytes(sig)
		if s.Cmp(p.N) >= 0 {
			return 0, ""
		}
		em := new(big.Int).Exp(s, p.E, p.N).FillBytes(make([]byte, k))
		for _, h := range hashCodes {
			t := append(append([]byte{}, refPrefix[h]...), digestOf(h, tbs)...)
			if k >= len(t)+11 {
				exp := append([]byte{0, 1}, bytes.Repeat([]byte{0xff}, k-len(t)-3)...)
				exp = append(append(exp, 0), t...)
				if bytes.Equal(em, exp) {
					return h, "PadPKCS1"
				}
			}
		}
		sp := &srsa.PublicKey{N: p.N, E: int(p.E.Int64())}
		for _, h := range hashCodes {
			if srsa.VerifyPSS(sp, h, digestOf(h, tbs), sig, &srsa.PSSOptions{SaltLength: srsa.PSSSaltLengthEqualsHash}) == nil {
				return h, "PadPSS"
			}
		}
		for _, h := range hashCodes {
			if srsa.VerifyPSS(sp, h, digestOf(h, tbs), sig, &srsa.PSSOptions{SaltLength: srsa.PSSSaltLengthAuto}) == nil {
				return 0, "PadPSS" // PSS with another salt length: reported with hash 0
			}
		}
	case *ecdsa.PublicKey:
		for _, h := range hashCodes {
			if ecdsa.VerifyASN1(p, digestOf(h, tbs), sig) {
				return h, "PadECDSA"
			}
		}
	case ed25519.PublicKey:
		if ed.Verify(ed.PublicKey(p), tbs, sig) {
			return 0, "PadEd25519"
		}
	}
	return 0, ""
}

func oidCoq(o []int) string {
	xs := make([]string, len(o))
	for i, x := range o {
		xs[i] = fmt.Sprint(x)
	}
	return "[" + strings.Join(xs, ";") + "]%N"
}

// ---------------------------------------------------------------- inputs
type input struct {
	Kind    string `json:"kind"` // sign | check | pss | dsa | dsagrid | cell
	KeySeed uint64 `json:"keyseed,omitempty"`
	API     string `json:"api,omitempty"`
	KT      string `json:"kt,omitempty"`
	Curve   int    `json:"curve,omitempty"`
	Req     int    `json:"req,omitempty"`
	// check
	Algo    int    `json:"algo,omitempty"`
	KeyIdx  int    `json:"keyidx,omitempty"`
	SigPad  string `json:"sigpad,omitempty"`
	SigHash int    `json:"sighash,omitempty"`
	SigKT   string `json:"sigkt,omitempty"`
	SigCrv  int    `json:"sigcurve,omitempty"`
	SigKey  int    `json:"sigkey,omitempty"`
	SigMsg  int    `json:"sigmsg,omitempty"`
	Msg     int    `json:"msg,omitempty"`
	Mutate  string `json:"mutate,omitempty"`
	// pss
	HLen   int    `json:"hlen,omitempty"`
	EmBits int    `json:"embits,omitempty"`
	SLen   int    `json:"slen,omitempty"`
	Salt   string `json:"salt,omitempty"`
	MHash  string `json:"mhash,omitempty"`
	EM     string `json:"em,omitempty"`
	Op     string `json:"op,omitempty"`
	// dsa
	P, Q, G, Y, R, S string
	Hash             string `json:"hash,omitempty"`
	Seed             uint64 `json:"seed,omitempty"`
	Desc             string `json:"desc,omitempty"`
	IssKT            string `json:"isskt,omitempty"` // delegated: key type of the issuer of the responder certificate
	IssCurve         int    `json:"isscurve,omitempty"`
}

var keysets = map[uint64]*keyset{}

func getKeys(seed uint64) *keyset {
	if ks, ok := keysets[seed]; ok {
		return ks
	}
	ks := newKeyset(seed)
	keysets[seed] = ks
	return ks
}

// ---------------------------------------------------------------- signcase
var signKTs = []ktype{{"rsa", 0}, {"ec", 1}, {"ec", 2}, {"ec", 3}, {"ec", 4}, {"ed", 0}, {"dsa", 0}, {"other", 0}}

func signCase(c *vh.Ctx, in input) {
	ks := getKeys(in.KeySeed)
	k := ktype{in.KT, in.Curve}
	s := ks.signer(k, 0)
	der, err := create(ks, in.API, s, in.Req)
	observed := "None"
	if err == nil {
		o, derr := dissect(in.API, der)
		if derr != nil {
			observed = "(Some ([]%N, (PPSS 998%N), 0%N, PadPKCS1))" // created object does not parse: never equal to the model
		} else {
			h, pad := classifySig(s.Public(), o.tbs, o.sig)
			if pad == "" {
				pad, h = "PadDSA", 997 // no independent verifier accepts the signature
			}
			observed = vh.Some(vh.Pair(oidCoq(o.oid), paramCoq(paramClass(o.params)), vh.NI(int(h)), pad))
		}
	}
	c.Case("signcase", vh.Pair(apiCoq(in.API), k.coq(), vh.NI(in.Req), observed), in, fmt.Sprintf("%s|%s%d|%d", in.API, in.KT, in.Curve, in.Req))
	if err == nil {
		c.Stat("sign.created", 1)
	} else {
		c.Stat("sign.refused", 1)
	}
}

// ---------------------------------------------------------------- checkcase
var messages = [][]byte{[]byte("message number one, signed"), []byte("message number two, not signed")}

func padCoq(p string) string { return p }

// produce a signature with the given padding / hash by key (kt, idx) over message mi
func makeSig(ks *keyset, r *rng, pad string, h crypto.Hash, kt ktype, idx, mi int) ([]byte, error) {
	d := digestOf(h, messages[mi])
	switch pad {
	case "PadPKCS1":
		return zrsa.SignPKCS1v15(nil, ks.rsa[idx], h, d)
	case "PadPSS":
		return zrsa.SignPSS(r, ks.rsa[idx], h, d, &zrsa.PSSOptions{SaltLength: zrsa.PSSSaltLengthEqualsHash})
	case "PadPSSauto": // maximal salt: not what the verifier (salt = hash length) accepts
		return zrsa.SignPSS(r, ks.rsa[idx], h, d, &zrsa.PSSOptions{SaltLength: zrsa.PSSSaltLengthAuto})
	case "PadECDSA":
		return ecdsa.SignASN1(r, ks.ec[kt.curve][idx], d)
	case "PadEd25519":
		return ed25519.Sign(ks.ed[idx], d), nil
	case "PadDSA":
		rr, ss, err := zdsa.Sign(r, ks.dsa, d)
		if err != nil {
			return nil, err
		}
		return sasn1.Marshal(struct{ R, S *big.Int }{rr, ss})
	}
	panic(pad)
}

// the public key object handed to CheckSignatureFromKey
func (ks *keyset) pubObj(k ktype, idx int) interface{} {
	switch k.name {
	case "rsa":
		return &ks.rsa[idx].PublicKey
	case "ec":
		return &ks.ec[k.curve][idx].PublicKey
	case "aug":
		c := ks.cert(ktype{"ec", k.curve}, idx)
		return c.PublicKey // *x509.AugmentedECDSA
	case "ed":
		return ks.ed[idx].Public().(ed25519.PublicKey)
	case "dsa":
		return &ks.dsa.PublicKey
	}
	return &ks.std.PublicKey
}

// numeric identity of the underlying key pair
func keyID(k ktype, idx int) int {
	base := map[string]int{"rsa": 10, "ec": 20, "aug": 20, "ed": 40, "dsa": 50, "other": 60}[k.name]
	return base + 2*k.curve*0 + idx + 100*k.curve
}

func classOf(err error) int {
	switch {
	case err == nil:
		return 0
	case errors.As(err, new(x509.InsecureAlgorithmError)):
		return 1
	case errors.Is(err, x509.ErrUnsupportedAlgorithm):
		return 2
	}
	return 3
}

func checkCase(c *vh.Ctx, in input) {
	ks := getKeys(in.KeySeed)
	r := &rng{s: in.Seed}
	sigKT := ktype{in.SigKT, in.SigCrv}
	h := crypto.Hash(in.SigHash)
	sig, err := makeSig(ks, r, in.SigPad, h, sigKT, in.SigKey, in.SigMsg)
	if err != nil {
		panic(fmt.Sprintf("cannot sign %+v: %v", in, err))
	}
	desc := vh.Some(vh.Pair(strings.TrimSuffix(in.SigPad, "auto"), vh.NI(keyID(sigKT, in.SigKey)), vh.NI(in.SigHash), vh.NI(in.SigMsg)))
	if in.SigPad == "PadPSSauto" {
		desc = "None"
	}
	switch in.Mutate {
	case "flip":
		sig[len(sig)/2] ^= 0x10
		desc = "None"
	case "trail":
		sig = append(sig, 0xde, 0xad)
		desc = "None"
	case "trunc":
		sig = sig[:len(sig)-1]
		desc = "None"
	}
	kt := ktype{in.KT, in.Curve}
	var got int
	func() {
		defer func() {
			if rec := recover(); rec != nil {
				got = 9
			}
		}()
		got = classOf(x509.CheckSignatureFromKey(ks.pubObj(kt, in.KeyIdx), x509.SignatureAlgorithm(in.Algo), messages[in.Msg], sig))
	}()
	c.Case("checkcase", vh.Pair(vh.NI(in.Algo), kt.coq(), vh.NI(keyID(kt, in.KeyIdx)), vh.NI(in.Msg), desc, vh.NI(got)), in,
		fmt.Sprintf("%d|%s%d|%d|%d|%s|%d|%s|%d|%d|%s", in.Algo, in.KT, in.Curve, in.KeyIdx, in.Msg, in.SigPad, in.SigHash, in.SigKT, in.SigKey, in.SigMsg, in.Mutate))
	c.Stat(fmt.Sprintf("check.class%d", got), 1)
	// the property itself: accepted iff the signature is genuine for exactly this (algorithm, key, message)
	genuine := desc != "None" && keyID(kt, in.KeyIdx) == keyID(sigKT, in.SigKey) && in.Msg == in.SigMsg && algoMatches(in.Algo, in.SigPad, in.SigHash)
	if (got == 0) != genuine {
		c.Violation("check-signature-"+map[bool]string{true: "rejects-genuine", false: "accepts-forgery"}[genuine],
			fmt.Sprintf("CheckSignatureFromKey(key %s#%d, algo %d, message %d) on a %s/hash %d signature by %s#%d over message %d (%s): class %d", in.KT, in.KeyIdx, in.Algo, in.Msg,
				in.SigPad, in.SigHash, in.SigKT, in.SigKey, in.SigMsg, in.Mutate, got), "checkcase", in)
	}
}

// which x509.SignatureAlgorithm denotes (padding, hash): RFC 3279 / 4055 / 5758 / 8410
func algoMatches(algo int, pad string, h int) bool {
	type ph struct {
		pad string
		h   int
	}
	want := map[int]ph{2: {"PadPKCS1", 2}, 3: {"PadPKCS1", 3}, 4: {"PadPKCS1", 5}, 5: {"PadPKCS1", 6}, 6: {"PadPKCS1", 7},
		7: {"PadDSA", 3}, 8: {"PadDSA", 5}, 9: {"PadECDSA", 3}, 10: {"PadECDSA", 5}, 11: {"PadECDSA", 6}, 12: {"PadECDSA", 7},
		13: {"PadPSS", 5}, 14: {"PadPSS", 6}, 15: {"PadPSS", 7}, 16: {"PadEd25519", 0}}
	w, ok := want[algo]
	return ok && w.pad == pad && w.h == h
}

// ---------------------------------------------------------------- psscase
// instrumented hash: SHA-256 truncated to n bytes, recording every (input, output)
type recHash struct {
	n     int
	buf   []byte
	calls [][2][]byte
}

func (h *recHash) Write(p []byte) (int, error) { h.buf = append(h.buf, p...); return len(p), nil }
func (h *recHash) Sum(b []byte) []byte {
	s := sha256.Sum256(h.buf)
	out := append([]byte{}, s[:h.n]...)
	h.calls = append(h.calls, [2][]byte{append([]byte{}, h.buf...), out})
	return append(b, out...)
}
func (h *recHash) Reset()         { h.buf = h.buf[:0] }
func (h *recHash) Size() int      { return h.n }
func (h *recHash) BlockSize() int { return 64 }

var _ hash.Hash = (*recHash)(nil)

func (h *recHash) table() string {
	seen := map[string]bool{}
	var xs []string
	for _, c := range h.calls {
		if seen[string(c[0])] {
			continue
		}
		seen[string(c[0])] = true
		xs = append(xs, vh.Pair(vh.Bytes(c[0]), vh.Bytes(c[1])))
	}
	return vh.List0(xs, "(bytes * bytes)")
}

func obsBytes(b []byte, err error, panicked bool) string {
	switch {
	case panicked:
		return "OPanic"
	case err != nil:
		return "OErr"
	}
	return vh.App("OBytes", vh.Bytes(b))
}

func pssCase(c *vh.Ctx, in input) (out []byte, ok bool) {
	h := &recHash{n: in.HLen}
	mh, salt, em := vh.UnHex(in.MHash), vh.UnHex(in.Salt), vh.UnHex(in.EM)
	var term, ob string
	func() {
		defer func() {
			if rec := recover(); rec != nil {
				ob = "OPanic"
			}
		}()
		if in.Op == "encode" {
			b, err := zrsa.VerifEMSAPSSEncodeWith(mh, in.EmBits, salt, h)
			out, ok = b, err == nil
			ob = obsBytes(b, err, false)
		} else {
			err := zrsa.VerifEMSAPSSVerifyWith(mh, append([]byte{}, em...), in.EmBits, in.SLen, h)
			ok = err == nil
			ob = obsBytes(nil, err, false)
		}
	}()
	if in.Op == "encode" {
		term = vh.App("PssEncode", vh.Bytes(mh), vh.Z(int64(in.EmBits)), vh.Bytes(salt))
	} else {
		term = vh.App("PssVerify", vh.Bytes(mh), vh.Bytes(em), vh.Z(int64(in.EmBits)), vh.Z(int64(in.SLen)))
	}
	c.Case("psscase", vh.Pair(vh.Nat(in.HLen), h.table(), term, ob), in, fmt.Sprintf("%s|%d|%d|%d|%s|%s|%s", in.Op, in.HLen, in.EmBits, in.SLen, in.MHash, in.Salt, in.EM))
	c.Stat("pss."+in.Op+"."+ob[:4], 1)
	return
}

// ---------------------------------------------------------------- dsacase
func bz(x *big.Int) string { return vh.BigZ(x) }

func dsaCase(c *vh.Ctx, in input) {
	p, q, g, y, r, s := sB(in.P), sB(in.Q), sB(in.G), sB(in.Y), sB(in.R), sB(in.S)
	h := vh.UnHex(in.Hash)
	pub := &zdsa.PublicKey{Y: y}
	pub.P, pub.Q, pub.G = p, q, g
	got := zdsa.Verify(pub, h, r, s)
	c.Case("dsacase", vh.Pair(bz(p), bz(q), bz(g), bz(y), vh.Bytes(h), bz(r), bz(s), vh.Bool(got)), in, fmt.Sprintf("%s|%s|%s|%s|%s|%s", in.P, in.Q, in.Y, in.Hash, in.R, in.S))
	c.Stat(fmt.Sprintf("dsa.%v", got), 1)
	// the property: acceptance implies 0 < r, s < q
	if got && (r.Sign() <= 0 || s.Sign() <= 0 || r.Cmp(q) >= 0 || s.Cmp(q) >= 0) {
		c.Violation("dsa-range", fmt.Sprintf("dsa.Verify accepts r=%s s=%s outside (0, q=%s)", r, s, q), "dsacase", in)
	}
}

func sB(s string) *big.Int {
	x, ok := new(big.Int).SetString(s, 10)
	if !ok {
		panic("bad integer " + s)
	}
	return x
}

// ---------------------------------------------------------------- tables
func detailRows(rows [][4]interface{}) string {
	var xs []string
	for _, r := range rows {
		xs = append(xs, vh.Pair(vh.NI(r[0].(int)), oidCoq(r[1].([]int)), vh.NI(r[2].(int)), vh.NI(r[3].(int))))
	}
	return "[\n  " + strings.Join(xs, ";\n  ") + "]"
}

func tables(c *vh.Ctx) {
	var xr, or [][4]interface{}
	for _, d := range x509.VerifC03Details() {
		xr = append(xr, [4]interface{}{d.Algo, d.OID, d.PubKeyAlgo, d.Hash})
	}
	for _, d := range ocsp.VerifC03Details() {
		or = append(or, [4]interface{}{d.Algo, d.OID, d.PubKeyAlgo, d.Hash})
	}
	hp := zrsa.VerifHashPrefixes()
	var hs []int
	for h := range hp {
		hs = append(hs, int(h))
	}
	sort.Ints(hs)
	var ps []string
	for _, h := range hs {
		ps = append(ps, vh.Pair(vh.NI(h), vh.Bytes(hp[crypto.Hash(h)])))
	}
	var sb strings.Builder
	sb.WriteString("(* GENERATED by harness/c03 --tables from the built code; do not edit.\n")
	sb.WriteString("   x509.signatureAlgorithmDetails, ocsp.signatureAlgorithmDetails (algo, oid, pubKeyAlgo, hash), rsa.hashPrefixes *)\n")
	sb.WriteString("From Coq Require Import List NArith.\nImport ListNotations.\nOpen Scope N_scope.\n\n")
	sb.WriteString("Definition x509_details : list (N * list N * N * N) := " + detailRows(xr) + ".\n\n")
	sb.WriteString("Definition ocsp_details : list (N * list N * N * N) := " + detailRows(or) + ".\n\n")
	sb.WriteString("Definition rsa_hash_prefixes : list (N * list N) := [\n  " + strings.Join(ps, ";\n  ") + "].\n")
	c.WriteGen("C03Tables_gen.v", sb.String())
}

// ---------------------------------------------------------------- generators
func gen(c *vh.Ctx) {
	if c.Tables {
		tables(c)
		return
	}
	keySeed := c.U64()
	ks := getKeys(keySeed)
	r := &rng{s: c.U64()}

	// 1. every creation cell
	for _, api := range apis {
		for _, k := range signKTs {
			for req := 0; req <= 18; req++ {
				signCase(c, input{Kind: "sign", KeySeed: keySeed, API: api, KT: k.name, Curve: k.curve, Req: req})
			}
		}
	}
	c.Exhaustive("creation cells: 5 APIs x 8 key types x requested algorithm 0..18")

	// 2. CheckSignatureFromKey: genuine signatures of every (padding, hash) under every claimed algorithm
	type sg struct {
		pad   string
		h     int
		kt    ktype
		idx   int
		verKT []ktype // key objects the signature can be checked with
	}
	var sigs []sg
	for _, h := range []int{2, 3, 4, 5, 6, 7} {
		sigs = append(sigs, sg{"PadPKCS1", h, ktype{"rsa", 0}, 0, []ktype{{"rsa", 0}}})
	}
	for _, h := range []int{3, 5, 6} {
		sigs = append(sigs, sg{"PadPSS", h, ktype{"rsa", 0}, 0, []ktype{{"rsa", 0}}})
	}
	sigs = append(sigs, sg{"PadPSSauto", 5, ktype{"rsa", 0}, 0, []ktype{{"rsa", 0}}})
	for _, h := range []int{3, 5, 6, 7} {
		sigs = append(sigs, sg{"PadECDSA", h, ktype{"ec", 2}, 0, []ktype{{"ec", 2}, {"aug", 2}}})
	}
	sigs = append(sigs, sg{"PadECDSA", 6, ktype{"ec", 3}, 0, []ktype{{"ec", 3}, {"aug", 3}}})
	sigs = append(sigs, sg{"PadEd25519", 0, ktype{"ed", 0}, 0, []ktype{{"ed", 0}}})
	sigs = append(sigs, sg{"PadEd25519", 5, ktype{"ed", 0}, 0, []ktype{{"ed", 0}}}) // Ed25519 over the SHA-256 digest
	for _, h := range []int{3, 5} {
		sigs = append(sigs, sg{"PadDSA", h, ktype{"dsa", 0}, 0, []ktype{{"dsa", 0}}})
	}
	for _, s := range sigs {
		base := input{Kind: "check", KeySeed: keySeed, SigPad: s.pad, SigHash: s.h, SigKT: s.kt.name, SigCrv: s.kt.curve, SigKey: 0, SigMsg: 0}
		for algo := 0; algo <= 18; algo++ {
			for _, vk := range s.verKT {
				in := base
				in.Algo, in.KT, in.Curve, in.Seed = algo, vk.name, vk.curve, r.U64()
				for _, idx := range []int{0, 1} { // same key, other key of the same type
					if vk.name == "dsa" && idx == 1 {
						continue
					}
					for _, msg := range []int{0, 1} {
						if idx == 1 && msg == 1 {
							continue
						}
						in.KeyIdx, in.Msg, in.Mutate = idx, msg, ""
						checkCase(c, in)
					}
				}
				for _, mu := range []string{"flip", "trail", "trunc"} {
					in.KeyIdx, in.Msg, in.Mutate = 0, 0, mu
					if algoMatches(algo, strings.TrimSuffix(s.pad, "auto"), s.h) || algo%5 == 0 {
						checkCase(c, in)
					}
				}
			}
		}
		// keys of other types (the key object decides which primitive runs)
		for _, ok := range []ktype{{"rsa", 0}, {"ec", 2}, {"aug", 2}, {"ed", 0}, {"dsa", 0}, {"other", 0}} {
			if ok.name == s.kt.name || ((ok.name == "aug" || ok.name == "ec") && s.kt.name == "ec") {
				continue
			}
			for _, algo := range []int{0, 1, 4, 8, 10, 13, 16, 17} {
				in := base
				in.Algo, in.KT, in.Curve, in.Seed, in.KeyIdx, in.Msg = algo, ok.name, ok.curve, r.U64(), 0, 0
				checkCase(c, in)
			}
		}
	}

	// 3. PSS encoding with an instrumented, truncated hash
	genPSS(c, r)

	// 4. dsa.Verify
	genDSACases(c, r, ks)

	// 5. the direct oracle over whole objects
	oracle(c, keySeed, r)
}

func genPSS(c *vh.Ctx, r *rng) {
	type shape struct{ hl, emBits, sl int }
	var shapes []shape
	for _, hl := range []int{4, 20, 32} {
		extras, offs := []int{0, 1, 5, 8}, []int{0, 1, 7} // bytes of zero padding; unused top bits
		if hl != 4 && !c.Thorough {
			extras, offs = []int{0, 5}, []int{1, 7}
		}
		for _, extra := range extras {
			for _, sl := range []int{0, 1, hl} {
				if hl != 4 && sl == 1 && !c.Thorough {
					continue
				}
				for _, bitsOff := range offs {
					emLen := hl + sl + 2 + extra
					shapes = append(shapes, shape{hl, 8*emLen - bitsOff, sl})
				}
			}
		}
	}
	n := 0
	for _, sh := range shapes {
		mh, salt := r.Bytes(sh.hl), r.Bytes(sh.sl)
		enc := input{Kind: "pss", Op: "encode", HLen: sh.hl, EmBits: sh.emBits, MHash: vh.Hex(mh), Salt: vh.Hex(salt)}
		em, ok := pssCase(c, enc)
		if !ok {
			continue
		}
		ver := func(mh, em []byte, emBits, sl int) {
			pssCase(c, input{Kind: "pss", Op: "verify", HLen: sh.hl, EmBits: emBits, SLen: sl, MHash: vh.Hex(mh), EM: vh.Hex(em)})
		}
		for _, sl := range []int{sh.sl, -1, 0, sh.sl + 1} {
			ver(mh, em, sh.emBits, sl)
		}
		ver(mh, em, sh.emBits+8, sh.sl)
		ver(mh, em, sh.emBits-1, sh.sl)
		ver(mh[1:], em, sh.emBits, sh.sl)
		mh2 := append([]byte{}, mh...)
		mh2[0] ^= 1
		ver(mh2, em, sh.emBits, sh.sl)
		// every single-bit change of a small encoded message (4-byte hash); for the larger ones the
		// first byte, the separator, the boundaries db|h|trailer and a few random bits
		var bits []int
		if (sh.hl == 4 && len(em) <= sh.hl+sh.sl+3) || c.Thorough {
			for bit := 0; bit < 8*len(em); bit++ {
				bits = append(bits, bit)
			}
		} else {
			dbLen := len(em) - sh.hl - 1
			bits = []int{0, 7, 8 * (dbLen - sh.sl - 1), 8*dbLen - 1, 8 * dbLen, 8*(len(em)-1) - 1, 8 * (len(em) - 1), 8*len(em) - 1, r.Intn(8 * len(em)), r.Intn(8 * len(em))}
		}
		for _, bit := range bits {
			if bit < 0 || bit >= 8*len(em) {
				continue
			}
			e2 := append([]byte{}, em...)
			e2[bit/8] ^= 1 << uint(bit%8)
			ver(mh, e2, sh.emBits, sh.sl)
			if sh.sl > 0 && (bit+n)%3 == 0 {
				ver(mh, e2, sh.emBits, 0) // automatic salt length
			}
		}
		n++
	}
	// too-long / wrong-size inputs
	pssCase(c, input{Kind: "pss", Op: "encode", HLen: 20, EmBits: 8*41 - 1, MHash: vh.Hex(r.Bytes(20)), Salt: vh.Hex(r.Bytes(20))})
	pssCase(c, input{Kind: "pss", Op: "encode", HLen: 20, EmBits: 8 * 42, MHash: vh.Hex(r.Bytes(19)), Salt: vh.Hex(r.Bytes(20))})
	pssCase(c, input{Kind: "pss", Op: "verify", HLen: 20, EmBits: 8 * 30, SLen: 20, MHash: vh.Hex(r.Bytes(20)), EM: vh.Hex(r.Bytes(30))})
	pssCase(c, input{Kind: "pss", Op: "verify", HLen: 4, EmBits: 8 * 12, SLen: 0, MHash: vh.Hex(r.Bytes(4)), EM: vh.Hex(append(r.Bytes(11), 0xbc))})
}

func genDSACases(c *vh.Ctx, r *rng, ks *keyset) {
	// toy group: q = 251 (8 bits), p = 503 = 2q+1, g = 4 of order q; every (r, s) in 0..255 for a few keys and digests
	p, q, g := big.NewInt(503), big.NewInt(251), big.NewInt(4)
	toy := func(x int64, hsh []byte, rr, ss int64) {
		y := new(big.Int).Exp(g, big.NewInt(x), p)
		dsaCase(c, input{Kind: "dsa", P: p.String(), Q: q.String(), G: g.String(), Y: y.String(), Hash: vh.Hex(hsh), R: fmt.Sprint(rr), S: fmt.Sprint(ss)})
	}
	lim := int64(40)
	if c.Thorough {
		lim = 256
	}
	for _, x := range []int64{7, 100} {
		for _, hsh := range [][]byte{{5}, {0xff, 0x17}} {
			for rr := int64(-1); rr <= lim; rr++ {
				for ss := int64(-1); ss <= lim; ss++ {
					if c.Thorough || (rr+ss)%3 == 0 || rr <= 1 || ss <= 1 {
						toy(x, hsh, rr, ss)
					}
				}
			}
			for _, v := range []int64{250, 251, 252, 502, 503} {
				toy(x, hsh, v, 3)
				toy(x, hsh, 3, v)
			}
			// genuine signatures on the toy group
			for k := int64(1); k < 251; k += 17 {
				rr := new(big.Int).Exp(g, big.NewInt(k), p)
				rr.Mod(rr, q)
				kinv := new(big.Int).ModInverse(big.NewInt(k), q)
				z := new(big.Int).SetBytes(hsh)
				ss := new(big.Int).Mul(big.NewInt(x), rr)
				ss.Add(ss, z).Mod(ss, q).Mul(ss, kinv).Mod(ss, q)
				toy(x, hsh, rr.Int64(), ss.Int64())
			}
		}
	}
	// degenerate parameters
	for _, in := range []input{
		{P: "0", Q: "251", G: "4", Y: "16", R: "3", S: "3"}, {P: "503", Q: "0", G: "4", Y: "16", R: "3", S: "3"}, {P: "503", Q: "-251", G: "4", Y: "16", R: "3", S: "3"},
		{P: "503", Q: "250", G: "4", Y: "16", R: "3", S: "4"}, {P: "1019", Q: "509", G: "4", Y: "16", R: "3", S: "3"}, {P: "-503", Q: "251", G: "4", Y: "16", R: "3", S: "3"},
		{P: "503", Q: "1", G: "4", Y: "16", R: "1", S: "1"}} {
		in.Kind, in.Hash = "dsa", "05"
		dsaCase(c, in)
	}
	// a real 1024/160 group: genuine signatures and changes
	d := ks.dsa
	n := 6
	if c.Thorough {
		n = 40
	}
	for i := 0; i < n; i++ {
		hsh := r.Bytes([]int{20, 32, 20, 48}[i%4])
		rr, ss, err := zdsa.Sign(r, d, hsh)
		if err != nil {
			panic(err)
		}
		mk := func(hsh []byte, rr, ss *big.Int) {
			dsaCase(c, input{Kind: "dsa", P: d.P.String(), Q: d.Q.String(), G: d.G.String(), Y: d.Y.String(), Hash: vh.Hex(hsh), R: rr.String(), S: ss.String()})
		}
		mk(hsh, rr, ss)
		mk(hsh, new(big.Int).Add(rr, d.Q), ss)
		mk(hsh, rr, new(big.Int).Add(ss, d.Q))
		mk(hsh, rr, new(big.Int).Sub(d.Q, ss))
		h2 := append([]byte{}, hsh...)
		h2[3] ^= 4
		mk(h2, rr, ss)
		mk(hsh, new(big.Int).Neg(rr), ss)
	}
}

// ---------------------------------------------------------------- direct oracle on whole objects
type cellIn struct {
	API   string
	KT    string
	Curve int
	Req   int
}

// verify a created object with the API's own verification path, against signer certificate sc
func verifyOwn(api string, der []byte, sc *x509.Certificate) (err error) {
	defer func() {
		if rec := recover(); rec != nil {
			err = fmt.Errorf("panic: %v", rec)
		}
	}()
	switch api {
	case "cert":
		c, err := x509.ParseCertificate(der)
		if err != nil {
			return err
		}
		return sc.CheckSignature(c.SignatureAlgorithm, c.RawTBSCertificate, c.Signature)
	case "csr":
		r, err := x509.ParseCertificateRequest(der)
		if err != nil {
			return err
		}
		if sc != nil && !bytes.Equal(r.RawSubjectPublicKeyInfo, sc.RawSubjectPublicKeyInfo) {
			return errors.New("request carries another key")
		}
		return r.CheckSignature()
	case "crl":
		l, err := x509.ParseCRL(der)
		if err != nil {
			return err
		}
		return sc.CheckCRLSignature(l)
	case "revlist":
		l, err := x509.ParseRevocationList(der)
		if err != nil {
			return err
		}
		return l.CheckSignatureFrom(sc)
	case "ocsp":
		_, err := ocsp.ParseResponse(der, sc)
		return err
	}
	panic(api)
}

func cellOracle(c *vh.Ctx, keySeed uint64, ci cellIn, seed uint64) {
	ks := getKeys(keySeed)
	r := &rng{s: seed}
	k := ktype{ci.KT, ci.Curve}
	s := ks.signer(k, 0)
	in := input{Kind: "cell", KeySeed: keySeed, API: ci.API, KT: ci.KT, Curve: ci.Curve, Req: ci.Req, Seed: seed}
	fail := func(key, desc string) {
		c.Violation(key, fmt.Sprintf("%s with key %s%d, algorithm %d: %s", ci.API, ci.KT, ci.Curve, ci.Req, desc), "oracle", in)
	}
	c.Eval(fmt.Sprintf("cell|%s|%s%d|%d", ci.API, ci.KT, ci.Curve, ci.Req))
	der, err := create(ks, ci.API, s, ci.Req)
	if err != nil {
		if strings.HasPrefix(err.Error(), "panic:") {
			fail("create-panics", err.Error())
		}
		return
	}
	sc := ks.cert(k, 0)
	other := ks.cert(k, 1)
	if sc == nil {
		fail("create-no-signer-cert", "object created but no certificate can be made for the signer key")
		return
	}
	// the object verifies with its own API
	if err := verifyOwn(ci.API, der, sc); err != nil {
		fail("own-object-rejected", "the created object does not verify with its own API: "+err.Error())
		return
	}
	c.Stat("oracle.cells.verified", 1)
	o, derr := dissect(ci.API, der)
	if derr != nil {
		fail("own-object-unparseable", derr.Error())
		return
	}
	// second verifier: crypto/x509 (where it implements the algorithm)
	stdCheck(ci, der, fail)
	// other key of the same type
	if other != nil && ci.API != "csr" {
		if verifyOwn(ci.API, der, other) == nil {
			fail("other-key-accepted", "verifies against a different key of the same type")
		}
	}
	// changed message: one bit anywhere in the signed bytes
	nmut := 10
	if c.Thorough {
		nmut = 60
	}
	for i := 0; i < nmut; i++ {
		d2 := append([]byte{}, der...)
		pos := o.tbsOff + r.Intn(len(o.tbs))
		d2[pos] ^= 1 << uint(r.Intn(8))
		if verifyOwn(ci.API, d2, sc) == nil {
			fail("changed-message-accepted", fmt.Sprintf("bit changed at byte %d of the signed part, still verifies", pos-o.tbsOff))
		}
	}
	// changed signature: one bit, appended bytes, truncated
	for i := 0; i < nmut; i++ {
		d2 := append([]byte{}, der...)
		pos := o.sigOff + r.Intn(len(o.sig))
		d2[pos] ^= 1 << uint(r.Intn(8))
		if verifyOwn(ci.API, d2, sc) == nil {
			fail("changed-signature-accepted", fmt.Sprintf("bit changed at byte %d of the signature, still verifies", pos-o.sigOff))
		}
	}
	// the raw check with changed signature bytes and every other claimed algorithm
	alg := sigAlgOf(ci.API, der)
	if err := sc.CheckSignature(alg, o.tbs, o.sig); err != nil {
		fail("own-object-rejected", fmt.Sprintf("CheckSignature(%v) on the dissected object: %v", alg, err))
	}
	for _, s2 := range [][]byte{append(append([]byte{}, o.sig...), 0), append(append([]byte{}, o.sig...), 0xde, 0xad), o.sig[:len(o.sig)-1], append([]byte{0}, o.sig...), nil} {
		if sc.CheckSignature(alg, o.tbs, s2) == nil {
			fail("changed-signature-accepted", fmt.Sprintf("signature of %d bytes changed to %d bytes (appended / truncated / prefixed), still verifies", len(o.sig), len(s2)))
		}
	}
	for a := 0; a <= 18; a++ {
		if x509.SignatureAlgorithm(a) == alg {
			continue
		}
		var got error
		func() {
			defer func() {
				if rec := recover(); rec != nil {
					got = nil
					fail("check-panics", fmt.Sprintf("CheckSignature with claimed algorithm %d panics: %v", a, rec))
					got = errors.New("panic")
				}
			}()
			got = sc.CheckSignature(x509.SignatureAlgorithm(a), o.tbs, o.sig)
		}()
		if got == nil {
			fail("changed-algorithm-accepted", fmt.Sprintf("signed as %v, verifies with claimed algorithm %d", alg, a))
		}
	}
	// keys of the other types
	for _, ok := range []ktype{{"rsa", 0}, {"ec", 2}, {"ed", 0}} {
		if ok.name == k.name {
			continue
		}
		if oc := ks.cert(ok, 0); oc != nil && oc.CheckSignature(alg, o.tbs, o.sig) == nil {
			fail("other-key-accepted", "verifies against a key of type "+ok.name)
		}
	}
}

// the SignatureAlgorithm the library itself reads from the object
func sigAlgOf(api string, der []byte) x509.SignatureAlgorithm {
	switch api {
	case "cert":
		if c, err := x509.ParseCertificate(der); err == nil {
			return c.SignatureAlgorithm
		}
	case "csr":
		if c, err := x509.ParseCertificateRequest(der); err == nil {
			return c.SignatureAlgorithm
		}
	case "crl":
		if c, err := x509.ParseCRL(der); err == nil {
			return x509.GetSignatureAlgorithmFromAI(c.SignatureAlgorithm)
		}
	case "revlist":
		if c, err := x509.ParseRevocationList(der); err == nil {
			return c.SignatureAlgorithm
		}
	case "ocsp":
		if c, err := ocsp.ParseResponse(der, nil); err == nil {
			return c.SignatureAlgorithm
		}
	}
	return 0
}

func stdCheck(ci cellIn, der []byte, fail func(key, desc string)) {
	legacy := ci.Req == 2 || ci.Req == 3 || ci.Req == 9 // MD5 / SHA-1: crypto/x509 refuses them by policy
	if legacy {
		return
	}
	switch ci.API {
	case "cert":
		c, err := sx509.ParseCertificate(der)
		if err != nil {
			fail("std-rejects-object", "crypto/x509 cannot parse the certificate: "+err.Error())
			return
		}
		if err := c.CheckSignature(c.SignatureAlgorithm, c.RawTBSCertificate, c.Signature); err != nil {
			fail("std-rejects-signature", "crypto/x509 rejects the certificate signature: "+err.Error())
		}
	case "csr":
		c, err := sx509.ParseCertificateRequest(der)
		if err != nil {
			fail("std-rejects-object", "crypto/x509 cannot parse the request: "+err.Error())
			return
		}
		if err := c.CheckSignature(); err != nil {
			fail("std-rejects-signature", "crypto/x509 rejects the request signature: "+err.Error())
		}
	case "revlist", "crl":
		l, err := sx509.ParseRevocationList(der)
		if err != nil {
			fail("std-rejects-object", "crypto/x509 cannot parse the revocation list: "+err.Error())
			return
		}
		_ = l
	}
}

// forged RSA encodings: a valid encoded message with one bit changed, turned into a "signature" with
// the private key — the verifier must reject every one of them
func forgeryOracle(c *vh.Ctx, keySeed uint64, seed uint64) {
	ks := getKeys(keySeed)
	r := &rng{s: seed}
	priv := ks.rsa[0]
	pub := &priv.PublicKey
	msg := messages[0]
	in := input{Kind: "forgery", KeySeed: keySeed, Seed: seed}
	c.Eval("forgery")
	try := func(what string, alg x509.SignatureAlgorithm, em []byte, pos int) {
		em2 := append([]byte{}, em...)
		em2[pos/8] ^= 1 << uint(pos%8)
		if new(big.Int).SetBytes(em2).Cmp(pub.N) >= 0 {
			return
		}
		sig, err := zrsa.VerifDecrypt(priv, em2, false)
		if err != nil {
			return
		}
		if x509.CheckSignatureFromKey(pub, alg, msg, sig) == nil {
			c.Violation("forged-encoding-accepted", fmt.Sprintf("%s: encoded message with bit %d changed (of %d) still verifies under %v", what, pos, 8*len(em), alg), "oracle", in)
		}
	}
	for _, t := range []struct {
		alg x509.SignatureAlgorithm
		h   crypto.Hash
	}{{x509.SHA256WithRSAPSS, crypto.SHA256}, {x509.SHA384WithRSAPSS, crypto.SHA384}, {x509.SHA512WithRSAPSS, crypto.SHA512}} {
		d := digestOf(t.h, msg)
		emBits := pub.N.BitLen() - 1
		em, err := zrsa.VerifEMSAPSSEncode(d, emBits, r.Bytes(t.h.Size()), t.h)
		if err != nil {
			panic(err)
		}
		padded := append(make([]byte, (pub.N.BitLen()+7)/8-len(em)), em...)
		sig, _ := zrsa.VerifDecrypt(priv, padded, false)
		if err := x509.CheckSignatureFromKey(pub, t.alg, msg, sig); err != nil {
			c.Violation("genuine-encoding-rejected", fmt.Sprintf("PSS encoding made by emsaPSSEncode does not verify under %v: %v", t.alg, err), "oracle", in)
		}
		for pos := 0; pos < 8*len(em); pos += 1 + r.Intn(9) {
			try("PSS", t.alg, padded, 8*(len(padded)-len(em))+pos)
		}
	}
	for _, t := range []struct {
		alg x509.SignatureAlgorithm
		h   crypto.Hash
	}{{x509.SHA256WithRSA, crypto.SHA256}, {x509.SHA1WithRSA, crypto.SHA1}, {x509.SHA512WithRSA, crypto.SHA512}, {x509.MD5WithRSA, crypto.MD5}} {
		em, err := zrsa.VerifConstructEM(pub, t.h, digestOf(t.h, msg))
		if err != nil {
			panic(err)
		}
		for pos := 0; pos < 8*len(em); pos += 1 + r.Intn(9) {
			try("PKCS#1 v1.5", t.alg, em, pos)
		}
	}
}

// OCSP responses signed by a delegated responder: the responder certificate is issued by the issuer
// (library's own CreateCertificate, OCSPSigning EKU) and embedded in the response.  ParseResponse with the
// issuer must accept the genuine response and reject it when the signed bytes, the signature, the signing
// key or the claimed algorithm is changed — the embedded certificate chaining to the issuer must not make
// the response signature irrelevant.
func delegatedOracle(c *vh.Ctx, keySeed uint64, respKT, issKT ktype, req int, seed uint64) {
	ks := getKeys(keySeed)
	r := &rng{s: seed}
	in := input{Kind: "delegated", KeySeed: keySeed, KT: respKT.name, Curve: respKT.curve, IssKT: issKT.name, IssCurve: issKT.curve, Req: req, Seed: seed}
	fail := func(key, desc string) {
		c.Violation(key, fmt.Sprintf("OCSP response by a delegated %s%d responder (certificate issued by %s%d), algorithm %d: %s", respKT.name, respKT.curve, issKT.name, issKT.curve, req, desc), "oracle", in)
	}
	issuer := ks.cert(issKT, 0)
	if issuer == nil {
		return
	}
	responder := ks.signer(respKT, 1)
	rtpl := &x509.Certificate{SerialNumber: big.NewInt(77), Subject: pkix.Name{CommonName: "delegated responder"}, NotBefore: now.Add(-time.Hour), NotAfter: now.Add(240 * time.Hour),
		KeyUsage: x509.KeyUsageDigitalSignature, ExtKeyUsage: []x509.ExtKeyUsage{x509.ExtKeyUsageOcspSigning}, BasicConstraintsValid: true}
	rder, err := x509.CreateCertificate(&rng{s: 3}, rtpl, issuer, responder.Public(), ks.signer(issKT, 0))
	if err != nil {
		return
	}
	rcert, err := x509.ParseCertificate(rder)
	if err != nil {
		fail("delegated-cert-unparseable", err.Error())
		return
	}
	mk := func(priv crypto.Signer) ([]byte, error) {
		return ocsp.CreateResponse(issuer, rcert, ocsp.Response{Status: ocsp.Good, SerialNumber: big.NewInt(9), ThisUpdate: now, NextUpdate: now.Add(time.Hour),
			SignatureAlgorithm: x509.SignatureAlgorithm(req), Certificate: rcert}, priv)
	}
	parse := func(der []byte, iss *x509.Certificate) (err error) {
		defer func() {
			if rec := recover(); rec != nil {
				err = nil
				fail("parse-panics", fmt.Sprint(rec))
				err = errors.New("panic")
			}
		}()
		_, err = ocsp.ParseResponse(der, iss)
		return err
	}
	der, err := mk(responder)
	if err != nil {
		return // the API does not accept this key type / algorithm
	}
	c.Eval(fmt.Sprintf("delegated|%s%d|%s%d|%d", respKT.name, respKT.curve, issKT.name, issKT.curve, req))
	c.Stat("oracle.delegated.created", 1)
	if err := parse(der, issuer); err != nil {
		fail("delegated-genuine-rejected", "the genuine response is rejected by ParseResponse with the issuer: "+err.Error())
		return
	}
	if err := parse(der, nil); err != nil {
		fail("delegated-genuine-rejected", "the genuine response is rejected by ParseResponse without issuer: "+err.Error())
	}
	o, derr := dissect("ocsp", der)
	if derr != nil {
		fail("own-object-unparseable", derr.Error())
		return
	}
	both := func(what string, d2 []byte) {
		for _, iss := range []*x509.Certificate{issuer, nil} {
			if parse(d2, iss) == nil {
				with := "with the issuer"
				if iss == nil {
					with = "without issuer"
				}
				fail("delegated-"+strings.ReplaceAll(what, " ", "-")+"-accepted", "ParseResponse "+with+" accepts the response although its "+what+" was changed")
			}
		}
	}
	// changed message / signature
	for i := 0; i < 6; i++ {
		d2 := append([]byte{}, der...)
		d2[o.tbsOff+r.Intn(len(o.tbs))] ^= 1 << uint(r.Intn(8))
		both("message", d2)
		d3 := append([]byte{}, der...)
		d3[o.sigOff+r.Intn(len(o.sig))] ^= 1 << uint(r.Intn(8))
		both("signature", d3)
	}
	// claimed algorithm: last byte of the AlgorithmIdentifier's OID (it follows the signed bytes)
	algOff := o.tbsOff + len(o.tbs)
	if algOff+4 < len(der) && der[algOff] == 0x30 && der[algOff+2] == 0x06 {
		d2 := append([]byte{}, der...)
		d2[algOff+3+int(der[algOff+3])] ^= 1
		both("algorithm", d2)
	}
	// signed by an unrelated key (same type, and the issuer's own key), same embedded certificate
	for _, other := range []crypto.Signer{ks.signer(respKT, 0), ks.signer(issKT, 0)} {
		if d2, err := mk(other); err == nil && !bytes.Equal(d2, der) {
			both("signing key", d2)
		}
	}
	// the embedded certificate does not chain to another issuer
	for _, ok := range []ktype{{"rsa", 0}, {"ec", 2}} {
		if oi := ks.cert(ok, 1); oi != nil && parse(der, oi) == nil {
			fail("delegated-wrong-issuer-accepted", "accepted with an issuer that did not issue the responder certificate")
		}
	}
}

func oracle(c *vh.Ctx, keySeed uint64, r *rng) {
	forgeryOracle(c, keySeed, r.U64())
	for _, iss := range []ktype{{"rsa", 0}, {"ec", 2}, {"ed", 0}} {
		for _, resp := range []ktype{{"rsa", 0}, {"ec", 1}, {"ec", 2}, {"ec", 3}, {"ec", 4}, {"ed", 0}} {
			for req := 0; req <= 18; req++ {
				delegatedOracle(c, keySeed, resp, iss, req, r.U64())
			}
		}
	}
	for _, api := range apis {
		for _, k := range signKTs {
			for req := 0; req <= 18; req++ {
				cellOracle(c, keySeed, cellIn{api, k.name, k.curve, req}, r.U64())
			}
		}
	}
}

// ---------------------------------------------------------------- replay
func replay(c *vh.Ctx, raw json.RawMessage) {
	var in input
	if err := json.Unmarshal(raw, &in); err != nil {
		panic(err)
	}
	switch in.Kind {
	case "sign":
		signCase(c, in)
	case "check":
		checkCase(c, in)
	case "pss":
		pssCase(c, in)
	case "dsa":
		dsaCase(c, in)
	case "cell":
		cellOracle(c, in.KeySeed, cellIn{in.API, in.KT, in.Curve, in.Req}, in.Seed)
	case "forgery":
		forgeryOracle(c, in.KeySeed, in.Seed)
	case "delegated":
		delegatedOracle(c, in.KeySeed, ktype{in.KT, in.Curve}, ktype{in.IssKT, in.IssCurve}, in.Req, in.Seed)
	default:
		panic("unknown replay kind " + in.Kind)
	}
}

func main() { vh.Main("C03", gen, replay) }
